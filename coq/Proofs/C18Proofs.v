(** Proofs for C18 (request layer, Model/Requests.v).

    Part 1 - generic facts about program trees [prog], for every tree (hence for every
    expression, method, dictionary, store, user code and reflection table):
      - [run_passthrough]: recording pass-through handlers for any set of request kinds change
        nothing but insert a [RSeen r] after each [RIssued r] of a selected kind;
      - [cov] / [cov_sound]: a syntactic calculus of "requests certainly issued" (always / by
        every successful run) and its soundness;
      - [srel] / [srel_sound]: trees that differ only below EvaluateRequests on selected
        positions run alike under the substituting handler / without handlers.
    Part 2 - the four interpreters: derivations of [cov] and [srel] by induction on the
    expression. *)
From Coq Require Import List NArith ZArith Bool Lia.
Import ListNotations.
From LV Require Import Model.Base Model.Template Model.Eval Model.Requests Proofs.EvalInd.

Arguments PRet {S A} _.
Arguments PLift {S A} _.
Arguments PBind {S A B} _ _.
Arguments PCatch {S A} _ _.
Arguments PWrap {S A} _.
Arguments PReqE {S} _ _ _ _.
Arguments PReq {S A} _ _ _ _ _.

Section Generic.
  Variable S : Type.
  Notation prog := (prog S).
  Notation run := (run S).
  Notation MR := (MR S).

  (** ** Histories *)
  Fixpoint mark (K : rkind -> bool) (l : list hev) : list hev :=
    match l with
    | [] => []
    | RIssued r :: l' => RIssued r :: (if K r.(rq_kind) then [RSeen r] else []) ++ mark K l'
    | e :: l' => e :: mark K l'
    end.

  Lemma mark_app K l1 l2 : mark K (l1 ++ l2) = mark K l1 ++ mark K l2.
  Proof.
    induction l1 as [|e l1 IH]; [reflexivity|].
    destruct e; simpl; rewrite IH; [reflexivity| |reflexivity].
    destruct (K (rq_kind r)); reflexivity.
  Qed.

  Lemma mark_core K (l : list event) : mark K (map RCore l) = map RCore l.
  Proof. induction l as [|e l IH]; [reflexivity|]. simpl. now rewrite IH. Qed.

  Lemma issued_app (l1 l2 : list hev) : issued l1 ++ issued l2 = issued (l1 ++ l2).
  Proof. unfold issued. now rewrite flat_map_app. Qed.
  Lemma seen_app (l1 l2 : list hev) : seen l1 ++ seen l2 = seen (l1 ++ l2).
  Proof. unfold seen. now rewrite flat_map_app. Qed.
  Lemma core_app (l1 l2 : list hev) : core_events l1 ++ core_events l2 = core_events (l1 ++ l2).
  Proof. unfold core_events. now rewrite flat_map_app. Qed.

  Lemma issued_core (l : list event) : issued (map RCore l) = [].
  Proof. induction l as [|e l IH]; [reflexivity|exact IH]. Qed.
  Lemma seen_core (l : list event) : seen (map RCore l) = [].
  Proof. induction l as [|e l IH]; [reflexivity|exact IH]. Qed.

  Lemma issued_mark K l : issued (mark K l) = issued l.
  Proof.
    induction l as [|e l IH]; [reflexivity|].
    destruct e; simpl; try exact IH.
    destruct (K (rq_kind r)); simpl; now rewrite IH.
  Qed.

  Lemma core_mark K l : core_events (mark K l) = core_events l.
  Proof.
    induction l as [|e l IH]; [reflexivity|].
    destruct e; simpl; try (now rewrite IH).
    destruct (K (rq_kind r)); simpl; exact IH.
  Qed.

  Lemma seen_mark K l :
    seen l = [] -> seen (mark K l) = filter (fun r => K r.(rq_kind)) (issued l).
  Proof.
    induction l as [|e l IH]; [reflexivity|].
    destruct e; simpl; intros H.
    - now apply IH.
    - destruct (K (rq_kind r)); simpl; now rewrite IH.
    - discriminate.
  Qed.

  (** ** What [Runtime.run] does with a request, case by case *)
  Definition mkrq (k : rkind) (pth : path) (n : expr) (o : dict) : rq :=
    {| rq_kind := k; rq_path := pth; rq_node := n; rq_opts := o |}.

  Lemma run_reqE_default H pth n o d s :
    H KEval = None ->
    run H (PReqE pth n o d) s =
      (let '(r, s', l) := run H d s in (r, s', RIssued (mkrq KEval pth n o) :: l)).
  Proof.
    intros E. simpl. rewrite E. unfold bindR, emitR.
    destruct (Requests.run S H d s) as [[r s'] l]. reflexivity.
  Qed.

  Lemma run_reqE_pass H h rec pth n o d s :
    H KEval = Some h -> h (mkrq KEval pth n o) = ADefault rec ->
    run H (PReqE pth n o d) s =
      (let '(r, s', l) := run H d s in
       (r, s', RIssued (mkrq KEval pth n o) :: (if rec then [RSeen (mkrq KEval pth n o)] else []) ++ l)).
  Proof.
    intros E Eh. simpl. rewrite E. unfold mkrq in Eh. rewrite Eh. unfold bindR, emitR, retR.
    destruct rec; destruct (Requests.run S H d s) as [[r s'] l]; reflexivity.
  Qed.

  Lemma run_reqE_answer H h v pth n o d s :
    H KEval = Some h -> h (mkrq KEval pth n o) = AAnswer v ->
    run H (PReqE pth n o d) s = (Ok v, s, [RIssued (mkrq KEval pth n o)]).
  Proof.
    intros E Eh. simpl. rewrite E. unfold mkrq in Eh. rewrite Eh. reflexivity.
  Qed.

  Lemma run_req_default H A k pth n o (d : prog A) s :
    H k = None ->
    run H (PReq k pth n o d) s =
      (let '(r, s', l) := run H d s in (r, s', RIssued (mkrq k pth n o) :: l)).
  Proof.
    intros E. simpl. rewrite E. unfold bindR, emitR.
    destruct (Requests.run S H d s) as [[r s'] l]. reflexivity.
  Qed.

  Lemma run_req_pass H h rec A k pth n o (d : prog A) s :
    H k = Some h -> h (mkrq k pth n o) = ADefault rec ->
    run H (PReq k pth n o d) s =
      (let '(r, s', l) := run H d s in
       (r, s', RIssued (mkrq k pth n o) :: (if rec then [RSeen (mkrq k pth n o)] else []) ++ l)).
  Proof.
    intros E Eh. simpl. rewrite E. unfold mkrq in Eh. rewrite Eh. unfold bindR, emitR, retR.
    destruct rec; destruct (Requests.run S H d s) as [[r s'] l]; reflexivity.
  Qed.

  Lemma run_bind H A B (q : prog A) (f : A -> prog B) s :
    run H (PBind q f) s =
      match run H q s with
      | (Ok a, s1, l1) => let '(r, s2, l2) := run H (f a) s1 in (r, s2, l1 ++ l2)
      | (Err c ee, s1, l1) => (Err c ee, s1, l1)
      end.
  Proof.
    simpl. unfold bindR. destruct (Requests.run S H q s) as [[[a|c ee] s1] l1]; [|reflexivity].
    destruct (Requests.run S H (f a) s1) as [[r s2] l2]. reflexivity.
  Qed.

  Lemma run_catch H A (q : prog A) (h : cause -> bool -> prog A) s :
    run H (PCatch q h) s =
      match run H q s with
      | (Ok a, s1, l1) => (Ok a, s1, l1)
      | (Err c ee, s1, l1) =>
          match c with
          | CUnmodelled => (Err c ee, s1, l1)
          | _ => let '(r, s2, l2) := run H (h c ee) s1 in (r, s2, l1 ++ l2)
          end
      end.
  Proof.
    simpl. unfold catchR. destruct (Requests.run S H q s) as [[[a|c ee] s1] l1]; [reflexivity|].
    destruct c; try reflexivity; destruct (Requests.run S H (h _ ee) s1) as [[r s2] l2]; reflexivity.
  Qed.

  Lemma run_wrap H A (q : prog A) s :
    run H (PWrap q) s =
      match run H q s with
      | (Ok a, s1, l1) => (Ok a, s1, l1)
      | (Err c _, s1, l1) => (Err c true, s1, l1)
      end.
  Proof. reflexivity. Qed.

  Lemma run_lift H A (m : M S A) s :
    run H (PLift m) s = (let '(r, s', l) := m s in (r, s', map RCore l)).
  Proof. simpl. unfold liftR. destruct (m s) as [[r s'] l]. reflexivity. Qed.

  (** ** C18 (1): recording pass-through handlers are transparent *)
  Theorem run_passthrough (K : rkind -> bool) A (q : prog A) :
    forall s, run (passthrough K) q s =
              (let '(r, s', l) := run no_handlers q s in (r, s', mark K l)).
  Proof.
    induction q as [A a|A m|A B q IHq f IHf|A q IHq h IHh|A q IHq|pth n o d IHd|A k pth n o d IHd]; intros s.
    - reflexivity.
    - rewrite !run_lift. destruct (m s) as [[r s'] l]. now rewrite mark_core.
    - rewrite !run_bind, IHq.
      destruct (Requests.run S no_handlers q s) as [[[a|c ee] s1] l1]; [|reflexivity].
      rewrite IHf. destruct (Requests.run S no_handlers (f a) s1) as [[r2 s2] l2].
      now rewrite mark_app.
    - rewrite !run_catch, IHq.
      destruct (Requests.run S no_handlers q s) as [[[a|c ee] s1] l1]; [reflexivity|].
      destruct c; try reflexivity;
        rewrite IHh; destruct (Requests.run S no_handlers (h _ ee) s1) as [[r2 s2] l2];
        now rewrite mark_app.
    - rewrite !run_wrap, IHq.
      destruct (Requests.run S no_handlers q s) as [[[a|c ee] s1] l1]; reflexivity.
    - rewrite (run_reqE_default no_handlers) by reflexivity.
      destruct (K KEval) eqn:EK.
      + rewrite (run_reqE_pass (passthrough K) (fun _ => ADefault true) true);
          [|unfold passthrough; now rewrite EK|reflexivity].
        rewrite IHd. destruct (Requests.run S no_handlers d s) as [[r2 s2] l2].
        simpl. now rewrite EK.
      + rewrite (run_reqE_default (passthrough K)) by (unfold passthrough; now rewrite EK).
        rewrite IHd. destruct (Requests.run S no_handlers d s) as [[r2 s2] l2].
        simpl. now rewrite EK.
    - rewrite (run_req_default no_handlers) by reflexivity.
      destruct (K k) eqn:EK.
      + rewrite (run_req_pass (passthrough K) (fun _ => ADefault true) true);
          [|unfold passthrough; now rewrite EK|reflexivity].
        rewrite IHd. destruct (Requests.run S no_handlers d s) as [[r2 s2] l2].
        simpl. now rewrite EK.
      + rewrite (run_req_default (passthrough K)) by (unfold passthrough; now rewrite EK).
        rewrite IHd. destruct (Requests.run S no_handlers d s) as [[r2 s2] l2].
        simpl. now rewrite EK.
  Qed.

  (** a run without handlers records nothing *)
  Lemma plain_sees_nothing A (q : prog A) :
    forall s, seen (snd (run no_handlers q s)) = [].
  Proof.
    induction q as [A a|A m|A B q IHq f IHf|A q IHq h IHh|A q IHq|pth n o d IHd|A k pth n o d IHd]; intros s.
    - reflexivity.
    - rewrite run_lift. destruct (m s) as [[r s'] l]. simpl. apply seen_core.
    - rewrite run_bind. specialize (IHq s).
      destruct (Requests.run S no_handlers q s) as [[[a|c ee] s1] l1]; [|exact IHq].
      specialize (IHf a s1). destruct (Requests.run S no_handlers (f a) s1) as [[r2 s2] l2].
      simpl in *. now rewrite <- seen_app, IHq, IHf.
    - rewrite run_catch. specialize (IHq s).
      destruct (Requests.run S no_handlers q s) as [[[a|c ee] s1] l1]; [exact IHq|].
      destruct c; try exact IHq;
        match goal with |- context [h ?c ee] =>
          specialize (IHh c ee s1); destruct (Requests.run S no_handlers (h c ee) s1) as [[r2 s2] l2]
        end; simpl in *; now rewrite <- seen_app, IHq, IHh.
    - rewrite run_wrap. specialize (IHq s).
      destruct (Requests.run S no_handlers q s) as [[[a|c ee] s1] l1]; exact IHq.
    - rewrite (run_reqE_default no_handlers) by reflexivity. specialize (IHd s).
      destruct (Requests.run S no_handlers d s) as [[r2 s2] l2]. exact IHd.
    - rewrite (run_req_default no_handlers) by reflexivity. specialize (IHd s).
      destruct (Requests.run S no_handlers d s) as [[r2 s2] l2]. exact IHd.
  Qed.

  (** ** C18 (2): requests certainly issued.  [cov q A C]: every run of [q] without answering
      handlers issues the requests [A]; every successful one also issues [C]. *)
  Definition keyl (l : list hev) : list (rkind * path) := map rq_key (issued l).

  Lemma keyl_app l1 l2 : keyl (l1 ++ l2) = keyl l1 ++ keyl l2.
  Proof. unfold keyl. now rewrite <- issued_app, map_app. Qed.
  Lemma keyl_core (l : list event) : keyl (map RCore l) = [].
  Proof. unfold keyl. now rewrite issued_core. Qed.

  Inductive cov : forall {A : Type}, prog A -> list (rkind * path) -> list (rkind * path) -> Prop :=
  | cov_ret : forall A (a : A), cov (PRet a) [] []
  | cov_lift : forall A (m : M S A), cov (PLift m) [] []
  | cov_fail : forall A c ee C, cov (@PLift S A (fail S c ee)) [] C
  | cov_bind : forall A B (q : prog A) (f : A -> prog B) A1 C1 A2 C2,
      cov q A1 C1 -> (forall a, cov (f a) A2 C2) -> cov (PBind q f) A1 (C1 ++ C2)
  | cov_catch : forall A (q : prog A) h A1 C1 A2 C2 C,
      cov q A1 C1 -> (forall c ee, cov (h c ee) A2 C2) ->
      incl C C1 -> incl C (A1 ++ C2) -> cov (PCatch q h) A1 C
  | cov_wrap : forall A (q : prog A) A1 C1, cov q A1 C1 -> cov (PWrap q) A1 C1
  | cov_reqE : forall pth n o d A1 C1,
      cov d A1 C1 -> cov (PReqE pth n o d) ((KEval, pth) :: A1) ((KEval, pth) :: C1)
  | cov_req : forall A k pth n o (d : prog A) A1 C1,
      cov d A1 C1 -> cov (PReq k pth n o d) ((k, pth) :: A1) ((k, pth) :: C1)
  | cov_weaken : forall A (q : prog A) A1 C1 A1' C1',
      cov q A1 C1 -> incl A1' A1 -> incl C1' C1 -> cov q A1' C1'
  | cov_AC : forall A (q : prog A) A1 C1, cov q A1 C1 -> cov q A1 (A1 ++ C1).

  Lemma cov_nil A (q : prog A) : cov q [] [].
  Proof.
    induction q as [A a|A m|A B q IHq f IHf|A q IHq h IHh|A q IHq|pth n o d IHd|A k pth n o d IHd].
    - apply cov_ret.
    - apply cov_lift.
    - apply (cov_bind _ _ q f [] [] [] []); assumption.
    - apply (cov_catch _ q h [] [] [] [] []); try assumption; apply incl_nil_l.
    - now apply cov_wrap.
    - eapply cov_weaken; [apply cov_reqE; exact IHd| |]; apply incl_nil_l.
    - eapply cov_weaken; [apply cov_req; exact IHd| |]; apply incl_nil_l.
  Qed.

  Theorem cov_sound A (q : prog A) A1 C1 :
    cov q A1 C1 ->
    forall s, incl A1 (keyl (snd (run no_handlers q s))) /\
              (forall a, fst (fst (run no_handlers q s)) = Ok a -> incl C1 (keyl (snd (run no_handlers q s)))).
  Proof.
    induction 1 as [A a|A m|A c ee C|A B q f A1 C1 A2 C2 Hq IHq Hf IHf
                   |A q h A1 C1 A2 C2 C Hq IHq Hh IHh HC1 HC2|A q A1 C1 Hq IHq
                   |pth n o d A1 C1 Hd IHd|A k pth n o d A1 C1 Hd IHd
                   |A q A1 C1 A1' C1' Hq IHq HA HC|A q A1 C1 Hq IHq]; intros s.
    - split; [apply incl_nil_l|intros; apply incl_nil_l].
    - split; [apply incl_nil_l|intros; apply incl_nil_l].
    - split; [apply incl_nil_l|]. intros a Ha. rewrite run_lift in Ha. unfold fail in Ha. discriminate.
    - rewrite run_bind. destruct (IHq s) as [IA IC].
      destruct (Requests.run S no_handlers q s) as [[[a|c ee] s1] l1]; simpl in *.
      + destruct (IHf a s1) as [_ IC2].
        destruct (Requests.run S no_handlers (f a) s1) as [[r2 s2] l2]; simpl in *.
        rewrite keyl_app. split.
        * apply incl_appl. exact IA.
        * intros b Hb. apply incl_app; [apply incl_appl; now apply (IC a)|apply incl_appr; now apply (IC2 b)].
      + split; [exact IA|intros; discriminate].
    - rewrite run_catch. destruct (IHq s) as [IA IC].
      destruct (Requests.run S no_handlers q s) as [[[a|c ee] s1] l1]; simpl in *.
      + split; [exact IA|]. intros b Hb. eapply incl_tran; [exact HC1|]. now apply (IC a).
      + assert (Hgen : forall c', let '(r, s2, l2) := Requests.run S no_handlers (h c' ee) s1 in
                         incl A1 (keyl (l1 ++ l2)) /\ (forall b, r = Ok b -> incl C (keyl (l1 ++ l2)))).
        { intros c'. destruct (IHh c' ee s1) as [_ IC2].
          destruct (Requests.run S no_handlers (h c' ee) s1) as [[r2 s2] l2]; simpl in *.
          rewrite keyl_app. split; [apply incl_appl; exact IA|].
          intros b Hb. eapply incl_tran; [exact HC2|].
          apply incl_app; [apply incl_appl; exact IA|apply incl_appr; now apply (IC2 b)]. }
        destruct c; try (split; [exact IA|intros; discriminate]);
          match goal with |- context [h ?c' ee] => specialize (Hgen c');
            destruct (Requests.run S no_handlers (h c' ee) s1) as [[r2 s2] l2] end; exact Hgen.
    - rewrite run_wrap. destruct (IHq s) as [IA IC].
      destruct (Requests.run S no_handlers q s) as [[[a|c ee] s1] l1]; simpl in *.
      + split; [exact IA|exact IC].
      + split; [exact IA|intros; discriminate].
    - rewrite (run_reqE_default no_handlers) by reflexivity. destruct (IHd s) as [IA IC].
      destruct (Requests.run S no_handlers d s) as [[r2 s2] l2]; simpl in *.
      split; [|intros a Ha]; (apply incl_cons; [left; reflexivity|apply incl_tl]); [exact IA|now apply (IC a)].
    - rewrite (run_req_default no_handlers) by reflexivity. destruct (IHd s) as [IA IC].
      destruct (Requests.run S no_handlers d s) as [[r2 s2] l2]; simpl in *.
      split; [|intros a Ha]; (apply incl_cons; [left; reflexivity|apply incl_tl]); [exact IA|now apply (IC a)].
    - destruct (IHq s) as [IA IC]. split.
      + eapply incl_tran; [exact HA|exact IA].
      + intros a Ha. eapply incl_tran; [exact HC|now apply (IC a)].
    - destruct (IHq s) as [IA IC]. split; [exact IA|].
      intros a Ha. apply incl_app; [exact IA|now apply (IC a)].
  Qed.

  (** pass-through, as the sentence of the property: same result, same store, same core
      history, same requests issued; the handlers have seen exactly the plain run's requests
      of the installed kinds, in order *)
  Theorem passthrough_transparent (K : rkind -> bool) A (q : prog A) s :
    let plain := run no_handlers q s in
    let thru := run (passthrough K) q s in
    fst (fst thru) = fst (fst plain) /\ snd (fst thru) = snd (fst plain) /\
    core_events (snd thru) = core_events (snd plain) /\
    issued (snd thru) = issued (snd plain) /\
    seen (snd thru) = filter (fun r => K r.(rq_kind)) (issued (snd plain)) /\
    seen (snd plain) = [].
  Proof.
    cbv zeta. rewrite run_passthrough. pose proof (plain_sees_nothing A q s) as Hn.
    destruct (Requests.run S no_handlers q s) as [[r s'] l]. cbn [fst snd] in *.
    repeat split; [apply core_mark|apply issued_mark|now apply seen_mark|exact Hn].
  Qed.

  (** coverage, seen through pass-through handlers for the kinds [K] *)
  Theorem covered_seen (K : rkind -> bool) A (q : prog A) A1 C1 s :
    cov q A1 C1 ->
    let thru := run (passthrough K) q s in
    (forall kp, In kp A1 -> K (fst kp) = true -> In kp (map rq_key (seen (snd thru)))) /\
    (forall a, fst (fst thru) = Ok a ->
               forall kp, In kp C1 -> K (fst kp) = true -> In kp (map rq_key (seen (snd thru)))).
  Proof.
    intros Hc. cbv zeta.
    destruct (passthrough_transparent K A q s) as (E1 & _ & _ & _ & E5 & _). cbv zeta in *.
    destruct (cov_sound A q A1 C1 Hc s) as [IA IC].
    assert (Hin : forall kp, In kp (keyl (snd (run no_handlers q s))) -> K (fst kp) = true ->
                             In kp (map rq_key (seen (snd (run (passthrough K) q s))))).
    { intros kp Hk HK. rewrite E5. unfold keyl in Hk. apply in_map_iff in Hk as (r & Hr & Hin).
      apply in_map_iff. exists r. split; [exact Hr|]. apply filter_In. split; [exact Hin|].
      subst kp. exact HK. }
    split.
    - intros kp Hk HK. apply Hin; [now apply IA|exact HK].
    - intros a Ha kp Hk HK. apply Hin; [|exact HK]. rewrite E1 in Ha. now apply (IC a).
  Qed.

  (** ** Positions: every request of a tree concerns a position at or below [p] *)
  Lemma path_eqb_eq a : forall b, path_eqb a b = true -> a = b.
  Proof.
    induction a as [|x a IH]; intros [|y b] H; try discriminate; [reflexivity|].
    unfold path_eqb in H. apply andb_true_iff in H as [H1 H2].
    apply Nat.eqb_eq in H1. subst. f_equal. now apply IH.
  Qed.
  Lemma path_eqb_refl a : path_eqb a a = true.
  Proof. induction a as [|x a IH]; [reflexivity|]. unfold path_eqb in *. now rewrite Nat.eqb_refl, IH. Qed.

  Lemma prefixb_refl p : prefixb p p = true.
  Proof. induction p as [|x p IH]; [reflexivity|]. simpl. now rewrite Nat.eqb_refl. Qed.
  Lemma prefixb_app p q : prefixb p (p ++ q) = true.
  Proof. induction p as [|x p IH]; [reflexivity|]. simpl. now rewrite Nat.eqb_refl. Qed.
  Lemma prefixb_trans p : forall q r, prefixb p q = true -> prefixb q r = true -> prefixb p r = true.
  Proof.
    induction p as [|x p IH]; intros q r H1 H2; [reflexivity|].
    destruct q as [|y q]; [discriminate|]. destruct r as [|z r]; [discriminate|].
    simpl in *. apply andb_true_iff in H1 as [E1 H1]. apply andb_true_iff in H2 as [E2 H2].
    apply Nat.eqb_eq in E1. apply Nat.eqb_eq in E2. subst. rewrite Nat.eqb_refl. simpl.
    now apply (IH q r).
  Qed.
  Lemma prefixb_sub p i : prefixb p (p +: i) = true.
  Proof. apply prefixb_app. Qed.

  Inductive below (p : path) : forall {A : Type}, prog A -> Prop :=
  | B_ret : forall A (a : A), below p (PRet a)
  | B_lift : forall A (m : M S A), below p (PLift m)
  | B_bind : forall A B (q : prog A) (f : A -> prog B),
      below p q -> (forall a, below p (f a)) -> below p (PBind q f)
  | B_catch : forall A (q : prog A) h,
      below p q -> (forall c ee, below p (h c ee)) -> below p (PCatch q h)
  | B_wrap : forall A (q : prog A), below p q -> below p (PWrap q)
  | B_reqE : forall pth n o d, prefixb p pth = true -> below p d -> below p (PReqE pth n o d)
  | B_req : forall A k pth n o (d : prog A),
      k <> KEval -> prefixb p pth = true -> below p d -> below p (PReq k pth n o d).

  Lemma below_up p p' A (q : prog A) : prefixb p p' = true -> below p' q -> below p q.
  Proof.
    intros Hp. induction 1; try (constructor; auto; fail).
    - apply B_reqE; [eapply prefixb_trans; eassumption|assumption].
    - apply B_req; [assumption|eapply prefixb_trans; eassumption|assumption].
  Qed.

  (** every request issued or seen by a run of a tree below [p] sits at or below [p], whatever
      the handlers *)
  Definition all_below (p : path) (l : list hev) : Prop :=
    Forall (fun e => match e with
                     | RCore _ => True
                     | RIssued r | RSeen r => prefixb p r.(rq_path) = true
                     end) l.

  Lemma all_below_core p (l : list event) : all_below p (map RCore l).
  Proof. induction l; constructor; auto. Qed.

  Theorem run_below p H A (q : prog A) :
    below p q -> forall s, all_below p (snd (run H q s)).
  Proof.
    induction 1 as [A a|A m|A B q f Hq IHq Hf IHf|A q h Hq IHq Hh IHh|A q Hq IHq
                   |pth n o d Hp Hd IHd|A k pth n o d Hk Hp Hd IHd]; intros s.
    - constructor.
    - rewrite run_lift. destruct (m s) as [[r s'] l]. apply all_below_core.
    - rewrite run_bind. specialize (IHq s).
      destruct (Requests.run S H q s) as [[[a|c ee] s1] l1]; [|exact IHq].
      specialize (IHf a s1). destruct (Requests.run S H (f a) s1) as [[r2 s2] l2].
      simpl in *. apply Forall_app. split; assumption.
    - rewrite run_catch. specialize (IHq s).
      destruct (Requests.run S H q s) as [[[a|c ee] s1] l1]; [exact IHq|].
      destruct c; try exact IHq;
        match goal with |- context [h ?c' ee] => specialize (IHh c' ee s1);
          destruct (Requests.run S H (h c' ee) s1) as [[r2 s2] l2] end;
        simpl in *; apply Forall_app; split; assumption.
    - rewrite run_wrap. specialize (IHq s).
      destruct (Requests.run S H q s) as [[[a|c ee] s1] l1]; exact IHq.
    - specialize (IHd s). simpl. unfold bindR, emitR, retR, failR.
      destruct (H KEval) as [h|].
      + destruct (h _) as [rec|v].
        * destruct rec; simpl; destruct (Requests.run S H d s) as [[r2 s2] l2]; simpl in *;
            repeat (constructor; [exact Hp|]); exact IHd.
        * simpl. repeat constructor. exact Hp.
      + destruct (Requests.run S H d s) as [[r2 s2] l2]. simpl in *. constructor; [exact Hp|exact IHd].
    - specialize (IHd s). simpl. unfold bindR, emitR, retR, failR.
      destruct (H k) as [h|].
      + destruct (h _) as [rec|v].
        * destruct rec; simpl; destruct (Requests.run S H d s) as [[r2 s2] l2]; simpl in *;
            repeat (constructor; [exact Hp|]); exact IHd.
        * simpl. repeat constructor. exact Hp.
      + destruct (Requests.run S H d s) as [[r2 s2] l2]. simpl in *. constructor; [exact Hp|exact IHd].
  Qed.

  (** ** C18 (3): substitution.  [srel q q']: the trees differ only in the nodes named by
      their requests and below EvaluateRequests on selected positions, where [q'] has the
      constant [v]. *)
  Section Subst.
    Variable sels : list path.
    Variable v : value.

    Definition skel (l : list hev) : list (event + (bool * rkind * path)) :=
      map (fun e => match e with
                    | RCore c => inl c
                    | RIssued r => inr (false, r.(rq_kind), r.(rq_path))
                    | RSeen r => inr (true, r.(rq_kind), r.(rq_path))
                    end) l.

    Lemma skel_app l1 l2 : skel (l1 ++ l2) = skel l1 ++ skel l2.
    Proof. apply map_app. Qed.

    Inductive srel : forall {A : Type}, prog A -> prog A -> Prop :=
    | S_ret : forall A (a : A), srel (PRet a) (PRet a)
    | S_lift : forall A (m : M S A), srel (PLift m) (PLift m)
    | S_bind : forall A B (q q' : prog A) (f f' : A -> prog B),
        srel q q' -> (forall a, srel (f a) (f' a)) -> srel (PBind q f) (PBind q' f')
    | S_catch : forall A (q q' : prog A) h h',
        srel q q' -> (forall c ee, srel (h c ee) (h' c ee)) -> srel (PCatch q h) (PCatch q' h')
    | S_wrap : forall A (q q' : prog A), srel q q' -> srel (PWrap q) (PWrap q')
    | S_sel : forall pth n o d,
        path_mem pth sels = true -> srel (PReqE pth n o d) (PReqE pth (EValue v) o (PWrap (PRet v)))
    | S_reqE : forall pth n n' o d d',
        path_mem pth sels = false -> srel d d' -> srel (PReqE pth n o d) (PReqE pth n' o d')
    | S_req : forall A k pth n n' o (d d' : prog A),
        k <> KEval -> srel d d' -> srel (PReq k pth n o d) (PReq k pth n' o d').

    Definition same_run {A} (x y : res A * S * list hev) : Prop :=
      fst (fst x) = fst (fst y) /\ snd (fst x) = snd (fst y) /\ skel (snd x) = skel (snd y).

    Theorem srel_sound A (q q' : prog A) :
      srel q q' -> forall s, same_run (run (substituting sels v) q s) (run no_handlers q' s).
    Proof.
      induction 1 as [A a|A m|A B q q' f f' Hq IHq Hf IHf|A q q' h h' Hq IHq Hh IHh|A q q' Hq IHq
                     |pth n o d Hs|pth n n' o d d' Hs Hd IHd|A k pth n n' o d d' Hk Hd IHd]; intros s; unfold same_run.
      - repeat split.
      - repeat split.
      - rewrite !run_bind. destruct (IHq s) as (E1 & E2 & E3).
        destruct (Requests.run S (substituting sels v) q s) as [[[a|c ee] s1] l1];
          destruct (Requests.run S no_handlers q' s) as [[[a'|c' ee'] s1'] l1']; cbn [fst snd] in *;
          try discriminate; subst.
        + inversion E1; subst. destruct (IHf a' s1') as (F1 & F2 & F3).
          destruct (Requests.run S (substituting sels v) (f a') s1') as [[r2 s2] l2];
            destruct (Requests.run S no_handlers (f' a') s1') as [[r2' s2'] l2']; cbn [fst snd] in *.
          repeat split; try assumption. now rewrite !skel_app, E3, F3.
        + inversion E1; subst. repeat split; assumption.
      - rewrite !run_catch. destruct (IHq s) as (E1 & E2 & E3).
        destruct (Requests.run S (substituting sels v) q s) as [[[a|c ee] s1] l1];
          destruct (Requests.run S no_handlers q' s) as [[[a'|c' ee'] s1'] l1']; cbn [fst snd] in *;
          try discriminate; subst.
        + repeat split; assumption.
        + inversion E1; subst.
          assert (Hgen : forall c0, same_run
                    (let '(r, s2, l2) := Requests.run S (substituting sels v) (h c0 ee') s1' in (r, s2, l1 ++ l2))
                    (let '(r, s2, l2) := Requests.run S no_handlers (h' c0 ee') s1' in (r, s2, l1' ++ l2))).
          { intros c0. destruct (IHh c0 ee' s1') as (F1 & F2 & F3).
            destruct (Requests.run S (substituting sels v) (h c0 ee') s1') as [[r2 s2] l2];
              destruct (Requests.run S no_handlers (h' c0 ee') s1') as [[r2' s2'] l2']; cbn [fst snd] in *.
            repeat split; try assumption. cbn [fst snd]. now rewrite !skel_app, E3, F3. }
          destruct c'; try (repeat split; assumption); apply Hgen.
      - rewrite !run_wrap. destruct (IHq s) as (E1 & E2 & E3).
        destruct (Requests.run S (substituting sels v) q s) as [[[a|c ee] s1] l1];
          destruct (Requests.run S no_handlers q' s) as [[[a'|c' ee'] s1'] l1']; cbn [fst snd] in *;
          try discriminate; subst.
        + repeat split; assumption.
        + inversion E1; subst. repeat split; assumption.
      - rewrite (run_reqE_answer (substituting sels v)
                   (fun r => if path_mem r.(rq_path) sels then AAnswer v else ADefault false) v);
          [|reflexivity|simpl; now rewrite Hs].
        rewrite (run_reqE_default no_handlers) by reflexivity. repeat split.
      - rewrite (run_reqE_pass (substituting sels v)
                   (fun r => if path_mem r.(rq_path) sels then AAnswer v else ADefault false) false);
          [|reflexivity|simpl; now rewrite Hs].
        rewrite (run_reqE_default no_handlers) by reflexivity.
        destruct (IHd s) as (E1 & E2 & E3).
        destruct (Requests.run S (substituting sels v) d s) as [[r2 s2] l2];
          destruct (Requests.run S no_handlers d' s) as [[r2' s2'] l2']; cbn [fst snd] in *.
        repeat split; try assumption. cbn [fst snd]. simpl. now rewrite E3.
      - rewrite (run_req_default (substituting sels v)) by (destruct k; try reflexivity; congruence).
        rewrite (run_req_default no_handlers) by reflexivity.
        destruct (IHd s) as (E1 & E2 & E3).
        destruct (Requests.run S (substituting sels v) d s) as [[r2 s2] l2];
          destruct (Requests.run S no_handlers d' s) as [[r2' s2'] l2']; cbn [fst snd] in *.
        repeat split; try assumption. cbn [fst snd]. simpl. now rewrite E3.
    Qed.

    Lemma untouched_not_sel p pth :
      untouched sels p = true -> prefixb p pth = true -> path_mem pth sels = false.
    Proof.
      unfold untouched, path_mem. intros Hu Hp.
      destruct (existsb (path_eqb pth) sels) eqn:E; [|reflexivity].
      apply existsb_exists in E as (q & Hin & Heq). apply path_eqb_eq in Heq. subst.
      rewrite forallb_forall in Hu. specialize (Hu q Hin). now rewrite Hp in Hu.
    Qed.

    (** a tree none of whose requests sits on a selected position is related to itself *)
    Lemma srel_refl_below p A (q : prog A) : untouched sels p = true -> below p q -> srel q q.
    Proof.
      intros Hu. induction 1; try (constructor; auto; fail).
      - apply S_reqE; [eapply untouched_not_sel; eassumption|assumption].
    Qed.
  End Subst.
End Generic.

(** * Part 2: the four interpreters *)
Section Interp.
  Variable S : Type.
  Variable mem_find : N -> fp -> S -> option value.
  Variable mem_store : N -> fp -> value -> S -> S.
  Variable cfg : config.
  Variable ucall : N -> list value -> cres.
  Variable rfuel : nat.
  Variable site_ok : expr -> dict -> bool.
  Variable rt : rtable.

  Notation prog := (prog S).
  Notation deval := (deval S mem_find mem_store cfg ucall rfuel site_ok rt).
  Notation dvalidate := (dvalidate S mem_find mem_store cfg ucall rfuel site_ok rt).
  Notation dkeys := (dkeys S mem_find mem_store cfg ucall rfuel site_ok rt).
  Notation dexplain := (dexplain S mem_find mem_store cfg ucall rfuel site_ok rt).
  Notation call_meth := (call_meth S rt).
  Notation call_eval := (call_eval S rt).
  Notation mapMi := (mapMi S).
  Notation iterMi := (iterMi S).
  Notation unionMi := (unionMi S).
  Notation option_clause := (option_clause S ucall rfuel rt).
  Notation dispatch_prog := (dispatch_prog S).
  Notation case_loop := (case_loop S ucall).
  Notation coalesce_loop := (coalesce_loop S).
  Notation last_member := (last_member S).
  Notation iter_loop := (iter_loop S).
  Notation map_rows_prog := (map_rows_prog S).
  Notation map_loop := (map_loop S).
  Notation rows_iter := (rows_iter S).
  Notation rows_union := (rows_union S).
  Notation template_options_prog := (template_options_prog S).
  Notation default_exists := (default_exists S mem_find cfg site_ok).
  Notation default_get := (default_get S mem_find cfg).
  Notation default_set := (default_set S mem_find mem_store cfg).
  Notation default_log := (default_log S cfg).
  Notation template_refs_validate := (template_refs_validate S rfuel).
  Notation option_str_keys := (option_str_keys S rfuel).
  Notation "x <- m ;; f" := (PBind m (fun x => f)) (at level 61, m at next level, right associativity).
  Notation "m ;;; f" := (PBind m (fun _ => f)) (at level 61, right associativity).
  Notation L := PLift.
  Notation failP c ee := (PLift (fail S c ee)).

  (** ** One unfolding lemma per (interpreter, constructor), GENERATED from Model/Requests.v:
      the right-hand side is the text of the clause; [reflexivity] checks convertibility. *)
  Lemma deval_EValue p v o :
    deval p (EValue v) o =
    call_eval p (EValue v) o
    (PRet v).
  Proof. reflexivity. Qed.

  Lemma deval_EOption p k dflt dom o :
    deval p (EOption k dflt dom) o =
    call_eval p (EOption k dflt dom) o
    (option_clause (fun i x => deval (p +: i) x o) p (EOption k dflt dom) k dflt dom o).
  Proof. reflexivity. Qed.

  Lemma deval_EApply p src fn o :
    deval p (EApply src fn) o =
    call_eval p (EApply src fn) o
    (x <- deval (p +: 0) src o ;; f <- deval (p +: 1) fn o ;; L (call_value S ucall f x)).
  Proof. reflexivity. Qed.

  Lemma deval_EBind p src tbl dflt o :
    deval p (EBind src tbl dflt) o =
    call_eval p (EBind src tbl dflt) o
    (x <- deval (p +: 0) src o ;;
        picki x (fun i b => deval (p +: i) b o)
              (match dflt with Some d => deval (p +: 1) d o | None => failP (CUser 0) false end) 2 tbl).
  Proof. reflexivity. Qed.

  Lemma deval_ESwitch p disp tbl dflt o :
    deval p (ESwitch disp tbl dflt) o =
    call_eval p (ESwitch disp tbl dflt) o
    (dv <- dispatch_prog (deval (p +: 0) disp o) (is_some dflt) ;;
        match dv with
        | None => match dflt with Some d => deval (p +: 1) d o | None => failP CUnmodelled false end
        | Some k =>
            if negb (hashable k) then failP CType false else
            picki k (fun i b => deval (p +: i) b o)
                  (match dflt with Some d => deval (p +: 1) d o | None => failP CSwitch true end) 2 tbl
        end).
  Proof. reflexivity. Qed.

  Lemma deval_ECase p disp cases dflt o :
    deval p (ECase disp cases dflt) o =
    call_eval p (ECase disp cases dflt) o
    (x <- deval (p +: 0) disp o ;;
        case_loop (fun i c => deval (p +: i) c o) (fun i r => deval (p +: i) r o)
                  (match dflt with Some d => deval (p +: 1) d o | None => failP CCase true end) x 0 cases).
  Proof. reflexivity. Qed.

  Lemma deval_ECoalesce p ms o :
    deval p (ECoalesce ms) o =
    call_eval p (ECoalesce ms) o
    (coalesce_loop (fun i m => dvalidate (p +: i) m o) (fun i m => deval (p +: i) m o) 0 ms None).
  Proof. reflexivity. Qed.

  Lemma deval_EIter p es o :
    deval p (EIter es) o =
    call_eval p (EIter es) o
    (vs <- iter_loop (fun i x => deval (p +: i) x o) 0 es ;; PRet (VT T_ITER vs)).
  Proof. reflexivity. Qed.

  Lemma deval_EMap p e' its o :
    deval p (EMap e' its) o =
    call_eval p (EMap e' its) o
    (rows <- map_rows_prog (fun i x => deval (p +: i) x o) its ;;
        rowsos <- L (mapM S (fun row => bind S (row_options S row) (fun os => ret S (row, os))) rows) ;;
        rs <- map_loop (fun os => deval (p +: 0) e' (with_opts true os o)) rowsos ;;
        PRet (VT T_ITER rs)).
  Proof. reflexivity. Qed.

  Lemma deval_EWith p force ps e' o :
    deval p (EWith force ps e') o =
    call_eval p (EWith force ps e') o
    (deval (p +: 0) e' (with_opts force ps o)).
  Proof. reflexivity. Qed.

  Lemma deval_ECached p c e' o :
    deval p (ECached c e') o =
    call_eval p (ECached c e') o
    (ex <- call_meth KCacheExists p (ECached c e') o
                (default_exists true c e' o (ks <- dkeys (p +: 0) e' o ;; L (fingerprint_of S ks o))) ;;
        hit <- (if ex then call_meth KCacheGet p (ECached c e') o
                             (default_get c o (ks <- dkeys (p +: 0) e' o ;; L (fingerprint_of S ks o)))
                else PRet None) ;;
        match hit with
        | Some v => PRet v
        | None =>
            v <- deval (p +: 0) e' o ;;
            call_meth KCacheSet p (ECached c e') o
              (default_set c o (ks <- dkeys (p +: 0) e' o ;; L (fingerprint_of S ks o)) v)
        end).
  Proof. reflexivity. Qed.

  Lemma deval_ECall p partial f args kwargs o :
    deval p (ECall partial f args kwargs) o =
    call_eval p (ECall partial f args kwargs) o
    (fv <- deval (p +: 0) f o ;;
        av <- mapMi (fun i x => deval (p +: i) x o) 1 args ;;
        kv <- mapMi (fun i x => deval (p +: i) x o) (1 + length args) kwargs ;;
        if partial then
          match fv with
          | VF fid pre post => PRet (VF fid (pre ++ av) (post ++ kv))
          | _ => failP CUnmodelled false
          end
        else L (call_value_n S ucall fv (av ++ kv))).
  Proof. reflexivity. Qed.

  Lemma deval_ETemplate p s ps o :
    deval p (ETemplate s ps) o =
    call_eval p (ETemplate s ps) o
    (o' <- template_options_prog (fun i x => deval (p +: i) x o) ps o ;;
        L (bind S (emit_reads S (filter (fun k => negb (is_par_key k)) (resolve_reads rfuel o' (JStr s))) o)
             (fun _ => bind S (of_rres S (resolve rfuel o' (JStr s)))
                (fun j => match to_str j with
                          | Some r => ret S (VJ (JStr r))
                          | None => fail S CUnmodelled false
                          end)))).
  Proof. reflexivity. Qed.

  Lemma deval_EComp p e' effects o :
    deval p (EComp e' effects) o =
    call_eval p (EComp e' effects) o
    (v <- deval (p +: 0) e' o ;;
        (if effects_opt_off o then PRet tt
         else iterMi (fun i eff => f <- deval (p +: i) eff o ;; L (call_value S ucall f v) ;;; PRet tt) 1 effects) ;;;
        PRet v).
  Proof. reflexivity. Qed.

  Lemma deval_ELogged p e' o :
    deval p (ELogged e') o =
    call_eval p (ELogged e') o
    (call_meth KLog p (ELogged e') o (default_log o) ;;;
        deval (p +: 0) e' o).
  Proof. reflexivity. Qed.

  Lemma deval_EPipe p steps o :
    deval p (EPipe steps) o =
    call_eval p (EPipe steps) o
    (fs <- mapMi (fun i x => deval (p +: i) x o) 0 steps ;;
        PRet (VF B_COMPOSE (rev fs) [])).
  Proof. reflexivity. Qed.

  Lemma deval_EAllOptions p o :
    deval p EAllOptions o =
    call_eval p EAllOptions o
    (L (all_options_eval S rfuel o)).
  Proof. reflexivity. Qed.

  Lemma dvalidate_EValue p w1 o :
    dvalidate p (EValue w1) o =
    call_meth KValidate p (EValue w1) o
    (PRet tt).
  Proof. reflexivity. Qed.

  Lemma dvalidate_EOption p k dflt dom o :
    dvalidate p (EOption k dflt dom) o =
    call_meth KValidate p (EOption k dflt dom) o
    (r <- L (rd S k o) ;;
        match r with
        | TypeErr => failP CType false
        | Found _ =>
            
            call_eval p (EOption k dflt dom) o (option_clause (fun i x => deval (p +: i) x o) p (EOption k dflt dom) k dflt dom o) ;;; PRet tt
        | Absent => match dflt with Some d => dvalidate (p +: 0) d o | None => failP (CKey k) true end
        end).
  Proof. reflexivity. Qed.

  Lemma dvalidate_EApply p src fn o :
    dvalidate p (EApply src fn) o =
    call_meth KValidate p (EApply src fn) o
    (dvalidate (p +: 0) src o ;;; dvalidate (p +: 1) fn o).
  Proof. reflexivity. Qed.

  Lemma dvalidate_EBind p src tbl dflt o :
    dvalidate p (EBind src tbl dflt) o =
    call_meth KValidate p (EBind src tbl dflt) o
    (dvalidate (p +: 0) src o ;;;
        x <- deval (p +: 0) src o ;;
        picki x (fun i b => dvalidate (p +: i) b o)
              (match dflt with Some d => dvalidate (p +: 1) d o | None => failP (CUser 0) false end) 2 tbl).
  Proof. reflexivity. Qed.

  Lemma dvalidate_ESwitch p disp tbl dflt o :
    dvalidate p (ESwitch disp tbl dflt) o =
    call_meth KValidate p (ESwitch disp tbl dflt) o
    (dv <- dispatch_prog (deval (p +: 0) disp o) (is_some dflt) ;;
        match dv with
        | None => match dflt with Some d => dvalidate (p +: 1) d o | None => failP CUnmodelled false end
        | Some k =>
            if negb (hashable k) then failP CType false else
            picki k (fun i b => dvalidate (p +: i) b o)
                  (match dflt with Some d => dvalidate (p +: 1) d o | None => failP CSwitch true end) 2 tbl
        end).
  Proof. reflexivity. Qed.

  Lemma dvalidate_ECase p disp cases dflt o :
    dvalidate p (ECase disp cases dflt) o =
    call_meth KValidate p (ECase disp cases dflt) o
    (dvalidate (p +: 0) disp o ;;;
        x <- deval (p +: 0) disp o ;;
        case_loop (fun i c => deval (p +: i) c o) (fun i r => dvalidate (p +: i) r o)
                  (match dflt with Some d => dvalidate (p +: 1) d o | None => failP CCase true end) x 0 cases).
  Proof. reflexivity. Qed.

  Lemma dvalidate_ECoalesce p ms o :
    dvalidate p (ECoalesce ms) o =
    call_meth KValidate p (ECoalesce ms) o
    (coalesce_loop (fun i m => dvalidate (p +: i) m o) (fun i m => dvalidate (p +: i) m o) 0 ms None).
  Proof. reflexivity. Qed.

  Lemma dvalidate_EIter p es o :
    dvalidate p (EIter es) o =
    call_meth KValidate p (EIter es) o
    (iterMi (fun i x => dvalidate (p +: i) x o) 0 es).
  Proof. reflexivity. Qed.

  Lemma dvalidate_EMap p e' its o :
    dvalidate p (EMap e' its) o =
    call_meth KValidate p (EMap e' its) o
    (rows <- map_rows_prog (fun i x => deval (p +: i) x o) its ;;
        rows_iter (fun os => dvalidate (p +: 0) e' (with_opts true os o)) rows).
  Proof. reflexivity. Qed.

  Lemma dvalidate_EWith p force ps e' o :
    dvalidate p (EWith force ps e') o =
    call_meth KValidate p (EWith force ps e') o
    (dvalidate (p +: 0) e' (with_opts force ps o)).
  Proof. reflexivity. Qed.

  Lemma dvalidate_ECached p c e' o :
    dvalidate p (ECached c e') o =
    call_meth KValidate p (ECached c e') o
    (ex <- call_meth KCacheExists p (ECached c e') o
                (default_exists false c e' o (ks <- dkeys (p +: 0) e' o ;; L (fingerprint_of S ks o))) ;;
        if ex then PRet tt else dvalidate (p +: 0) e' o).
  Proof. reflexivity. Qed.

  Lemma dvalidate_ECall p w1 f args kwargs o :
    dvalidate p (ECall w1 f args kwargs) o =
    call_meth KValidate p (ECall w1 f args kwargs) o
    (dvalidate (p +: 0) f o ;;;
        iterMi (fun i x => dvalidate (p +: i) x o) 1 args ;;;
        iterMi (fun i x => dvalidate (p +: i) x o) (1 + length args) kwargs).
  Proof. reflexivity. Qed.

  Lemma dvalidate_ETemplate p s ps o :
    dvalidate p (ETemplate s ps) o =
    call_meth KValidate p (ETemplate s ps) o
    (iterMi (fun i pe => dvalidate (p +: i) (snd pe) o) 0 ps ;;;
        L (template_refs_validate s o)).
  Proof. reflexivity. Qed.

  Lemma dvalidate_EComp p e' effects o :
    dvalidate p (EComp e' effects) o =
    call_meth KValidate p (EComp e' effects) o
    (dvalidate (p +: 0) e' o ;;;
        if effects_opt_off o then PRet tt else iterMi (fun i x => dvalidate (p +: i) x o) 1 effects).
  Proof. reflexivity. Qed.

  Lemma dvalidate_ELogged p e' o :
    dvalidate p (ELogged e') o =
    call_meth KValidate p (ELogged e') o
    (dvalidate (p +: 0) e' o).
  Proof. reflexivity. Qed.

  Lemma dvalidate_EPipe p steps o :
    dvalidate p (EPipe steps) o =
    call_meth KValidate p (EPipe steps) o
    (iterMi (fun i x => dvalidate (p +: i) x o) 0 steps).
  Proof. reflexivity. Qed.

  Lemma dvalidate_EAllOptions p o :
    dvalidate p EAllOptions o =
    call_meth KValidate p EAllOptions o
    (call_eval p EAllOptions o (L (all_options_eval S rfuel o)) ;;; PRet tt).
  Proof. reflexivity. Qed.

  Lemma dkeys_EValue p w1 o :
    dkeys p (EValue w1) o =
    call_meth KKeys p (EValue w1) o
    (PRet []).
  Proof. reflexivity. Qed.

  Lemma dkeys_EOption p k dflt dom o :
    dkeys p (EOption k dflt dom) o =
    call_meth KKeys p (EOption k dflt dom) o
    (r <- L (rd S k o) ;;
        match r with
        | TypeErr => failP CType false
        | Found (JStr s) => L (option_str_keys true k s o)
        | Found _ => PRet [k]
        | Absent => match dflt with Some d => dkeys (p +: 0) d o | None => failP (CKey k) true end
        end).
  Proof. reflexivity. Qed.

  Lemma dkeys_EApply p src fn o :
    dkeys p (EApply src fn) o =
    call_meth KKeys p (EApply src fn) o
    (a <- dkeys (p +: 0) src o ;; b <- dkeys (p +: 1) fn o ;; PRet (a ++ b)).
  Proof. reflexivity. Qed.

  Lemma dkeys_EBind p src tbl dflt o :
    dkeys p (EBind src tbl dflt) o =
    call_meth KKeys p (EBind src tbl dflt) o
    (a <- dkeys (p +: 0) src o ;;
        x <- deval (p +: 0) src o ;;
        b <- picki x (fun i b => dkeys (p +: i) b o)
                   (match dflt with Some d => dkeys (p +: 1) d o | None => failP (CUser 0) false end) 2 tbl ;;
        PRet (a ++ b)).
  Proof. reflexivity. Qed.

  Lemma dkeys_ESwitch p disp tbl dflt o :
    dkeys p (ESwitch disp tbl dflt) o =
    call_meth KKeys p (ESwitch disp tbl dflt) o
    (dv <- dispatch_prog (deval (p +: 0) disp o) (is_some dflt) ;;
        match dv with
        | None => match dflt with Some d => dkeys (p +: 1) d o | None => failP CUnmodelled false end
        | Some k =>
            if negb (hashable k) then failP CType false else
            a <- picki k (fun i b => dkeys (p +: i) b o)
                       (match dflt with Some d => dkeys (p +: 1) d o | None => failP CSwitch true end) 2 tbl ;;
            b <- dkeys (p +: 0) disp o ;; PRet (a ++ b)
        end).
  Proof. reflexivity. Qed.

  Lemma dkeys_ECase p disp cases dflt o :
    dkeys p (ECase disp cases dflt) o =
    call_meth KKeys p (ECase disp cases dflt) o
    (a <- dkeys (p +: 0) disp o ;;
        x <- deval (p +: 0) disp o ;;
        b <- case_loop (fun i c => deval (p +: i) c o) (fun i r => dkeys (p +: i) r o)
                       (match dflt with Some d => dkeys (p +: 1) d o | None => failP CCase true end) x 0 cases ;;
        PRet (a ++ b)).
  Proof. reflexivity. Qed.

  Lemma dkeys_ECoalesce p ms o :
    dkeys p (ECoalesce ms) o =
    call_meth KKeys p (ECoalesce ms) o
    (coalesce_loop (fun i m => dvalidate (p +: i) m o) (fun i m => dkeys (p +: i) m o) 0 ms None).
  Proof. reflexivity. Qed.

  Lemma dkeys_EIter p es o :
    dkeys p (EIter es) o =
    call_meth KKeys p (EIter es) o
    (unionMi (fun i x => dkeys (p +: i) x o) 0 es).
  Proof. reflexivity. Qed.

  Lemma dkeys_EMap p e' its o :
    dkeys p (EMap e' its) o =
    call_meth KKeys p (EMap e' its) o
    (rows <- map_rows_prog (fun i x => deval (p +: i) x o) its ;;
        a <- rows_union (fun os => ks <- dkeys (p +: 0) e' (with_opts true os o) ;;
                                   L (filter_preset S true os o (with_opts true os o) ks)) rows ;;
        b <- unionMi (fun i kv => dkeys (p +: i) (snd kv) o) 1 its ;;
        PRet (a ++ b)).
  Proof. reflexivity. Qed.

  Lemma dkeys_EWith p force ps e' o :
    dkeys p (EWith force ps e') o =
    call_meth KKeys p (EWith force ps e') o
    (ks <- dkeys (p +: 0) e' (with_opts force ps o) ;;
        L (filter_preset S force ps o (with_opts force ps o) ks)).
  Proof. reflexivity. Qed.

  Lemma dkeys_ECached p w1 e' o :
    dkeys p (ECached w1 e') o =
    call_meth KKeys p (ECached w1 e') o
    (dkeys (p +: 0) e' o).
  Proof. reflexivity. Qed.

  Lemma dkeys_ECall p w1 f args kwargs o :
    dkeys p (ECall w1 f args kwargs) o =
    call_meth KKeys p (ECall w1 f args kwargs) o
    (a <- dkeys (p +: 0) f o ;;
        b <- unionMi (fun i x => dkeys (p +: i) x o) 1 args ;;
        c <- unionMi (fun i x => dkeys (p +: i) x o) (1 + length args) kwargs ;;
        PRet (a ++ b ++ c)).
  Proof. reflexivity. Qed.

  Lemma dkeys_ETemplate p s ps o :
    dkeys p (ETemplate s ps) o =
    call_meth KKeys p (ETemplate s ps) o
    (a <- unionMi (fun i pe => dkeys (p +: i) (snd pe) o) 0 ps ;;
        b <- L (unionM S (fun k => ref_keys S rfuel true o k) (refs s)) ;;
        PRet (a ++ b)).
  Proof. reflexivity. Qed.

  Lemma dkeys_EComp p e' w1 o :
    dkeys p (EComp e' w1) o =
    call_meth KKeys p (EComp e' w1) o
    (dkeys (p +: 0) e' o).
  Proof. reflexivity. Qed.

  Lemma dkeys_ELogged p e' o :
    dkeys p (ELogged e') o =
    call_meth KKeys p (ELogged e') o
    (dkeys (p +: 0) e' o).
  Proof. reflexivity. Qed.

  Lemma dkeys_EPipe p steps o :
    dkeys p (EPipe steps) o =
    call_meth KKeys p (EPipe steps) o
    (unionMi (fun i x => dkeys (p +: i) x o) 0 steps).
  Proof. reflexivity. Qed.

  Lemma dkeys_EAllOptions p o :
    dkeys p EAllOptions o =
    call_meth KKeys p EAllOptions o
    (L (bind S (emit S EvReadAll) (fun _ => ret S (map (fun kv => [fst kv]) o)))).
  Proof. reflexivity. Qed.

  Lemma dexplain_EValue p w1 o :
    dexplain p (EValue w1) o =
    call_meth KExplain p (EValue w1) o
    (PRet []).
  Proof. reflexivity. Qed.

  Lemma dexplain_EOption p k dflt dom o :
    dexplain p (EOption k dflt dom) o =
    call_meth KExplain p (EOption k dflt dom) o
    (r <- L (rd S k o) ;;
        match r with
        | TypeErr => failP CType false
        | Found (JStr s) => L (option_str_keys false k s o)
        | Found _ => PRet [k]
        | Absent => match dflt with Some d => dexplain (p +: 0) d o | None => PRet [k] end
        end).
  Proof. reflexivity. Qed.

  Lemma dexplain_EApply p src fn o :
    dexplain p (EApply src fn) o =
    call_meth KExplain p (EApply src fn) o
    (a <- dexplain (p +: 0) src o ;; b <- dexplain (p +: 1) fn o ;; PRet (a ++ b)).
  Proof. reflexivity. Qed.

  Lemma dexplain_EBind p src tbl dflt o :
    dexplain p (EBind src tbl dflt) o =
    call_meth KExplain p (EBind src tbl dflt) o
    (PCatch (a <- dexplain (p +: 0) src o ;;
                x <- deval (p +: 0) src o ;;
                b <- picki x (fun i b => dexplain (p +: i) b o)
                           (match dflt with Some d => dexplain (p +: 1) d o | None => failP (CUser 0) false end) 2 tbl ;;
                PRet (a ++ b))
               (fun c ee => if ee then failP CInsuff true else failP c ee)).
  Proof. reflexivity. Qed.

  Lemma dexplain_ESwitch p disp tbl dflt o :
    dexplain p (ESwitch disp tbl dflt) o =
    call_meth KExplain p (ESwitch disp tbl dflt) o
    (dv <- PCatch (dispatch_prog (deval (p +: 0) disp o) (is_some dflt))
                     (fun c ee => if ee then failP CInsuff true else failP c ee) ;;
        match dv with
        | None => match dflt with Some d => dexplain (p +: 1) d o | None => failP CUnmodelled false end
        | Some k =>
            if negb (hashable k) then failP CType false else
            a <- picki k (fun i b => dexplain (p +: i) b o)
                       (match dflt with Some d => dexplain (p +: 1) d o | None => failP CInsuff true end) 2 tbl ;;
            b <- dexplain (p +: 0) disp o ;; PRet (a ++ b)
        end).
  Proof. reflexivity. Qed.

  Lemma dexplain_ECase p disp cases dflt o :
    dexplain p (ECase disp cases dflt) o =
    call_meth KExplain p (ECase disp cases dflt) o
    (PCatch (a <- dexplain (p +: 0) disp o ;;
                x <- deval (p +: 0) disp o ;;
                b <- case_loop (fun i c => deval (p +: i) c o) (fun i r => dexplain (p +: i) r o)
                               (match dflt with Some d => dexplain (p +: 1) d o | None => failP CCase true end) x 0 cases ;;
                PRet (a ++ b))
               (fun c ee => if ee then failP CInsuff true else failP c ee)).
  Proof. reflexivity. Qed.

  Lemma dexplain_ECoalesce p ms o :
    dexplain p (ECoalesce ms) o =
    call_meth KExplain p (ECoalesce ms) o
    (PCatch (coalesce_loop (fun i m => dvalidate (p +: i) m o) (fun i m => dexplain (p +: i) m o) 0 ms None)
               (fun c ee => if ee then last_member (fun i m => dexplain (p +: i) m o) 0 ms else failP c ee)).
  Proof. reflexivity. Qed.

  Lemma dexplain_EIter p es o :
    dexplain p (EIter es) o =
    call_meth KExplain p (EIter es) o
    (unionMi (fun i x => dexplain (p +: i) x o) 0 es).
  Proof. reflexivity. Qed.

  Lemma dexplain_EMap p e' its o :
    dexplain p (EMap e' its) o =
    call_meth KExplain p (EMap e' its) o
    (PCatch (rows <- map_rows_prog (fun i x => deval (p +: i) x o) its ;;
                a <- rows_union (fun os => ks <- dexplain (p +: 0) e' (with_opts true os o) ;;
                                           L (filter_preset S true os o (with_opts true os o) ks)) rows ;;
                b <- unionMi (fun i kv => dexplain (p +: i) (snd kv) o) 1 its ;;
                PRet (a ++ b))
               (fun c ee =>
                  if ee then
                    a <- dexplain (p +: 0) e' o ;;
                    b <- unionMi (fun i kv => dexplain (p +: i) (snd kv) o) 1 its ;;
                    PRet (filter (fun k => negb (key_mem k (map fst its))) a ++ b)
                  else failP c ee)).
  Proof. reflexivity. Qed.

  Lemma dexplain_EWith p force ps e' o :
    dexplain p (EWith force ps e') o =
    call_meth KExplain p (EWith force ps e') o
    (ks <- dexplain (p +: 0) e' (with_opts force ps o) ;;
        L (filter_preset S force ps o (with_opts force ps o) ks)).
  Proof. reflexivity. Qed.

  Lemma dexplain_ECached p w1 e' o :
    dexplain p (ECached w1 e') o =
    call_meth KExplain p (ECached w1 e') o
    (dexplain (p +: 0) e' o).
  Proof. reflexivity. Qed.

  Lemma dexplain_ECall p w1 f args kwargs o :
    dexplain p (ECall w1 f args kwargs) o =
    call_meth KExplain p (ECall w1 f args kwargs) o
    (a <- dexplain (p +: 0) f o ;;
        b <- unionMi (fun i x => dexplain (p +: i) x o) 1 args ;;
        c <- unionMi (fun i x => dexplain (p +: i) x o) (1 + length args) kwargs ;;
        PRet (a ++ b ++ c)).
  Proof. reflexivity. Qed.

  Lemma dexplain_ETemplate p s ps o :
    dexplain p (ETemplate s ps) o =
    call_meth KExplain p (ETemplate s ps) o
    (a <- unionMi (fun i pe => dexplain (p +: i) (snd pe) o) 0 ps ;;
        b <- L (unionM S (fun k => ref_keys S rfuel false o k) (refs s)) ;;
        PRet (a ++ b)).
  Proof. reflexivity. Qed.

  Lemma dexplain_EComp p e' effects o :
    dexplain p (EComp e' effects) o =
    call_meth KExplain p (EComp e' effects) o
    (a <- dexplain (p +: 0) e' o ;;
        if effects_opt_off o then PRet a
        else b <- unionMi (fun i x => dexplain (p +: i) x o) 1 effects ;; PRet (a ++ b)).
  Proof. reflexivity. Qed.

  Lemma dexplain_ELogged p e' o :
    dexplain p (ELogged e') o =
    call_meth KExplain p (ELogged e') o
    (dexplain (p +: 0) e' o).
  Proof. reflexivity. Qed.

  Lemma dexplain_EPipe p steps o :
    dexplain p (EPipe steps) o =
    call_meth KExplain p (EPipe steps) o
    (unionMi (fun i x => dexplain (p +: i) x o) 0 steps).
  Proof. reflexivity. Qed.

  Lemma dexplain_EAllOptions p o :
    dexplain p EAllOptions o =
    call_meth KExplain p EAllOptions o
    (L (bind S (emit S EvReadAll) (fun _ => ret S (map (fun kv => [fst kv]) o)))).
  Proof. reflexivity. Qed.

  (** ** Every request of method m on the node at [p] concerns a position at or below [p] *)
  Notation below := (below S).

  Lemma below_call_meth A k p e o (c : prog A) :
    k <> KEval -> below p c -> below p (call_meth k p e o c).
  Proof.
    intros Hk Hc. unfold Requests.call_meth. destruct (wrapped rt (ctor_of e) k); [|exact Hc].
    apply B_req; [exact Hk|apply prefixb_refl|exact Hc].
  Qed.

  Lemma below_call_eval p e o c : below p c -> below p (call_eval p e o c).
  Proof.
    intros Hc. unfold Requests.call_eval. destruct (wrapped rt (ctor_of e) KEval); [|exact Hc].
    apply B_reqE; [apply prefixb_refl|apply B_wrap; exact Hc].
  Qed.

  Lemma below_mapMi A B (f : nat -> A -> prog B) p l :
    (forall i x, In x l -> below p (f i x)) -> forall n, below p (mapMi f n l).
  Proof.
    induction l as [|a l IH]; intros Hf n; simpl; [apply B_ret|].
    apply B_bind; [apply Hf; now left|intros b].
    apply B_bind; [apply IH; intros; apply Hf; now right|intros; apply B_ret].
  Qed.

  Lemma below_iterMi A (f : nat -> A -> prog unit) p l :
    (forall i x, In x l -> below p (f i x)) -> forall n, below p (iterMi f n l).
  Proof.
    induction l as [|a l IH]; intros Hf n; simpl; [apply B_ret|].
    apply B_bind; [apply Hf; now left|intros _]. apply IH; intros; apply Hf; now right.
  Qed.

  Lemma below_unionMi A (f : nat -> A -> prog (list key)) p l :
    (forall i x, In x l -> below p (f i x)) -> forall n, below p (unionMi f n l).
  Proof.
    induction l as [|a l IH]; intros Hf n; simpl; [apply B_ret|].
    apply B_bind; [apply Hf; now left|intros b].
    apply B_bind; [apply IH; intros; apply Hf; now right|intros; apply B_ret].
  Qed.

  Lemma below_picki A k (f : nat -> expr -> prog A) miss p tbl :
    (forall i ve, In ve tbl -> below p (f i (snd ve))) -> below p miss ->
    forall n, below p (picki k f miss n tbl).
  Proof.
    induction tbl as [|[v' b] tbl IH]; intros Hf Hm n; simpl; [exact Hm|].
    destruct (value_eq k v'); [apply (Hf n (v', b)); now left|].
    apply IH; [intros; apply Hf; now right|exact Hm].
  Qed.

  Lemma below_case_loop A ev (fin : nat -> expr -> prog A) dflt x p cs :
    (forall i cr, In cr cs -> below p (ev i (fst cr))) ->
    (forall i cr, In cr cs -> below p (fin i (snd cr))) -> below p dflt ->
    forall n, below p (case_loop ev fin dflt x n cs).
  Proof.
    induction cs as [|[c r] cs IH]; intros He Hf Hd n; simpl; [exact Hd|].
    apply B_bind; [apply (He _ (c, r)); now left|intros pv].
    apply B_bind; [apply B_lift|intros b].
    destruct (truthy b); [apply (Hf _ (c, r)); now left|].
    apply IH; [intros; apply He; now right|intros; apply Hf; now right|exact Hd].
  Qed.

  Lemma below_coalesce_loop A vl (fin : nat -> expr -> prog A) p ms :
    (forall i m, In m ms -> below p (vl i m)) -> (forall i m, In m ms -> below p (fin i m)) ->
    forall n last, below p (coalesce_loop vl fin n ms last).
  Proof.
    induction ms as [|m ms IH]; intros Hv Hf n last; simpl.
    - destruct last as [[c ee]|]; apply B_lift.
    - apply B_catch.
      + apply B_bind; [apply Hv; now left|intros _; apply Hf; now left].
      + intros c ee. destruct ee; [|apply B_lift].
        apply IH; [intros; apply Hv; now right|intros; apply Hf; now right].
  Qed.

  Lemma below_last_member A (f : nat -> expr -> prog A) p ms :
    (forall i m, In m ms -> below p (f i m)) -> forall n, below p (last_member f n ms).
  Proof.
    induction ms as [|m ms IH]; intros Hf n; simpl; [apply B_lift|].
    destruct ms as [|m' ms']; [apply Hf; now left|].
    apply IH. intros; apply Hf; now right.
  Qed.

  Lemma below_iter_loop ev p es :
    (forall i x, In x es -> below p (ev i x)) -> forall n, below p (iter_loop ev n es).
  Proof.
    induction es as [|x es IH]; intros He n; simpl; [apply B_ret|].
    apply B_catch; [|intros; apply B_ret].
    apply B_bind; [apply He; now left|intros v].
    destruct (is_some (deep_err v)); [apply B_ret|].
    apply B_bind; [apply IH; intros; apply He; now right|intros; apply B_ret].
  Qed.

  Lemma below_map_rows ev p (its : list (key * expr)) :
    (forall i kv, In kv its -> below p (ev i (snd kv))) -> below p (map_rows_prog ev its).
  Proof.
    intros He. unfold Requests.map_rows_prog.
    apply B_bind; [|intros; apply B_ret].
    apply below_mapMi. intros i kv Hin. apply B_bind; [now apply He|intros; apply B_lift].
  Qed.

  Lemma below_map_loop evrow p rows :
    (forall os, below p (evrow os)) -> below p (map_loop evrow rows).
  Proof.
    intros He. induction rows as [|[row os] rows IH]; simpl; [apply B_ret|].
    apply B_catch; [|intros; apply B_ret].
    apply B_bind; [apply He|intros r].
    destruct (is_some (deep_err r)); [apply B_ret|].
    apply B_bind; [exact IH|intros; apply B_ret].
  Qed.

  Lemma below_rows_iter f p rows : (forall os, below p (f os)) -> below p (rows_iter f rows).
  Proof.
    intros Hf. induction rows as [|row rows IH]; simpl; [apply B_ret|].
    apply B_bind; [|intros; exact IH].
    apply B_bind; [apply B_lift|intros; apply Hf].
  Qed.

  Lemma below_rows_union f p rows : (forall os, below p (f os)) -> below p (rows_union f rows).
  Proof.
    intros Hf. induction rows as [|row rows IH]; simpl; [apply B_ret|].
    apply B_bind; [|intros; apply B_bind; [exact IH|intros; apply B_ret]].
    apply B_bind; [apply B_lift|intros; apply Hf].
  Qed.

  Lemma below_template_options ev p (ps : list (N * expr)) o :
    (forall i pe, In pe ps -> below p (ev i (snd pe))) -> below p (template_options_prog ev ps o).
  Proof.
    intros He. unfold Requests.template_options_prog.
    apply B_bind.
    - apply below_mapMi. intros i pe Hin. apply B_bind; [now apply He|intros; apply B_ret].
    - intros pvs. destruct (option_set _ _); [|apply B_lift].
      destruct (negb _); [apply B_lift|apply B_ret].
  Qed.

  Lemma below_option_clause ev p self k dflt dom o :
    (forall i d, dflt = Some d -> below p (ev i d)) -> (forall i d, dom = Some d -> below p (ev i d)) ->
    below p (option_clause ev p self k dflt dom o).
  Proof.
    intros Hd Hm. unfold Requests.option_clause.
    apply B_bind; [apply B_lift|intros r].
    apply B_bind.
    - destruct r; [apply B_lift| |apply B_lift].
      destruct dflt as [d|]; [now apply Hd|apply B_lift].
    - intros v. apply B_bind; [apply below_call_meth; [discriminate|apply B_ret]|intros _].
      destruct dom as [de|]; [|apply B_ret].
      apply B_bind; [now apply Hm|intros d]. apply B_bind; [apply B_lift|intros; apply B_ret].
  Qed.

  Lemma below_dispatch ev hd p : below p ev -> below p (dispatch_prog ev hd).
  Proof.
    intros He. unfold Requests.dispatch_prog. apply B_catch.
    - apply B_bind; [exact He|intros; apply B_ret].
    - intros c ee. destruct (ee && hd); [apply B_ret|apply B_lift].
  Qed.

  Lemma below_default_exists g c e o fpr p : below p fpr -> below p (default_exists g c e o fpr).
  Proof.
    intros Hf. unfold Requests.default_exists. destruct c as [cid|]; [|apply B_ret].
    destruct (cache_off cfg o); [apply B_ret|].
    apply B_bind; [destruct g; [apply B_lift|apply B_ret]|intros _].
    apply B_bind; [exact Hf|intros f]. apply B_bind; [apply B_lift|intros s].
    destruct (mem_find cid f s); (apply B_bind; [apply B_lift|intros; apply B_ret]).
  Qed.

  Lemma below_default_get c o fpr p : below p fpr -> below p (default_get c o fpr).
  Proof.
    intros Hf. unfold Requests.default_get. destruct c as [cid|]; [|apply B_ret].
    destruct (cache_off cfg o); [apply B_ret|].
    apply B_bind; [exact Hf|intros f]. apply B_bind; [apply B_lift|intros s].
    destruct (mem_find cid f s); (apply B_bind; [apply B_lift|intros; apply B_ret]).
  Qed.

  Lemma below_default_set c o fpr v p : below p fpr -> below p (default_set c o fpr v).
  Proof.
    intros Hf. unfold Requests.default_set. destruct c as [cid|]; [|apply B_ret].
    destruct (cache_off cfg o); [apply B_ret|].
    apply B_bind; [exact Hf|intros f]. apply B_bind; [apply B_lift|intros _].
    apply B_bind; [apply B_lift|intros _].
    apply B_bind; [destruct (has_lazy v); [apply B_lift|apply B_ret]|intros _].
    apply B_bind; [exact Hf|intros f']. apply B_bind; [apply B_lift|intros s].
    destruct (mem_find cid f' s); (apply B_bind; [apply B_lift|intros; apply B_ret]).
  Qed.

  Lemma below_default_log o p : below p (default_log o).
  Proof. unfold Requests.default_log. destruct (_ || _); [apply B_ret|apply B_lift]. Qed.

  Definition BE (e : expr) : Prop := forall p o, below p (deval p e o).
  Definition BV (e : expr) : Prop := forall p o, below p (dvalidate p e o).
  Definition BK (e : expr) : Prop := forall p o, below p (dkeys p e o).
  Definition BX (e : expr) : Prop := forall p o, below p (dexplain p e o).
  Definition B4 (e : expr) : Prop := BE e /\ BV e /\ BK e /\ BX e.

  Lemma kid p i A (q : prog A) : below (p +: i) q -> below p q.
  Proof. apply below_up, prefixb_sub. Qed.

  Ltac kids :=
    repeat match goal with
           | H : B4 _ |- _ => destruct H as (? & ? & ? & ?)
           | H : Popt _ (Some _) |- _ => simpl in H
           | H : Popt _ None |- _ => clear H
           end;
    unfold BE, BV, BK, BX in *.
  Ltac kid1 := eapply kid; eauto.
  Ltac inl H := let HH := fresh in
    pose proof H as HH; rewrite Forall_forall in HH.

  Theorem below_all e : B4 e.
  Proof.
    induction e using expr_ind'.
    - (* EValue *) repeat split; intros p o.
      + rewrite deval_EValue. apply below_call_eval, B_ret.
      + rewrite dvalidate_EValue. apply below_call_meth; [discriminate|apply B_ret].
      + rewrite dkeys_EValue. apply below_call_meth; [discriminate|apply B_ret].
      + rewrite dexplain_EValue. apply below_call_meth; [discriminate|apply B_ret].
    - (* EOption *)
      assert (HC : forall p o, below p (option_clause (fun i x => deval (p +: i) x o) p (EOption k dflt dom) k dflt dom o)).
      { intros p o. apply below_option_clause; intros i d ->; kids; kid1. }
      repeat split; intros p o.
      + rewrite deval_EOption. apply below_call_eval, HC.
      + rewrite dvalidate_EOption. apply below_call_meth; [discriminate|].
        apply B_bind; [apply B_lift|intros r]. destruct r; [|destruct dflt; kids; [kid1|apply B_lift]|apply B_lift].
        apply B_bind; [apply below_call_eval, HC|intros; apply B_ret].
      + rewrite dkeys_EOption. apply below_call_meth; [discriminate|].
        apply B_bind; [apply B_lift|intros r]. destruct r as [j| |]; [|destruct dflt; kids; [kid1|apply B_lift]|apply B_lift].
        destruct j; try apply B_ret; apply B_lift.
      + rewrite dexplain_EOption. apply below_call_meth; [discriminate|].
        apply B_bind; [apply B_lift|intros r]. destruct r as [j| |]; [|destruct dflt; kids; [kid1|apply B_ret]|apply B_lift].
        destruct j; try apply B_ret; apply B_lift.
    - (* EApply *) kids. repeat split; intros p o.
      + rewrite deval_EApply. apply below_call_eval.
        apply B_bind; [kid1|intros x]. apply B_bind; [kid1|intros; apply B_lift].
      + rewrite dvalidate_EApply. apply below_call_meth; [discriminate|].
        apply B_bind; [kid1|intros; kid1].
      + rewrite dkeys_EApply. apply below_call_meth; [discriminate|].
        apply B_bind; [kid1|intros a]. apply B_bind; [kid1|intros; apply B_ret].
      + rewrite dexplain_EApply. apply below_call_meth; [discriminate|].
        apply B_bind; [kid1|intros a]. apply B_bind; [kid1|intros; apply B_ret].
    - (* EBind *)
      inl H. repeat split; intros p o.
      + rewrite deval_EBind. apply below_call_eval.
        apply B_bind; [kids; kid1|intros x].
        apply below_picki; [intros i ve Hin; destruct (H1 _ Hin) as (? & _); kid1|].
        destruct dflt; kids; [kid1|apply B_lift].
      + rewrite dvalidate_EBind. apply below_call_meth; [discriminate|].
        apply B_bind; [kids; kid1|intros _]. apply B_bind; [kids; kid1|intros x].
        apply below_picki; [intros i ve Hin; destruct (H1 _ Hin) as (? & ? & _); kid1|].
        destruct dflt; kids; [kid1|apply B_lift].
      + rewrite dkeys_EBind. apply below_call_meth; [discriminate|].
        apply B_bind; [kids; kid1|intros a]. apply B_bind; [kids; kid1|intros x].
        apply B_bind; [|intros; apply B_ret].
        apply below_picki; [intros i ve Hin; destruct (H1 _ Hin) as (? & ? & ? & _); kid1|].
        destruct dflt; kids; [kid1|apply B_lift].
      + rewrite dexplain_EBind. apply below_call_meth; [discriminate|].
        apply B_catch; [|intros c ee; destruct ee; apply B_lift].
        apply B_bind; [kids; kid1|intros a]. apply B_bind; [kids; kid1|intros x].
        apply B_bind; [|intros; apply B_ret].
        apply below_picki; [intros i ve Hin; destruct (H1 _ Hin) as (? & ? & ? & ?); kid1|].
        destruct dflt; kids; [kid1|apply B_lift].
    - (* ESwitch *)
      inl H. repeat split; intros p o.
      + rewrite deval_ESwitch. apply below_call_eval.
        apply B_bind; [apply below_dispatch; kids; kid1|intros dv].
        destruct dv as [kk|]; [|destruct dflt; kids; [kid1|apply B_lift]].
        destruct (negb (hashable kk)); [apply B_lift|].
        apply below_picki; [intros i ve Hin; destruct (H1 _ Hin) as (? & _); kid1|].
        destruct dflt; kids; [kid1|apply B_lift].
      + rewrite dvalidate_ESwitch. apply below_call_meth; [discriminate|].
        apply B_bind; [apply below_dispatch; kids; kid1|intros dv].
        destruct dv as [kk|]; [|destruct dflt; kids; [kid1|apply B_lift]].
        destruct (negb (hashable kk)); [apply B_lift|].
        apply below_picki; [intros i ve Hin; destruct (H1 _ Hin) as (? & ? & _); kid1|].
        destruct dflt; kids; [kid1|apply B_lift].
      + rewrite dkeys_ESwitch. apply below_call_meth; [discriminate|].
        apply B_bind; [apply below_dispatch; kids; kid1|intros dv].
        destruct dv as [kk|]; [|destruct dflt; kids; [kid1|apply B_lift]].
        destruct (negb (hashable kk)); [apply B_lift|].
        apply B_bind; [|intros a; apply B_bind; [kids; kid1|intros; apply B_ret]].
        apply below_picki; [intros i ve Hin; destruct (H1 _ Hin) as (? & ? & ? & _); kid1|].
        destruct dflt; kids; [kid1|apply B_lift].
      + rewrite dexplain_ESwitch. apply below_call_meth; [discriminate|].
        apply B_bind.
        * apply B_catch; [apply below_dispatch; kids; kid1|intros c ee; destruct ee; apply B_lift].
        * intros dv. destruct dv as [kk|]; [|destruct dflt; kids; [kid1|apply B_lift]].
          destruct (negb (hashable kk)); [apply B_lift|].
          apply B_bind; [|intros a; apply B_bind; [kids; kid1|intros; apply B_ret]].
          apply below_picki; [intros i ve Hin; destruct (H1 _ Hin) as (? & ? & ? & ?); kid1|].
          destruct dflt; kids; [kid1|apply B_lift].
    - (* ECase *)
      inl H. repeat split; intros p o.
      + rewrite deval_ECase. apply below_call_eval.
        apply B_bind; [kids; kid1|intros x].
        apply below_case_loop; [intros i cr Hin; destruct (H1 _ Hin) as ((? & _) & _); kid1
                               |intros i cr Hin; destruct (H1 _ Hin) as (_ & (? & _)); kid1|].
        destruct dflt; kids; [kid1|apply B_lift].
      + rewrite dvalidate_ECase. apply below_call_meth; [discriminate|].
        apply B_bind; [kids; kid1|intros _]. apply B_bind; [kids; kid1|intros x].
        apply below_case_loop; [intros i cr Hin; destruct (H1 _ Hin) as ((? & _) & _); kid1
                               |intros i cr Hin; destruct (H1 _ Hin) as (_ & (? & ? & _)); kid1|].
        destruct dflt; kids; [kid1|apply B_lift].
      + rewrite dkeys_ECase. apply below_call_meth; [discriminate|].
        apply B_bind; [kids; kid1|intros a]. apply B_bind; [kids; kid1|intros x].
        apply B_bind; [|intros; apply B_ret].
        apply below_case_loop; [intros i cr Hin; destruct (H1 _ Hin) as ((? & _) & _); kid1
                               |intros i cr Hin; destruct (H1 _ Hin) as (_ & (? & ? & ? & _)); kid1|].
        destruct dflt; kids; [kid1|apply B_lift].
      + rewrite dexplain_ECase. apply below_call_meth; [discriminate|].
        apply B_catch; [|intros c ee; destruct ee; apply B_lift].
        apply B_bind; [kids; kid1|intros a]. apply B_bind; [kids; kid1|intros x].
        apply B_bind; [|intros; apply B_ret].
        apply below_case_loop; [intros i cr Hin; destruct (H1 _ Hin) as ((? & _) & _); kid1
                               |intros i cr Hin; destruct (H1 _ Hin) as (_ & (? & ? & ? & ?)); kid1|].
        destruct dflt; kids; [kid1|apply B_lift].
    - (* ECoalesce *)
      inl H. repeat split; intros p o.
      + rewrite deval_ECoalesce. apply below_call_eval.
        apply below_coalesce_loop; intros i m Hin; destruct (H0 _ Hin) as (? & ? & _); kid1.
      + rewrite dvalidate_ECoalesce. apply below_call_meth; [discriminate|].
        apply below_coalesce_loop; intros i m Hin; destruct (H0 _ Hin) as (? & ? & _); kid1.
      + rewrite dkeys_ECoalesce. apply below_call_meth; [discriminate|].
        apply below_coalesce_loop; intros i m Hin; destruct (H0 _ Hin) as (? & ? & ? & _); kid1.
      + rewrite dexplain_ECoalesce. apply below_call_meth; [discriminate|].
        apply B_catch.
        * apply below_coalesce_loop; intros i m Hin; destruct (H0 _ Hin) as (? & ? & ? & ?); kid1.
        * intros c ee. destruct ee; [|apply B_lift].
          apply below_last_member; intros i m Hin; destruct (H0 _ Hin) as (? & ? & ? & ?); kid1.
    - (* EIter *)
      inl H. repeat split; intros p o.
      + rewrite deval_EIter. apply below_call_eval.
        apply B_bind; [|intros; apply B_ret].
        apply below_iter_loop; intros i m Hin; destruct (H0 _ Hin) as (? & _); kid1.
      + rewrite dvalidate_EIter. apply below_call_meth; [discriminate|].
        apply below_iterMi; intros i m Hin; destruct (H0 _ Hin) as (? & ? & _); kid1.
      + rewrite dkeys_EIter. apply below_call_meth; [discriminate|].
        apply below_unionMi; intros i m Hin; destruct (H0 _ Hin) as (? & ? & ? & _); kid1.
      + rewrite dexplain_EIter. apply below_call_meth; [discriminate|].
        apply below_unionMi; intros i m Hin; destruct (H0 _ Hin) as (? & ? & ? & ?); kid1.
    - (* EMap *)
      inl H.
      assert (HR : forall p o, below p (map_rows_prog (fun i x => deval (p +: i) x o) its)).
      { intros p o. apply below_map_rows; intros i kv Hin; destruct (H0 _ Hin) as (? & _); kid1. }
      kids. repeat split; intros p o.
      + rewrite deval_EMap. apply below_call_eval.
        apply B_bind; [apply HR|intros rows]. apply B_bind; [apply B_lift|intros rowsos].
        apply B_bind; [|intros; apply B_ret]. apply below_map_loop; intros os; kid1.
      + rewrite dvalidate_EMap. apply below_call_meth; [discriminate|].
        apply B_bind; [apply HR|intros rows]. apply below_rows_iter; intros os; kid1.
      + rewrite dkeys_EMap. apply below_call_meth; [discriminate|].
        apply B_bind; [apply HR|intros rows].
        apply B_bind; [apply below_rows_union; intros os; apply B_bind; [kid1|intros; apply B_lift]|intros a].
        apply B_bind; [|intros; apply B_ret].
        apply below_unionMi; intros i kv Hin; destruct (H0 _ Hin) as (? & ? & ? & _); kid1.
      + rewrite dexplain_EMap. apply below_call_meth; [discriminate|].
        apply B_catch.
        * apply B_bind; [apply HR|intros rows].
          apply B_bind; [apply below_rows_union; intros os; apply B_bind; [kid1|intros; apply B_lift]|intros a].
          apply B_bind; [|intros; apply B_ret].
          apply below_unionMi; intros i kv Hin; destruct (H0 _ Hin) as (? & ? & ? & ?); kid1.
        * intros c ee. destruct ee; [|apply B_lift].
          apply B_bind; [kid1|intros a]. apply B_bind; [|intros; apply B_ret].
          apply below_unionMi; intros i kv Hin; destruct (H0 _ Hin) as (? & ? & ? & ?); kid1.
    - (* EWith *) kids. repeat split; intros pp o.
      + rewrite deval_EWith. apply below_call_eval. kid1.
      + rewrite dvalidate_EWith. apply below_call_meth; [discriminate|]. kid1.
      + rewrite dkeys_EWith. apply below_call_meth; [discriminate|].
        apply B_bind; [kid1|intros; apply B_lift].
      + rewrite dexplain_EWith. apply below_call_meth; [discriminate|].
        apply B_bind; [kid1|intros; apply B_lift].
    - (* ECached *) kids.
      assert (HF : forall p o, below p (ks <- dkeys (p +: 0) e o ;; L (fingerprint_of S ks o))).
      { intros p o. apply B_bind; [kid1|intros; apply B_lift]. }
      repeat split; intros p o.
      + rewrite deval_ECached. apply below_call_eval.
        apply B_bind; [apply below_call_meth; [discriminate|apply below_default_exists, HF]|intros ex].
        apply B_bind.
        * destruct ex; [|apply B_ret]. apply below_call_meth; [discriminate|apply below_default_get, HF].
        * intros hit. destruct hit; [apply B_ret|].
          apply B_bind; [kid1|intros v]. apply below_call_meth; [discriminate|apply below_default_set, HF].
      + rewrite dvalidate_ECached. apply below_call_meth; [discriminate|].
        apply B_bind; [apply below_call_meth; [discriminate|apply below_default_exists, HF]|intros ex].
        destruct ex; [apply B_ret|kid1].
      + rewrite dkeys_ECached. apply below_call_meth; [discriminate|]. kid1.
      + rewrite dexplain_ECached. apply below_call_meth; [discriminate|]. kid1.
    - (* ECall *)
      inl H. inl H0. kids. repeat split; intros p o.
      + rewrite deval_ECall. apply below_call_eval.
        apply B_bind; [kid1|intros fv].
        apply B_bind; [apply below_mapMi; intros i x Hin; destruct (H1 _ Hin) as (? & _); kid1|intros av].
        apply B_bind; [apply below_mapMi; intros i x Hin; destruct (H2 _ Hin) as (? & _); kid1|intros kv].
        destruct partial; [|apply B_lift]. destruct fv; try apply B_lift; apply B_ret.
      + rewrite dvalidate_ECall. apply below_call_meth; [discriminate|].
        apply B_bind; [kid1|intros _].
        apply B_bind; [apply below_iterMi; intros i x Hin; destruct (H1 _ Hin) as (? & ? & _); kid1|intros _].
        apply below_iterMi; intros i x Hin; destruct (H2 _ Hin) as (? & ? & _); kid1.
      + rewrite dkeys_ECall. apply below_call_meth; [discriminate|].
        apply B_bind; [kid1|intros a].
        apply B_bind; [apply below_unionMi; intros i x Hin; destruct (H1 _ Hin) as (? & ? & ? & _); kid1|intros b].
        apply B_bind; [apply below_unionMi; intros i x Hin; destruct (H2 _ Hin) as (? & ? & ? & _); kid1|intros; apply B_ret].
      + rewrite dexplain_ECall. apply below_call_meth; [discriminate|].
        apply B_bind; [kid1|intros a].
        apply B_bind; [apply below_unionMi; intros i x Hin; destruct (H1 _ Hin) as (? & ? & ? & ?); kid1|intros b].
        apply B_bind; [apply below_unionMi; intros i x Hin; destruct (H2 _ Hin) as (? & ? & ? & ?); kid1|intros; apply B_ret].
    - (* ETemplate *)
      inl H. repeat split; intros p o.
      + rewrite deval_ETemplate. apply below_call_eval.
        apply B_bind; [|intros; apply B_lift].
        apply below_template_options; intros i pe Hin; destruct (H0 _ Hin) as (? & _); kid1.
      + rewrite dvalidate_ETemplate. apply below_call_meth; [discriminate|].
        apply B_bind; [|intros; apply B_lift].
        apply below_iterMi; intros i pe Hin; destruct (H0 _ Hin) as (? & ? & _); kid1.
      + rewrite dkeys_ETemplate. apply below_call_meth; [discriminate|].
        apply B_bind; [|intros a; apply B_bind; [apply B_lift|intros; apply B_ret]].
        apply below_unionMi; intros i pe Hin; destruct (H0 _ Hin) as (? & ? & ? & _); kid1.
      + rewrite dexplain_ETemplate. apply below_call_meth; [discriminate|].
        apply B_bind; [|intros a; apply B_bind; [apply B_lift|intros; apply B_ret]].
        apply below_unionMi; intros i pe Hin; destruct (H0 _ Hin) as (? & ? & ? & ?); kid1.
    - (* EComp *)
      inl H. kids. repeat split; intros p o.
      + rewrite deval_EComp. apply below_call_eval.
        apply B_bind; [kid1|intros v]. apply B_bind; [|intros; apply B_ret].
        destruct (effects_opt_off o); [apply B_ret|].
        apply below_iterMi; intros i x Hin; destruct (H0 _ Hin) as (? & _).
        apply B_bind; [kid1|intros f]. apply B_bind; [apply B_lift|intros; apply B_ret].
      + rewrite dvalidate_EComp. apply below_call_meth; [discriminate|].
        apply B_bind; [kid1|intros _]. destruct (effects_opt_off o); [apply B_ret|].
        apply below_iterMi; intros i x Hin; destruct (H0 _ Hin) as (? & ? & _); kid1.
      + rewrite dkeys_EComp. apply below_call_meth; [discriminate|]. kid1.
      + rewrite dexplain_EComp. apply below_call_meth; [discriminate|].
        apply B_bind; [kid1|intros a]. destruct (effects_opt_off o); [apply B_ret|].
        apply B_bind; [|intros; apply B_ret].
        apply below_unionMi; intros i x Hin; destruct (H0 _ Hin) as (? & ? & ? & ?); kid1.
    - (* ELogged *) kids. repeat split; intros p o.
      + rewrite deval_ELogged. apply below_call_eval.
        apply B_bind; [apply below_call_meth; [discriminate|apply below_default_log]|intros _; kid1].
      + rewrite dvalidate_ELogged. apply below_call_meth; [discriminate|]. kid1.
      + rewrite dkeys_ELogged. apply below_call_meth; [discriminate|]. kid1.
      + rewrite dexplain_ELogged. apply below_call_meth; [discriminate|]. kid1.
    - (* EPipe *)
      inl H. repeat split; intros p o.
      + rewrite deval_EPipe. apply below_call_eval.
        apply B_bind; [|intros; apply B_ret].
        apply below_mapMi; intros i x Hin; destruct (H0 _ Hin) as (? & _); kid1.
      + rewrite dvalidate_EPipe. apply below_call_meth; [discriminate|].
        apply below_iterMi; intros i x Hin; destruct (H0 _ Hin) as (? & ? & _); kid1.
      + rewrite dkeys_EPipe. apply below_call_meth; [discriminate|].
        apply below_unionMi; intros i x Hin; destruct (H0 _ Hin) as (? & ? & ? & _); kid1.
      + rewrite dexplain_EPipe. apply below_call_meth; [discriminate|].
        apply below_unionMi; intros i x Hin; destruct (H0 _ Hin) as (? & ? & ? & ?); kid1.
    - (* EAllOptions *) repeat split; intros p o.
      + rewrite deval_EAllOptions. apply below_call_eval, B_lift.
      + rewrite dvalidate_EAllOptions. apply below_call_meth; [discriminate|].
        apply B_bind; [apply below_call_eval, B_lift|intros; apply B_ret].
      + rewrite dkeys_EAllOptions. apply below_call_meth; [discriminate|apply B_lift].
      + rewrite dexplain_EAllOptions. apply below_call_meth; [discriminate|apply B_lift].
  Qed.

  (** nested requests concern sub-nodes only: whatever the handler table, every request issued
      or seen while method m runs on the node at [p] sits at or below [p] *)
  Theorem requests_nested H e p o s :
    all_below p (snd (run S H (deval p e o) s)) /\ all_below p (snd (run S H (dvalidate p e o) s)) /\
    all_below p (snd (run S H (dkeys p e o) s)) /\ all_below p (snd (run S H (dexplain p e o) s)).
  Proof.
    destruct (below_all e) as (HE & HV & HK & HX).
    repeat split; apply run_below; [apply HE|apply HV|apply HK|apply HX].
  Qed.

  (** ** Coverage: the requests that every successful run issues *)
  Section Wrapped.
  Hypothesis Hrt : table_ok rt = true.
  Notation cov := (cov S).

  Lemma wrapped_ok c k : wrapped rt c k = true.
  Proof.
    unfold table_ok in Hrt. apply andb_true_iff in Hrt as [H1 H2].
    unfold wrapped. apply andb_true_iff. split.
    - rewrite forallb_forall in H2. apply H2. destruct c; simpl; tauto.
    - rewrite forallb_forall in *. intros r Hr. specialize (H1 r Hr).
      destruct (row_is c r); [|reflexivity].
      unfold all_wrapped in H1. repeat (apply andb_true_iff in H1 as [H1 ?]).
      destruct k; assumption.
  Qed.

  Lemma call_eval_ok p e o c : call_eval p e o c = PReqE p e o (PWrap c).
  Proof. unfold Requests.call_eval. now rewrite wrapped_ok. Qed.
  Lemma call_meth_ok A k p e o (c : prog A) : call_meth k p e o c = PReq k p e o c.
  Proof. unfold Requests.call_meth. now rewrite wrapped_ok. Qed.

  Lemma vhead_eval p e : In (KEval, p) (visits_eval p e).
  Proof. destruct e; left; reflexivity. Qed.
  Lemma vhead_validate p e : In (KValidate, p) (visits_validate p e).
  Proof. destruct e; left; reflexivity. Qed.
  Lemma vhead_keys p e : In (KKeys, p) (visits_keys p e).
  Proof. destruct e; left; reflexivity. Qed.
  Lemma vhead_explain p e : In (KExplain, p) (visits_explain p e).
  Proof. destruct e; left; reflexivity. Qed.

  Ltac in_tac :=
    match goal with
    | |- In ?a (?a :: _) => left; reflexivity
    | |- In _ (_ :: _) => right; in_tac
    | |- In _ (_ ++ _) => apply in_or_app; first [left; in_tac | right; in_tac]
    | |- In (KEval, ?p) (visits_eval ?p _) => apply vhead_eval
    | |- In (KValidate, ?p) (visits_validate ?p _) => apply vhead_validate
    | |- In (KKeys, ?p) (visits_keys ?p _) => apply vhead_keys
    | |- In (KExplain, ?p) (visits_explain ?p _) => apply vhead_explain
    | |- In _ _ => assumption
    end.
  Ltac sub_tac :=
    match goal with
    | |- incl ?x ?x => apply incl_refl
    | |- incl ?x (_ :: _) => apply incl_tl; sub_tac
    | |- incl ?x (_ ++ _) => first [apply incl_appl; sub_tac | apply incl_appr; sub_tac]
    | |- incl _ _ => assumption
    end.
  Ltac incl_tac :=
    match goal with
    | |- incl [] _ => apply incl_nil_l
    | |- incl (_ :: _) _ => apply incl_cons; [in_tac | incl_tac]
    | |- incl (_ ++ _) _ => apply incl_app; incl_tac
    | |- incl _ _ => sub_tac
    end.

  Lemma cov_bind_l A B (q : prog A) (f : A -> prog B) A1 C1 :
    cov q A1 C1 -> cov (PBind q f) A1 C1.
  Proof.
    intros Hq. eapply cov_weaken; [apply (cov_bind S _ _ q f A1 C1 [] []); [exact Hq|intros; apply cov_nil]| |]; incl_tac.
  Qed.

  Lemma cov_bind_r A B (q : prog A) (f : A -> prog B) A2 C2 :
    (forall a, cov (f a) A2 C2) -> cov (PBind q f) [] C2.
  Proof.
    intros Hf. eapply cov_weaken; [apply (cov_bind S _ _ q f [] [] A2 C2); [apply cov_nil|exact Hf]| |]; incl_tac.
  Qed.

  (** a handler that always fails contributes nothing: the body's success set survives *)
  Lemma cov_catch_fail A (q : prog A) h A1 C1 :
    cov q A1 C1 -> (forall c ee, exists c' ee', h c ee = PLift (fail S c' ee')) -> cov (PCatch q h) A1 C1.
  Proof.
    intros Hq Hh. apply (cov_catch S _ q h A1 C1 [] C1 C1); [exact Hq| | |]; try incl_tac.
    intros c ee. destruct (Hh c ee) as (c' & ee' & ->). apply cov_fail.
  Qed.

  Lemma cov_catch_any A (q : prog A) h A1 C1 a :
    cov q A1 C1 -> In a A1 -> In a C1 -> cov (PCatch q h) [a] [a].
  Proof.
    intros Hq Ha Hc.
    apply (cov_weaken S _ _ A1 [a]); [| |apply incl_refl].
    - apply (cov_catch S _ q h A1 C1 [] [] [a]); [exact Hq|intros; apply cov_nil| |].
      + intros x [<-|[]]. exact Hc.
      + intros x [<-|[]]. apply in_or_app. now left.
    - intros x [<-|[]]. exact Ha.
  Qed.

  Lemma cov_mapMi A B (f : nat -> A -> prog B) (Af : nat -> A -> list (rkind * path)) V l :
    (forall i x, In x l -> cov (f i x) (Af i x) (V i x)) -> forall n, cov (mapMi f n l) [] (cat_i V n l).
  Proof.
    induction l as [|a l IH]; intros Hf n; simpl; [apply cov_ret|].
    eapply cov_weaken; [apply (cov_bind S _ _ _ _ (Af n a) (V n a) [] (cat_i V (Datatypes.S n) l));
                        [apply Hf; now left|intros b; apply cov_bind_l, IH; intros; apply Hf; now right]| |]; incl_tac.
  Qed.

  Lemma cov_iterMi A (f : nat -> A -> prog unit) (Af : nat -> A -> list (rkind * path)) V l :
    (forall i x, In x l -> cov (f i x) (Af i x) (V i x)) -> forall n, cov (iterMi f n l) [] (cat_i V n l).
  Proof.
    induction l as [|a l IH]; intros Hf n; simpl; [apply cov_ret|].
    eapply cov_weaken; [apply (cov_bind S _ _ _ _ (Af n a) (V n a) [] (cat_i V (Datatypes.S n) l));
                        [apply Hf; now left|intros b; apply IH; intros; apply Hf; now right]| |]; incl_tac.
  Qed.

  Lemma cov_unionMi A (f : nat -> A -> prog (list key)) (Af : nat -> A -> list (rkind * path)) V l :
    (forall i x, In x l -> cov (f i x) (Af i x) (V i x)) -> forall n, cov (unionMi f n l) [] (cat_i V n l).
  Proof.
    induction l as [|a l IH]; intros Hf n; simpl; [apply cov_ret|].
    eapply cov_weaken; [apply (cov_bind S _ _ _ _ (Af n a) (V n a) [] (cat_i V (Datatypes.S n) l));
                        [apply Hf; now left|intros b; apply cov_bind_l, IH; intros; apply Hf; now right]| |]; incl_tac.
  Qed.

  Lemma cov_map_rows ev (Af : nat -> key * expr -> list (rkind * path)) V (its : list (key * expr)) :
    (forall i kv, In kv its -> cov (ev i (snd kv)) (Af i kv) (V i kv)) ->
    cov (map_rows_prog ev its) [] (cat_i V 1 its).
  Proof.
    intros He. unfold Requests.map_rows_prog. apply cov_bind_l.
    apply (cov_mapMi _ _ _ Af). intros i kv Hin. apply cov_bind_l. now apply He.
  Qed.

  Lemma cov_dispatch_any ev hd A1 C1 a :
    cov ev A1 C1 -> In a A1 -> In a C1 -> cov (dispatch_prog ev hd) [a] [a].
  Proof.
    intros He Ha Hc. unfold Requests.dispatch_prog.
    eapply cov_catch_any; [apply cov_bind_l; exact He|exact Ha|exact Hc].
  Qed.

  Lemma cov_dispatch_none ev A1 C1 : cov ev A1 C1 -> cov (dispatch_prog ev false) A1 C1.
  Proof.
    intros He. unfold Requests.dispatch_prog. apply cov_catch_fail; [apply cov_bind_l; exact He|].
    intros c ee. rewrite andb_false_r. eauto.
  Qed.

  Definition CE (e : expr) : Prop := forall p o, cov (deval p e o) [(KEval, p)] (visits_eval p e).
  Definition CV (e : expr) : Prop := forall p o, cov (dvalidate p e o) [(KValidate, p)] (visits_validate p e).
  Definition CK (e : expr) : Prop := forall p o, cov (dkeys p e o) [(KKeys, p)] (visits_keys p e).
  Definition CX (e : expr) : Prop := forall p o, cov (dexplain p e o) [(KExplain, p)] (visits_explain p e).
  Definition C4 (e : expr) : Prop := CE e /\ CV e /\ CK e /\ CX e.

  Ltac ckids :=
    repeat match goal with
           | H : C4 _ |- _ => destruct H as (? & ? & ? & ?)
           | H : Popt _ (Some _) |- _ => simpl in H
           | H : Popt _ None |- _ => clear H
           end;
    unfold CE, CV, CK, CX in *.
  (* the node's own request around the clause: evaluate / the other three *)
  Ltac rootE := rewrite call_eval_ok; eapply cov_weaken; [apply cov_reqE, cov_wrap| |].
  Ltac rootM := rewrite call_meth_ok; eapply cov_weaken; [apply cov_req| |].
  Ltac fin := try solve [incl_tac]; try solve [simpl; incl_tac].

  Ltac ih :=
    match goal with
    | H : forall (p : path) (o : dict), _ |- _ => apply H
    end.

  Theorem cov_all e : C4 e.
  Proof.
    induction e using expr_ind'.
    - (* EValue *) repeat split; intros p o.
      + rewrite deval_EValue. rootE; [apply cov_ret| |]; fin.
      + rewrite dvalidate_EValue. rootM; [apply cov_ret| |]; fin.
      + rewrite dkeys_EValue. rootM; [apply cov_ret| |]; fin.
      + rewrite dexplain_EValue. rootM; [apply cov_ret| |]; fin.
    - (* EOption *) repeat split; intros p o.
      + rewrite deval_EOption. rootE.
        * unfold Requests.option_clause. apply cov_bind_r with (A2 := []). intros r.
          apply cov_bind_r with (A2 := [(KType, p)]). intros v0.
          rewrite call_meth_ok.
          apply (cov_bind S _ _ _ _ [(KType, p)] [(KType, p)] []
                   (match dom with Some de => visits_eval (p +: 1) de | None => [] end)).
          -- eapply cov_weaken; [apply cov_req, cov_ret| |]; fin.
          -- intros ?. destruct dom as [de|]; [|apply cov_ret].
             ckids. eapply cov_weaken; [apply cov_bind_l; ih| |]; fin.
        * fin.
        * simpl. destruct dom; fin.
      + rewrite dvalidate_EOption. rootM; [apply cov_nil| |]; fin.
      + rewrite dkeys_EOption. rootM; [apply cov_nil| |]; fin.
      + rewrite dexplain_EOption. rootM; [apply cov_nil| |]; fin.
    - (* EApply *) ckids. repeat split; intros p o.
      + rewrite deval_EApply. rootE.
        * eapply cov_bind; [ih|intros x; apply cov_bind_l; ih].
        * fin.
        * fin.
      + rewrite dvalidate_EApply. rootM.
        * eapply cov_bind; [ih|intros x; ih].
        * fin.
        * fin.
      + rewrite dkeys_EApply. rootM.
        * eapply cov_bind; [ih|intros x; apply cov_bind_l; ih].
        * fin.
        * fin.
      + rewrite dexplain_EApply. rootM.
        * eapply cov_bind; [ih|intros x; apply cov_bind_l; ih].
        * fin.
        * fin.
    - (* EBind *) ckids. repeat split; intros p o.
      + rewrite deval_EBind. rootE; [apply cov_bind_l; ih| |]; fin.
      + rewrite dvalidate_EBind. rootM.
        * eapply cov_bind; [ih|intros ?; apply cov_bind_l; ih].
        * fin.
        * fin.
      + rewrite dkeys_EBind. rootM.
        * eapply cov_bind; [ih|intros ?; apply cov_bind_l; ih].
        * fin.
        * fin.
      + rewrite dexplain_EBind. rootM.
        * apply cov_catch_fail; [|intros c ee; destruct ee; eauto].
          eapply cov_bind; [ih|intros ?; apply cov_bind_l; ih].
        * fin.
        * fin.
    - (* ESwitch *) ckids. repeat split; intros p o.
      + rewrite deval_ESwitch. rootE.
        * apply cov_bind_l.
          instantiate (1 := match dflt with None => visits_eval (p +: 0) e | Some _ => [(KEval, p +: 0)] end).
          instantiate (1 := match dflt with None => [(KEval, p +: 0)] | Some _ => [(KEval, p +: 0)] end).
          destruct dflt; simpl.
          -- eapply cov_dispatch_any; [ih|now left|apply vhead_eval].
          -- apply cov_dispatch_none; ih.
        * destruct dflt; fin.
        * simpl. destruct dflt; fin.
      + rewrite dvalidate_ESwitch. rootM.
        * apply cov_bind_l.
          instantiate (1 := match dflt with None => visits_eval (p +: 0) e | Some _ => [(KEval, p +: 0)] end).
          instantiate (1 := match dflt with None => [(KEval, p +: 0)] | Some _ => [(KEval, p +: 0)] end).
          destruct dflt; simpl.
          -- eapply cov_dispatch_any; [ih|now left|apply vhead_eval].
          -- apply cov_dispatch_none; ih.
        * destruct dflt; fin.
        * simpl. destruct dflt; fin.
      + rewrite dkeys_ESwitch. rootM.
        * instantiate (1 := match dflt with
                            | None => visits_eval (p +: 0) e ++ visits_keys (p +: 0) e
                            | Some _ => [(KEval, p +: 0)] end).
          instantiate (1 := [(KEval, p +: 0)]).
          destruct dflt as [d|]; simpl.
          -- apply cov_bind_l. eapply cov_dispatch_any; [ih|now left|apply vhead_eval].
          -- eapply cov_bind; [apply cov_dispatch_none; ih|].
             intros dv. destruct dv as [kk|]; [|apply cov_fail].
             destruct (negb (hashable kk)); [apply cov_fail|].
             apply cov_bind_r with (A2 := [(KKeys, p +: 0)]). intros a. apply cov_bind_l; ih.
        * fin.
        * simpl. destruct dflt; fin.
      + rewrite dexplain_ESwitch. rootM.
        * apply cov_bind_l.
          eapply cov_catch_any with (a := (KEval, p +: 0));
            [eapply cov_AC; eapply cov_dispatch_any; [ih|now left|apply vhead_eval]|now left|now left].
        * fin.
        * fin.
    - (* ECase *) ckids. repeat split; intros p o.
      + rewrite deval_ECase. rootE; [apply cov_bind_l; ih| |]; fin.
      + rewrite dvalidate_ECase. rootM.
        * eapply cov_bind; [ih|intros ?; apply cov_bind_l; ih].
        * fin.
        * fin.
      + rewrite dkeys_ECase. rootM.
        * eapply cov_bind; [ih|intros ?; apply cov_bind_l; ih].
        * fin.
        * fin.
      + rewrite dexplain_ECase. rootM.
        * apply cov_catch_fail; [|intros c ee; destruct ee; eauto].
          eapply cov_bind; [ih|intros ?; apply cov_bind_l; ih].
        * fin.
        * fin.
    - (* ECoalesce *)
      assert (HF : forall A (fin : nat -> expr -> prog A) p o,
                 cov (coalesce_loop (fun i m => dvalidate (p +: i) m o) fin 0 ms None) []
                     (match ms with [] => [] | _ :: _ => [(KValidate, p +: 0)] end)).
      { intros A fin p o. destruct ms as [|m ms']; simpl; [apply cov_nil|].
        inversion H as [|? ? Hm _]; subst. destruct Hm as (_ & HV & _). unfold CV in HV.
        eapply cov_weaken; [eapply cov_catch_any with (a := (KValidate, p +: 0));
                            [apply cov_bind_l, HV|now left|apply vhead_validate]| |]; fin. }
      repeat split; intros p o.
      + rewrite deval_ECoalesce. rootE; [apply HF| |]; fin.
      + rewrite dvalidate_ECoalesce. rootM; [apply HF| |]; fin.
      + rewrite dkeys_ECoalesce. rootM; [apply HF| |]; fin.
      + rewrite dexplain_ECoalesce. rootM.
        * instantiate (1 := match ms with [] => [] | _ :: _ => [(KValidate, p +: 0)] end).
          instantiate (1 := match ms with [] => [] | _ :: _ => [(KValidate, p +: 0)] end).
          destruct ms as [|m ms']; [apply cov_nil|].
          inversion H as [|? ? Hm _]; subst. destruct Hm as (_ & HV & _). unfold CV in HV.
          simpl. eapply cov_catch_any with (a := (KValidate, p +: 0));
            [eapply cov_AC; eapply cov_catch_any with (a := (KValidate, p +: 0));
               [apply cov_bind_l, HV|now left|apply vhead_validate]
            |now left|now left].
        * destruct ms; fin.
        * simpl. destruct ms; fin.
    - (* EIter *)
      rewrite Forall_forall in H. repeat split; intros p o.
      + rewrite deval_EIter. rootE.
        * apply cov_bind_l.
          instantiate (1 := match es with [] => [] | _ :: _ => [(KEval, p +: 0)] end).
          instantiate (1 := []).
          destruct es as [|x es']; simpl; [apply cov_ret|].
          destruct (H x (or_introl eq_refl)) as (HE & _). unfold CE in HE.
          eapply cov_weaken; [eapply cov_catch_any with (a := (KEval, p +: 0));
                              [apply cov_bind_l, HE|now left|apply vhead_eval]| |]; fin.
        * fin.
        * simpl. destruct es; fin.
      + rewrite dvalidate_EIter. rootM.
        * apply (cov_iterMi _ _ (fun i x => [(KValidate, p +: i)])).
          intros i x Hin. destruct (H x Hin) as (_ & HV & _). apply HV.
        * fin.
        * fin.
      + rewrite dkeys_EIter. rootM.
        * apply (cov_unionMi _ _ (fun i x => [(KKeys, p +: i)])).
          intros i x Hin. destruct (H x Hin) as (_ & _ & HK & _). apply HK.
        * fin.
        * fin.
      + rewrite dexplain_EIter. rootM.
        * apply (cov_unionMi _ _ (fun i x => [(KExplain, p +: i)])).
          intros i x Hin. destruct (H x Hin) as (_ & _ & _ & HX). apply HX.
        * fin.
        * fin.
    - (* EMap *)
      rewrite Forall_forall in H.
      assert (HR : forall p o, cov (map_rows_prog (fun i x => deval (p +: i) x o) its) []
                                   (cat_i (fun i kv => visits_eval (p +: i) (snd kv)) 1 its)).
      { intros p o. apply (cov_map_rows _ (fun i kv => [(KEval, p +: i)])).
        intros i kv Hin. destruct (H kv Hin) as (HE & _). apply HE. }
      repeat split; intros p o.
      + rewrite deval_EMap. rootE; [apply cov_bind_l, HR| |]; fin.
      + rewrite dvalidate_EMap. rootM; [apply cov_bind_l, HR| |]; fin.
      + rewrite dkeys_EMap. rootM.
        * eapply cov_bind; [apply HR|intros rows]. apply cov_bind_r with (A2 := []). intros a.
          apply cov_bind_l. apply (cov_unionMi _ _ (fun i kv => [(KKeys, p +: i)])).
          intros i kv Hin. destruct (H kv Hin) as (_ & _ & HK & _). apply HK.
        * fin.
        * fin.
      + rewrite dexplain_EMap. rootM.
        * assert (HU : cov (unionMi (fun i kv => dexplain (p +: i) (snd kv) o) 1 its) []
                           (cat_i (fun i kv => visits_explain (p +: i) (snd kv)) 1 its)).
          { apply (cov_unionMi _ _ (fun i kv => [(KExplain, p +: i)])).
            intros i kv Hin. destruct (H kv Hin) as (_ & _ & _ & HX). apply HX. }
          eapply (cov_catch S _ _ _ [] _ [] _ (cat_i (fun i kv => visits_explain (p +: i) (snd kv)) 1 its)).
          -- apply cov_bind_r with (A2 := []). intros rows. apply cov_bind_r with (A2 := []). intros a.
             apply cov_bind_l, HU.
          -- intros c ee.
             instantiate (1 := cat_i (fun i kv => visits_explain (p +: i) (snd kv)) 1 its).
             destruct ee; [|apply cov_fail].
             apply cov_bind_r with (A2 := []). intros a. apply cov_bind_l, HU.
          -- fin.
          -- fin.
        * fin.
        * fin.
    - (* EWith *) ckids. repeat split; intros pp o.
      + rewrite deval_EWith. rootE; [ih| |]; fin.
      + rewrite dvalidate_EWith. rootM; [ih| |]; fin.
      + rewrite dkeys_EWith. rootM; [apply cov_bind_l; ih| |]; fin.
      + rewrite dexplain_EWith. rootM; [apply cov_bind_l; ih| |]; fin.
    - (* ECached *) ckids. repeat split; intros p o.
      + rewrite deval_ECached. rootE.
        * apply cov_bind_l. rewrite call_meth_ok. apply cov_req, cov_nil.
        * fin.
        * fin.
      + rewrite dvalidate_ECached. rootM.
        * apply cov_bind_l. rewrite call_meth_ok. apply cov_req, cov_nil.
        * fin.
        * fin.
      + rewrite dkeys_ECached. rootM; [ih| |]; fin.
      + rewrite dexplain_ECached. rootM; [ih| |]; fin.
    - (* ECall *)
      rewrite Forall_forall in H, H0. ckids. repeat split; intros p o.
      + rewrite deval_ECall. rootE.
        * eapply cov_bind; [ih|intros fv].
          eapply cov_bind; [apply (cov_mapMi _ _ _ (fun i x => [(KEval, p +: i)])); intros i x Hin;
                            destruct (H x Hin) as (HE & _); apply HE|intros av].
          apply cov_bind_l. apply (cov_mapMi _ _ _ (fun i x => [(KEval, p +: i)])); intros i x Hin.
          destruct (H0 x Hin) as (HE & _); apply HE.
        * fin.
        * fin.
      + rewrite dvalidate_ECall. rootM.
        * eapply cov_bind; [ih|intros ?].
          eapply cov_bind; [apply (cov_iterMi _ _ (fun i x => [(KValidate, p +: i)])); intros i x Hin;
                            destruct (H x Hin) as (_ & HV & _); apply HV|intros ?].
          apply (cov_iterMi _ _ (fun i x => [(KValidate, p +: i)])); intros i x Hin.
          destruct (H0 x Hin) as (_ & HV & _); apply HV.
        * fin.
        * fin.
      + rewrite dkeys_ECall. rootM.
        * eapply cov_bind; [ih|intros a].
          eapply cov_bind; [apply (cov_unionMi _ _ (fun i x => [(KKeys, p +: i)])); intros i x Hin;
                            destruct (H x Hin) as (_ & _ & HK & _); apply HK|intros b].
          apply cov_bind_l. apply (cov_unionMi _ _ (fun i x => [(KKeys, p +: i)])); intros i x Hin.
          destruct (H0 x Hin) as (_ & _ & HK & _); apply HK.
        * fin.
        * fin.
      + rewrite dexplain_ECall. rootM.
        * eapply cov_bind; [ih|intros a].
          eapply cov_bind; [apply (cov_unionMi _ _ (fun i x => [(KExplain, p +: i)])); intros i x Hin;
                            destruct (H x Hin) as (_ & _ & _ & HX); apply HX|intros b].
          apply cov_bind_l. apply (cov_unionMi _ _ (fun i x => [(KExplain, p +: i)])); intros i x Hin.
          destruct (H0 x Hin) as (_ & _ & _ & HX); apply HX.
        * fin.
        * fin.
    - (* ETemplate *)
      rewrite Forall_forall in H. repeat split; intros p o.
      + rewrite deval_ETemplate. rootE.
        * apply cov_bind_l. unfold Requests.template_options_prog. apply cov_bind_l.
          apply (cov_mapMi _ _ _ (fun i pe => [(KEval, p +: i)])
                           (fun i pe => visits_eval (p +: i) (snd pe))).
          intros i pe Hin. destruct (H pe Hin) as (HE & _). apply cov_bind_l, HE.
        * fin.
        * fin.
      + rewrite dvalidate_ETemplate. rootM.
        * apply cov_bind_l. apply (cov_iterMi _ _ (fun i pe => [(KValidate, p +: i)])
                                             (fun i pe => visits_validate (p +: i) (snd pe))).
          intros i pe Hin. destruct (H pe Hin) as (_ & HV & _). apply HV.
        * fin.
        * fin.
      + rewrite dkeys_ETemplate. rootM.
        * apply cov_bind_l. apply (cov_unionMi _ _ (fun i pe => [(KKeys, p +: i)])
                                              (fun i pe => visits_keys (p +: i) (snd pe))).
          intros i pe Hin. destruct (H pe Hin) as (_ & _ & HK & _). apply HK.
        * fin.
        * fin.
      + rewrite dexplain_ETemplate. rootM.
        * apply cov_bind_l. apply (cov_unionMi _ _ (fun i pe => [(KExplain, p +: i)])
                                              (fun i pe => visits_explain (p +: i) (snd pe))).
          intros i pe Hin. destruct (H pe Hin) as (_ & _ & _ & HX). apply HX.
        * fin.
        * fin.
    - (* EComp *) ckids. repeat split; intros p o.
      + rewrite deval_EComp. rootE; [apply cov_bind_l; ih| |]; fin.
      + rewrite dvalidate_EComp. rootM; [apply cov_bind_l; ih| |]; fin.
      + rewrite dkeys_EComp. rootM; [ih| |]; fin.
      + rewrite dexplain_EComp. rootM; [apply cov_bind_l; ih| |]; fin.
    - (* ELogged *) ckids. repeat split; intros p o.
      + rewrite deval_ELogged. rootE.
        * rewrite call_meth_ok. eapply cov_bind; [apply cov_req, cov_nil|intros ?; ih].
        * fin.
        * fin.
      + rewrite dvalidate_ELogged. rootM; [ih| |]; fin.
      + rewrite dkeys_ELogged. rootM; [ih| |]; fin.
      + rewrite dexplain_ELogged. rootM; [ih| |]; fin.
    - (* EPipe *)
      rewrite Forall_forall in H. repeat split; intros p o.
      + rewrite deval_EPipe. rootE.
        * apply cov_bind_l. apply (cov_mapMi _ _ _ (fun i x => [(KEval, p +: i)])); intros i x Hin.
          destruct (H x Hin) as (HE & _); apply HE.
        * fin.
        * fin.
      + rewrite dvalidate_EPipe. rootM.
        * apply (cov_iterMi _ _ (fun i x => [(KValidate, p +: i)])); intros i x Hin.
          destruct (H x Hin) as (_ & HV & _); apply HV.
        * fin.
        * fin.
      + rewrite dkeys_EPipe. rootM.
        * apply (cov_unionMi _ _ (fun i x => [(KKeys, p +: i)])); intros i x Hin.
          destruct (H x Hin) as (_ & _ & HK & _); apply HK.
        * fin.
        * fin.
      + rewrite dexplain_EPipe. rootM.
        * apply (cov_unionMi _ _ (fun i x => [(KExplain, p +: i)])); intros i x Hin.
          destruct (H x Hin) as (_ & _ & _ & HX); apply HX.
        * fin.
        * fin.
    - (* EAllOptions *) repeat split; intros p o.
      + rewrite deval_EAllOptions. rootE; [apply cov_nil| |]; fin.
      + rewrite dvalidate_EAllOptions. rootM.
        * apply cov_bind_l. rewrite call_eval_ok. apply cov_reqE, cov_nil.
        * fin.
        * fin.
      + rewrite dkeys_EAllOptions. rootM; [apply cov_nil| |]; fin.
      + rewrite dexplain_EAllOptions. rootM; [apply cov_nil| |]; fin.
  Qed.

  (** the sentence of the property, for each of the four methods: recording pass-through
      handlers for the kinds [K] see the node's own request whatever the outcome, and, when the
      method succeeds, every request of [visits] whose kind is in [K] *)
  Definition covered (K : rkind -> bool) {A} (x : res A * S * list hev) (root : rkind * path)
             (vs : list (rkind * path)) : Prop :=
    (K (fst root) = true -> In root (map rq_key (seen (snd x)))) /\
    (forall a, fst (fst x) = Ok a ->
               forall kp, In kp vs -> K (fst kp) = true -> In kp (map rq_key (seen (snd x)))).

  Lemma covered_of_cov K A (q : prog A) root vs s :
    cov q [root] vs -> covered K (run S (passthrough K) q s) root vs.
  Proof.
    intros Hc. destruct (covered_seen S K A q [root] vs s Hc) as [HA HC]. cbv zeta in *.
    split; [intros HK; apply HA; [now left|exact HK]|exact HC].
  Qed.

  Theorem requests_cover_eval K e p o s :
    covered K (run S (passthrough K) (deval p e o) s) (KEval, p) (visits_eval p e).
  Proof. apply covered_of_cov, cov_all. Qed.
  Theorem requests_cover_validate K e p o s :
    covered K (run S (passthrough K) (dvalidate p e o) s) (KValidate, p) (visits_validate p e).
  Proof. apply covered_of_cov, cov_all. Qed.
  Theorem requests_cover_keys K e p o s :
    covered K (run S (passthrough K) (dkeys p e o) s) (KKeys, p) (visits_keys p e).
  Proof. apply covered_of_cov, cov_all. Qed.
  Theorem requests_cover_explain K e p o s :
    covered K (run S (passthrough K) (dexplain p e o) s) (KExplain, p) (visits_explain p e).
  Proof. apply covered_of_cov, cov_all. Qed.

  (** ** Substitution: the run under the substituting handler is the run of the expression with
      the selected nodes replaced by the constant *)
  Section Substitution.
  Variable sels : list path.
  Variable v : value.
  Notation srel := (srel S sels v).
  Notation replace_at := (replace_at sels v).
  Notation cache_on := (negb cfg.(cache_ctx_off)).
  Notation frag := (frag sels cache_on).

  Lemma rlist_length g n l : length (rlist g n l) = length l.
  Proof. revert n. induction l as [|x l IH]; intros n; simpl; [reflexivity|]. now rewrite IH. Qed.
  Lemma rtbl_length K g n (l : list (K * expr)) : length (rtbl g n l) = length l.
  Proof. revert n. induction l as [|[k x] l IH]; intros n; simpl; [reflexivity|]. now rewrite IH. Qed.
  Lemma rtbl_fst K g n (l : list (K * expr)) : map fst (rtbl g n l) = map fst l.
  Proof. revert n. induction l as [|[k x] l IH]; intros n; simpl; [reflexivity|]. now rewrite IH. Qed.

  Lemma rlist_id g l : (forall i x, In x l -> g i x = x) -> forall n, rlist g n l = l.
  Proof.
    induction l as [|x l IH]; intros Hg n; simpl; [reflexivity|].
    rewrite Hg by now left. rewrite IH; [reflexivity|]. intros; apply Hg; now right.
  Qed.
  Lemma rtbl_id K g (l : list (K * expr)) :
    (forall i kx, In kx l -> g i (snd kx) = snd kx) -> forall n, rtbl g n l = l.
  Proof.
    induction l as [|[k x] l IH]; intros Hg n; simpl; [reflexivity|].
    pose proof (Hg n (k, x) (or_introl eq_refl)) as E. simpl in E. rewrite E.
    rewrite IH; [reflexivity|]. intros; apply Hg; now right.
  Qed.
  Lemma rcases_id g l :
    (forall i cr, In cr l -> g i (fst cr) = fst cr) -> (forall i cr, In cr l -> g i (snd cr) = snd cr) ->
    forall n, rcases g n l = l.
  Proof.
    induction l as [|[c r] l IH]; intros Hc Hr n; simpl; [reflexivity|].
    pose proof (Hc (2 + 2 * n) (c, r) (or_introl eq_refl)) as E1. simpl in E1.
    pose proof (Hr (3 + 2 * n) (c, r) (or_introl eq_refl)) as E2. simpl in E2.
    simpl. rewrite E1, E2.
    rewrite IH; [reflexivity| |]; intros; [apply Hc|apply Hr]; now right.
  Qed.

  Lemma untouched_sub p i : untouched sels p = true -> untouched sels (p +: i) = true.
  Proof.
    unfold untouched. rewrite !forallb_forall. intros H q Hq. specialize (H q Hq).
    destruct (prefixb (p +: i) q) eqn:E; [|reflexivity].
    rewrite (prefixb_trans p (p +: i) q) in H; [discriminate|apply prefixb_sub|exact E].
  Qed.
  Lemma untouched_self p : untouched sels p = true -> path_mem p sels = false.
  Proof. intros H. eapply untouched_not_sel; [exact H|apply prefixb_refl]. Qed.

  Lemma replace_untouched e : forall p, untouched sels p = true -> replace_at p e = e.
  Proof.
    induction e using expr_ind'; intros pp Hu; cbn [Requests.replace_at]; rewrite (untouched_self _ Hu);
      try reflexivity.
    - destruct dflt, dom; simpl in *; repeat rewrite ?H, ?H0 by (now apply untouched_sub); reflexivity.
    - now rewrite IHe1, IHe2 by (now apply untouched_sub).
    - rewrite IHe by (now apply untouched_sub). rewrite Forall_forall in H.
      rewrite rtbl_id by (intros i kx Hin; apply (H kx Hin); now apply untouched_sub).
      destruct dflt; simpl in *; [rewrite H0 by (now apply untouched_sub)|]; reflexivity.
    - rewrite IHe by (now apply untouched_sub). rewrite Forall_forall in H.
      rewrite rtbl_id by (intros i kx Hin; apply (H kx Hin); now apply untouched_sub).
      destruct dflt; simpl in *; [rewrite H0 by (now apply untouched_sub)|]; reflexivity.
    - rewrite IHe by (now apply untouched_sub). rewrite Forall_forall in H.
      rewrite rcases_id by (intros i cr Hin; apply (H cr Hin); now apply untouched_sub).
      destruct dflt; simpl in *; [rewrite H0 by (now apply untouched_sub)|]; reflexivity.
    - rewrite Forall_forall in H. rewrite rlist_id; [reflexivity|].
      intros i x Hin; apply (H x Hin); now apply untouched_sub.
    - rewrite Forall_forall in H. rewrite rlist_id; [reflexivity|].
      intros i x Hin; apply (H x Hin); now apply untouched_sub.
    - rewrite IHe by (now apply untouched_sub). rewrite Forall_forall in H.
      rewrite rtbl_id by (intros i kx Hin; apply (H kx Hin); now apply untouched_sub). reflexivity.
    - now rewrite IHe by (now apply untouched_sub).
    - now rewrite IHe by (now apply untouched_sub).
    - rewrite IHe by (now apply untouched_sub). rewrite Forall_forall in H, H0.
      rewrite !rlist_id; [reflexivity| |]; intros i x Hin; [apply (H0 x Hin)|apply (H x Hin)]; now apply untouched_sub.
    - rewrite Forall_forall in H. rewrite rtbl_id; [reflexivity|].
      intros i kx Hin; apply (H kx Hin); now apply untouched_sub.
    - rewrite IHe by (now apply untouched_sub). rewrite Forall_forall in H.
      rewrite rlist_id; [reflexivity|]. intros i x Hin; apply (H x Hin); now apply untouched_sub.
    - now rewrite IHe by (now apply untouched_sub).
    - rewrite Forall_forall in H. rewrite rlist_id; [reflexivity|].
      intros i x Hin; apply (H x Hin); now apply untouched_sub.
  Qed.

  (** related loops *)
  Lemma srel_mapMi A (f f' : nat -> expr -> prog A) g l :
    (forall i x, In x l -> srel (f i x) (f' i (g i x))) ->
    forall n, srel (mapMi f n l) (mapMi f' n (rlist g n l)).
  Proof.
    induction l as [|a l IH]; intros Hf n; simpl; [apply S_ret|].
    apply S_bind; [apply Hf; now left|intros b].
    apply S_bind; [apply IH; intros; apply Hf; now right|intros; apply S_ret].
  Qed.

  Lemma srel_mapMi_tbl K A (f f' : nat -> K * expr -> prog A) g (l : list (K * expr)) :
    (forall i kx, In kx l -> srel (f i kx) (f' i (fst kx, g i (snd kx)))) ->
    forall n, srel (mapMi f n l) (mapMi f' n (rtbl g n l)).
  Proof.
    induction l as [|[k x] l IH]; intros Hf n; simpl; [apply S_ret|].
    apply S_bind; [apply (Hf n (k, x)); now left|intros b].
    apply S_bind; [apply IH; intros; apply Hf; now right|intros; apply S_ret].
  Qed.

  Lemma srel_iterMi (f f' : nat -> expr -> prog unit) g l :
    (forall i x, In x l -> srel (f i x) (f' i (g i x))) ->
    forall n, srel (iterMi f n l) (iterMi f' n (rlist g n l)).
  Proof.
    induction l as [|a l IH]; intros Hf n; simpl; [apply S_ret|].
    apply S_bind; [apply Hf; now left|intros b]. apply IH; intros; apply Hf; now right.
  Qed.

  Lemma srel_picki A k (f f' : nat -> expr -> prog A) miss miss' g tbl :
    (forall i ve, In ve tbl -> srel (f i (snd ve)) (f' i (g i (snd ve)))) -> srel miss miss' ->
    forall n, srel (picki k f miss n tbl) (picki k f' miss' n (rtbl g n tbl)).
  Proof.
    induction tbl as [|[v' b] tbl IH]; intros Hf Hm n; simpl; [exact Hm|].
    destruct (value_eq k v'); [apply (Hf n (v', b)); now left|].
    apply IH; [intros; apply Hf; now right|exact Hm].
  Qed.

  Lemma srel_case_loop A (ev ev' : nat -> expr -> prog value) (fin fin' : nat -> expr -> prog A) dflt dflt' x g cs :
    (forall i cr, In cr cs -> srel (ev i (fst cr)) (ev' i (g i (fst cr)))) ->
    (forall i cr, In cr cs -> srel (fin i (snd cr)) (fin' i (g i (snd cr)))) -> srel dflt dflt' ->
    forall n, srel (case_loop ev fin dflt x n cs) (case_loop ev' fin' dflt' x n (rcases g n cs)).
  Proof.
    induction cs as [|[c r] cs IH]; intros He Hf Hd n; simpl; [exact Hd|].
    apply S_bind; [apply (He _ (c, r)); now left|intros pv].
    apply S_bind; [apply S_lift|intros b].
    destruct (truthy b); [apply (Hf _ (c, r)); now left|].
    apply IH; [intros; apply He; now right|intros; apply Hf; now right|exact Hd].
  Qed.

  Lemma srel_iter_loop (ev ev' : nat -> expr -> prog value) g es :
    (forall i x, In x es -> srel (ev i x) (ev' i (g i x))) ->
    forall n, srel (iter_loop ev n es) (iter_loop ev' n (rlist g n es)).
  Proof.
    induction es as [|x es IH]; intros He n; simpl; [apply S_ret|].
    apply S_catch; [|intros; apply S_ret].
    apply S_bind; [apply He; now left|intros w].
    destruct (is_some (deep_err w)); [apply S_ret|].
    apply S_bind; [apply IH; intros; apply He; now right|intros; apply S_ret].
  Qed.

  Lemma srel_map_loop evrow evrow' rows :
    (forall os, srel (evrow os) (evrow' os)) -> srel (map_loop evrow rows) (map_loop evrow' rows).
  Proof.
    intros He. induction rows as [|[row os] rows IH]; simpl; [apply S_ret|].
    apply S_catch; [|intros; apply S_ret].
    apply S_bind; [apply He|intros r].
    destruct (is_some (deep_err r)); [apply S_ret|].
    apply S_bind; [exact IH|intros; apply S_ret].
  Qed.

  Lemma srel_refl_untouched p A (q : prog A) : untouched sels p = true -> below p q -> srel q q.
  Proof. apply srel_refl_below. Qed.

  Definition SE (e : expr) : Prop :=
    forall p o, frag p e = true -> srel (deval p e o) (deval p (replace_at p e) o).

  Lemma deval_is_call p e o : exists c, deval p e o = call_eval p e o c.
  Proof.
    destruct e; eexists;
      first [apply deval_EValue|apply deval_EOption|apply deval_EApply|apply deval_EBind|apply deval_ESwitch
            |apply deval_ECase|apply deval_ECoalesce|apply deval_EIter|apply deval_EMap|apply deval_EWith
            |apply deval_ECached|apply deval_ECall|apply deval_ETemplate|apply deval_EComp|apply deval_ELogged
            |apply deval_EPipe|apply deval_EAllOptions].
  Qed.

  Lemma srel_selected p e o : path_mem p sels = true -> srel (deval p e o) (deval p (EValue v) o).
  Proof.
    intros Hs. destruct (deval_is_call p e o) as [c ->].
    rewrite deval_EValue, !call_eval_ok. now apply S_sel.
  Qed.

  Lemma replace_sel p e : path_mem p sels = true -> replace_at p e = EValue v.
  Proof. intros Hs. destruct e; cbn [Requests.replace_at]; now rewrite Hs. Qed.

  Lemma srel_untouched_eval p e o : untouched sels p = true -> srel (deval p e o) (deval p (replace_at p e) o).
  Proof.
    intros Hu. rewrite replace_untouched by exact Hu.
    eapply srel_refl_untouched; [exact Hu|]. apply below_all.
  Qed.

  Ltac skid :=
    match goal with
    | H : SE ?x |- srel (deval ?q ?x ?o) _ => apply H; assumption
    end.
  Ltac fr H := cbn [Requests.frag] in H;
    match type of H with context [path_mem ?p sels] =>
      match goal with Hs : path_mem p sels = false |- _ => rewrite Hs in H end end;
    repeat (apply andb_true_iff in H; let H' := fresh "Hf" in destruct H as [H H']).

  Lemma flist_in f n l : flist f n l = true -> forall j x, nth_error l j = Some x -> f (n + j) x = true.
  Proof.
    revert n. induction l as [|a l IH]; intros n H j x Hj; [destruct j; discriminate|].
    simpl in H. apply andb_true_iff in H as [H1 H2].
    destruct j as [|j]; simpl in Hj.
    - inversion Hj; subst. now rewrite Nat.add_0_r.
    - rewrite <- Nat.add_succ_comm. now apply (IH (Datatypes.S n)).
  Qed.

  (** related loops, with the fragment condition threaded along the indices *)
  Lemma srel_mapMi_frag (F : path -> expr -> dict -> prog value) p o l :
    (forall x, In x l -> forall q, frag q x = true -> srel (F q x o) (F q (replace_at q x) o)) ->
    forall n, flist (fun i x => frag (p +: i) x) n l = true ->
    srel (mapMi (fun i x => F (p +: i) x o) n l)
         (mapMi (fun i x => F (p +: i) x o) n (rlist (fun i x => replace_at (p +: i) x) n l)).
  Proof.
    induction l as [|a l IH]; intros Hf n Hfl; simpl; [apply S_ret|].
    simpl in Hfl. apply andb_true_iff in Hfl as [H1 H2].
    apply S_bind; [apply Hf; [now left|exact H1]|intros b].
    apply S_bind; [apply IH; [intros; apply Hf; [now right|assumption]|exact H2]|intros; apply S_ret].
  Qed.

  Lemma srel_iterMi_frag (W : prog value -> prog unit) p o l :
    (forall q q', srel q q' -> srel (W q) (W q')) ->
    (forall x, In x l -> SE x) ->
    forall n, flist (fun i x => frag (p +: i) x) n l = true ->
    srel (iterMi (fun i x => W (deval (p +: i) x o)) n l)
         (iterMi (fun i x => W (deval (p +: i) x o)) n (rlist (fun i x => replace_at (p +: i) x) n l)).
  Proof.
    intros HW. induction l as [|a l IH]; intros Hf n Hfl; simpl; [apply S_ret|].
    simpl in Hfl. apply andb_true_iff in Hfl as [H1 H2].
    apply S_bind; [apply HW, Hf; [now left|exact H1]|intros b].
    apply IH; [intros; apply Hf; now right|exact H2].
  Qed.

  Lemma srel_mapMi_tbl_frag K B (W : K -> prog value -> prog B) p o (l : list (K * expr)) :
    (forall k q q', srel q q' -> srel (W k q) (W k q')) ->
    (forall kx, In kx l -> SE (snd kx)) ->
    forall n, ftbl (fun i x => frag (p +: i) x) n l = true ->
    srel (mapMi (fun i kx => W (fst kx) (deval (p +: i) (snd kx) o)) n l)
         (mapMi (fun i kx => W (fst kx) (deval (p +: i) (snd kx) o)) n
                (rtbl (fun i x => replace_at (p +: i) x) n l)).
  Proof.
    intros HW. induction l as [|[k x] l IH]; intros Hf n Hfl; simpl; [apply S_ret|].
    simpl in Hfl. apply andb_true_iff in Hfl as [H1 H2].
    apply S_bind; [apply HW, (Hf (k, x)); [now left|exact H1]|intros b].
    apply S_bind; [apply IH; [intros; apply Hf; now right|exact H2]|intros; apply S_ret].
  Qed.

  Lemma srel_picki_frag k miss miss' p o tbl :
    (forall ve, In ve tbl -> SE (snd ve)) -> srel miss miss' ->
    forall n, ftbl (fun i x => frag (p +: i) x) n tbl = true ->
    srel (picki k (fun i b => deval (p +: i) b o) miss n tbl)
         (picki k (fun i b => deval (p +: i) b o) miss' n (rtbl (fun i x => replace_at (p +: i) x) n tbl)).
  Proof.
    intros Hf Hm. induction tbl as [|[v' b] tbl IH]; intros n Hfl; simpl; [exact Hm|].
    simpl in Hfl. apply andb_true_iff in Hfl as [H1 H2].
    destruct (value_eq k v'); [apply (Hf (v', b)); [now left|exact H1]|].
    apply IH; [intros; apply Hf; now right|exact H2].
  Qed.

  Lemma srel_case_loop_frag dflt dflt' x p o cs :
    (forall cr, In cr cs -> SE (fst cr) /\ SE (snd cr)) -> srel dflt dflt' ->
    forall n, fcases (fun i x => frag (p +: i) x) n cs = true ->
    srel (case_loop (fun i c => deval (p +: i) c o) (fun i r => deval (p +: i) r o) dflt x n cs)
         (case_loop (fun i c => deval (p +: i) c o) (fun i r => deval (p +: i) r o) dflt' x n
                    (rcases (fun i x => replace_at (p +: i) x) n cs)).
  Proof.
    intros Hf Hd. induction cs as [|[c r] cs IH]; intros n Hfl; [exact Hd|].
    cbn [Requests.fcases] in Hfl. apply andb_true_iff in Hfl as [H12 H3]. apply andb_true_iff in H12 as [H1 H2].
    destruct (Hf (c, r) (or_introl eq_refl)) as [Hc Hr]. simpl in Hc, Hr.
    cbn [Requests.rcases Requests.case_loop].
    apply S_bind; [apply Hc; exact H1|intros pv].
    apply S_bind; [apply S_lift|intros b].
    destruct (truthy b); [apply Hr; exact H2|].
    apply IH; [intros; apply Hf; now right|exact H3].
  Qed.

  Lemma srel_iter_loop_frag p o es :
    (forall x, In x es -> SE x) ->
    forall n, flist (fun i x => frag (p +: i) x) n es = true ->
    srel (iter_loop (fun i x => deval (p +: i) x o) n es)
         (iter_loop (fun i x => deval (p +: i) x o) n (rlist (fun i x => replace_at (p +: i) x) n es)).
  Proof.
    induction es as [|x es IH]; intros He n Hfl; simpl; [apply S_ret|].
    simpl in Hfl. apply andb_true_iff in Hfl as [H1 H2].
    apply S_catch; [|intros; apply S_ret].
    apply S_bind; [apply He; [now left|exact H1]|intros w].
    destruct (is_some (deep_err w)); [apply S_ret|].
    apply S_bind; [apply IH; [intros; apply He; now right|exact H2]|intros; apply S_ret].
  Qed.

  Lemma srel_default_exists g c e e' o fpr fpr' :
    (c = CNone \/ cfg.(cache_ctx_off) = true) ->
    srel (default_exists g c e o fpr) (default_exists g c e' o fpr').
  Proof.
    intros [->|Hc]; unfold Requests.default_exists; [apply S_ret|].
    destruct c; [|apply S_ret]. unfold cache_off. rewrite Hc. apply S_ret.
  Qed.
  Lemma srel_default_get c o fpr fpr' :
    (c = CNone \/ cfg.(cache_ctx_off) = true) -> srel (default_get c o fpr) (default_get c o fpr').
  Proof.
    intros [->|Hc]; unfold Requests.default_get; [apply S_ret|].
    destruct c; [|apply S_ret]. unfold cache_off. rewrite Hc. apply S_ret.
  Qed.
  Lemma srel_default_set c o fpr fpr' w :
    (c = CNone \/ cfg.(cache_ctx_off) = true) -> srel (default_set c o fpr w) (default_set c o fpr' w).
  Proof.
    intros [->|Hc]; unfold Requests.default_set; [apply S_ret|].
    destruct c; [|apply S_ret]. unfold cache_off. rewrite Hc. apply S_ret.
  Qed.

  Theorem srel_all e : SE e.
  Proof.
    induction e using expr_ind'; intros pp o Hfr;
      (destruct (path_mem pp sels) eqn:Hs;
       [rewrite (replace_sel _ _ Hs); now apply srel_selected|]).
    - (* EValue *) cbn [Requests.replace_at]. rewrite Hs. rewrite deval_EValue, call_eval_ok.
      apply S_reqE; [exact Hs|apply S_wrap, S_ret].
    - (* EOption *)
      cbn [Requests.replace_at]. rewrite Hs. fr Hfr.
      rewrite !deval_EOption, !call_eval_ok. apply S_reqE; [exact Hs|apply S_wrap].
      unfold Requests.option_clause.
      apply S_bind; [apply S_lift|intros r]. apply S_bind.
      + destruct r; try apply S_lift. destruct dflt as [d|]; simpl in *; [|apply S_lift]. now apply H.
      + intros w. apply S_bind; [rewrite !call_meth_ok; apply S_req; [discriminate|apply S_ret]|intros _].
        destruct dom as [de|]; simpl in *; [|apply S_ret].
        apply S_bind; [now apply H0|intros d; apply S_bind; [apply S_lift|intros; apply S_ret]].
    - (* EApply *)
      cbn [Requests.replace_at]. rewrite Hs. fr Hfr.
      rewrite !deval_EApply, !call_eval_ok. apply S_reqE; [exact Hs|apply S_wrap].
      apply S_bind; [now apply IHe1|intros x]. apply S_bind; [now apply IHe2|intros; apply S_lift].
    - (* EBind *)
      cbn [Requests.replace_at]. rewrite Hs. fr Hfr. rewrite Forall_forall in H.
      rewrite !deval_EBind, !call_eval_ok. apply S_reqE; [exact Hs|apply S_wrap].
      apply S_bind; [now apply IHe|intros x].
      apply srel_picki_frag; [exact H| |assumption].
      destruct dflt as [d|]; simpl in *; [now apply H0|apply S_lift].
    - (* ESwitch *)
      cbn [Requests.replace_at]. rewrite Hs. fr Hfr. rewrite Forall_forall in H.
      rewrite !deval_ESwitch, !call_eval_ok. apply S_reqE; [exact Hs|apply S_wrap].
      assert (Hd : forall fl, srel (match dflt with Some d => deval (pp +: 1) d o | None => failP fl true end)
                        (match ropt (fun x => replace_at (pp +: 1) x) dflt with
                         | Some d => deval (pp +: 1) d o | None => failP fl true end)).
      { intros fl. destruct dflt as [d|]; simpl in *; [now apply H0|apply S_lift]. }
      assert (Hd' : srel (match dflt with Some d => deval (pp +: 1) d o | None => failP CUnmodelled false end)
                        (match ropt (fun x => replace_at (pp +: 1) x) dflt with
                         | Some d => deval (pp +: 1) d o | None => failP CUnmodelled false end)).
      { destruct dflt as [d|]; simpl in *; [now apply H0|apply S_lift]. }
      apply S_bind.
      + unfold Requests.dispatch_prog. apply S_catch.
        * apply S_bind; [now apply IHe|intros; apply S_ret].
        * intros c ee. replace (is_some (ropt (fun x => replace_at (pp +: 1) x) dflt)) with (is_some dflt)
            by (destruct dflt; reflexivity).
          destruct (ee && is_some dflt); [apply S_ret|apply S_lift].
      + intros dv. destruct dv as [kk|]; [|exact Hd'].
        destruct (negb (hashable kk)); [apply S_lift|].
        apply srel_picki_frag; [exact H|apply Hd|assumption].
    - (* ECase *)
      cbn [Requests.replace_at]. rewrite Hs. fr Hfr. rewrite Forall_forall in H.
      rewrite !deval_ECase, !call_eval_ok. apply S_reqE; [exact Hs|apply S_wrap].
      apply S_bind; [now apply IHe|intros x].
      apply srel_case_loop_frag; [exact H| |assumption].
      destruct dflt as [d|]; simpl in *; [now apply H0|apply S_lift].
    - (* ECoalesce *)
      cbn [Requests.frag] in Hfr. rewrite Hs in Hfr. now apply srel_untouched_eval.
    - (* EIter *)
      cbn [Requests.replace_at]. rewrite Hs. cbn [Requests.frag] in Hfr. rewrite Hs in Hfr.
      rewrite Forall_forall in H.
      rewrite !deval_EIter, !call_eval_ok. apply S_reqE; [exact Hs|apply S_wrap].
      apply S_bind; [|intros; apply S_ret]. now apply srel_iter_loop_frag.
    - (* EMap *)
      cbn [Requests.replace_at]. rewrite Hs. fr Hfr. rewrite Forall_forall in H.
      rewrite !deval_EMap, !call_eval_ok. apply S_reqE; [exact Hs|apply S_wrap].
      apply S_bind.
      + unfold Requests.map_rows_prog. rewrite rtbl_fst.
        apply S_bind; [|intros; apply S_ret].
        apply (srel_mapMi_tbl_frag _ _ (fun _ q => w <- q ;; L (force_elems S w)));
          [intros k q q' Hq; apply S_bind; [exact Hq|intros; apply S_lift]|exact H|assumption].
      + intros rows. apply S_bind; [apply S_lift|intros rowsos].
        apply S_bind; [|intros; apply S_ret].
        apply srel_map_loop. intros os. apply IHe.
        (* the fragment condition does not depend on the options *) assumption.
    - (* EWith *)
      cbn [Requests.replace_at]. rewrite Hs. cbn [Requests.frag] in Hfr. rewrite Hs in Hfr.
      rewrite !deval_EWith, !call_eval_ok. apply S_reqE; [exact Hs|apply S_wrap]. now apply IHe.
    - (* ECached *)
      cbn [Requests.frag] in Hfr. rewrite Hs in Hfr.
      assert (Hcase : (c = CNone \/ cache_ctx_off cfg = true) /\ frag (pp +: 0) e = true \/ untouched sels pp = true).
      { destruct c as [cid|]; [|left; split; [now left|exact Hfr]].
        destruct (cache_ctx_off cfg) eqn:Ec; simpl in Hfr; [left; split; [now right|exact Hfr]|now right]. }
      destruct Hcase as [[Hc Hf]|Hu]; [|now apply srel_untouched_eval].
      cbn [Requests.replace_at]. rewrite Hs.
      rewrite !deval_ECached, !call_eval_ok. apply S_reqE; [exact Hs|apply S_wrap].
      apply S_bind; [rewrite !call_meth_ok; apply S_req; [discriminate|now apply srel_default_exists]|intros ex].
      apply S_bind.
      + destruct ex; [|apply S_ret]. rewrite !call_meth_ok. apply S_req; [discriminate|now apply srel_default_get].
      + intros hit. destruct hit; [apply S_ret|].
        apply S_bind; [now apply IHe|intros w].
        rewrite !call_meth_ok. apply S_req; [discriminate|now apply srel_default_set].
    - (* ECall *)
      cbn [Requests.replace_at]. rewrite Hs. fr Hfr. rewrite Forall_forall in H, H0.
      rewrite !deval_ECall, !call_eval_ok. apply S_reqE; [exact Hs|apply S_wrap].
      rewrite rlist_length.
      apply S_bind; [now apply IHe|intros fv].
      apply S_bind; [apply (srel_mapMi_frag (fun q x o => deval q x o));
                     [intros x Hin q Hq; now apply (H x Hin)|assumption]|intros av].
      apply S_bind; [apply (srel_mapMi_frag (fun q x o => deval q x o));
                     [intros x Hin q Hq; now apply (H0 x Hin)|assumption]|intros kv].
      destruct partial; [|apply S_lift]. destruct fv; try apply S_lift; apply S_ret.
    - (* ETemplate *)
      cbn [Requests.replace_at]. rewrite Hs. cbn [Requests.frag] in Hfr. rewrite Hs in Hfr.
      rewrite Forall_forall in H.
      rewrite !deval_ETemplate, !call_eval_ok. apply S_reqE; [exact Hs|apply S_wrap].
      apply S_bind; [|intros; apply S_lift].
      unfold Requests.template_options_prog. rewrite rtbl_length.
      apply S_bind.
      + apply (srel_mapMi_tbl_frag _ _ (fun k q => w <- q ;; PRet (k, w)));
          [intros k q q' Hq; apply S_bind; [exact Hq|intros; apply S_ret]|exact H|assumption].
      + intros pvs. destruct (option_set _ _) as [pd|]; [|apply S_lift].
        destruct (negb (Nat.eqb (length pd) (length ps))); [apply S_lift|apply S_ret].
    - (* EComp *)
      cbn [Requests.replace_at]. rewrite Hs. fr Hfr. rewrite Forall_forall in H.
      rewrite !deval_EComp, !call_eval_ok. apply S_reqE; [exact Hs|apply S_wrap].
      apply S_bind; [now apply IHe|intros w]. apply S_bind; [|intros; apply S_ret].
      destruct (effects_opt_off o); [apply S_ret|].
      apply (srel_iterMi_frag (fun q => f <- q ;; L (call_value S ucall f w) ;;; PRet tt));
        [intros q q' Hq; apply S_bind; [exact Hq|intros; apply S_bind; [apply S_lift|intros; apply S_ret]]
        |exact H|assumption].
    - (* ELogged *)
      cbn [Requests.replace_at]. rewrite Hs. cbn [Requests.frag] in Hfr. rewrite Hs in Hfr.
      rewrite !deval_ELogged, !call_eval_ok. apply S_reqE; [exact Hs|apply S_wrap].
      apply S_bind; [rewrite !call_meth_ok; apply S_req; [discriminate|]|intros _; now apply IHe].
      unfold Requests.default_log. destruct (_ || _); [apply S_ret|apply S_lift].
    - (* EPipe *)
      cbn [Requests.replace_at]. rewrite Hs. cbn [Requests.frag] in Hfr. rewrite Hs in Hfr.
      rewrite Forall_forall in H.
      rewrite !deval_EPipe, !call_eval_ok. apply S_reqE; [exact Hs|apply S_wrap].
      apply S_bind; [|intros; apply S_ret].
      apply (srel_mapMi_frag (fun q x o => deval q x o)); [intros x Hin q Hq; now apply (H x Hin)|assumption].
    - (* EAllOptions *)
      cbn [Requests.replace_at]. rewrite Hs. rewrite deval_EAllOptions, call_eval_ok.
      apply S_reqE; [exact Hs|apply S_wrap, S_lift].
  Qed.

  (** the theorem on runs *)
  Theorem substitution_run e p o s :
    frag p e = true ->
    same_run S (run S (substituting sels v) (deval p e o) s)
               (run S no_handlers (deval p (replace_at p e) o) s).
  Proof. intros Hf. apply (srel_sound S sels v). now apply srel_all. Qed.
  End Substitution.
  End Wrapped.
End Interp.
