(** C01, first sentence — caching is transparent along a history.

    The interpreter of Model/Eval.v instantiated with the REAL memo store (Model/EvalRun.v: one
    association list per MemoryCache object, caching enabled) simulates the cache-free reference
    instance: started in a store all of whose entries are correct, every evaluate / validate /
    keys run returns what the reference run returns and leaves a store all of whose entries are
    correct.  By induction over expressions (three interpreters at once), for the fragment
    [frag]; the one interesting case is [ECached], closed with
    [equal_fingerprint_equal_outcome] (Proofs/CleanProofs.v).  Lifted to histories by
    induction over the list of operations.

    Hypotheses (all about the cache-free reference semantics, none about the cached run):
    - every cache id [c] is used with ONE cached expression [sites c] (coherence; datasets and
      their with_options derivatives share the Cached node, so this is how labrea builds them);
    - every dictionary that REACHES a cache site (the operation's dictionary overlaid by the
      pre-set / default wrappers above the site: a dataset with options P and default options D0
      evaluated under o hands D0-overlaid-by-o-overlaid-by-P to its cache site) is [okd]: well
      formed and clean for every cached expression ([clean_at]: each present
      option the evaluation reads is reported by keys() — false exactly in the zones of the known
      findings D1/D3/D4/D9/D19), the cached value holds no generator (D21), and C10's agreement
      holds there as far as Cached relies on it ([agree_at]: when keys() fails, evaluate and
      validate fail alike; what evaluates also validates — labrea's Cached.validate answers
      "valid" on a hit without validating);
    - cached expressions are in [frag]; around and between cache sites every constructor except
      Map and AllOptions is allowed ([scoh]); dictionaries use no name of the range the model
      reserves for Template parameters ([no_par], part of [okd]). *)
From Coq Require Import List NArith ZArith Bool Lia.
Import ListNotations.
From LV Require Import Model.Base Model.Template Model.Eval Model.Derived Model.EvalRun Proofs.BaseProofs Proofs.EvalProofs Proofs.EvalInd Proofs.EvalUnfold Proofs.FingerprintProofs Proofs.TraceProofs.
From LV Require Import Proofs.FrameProofs Proofs.TemplateFrame Proofs.FrameTheorem Proofs.RestrictProofs Proofs.SufficientProofs Proofs.CleanProofs Proofs.KeysPresent.

(** ** The memo store: find after store *)
Lemma tok_eqb_true a b : tok_eqb a b = true -> a = b.
Proof.
  destruct a, b; cbn [tok_eqb]; try discriminate; try reflexivity.
  - intros H. apply N.eqb_eq in H. now subst.
  - intros H. apply key_eqb_eq in H. now subst.
  - intros H. apply N.eqb_eq in H. now subst.
Qed.

Lemma str_eqb_true : forall a b, str_eqb a b = true -> a = b.
Proof.
  induction a as [|x a IH]; intros [|y b]; cbn [str_eqb]; try discriminate; [reflexivity|].
  intros H. apply andb_prop in H as [H1 H2]. apply tok_eqb_true in H1. apply IH in H2. now subst.
Qed.

Lemma json_eqb_true : forall a b, json_eqb a b = true -> a = b.
Proof.
  induction a using json_ind'; intros b0; destruct b0; cbn [json_eqb]; try discriminate.
  - reflexivity.
  - intros E. apply Bool.eqb_prop in E. now subst.
  - intros E. apply Z.eqb_eq in E. now subst.
  - intros E. apply N.eqb_eq in E. now subst.
  - intros E. apply str_eqb_true in E. now subst.
  - revert l0. induction H as [|x l Hx Hl IH]; intros [|y l0]; try discriminate; [reflexivity|].
    intros E. apply andb_prop in E as [E1 E2]. apply Hx in E1. apply IH in E2. inversion E2. now subst.
  - revert m0. induction H as [|[k x] m Hx Hm IH]; intros [|[k' y] m0]; try discriminate; [reflexivity|].
    intros E. apply andb_prop in E as [E1 E2]. apply andb_prop in E1 as [E0 E1].
    cbn [snd] in Hx. apply Hx in E1. apply seg_eqb_eq in E0. apply IH in E2. inversion E2. now subst.
Qed.

Lemma fp_eqb_true : forall a b, fp_eqb a b = true -> a = b.
Proof.
  unfold fp_eqb. induction a as [|[k v] a IH]; intros [|[k' v'] b]; try discriminate; [reflexivity|].
  intros E. apply andb_prop in E as [E1 E2]. apply andb_prop in E1 as [E0 E1].
  apply key_eqb_eq in E0. apply json_eqb_true in E1. apply IH in E2. now subst.
Qed.

Lemma fp_eqb_refl f : fp_eqb f f = true.
Proof.
  unfold fp_eqb. induction f as [|[k v] f IH]; [reflexivity|].
  rewrite key_eqb_refl. cbn [andb].
  assert (H : json_eqb v v = true).
  { clear. induction v using json_ind'; cbn [json_eqb]; try reflexivity.
    - apply Bool.eqb_reflx.
    - apply Z.eqb_refl.
    - apply N.eqb_refl.
    - induction s as [|t s IH]; [reflexivity|]. cbn [str_eqb]. rewrite IH, andb_true_r.
      destruct t; cbn [tok_eqb]; try reflexivity; try apply N.eqb_refl. apply key_eqb_refl.
    - induction H as [|x l Hx Hl IH]; [reflexivity|]. now rewrite Hx, IH.
    - induction H as [|[k x] m Hx Hm IH]; [reflexivity|]. cbn [snd] in Hx. now rewrite seg_eqb_refl, Hx, IH. }
  now rewrite H, IH.
Qed.

Lemma fp_eqb_eq a b : fp_eqb a b = true <-> a = b.
Proof. split; [apply fp_eqb_true|intros ->; apply fp_eqb_refl]. Qed.

Lemma fp_find_put f' f v l :
  fp_find f' (fp_put f v l) = if fp_eqb f' f then Some v else fp_find f' l.
Proof.
  induction l as [|[g w] l IH]; cbn [fp_put fp_find].
  - reflexivity.
  - destruct (fp_eqb f g) eqn:Efg.
    + apply fp_eqb_true in Efg. subst g. cbn [fp_find]. destruct (fp_eqb f' f); reflexivity.
    + cbn [fp_find]. destruct (fp_eqb f' g) eqn:Eg.
      * apply fp_eqb_true in Eg. subst g.
        destruct (fp_eqb f' f) eqn:E2; [|reflexivity].
        apply fp_eqb_true in E2. subst f'. now rewrite fp_eqb_refl in Efg.
      * exact IH.
Qed.

Lemma st_get_put c' c l s : st_get c' (st_put c l s) = if N.eqb c' c then l else st_get c' s.
Proof.
  induction s as [|[d m] s IH]; cbn [st_put st_get].
  - reflexivity.
  - destruct (N.eqb c d) eqn:Ecd.
    + apply N.eqb_eq in Ecd. subst d. cbn [st_get]. destruct (N.eqb c' c); reflexivity.
    + cbn [st_get]. destruct (N.eqb c' d) eqn:Ed.
      * apply N.eqb_eq in Ed. subst d. destruct (N.eqb c' c) eqn:E2; [|reflexivity].
        apply N.eqb_eq in E2. subst c'. now rewrite N.eqb_refl in Ecd.
      * exact IH.
Qed.

Lemma mem_find_store c' f' c f v s :
  mem_find c' f' (mem_store c f v s) =
    if N.eqb c' c then (if fp_eqb f' f then Some v else mem_find c f' s) else mem_find c' f' s.
Proof.
  unfold mem_find, mem_store. rewrite st_get_put. destruct (N.eqb c' c) eqn:E; [|reflexivity].
  apply fp_find_put.
Qed.

Lemma exhaust_not_lazy : forall v, has_lazy v = false -> exhaust v = v.
Proof.
  induction v using value_ind'; intros Hl; try reflexivity.
  cbn [has_lazy] in Hl. apply orb_false_elim in Hl as [Ht Hl].
  cbn [exhaust]. rewrite Ht. f_equal.
  induction H as [|x l Hx Hl' IH]; [reflexivity|].
  apply orb_false_elim in Hl as [H1 H2]. now rewrite (Hx H1), (IH H2).
Qed.

Section CacheSim.
  Variable u : N -> list value -> cres.
  Variable fuel : nat.
  Variable cfg : config.
  Variable site_ok : expr -> dict -> bool.
  Variable sites : N -> option expr.      (* the expression cached under each MemoryCache object *)
  Variable esw : bool.                    (* the value of the effects switch LABREA.EFFECTS.DISABLED along the history *)

  Notation evalC := (eval store mem_find mem_store cfg u fuel site_ok).
  Notation validateC := (validate store mem_find mem_store cfg u fuel site_ok).
  Notation keysC := (keys store mem_find mem_store cfg u fuel site_ok).
  Notation explainC := (explain store mem_find mem_store cfg u fuel site_ok).
  Notation evalN := (eval unit nc_find nc_store cfg_nc u fuel (fun _ _ => true)).
  Notation validateN := (validate unit nc_find nc_store cfg_nc u fuel (fun _ _ => true)).
  Notation keysN := (keys unit nc_find nc_store cfg_nc u fuel (fun _ _ => true)).
  Notation explainN := (explain unit nc_find nc_store cfg_nc u fuel (fun _ _ => true)).
  Notation MC := (M store).
  Notation MN := (M unit).

  Definition resN {A} (n : MN A) : res A := fst (fst (n tt)).
  Definition resC {A} (m : MC A) (s : store) : res A := fst (fst (m s)).
  Definition stC {A} (m : MC A) (s : store) : store := snd (fst (m s)).

  (** a dictionary the history may use: well formed, clean for every cached expression, and no
      cached value holds a generator *)
  (** C10's agreement, as far as [Cached] relies on it, for one cached expression and one
      dictionary (statements about the cache-free reference semantics only): when keys() fails,
      evaluate and validate fail alike (with the cache on, keys() runs first), and whatever
      evaluates also validates ([Cached.validate] answers "valid" on a hit) *)
  Definition agree_at (b : expr) (o : dict) : Prop :=
    (forall c ee, resN (keysN b o) = Err c ee -> resN (evalN b o) = Err c true) /\
    (forall c ee, resN (keysN b o) = Err c ee -> resN (validateN b o) = Err c ee) /\
    (forall v, resN (evalN b o) = Ok v -> resN (validateN b o) = Ok tt).
  Definition site_clean (b : expr) (o : dict) : Prop :=
    clean_at u fuel b o = true /\ agree_at b o /\
    (forall v, resN (evalN b o) = Ok v -> has_lazy v = false) /\
    esw_stable u fuel b o.
  Definition okd (o : dict) : Prop :=
    wf_dict o = true /\ no_par o = true /\ effects_opt_off o = esw /\
    forall c b, sites c = Some b -> site_clean b o.

  (** a correct entry: whoever may be served it would have computed it *)
  Definition Good (b : expr) (f : fp) (v : value) : Prop :=
    forall o, okd o -> fingerprintN u fuel b o = Ok f -> resN (evalN b o) = Ok v.
  Definition Sound (s : store) : Prop :=
    forall c f v, mem_find c f s = Some v -> exists b, sites c = Some b /\ Good b f v.

  Lemma Sound_empty : Sound [].
  Proof. intros c f v H. discriminate. Qed.

  Lemma Sound_store c b f v s :
    Sound s -> sites c = Some b -> Good b f v -> Sound (mem_store c f v s).
  Proof.
    intros Hs Hc Hg c' f' v' H. rewrite mem_find_store in H.
    destruct (N.eqb c' c) eqn:Ec; [|now apply Hs].
    apply N.eqb_eq in Ec. subst c'.
    destruct (fp_eqb f' f) eqn:Ef; [|now apply Hs].
    apply fp_eqb_true in Ef. subst f'. inversion H; subst v'. eauto.
  Qed.

  (** ** the simulation relation between a cached-instance computation and its reference twin:
      same result (value, or failure cause and EvaluationError-ness), sound store afterwards *)
  Definition Sim {A} (m : MC A) (n : MN A) : Prop :=
    forall s, Sound s -> resC m s = resN n /\ Sound (stC m s).

  (** store-independent twins: same result whatever the store, store untouched *)
  Definition Pure {A} (m : MC A) (n : MN A) : Prop :=
    forall s, resC m s = resN n /\ stC m s = s.

  Lemma Sim_pure {A} (m : MC A) (n : MN A) : Pure m n -> Sim m n.
  Proof. intros H s Hs. destruct (H s) as [H1 H2]. split; [exact H1|now rewrite H2]. Qed.

  Lemma Pure_ret {A} (a : A) : Pure (ret store a) (ret unit a).
  Proof. intros s. split; reflexivity. Qed.
  Lemma Pure_fail {A} c ee : Pure (@fail store A c ee) (@fail unit A c ee).
  Proof. intros s. split; reflexivity. Qed.
  Lemma Pure_emit e e' : Pure (emit store e) (emit unit e').
  Proof. intros s. split; reflexivity. Qed.
  Lemma Pure_bind {A B} (m : MC A) (n : MN A) (f : A -> MC B) (g : A -> MN B) :
    Pure m n -> (forall a, Pure (f a) (g a)) -> Pure (bind store m f) (bind unit n g).
  Proof.
    unfold Pure, resC, stC, resN, bind. intros Hm Hf s.
    destruct (Hm s) as [H1 H2].
    destruct (m s) as [[[a|c ee] s1] l1]; destruct (n tt) as [[[a'|c' ee'] []] l1'];
      cbn [fst snd] in *; try discriminate.
    - inversion H1; subst a' s1. destruct (Hf a s) as [H3 H4].
      destruct (f a s) as [[r s2] l2]. destruct (g a tt) as [[r' []] l2']. cbn [fst snd] in *. auto.
    - inversion H1; subst. auto.
  Qed.

  Lemma Sim_bind {A B} (m : MC A) (n : MN A) (f : A -> MC B) (g : A -> MN B) :
    Sim m n -> (forall a, Sim (f a) (g a)) -> Sim (bind store m f) (bind unit n g).
  Proof.
    unfold Sim, resC, stC, resN, bind. intros Hm Hf s Hs.
    destruct (Hm s Hs) as [H1 H2].
    destruct (m s) as [[[a|c ee] s1] l1]; destruct (n tt) as [[[a'|c' ee'] []] l1'];
      cbn [fst snd] in *; try discriminate.
    - inversion H1; subst a'. destruct (Hf a s1 H2) as [H3 H4].
      destruct (f a s1) as [[r s2] l2]. destruct (g a tt) as [[r' []] l2']. cbn [fst snd] in *. auto.
    - inversion H1; subst. auto.
  Qed.

  Lemma catchC_unfold {A} (m : MC A) (h : cause -> bool -> MC A) s :
    catch store m h s =
      match m s with
      | (Ok a, s', l) => (Ok a, s', l)
      | (Err c ee, s', l) =>
          if is_unmod c then (Err c ee, s', l)
          else match h c ee s' with (r, s'', l') => (r, s'', l ++ l') end
      end.
  Proof. unfold catch. destruct (m s) as [[[a|c ee] s'] l]; [reflexivity|]. destruct c; reflexivity. Qed.

  Lemma Sim_catch {A} (m : MC A) (n : MN A) (h : cause -> bool -> MC A) (k : cause -> bool -> MN A) :
    Sim m n -> (forall c ee, Sim (h c ee) (k c ee)) -> Sim (catch store m h) (catch unit n k).
  Proof.
    unfold Sim, resC, stC, resN. intros Hm Hh s Hs. rewrite catchC_unfold, catch_unfold.
    destruct (Hm s Hs) as [H1 H2]. unfold resC, stC, resN in *.
    destruct (m s) as [[[a|c ee] s1] l1]; destruct (n tt) as [[[a'|c' ee'] []] l1'];
      cbn [fst snd] in *; try discriminate.
    - inversion H1; subst. auto.
    - inversion H1; subst c' ee'. destruct (is_unmod c); [auto|].
      destruct (Hh c ee s1 H2) as [H3 H4]. unfold resC, stC, resN in *.
      destruct (h c ee s1) as [[r s2] l2]. destruct (k c ee tt) as [[r' []] l2']. cbn [fst snd] in *. auto.
  Qed.

  Lemma Pure_catch {A} (m : MC A) (n : MN A) (h : cause -> bool -> MC A) (k : cause -> bool -> MN A) :
    Pure m n -> (forall c ee, Pure (h c ee) (k c ee)) -> Pure (catch store m h) (catch unit n k).
  Proof.
    unfold Pure, resC, stC, resN. intros Hm Hh s. rewrite catchC_unfold, catch_unfold.
    destruct (Hm s) as [H1 H2].
    destruct (m s) as [[[a|c ee] s1] l1]; destruct (n tt) as [[[a'|c' ee'] []] l1'];
      cbn [fst snd] in *; try discriminate.
    - inversion H1; subst. auto.
    - inversion H1; subst c' ee' s1. destruct (is_unmod c); [auto|].
      destruct (Hh c ee s) as [H3 H4].
      destruct (h c ee s) as [[r s2] l2]. destruct (k c ee tt) as [[r' []] l2']. cbn [fst snd] in *. auto.
  Qed.

  Lemma Sim_wrap {A} (m : MC A) (n : MN A) : Sim m n -> Sim (wrap_eval store m) (wrap_eval unit n).
  Proof.
    unfold Sim, resC, stC, resN, wrap_eval. intros Hm s Hs. destruct (Hm s Hs) as [H1 H2].
    unfold resC, stC, resN in *.
    destruct (m s) as [[[a|c ee] s1] l1]; destruct (n tt) as [[[a'|c' ee'] []] l1'];
      cbn [fst snd] in *; try discriminate; inversion H1; subst; auto.
  Qed.
  Lemma Pure_wrap {A} (m : MC A) (n : MN A) : Pure m n -> Pure (wrap_eval store m) (wrap_eval unit n).
  Proof.
    unfold Pure, resC, stC, resN, wrap_eval. intros Hm s. destruct (Hm s) as [H1 H2].
    destruct (m s) as [[[a|c ee] s1] l1]; destruct (n tt) as [[[a'|c' ee'] []] l1'];
      cbn [fst snd] in *; try discriminate; inversion H1; subst; auto.
  Qed.

  Lemma Sim_mapM {A B} (f : A -> MC B) (g : A -> MN B) l :
    (forall a, In a l -> Sim (f a) (g a)) -> Sim (mapM store f l) (mapM unit g l).
  Proof.
    induction l as [|a l IH]; intros H; [apply Sim_pure, Pure_ret|].
    rewrite !mapM_cons. apply Sim_bind; [apply H; now left|].
    intros b. apply Sim_bind; [apply IH; intros; apply H; now right|]. intros; apply Sim_pure, Pure_ret.
  Qed.
  Lemma Sim_iterM {A} (f : A -> MC unit) (g : A -> MN unit) l :
    (forall a, In a l -> Sim (f a) (g a)) -> Sim (iterM store f l) (iterM unit g l).
  Proof.
    induction l as [|a l IH]; intros H; [apply Sim_pure, Pure_ret|].
    rewrite !iterM_cons. apply Sim_bind; [apply H; now left|].
    intros _. apply IH. intros; apply H; now right.
  Qed.
  Lemma Sim_unionM {A} (f : A -> MC (list key)) (g : A -> MN (list key)) l :
    (forall a, In a l -> Sim (f a) (g a)) -> Sim (unionM store f l) (unionM unit g l).
  Proof.
    induction l as [|a l IH]; intros H; [apply Sim_pure, Pure_ret|].
    rewrite !unionM_cons. apply Sim_bind; [apply H; now left|].
    intros b. apply Sim_bind; [apply IH; intros; apply H; now right|]. intros; apply Sim_pure, Pure_ret.
  Qed.
  Lemma Pure_mapM {A B} (f : A -> MC B) (g : A -> MN B) l :
    (forall a, In a l -> Pure (f a) (g a)) -> Pure (mapM store f l) (mapM unit g l).
  Proof.
    induction l as [|a l IH]; intros H; [apply Pure_ret|].
    rewrite !mapM_cons. apply Pure_bind; [apply H; now left|].
    intros b. apply Pure_bind; [apply IH; intros; apply H; now right|]. intros; apply Pure_ret.
  Qed.
  Lemma Pure_iterM {A} (f : A -> MC unit) (g : A -> MN unit) l :
    (forall a, In a l -> Pure (f a) (g a)) -> Pure (iterM store f l) (iterM unit g l).
  Proof.
    induction l as [|a l IH]; intros H; [apply Pure_ret|].
    rewrite !iterM_cons. apply Pure_bind; [apply H; now left|].
    intros _. apply IH. intros; apply H; now right.
  Qed.
  Lemma Pure_unionM {A} (f : A -> MC (list key)) (g : A -> MN (list key)) l :
    (forall a, In a l -> Pure (f a) (g a)) -> Pure (unionM store f l) (unionM unit g l).
  Proof.
    induction l as [|a l IH]; intros H; [apply Pure_ret|].
    rewrite !unionM_cons. apply Pure_bind; [apply H; now left|].
    intros b. apply Pure_bind; [apply IH; intros; apply H; now right|]. intros; apply Pure_ret.
  Qed.

  Lemma Sim_pick {A} k (onhit : expr -> MC A) (onhit' : expr -> MN A) onmiss onmiss' tbl :
    (forall b, In b (map snd tbl) -> Sim (onhit b) (onhit' b)) -> Sim onmiss onmiss' ->
    Sim (pick k onhit onmiss tbl) (pick k onhit' onmiss' tbl).
  Proof.
    intros Hh Hm. induction tbl as [|[v b] tbl IH]; [exact Hm|].
    cbn [pick]. destruct (value_eq k v).
    - apply Hh. now left.
    - apply IH. intros b0 Hb. apply Hh. now right.
  Qed.

  Ltac pu_step :=
    match goal with
    | |- Pure (Eval.bind _ _ _) (Eval.bind _ _ _) => apply Pure_bind; [|intros ?]
    | |- Pure (Eval.ret _ _) (Eval.ret _ _) => apply Pure_ret
    | |- Pure (Eval.fail _ _ _) (Eval.fail _ _ _) => apply Pure_fail
    | |- Pure (Eval.emit _ _) (Eval.emit _ _) => apply Pure_emit
    | |- Pure (Eval.catch _ _ _) (Eval.catch _ _ _) => apply Pure_catch; [|intros ? ?]
    | |- Pure (Eval.wrap_eval _ _) (Eval.wrap_eval _ _) => apply Pure_wrap
    | H : Pure ?m ?n |- Pure ?m ?n => exact H
    | |- Pure (if ?b then _ else _) (if ?b then _ else _) => destruct b
    | |- Pure (match ?x with _ => _ end) (match ?x with _ => _ end) => destruct x
    end.
  Ltac pu := repeat pu_step.

  (** the primitives *)
  Lemma Pure_force_elems v : Pure (force_elems store v) (force_elems unit v).
  Proof. unfold force_elems. pu. Qed.
  Lemma Pure_call_fun f args : Pure (call_fun store u f args) (call_fun unit u f args).
  Proof. unfold call_fun. pu; try apply Pure_force_elems. Qed.
  Lemma Pure_call_value f : forall x, Pure (call_value store u f x) (call_value unit u f x).
  Proof.
    induction f using value_ind'; intros x; try (cbn; apply Pure_fail).
    rewrite !call_value_VF. destruct (N.eqb f B_COMPOSE); [|apply Pure_call_fun].
    clear H0. revert x. induction H as [|g pre Hg Hpre IH]; intros x; cbn [compose_loop].
    - apply Pure_ret.
    - apply Pure_bind; [apply Hg|]. intros y. apply IH.
  Qed.
  Lemma Pure_call_value_n f args : Pure (call_value_n store u f args) (call_value_n unit u f args).
  Proof. unfold call_value_n. pu. apply Pure_call_fun. Qed.
  Lemma Pure_rd k o : Pure (rd store k o) (rd unit k o).
  Proof. unfold rd. pu. Qed.
  Lemma Pure_of_rres r : Pure (of_rres store r) (of_rres unit r).
  Proof. unfold of_rres. pu. Qed.
  Lemma Pure_emit_reads ks o : Pure (emit_reads store ks o) (emit_reads unit ks o).
  Proof. unfold emit_reads. apply Pure_iterM. intros. apply Pure_emit. Qed.
  Lemma Pure_ref_keys f strict o : forall k, Pure (ref_keys store f strict o k) (ref_keys unit f strict o k).
  Proof.
    induction f as [|f IH]; intros k; [apply Pure_fail|].
    rewrite !ref_keys_S. apply Pure_bind; [apply Pure_rd|]. intros r.
    destruct r as [[]| |]; pu. apply Pure_unionM. intros; apply IH.
  Qed.
  Lemma Pure_fingerprint_of ks o : Pure (fingerprint_of store ks o) (fingerprint_of unit ks o).
  Proof. unfold fingerprint_of. apply Pure_mapM. intros. pu. Qed.
  Lemma Pure_filter_preset force p o mixed ks :
    Pure (filter_preset store force p o mixed ks) (filter_preset unit force p o mixed ks).
  Proof. induction ks as [|k ks IH]; cbn [filter_preset]; pu. Qed.

  (** ** Hoare triples for the cached-instance-only steps of [Cached] *)
  Definition HT {A} (errok : cause -> bool -> Prop) (pre : store -> Prop) (m : MC A)
                (post : A -> store -> Prop) : Prop :=
    forall s, Sound s -> pre s ->
      Sound (stC m s) /\
      match resC m s with Ok a => post a (stC m s) | Err c ee => errok c ee end.

  Lemma HT_bind {A B} errok pre (m : MC A) mid (f : A -> MC B) post :
    HT errok pre m mid -> (forall a, HT errok (mid a) (f a) post) -> HT errok pre (bind store m f) post.
  Proof.
    unfold HT, resC, stC, bind. intros Hm Hf s Hs Hp. destruct (Hm s Hs Hp) as [H1 H2].
    destruct (m s) as [[[a|c ee] s1] l1]; cbn [fst snd] in *; [|auto].
    destruct (Hf a s1 H1 H2) as [H3 H4].
    destruct (f a s1) as [[r s2] l2]. cbn [fst snd] in *. auto.
  Qed.

  Lemma HT_pre {A} errok (pre pre' : store -> Prop) (m : MC A) post :
    (forall s, pre' s -> pre s) -> HT errok pre m post -> HT errok pre' m post.
  Proof. intros Hi H s Hs Hp. apply (H s Hs (Hi s Hp)). Qed.

  Lemma HT_emit errok pre ev : HT errok pre (emit store ev) (fun _ s => pre s).
  Proof. intros s Hs Hp. split; [exact Hs|exact Hp]. Qed.
  Lemma HT_ret {A} errok pre (a : A) : HT errok pre (ret store a) (fun x s => x = a /\ pre s).
  Proof. intros s Hs Hp. split; [exact Hs|]. cbn. auto. Qed.
  Lemma HT_get errok pre : HT errok pre (get_store store) (fun x s => x = s /\ pre s).
  Proof. intros s Hs Hp. split; [exact Hs|]. cbn. auto. Qed.
  Lemma HT_put errok (pre : store -> Prop) g (post : store -> Prop) :
    (forall s, Sound s -> pre s -> Sound (g s) /\ post (g s)) ->
    HT errok pre (put_store store g) (fun _ s => post s).
  Proof. intros H s Hs Hp. destruct (H s Hs Hp). split; assumption. Qed.

  (** a simulated step used as a cached-instance step *)
  Lemma HT_of_Sim {A} (errok : cause -> bool -> Prop) pre (m : MC A) (n : MN A) :
    Sim m n -> (forall c ee, resN n = Err c ee -> errok c ee) ->
    HT errok pre m (fun a s => resN n = Ok a).
  Proof.
    intros H He s Hs _. destruct (H s Hs) as [H1 H2]. split; [exact H2|].
    rewrite H1. destruct (resN n) as [a|c ee] eqn:En; [reflexivity|]. now apply He.
  Qed.

  (** ** the expressions covered, together with the set [D] of dictionaries that reach them:
      every constructor except Map and AllOptions; a
      pre-set / default wrapper ([EWith]) hands its sub-expression the overlaid dictionaries; a
      cached expression must be in [frag] (the fragment of the frame theorem), every dictionary
      reaching the cache site must be [okd], and each cache id is used with the one expression
      [sites] names (coherence) *)
  Fixpoint scoh (e : expr) (D : dict -> Prop) {struct e} : Prop :=
    match e with
    | EValue _ => True
    | EOption _ dflt dom =>
        match dflt with Some d => scoh d D | None => True end /\ match dom with Some d => scoh d D | None => True end
    | EApply a b => scoh a D /\ scoh b D
    | EBind src tbl dflt | ESwitch src tbl dflt =>
        scoh src D /\
        (fix go (l : list (value * expr)) : Prop :=
           match l with [] => True | (_, x) :: l' => scoh x D /\ go l' end) tbl /\
        match dflt with Some d => scoh d D | None => True end
    | ECase disp cases dflt =>
        scoh disp D /\
        (fix go (l : list (expr * expr)) : Prop :=
           match l with [] => True | (c, r) :: l' => (scoh c D /\ scoh r D) /\ go l' end) cases /\
        match dflt with Some d => scoh d D | None => True end
    | ECoalesce ms | EIter ms | EPipe ms =>
        (fix go (l : list expr) : Prop := match l with [] => True | x :: l' => scoh x D /\ go l' end) ms
    | EWith force p e => scoh e (fun o' => exists o, D o /\ o' = with_opts force p o)
    | ELogged e => scoh e D
    | EComp e effs =>
        scoh e D /\ (fix go (l : list expr) : Prop := match l with [] => True | x :: l' => scoh x D /\ go l' end) effs
    | ECached c e =>
        frag e = true /\ (forall o, D o -> okd o) /\ scoh e D /\
        match c with CMem cid => sites cid = Some e | CNone => True end
    | ECall _ f args kwargs =>
        scoh f D /\
        (fix go (l : list expr) : Prop := match l with [] => True | x :: l' => scoh x D /\ go l' end) args /\
        (fix go (l : list expr) : Prop := match l with [] => True | x :: l' => scoh x D /\ go l' end) kwargs
    | ETemplate _ ps =>
        (fix go (l : list (N * expr)) : Prop :=
           match l with [] => True | (_, x) :: l' => scoh x D /\ go l' end) ps
    | EMap _ _ | EAllOptions => False
    end.

  Definition scoh_all (l : list expr) (D : dict -> Prop) : Prop :=
    (fix go (l : list expr) : Prop := match l with [] => True | x :: l' => scoh x D /\ go l' end) l.
  Lemma coh_all_In l D : scoh_all l D -> forall x, In x l -> scoh x D.
  Proof.
    induction l as [|a l IH]; intros H x Hx; [destruct Hx|].
    destruct H as [Ha Hl]. destruct Hx as [<-|Hx]; auto.
  Qed.
  Lemma coh_tbl_In (tbl : list (value * expr)) D :
    (fix go (l : list (value * expr)) : Prop :=
       match l with [] => True | (_, x) :: l' => scoh x D /\ go l' end) tbl ->
    forall b, In b (map snd tbl) -> scoh b D.
  Proof.
    induction tbl as [|[v x] tbl IH]; intros H b Hb; [destruct Hb|].
    destruct H as [Hx Ht]. destruct Hb as [<-|Hb]; auto.
  Qed.

  Lemma coh_ps_In (ps : list (N * expr)) D :
    (fix go (l : list (N * expr)) : Prop :=
       match l with [] => True | (_, x) :: l' => scoh x D /\ go l' end) ps ->
    forall pe, In pe ps -> scoh (snd pe) D.
  Proof.
    induction ps as [|[p x] ps IH]; intros H pe Hpe; [destruct Hpe|].
    destruct H as [Hx Ht]. destruct Hpe as [<-|Hpe]; auto.
  Qed.

  Definition SimAll (e : expr) (D : dict -> Prop) : Prop :=
    forall o, D o ->
      Sim (evalC e o) (evalN e o) /\
      Sim (validateC e o) (validateN e o) /\
      Sim (keysC e o) (keysN e o) /\
      Sim (explainC e o) (explainN e o).
  Definition SimOpt (x : option expr) (D : dict -> Prop) : Prop := match x with Some e => SimAll e D | None => True end.

  Ltac unfC L := rewrite !(L store mem_find mem_store cfg u fuel site_ok).
  Ltac unfN L := rewrite !(L unit nc_find nc_store cfg_nc u fuel (fun _ _ => true)).
  Ltac unf L := unfC L; unfN L.
  Ltac leaf := solve [apply Sim_pure; pu].

  (** the fingerprint [Cached] computes, as a reference computation *)
  Definition FPn (e : expr) (o : dict) : MN fp := bind unit (keysN e o) (fun ks => fingerprint_of unit ks o).
  Lemma resN_FPn e o : resN (FPn e o) = fingerprintN u fuel e o.
  Proof.
    unfold resN, FPn, fingerprintN, bind. destruct (keysN e o tt) as [[[K|c ee] []] l]; [|reflexivity].
    destruct (fingerprint_of unit K o tt) as [[r []] l']. reflexivity.
  Qed.

  (** on the fragment the fingerprint exists whenever keys() succeeds (reported keys are present) *)
  Lemma fingerprintN_err e o c ee :
    frag e = true -> wf_dict o = true -> fingerprintN u fuel e o = Err c ee -> resN (keysN e o) = Err c ee.
  Proof.
    intros Hf Hw H. unfold fingerprintN, resN in *.
    destruct (keysN e o tt) as [[[K|c0 ee0] []] l] eqn:Ek; [|cbn [fst]; now inversion H]. exfalso.
    pose proof (keys_present_all u fuel e Hf o Hw K l Ek) as Hp.
    destruct (fingerprint_of_total unit K o tt Hp) as [f Ef]. rewrite Ef in H. discriminate.
  Qed.

  Lemma HT_assume {A} errok (P : Prop) (m : MC A) post :
    (P -> HT errok (fun _ => True) m post) -> HT errok (fun _ => P) m post.
  Proof. intros H s Hs Hp. apply (H Hp s Hs I). Qed.
  Lemma HT_weaken {A} errok pre (m : MC A) (post post' : A -> store -> Prop) :
    (forall a s, post a s -> post' a s) -> HT errok pre m post -> HT errok pre m post'.
  Proof.
    intros Hi H s Hs Hp. destruct (H s Hs Hp) as [H1 H2]. split; [exact H1|].
    destruct (resC m s); [now apply Hi|exact H2].
  Qed.

  (** ** the [Cached] node *)
  Section CachedCase.
    Variables (cid : N) (e : expr) (o : dict).
    Hypothesis Hf : frag e = true.
    Hypothesis Ho : okd o.
    Hypothesis Hsite : sites cid = Some e.
    Variables (EV : MC value) (KC : MC (list key)) (VC : MC unit).
    Hypothesis E1 : Sim EV (evalN e o).
    Hypothesis K1 : Sim KC (keysN e o).
    Hypothesis V1 : Sim VC (validateN e o).

    Let t := resN (evalN e o).
    Let FPc : MC fp := bind store KC (fun ks => fingerprint_of store ks o).

    Lemma HFP : Sim FPc (FPn e o).
    Proof. apply Sim_bind; [exact K1|]. intros ks. apply Sim_pure, Pure_fingerprint_of. Qed.

    Let Hw : wf_dict o = true := proj1 Ho.
    Let Hnp : no_par o = true := proj1 (proj2 Ho).
    Let Hcl : site_clean e o := proj2 (proj2 (proj2 Ho)) cid e Hsite.

    Definition errokE (c : cause) (ee : bool) : Prop := t = Err c true.

    Lemma L_FP pre : HT errokE pre FPc (fun f _ => fingerprintN u fuel e o = Ok f).
    Proof.
      eapply HT_weaken; [|apply (HT_of_Sim errokE pre FPc (FPn e o) HFP)].
      - intros f s0 H. now rewrite <- resN_FPn.
      - intros c ee H. rewrite resN_FPn in H. apply (fingerprintN_err e o c ee Hf Hw) in H.
        destruct Hcl as (_ & (A1 & _ & _) & _ & _). apply (A1 c ee H).
    Qed.

    Lemma L_EV pre : HT errokE pre EV (fun v _ => t = Ok v).
    Proof.
      apply (HT_of_Sim errokE pre EV (evalN e o) E1).
      intros c ee H. unfold errokE, t. rewrite H. f_equal.
      unfold resN in H. destruct (evalN e o tt) as [[r []] l] eqn:E. cbn [fst] in H. subst r.
      apply (eval_err_is_evaluation_error unit nc_find nc_store cfg_nc u fuel (fun _ _ => true) e o tt c ee tt l E).
    Qed.

    Lemma good_here f v : fingerprintN u fuel e o = Ok f -> t = Ok v -> Good e f v.
    Proof.
      intros Hfp Ht o' Ho' Hfp'. destruct Ho' as (Hw' & Hnp' & He' & Hs').
      destruct (Hs' cid e Hsite) as (Hc' & _ & _ & Hst'). destruct Hcl as (Hc0 & _ & _ & Hst0).
      assert (Hsw : effects_opt_off o' = effects_opt_off o) by (rewrite He'; symmetry; exact (proj1 (proj2 (proj2 Ho)))).
      unfold resN. rewrite (equal_fingerprint_equal_outcome u fuel e o o' f Hf Hw Hw' Hnp Hnp' Hc0 Hc' Hst0 Hst' Hsw Hfp Hfp').
      exact Ht.
    Qed.

    Definition SRB (v : value) : MC value :=
      bind store FPc (fun f =>
      bind store (put_store store (mem_store cid f (exhaust v))) (fun _ =>
      bind store (emit store (EvCacheSet cid)) (fun _ =>
      bind store (if has_lazy v then emit store (EvLazyStored cid) else ret store tt) (fun _ =>
      bind store FPc (fun f' =>
      bind store (get_store store) (fun s =>
      match mem_find cid f' s with
      | Some _ => bind store (emit store (EvCacheGet cid true)) (fun _ => ret store v)
      | None => bind store (emit store (EvCacheGet cid false)) (fun _ => ret store v)
      end)))))).

    Lemma L_SRB v : t = Ok v -> HT errokE (fun _ => True) (SRB v) (fun x _ => t = Ok x).
    Proof.
      intros Ht. unfold SRB.
      eapply HT_bind; [apply L_FP|]. intros f. cbv beta. apply HT_assume. intros Hfp.
      eapply HT_bind.
      { apply (HT_put errokE (fun _ => True) _ (fun _ => True)). intros s Hs _. split; [|exact I].
        destruct Hcl as (_ & _ & Hlazy & _). rewrite (exhaust_not_lazy v (Hlazy v Ht)).
        apply (Sound_store cid e f v s Hs Hsite). now apply good_here. }
      intros ?. eapply HT_bind; [apply HT_emit|]. intros ?.
      eapply HT_bind.
      { instantiate (1 := fun _ _ => True). destruct (has_lazy v).
        - eapply HT_weaken; [|apply HT_emit]. auto.
        - eapply HT_weaken; [|apply HT_ret]. auto. }
      intros ?. eapply HT_bind; [apply L_FP|]. intros f'.
      eapply HT_bind; [apply HT_get|]. intros s0.
      intros s Hs _. destruct (mem_find cid f' s0).
      - split; [exact Hs|]. cbn. exact Ht.
      - split; [exact Hs|]. cbn. exact Ht.
    Qed.

    Definition Tcached (ghost : MC unit) : MC value :=
      bind store ghost (fun _ =>
      bind store FPc (fun f =>
      bind store (get_store store) (fun s =>
      match mem_find cid f s with
      | Some _ =>
          bind store (emit store (EvCacheExists cid true)) (fun _ =>
          bind store FPc (fun f2 =>
          bind store (get_store store) (fun s2 =>
          match mem_find cid f2 s2 with
          | Some v => bind store (emit store (EvCacheGet cid true)) (fun _ => ret store v)
          | None => bind store (emit store (EvCacheGet cid false)) (fun _ =>
                    bind store EV (fun v => SRB v))
          end)))
      | None => bind store (emit store (EvCacheExists cid false)) (fun _ =>
                bind store EV (fun v => SRB v))
      end))).

    Lemma L_miss pre : HT errokE pre (bind store EV (fun v => SRB v)) (fun x _ => t = Ok x).
    Proof.
      eapply HT_bind; [apply L_EV|]. intros v. cbv beta. apply HT_assume. apply L_SRB.
    Qed.

    Lemma L_emit_miss ev :
      HT errokE (fun _ => True) (bind store (emit store ev) (fun _ => bind store EV (fun v => SRB v)))
         (fun x _ => t = Ok x).
    Proof. eapply HT_bind; [apply HT_emit|]. intros ?. apply L_miss. Qed.

    Lemma L_T ghost :
      (forall pre, HT errokE pre ghost (fun _ s => pre s)) ->
      HT errokE (fun _ => True) (Tcached ghost) (fun x _ => t = Ok x).
    Proof.
      intros Hg. unfold Tcached.
      eapply HT_bind; [apply Hg|]. intros ?.
      eapply HT_bind; [apply L_FP|]. intros f. cbv beta. apply HT_assume. intros Hfp.
      eapply HT_bind; [apply HT_get|]. intros s0. cbv beta.
      intros s Hs [-> _]. destruct (mem_find cid f s) as [v0|] eqn:Ef.
      - revert s Hs Ef. 
        assert (G : HT errokE (fun _ => True)
                  (bind store (emit store (EvCacheExists cid true)) (fun _ =>
                   bind store FPc (fun f2 =>
                   bind store (get_store store) (fun s2 =>
                   match mem_find cid f2 s2 with
                   | Some v => bind store (emit store (EvCacheGet cid true)) (fun _ => ret store v)
                   | None => bind store (emit store (EvCacheGet cid false)) (fun _ =>
                             bind store EV (fun v => SRB v))
                   end)))) (fun x _ => t = Ok x)).
        { eapply HT_bind; [apply HT_emit|]. intros ?.
          eapply HT_bind; [apply L_FP|]. intros f2. cbv beta. apply HT_assume. intros Hfp2.
          eapply HT_bind; [apply HT_get|]. intros s2. cbv beta.
          intros s Hs [-> _]. destruct (mem_find cid f2 s) as [v|] eqn:Ef2.
          - split; [exact Hs|]. cbn.
            destruct (Hs cid f2 v Ef2) as (b & Hb & Hg0). rewrite Hsite in Hb. inversion Hb; subst b.
            apply (Hg0 o Ho Hfp2).
          - apply (L_emit_miss _ s Hs I). }
        intros s Hs _. apply (G s Hs I).
      - apply (L_emit_miss _ s Hs I).
    Qed.

    Lemma cached_eval_sim ghost :
      (forall pre, HT errokE pre ghost (fun _ s => pre s)) ->
      Sim (wrap_eval store (Tcached ghost)) (wrap_eval unit (evalN e o)).
    Proof.
      intros Hg s Hs. destruct (L_T ghost Hg s Hs I) as [H1 H2].
      assert (Hn : resN (wrap_eval unit (evalN e o)) = t).
      { unfold resN, t. now rewrite (eval_is_wrapped unit nc_find nc_store cfg_nc u fuel (fun _ _ => true) e o tt). }
      rewrite Hn. unfold resC, stC, wrap_eval in *.
      destruct (Tcached ghost s) as [[[v|c ee] s1] l1]; cbn [fst snd] in *.
      - split; [now rewrite H2|exact H1].
      - split; [now rewrite H2|exact H1].
    Qed.

    (** validate *)
    Let tv := resN (validateN e o).
    Definition errokV (c : cause) (ee : bool) : Prop := tv = Err c ee.

    Definition Tvalidate : MC unit :=
      bind store KC (fun ks =>
      bind store (fingerprint_of store ks o) (fun f =>
      bind store (get_store store) (fun s =>
      match mem_find cid f s with
      | Some _ => bind store (emit store (EvCacheExists cid true)) (fun _ => ret store tt)
      | None => bind store (emit store (EvCacheExists cid false)) (fun _ => VC)
      end))).

    Lemma L_fpof ks :
      resN (keysN e o) = Ok ks ->
      HT errokV (fun _ => True) (fingerprint_of store ks o) (fun f _ => fingerprintN u fuel e o = Ok f).
    Proof.
      intros Hk s Hs _.
      destruct (Pure_fingerprint_of ks o s) as [H1 H2]. rewrite H2. split; [exact Hs|].
      rewrite H1. unfold resN in Hk. unfold fingerprintN.
      destruct (keysN e o tt) as [[[K|c ee] []] l] eqn:Ek; cbn [fst] in Hk; [|discriminate].
      inversion Hk; subst K.
      pose proof (keys_present_all u fuel e Hf o Hw ks l Ek) as Hp.
      destruct (fingerprint_of_total unit ks o tt Hp) as [f Ef]. unfold resN. rewrite Ef. reflexivity.
    Qed.

    Lemma validate_sim : Sim Tvalidate (validateN e o).
    Proof.
      assert (G : HT errokV (fun _ => True) Tvalidate (fun x _ => tv = Ok x)).
      { unfold Tvalidate.
        eapply HT_bind.
        { apply (HT_of_Sim errokV (fun _ => True) KC (keysN e o) K1).
          intros c ee H. destruct Hcl as (_ & (_ & A2 & _) & _ & _). apply (A2 c ee H). }
        intros ks. cbv beta. apply HT_assume. intros Hk.
        eapply HT_bind; [apply (L_fpof ks Hk)|]. intros f. cbv beta. apply HT_assume. intros Hfp.
        eapply HT_bind; [apply HT_get|]. intros s0. cbv beta.
        intros s Hs [-> _]. destruct (mem_find cid f s) as [v|] eqn:Ef.
        - split; [exact Hs|]. cbn.
          destruct (Hs cid f v Ef) as (b & Hb & Hg0). rewrite Hsite in Hb. inversion Hb; subst b.
          destruct Hcl as (_ & (_ & _ & A3) & _ & _). exact (A3 v (Hg0 o Ho Hfp)).
        - assert (G2 : HT errokV (fun _ => True)
                    (bind store (emit store (EvCacheExists cid false)) (fun _ => VC)) (fun x _ => tv = Ok x)).
          { eapply HT_bind; [apply HT_emit|]. intros ?.
            apply (HT_of_Sim errokV _ VC (validateN e o) V1). intros c ee H. exact H. }
          apply (G2 s Hs I). }
      intros s Hs. destruct (G s Hs I) as [H1 H2]. split; [|exact H1].
      fold tv. destruct (resC Tvalidate s); now rewrite H2.
    Qed.
  End CachedCase.

  Lemma Pure_in_domain d v : Pure (in_domain store u d v) (in_domain unit u d v).
  Proof. unfold in_domain. destruct d; pu; apply Pure_call_value. Qed.

  Lemma Sim_option_eval (evc : expr -> MC value) (evn : expr -> MN value) k dflt dom o :
    (forall d, dflt = Some d -> Sim (evc d) (evn d)) ->
    (forall d, dom = Some d -> Sim (evc d) (evn d)) ->
    Sim (option_eval store u fuel evc k dflt dom o) (option_eval unit u fuel evn k dflt dom o).
  Proof.
    intros Hd Hm. rewrite !option_eval_E. apply Sim_bind; [apply Sim_pure, Pure_rd|]. intros r.
    apply Sim_bind.
    - destruct r as [raw| |]; [| |leaf].
      + apply Sim_pure. apply Pure_bind; [apply Pure_emit_reads|]. intros _.
        apply Pure_bind; [apply Pure_of_rres|]. intros; apply Pure_ret.
      + destruct dflt as [d|]; [now apply Hd|leaf].
    - intros v. destruct dom as [de|]; [|leaf].
      apply Sim_bind; [now apply Hm|]. intros d.
      apply Sim_bind; [apply Sim_pure, Pure_in_domain|]. intros; leaf.
  Qed.

  Theorem sim_all e : forall D, scoh e D -> SimAll e D.
  Proof.
    induction e using expr_ind'; intros D Hc; cbn [scoh] in Hc; try contradiction; intros o Ho.
    - (* EValue *)
      split; [|split; [|split]]; [unf eval_EValue|unf validate_EValue|unf keys_EValue|unf explain_EValue]; leaf.
    - (* EOption *)
      destruct Hc as [Cd Cm].
      assert (HD : SimOpt dflt D) by (destruct dflt; [apply H; assumption|exact I]).
      assert (HM : SimOpt dom D) by (destruct dom; [apply H0; assumption|exact I]).
      assert (Hev : Sim (option_eval store u fuel (fun x => evalC x o) k dflt dom o)
                        (option_eval unit u fuel (fun x => evalN x o) k dflt dom o)).
      { apply Sim_option_eval; [intros d ->; apply (HD o Ho)|intros d ->; apply (HM o Ho)]. }
      split; [|split; [|split]].
      + unf eval_EOption. apply Sim_wrap. exact Hev.
      + unf validate_EOption. apply Sim_bind; [apply Sim_pure, Pure_rd|]. intros r.
        destruct r as [raw| |]; [|destruct dflt as [d|]; [apply (HD o Ho)|leaf]|leaf].
        apply Sim_bind; [apply Sim_wrap; exact Hev|intros; leaf].
      + unf keys_EOption. apply Sim_bind; [apply Sim_pure, Pure_rd|]. intros r.
        destruct r as [v| |]; [|destruct dflt as [d|]; [apply (HD o Ho)|leaf]|leaf].
        destruct v; try leaf.
        destruct (existsb _ s); [leaf|].
        apply Sim_bind; [|intros; leaf].
        apply Sim_pure, Pure_unionM. intros; apply Pure_ref_keys.
      + unf explain_EOption. apply Sim_bind; [apply Sim_pure, Pure_rd|]. intros r.
        destruct r as [v| |]; [|destruct dflt as [d|]; [apply (HD o Ho)|leaf]|leaf].
        destruct v; try leaf.
        destruct (existsb _ s); [leaf|].
        apply Sim_bind; [|intros; leaf].
        apply Sim_pure, Pure_unionM. intros; apply Pure_ref_keys.
    - (* EApply *)
      destruct Hc as [Ca Cb].
      destruct (IHe1 D Ca o Ho) as (E1 & V1 & K1 & X1).
      destruct (IHe2 D Cb o Ho) as (E2 & V2 & K2 & X2).
      split; [|split; [|split]].
      + unf eval_EApply. apply Sim_wrap. apply Sim_bind; [exact E1|]. intros x.
        apply Sim_bind; [exact E2|]. intros f. apply Sim_pure, Pure_call_value.
      + unf validate_EApply. apply Sim_bind; [exact V1|]. intros; exact V2.
      + unf keys_EApply. apply Sim_bind; [exact K1|]. intros a.
        apply Sim_bind; [exact K2|]. intros; leaf.
      + unf explain_EApply. apply Sim_bind; [exact X1|]. intros a.
        apply Sim_bind; [exact X2|]. intros; leaf.
    - (* EBind *)
      destruct Hc as (Cs & Ct & Cd).
      destruct (IHe D Cs o Ho) as (E1 & V1 & K1 & X1).
      assert (HT0 : forall b, In b (map snd tbl) -> SimAll b D).
      { intros b Hb. apply (Forall_tbl_In (fun x => forall D, scoh x D -> SimAll x D) _ H b Hb).
        apply (coh_tbl_In _ D Ct b Hb). }
      assert (HD : SimOpt dflt D) by (destruct dflt; [apply H0; assumption|exact I]).
      split; [|split; [|split]].
      + unf eval_EBind. apply Sim_wrap. apply Sim_bind; [exact E1|]. intros x.
        apply Sim_pick.
        * intros b Hb. apply (HT0 b Hb o Ho).
        * destruct dflt as [d|]; [apply (HD o Ho)|leaf].
      + unf validate_EBind. apply Sim_bind; [exact V1|]. intros _.
        apply Sim_bind; [exact E1|]. intros x. apply Sim_pick.
        * intros b Hb. apply (HT0 b Hb o Ho).
        * destruct dflt as [d|]; [apply (HD o Ho)|leaf].
      + unf keys_EBind. apply Sim_bind; [exact K1|]. intros a.
        apply Sim_bind; [exact E1|]. intros x.
        apply Sim_bind; [|intros; leaf]. apply Sim_pick.
        * intros b Hb. apply (HT0 b Hb o Ho).
        * destruct dflt as [d|]; [apply (HD o Ho)|leaf].
      + unf explain_EBind. apply Sim_catch; [|intros c ee; leaf].
        apply Sim_bind; [exact X1|]. intros a.
        apply Sim_bind; [exact E1|]. intros x.
        apply Sim_bind; [|intros; leaf]. apply Sim_pick.
        * intros b Hb. apply (HT0 b Hb o Ho).
        * destruct dflt as [d|]; [apply (HD o Ho)|leaf].
    - (* ESwitch *)
      destruct Hc as (Cs & Ct & Cd).
      destruct (IHe D Cs o Ho) as (E1 & V1 & K1 & X1).
      assert (HT0 : forall b, In b (map snd tbl) -> SimAll b D).
      { intros b Hb. apply (Forall_tbl_In (fun x => forall D, scoh x D -> SimAll x D) _ H b Hb).
        apply (coh_tbl_In _ D Ct b Hb). }
      assert (HD : SimOpt dflt D) by (destruct dflt; [apply H0; assumption|exact I]).
      assert (Hdisp : Sim (dispatch_value store (evalC e o) (is_some dflt))
                          (dispatch_value unit (evalN e o) (is_some dflt))).
      { unfold dispatch_value. apply Sim_catch.
        - apply Sim_bind; [exact E1|intros; leaf].
        - intros c ee. leaf. }
      split; [|split; [|split]].
      + unf eval_ESwitch. apply Sim_wrap. apply Sim_bind; [exact Hdisp|]. intros dv.
        destruct dv as [k|].
        * destruct (negb (hashable k)); [leaf|]. apply Sim_pick.
          -- intros b Hb. apply (HT0 b Hb o Ho).
          -- destruct dflt as [d|]; [apply (HD o Ho)|leaf].
        * destruct dflt as [d|]; [apply (HD o Ho)|leaf].
      + unf validate_ESwitch. apply Sim_bind; [exact Hdisp|]. intros dv.
        destruct dv as [k|].
        * destruct (negb (hashable k)); [leaf|]. apply Sim_pick.
          -- intros b Hb. apply (HT0 b Hb o Ho).
          -- destruct dflt as [d|]; [apply (HD o Ho)|leaf].
        * destruct dflt as [d|]; [apply (HD o Ho)|leaf].
      + unf keys_ESwitch. apply Sim_bind; [exact Hdisp|]. intros dv.
        destruct dv as [k|].
        * destruct (negb (hashable k)); [leaf|].
          apply Sim_bind.
          -- apply Sim_pick.
             ++ intros b Hb. apply (HT0 b Hb o Ho).
             ++ destruct dflt as [d|]; [apply (HD o Ho)|leaf].
          -- intros a. apply Sim_bind; [exact K1|intros; leaf].
        * destruct dflt as [d|]; [apply (HD o Ho)|leaf].
      + unf explain_ESwitch. apply Sim_bind.
        { apply Sim_catch; [exact Hdisp|intros c ee; leaf]. }
        intros dv. destruct dv as [k|].
        * destruct (negb (hashable k)); [leaf|].
          apply Sim_bind.
          -- apply Sim_pick.
             ++ intros b Hb. apply (HT0 b Hb o Ho).
             ++ destruct dflt as [d|]; [apply (HD o Ho)|leaf].
          -- intros a. apply Sim_bind; [exact X1|intros; leaf].
        * destruct dflt as [d|]; [apply (HD o Ho)|leaf].
    - (* ECase *)
      destruct Hc as (Cs & Ct & Cd).
      destruct (IHe D Cs o Ho) as (E1 & V1 & K1 & X1).
      assert (HD : SimOpt dflt D) by (destruct dflt; [apply H0; assumption|exact I]).
      split; [|split; [|split]].
      + unf eval_ECase. apply Sim_wrap. apply Sim_bind; [exact E1|]. intros x.
        clear IHe E1 V1 K1 Cs. induction H as [|[c r] cases [Hcc Hr] Hrest IH].
        * destruct dflt as [d|]; [apply (HD o Ho)|leaf].
        * cbn [fst snd] in *. destruct Ct as [[Cc Cr] Ct].
          cbv beta iota. apply Sim_bind; [apply (Hcc D Cc o Ho)|]. intros p.
          apply Sim_bind; [apply Sim_pure, Pure_call_value|]. intros b.
          destruct (truthy b); [apply (Hr D Cr o Ho)|apply IH; assumption].
      + unf validate_ECase. apply Sim_bind; [exact V1|]. intros _.
        apply Sim_bind; [exact E1|]. intros x.
        clear IHe E1 V1 K1 Cs. induction H as [|[c r] cases [Hcc Hr] Hrest IH].
        * destruct dflt as [d|]; [apply (HD o Ho)|leaf].
        * cbn [fst snd] in *. destruct Ct as [[Cc Cr] Ct].
          cbv beta iota. apply Sim_bind; [apply (Hcc D Cc o Ho)|]. intros p.
          apply Sim_bind; [apply Sim_pure, Pure_call_value|]. intros b.
          destruct (truthy b); [apply (Hr D Cr o Ho)|apply IH; assumption].
      + unf keys_ECase. apply Sim_bind; [exact K1|]. intros a.
        apply Sim_bind; [exact E1|]. intros x.
        apply Sim_bind; [|intros; leaf].
        clear IHe E1 V1 K1 Cs. induction H as [|[c r] cases [Hcc Hr] Hrest IH].
        * destruct dflt as [d|]; [apply (HD o Ho)|leaf].
        * cbn [fst snd] in *. destruct Ct as [[Cc Cr] Ct].
          cbv beta iota. apply Sim_bind; [apply (Hcc D Cc o Ho)|]. intros p.
          apply Sim_bind; [apply Sim_pure, Pure_call_value|]. intros b.
          destruct (truthy b); [apply (Hr D Cr o Ho)|apply IH; assumption].
      + unf explain_ECase. apply Sim_catch; [|intros c ee; leaf].
        apply Sim_bind; [exact X1|]. intros a.
        apply Sim_bind; [exact E1|]. intros x.
        apply Sim_bind; [|intros; leaf].
        clear IHe E1 V1 K1 X1 Cs. induction H as [|[c r] cases [Hcc Hr] Hrest IH].
        * destruct dflt as [d|]; [apply (HD o Ho)|leaf].
        * cbn [fst snd] in *. destruct Ct as [[Cc Cr] Ct].
          cbv beta iota. apply Sim_bind; [apply (Hcc D Cc o Ho)|]. intros p.
          apply Sim_bind; [apply Sim_pure, Pure_call_value|]. intros b.
          destruct (truthy b); [apply (Hr D Cr o Ho)|apply IH; assumption].
    - (* ECoalesce *)
      split; [|split; [|split]].
      + unf eval_ECoalesce. apply Sim_wrap.
        assert (G : forall l1,
          Sim ((fix go (ms : list expr) (last : option (cause * bool)) {struct ms} : MC value :=
                  match ms with
                  | [] => match last with Some (c, ee) => fail store c ee | None => fail store CUnmodelled false end
                  | m :: ms' => catch store (bind store (validateC m o) (fun _ => evalC m o))
                                  (fun c ee => if ee then go ms' (Some (c, ee)) else fail store c ee)
                  end) ms l1)
              ((fix go (ms : list expr) (last : option (cause * bool)) {struct ms} : MN value :=
                  match ms with
                  | [] => match last with Some (c, ee) => fail unit c ee | None => fail unit CUnmodelled false end
                  | m :: ms' => catch unit (bind unit (validateN m o) (fun _ => evalN m o))
                                  (fun c ee => if ee then go ms' (Some (c, ee)) else fail unit c ee)
                  end) ms l1)).
        { induction H as [|m ms Hm Hrest IH]; intros l1.
          - leaf.
          - destruct Hc as [Cm Cms].
            destruct (Hm D Cm o Ho) as (E1 & V1 & K1 & X1).
            apply Sim_catch.
            + apply Sim_bind; [exact V1|intros; exact E1].
            + intros c ee. destruct ee; [apply IH; assumption|leaf]. }
        apply G.
      + unf validate_ECoalesce.
        assert (G : forall l1,
          Sim ((fix go (ms : list expr) (last : option (cause * bool)) {struct ms} : MC unit :=
                  match ms with
                  | [] => match last with Some (c, ee) => fail store c ee | None => fail store CUnmodelled false end
                  | m :: ms' => catch store (bind store (validateC m o) (fun _ => validateC m o))
                                  (fun c ee => if ee then go ms' (Some (c, ee)) else fail store c ee)
                  end) ms l1)
              ((fix go (ms : list expr) (last : option (cause * bool)) {struct ms} : MN unit :=
                  match ms with
                  | [] => match last with Some (c, ee) => fail unit c ee | None => fail unit CUnmodelled false end
                  | m :: ms' => catch unit (bind unit (validateN m o) (fun _ => validateN m o))
                                  (fun c ee => if ee then go ms' (Some (c, ee)) else fail unit c ee)
                  end) ms l1)).
        { induction H as [|m ms Hm Hrest IH]; intros l1.
          - leaf.
          - destruct Hc as [Cm Cms].
            destruct (Hm D Cm o Ho) as (E1 & V1 & K1 & X1).
            apply Sim_catch.
            + apply Sim_bind; [exact V1|intros; exact V1].
            + intros c ee. destruct ee; [apply IH; assumption|leaf]. }
        apply G.
      + unf keys_ECoalesce.
        assert (G : forall l1,
          Sim ((fix go (ms : list expr) (last : option (cause * bool)) {struct ms} : MC (list key) :=
                  match ms with
                  | [] => match last with Some (c, ee) => fail store c ee | None => fail store CUnmodelled false end
                  | m :: ms' => catch store (bind store (validateC m o) (fun _ => keysC m o))
                                  (fun c ee => if ee then go ms' (Some (c, ee)) else fail store c ee)
                  end) ms l1)
              ((fix go (ms : list expr) (last : option (cause * bool)) {struct ms} : MN (list key) :=
                  match ms with
                  | [] => match last with Some (c, ee) => fail unit c ee | None => fail unit CUnmodelled false end
                  | m :: ms' => catch unit (bind unit (validateN m o) (fun _ => keysN m o))
                                  (fun c ee => if ee then go ms' (Some (c, ee)) else fail unit c ee)
                  end) ms l1)).
        { induction H as [|m ms Hm Hrest IH]; intros l1.
          - leaf.
          - destruct Hc as [Cm Cms].
            destruct (Hm D Cm o Ho) as (E1 & V1 & K1 & X1).
            apply Sim_catch.
            + apply Sim_bind; [exact V1|intros; exact K1].
            + intros c ee. destruct ee; [apply IH; assumption|leaf]. }
        apply G.
      + unf explain_ECoalesce. apply Sim_catch.
        * assert (G : forall l1,
            Sim ((fix go (ms : list expr) (last : option (cause * bool)) {struct ms} : MC (list key) :=
                    match ms with
                    | [] => match last with Some (c, ee) => fail store c ee | None => fail store CUnmodelled false end
                    | m :: ms' => catch store (bind store (validateC m o) (fun _ => explainC m o))
                                    (fun c ee => if ee then go ms' (Some (c, ee)) else fail store c ee)
                    end) ms l1)
                ((fix go (ms : list expr) (last : option (cause * bool)) {struct ms} : MN (list key) :=
                    match ms with
                    | [] => match last with Some (c, ee) => fail unit c ee | None => fail unit CUnmodelled false end
                    | m :: ms' => catch unit (bind unit (validateN m o) (fun _ => explainN m o))
                                    (fun c ee => if ee then go ms' (Some (c, ee)) else fail unit c ee)
                    end) ms l1)).
          { induction H as [|m ms Hm Hrest IH]; intros l1.
            - leaf.
            - destruct Hc as [Cm Cms].
              destruct (Hm D Cm o Ho) as (E1 & V1 & K1 & X1).
              apply Sim_catch.
              + apply Sim_bind; [exact V1|intros; exact X1].
              + intros c ee. destruct ee; [apply IH; assumption|leaf]. }
          apply G.
        * intros c ee. destruct ee; [|leaf].
          induction H as [|m ms Hm Hrest IH]; [leaf|].
          destruct Hc as [Cm Cms]. destruct ms as [|m2 ms2].
          -- apply (Hm D Cm o Ho).
          -- apply IH. exact Cms.
    - (* EIter *)
      assert (HA : forall x, In x es -> SimAll x D).
      { intros x Hx. rewrite Forall_forall in H. apply (H x Hx D). apply (coh_all_In es D Hc x Hx). }
      split; [|split; [|split]].
      + unf eval_EIter. apply Sim_wrap. apply Sim_bind; [|intros; leaf].
        clear H Hc. induction es as [|x es IH]; [leaf|].
        cbv beta iota. apply Sim_catch; [|intros; leaf].
        apply Sim_bind; [apply (HA x (or_introl eq_refl) o Ho)|]. intros v.
        destruct (is_some (deep_err v)); [leaf|].
        apply Sim_bind; [|intros; leaf]. apply IH. intros y Hy. apply HA. now right.
      + unf validate_EIter. apply Sim_iterM. intros x Hx. apply (HA x Hx o Ho).
      + unf keys_EIter. apply Sim_unionM. intros x Hx. apply (HA x Hx o Ho).
      + unf explain_EIter. apply Sim_unionM. intros x Hx. apply (HA x Hx o Ho).
    - (* EWith: the wrapped expression sees the overlaid dictionary, which [D] contains *)
      destruct (IHe _ Hc (with_opts force p o) (ex_intro _ o (conj Ho eq_refl))) as (E1 & V1 & K1 & X1).
      split; [|split; [|split]].
      + unf eval_EWith. apply Sim_wrap. exact E1.
      + unf validate_EWith. exact V1.
      + unf keys_EWith. cbv zeta.
        apply Sim_bind; [exact K1|]. intros ks. apply Sim_pure, Pure_filter_preset.
      + unf explain_EWith. cbv zeta.
        apply Sim_bind; [exact X1|]. intros ks. apply Sim_pure, Pure_filter_preset.
    - (* ECached *)
      destruct Hc as (Hf & Hokd & Ce & Hsite). pose proof (Hokd o Ho) as Hok.
      destruct (IHe D Ce o Ho) as (E1 & V1 & K1 & X1).
      split; [|split; [|split]].
      + unf eval_ECached. destruct c as [cid|]; [|apply Sim_wrap; exact E1].
        cbn [cfg_nc cache_ctx_off orb].
        destruct (cache_ctx_off cfg || cache_opt_off o); [apply Sim_wrap; exact E1|].
        apply (cached_eval_sim cid e o Hf Hok Hsite (evalC e o) (keysC e o) E1 K1
                 (if site_ok e o then ret store tt else emit store (EvDirty cid))).
        intros pre. destruct (site_ok e o).
        * eapply HT_weaken; [|apply HT_ret]. intros a s0 [_ Hp]. exact Hp.
        * apply HT_emit.
      + unf validate_ECached. destruct c as [cid|]; [|exact V1].
        cbn [cfg_nc cache_ctx_off orb].
        destruct (cache_ctx_off cfg || cache_opt_off o); [exact V1|].
        apply (validate_sim cid e o Hf Hok Hsite (keysC e o) (validateC e o) K1 V1).
      + unf keys_ECached. exact K1.
      + unf explain_ECached. exact X1.
    - (* ECall *)
      destruct Hc as (Cf & Ca & Ck).
      destruct (IHe D Cf o Ho) as (E1 & V1 & K1 & X1).
      assert (HA : forall x, In x args -> SimAll x D).
      { intros x Hx. rewrite Forall_forall in H. apply (H x Hx D). apply (coh_all_In args D Ca x Hx). }
      assert (HK : forall x, In x kwargs -> SimAll x D).
      { intros x Hx. rewrite Forall_forall in H0. apply (H0 x Hx D). apply (coh_all_In kwargs D Ck x Hx). }
      split; [|split; [|split]].
      + unf eval_ECall. apply Sim_wrap. apply Sim_bind; [exact E1|]. intros fv.
        apply Sim_bind; [apply Sim_mapM; intros x Hx; apply (HA x Hx o Ho)|]. intros av.
        apply Sim_bind; [apply Sim_mapM; intros x Hx; apply (HK x Hx o Ho)|]. intros kv.
        destruct partial; [leaf|]. apply Sim_pure, Pure_call_value_n.
      + unf validate_ECall. apply Sim_bind; [exact V1|]. intros _.
        apply Sim_bind; [apply Sim_iterM; intros x Hx; apply (HA x Hx o Ho)|]. intros _.
        apply Sim_iterM; intros x Hx; apply (HK x Hx o Ho).
      + unf keys_ECall. apply Sim_bind; [exact K1|]. intros a.
        apply Sim_bind; [apply Sim_unionM; intros x Hx; apply (HA x Hx o Ho)|]. intros b.
        apply Sim_bind; [apply Sim_unionM; intros x Hx; apply (HK x Hx o Ho)|]. intros c.
        leaf.
      + unf explain_ECall. apply Sim_bind; [exact X1|]. intros a.
        apply Sim_bind; [apply Sim_unionM; intros x Hx; apply (HA x Hx o Ho)|]. intros b.
        apply Sim_bind; [apply Sim_unionM; intros x Hx; apply (HK x Hx o Ho)|]. intros c.
        leaf.
    - (* ETemplate *)
      assert (HA : forall pe, In pe ps -> SimAll (snd pe) D).
      { intros pe Hpe. rewrite Forall_forall in H. apply (H pe Hpe D). apply (coh_ps_In ps D Hc pe Hpe). }
      split; [|split; [|split]].
      + unf eval_ETemplate. apply Sim_wrap. apply Sim_bind.
        * unfold template_options. apply Sim_bind.
          -- apply Sim_mapM. intros pe Hpe. apply Sim_bind; [apply (HA pe Hpe o Ho)|intros; leaf].
          -- intros pvs. destruct (option_set _ []) as [pd|]; [|leaf]. destruct (negb _); leaf.
        * intros d. apply Sim_pure. apply Pure_bind; [apply Pure_emit_reads|]. intros _.
          apply Pure_bind; [apply Pure_of_rres|]. intros j.
          destruct (to_str j); [apply Pure_ret|apply Pure_fail].
      + unf validate_ETemplate. apply Sim_bind; [apply Sim_iterM; intros pe Hpe; apply (HA pe Hpe o Ho)|].
        intros _. apply Sim_pure, Pure_iterM. intros k _.
        apply Pure_bind; [apply Pure_rd|]. intros r.
        destruct r as [raw| |]; [|apply Pure_fail|apply Pure_fail].
        apply Pure_bind; [apply Pure_emit_reads|]. intros _.
        apply Pure_bind; [apply Pure_wrap, Pure_of_rres|]. intros; apply Pure_ret.
      + unf keys_ETemplate. apply Sim_bind; [apply Sim_unionM; intros pe Hpe; apply (HA pe Hpe o Ho)|].
        intros a. apply Sim_bind; [apply Sim_pure, Pure_unionM; intros; apply Pure_ref_keys|]. intros; leaf.
      + unf explain_ETemplate. apply Sim_bind; [apply Sim_unionM; intros pe Hpe; apply (HA pe Hpe o Ho)|].
        intros a. apply Sim_bind; [apply Sim_pure, Pure_unionM; intros; apply Pure_ref_keys|]. intros; leaf.
    - (* EComp *)
      destruct Hc as [Ce Cf].
      destruct (IHe D Ce o Ho) as (E1 & V1 & K1 & X1).
      assert (HA : forall x, In x effects -> SimAll x D).
      { intros x Hx. rewrite Forall_forall in H. apply (H x Hx D). apply (coh_all_In effects D Cf x Hx). }
      split; [|split; [|split]].
      + unf eval_EComp. apply Sim_wrap. apply Sim_bind; [exact E1|]. intros v.
        apply Sim_bind; [|intros; leaf]. destruct (effects_opt_off o); [leaf|].
        apply Sim_iterM. intros x Hx. apply Sim_bind; [apply (HA x Hx o Ho)|]. intros f.
        apply Sim_bind; [apply Sim_pure, Pure_call_value|]. intros; leaf.
      + unf validate_EComp. apply Sim_bind; [exact V1|]. intros _.
        destruct (effects_opt_off o); [leaf|]. apply Sim_iterM. intros x Hx. apply (HA x Hx o Ho).
      + unf keys_EComp. exact K1.
      + unf explain_EComp. apply Sim_bind; [exact X1|]. intros a.
        destruct (effects_opt_off o); [leaf|].
        apply Sim_bind; [|intros; leaf]. apply Sim_unionM. intros x Hx. apply (HA x Hx o Ho).
    - (* ELogged *)
      destruct (IHe D Hc o Ho) as (E1 & V1 & K1 & X1).
      split; [|split; [|split]].
      + unf eval_ELogged. apply Sim_wrap. apply Sim_bind; [leaf|]. intros _.
        apply Sim_bind; [|intros; exact E1].
        apply Sim_pure. destruct (log_ctx_off cfg || logging_opt_off o); destruct (log_ctx_off cfg_nc || logging_opt_off o);
          first [apply Pure_ret | apply Pure_emit | (intros s; split; reflexivity)].
      + unf validate_ELogged. exact V1.
      + unf keys_ELogged. exact K1.
      + unf explain_ELogged. exact X1.
    - (* EPipe *)
      assert (HA : forall x, In x steps -> SimAll x D).
      { intros x Hx. rewrite Forall_forall in H. apply (H x Hx D). apply (coh_all_In steps D Hc x Hx). }
      split; [|split; [|split]].
      + unf eval_EPipe. apply Sim_wrap. apply Sim_bind; [|intros; leaf].
        apply Sim_mapM; intros x Hx; apply (HA x Hx o Ho).
      + unf validate_EPipe. apply Sim_iterM; intros x Hx; apply (HA x Hx o Ho).
      + unf keys_EPipe. apply Sim_unionM; intros x Hx; apply (HA x Hx o Ho).
      + unf explain_EPipe. apply Sim_unionM; intros x Hx; apply (HA x Hx o Ho).
  Qed.

  (** ** Histories: operations on one long-lived graph, every cache shared along the sequence *)
  Inductive hop :=
  | HEval (e : expr) (o : dict)
  | HValidate (e : expr) (o : dict)
  | HKeys (e : expr) (o : dict)
  | HExplain (e : expr) (o : dict).

  Inductive hobs :=
  | OEval (r : res value)
  | OValidate (r : res unit)
  | OKeys (r : res (list key))
  | OExplain (r : res (list key)).

  Definition hop_expr (p : hop) : expr := match p with HEval e _ | HValidate e _ | HKeys e _ | HExplain e _ => e end.
  Definition hop_opts (p : hop) : dict := match p with HEval _ o | HValidate _ o | HKeys _ o | HExplain _ o => o end.

  (** what the long-lived (cached) graph answers, operation by operation *)
  Fixpoint run_hist (h : list hop) (s : store) : list hobs :=
    match h with
    | [] => []
    | HEval e o :: h' => OEval (resC (evalC e o) s) :: run_hist h' (stC (evalC e o) s)
    | HValidate e o :: h' => OValidate (resC (validateC e o) s) :: run_hist h' (stC (validateC e o) s)
    | HKeys e o :: h' => OKeys (resC (keysC e o) s) :: run_hist h' (stC (keysC e o) s)
    | HExplain e o :: h' => OExplain (resC (explainC e o) s) :: run_hist h' (stC (explainC e o) s)
    end.

  (** what the same graph answers with caching switched off, each operation on its own *)
  Definition ref_op (p : hop) : hobs :=
    match p with
    | HEval e o => OEval (resN (evalN e o))
    | HValidate e o => OValidate (resN (validateN e o))
    | HKeys e o => OKeys (resN (keysN e o))
    | HExplain e o => OExplain (resN (explainN e o))
    end.

  (** every operation's expression is covered, starting from the operation's own dictionary *)
  Definition hist_ok (h : list hop) : Prop :=
    forall p, In p h -> scoh (hop_expr p) (eq (hop_opts p)).

  Theorem history_transparent h : forall s,
    Sound s -> hist_ok h -> run_hist h s = map ref_op h.
  Proof.
    induction h as [|p h IH]; intros s Hs Hh; [reflexivity|].
    assert (Hc : scoh (hop_expr p) (eq (hop_opts p))) by (apply Hh; now left).
    assert (Hh' : hist_ok h) by (intros q Hq; apply Hh; now right).
    destruct p as [e o|e o|e o|e o]; cbn [hop_expr hop_opts] in *;
      destruct (sim_all e _ Hc o eq_refl) as (E & V & K & X); cbn [run_hist map ref_op].
    - destruct (E s Hs) as [H1 H2]. rewrite H1. f_equal. now apply IH.
    - destruct (V s Hs) as [H1 H2]. rewrite H1. f_equal. now apply IH.
    - destruct (K s Hs) as [H1 H2]. rewrite H1. f_equal. now apply IH.
    - destruct (X s Hs) as [H1 H2]. rewrite H1. f_equal. now apply IH.
  Qed.

  Corollary history_transparent_from_empty h : hist_ok h -> run_hist h [] = map ref_op h.
  Proof. apply history_transparent, Sound_empty. Qed.
End CacheSim.

(** the switch configuration and the ghost oracle do not enter any result of a covered history *)
Corollary history_independent_of_switches u fuel cfg1 cfg2 so1 so2 sites esw h :
  hist_ok u fuel sites esw h ->
  run_hist u fuel cfg1 so1 h [] = run_hist u fuel cfg2 so2 h [].
Proof.
  intros H.
  rewrite (history_transparent_from_empty u fuel cfg1 so1 sites esw h H).
  now rewrite (history_transparent_from_empty u fuel cfg2 so2 sites esw h H).
Qed.
