(** The hypotheses of the history-level transparency theorem (Proofs/CacheSim.v: [hist_ok]) as
    BOOLEAN functions, so that the harness can evaluate them on every generated history and report
    how much of what it generates lies inside the theorem (and apply the theorem's conclusion as a
    strict oracle there).  Executable definitions only (it lives under Proofs/ because it uses [frag] of FrameProofs);
    soundness is Proofs/CoveredProofs.v. *)
From Coq Require Import List NArith ZArith Bool String.
Import ListNotations.
From LV Require Import Model.Show Model.Base Model.Template Model.Eval Model.Derived Model.EvalRun.
From LV Require Import Proofs.FrameProofs Proofs.TemplateFrame.

Close Scope string_scope.
Open Scope list_scope.

Definition cause_eqb (a b : cause) : bool :=
  match a, b with
  | CKey k, CKey k' => key_eqb k k'
  | CSwitch, CSwitch | CCase, CCase | CDomain, CDomain | CType, CType
  | CInsuff, CInsuff | CFuel, CFuel | CUnmodelled, CUnmodelled => true
  | CUser n, CUser m => N.eqb n m
  | _, _ => false
  end.

Section Covered.
  Variable u : N -> list value -> cres.
  Variable fuel : nat.
  Variable esw : bool.       (* the value of the effects switch along the history *)

  Definition rawE (e : expr) (o : dict) : res value :=
    fst (fst (eval unit nc_find nc_store cfg_nc u fuel (fun _ _ => true) e o tt)).
  Definition rawV (e : expr) (o : dict) : res unit :=
    fst (fst (validate unit nc_find nc_store cfg_nc u fuel (fun _ _ => true) e o tt)).
  Definition rawK (e : expr) (o : dict) : res (list key) :=
    fst (fst (keys unit nc_find nc_store cfg_nc u fuel (fun _ _ => true) e o tt)).

  (** [agree_at] *)
  Definition agree_atb (b : expr) (o : dict) : bool :=
    match rawK b o with
    | Err c ee =>
        match rawE b o with Err c' true => cause_eqb c c' | _ => false end &&
        match rawV b o with Err c' ee' => cause_eqb c c' && Bool.eqb ee ee' | _ => false end
    | Ok _ => true
    end &&
    match rawE b o with
    | Ok _ => match rawV b o with Ok _ => true | _ => false end
    | Err _ _ => true
    end.

  Definition site_cleanb (b : expr) (o : dict) : bool :=
    clean_at u fuel b o && agree_atb b o &&
    match rawE b o with Ok v => negb (has_lazy v) | Err _ _ => true end &&
    (* [esw_stable]: restricting to the reported keys does not flip the effects switch *)
    match rawK b o with
    | Ok K => Bool.eqb (effects_opt_off (restrict o K)) (effects_opt_off o)
    | Err _ _ => true
    end.

  (** [okd], for the cached expressions in the list [sl] *)
  Definition okdb (sl : list (N * expr)) (o : dict) : bool :=
    wf_dict o && no_par o && Bool.eqb (effects_opt_off o) esw && forallb (fun cb => site_cleanb (snd cb) o) sl.

  (** [scoh] for the singleton dictionary set {o}, coherence apart *)
  Fixpoint scohb (sl : list (N * expr)) (e : expr) (o : dict) {struct e} : bool :=
    match e with
    | EValue _ => true
    | EOption _ dflt dom =>
        match dflt with Some d => scohb sl d o | None => true end &&
        match dom with Some d => scohb sl d o | None => true end
    | EApply a b => scohb sl a o && scohb sl b o
    | EBind src tbl dflt | ESwitch src tbl dflt =>
        scohb sl src o &&
        (fix go (l : list (value * expr)) : bool :=
           match l with [] => true | (_, x) :: l' => scohb sl x o && go l' end) tbl &&
        match dflt with Some d => scohb sl d o | None => true end
    | ECase disp cases dflt =>
        scohb sl disp o &&
        (fix go (l : list (expr * expr)) : bool :=
           match l with [] => true | (c, r) :: l' => scohb sl c o && scohb sl r o && go l' end) cases &&
        match dflt with Some d => scohb sl d o | None => true end
    | ECoalesce ms | EIter ms | EPipe ms =>
        (fix go (l : list expr) : bool := match l with [] => true | x :: l' => scohb sl x o && go l' end) ms
    | EWith force p e => scohb sl e (with_opts force p o)
    | ELogged e => scohb sl e o
    | EComp e effs =>
        scohb sl e o &&
        (fix go (l : list expr) : bool := match l with [] => true | x :: l' => scohb sl x o && go l' end) effs
    | ECached _ e => frag e && okdb sl o && scohb sl e o
    | ECall _ f args kwargs =>
        scohb sl f o &&
        (fix go (l : list expr) : bool := match l with [] => true | x :: l' => scohb sl x o && go l' end) args &&
        (fix go (l : list expr) : bool := match l with [] => true | x :: l' => scohb sl x o && go l' end) kwargs
    | ETemplate _ ps =>
        (fix go (l : list (N * expr)) : bool :=
           match l with [] => true | (_, x) :: l' => scohb sl x o && go l' end) ps
    | EMap _ _ | EAllOptions => false
    end.
End Covered.

(** ** the cache sites of an expression: (cache id, cached expression), in traversal order *)
Fixpoint sites_of (e : expr) : list (N * expr) :=
  match e with
  | EValue _ | EAllOptions => []
  | EOption _ dflt dom =>
      match dflt with Some d => sites_of d | None => [] end ++ match dom with Some d => sites_of d | None => [] end
  | EApply a b => sites_of a ++ sites_of b
  | EBind src tbl dflt | ESwitch src tbl dflt =>
      sites_of src ++
      (fix go (l : list (value * expr)) := match l with [] => [] | (_, x) :: l' => sites_of x ++ go l' end) tbl ++
      match dflt with Some d => sites_of d | None => [] end
  | ECase disp cases dflt =>
      sites_of disp ++
      (fix go (l : list (expr * expr)) := match l with [] => [] | (c, r) :: l' => sites_of c ++ sites_of r ++ go l' end) cases ++
      match dflt with Some d => sites_of d | None => [] end
  | ECoalesce ms | EIter ms | EPipe ms =>
      (fix go (l : list expr) := match l with [] => [] | x :: l' => sites_of x ++ go l' end) ms
  | EMap e its =>
      sites_of e ++ (fix go (l : list (key * expr)) := match l with [] => [] | (_, x) :: l' => sites_of x ++ go l' end) its
  | EWith _ _ e | ELogged e => sites_of e
  | EComp e effs => sites_of e ++ (fix go (l : list expr) := match l with [] => [] | x :: l' => sites_of x ++ go l' end) effs
  | ECached c e => match c with CMem cid => [(cid, e)] | CNone => [] end ++ sites_of e
  | ECall _ f args kwargs =>
      sites_of f ++
      (fix go (l : list expr) := match l with [] => [] | x :: l' => sites_of x ++ go l' end) args ++
      (fix go (l : list expr) := match l with [] => [] | x :: l' => sites_of x ++ go l' end) kwargs
  | ETemplate _ ps => (fix go (l : list (N * expr)) := match l with [] => [] | (_, x) :: l' => sites_of x ++ go l' end) ps
  end.

(** ** what the harness asks: for each operation of a scenario, does it lie inside the theorem?
    one character per operation: '1' covered, '0' not *)
Open Scope string_scope.
Definition covered_ops (t : ftable) (es : list expr) (ops : list op) : string :=
  let u := ucall_of t in
  let sl := flat_map sites_of es in
  (* one value of the effects switch along the history: that of the first operation *)
  let esw := match ops with p :: _ => effects_opt_off p.(op_opts) | [] => false end in
  String.concat "" (map (fun p : op =>
    let e := nth p.(op_expr) es (EValue VMissing) in
    if scohb u default_fuel esw sl e p.(op_opts) then "1" else "0") ops).
