(** C11: explain() — which failures it can have, what it lists, how that relates to keys() and
    validate(), on the cache-free reference instance, for ALL user code and ALL dictionaries. *)
From Coq Require Import List NArith ZArith Bool Lia.
Import ListNotations.
From LV Require Import Model.Base Model.Template Model.Eval Model.Derived Model.EvalRun.
From LV Require Import Proofs.BaseProofs Proofs.EvalProofs Proofs.EvalInd Proofs.EvalUnfold Proofs.FrameProofs Proofs.AgreeProofs.

(** ** Part A: the failures of explain().  For EVERY expression: an EvaluationError leaving
    explain() is InsufficientInformationError (or the run is outside the modelled universe); any
    other failure is a raw TypeError (scalar parent / unhashable dispatch value), an exhausted
    resolution budget, or an exception raised by user code that explain() called directly — never
    a missing-option, switch, case-when or domain error. *)
Definition ne_cause (c : cause) : bool :=
  match c with CType | CUnmodelled | CFuel | CUser _ => true | _ => false end.
Definition ee_cause (c : cause) : bool :=
  match c with CInsuff | CUnmodelled => true | _ => false end.
Definition neerr {A} (r : res A) : Prop :=
  match r with Err c false => ne_cause c = true | _ => True end.
Definition okerr {A} (r : res A) : Prop :=
  match r with Ok _ => True | Err c true => ee_cause c = true | Err c false => ne_cause c = true end.
Definition eeerr {A} (r : res A) : Prop := match r with Err _ false => False | _ => True end.

Lemma okerr_neerr A (r : res A) : okerr r -> neerr r.
Proof. destruct r as [a|c [|]]; cbn; auto. Qed.
Lemma eeerr_neerr A (r : res A) : eeerr r -> neerr r.
Proof. destruct r as [a|c [|]]; cbn; tauto. Qed.
Lemma neerr_bind A B (r : res A) (f : A -> res B) : neerr r -> (forall a, neerr (f a)) -> neerr (bindr r f).
Proof. destruct r as [a|c ee]; cbn [bindr]; auto. Qed.
Lemma okerr_bind A B (r : res A) (f : A -> res B) : okerr r -> (forall a, okerr (f a)) -> okerr (bindr r f).
Proof. destruct r as [a|c ee]; cbn [bindr]; auto. Qed.
Lemma eeerr_bind A B (r : res A) (f : A -> res B) : eeerr r -> (forall a, eeerr (f a)) -> eeerr (bindr r f).
Proof. destruct r as [a|c ee]; cbn [bindr]; auto. Qed.
Lemma neerr_unionr A (f : A -> res (list key)) l : (forall a, In a l -> neerr (f a)) -> neerr (unionr f l).
Proof.
  induction l as [|a l IH]; intros H; [exact I|]. cbn [unionr].
  apply neerr_bind; [apply H; now left|]. intros x. apply neerr_bind; [|intros; exact I].
  apply IH. intros b Hb. apply H. now right.
Qed.
Lemma okerr_unionr A (f : A -> res (list key)) l : (forall a, In a l -> okerr (f a)) -> okerr (unionr f l).
Proof.
  induction l as [|a l IH]; intros H; [exact I|]. cbn [unionr].
  apply okerr_bind; [apply H; now left|]. intros x. apply okerr_bind; [|intros; exact I].
  apply IH. intros b Hb. apply H. now right.
Qed.
Lemma neerr_iterr A (f : A -> res unit) l : (forall a, In a l -> neerr (f a)) -> neerr (iterr f l).
Proof.
  induction l as [|a l IH]; intros H; [exact I|]. cbn [iterr].
  apply neerr_bind; [apply H; now left|]. intros _. apply IH. intros b Hb. apply H. now right.
Qed.
Lemma neerr_mapr A B (f : A -> res B) l : (forall a, In a l -> neerr (f a)) -> neerr (mapr f l).
Proof.
  induction l as [|a l IH]; intros H; [exact I|]. cbn [mapr].
  apply neerr_bind; [apply H; now left|]. intros x. apply neerr_bind; [|intros; exact I].
  apply IH. intros b Hb. apply H. now right.
Qed.
Lemma app2_okerr x y : okerr x -> okerr y -> okerr (app2 x y).
Proof. intros Hx Hy. unfold app2. apply okerr_bind; [exact Hx|]. intros a. apply okerr_bind; [exact Hy|]. intros; exact I. Qed.
Lemma app2_neerr x y : neerr x -> neerr y -> neerr (app2 x y).
Proof. intros Hx Hy. unfold app2. apply neerr_bind; [exact Hx|]. intros a. apply neerr_bind; [exact Hy|]. intros; exact I. Qed.
Lemma okerr_catch_insuff A (r : res A) : neerr r -> okerr (catchr r insuffh).
Proof.
  destruct r as [a|c ee]; cbn [catchr neerr]; [auto|]. intros H.
  destruct (unmodb c) eqn:U.
  - destruct c; try discriminate. destruct ee; reflexivity.
  - destruct ee; cbn; [reflexivity|exact H].
Qed.
Lemma neerr_pickr A x tbl (g : expr -> res A) miss :
  (forall v b, In (v, b) tbl -> neerr (g b)) -> neerr miss -> neerr (pickr x tbl g miss).
Proof.
  intros Hg Hm. unfold pickr. destruct (assoc_v x tbl) as [b|] eqn:E; [|exact Hm].
  destruct (assoc_v_In _ _ _ E) as [v Hin]. apply (Hg v b Hin).
Qed.
Lemma okerr_pickr A x tbl (g : expr -> res A) miss :
  (forall v b, In (v, b) tbl -> okerr (g b)) -> okerr miss -> okerr (pickr x tbl g miss).
Proof.
  intros Hg Hm. unfold pickr. destruct (assoc_v x tbl) as [b|] eqn:E; [|exact Hm].
  destruct (assoc_v_In _ _ _ E) as [v Hin]. apply (Hg v b Hin).
Qed.

Section Fails.
  Variable u : N -> list value -> cres.
  Variable rfuel : nat.
  Notation ev := (eval unit nc_find nc_store cfg_nc u rfuel (fun _ _ => true)).
  Notation va := (validate unit nc_find nc_store cfg_nc u rfuel (fun _ _ => true)).
  Notation ks := (keys unit nc_find nc_store cfg_nc u rfuel (fun _ _ => true)).
  Notation ex := (explain unit nc_find nc_store cfg_nc u rfuel (fun _ _ => true)).
  Local Notation E e o := (rs (ev e o)) (only parsing).
  Local Notation V e o := (rs (va e o)) (only parsing).
  Local Notation K e o := (rs (ks e o)) (only parsing).
  Local Notation X e o := (rs (ex e o)) (only parsing).

  Lemma eeerr_E e o : eeerr (E e o).
  Proof. destruct (E e o) as [v|c ee] eqn:H; [exact I|]. apply ev_err_ee in H. now subst. Qed.
  Lemma neerr_E e o : neerr (E e o).
  Proof. apply eeerr_neerr, eeerr_E. Qed.

  Lemma neerr_force v : neerr (rs (force_elems unit v)).
  Proof. rewrite rs_force_elems. destruct (elements_of v) as [els|]; [|reflexivity]. destruct (first_err els); exact I. Qed.

  Lemma neerr_call_fun f args : neerr (rs (call_fun unit u f args)).
  Proof.
    rewrite rs_call_fun.
    assert (H1 : forall t x, neerr (bindr (rs (force_elems unit x)) (fun els => Ok (VT t els)))).
    { intros t x. apply neerr_bind; [apply neerr_force|intros; exact I]. }
    destruct (N.eqb f B_LIST). { destruct args as [|x [|y l]]; try reflexivity. apply H1. }
    destruct (N.eqb f B_TUPLE). { destruct args as [|x [|y l]]; try reflexivity. apply H1. }
    destruct (N.eqb f B_DICT).
    { destruct args as [|x [|y l]]; try reflexivity. apply neerr_bind; [apply neerr_force|]. intros ps.
      destruct (first_err _); [exact I|]. destruct (dict_of_pairs ps []); reflexivity. }
    unfold user_call. destruct (deep_err_list args); [exact I|]. destruct (u f (map listify args)); reflexivity.
  Qed.

  Lemma neerr_call f : forall x, neerr (rs (call_value unit u f x)).
  Proof.
    induction f using value_ind'; intros x; try reflexivity.
    rewrite call_value_VF. destruct (N.eqb f B_COMPOSE); [|apply neerr_call_fun].
    clear H0. revert x. induction pre as [|g pre IH]; intros x; [exact I|].
    cbn [compose_go]. rewrite rs_bind. inversion H; subst.
    apply neerr_bind; [apply H2|]. intros y. now apply IH.
  Qed.

  Lemma rs_ref_keys_S f strict o k :
    rs (ref_keys unit (S f) strict o k) =
      match lookup k (JObj o) with
      | Found (JStr s) =>
          if has_par s then Err CUnmodelled false
          else bindr (rs (unionM unit (fun k' => ref_keys unit f strict o k') (refs s))) (fun l => Ok (k :: l))
      | Found _ => Ok [k]
      | Absent => if strict then Err (CKey k) true else Ok [k]
      | TypeErr => Err CType false
      end.
  Proof.
    cbn [ref_keys]. rewrite rs_bind, rs_rd. cbn [bindr].
    destruct (lookup k (JObj o)) as [raw| |]; [|destruct strict; reflexivity|reflexivity].
    destruct raw; try reflexivity. fold (has_par s). destruct (has_par s); [reflexivity|].
    now apply rs_bind_ext.
  Qed.

  (** failures that are never EvaluationErrors *)
  Definition nefail {A} (r : res A) : Prop :=
    match r with Err c ee => ee = false /\ ne_cause c = true | Ok _ => True end.
  Lemma nefail_okerr A (r : res A) : nefail r -> okerr r.
  Proof. destruct r as [a|c ee]; cbn; [auto|]. intros [-> H]. exact H. Qed.
  Lemma nefail_neerr A (r : res A) : nefail r -> neerr r.
  Proof. intros H. apply okerr_neerr, nefail_okerr, H. Qed.
  Lemma nefail_unionr A (f : A -> res (list key)) l : (forall a, In a l -> nefail (f a)) -> nefail (unionr f l).
  Proof.
    intros H. destruct (unionr f l) as [K|c ee] eqn:E; [exact I|].
    apply unionr_err in E as [a [Ha E]]. specialize (H a Ha). now rewrite E in H.
  Qed.

  Lemma ref_keys_lenient f o : forall k, nefail (rs (ref_keys unit f false o k)).
  Proof.
    induction f as [|f IH]; intros k; [split; reflexivity|].
    rewrite rs_ref_keys_S. destruct (lookup k (JObj o)) as [raw| |]; [|exact I|split; reflexivity].
    destruct raw; try exact I. destruct (has_par s); [split; reflexivity|].
    rewrite (rs_unionM_ext _ _ (fun k' => rs (ref_keys unit f false o k'))) by reflexivity.
    pose proof (nefail_unionr _ (fun k' => rs (ref_keys unit f false o k')) (refs s) (fun a _ => IH a)) as N.
    destruct (unionr _ (refs s)); [exact I|exact N].
  Qed.
  Lemma refsr_lenient o s : nefail (refsr rfuel false o s).
  Proof.
    unfold refsr. rewrite (rs_unionM_ext _ _ (fun k' => rs (ref_keys unit rfuel false o k'))) by reflexivity.
    apply nefail_unionr. intros a _. apply ref_keys_lenient.
  Qed.

  Lemma rs_filter_preset_cons f p o mixed k l :
    rs (filter_preset unit f p o mixed (k :: l)) =
      match preset_drops f p o mixed k with
      | None => Err CType false
      | Some b => bindr (rs (filter_preset unit f p o mixed l)) (fun r => Ok (if b then r else k :: r))
      end.
  Proof. cbn [filter_preset]. destruct (preset_drops f p o mixed k); [now apply rs_bind_ext|reflexivity]. Qed.
  Lemma filter_preset_nefail f p o mixed l : nefail (rs (filter_preset unit f p o mixed l)).
  Proof.
    induction l as [|k l IH]; [exact I|]. rewrite rs_filter_preset_cons.
    destruct (preset_drops f p o mixed k); [|split; reflexivity].
    destruct (rs (filter_preset unit f p o mixed l)); [exact I|exact IH].
  Qed.
  Lemma row_options_nefail row : nefail (rs (row_options unit row)).
  Proof.
    unfold row_options. destruct (option_set _ []) as [os|]; [|split; reflexivity].
    destruct (_ && _); [split; reflexivity|exact I].
  Qed.
  Lemma filtr_okerr f p o r : okerr r -> okerr (filtr f p o r).
  Proof. intros H. apply okerr_bind; [exact H|]. intros l. apply nefail_okerr, filter_preset_nefail. Qed.
  Lemma filtr_neerr f p o r : neerr r -> neerr (filtr f p o r).
  Proof. intros H. apply neerr_bind; [exact H|]. intros l. apply nefail_neerr, filter_preset_nefail. Qed.

  Lemma eeerr_dispr e o hd : eeerr (dispr (E e o) hd).
  Proof.
    unfold dispr. pose proof (eeerr_E e o) as H. destruct (E e o) as [v|c ee]; cbn [bindr catchr]; [exact I|].
    destruct ee; [|destruct H]. destruct (unmodb c); [exact I|]. cbn. destruct hd; exact I.
  Qed.

  Lemma neerr_rowsr o its : neerr (rowsr u rfuel o its).
  Proof.
    unfold rowsr. apply neerr_bind; [|intros; exact I]. apply neerr_mapr. intros kv _.
    apply neerr_bind; [apply neerr_E|]. intros v. apply neerr_force.
  Qed.
  Lemma neerr_case_sel x o cases : neerr (case_sel u rfuel x o cases).
  Proof.
    induction cases as [|[c r] cases IH]; [exact I|]. cbn [case_sel].
    apply neerr_bind; [apply neerr_E|]. intros p. apply neerr_bind; [apply neerr_call|]. intros b.
    destruct (truthy b); [exact I|exact IH].
  Qed.
  Lemma neerr_dfltr A dflt (g : expr -> res A) c ee :
    Popt (fun d => neerr (g d)) dflt -> (ee = false -> ne_cause c = true) -> neerr (dfltr dflt g c ee).
  Proof. destruct dflt; cbn; [auto|]. intros _ H. destruct ee; [exact I|now apply H]. Qed.
  Lemma okerr_dfltr A dflt (g : expr -> res A) c (ee : bool) :
    Popt (fun d => okerr (g d)) dflt -> (if ee then ee_cause c else ne_cause c) = true -> okerr (dfltr dflt g c ee).
  Proof. destruct dflt; cbn; [auto|]. intros _ H. destruct ee; exact H. Qed.

  Lemma neerr_coalr A (v : expr -> res unit) (act : expr -> res A) ms :
    (forall m, In m ms -> neerr (v m) /\ neerr (act m)) ->
    forall last, match last with Some (c, false) => ne_cause c = true | _ => True end -> neerr (coalr v act ms last).
  Proof.
    induction ms as [|m ms IH]; intros H last Hl.
    - destruct last as [[c [|]]|]; cbn; auto.
    - cbn [coalr]. destruct (H m (or_introl eq_refl)) as [Hv Ha].
      assert (Hb : neerr (bindr (v m) (fun _ => act m))) by (apply neerr_bind; auto).
      destruct (bindr (v m) (fun _ => act m)) as [a|c ee]; cbn [catchr]; [exact I|].
      destruct (unmodb c) eqn:Un; [destruct c; try discriminate; destruct ee; reflexivity|].
      destruct ee; [|exact Hb]. apply IH; [|exact I]. intros m' Hm'. apply H. now right.
  Qed.
  Lemma okerr_lastr A (act : expr -> res A) ms : (forall m, In m ms -> okerr (act m)) -> okerr (lastr act ms).
  Proof.
    induction ms as [|m [|m' ms] IH]; intros H; [reflexivity|apply H; now left|].
    apply IH. intros x Hx. apply H. now right.
  Qed.

  Definition failsQ (e : expr) : Prop := forall o, neerr (V e o) /\ okerr (X e o).

  Theorem fails_all e : failsQ e.
  Proof.
    induction e using expr_ind'; intros o.
    - split; exact I.
    - (* Option *) split.
      + rewrite rs_va_option. destruct (lookup k (JObj o)); [|destruct dflt as [d|]; [apply (H o)|exact I]|reflexivity].
        apply neerr_bind; [apply neerr_E|intros; exact I].
      + rewrite X_option. destruct (lookup k (JObj o)) as [raw| |]; [|destruct dflt as [d|]; [apply (H o)|exact I]|reflexivity].
        destruct raw; try exact I. destruct (has_par s); [reflexivity|].
        apply okerr_bind; [apply nefail_okerr, refsr_lenient|intros; exact I].
    - (* Apply *) split.
      + rewrite V_apply. apply neerr_bind; [apply IHe1|intros _; apply IHe2].
      + rewrite X_apply. apply app2_okerr; [apply IHe1|apply IHe2].
    - (* Bind *)
      assert (Hb : forall g, (forall x, failsQ x -> neerr (g x)) -> neerr (bind_body u rfuel e tbl dflt o g)).
      { intros g Hg. unfold bind_body. apply neerr_bind; [now apply Hg|]. intros a.
        apply neerr_bind; [apply neerr_E|]. intros x. apply neerr_bind; [|intros; exact I].
        apply neerr_pickr.
        - intros v b Hin. apply Hg. apply (Forall_snd_In failsQ tbl v b H Hin).
        - apply neerr_dfltr; [destruct dflt; [apply Hg, H0|exact I]|reflexivity]. }
      split.
      + rewrite V_bind. apply neerr_bind; [apply IHe|]. intros _. apply neerr_bind; [apply neerr_E|]. intros x.
        apply neerr_pickr.
        * intros v b Hin. apply (Forall_snd_In failsQ tbl v b H Hin o).
        * apply neerr_dfltr; [destruct dflt; [apply (H0 o)|exact I]|reflexivity].
      + rewrite X_bind. apply okerr_catch_insuff. apply Hb. intros x Hx. apply okerr_neerr, Hx.
    - (* Switch *) split.
      + rewrite V_switch. apply neerr_bind; [apply eeerr_neerr, eeerr_dispr|]. intros [k|]; cbn [switch_sel].
        * destruct (negb (hashable k)); [reflexivity|]. apply neerr_pickr.
          -- intros v b Hin. apply (Forall_snd_In failsQ tbl v b H Hin o).
          -- apply neerr_dfltr; [destruct dflt; [apply (H0 o)|exact I]|discriminate].
        * apply neerr_dfltr; [destruct dflt; [apply (H0 o)|exact I]|reflexivity].
      + rewrite X_switch. apply okerr_bind; [apply okerr_catch_insuff, eeerr_neerr, eeerr_dispr|].
        intros [k|]; cbn [switch_keys].
        * destruct (negb (hashable k)); [reflexivity|]. apply app2_okerr; [|apply IHe].
          apply okerr_pickr.
          -- intros v b Hin. apply (Forall_snd_In failsQ tbl v b H Hin o).
          -- apply okerr_dfltr; [destruct dflt; [apply (H0 o)|exact I]|reflexivity].
        * apply okerr_dfltr; [destruct dflt; [apply (H0 o)|exact I]|reflexivity].
    - (* Case *)
      assert (Hr : forall (A : Type) (g : expr -> res A) s x, (forall y, failsQ y -> neerr (g y)) ->
                     case_sel u rfuel x o cases = Ok s -> neerr (case_res s dflt g)).
      { intros A g s x Hg Hs. destruct s as [r|]; cbn [case_res].
        - destruct (case_sel_In _ _ _ _ _ _ Hs) as [c Hin]. rewrite Forall_forall in H.
          apply Hg, (proj2 (H (c, r) Hin)).
        - apply neerr_dfltr; [destruct dflt; [apply Hg, H0|exact I]|discriminate]. }
      assert (Hb : forall g, (forall x, failsQ x -> neerr (g x)) -> neerr (case_body u rfuel e cases dflt o g)).
      { intros g Hg. unfold case_body. apply neerr_bind; [now apply Hg|]. intros a.
        apply neerr_bind; [apply neerr_E|]. intros x.
        pose proof (neerr_case_sel x o cases) as Hs.
        destruct (case_sel u rfuel x o cases) as [s|c ee] eqn:Es; cbn [bindr]; [|exact Hs].
        apply neerr_bind; [|intros; exact I]. apply (Hr _ g s x Hg Es). }
      split.
      + rewrite V_case. apply neerr_bind; [apply IHe|]. intros _. apply neerr_bind; [apply neerr_E|]. intros x.
        pose proof (neerr_case_sel x o cases) as Hs.
        destruct (case_sel u rfuel x o cases) as [s|c ee] eqn:Es; cbn [bindr]; [|exact Hs].
        apply (Hr _ (fun y => V y o) s x); [|exact Es]. intros y Hy. apply Hy.
      + rewrite X_case. apply okerr_catch_insuff. apply Hb. intros x Hx. apply okerr_neerr, Hx.
    - (* Coalesce *)
      rewrite Forall_forall in H. split.
      + rewrite V_coalesce. apply neerr_coalr; [|exact I]. intros m Hm. split; apply (H m Hm o).
      + rewrite X_coalesce.
        assert (Hn : neerr (coalr (fun m => V m o) (fun m => X m o) ms None)).
        { apply neerr_coalr; [|exact I]. intros m Hm. split; [apply (H m Hm o)|apply okerr_neerr, (H m Hm o)]. }
        destruct (coalr _ _ ms None) as [a|c ee]; cbn [catchr]; [exact I|].
        destruct (unmodb c) eqn:Un; [destruct c; try discriminate; destruct ee; reflexivity|].
        destruct ee; [|exact Hn]. apply okerr_lastr. intros m Hm. apply (H m Hm o).
    - (* Iter *)
      rewrite Forall_forall in H. split.
      + rewrite V_iter. apply neerr_iterr. intros x Hx. apply (H x Hx o).
      + rewrite X_iter. apply okerr_unionr. intros x Hx. apply (H x Hx o).
    - (* Map *)
      rewrite Forall_forall in H.
      assert (Hits : forall g, (forall x d, failsQ x -> neerr (g x d)) -> neerr (unionr (fun kv => g (snd kv) o) its)).
      { intros g Hg. apply neerr_unionr. intros kv Hkv. apply Hg, (H kv Hkv). }
      split.
      + rewrite V_map. apply neerr_bind; [apply neerr_rowsr|]. intros rows. apply neerr_iterr. intros row _.
        apply neerr_bind; [apply nefail_neerr, row_options_nefail|]. intros os. apply IHe.
      + rewrite X_map.
        assert (Hn : neerr (map_body u rfuel e its o (fun x d => X x d))).
        { unfold map_body. apply neerr_bind; [apply neerr_rowsr|]. intros rows. apply app2_neerr.
          - apply neerr_unionr. intros row _. unfold row_keys.
            apply neerr_bind; [apply nefail_neerr, row_options_nefail|]. intros os.
            apply neerr_bind; [apply okerr_neerr, IHe|]. intros l. apply nefail_neerr, filter_preset_nefail.
          - apply (Hits (fun x d => rs (ex x d))). intros x d Hx. apply okerr_neerr, Hx. }
        destruct (map_body _ _ _ _ _ _) as [a|c ee]; cbn [catchr]; [exact I|].
        destruct (unmodb c) eqn:Un; [destruct c; try discriminate; destruct ee; reflexivity|].
        destruct ee; [|exact Hn]. apply okerr_bind; [apply IHe|]. intros a.
        apply okerr_bind; [|intros; exact I]. apply okerr_unionr. intros kv Hkv. apply (H kv Hkv o).
    - (* With *) split.
      + rewrite V_with. apply IHe.
      + rewrite X_with. apply filtr_okerr, IHe.
    - (* Cached *) split; [rewrite V_cached|rewrite X_cached]; apply IHe.
    - (* Call *)
      rewrite Forall_forall in H, H0. split.
      + rewrite V_call. apply neerr_bind; [apply IHe|]. intros _.
        apply neerr_bind; [apply neerr_iterr; intros x Hx; apply (H x Hx o)|]. intros _.
        apply neerr_iterr; intros x Hx; apply (H0 x Hx o).
      + rewrite X_call. unfold call_body. apply okerr_bind; [apply IHe|]. intros a.
        apply okerr_bind; [apply okerr_unionr; intros x Hx; apply (H x Hx o)|]. intros b.
        apply okerr_bind; [apply okerr_unionr; intros x Hx; apply (H0 x Hx o)|intros; exact I].
    - (* Template *)
      rewrite Forall_forall in H. split.
      + rewrite V_template. apply neerr_bind; [apply neerr_iterr; intros pe Hpe; apply (H pe Hpe o)|]. intros _.
        apply neerr_iterr. intros k _. unfold vref. destruct (lookup k (JObj o)); try reflexivity.
        apply neerr_bind; [|intros; exact I]. destruct (rs (of_rres unit _)); exact I.
      + rewrite X_template. apply app2_okerr; [|apply nefail_okerr, refsr_lenient].
        apply okerr_unionr. intros pe Hpe. apply (H pe Hpe o).
    - (* Comp *)
      rewrite Forall_forall in H. split.
      + rewrite V_comp. apply neerr_bind; [apply IHe|]. intros _. destruct (effects_opt_off o); [exact I|].
        apply neerr_iterr. intros x Hx. apply (H x Hx o).
      + rewrite X_comp. apply okerr_bind; [apply IHe|]. intros a. destruct (effects_opt_off o); [exact I|].
        apply okerr_bind; [|intros; exact I]. apply okerr_unionr. intros x Hx. apply (H x Hx o).
    - (* Logged *) split; [rewrite V_logged|rewrite X_logged]; apply IHe.
    - (* Pipe *)
      rewrite Forall_forall in H. split.
      + rewrite V_pipe. apply neerr_iterr. intros x Hx. apply (H x Hx o).
      + rewrite X_pipe. apply okerr_unionr. intros x Hx. apply (H x Hx o).
    - (* AllOptions *) split.
      + rewrite V_all. apply neerr_bind; [|intros; exact I]. destruct (allr rfuel o); exact I.
      + exact I.
  Qed.
End Fails.

(** ** Part B: references of templated option values.  If a templated string resolves, every key
    it references (transitively, through string values) is present: key inspection of it cannot
    fail with a missing-option error; and where strict inspection succeeds, the lenient one
    (explain) returns the same list. *)
Definition noee {A} (r : res A) : Prop := match r with Err _ true => False | _ => True end.

Lemma noee_bind A B (r : res A) (f : A -> res B) : noee r -> (forall a, r = Ok a -> noee (f a)) -> noee (bindr r f).
Proof. destruct r as [a|c ee]; cbn [bindr]; auto. Qed.
Lemma noee_unionr A (f : A -> res (list key)) l : (forall a, In a l -> noee (f a)) -> noee (unionr f l).
Proof.
  intros H. destruct (unionr f l) as [K|c ee] eqn:E; [exact I|].
  apply unionr_err in E as [a [Ha E]]. specialize (H a Ha). now rewrite E in H.
Qed.
Lemma nefail_noee A (r : res A) : nefail r -> noee r.
Proof. destruct r as [a|c ee]; cbn; [auto|]. intros [-> _]. exact I. Qed.

Lemma refs_app a b : refs (a ++ b) = refs a ++ refs b.
Proof. unfold refs. apply flat_map_app. Qed.

Lemma subst_found o : forall s v',
  subst o s = ROk v' ->
  exists r, v' = JStr r /\
    forall k, In k (refs s) -> exists v sv, lookup k (JObj o) = Found v /\ to_str v = Some sv /\ incl (refs sv) (refs r).
Proof.
  induction s as [|t s IH]; intros v' H.
  - inversion H; subst. exists []. split; [reflexivity|]. intros k [].
  - assert (Hlit : forall t0, refs (t0 :: s) = refs s ->
              match subst o s with ROk (JStr r) => ROk (JStr (t0 :: r)) | e => e end = ROk v' ->
              refs [t0] = [] ->
              exists r, v' = JStr r /\ forall k, In k (refs (t0 :: s)) ->
                exists v sv, lookup k (JObj o) = Found v /\ to_str v = Some sv /\ incl (refs sv) (refs r)).
    { intros t0 Hr H0 Ht0. destruct (subst o s) as [w| | | |] eqn:Es; try discriminate.
      destruct (IH w eq_refl) as [r [-> Hk]]. inversion H0; subst. exists (t0 :: r). split; [reflexivity|].
      intros k Hin. rewrite Hr in Hin. destruct (Hk k Hin) as [v [sv [Hl [Ht Hi]]]]. exists v, sv.
      split; [exact Hl|]. split; [exact Ht|]. change (t0 :: r) with ([t0] ++ r). rewrite refs_app, Ht0. exact Hi. }
    assert (Hone : forall k0, 
              match lookup k0 (JObj o) with
              | Found v => match to_str v with
                           | Some sv => match subst o s with ROk (JStr r) => ROk (JStr (sv ++ r)) | e => e end
                           | None => RUnmodelled end
              | Absent => RMissing k0 | TypeErr => RTypeErr end = ROk v' ->
              exists r, v' = JStr r /\
                (exists v sv, lookup k0 (JObj o) = Found v /\ to_str v = Some sv /\ incl (refs sv) (refs r)) /\
                forall k, In k (refs s) -> exists v sv, lookup k (JObj o) = Found v /\ to_str v = Some sv /\ incl (refs sv) (refs r)).
    { intros k0 H0. destruct (lookup k0 (JObj o)) as [v| |] eqn:El; try discriminate.
      destruct (to_str v) as [sv|] eqn:Et; [|discriminate].
      destruct (subst o s) as [w| | | |] eqn:Es; try discriminate.
      destruct (IH w eq_refl) as [r [-> Hk]]. inversion H0; subst. exists (sv ++ r). split; [reflexivity|]. split.
      - exists v, sv. split; [reflexivity|]. split; [exact Et|]. rewrite refs_app. apply incl_appl, incl_refl.
      - intros k Hin. destruct (Hk k Hin) as [v1 [sv1 [Hl [Ht Hi]]]]. exists v1, sv1.
        split; [exact Hl|]. split; [exact Ht|]. rewrite refs_app. now apply incl_appr. }
    destruct t as [c|k0|p| |]; cbn [subst] in H.
    + apply (Hlit (TLit c)); [reflexivity|exact H|reflexivity].
    + destruct (Hone k0 H) as [r [-> [H0 Hk]]]. exists r. split; [reflexivity|].
      intros k [<-|Hin]; [exact H0|now apply Hk].
    + destruct (Hone (par_key p) H) as [r [-> [_ Hk]]]. exists r. split; [reflexivity|]. exact Hk.
    + apply (Hlit TEscL); [reflexivity|exact H|reflexivity].
    + apply (Hlit TEscR); [reflexivity|exact H|reflexivity].
Qed.

Lemma resolve_str_cases f d s j :
  resolve (S f) d (JStr s) = ROk j ->
  (exists k v', s = [TRef k] /\ lookup k (JObj d) = Found v' /\ resolve f d v' = ROk j) \/
  (exists p, s = [TPar p]) \/
  (exists v', subst d s = ROk v' /\ resolve f d v' = ROk j) \/
  has_templ s = false.
Proof.
  rewrite resolve_str_unfold. intros H.
  assert (Hgen : (if has_templ s then match subst d s with ROk v' => resolve f d v' | e => e end
                  else ROk (JStr (unescape s))) = ROk j ->
                 (exists v', subst d s = ROk v' /\ resolve f d v' = ROk j) \/ has_templ s = false).
  { destruct (has_templ s); [|now right]. intros H0. left.
    destruct (subst d s) as [v'| | | |] eqn:Es; try discriminate H0. exists v'. split; [reflexivity|exact H0]. }
  assert (Hfin : (exists v', subst d s = ROk v' /\ resolve f d v' = ROk j) \/ has_templ s = false ->
                 (exists k v', s = [TRef k] /\ lookup k (JObj d) = Found v' /\ resolve f d v' = ROk j) \/
                 (exists p, s = [TPar p]) \/
                 (exists v', subst d s = ROk v' /\ resolve f d v' = ROk j) \/
                 has_templ s = false).
  { intros [G|G]; [right; right; left; exact G|right; right; right; exact G]. }
  destruct s as [|t s']; [exact (Hfin (Hgen H))|].
  destruct t as [c|k|p| |]; try exact (Hfin (Hgen H)).
  - destruct s' as [|t' s'']; [|exact (Hfin (Hgen H))].
    left. destruct (lookup k (JObj d)) as [v'| |] eqn:El; try discriminate. exists k, v'. auto.
  - destruct s' as [|t' s'']; [|exact (Hfin (Hgen H))].
    right; left. now exists p.
Qed.

Lemma unionr_transfer {A} (f g : A -> res (list key)) :
  (forall a L, f a = Ok L -> g a = Ok L) -> forall l L, unionr f l = Ok L -> unionr g l = Ok L.
Proof.
  intros H. induction l as [|a l IHl]; intros L Hl; [exact Hl|].
  cbn [unionr] in *. apply bindr_ok in Hl as [x [Hx Hl]]. apply bindr_ok in Hl as [y [Hy Hl]].
  now rewrite (H a x Hx), (IHl y Hy).
Qed.

Section Refs.
  Variable o : dict.

  Lemma noee_unionM_refs m l :
    (forall k, In k l -> noee (rs (ref_keys unit m true o k))) ->
    noee (rs (unionM unit (fun k' => ref_keys unit m true o k') l)).
  Proof.
    intros H. rewrite (rs_unionM_ext _ _ (fun k' => rs (ref_keys unit m true o k'))) by reflexivity.
    now apply noee_unionr.
  Qed.

  Theorem resolved_refs_present n : forall s j,
    resolve n o (JStr s) = ROk j ->
    forall m k, In k (refs s) -> noee (rs (ref_keys unit m true o k)).
  Proof.
    induction n as [|f IH]; intros s j H m k Hk; [discriminate|].
    destruct m as [|m]; [exact I|]. rewrite rs_ref_keys_S.
    destruct (resolve_str_cases f o s j H) as [[k0 [v' [-> [Hl Hr]]]]|[[p ->]|[[v' [Hs Hr]]|Hp]]].
    - destruct Hk as [<-|[]]. rewrite Hl. destruct v'; try exact I. destruct (has_par s); [exact I|].
      apply noee_bind; [|intros; exact I]. apply noee_unionM_refs. intros k' Hk'. apply (IH s j Hr m k' Hk').
    - destruct Hk.
    - destruct (subst_found o s v' Hs) as [r [-> Hfound]]. destruct (Hfound k Hk) as [v [sv [Hl [Ht Hi]]]].
      rewrite Hl. destruct v; try exact I. cbn in Ht. inversion Ht; subst. destruct (has_par sv); [exact I|].
      apply noee_bind; [|intros; exact I]. apply noee_unionM_refs. intros k' Hk'. apply (IH r j Hr m k'). now apply Hi.
    - exfalso. clear -Hk Hp. unfold has_templ in Hp. unfold refs in Hk. apply in_flat_map in Hk as [t [Ht Hk]].
      assert (is_templ t = true) by (destruct t; try destruct Hk; reflexivity).
      assert (existsb is_templ s = true) by (apply existsb_exists; now exists t). congruence.
  Qed.

  (** where strict key inspection succeeds, the lenient one returns the same list *)
  Lemma ref_keys_strict_ok f : forall k L,
    rs (ref_keys unit f true o k) = Ok L -> rs (ref_keys unit f false o k) = Ok L.
  Proof.
    induction f as [|f IH]; intros k L; [discriminate|]. rewrite !rs_ref_keys_S.
    destruct (lookup k (JObj o)) as [raw| |]; [|discriminate|discriminate].
    destruct raw; try (intros H; exact H). destruct (has_par s); [discriminate|].
    rewrite (rs_unionM_ext _ _ (fun k' => rs (ref_keys unit f true o k'))) by reflexivity.
    rewrite (rs_unionM_ext _ _ (fun k' => rs (ref_keys unit f false o k'))) by reflexivity.
    intros H. apply bindr_ok in H as [l0 [Hl H]].
    now rewrite (unionr_transfer _ _ (IH) (refs s) l0 Hl).
  Qed.
End Refs.

From LV Require Import Proofs.TemplateFrame.

(** ** Part B': a templated value that resolves, in a dictionary that uses no name of the range the
    model reserves for Template parameters ([no_par]), has no parameter token, and strict key
    inspection of it SUCCEEDS (every reference, transitively, is present and inspectable). *)
Lemma no_par_lookup o p : no_par o = true -> forall v, lookup (par_key p) (JObj o) <> Found v.
Proof.
  intros H v. unfold par_key. cbn [lookup]. rewrite (no_par_dget o (par_base + p) H) by lia. discriminate.
Qed.

Lemma subst_tokens o : forall s v',
  subst o s = ROk v' ->
  exists r, v' = JStr r /\
    (forall k, In k (refs s) -> exists v sv, lookup k (JObj o) = Found v /\ to_str v = Some sv /\ incl sv r) /\
    (forall p, In p (pars s) -> exists v, lookup (par_key p) (JObj o) = Found v).
Proof.
  induction s as [|t s IH]; intros v' H.
  - inversion H; subst. exists []. split; [reflexivity|]. split; intros ? [].
  - assert (Hlit : forall t0, refs [t0] = [] -> pars [t0] = [] ->
              match subst o s with ROk (JStr r) => ROk (JStr (t0 :: r)) | e => e end = ROk v' ->
              exists r, v' = JStr r /\
                (forall k, In k (refs (t0 :: s)) -> exists v sv, lookup k (JObj o) = Found v /\ to_str v = Some sv /\ incl sv r) /\
                (forall p, In p (pars (t0 :: s)) -> exists v, lookup (par_key p) (JObj o) = Found v)).
    { intros t0 Hr Hp H0. destruct (subst o s) as [w| | | |] eqn:Es; try discriminate.
      destruct (IH w eq_refl) as [r [-> [Hk Hq]]]. inversion H0; subst. exists (t0 :: r). split; [reflexivity|]. split.
      - intros k Hin. change (t0 :: s) with ([t0] ++ s) in Hin. rewrite refs_app, Hr in Hin.
        destruct (Hk k Hin) as [v [sv [Hl [Ht Hi]]]]. exists v, sv. split; [exact Hl|]. split; [exact Ht|now apply incl_tl].
      - intros p Hin. change (t0 :: s) with ([t0] ++ s) in Hin. unfold pars in Hin. rewrite flat_map_app in Hin.
        fold (pars [t0]) in Hin. rewrite Hp in Hin. apply (Hq p Hin). }
    assert (Hone : forall k0,
              match lookup k0 (JObj o) with
              | Found v => match to_str v with
                           | Some sv => match subst o s with ROk (JStr r) => ROk (JStr (sv ++ r)) | e => e end
                           | None => RUnmodelled end
              | Absent => RMissing k0 | TypeErr => RTypeErr end = ROk v' ->
              exists r, v' = JStr r /\
                (exists v sv, lookup k0 (JObj o) = Found v /\ to_str v = Some sv /\ incl sv r) /\
                (forall k, In k (refs s) -> exists v sv, lookup k (JObj o) = Found v /\ to_str v = Some sv /\ incl sv r) /\
                (forall p, In p (pars s) -> exists v, lookup (par_key p) (JObj o) = Found v)).
    { intros k0 H0. destruct (lookup k0 (JObj o)) as [v| |] eqn:El; try discriminate.
      destruct (to_str v) as [sv|] eqn:Et; [|discriminate].
      destruct (subst o s) as [w| | | |] eqn:Es; try discriminate.
      destruct (IH w eq_refl) as [r [-> [Hk Hq]]]. inversion H0; subst. exists (sv ++ r). split; [reflexivity|]. split; [|split].
      - exists v, sv. split; [reflexivity|]. split; [exact Et|apply incl_appl, incl_refl].
      - intros k Hin. destruct (Hk k Hin) as [v1 [sv1 [Hl [Ht Hi]]]]. exists v1, sv1.
        split; [exact Hl|]. split; [exact Ht|now apply incl_appr].
      - exact Hq. }
    destruct t as [c|k0|p| |]; cbn [subst] in H.
    + apply (Hlit (TLit c)); [reflexivity|reflexivity|exact H].
    + destruct (Hone k0 H) as [r [-> [H0 [Hk Hq]]]]. exists r. split; [reflexivity|]. split; [|exact Hq].
      intros k [<-|Hin]; [exact H0|now apply Hk].
    + destruct (Hone (par_key p) H) as [r [-> [[v [sv [Hl _]]] [Hk Hq]]]]. exists r. split; [reflexivity|]. split; [exact Hk|].
      intros q [<-|Hin]; [now exists v|now apply Hq].
    + apply (Hlit TEscL); [reflexivity|reflexivity|exact H].
    + apply (Hlit TEscR); [reflexivity|reflexivity|exact H].
Qed.

Lemma has_par_pars s : has_par s = true -> exists p, In p (pars s) /\ In (TPar p) s.
Proof.
  unfold has_par, pars. induction s as [|t s IH]; [discriminate|]. cbn [existsb flat_map].
  destruct t; cbn; try (intros H; destruct (IH H) as [q [H1 H2]]; exists q; split; [exact H1|now right]).
  intros _. exists p. split; now left.
Qed.
Lemma has_par_incl s r : incl s r -> has_par s = true -> has_par r = true.
Proof.
  intros Hi H. destruct (has_par_pars s H) as [p [_ Hp]]. unfold has_par. apply existsb_exists. exists (TPar p). split; [now apply Hi|reflexivity].
Qed.
Lemma refs_incl s r : incl s r -> incl (refs s) (refs r).
Proof.
  intros Hi k Hk. unfold refs in *. apply in_flat_map in Hk as [t [Ht Hk]]. apply in_flat_map. exists t. split; [now apply Hi|exact Hk].
Qed.

Section NoPar.
  Variable o : dict.
  Hypothesis Hnp : no_par o = true.

  Lemma resolved_no_par n s j : resolve n o (JStr s) = ROk j -> has_par s = false.
  Proof.
    intros H. destruct (has_par s) eqn:Hp; [|reflexivity]. exfalso.
    destruct (has_par_pars s Hp) as [p [Hin Hin']]. destruct n as [|f]; [discriminate|].
    destruct (resolve_str_cases f o s j H) as [[k0 [v' [-> _]]]|[[p' ->]|[[v' [Hs _]]|Ht]]].
    - destruct Hin' as [E|[]]; discriminate E.
    - rewrite resolve_str_unfold in H. destruct (lookup (par_key p') (JObj o)) as [v| |] eqn:El; try discriminate.
      apply (no_par_lookup o p' Hnp v El).
    - destruct (subst_tokens o s v' Hs) as [r [_ [_ Hq]]]. destruct (Hq p Hin) as [v Hv]. apply (no_par_lookup o p Hnp v Hv).
    - unfold has_templ in Ht. assert (Hex : existsb is_templ s = true) by (apply existsb_exists; exists (TPar p); split; [exact Hin'|reflexivity]).
      rewrite Hex in Ht. discriminate Ht.
  Qed.

  Theorem resolved_refs_inspectable n : forall s j,
    resolve n o (JStr s) = ROk j -> forall k, In k (refs s) -> exists L, rs (ref_keys unit n true o k) = Ok L.
  Proof.
    induction n as [|f IH]; intros s j H k Hk; [discriminate|]. rewrite rs_ref_keys_S.
    assert (Hall : forall s' j', resolve f o (JStr s') = ROk j' ->
              exists L, (if has_par s' then Err CUnmodelled false
                         else bindr (rs (unionM unit (fun k' => ref_keys unit f true o k') (refs s'))) (fun l => Ok (k :: l))) = Ok L).
    { intros s' j' Hr. rewrite (resolved_no_par f s' j' Hr).
      rewrite (rs_unionM_ext _ _ (fun k' => rs (ref_keys unit f true o k'))) by reflexivity.
      destruct (unionr_all_ok (fun k' => rs (ref_keys unit f true o k')) (refs s')) as [L HL]; [|rewrite HL; now eexists].
      intros k' Hk'. apply (IH s' j' Hr k' Hk'). }
    destruct (resolve_str_cases f o s j H) as [[k0 [v' [-> [Hl Hr]]]]|[[p ->]|[[v' [Hs Hr]]|Hp]]].
    - destruct Hk as [<-|[]]. rewrite Hl. destruct v'; try (now eexists). apply (Hall s j Hr).
    - destruct Hk.
    - destruct (subst_tokens o s v' Hs) as [r [-> [Hfound _]]]. destruct (Hfound k Hk) as [v [sv [Hl [Ht Hi]]]].
      rewrite Hl. destruct v; try (now eexists). cbn in Ht. inversion Ht; subst sv.
      assert (Hnpar : has_par s0 = false).
      { destruct (has_par s0) eqn:E; [|reflexivity]. pose proof (has_par_incl s0 r Hi E) as E1.
        pose proof (resolved_no_par f r j Hr) as E2. congruence. }
      rewrite Hnpar. rewrite (rs_unionM_ext _ _ (fun k' => rs (ref_keys unit f true o k'))) by reflexivity.
      destruct (unionr_all_ok (fun k' => rs (ref_keys unit f true o k')) (refs s0)) as [L HL]; [|rewrite HL; now eexists].
      intros k' Hk'. apply (IH r j Hr k'). now apply (refs_incl s0 r Hi).
    - exfalso. clear -Hk Hp. unfold has_templ in Hp. unfold refs in Hk. apply in_flat_map in Hk as [t [Ht Hk]].
      assert (is_templ t = true) by (destruct t; try destruct Hk; reflexivity).
      assert (existsb is_templ s = true) by (apply existsb_exists; now exists t). congruence.
  Qed.

  Lemma resolved_keys_ok rfuel s j : resolve rfuel o (JStr s) = ROk j ->
    has_par s = false /\ exists L, refsr rfuel true o s = Ok L.
  Proof.
    intros H. split; [apply (resolved_no_par rfuel s j H)|]. unfold refsr.
    rewrite (rs_unionM_ext _ _ (fun k' => rs (ref_keys unit rfuel true o k'))) by reflexivity.
    apply unionr_all_ok. intros k Hk. apply (resolved_refs_inspectable rfuel s j H k Hk).
  Qed.
End NoPar.

(** ** Part C: explain() covers keys().  Fragment [pC] (no bare lazy iterable, no Template, no
    Map), all dictionaries (templated values, pre-set dictionaries, scalar parents included), all
    user code that does not fabricate deferred failures. *)
Lemma noee_app2 x y : noee x -> noee y -> noee (app2 x y).
Proof. intros Hx Hy. unfold app2. apply noee_bind; [exact Hx|]. intros a _. apply noee_bind; [exact Hy|]. intros; exact I. Qed.
Lemma app2_ok x y L : app2 x y = Ok L -> exists a b, x = Ok a /\ y = Ok b /\ L = a ++ b.
Proof.
  unfold app2. intros H. apply bindr_ok in H as [a [Ha H]]. apply bindr_ok in H as [b [Hb H]].
  inversion H; subst. now exists a, b.
Qed.
Lemma catchr_insuff_ok A (r : res A) a : catchr r insuffh = Ok a -> r = Ok a.
Proof.
  intros H. apply catchr_ok in H as [H|[c [ee [_ [_ H]]]]]; [exact H|]. unfold insuffh in H. destruct ee; discriminate.
Qed.
Lemma noee_catch_insuff A (r : res A) : noee r -> noee (catchr r insuffh).
Proof.
  destruct r as [a|c ee]; cbn [catchr noee]; [auto|]. destruct ee; [intros []|]. intros _.
  destruct (unmodb c); exact I.
Qed.
Lemma incl_unionr {A} (f g : A -> res (list key)) l :
  (forall a, In a l -> forall Ka Xa, f a = Ok Ka -> g a = Ok Xa -> incl Ka Xa) ->
  forall Ks Xs, unionr f l = Ok Ks -> unionr g l = Ok Xs -> incl Ks Xs.
Proof.
  induction l as [|a l IH]; intros H Ks Xs HK HX.
  - inversion HK; subst. apply incl_nil_l.
  - cbn [unionr] in *. apply bindr_ok in HK as [x [Hx HK]]. apply bindr_ok in HK as [y [Hy HK]].
    apply bindr_ok in HX as [x' [Hx' HX]]. apply bindr_ok in HX as [y' [Hy' HX]].
    inversion HK; inversion HX; subst. apply incl_app.
    + apply incl_appl. apply (H a (or_introl eq_refl) x x' Hx Hx').
    + apply incl_appr. apply (IH (fun b Hb => H b (or_intror Hb)) y y' Hy Hy').
Qed.
Lemma unionr_ok_all {A} (f : A -> res (list key)) l L : unionr f l = Ok L -> forall a, In a l -> exists La, f a = Ok La.
Proof. intros H a Ha. destruct (unionr_ok f l L H a Ha) as [La [E _]]. now exists La. Qed.

Lemma filter_preset_spec f p o mixed l : forall A,
  rs (filter_preset unit f p o mixed l) = Ok A ->
  forall k, In k A <-> In k l /\ preset_drops f p o mixed k = Some false.
Proof.
  induction l as [|a l IH]; intros A H k.
  - inversion H; subst. split; [intros []|intros [[] _]].
  - rewrite rs_filter_preset_cons in H. destruct (preset_drops f p o mixed a) as [b|] eqn:Ea; [|discriminate].
    apply bindr_ok in H as [r [Hr H]]. inversion H; subst. specialize (IH r Hr k). destruct b.
    + rewrite IH. split; [intros [Hin Hd]; split; [now right|exact Hd]|].
      intros [[<-|Hin] Hd]; [congruence|now split].
    + cbn [In]. rewrite IH. split.
      * intros [<-|[Hin Hd]]; [split; [now left|exact Ea]|split; [now right|exact Hd]].
      * intros [[<-|Hin] Hd]; [now left|right; now split].
Qed.
Lemma filtr_incl f p o L L' Ks Xs :
  incl L L' -> filtr f p o (Ok L) = Ok Ks -> filtr f p o (Ok L') = Ok Xs -> incl Ks Xs.
Proof.
  unfold filtr. cbn [bindr]. intros Hi HK HX k Hk.
  apply (filter_preset_spec _ _ _ _ _ _ HK) in Hk as [Hin Hd].
  apply (filter_preset_spec _ _ _ _ _ _ HX). split; [now apply Hi|exact Hd].
Qed.
Lemma noee_filtr f p o r : noee r -> noee (filtr f p o r).
Proof. intros H. apply noee_bind; [exact H|]. intros l _. apply nefail_noee, filter_preset_nefail. Qed.
Lemma call_body_app2 f args kwargs g :
  call_body f args kwargs g = app2 (g f) (app2 (unionr g args) (unionr g kwargs)).
Proof.
  unfold call_body, app2. destruct (g f); cbn [bindr]; [|reflexivity].
  destruct (unionr g args); cbn [bindr]; [|reflexivity]. destruct (unionr g kwargs); reflexivity.
Qed.
Lemma dispr_some r hd k : dispr r hd = Ok (Some k) -> r = Ok k.
Proof.
  unfold dispr. destruct r as [v|c ee]; cbn [bindr catchr]; [intros H; now inversion H|].
  destruct (unmodb c); [discriminate|]. destruct (ee && hd); discriminate.
Qed.

Section Super.
  Variable u : N -> list value -> cres.
  Variable rfuel : nat.
  Hypothesis Hclean : clean_u u.
  Notation ev := (eval unit nc_find nc_store cfg_nc u rfuel (fun _ _ => true)).
  Notation va := (validate unit nc_find nc_store cfg_nc u rfuel (fun _ _ => true)).
  Notation ks := (keys unit nc_find nc_store cfg_nc u rfuel (fun _ _ => true)).
  Notation ex := (explain unit nc_find nc_store cfg_nc u rfuel (fun _ _ => true)).
  Local Notation E e o := (rs (ev e o)) (only parsing).
  Local Notation V e o := (rs (va e o)) (only parsing).
  Local Notation K e o := (rs (ks e o)) (only parsing).
  Local Notation X e o := (rs (ex e o)) (only parsing).
  Notation cleanQ := (cleanQ u rfuel).

  (** neither keys() nor explain() fails with an EvaluationError *)
  Definition NK (e : expr) (o : dict) : Prop := noee (K e o) /\ noee (X e o).

  Lemma nk_value v o : NK (EValue v) o. Proof. split; exact I. Qed.

  Lemma refsr_strict_noee o s j : resolve rfuel o (JStr s) = ROk j -> noee (refsr rfuel true o s).
  Proof.
    intros H. unfold refsr. apply noee_unionM_refs. intros k Hk. apply (resolved_refs_present o rfuel s j H rfuel k Hk).
  Qed.

  Lemma nk_option k dflt dom o :
    (forall raw, lookup k (JObj o) = Found raw -> exists j, resolve rfuel o raw = ROk j) ->
    (lookup k (JObj o) = Absent -> exists d, dflt = Some d /\ NK d o) ->
    NK (EOption k dflt dom) o.
  Proof.
    intros Hf Ha. unfold NK. rewrite K_option, X_option.
    destruct (lookup k (JObj o)) as [raw| |].
    - destruct (Hf raw eq_refl) as [j Hj]. destruct raw; try (split; exact I).
      destruct (has_par s); [split; exact I|]. split.
      + apply noee_bind; [apply (refsr_strict_noee o s j Hj)|intros; exact I].
      + apply noee_bind; [apply nefail_noee, refsr_lenient|intros; exact I].
    - destruct (Ha eq_refl) as [d [-> Hd]]. exact Hd.
    - split; exact I.
  Qed.

  Lemma nk_apply a b o : NK a o -> NK b o -> NK (EApply a b) o.
  Proof. intros [Ha Ha'] [Hb Hb']. unfold NK. rewrite K_apply, X_apply. split; now apply noee_app2. Qed.

  Lemma nk_iter es o : (forall x, In x es -> NK x o) -> NK (EIter es) o.
  Proof.
    intros H. unfold NK. rewrite K_iter, X_iter. split; apply noee_unionr; intros x Hx; apply (H x Hx).
  Qed.

  Definition nk_branch (tbl : list (value * expr)) (dflt : option expr) (o : dict) (x : value) (nodefault : Prop) : Prop :=
    match assoc_v x tbl with
    | Some b => NK b o
    | None => match dflt with Some d => NK d o | None => nodefault end
    end.

  Lemma nk_bind src tbl dflt o x :
    NK src o -> E src o = Ok x -> nk_branch tbl dflt o x True -> NK (EBind src tbl dflt) o.
  Proof.
    intros [Hs Hs'] Hx Hb. unfold NK. rewrite K_bind, X_bind. unfold bind_body. rewrite Hx. cbn [bindr].
    unfold nk_branch, pickr in *.
    assert (G : forall g : expr -> res (list key),
              (forall y, NK y o -> noee (g y)) -> noee (g src) ->
              noee (bindr (g src) (fun a => bindr (match assoc_v x tbl with Some b => g b | None => dfltr dflt g (CUser 0) false end)
                                               (fun b => Ok (a ++ b))))).
    { intros g Hg Hgs. apply noee_bind; [exact Hgs|]. intros a _. apply noee_bind; [|intros; exact I].
      destruct (assoc_v x tbl) as [b|]; [now apply Hg|]. destruct dflt as [d|]; cbn [dfltr]; [now apply Hg|exact I]. }
    split.
    - apply (G (fun y => K y o)); [intros y Hy; apply Hy|exact Hs].
    - apply noee_catch_insuff. apply (G (fun y => X y o)); [intros y Hy; apply Hy|exact Hs'].
  Qed.

  Lemma nk_switch disp tbl dflt o dv :
    dispr (E disp o) (is_some dflt) = Ok dv ->
    match dv with
    | None => match dflt with Some d => NK d o | None => True end
    | Some k => hashable k = true -> NK disp o /\ nk_branch tbl dflt o k False
    end ->
    NK (ESwitch disp tbl dflt) o.
  Proof.
    intros Hdv H. unfold NK. rewrite K_switch, X_switch, Hdv. cbn [catchr bindr].
    destruct dv as [k|]; cbn [switch_keys].
    - destruct (hashable k) eqn:Hh; cbn [negb]; [|split; exact I]. destruct (H eq_refl) as [[Hd Hd'] Hb].
      unfold nk_branch, pickr in *. destruct (assoc_v k tbl) as [b|].
      + split; apply noee_app2; try apply Hb; assumption.
      + destruct dflt as [d|]; [|destruct Hb]. cbn [dfltr]. split; apply noee_app2; try apply Hb; assumption.
    - destruct dflt as [d|]; cbn [dfltr]; [exact H|split; exact I].
  Qed.

  Lemma nk_case disp cases dflt o x s :
    NK disp o -> E disp o = Ok x -> case_sel u rfuel x o cases = Ok s ->
    match s with Some r => NK r o | None => match dflt with Some d => NK d o | None => False end end ->
    NK (ECase disp cases dflt) o.
  Proof.
    intros [Hd Hd'] Hx Hs H. unfold NK. rewrite K_case, X_case. unfold case_body. rewrite Hx. cbn [bindr]. rewrite Hs. cbn [bindr].
    assert (G : forall g : expr -> res (list key), (forall y, NK y o -> noee (g y)) -> noee (g disp) ->
              noee (bindr (g disp) (fun a => bindr (case_res s dflt g) (fun b => Ok (a ++ b))))).
    { intros g Hg Hgd. apply noee_bind; [exact Hgd|]. intros a _. apply noee_bind; [|intros; exact I].
      destruct s as [r|]; cbn [case_res]; [now apply Hg|]. destruct dflt as [d|]; [now apply Hg|destruct H]. }
    split.
    - apply (G (fun y => K y o)); [intros y Hy; apply Hy|exact Hd].
    - apply noee_catch_insuff. apply (G (fun y => X y o)); [intros y Hy; apply Hy|exact Hd'].
  Qed.

  Lemma coal_noee {A B} (act : expr -> res A) (g : expr -> res B) o ms :
    (forall m, In m ms -> V m o = Ok tt -> noee (g m)) ->
    forall last a, coalr (fun m => V m o) act ms last = Ok a -> noee (coalr (fun m => V m o) g ms last).
  Proof.
    induction ms as [|m ms IH]; intros H last a Ha.
    - destruct last as [[c ee]|]; discriminate.
    - cbn [coalr] in *. destruct (V m o) as [[]|c ee] eqn:Ev; cbn [bindr] in *.
      + pose proof (H m (or_introl eq_refl) Ev) as Hg. destruct (g m) as [b|c [|]]; cbn [catchr]; [exact I|destruct Hg|].
        destruct (unmodb c); exact I.
      + cbn [catchr] in *. destruct (unmodb c); [discriminate|]. destruct ee; [|discriminate].
        apply (IH (fun m' Hm' => H m' (or_intror Hm')) _ a Ha).
  Qed.

  Lemma nk_coalesce {A} (act : expr -> res A) ms o a :
    (forall m, In m ms -> V m o = Ok tt -> NK m o) ->
    coalr (fun m => V m o) act ms None = Ok a -> NK (ECoalesce ms) o.
  Proof.
    intros H Ha. unfold NK. rewrite K_coalesce, X_coalesce. split.
    - apply (coal_noee act (fun m => K m o) o ms (fun m Hm Hv => proj1 (H m Hm Hv)) None a Ha).
    - pose proof (coal_noee act (fun m => X m o) o ms (fun m Hm Hv => proj2 (H m Hm Hv)) None a Ha) as N.
      destruct (coalr (fun m => rs (va m o)) (fun m => rs (ex m o)) ms None) as [b|c [|]]; cbn [catchr]; [exact I|destruct N|]. destruct (unmodb c); exact I.
  Qed.

  Lemma nk_with f p e o : NK e (with_opts f p o) -> NK (EWith f p e) o.
  Proof. intros [H H']. unfold NK. rewrite K_with, X_with. split; now apply noee_filtr. Qed.
  Lemma nk_cached c e o : NK e o -> NK (ECached c e) o.
  Proof. intros H. unfold NK. rewrite K_cached, X_cached. exact H. Qed.
  Lemma nk_logged e o : NK e o -> NK (ELogged e) o.
  Proof. intros H. unfold NK. rewrite K_logged, X_logged. exact H. Qed.
  Lemma nk_call pa f args kwargs o :
    NK f o -> (forall x, In x args -> NK x o) -> (forall x, In x kwargs -> NK x o) -> NK (ECall pa f args kwargs) o.
  Proof.
    intros [Hf Hf'] Ha Hk. unfold NK. rewrite K_call, X_call, !call_body_app2.
    split; apply noee_app2; try assumption; apply noee_app2; apply noee_unionr; intros x Hx;
      try apply (Ha x Hx); apply (Hk x Hx).
  Qed.
  Lemma nk_comp e effs o :
    NK e o -> (effects_opt_off o = false -> forall x, In x effs -> NK x o) -> NK (EComp e effs) o.
  Proof.
    intros [He He'] Hf. unfold NK. rewrite K_comp, X_comp. split; [exact He|].
    apply noee_bind; [exact He'|]. intros a _. destruct (effects_opt_off o); [exact I|].
    apply noee_bind; [|intros; exact I]. apply noee_unionr. intros x Hx. apply (Hf eq_refl x Hx).
  Qed.
  Lemma nk_pipe steps o : (forall x, In x steps -> NK x o) -> NK (EPipe steps) o.
  Proof. intros H. unfold NK. rewrite K_pipe, X_pipe. split; apply noee_unionr; intros x Hx; apply (H x Hx). Qed.
  Lemma nk_all o : NK EAllOptions o. Proof. split; exact I. Qed.

  (** *** the invariant *)
  Definition pv (e : expr) (o : dict) : Prop := V e o = Ok tt -> NK e o.
  Definition pe (e : expr) (o : dict) : Prop := forall v, E e o = Ok v -> NK e o.
  Definition ps (e : expr) (o : dict) : Prop := forall Ks Xs, K e o = Ok Ks -> X e o = Ok Xs -> incl Ks Xs.
  Definition superQ (e : expr) : Prop := cleanQ e /\ forall o, pv e o /\ pe e o /\ ps e o.

  Lemma of_rres_ok r j : rs (of_rres unit r) = Ok j -> r = ROk j.
  Proof. destruct r; cbn; intros H; try discriminate. now inversion H. Qed.

  Lemma Forall_proj1 {A} (P Q : A -> Prop) l : Forall (fun a => P a /\ Q a) l -> Forall P l.
  Proof. intros H. eapply Forall_impl; [|exact H]. now intros a [Ha _]. Qed.

  Lemma sup_value v : vclean v = true -> superQ (EValue v).
  Proof.
    intros Hc. split; [now apply clean_value|]. intros o. split; [intros _; apply nk_value|].
    split; [intros w _; apply nk_value|]. intros Ks Xs HK _. rewrite K_value in HK. inversion HK. apply incl_nil_l.
  Qed.

  Lemma sup_option k dflt dom : Popt superQ dflt -> superQ (EOption k dflt dom).
  Proof.
    intros Hd. split.
    { apply clean_option. destruct dflt; [apply Hd|exact I]. }
    intros o.
    assert (Pe : pe (EOption k dflt dom) o).
    { intros v H. rewrite rs_ev_option in H. apply (proj1 (wrapr_ok _ _ _)) in H. rewrite rs_option_eval in H.
      destruct (lookup k (JObj o)) as [raw| |] eqn:El; [| |discriminate].
      - apply bindr_ok in H as [j [Hj _]]. apply of_rres_ok in Hj.
        apply nk_option; rewrite El; [intros raw' E'; inversion E'; subst; now exists j|discriminate].
      - destruct dflt as [d|]; [|discriminate]. apply bindr_ok in H as [w [Hw _]].
        apply nk_option; rewrite El; [discriminate|]. intros _. exists d. split; [reflexivity|].
        apply (proj1 (proj2 (proj2 Hd o)) w Hw). }
    split; [|split; [exact Pe|]].
    - intros H. rewrite rs_va_option in H. destruct (lookup k (JObj o)) as [raw| |] eqn:El; [| |discriminate].
      + apply bindr_ok in H as [v [Hv _]]. apply (Pe v Hv).
      + destruct dflt as [d|]; [|discriminate]. apply nk_option; rewrite El; [discriminate|]. intros _.
        exists d. split; [reflexivity|]. apply (proj1 (proj2 Hd o) H).
    - intros Ks Xs HK HX. rewrite K_option in HK. rewrite X_option in HX.
      destruct (lookup k (JObj o)) as [raw| |]; [| |discriminate].
      + destruct raw; try (inversion HK; inversion HX; subst; apply incl_refl).
        destruct (has_par s); [discriminate|]. apply bindr_ok in HK as [l [Hl HK]]. apply bindr_ok in HX as [l' [Hl' HX]].
        inversion HK; inversion HX; subst. unfold refsr in *.
        rewrite (rs_unionM_ext _ _ (fun k' => rs (ref_keys unit rfuel true o k'))) in Hl by reflexivity.
        rewrite (rs_unionM_ext _ _ (fun k' => rs (ref_keys unit rfuel false o k'))) in Hl' by reflexivity.
        rewrite (unionr_transfer _ _ (ref_keys_strict_ok o rfuel) _ _ Hl) in Hl'. inversion Hl'. apply incl_refl.
      + destruct dflt as [d|]; [|discriminate]. apply (proj2 (proj2 (proj2 Hd o)) Ks Xs HK HX).
  Qed.

  Lemma sup_apply a b : superQ a -> superQ b -> superQ (EApply a b).
  Proof.
    intros [Ca Ha] [Cb Hb]. split; [now apply clean_apply|]. intros o.
    destruct (Ha o) as [Va [Ea Sa]]. destruct (Hb o) as [Vb [Eb Sb]]. split; [|split].
    - intros H. rewrite V_apply in H. apply bindr_ok in H as [[] [H1 H2]]. apply nk_apply; auto.
    - intros v H. rewrite E_apply in H. apply (proj1 (wrapr_ok _ _ _)) in H.
      apply bindr_ok in H as [x [Hx H]]. apply bindr_ok in H as [f [Hf _]]. apply nk_apply; eauto.
    - intros Ks Xs HK HX. rewrite K_apply in HK. rewrite X_apply in HX.
      apply app2_ok in HK as [k1 [k2 [H1 [H2 ->]]]]. apply app2_ok in HX as [x1 [x2 [H3 [H4 ->]]]].
      apply incl_app; [apply incl_appl|apply incl_appr]; auto.
  Qed.

  Lemma sup_forced es b : b = B_LIST \/ b = B_TUPLE -> Forall superQ es -> superQ (EApply (EIter es) (EValue (VF b [] []))).
  Proof.
    intros Hb HQ. pose proof (Forall_proj1 _ _ _ HQ) as HC. split; [now apply clean_forced|]. intros o.
    rewrite Forall_forall in HQ.
    assert (G : (forall x, In x es -> NK x o) -> NK (EApply (EIter es) (EValue (VF b [] []))) o).
    { intros H. apply nk_apply; [now apply nk_iter|apply nk_value]. }
    split; [|split].
    - intros H. rewrite V_apply, V_iter in H. apply bindr_ok in H as [[] [H _]]. apply G. intros x Hx.
      apply (proj1 (proj2 (HQ x Hx) o)). apply (proj1 (iterr_ok _ _) H x Hx).
    - intros v H. destruct (forced_inv u rfuel es b o v Hb HC H) as [_ Hall]. apply G. intros x Hx.
      destruct (Hall x Hx) as [vx Hvx]. apply (proj1 (proj2 (proj2 (HQ x Hx) o)) vx Hvx).
    - intros Ks Xs HK HX. rewrite K_apply, K_iter, K_value in HK. rewrite X_apply, X_iter, X_value in HX.
      apply app2_ok in HK as [k1 [k2 [H1 [H2 ->]]]]. apply app2_ok in HX as [x1 [x2 [H3 [H4 ->]]]].
      inversion H2; inversion H4; subst. rewrite !app_nil_r.
      apply (incl_unionr _ _ es (fun x Hx => proj2 (proj2 (proj2 (HQ x Hx) o))) k1 x1 H1 H3).
  Qed.

  Lemma branch_inv {A} x tbl dflt (g : expr -> res A) c ee a :
    pickr x tbl g (dfltr dflt g c ee) = Ok a ->
    exists b, g b = Ok a /\ ((exists w, assoc_v x tbl = Some b /\ In (w, b) tbl) \/ (assoc_v x tbl = None /\ dflt = Some b)).
  Proof.
    unfold pickr. destruct (assoc_v x tbl) as [b|] eqn:Ea.
    - intros H. exists b. split; [exact H|]. left. destruct (assoc_v_In _ _ _ Ea) as [w Hw]. now exists w.
    - destruct dflt as [d|]; cbn [dfltr]; [|discriminate]. intros H. exists d. split; [exact H|]. now right.
  Qed.

  Lemma sup_bind src tbl dflt :
    superQ src -> Forall (fun ve => superQ (snd ve)) tbl -> Popt superQ dflt -> superQ (EBind src tbl dflt).
  Proof.
    intros [Cs Hs] Ht Hd. split.
    { apply clean_bind; [eapply Forall_impl; [|exact Ht]; now intros a [Ha _]|destruct dflt; [apply Hd|exact I]]. }
    intros o. destruct (Hs o) as [Vs [Es Ss]].
    assert (Hsub : forall b, (exists w, In (w, b) tbl) \/ dflt = Some b -> superQ b).
    { intros b [[w Hw]| ->]; [apply (Forall_snd_In superQ tbl w b Ht Hw)|exact Hd]. }
    assert (Hbr : forall (A : Type) (g : expr -> res A) c ee a x, pickr x tbl g (dfltr dflt g c ee) = Ok a ->
              (forall b, superQ b -> g b = Ok a -> NK b o) -> nk_branch tbl dflt o x True).
    { intros A g c ee a x H Hg. destruct (branch_inv _ _ _ _ _ _ _ H) as [b [Hb [[w [Ea Hin]]|[Ea Ed]]]];
        unfold nk_branch; rewrite Ea.
      - apply Hg; [apply Hsub; left; now exists w|exact Hb].
      - rewrite Ed. apply Hg; [apply Hsub; now right|exact Hb]. }
    split; [|split].
    - intros H. rewrite V_bind in H. apply bindr_ok in H as [[] [H1 H]]. apply bindr_ok in H as [x [Hx H]].
      apply (nk_bind src tbl dflt o x (Vs H1) Hx). apply (Hbr _ _ _ _ _ _ H). intros b [_ Qb] Hb. apply (proj1 (Qb o) Hb).
    - intros v H. rewrite E_bind in H. apply (proj1 (wrapr_ok _ _ _)) in H. apply bindr_ok in H as [x [Hx H]].
      apply (nk_bind src tbl dflt o x (Es x Hx) Hx). apply (Hbr _ _ _ _ _ _ H). intros b [_ Qb] Hb. apply (proj1 (proj2 (Qb o)) v Hb).
    - intros Ks Xs HK HX. rewrite K_bind in HK. rewrite X_bind in HX. apply catchr_insuff_ok in HX. unfold bind_body in *.
      apply bindr_ok in HK as [a [Ha HK]]. apply bindr_ok in HK as [x [Hx HK]]. apply bindr_ok in HK as [b [Hb HK]].
      apply bindr_ok in HX as [a' [Ha' HX]]. rewrite Hx in HX. cbn [bindr] in HX. apply bindr_ok in HX as [b' [Hb' HX]].
      inversion HK; inversion HX; subst. apply incl_app; [apply incl_appl, (Ss a a' Ha Ha')|apply incl_appr].
      destruct (branch_inv _ _ _ _ _ _ _ Hb) as [e1 [H1 [[w [Ea Hin]]|[Ea ->]]]]; unfold pickr in Hb'; rewrite Ea in Hb'.
      + apply (proj2 (proj2 (proj2 (Hsub e1 (or_introl (ex_intro _ w Hin))) o)) b b' H1 Hb').
      + cbn [dfltr] in Hb'. apply (proj2 (proj2 (proj2 (Hsub e1 (or_intror eq_refl)) o)) b b' H1 Hb').
  Qed.

  Lemma sub_super tbl dflt :
    Forall (fun ve : value * expr => superQ (snd ve)) tbl -> Popt superQ dflt ->
    forall b, (exists w, In (w, b) tbl) \/ dflt = Some b -> superQ b.
  Proof. intros Ht Hd b [[w Hw]| ->]; [apply (Forall_snd_In superQ tbl w b Ht Hw)|exact Hd]. Qed.

  Lemma branch_nk {A} tbl dflt o (g : expr -> res A) c ee a x nd :
    (forall b, (exists w, In (w, b) tbl) \/ dflt = Some b -> superQ b) ->
    pickr x tbl g (dfltr dflt g c ee) = Ok a ->
    (forall b, superQ b -> g b = Ok a -> NK b o) -> nk_branch tbl dflt o x nd.
  Proof.
    intros Hsub H Hg. destruct (branch_inv _ _ _ _ _ _ _ H) as [b [Hb [[w [Ea Hin]]|[Ea Ed]]]];
      unfold nk_branch; rewrite Ea.
    - apply Hg; [apply Hsub; left; now exists w|exact Hb].
    - rewrite Ed. apply Hg; [apply Hsub; now right|exact Hb].
  Qed.

  Lemma branch_ps tbl dflt o x c ee c' ee' b b' :
    (forall e, (exists w, In (w, e) tbl) \/ dflt = Some e -> superQ e) ->
    pickr x tbl (fun e => K e o) (dfltr dflt (fun e => K e o) c ee) = Ok b ->
    pickr x tbl (fun e => X e o) (dfltr dflt (fun e => X e o) c' ee') = Ok b' -> incl b b'.
  Proof.
    intros Hsub Hb Hb'.
    destruct (branch_inv _ _ _ _ _ _ _ Hb) as [e1 [H1 [[w [Ea Hin]]|[Ea Ed]]]]; unfold pickr in Hb'; rewrite Ea in Hb'.
    - apply (proj2 (proj2 (proj2 (Hsub e1 (or_introl (ex_intro _ w Hin))) o)) b b' H1 Hb').
    - rewrite Ed in Hb'. cbn [dfltr] in Hb'. apply (proj2 (proj2 (proj2 (Hsub e1 (or_intror Ed)) o)) b b' H1 Hb').
  Qed.

  Lemma sup_switch disp tbl dflt :
    superQ disp -> Forall (fun ve => superQ (snd ve)) tbl -> Popt superQ dflt -> superQ (ESwitch disp tbl dflt).
  Proof.
    intros [Cd Hdi] Ht Hd. pose proof (sub_super tbl dflt Ht Hd) as Hsub. split.
    { apply clean_switch; [eapply Forall_impl; [|exact Ht]; now intros a [Ha _]|destruct dflt; [apply Hd|exact I]]. }
    intros o. destruct (Hdi o) as [Vd [Ed Sd]].
    assert (G : forall (A : Type) (g : expr -> res A) a dv,
              dispr (E disp o) (is_some dflt) = Ok dv -> switch_sel dv tbl dflt g CSwitch = Ok a ->
              (forall b, superQ b -> g b = Ok a -> NK b o) -> NK (ESwitch disp tbl dflt) o).
    { intros A g a dv Hdv H Hg. apply (nk_switch disp tbl dflt o dv Hdv). destruct dv as [k|]; cbn [switch_sel] in H.
      - intros Hh. rewrite Hh in H. cbn [negb] in H. split.
        + apply dispr_some in Hdv. apply (Ed k Hdv).
        + apply (branch_nk tbl dflt o g CSwitch true a k False Hsub H Hg).
      - destruct dflt as [d|]; [|exact I]. cbn [dfltr] in H. apply Hg; [exact Hd|exact H]. }
    split; [|split].
    - intros H. rewrite V_switch in H. apply bindr_ok in H as [dv [Hdv H]].
      apply (G _ _ _ dv Hdv H). intros b [_ Qb] Hb. apply (proj1 (Qb o) Hb).
    - intros v H. rewrite E_switch in H. apply (proj1 (wrapr_ok _ _ _)) in H. apply bindr_ok in H as [dv [Hdv H]].
      apply (G _ _ _ dv Hdv H). intros b [_ Qb] Hb. apply (proj1 (proj2 (Qb o)) v Hb).
    - intros Ks Xs HK HX. rewrite K_switch in HK. rewrite X_switch in HX.
      apply bindr_ok in HK as [dv [Hdv HK]]. rewrite Hdv in HX. cbn [catchr bindr] in HX.
      destruct dv as [k|]; cbn [switch_keys] in *.
      + destruct (negb (hashable k)); [discriminate|].
        apply app2_ok in HK as [k1 [k2 [H1 [H2 ->]]]]. apply app2_ok in HX as [x1 [x2 [H3 [H4 ->]]]].
        apply incl_app; [apply incl_appl|apply incl_appr, (Sd k2 x2 H2 H4)].
        apply (branch_ps tbl dflt o k _ _ _ _ k1 x1 Hsub H1 H3).
      + destruct dflt as [d|]; [|discriminate]. cbn [dfltr] in *. apply (proj2 (proj2 (proj2 Hd o)) Ks Xs HK HX).
  Qed.

  Lemma sup_case disp cases dflt :
    superQ disp -> Forall (fun cr => superQ (fst cr) /\ superQ (snd cr)) cases -> Popt superQ dflt ->
    superQ (ECase disp cases dflt).
  Proof.
    intros [Cd Hdi] Hc Hd. split.
    { apply clean_case; [eapply Forall_impl; [|exact Hc]; now intros a [_ [Ha _]]|destruct dflt; [apply Hd|exact I]]. }
    intros o. destruct (Hdi o) as [Vd [Ed Sd]]. rewrite Forall_forall in Hc.
    assert (Hsub : forall x s r, case_sel u rfuel x o cases = Ok s -> s = Some r \/ (s = None /\ dflt = Some r) -> superQ r).
    { intros x s r Hs [->|[-> ->]]; [|exact Hd]. destruct (case_sel_In _ _ _ _ _ _ Hs) as [c Hin]. apply (proj2 (Hc (c, r) Hin)). }
    assert (G : forall (A : Type) (g : expr -> res A) a x s, NK disp o -> E disp o = Ok x ->
              case_sel u rfuel x o cases = Ok s -> case_res s dflt g = Ok a ->
              (forall b, superQ b -> g b = Ok a -> NK b o) -> NK (ECase disp cases dflt) o).
    { intros A g a x s Nd Hx Hs H Hg. apply (nk_case disp cases dflt o x s Nd Hx Hs).
      destruct s as [r|]; cbn [case_res] in H.
      - apply Hg; [apply (Hsub x _ r Hs); now left|exact H].
      - destruct dflt as [d|]; [|discriminate]. cbn [dfltr] in H. apply Hg; [exact Hd|exact H]. }
    split; [|split].
    - intros H. rewrite V_case in H. apply bindr_ok in H as [[] [H1 H]]. apply bindr_ok in H as [x [Hx H]].
      apply bindr_ok in H as [s [Hs H]]. apply (G _ _ _ x s (Vd H1) Hx Hs H). intros b [_ Qb] Hb. apply (proj1 (Qb o) Hb).
    - intros v H. rewrite E_case in H. apply (proj1 (wrapr_ok _ _ _)) in H. apply bindr_ok in H as [x [Hx H]].
      apply bindr_ok in H as [s [Hs H]]. apply (G _ _ _ x s (Ed x Hx) Hx Hs H). intros b [_ Qb] Hb. apply (proj1 (proj2 (Qb o)) v Hb).
    - intros Ks Xs HK HX. rewrite K_case in HK. rewrite X_case in HX. apply catchr_insuff_ok in HX. unfold case_body in *.
      apply bindr_ok in HK as [a [Ha HK]]. apply bindr_ok in HK as [x [Hx HK]]. apply bindr_ok in HK as [s [Hs HK]].
      apply bindr_ok in HK as [b [Hb HK]].
      apply bindr_ok in HX as [a' [Ha' HX]]. rewrite Hx in HX. cbn [bindr] in HX. rewrite Hs in HX. cbn [bindr] in HX.
      apply bindr_ok in HX as [b' [Hb' HX]]. inversion HK; inversion HX; subst.
      apply incl_app; [apply incl_appl, (Sd a a' Ha Ha')|apply incl_appr].
      destruct s as [r|]; cbn [case_res] in *.
      + apply (proj2 (proj2 (proj2 (Hsub x _ r Hs (or_introl eq_refl)) o)) b b' Hb Hb').
      + destruct dflt as [d|]; [|discriminate]. cbn [dfltr] in *. apply (proj2 (proj2 (proj2 Hd o)) b b' Hb Hb').
  Qed.

  Lemma coal_rel o ms :
    (forall m, In m ms -> pv m o /\ ps m o) ->
    forall last Ks, coalr (fun m => V m o) (fun m => K m o) ms last = Ok Ks ->
    match coalr (fun m => V m o) (fun m => X m o) ms last with Ok Xs => incl Ks Xs | Err c ee => ee = false end.
  Proof.
    induction ms as [|m ms IH]; intros H last Ks HK.
    - destruct last as [[c ee]|]; discriminate.
    - cbn [coalr] in *. destruct (H m (or_introl eq_refl)) as [Pv Ps]. unfold pv in Pv.
      destruct (V m o) as [[]|c ee] eqn:Ev; cbn [bindr] in *.
      + destruct (Pv eq_refl) as [Nk Nx].
        assert (Hk : K m o = Ok Ks).
        { apply catchr_ok in HK as [HK|[c [ee [HK [_ Hh]]]]]; [exact HK|]. rewrite HK in Nk. destruct ee; [destruct Nk|discriminate]. }
        destruct (X m o) as [Xs|c [|]] eqn:Ex; cbn [catchr]; [apply (Ps Ks Xs Hk Ex)|destruct Nx|].
        destruct (unmodb c); reflexivity.
      + cbn [catchr] in *. destruct (unmodb c); [discriminate|]. destruct ee; [|discriminate].
        apply (IH (fun m' Hm' => H m' (or_intror Hm')) _ Ks HK).
  Qed.

  Lemma sup_coalesce ms : Forall superQ ms -> superQ (ECoalesce ms).
  Proof.
    intros HQ. split; [apply clean_coalesce, (Forall_proj1 _ _ _ HQ)|]. intros o. rewrite Forall_forall in HQ.
    assert (Hm : forall m, In m ms -> V m o = Ok tt -> NK m o) by (intros m Hm; apply (proj1 (proj2 (HQ m Hm) o))).
    split; [|split].
    - intros H. rewrite V_coalesce in H. apply (nk_coalesce _ ms o tt Hm H).
    - intros v H. rewrite E_coalesce in H. apply (proj1 (wrapr_ok _ _ _)) in H. apply (nk_coalesce _ ms o v Hm H).
    - intros Ks Xs HK HX. rewrite K_coalesce in HK. rewrite X_coalesce in HX.
      pose proof (coal_rel o ms (fun m Hm' => conj (proj1 (proj2 (HQ m Hm') o)) (proj2 (proj2 (proj2 (HQ m Hm') o)))) None Ks HK) as R.
      destruct (coalr (fun m => V m o) (fun m => X m o) ms None) as [Xs'|c ee]; cbn [catchr] in HX.
      + inversion HX; subst. exact R.
      + subst ee. destruct (unmodb c); discriminate.
  Qed.

  Lemma sup_with f p e : superQ e -> superQ (EWith f p e).
  Proof.
    intros [Ce He]. split; [now apply clean_with|]. intros o. destruct (He (with_opts f p o)) as [Pv [Pe Ps]]. split; [|split].
    - intros H. rewrite V_with in H. apply nk_with, (Pv H).
    - intros v H. rewrite rs_ev_with in H. apply nk_with, (Pe v H).
    - intros Ks Xs HK HX. rewrite K_with in HK. rewrite X_with in HX.
      destruct (K e (with_opts f p o)) as [L|] eqn:EK; [|discriminate].
      destruct (X e (with_opts f p o)) as [L'|] eqn:EX; [|discriminate].
      apply (filtr_incl f p o L L' Ks Xs (Ps L L' EK EX) HK HX).
  Qed.
  Lemma sup_cached c e : superQ e -> superQ (ECached c e).
  Proof.
    intros [Ce He]. split; [now apply clean_cached|]. intros o. destruct (He o) as [Pv [Pe Ps]]. split; [|split].
    - intros H. rewrite V_cached in H. apply nk_cached, (Pv H).
    - intros v H. rewrite rs_ev_cached in H. apply nk_cached, (Pe v H).
    - intros Ks Xs HK HX. rewrite K_cached in HK. rewrite X_cached in HX. apply (Ps Ks Xs HK HX).
  Qed.
  Lemma sup_logged e : superQ e -> superQ (ELogged e).
  Proof.
    intros [Ce He]. split; [now apply clean_logged|]. intros o. destruct (He o) as [Pv [Pe Ps]]. split; [|split].
    - intros H. rewrite V_logged in H. apply nk_logged, (Pv H).
    - intros v H. rewrite rs_ev_logged in H. apply nk_logged, (Pe v H).
    - intros Ks Xs HK HX. rewrite K_logged in HK. rewrite X_logged in HX. apply (Ps Ks Xs HK HX).
  Qed.

  Lemma sup_call pa f args kwargs :
    superQ f -> Forall superQ args -> Forall superQ kwargs -> superQ (ECall pa f args kwargs).
  Proof.
    intros [Cf Hf] Ha Hk. split.
    { apply clean_call; [exact Hclean|exact Cf|apply (Forall_proj1 _ _ _ Ha)|apply (Forall_proj1 _ _ _ Hk)]. }
    intros o. destruct (Hf o) as [Vf [Ef Sf]]. rewrite Forall_forall in Ha, Hk. split; [|split].
    - intros H. rewrite V_call in H. apply bindr_ok in H as [[] [H1 H]]. apply bindr_ok in H as [[] [H2 H3]].
      apply nk_call; [apply (Vf H1)| |]; intros x Hx.
      + apply (proj1 (proj2 (Ha x Hx) o)), (proj1 (iterr_ok _ _) H2 x Hx).
      + apply (proj1 (proj2 (Hk x Hx) o)), (proj1 (iterr_ok _ _) H3 x Hx).
    - intros v H. rewrite E_call in H. apply (proj1 (wrapr_ok _ _ _)) in H.
      apply bindr_ok in H as [fv [Hfv H]]. apply bindr_ok in H as [av [Hav H]]. apply bindr_ok in H as [kv [Hkv _]].
      apply nk_call; [apply (Ef fv Hfv)| |]; intros x Hx.
      + destruct (mapr_all_ok _ _ _ Hav x Hx) as [vx Hvx]. apply (proj1 (proj2 (proj2 (Ha x Hx) o)) vx Hvx).
      + destruct (mapr_all_ok _ _ _ Hkv x Hx) as [vx Hvx]. apply (proj1 (proj2 (proj2 (Hk x Hx) o)) vx Hvx).
    - intros Ks Xs HK HX. rewrite K_call, call_body_app2 in HK. rewrite X_call, call_body_app2 in HX.
      apply app2_ok in HK as [k1 [k23 [H1 [H23 ->]]]]. apply app2_ok in H23 as [k2 [k3 [H2 [H3 ->]]]].
      apply app2_ok in HX as [x1 [x23 [G1 [G23 ->]]]]. apply app2_ok in G23 as [x2 [x3 [G2 [G3 ->]]]].
      apply incl_app; [apply incl_appl, (Sf k1 x1 H1 G1)|apply incl_appr, incl_app; [apply incl_appl|apply incl_appr]].
      + apply (incl_unionr _ _ args (fun x Hx => proj2 (proj2 (proj2 (Ha x Hx) o))) k2 x2 H2 G2).
      + apply (incl_unionr _ _ kwargs (fun x Hx => proj2 (proj2 (proj2 (Hk x Hx) o))) k3 x3 H3 G3).
  Qed.

  Lemma iterr_all_ok {A} (f : A -> res unit) l : iterr f l = Ok tt -> forall a, In a l -> f a = Ok tt.
  Proof. intros H. apply (proj1 (iterr_ok f l) H). Qed.

  Lemma sup_comp e effs : superQ e -> Forall superQ effs -> superQ (EComp e effs).
  Proof.
    intros [Ce He] Hf. split; [now apply clean_comp|]. intros o. destruct (He o) as [Pv [Pe Ps]].
    rewrite Forall_forall in Hf. split; [|split].
    - intros H. rewrite V_comp in H. apply bindr_ok in H as [[] [H1 H]]. apply nk_comp; [apply (Pv H1)|].
      intros Hoff x Hx. rewrite Hoff in H. apply (proj1 (proj2 (Hf x Hx) o)), (iterr_all_ok _ _ H x Hx).
    - intros v H. rewrite E_comp in H. apply (proj1 (wrapr_ok _ _ _)) in H. apply bindr_ok in H as [w [Hw H]].
      apply bindr_ok in H as [[] [H _]]. apply nk_comp; [apply (Pe w Hw)|].
      intros Hoff x Hx. rewrite Hoff in H. pose proof (iterr_all_ok _ _ H x Hx) as Hx'. unfold effr in Hx'.
      apply bindr_ok in Hx' as [fx [Hfx _]]. apply (proj1 (proj2 (proj2 (Hf x Hx) o)) fx Hfx).
    - intros Ks Xs HK HX. rewrite K_comp in HK. rewrite X_comp in HX. apply bindr_ok in HX as [a [Ha HX]].
      pose proof (Ps Ks a HK Ha) as Hi. destruct (effects_opt_off o).
      + now inversion HX; subst.
      + apply bindr_ok in HX as [b [_ HX]]. inversion HX; subst. now apply incl_appl.
  Qed.

  Lemma sup_pipe steps : Forall superQ steps -> superQ (EPipe steps).
  Proof.
    intros HQ. split; [apply clean_pipe, (Forall_proj1 _ _ _ HQ)|]. intros o. rewrite Forall_forall in HQ. split; [|split].
    - intros H. rewrite V_pipe in H. apply nk_pipe. intros x Hx. apply (proj1 (proj2 (HQ x Hx) o)), (iterr_all_ok _ _ H x Hx).
    - intros v H. rewrite E_pipe in H. apply (proj1 (wrapr_ok _ _ _)) in H. apply bindr_ok in H as [fs [Hfs _]].
      apply nk_pipe. intros x Hx. destruct (mapr_all_ok _ _ _ Hfs x Hx) as [vx Hvx]. apply (proj1 (proj2 (proj2 (HQ x Hx) o)) vx Hvx).
    - intros Ks Xs HK HX. rewrite K_pipe in HK. rewrite X_pipe in HX.
      apply (incl_unionr _ _ steps (fun x Hx => proj2 (proj2 (proj2 (HQ x Hx) o))) Ks Xs HK HX).
  Qed.

  Lemma sup_all : superQ EAllOptions.
  Proof.
    split; [apply clean_all|]. intros o. split; [intros _; apply nk_all|]. split; [intros v _; apply nk_all|].
    intros Ks Xs HK HX. rewrite K_all in HK. rewrite X_all in HX. inversion HK; inversion HX; subst. apply incl_refl.
  Qed.

  Theorem super_main e : fragP pC e = true -> superQ e.
  Proof.
    apply (fragP_ind pC superQ).
    - exact sup_value.
    - intros k dflt dom Hd _. now apply sup_option.
    - intros a b Ha Hb _. now apply sup_apply.
    - intros es b _. apply sup_forced.
    - intros src tbl dflt Hs Ht Hd _. now apply sup_bind.
    - exact sup_switch.
    - intros disp cases dflt Hs Hc Hd _. now apply sup_case.
    - intros ms _. apply sup_coalesce.
    - intros es Hl. discriminate Hl.
    - intros force pr e0 _. apply sup_with.
    - exact sup_cached.
    - intros pa f args kwargs Hf Ha Hk _. now apply sup_call.
    - intros s ps Ht. discriminate Ht.
    - intros e0 effs _ He Hf _. now apply sup_comp.
    - exact sup_logged.
    - exact sup_pipe.
    - intros _. exact sup_all.
  Qed.
End Super.

(** ** Part D: a missing-option failure of validate() names a key explain() lists, and that key is
    absent from the dictionary.  Side conditions on the dictionary: well-formed (unique keys) and
    every option value resolves (no reference to a missing key inside a value: findings D1/D13 and
    the templating property C09 live there); on the fragment: no pre-set dictionaries, no
    Template/Map, an Option's domain is a constant (finding D4). *)
Definition resolves (rfuel : nat) (o : dict) : Prop :=
  forall k raw, lookup k (JObj o) = Found raw -> exists j, resolve rfuel o raw = ROk j.

Definition pM : fopts :=
  {| f_coalesce := true; f_lazy := true; f_template := false; f_effects := true; f_dom := true;
     f_domdflt := true; f_presets := false; f_partialbind := true; f_alloptions := true; f_domexpr := false; f_untyped := true |}.

Lemma preset_drops_nil f o m k : preset_drops f [] o m k = Some false.
Proof. destruct k as [|s k]; [reflexivity|]. cbn [preset_drops lookup]. destruct s; reflexivity. Qed.
Lemma filter_preset_nil f o m l : rs (filter_preset unit f [] o m l) = Ok l.
Proof.
  induction l as [|k l IH]; [reflexivity|]. rewrite rs_filter_preset_cons, preset_drops_nil, IH. reflexivity.
Qed.
Lemma filtr_nil f o r : filtr f [] o r = r.
Proof. unfold filtr. destruct r as [l|c ee]; cbn [bindr]; [apply filter_preset_nil|reflexivity]. Qed.

Lemma lastr_In {A} (g : expr -> res A) ms : ms <> [] -> exists m, In m ms /\ forall (B : Type) (h : expr -> res B), lastr h ms = h m.
Proof.
  induction ms as [|m [|m' ms] IH]; intros H; [congruence| |].
  - exists m. split; [now left|reflexivity].
  - destruct IH as [x [Hin Hx]]; [discriminate|]. exists x. split; [now right|]. intros B h. apply (Hx B h).
Qed.

Section Listed.
  Variable u : N -> list value -> cres.
  Variable rfuel : nat.
  Hypothesis Hfab : no_fabricated_missing u.
  Notation ev := (eval unit nc_find nc_store cfg_nc u rfuel (fun _ _ => true)).
  Notation va := (validate unit nc_find nc_store cfg_nc u rfuel (fun _ _ => true)).
  Notation ks := (keys unit nc_find nc_store cfg_nc u rfuel (fun _ _ => true)).
  Notation ex := (explain unit nc_find nc_store cfg_nc u rfuel (fun _ _ => true)).
  Local Notation E e o := (rs (ev e o)) (only parsing).
  Local Notation V e o := (rs (va e o)) (only parsing).
  Local Notation K e o := (rs (ks e o)) (only parsing).
  Local Notation X e o := (rs (ex e o)) (only parsing).

  Lemma in_domain_no_key d j c ee :
    vclean d = true -> rs (in_domain unit u d (VJ j)) = Err c ee -> is_key c = false.
  Proof.
    intros Hc. unfold in_domain.
    assert (Hel : match elements_of d with
                  | Some els => if existsb (fun x => value_eq (VJ j) x) els then ret unit tt else fail unit CDomain false
                  | None => ret unit tt end = (fun s => (Err c ee, s, @nil event)) \/ True) by now right.
    destruct d as [jd|t args|f pre post| |c0].
    - destruct (elements_of (VJ jd)) as [els|]; [|discriminate]. destruct (existsb _ els); [discriminate|].
      intros H. inversion H; subst. reflexivity.
    - destruct (elements_of (VT t args)) as [els|]; [|discriminate]. destruct (existsb _ els); [discriminate|].
      intros H. inversion H; subst. reflexivity.
    - rewrite rs_bind.
      pose proof (call_value_good is_key u Hfab eq_refl (fun _ _ _ _ => eq_refl) (VF f pre post) (VJ j)
                    (vclean_good is_key _ Hc) eq_refl) as G.
      destruct (rs (call_value unit u (VF f pre post) (VJ j))) as [b|c1 ee1]; cbn [bindr res_good] in *.
      + destruct (truthy b); [discriminate|]. intros H. inversion H; subst. reflexivity.
      + intros H. inversion H; subst. exact G.
    - discriminate.
    - discriminate.
  Qed.

  Definition listed (e : expr) (o : dict) : Prop :=
    forall k ee Xs, V e o = Err (CKey k) ee -> X e o = Ok Xs -> In k Xs /\ lookup k (JObj o) = Absent.
  Definition listedQ (e : expr) : Prop := forall o, wf_dict o = true -> resolves rfuel o -> listed e o.

  Lemma listed_iterr_unionr es o :
    (forall x, In x es -> listed x o) ->
    forall k ee Xs, iterr (fun x => V x o) es = Err (CKey k) ee -> unionr (fun x => X x o) es = Ok Xs ->
    In k Xs /\ lookup k (JObj o) = Absent.
  Proof.
    intros H k ee Xs HV HX. apply iterr_err in HV as [x [Hx HV]].
    destruct (unionr_ok _ _ _ HX x Hx) as [Xa [Ha Hi]]. destruct (H x Hx k ee Xa HV Ha) as [Hin Hab]. split; [now apply Hi|exact Hab].
  Qed.

  Lemma lis_value v : listedQ (EValue v).
  Proof. intros o _ _ k ee Xs H. rewrite V_value in H. discriminate. Qed.

  Lemma lis_option k dflt dom :
    Popt listedQ dflt ->
    match dom with Some de => exists d, de = EValue d /\ vclean d = true | None => True end ->
    listedQ (EOption k dflt dom).
  Proof.
    intros Hd Hdom o Hwf Hres k0 ee Xs HV HX. rewrite rs_va_option in HV. rewrite X_option in HX.
    destruct (lookup k (JObj o)) as [raw| |] eqn:El; [| |discriminate].
    - exfalso. apply bindr_err in HV as [HV|[v [_ HV]]]; [|discriminate].
      rewrite rs_ev_option, rs_option_eval, El in HV. destruct (Hres k raw El) as [j Hj]. rewrite Hj in HV. cbn [of_rres] in HV.
      rewrite rs_ret in HV. cbn [bindr] in HV. destruct dom as [de|]; cbn [dom_check] in HV; [|discriminate].
      destruct Hdom as [d [-> Hc]]. rewrite E_value in HV. cbn [bindr] in HV.
      destruct (rs (in_domain unit u d (VJ j))) as [[]|c1 ee1] eqn:Ei; cbn [bindr wrapr] in HV; [discriminate|].
      inversion HV; subst. pose proof (in_domain_no_key d j _ _ Hc Ei). discriminate.
    - destruct dflt as [d|].
      + apply (Hd o Hwf Hres k0 ee Xs HV HX).
      + inversion HV; inversion HX; subst. split; [now left|exact El].
  Qed.

  Lemma lis_apply a b : listedQ a -> listedQ b -> listedQ (EApply a b).
  Proof.
    intros Ha Hb o Hwf Hres k ee Xs HV HX. rewrite V_apply in HV. rewrite X_apply in HX.
    apply app2_ok in HX as [x1 [x2 [H1 [H2 ->]]]]. apply bindr_err in HV as [HV|[[] [_ HV]]].
    - destruct (Ha o Hwf Hres k ee x1 HV H1) as [Hin Hab]. split; [apply in_or_app; now left|exact Hab].
    - destruct (Hb o Hwf Hres k ee x2 HV H2) as [Hin Hab]. split; [apply in_or_app; now right|exact Hab].
  Qed.

  Lemma lis_iter es : Forall listedQ es -> listedQ (EIter es).
  Proof.
    intros HQ o Hwf Hres k ee Xs HV HX. rewrite V_iter in HV. rewrite X_iter in HX. rewrite Forall_forall in HQ.
    apply (listed_iterr_unionr es o (fun x Hx => HQ x Hx o Hwf Hres) k ee Xs HV HX).
  Qed.

  Lemma ev_err_not_ok e o c ee x : E e o = Err c ee -> E e o = Ok x -> False.
  Proof. intros H1 H2. rewrite H1 in H2. discriminate. Qed.

  Lemma lis_bind src tbl dflt :
    listedQ src -> Forall (fun ve => listedQ (snd ve)) tbl -> Popt listedQ dflt -> listedQ (EBind src tbl dflt).
  Proof.
    intros Hs Ht Hd o Hwf Hres k ee Xs HV HX. rewrite V_bind in HV. rewrite X_bind in HX.
    apply catchr_insuff_ok in HX. unfold bind_body in HX.
    apply bindr_ok in HX as [a [Ha HX]]. apply bindr_ok in HX as [x [Hx HX]]. apply bindr_ok in HX as [b [Hb HX]].
    inversion HX; subst Xs. apply bindr_err in HV as [HV|[[] [_ HV]]].
    - destruct (Hs o Hwf Hres k ee a HV Ha) as [Hin Hab]. split; [apply in_or_app; now left|exact Hab].
    - rewrite Hx in HV. cbn [bindr] in HV. unfold pickr in *. destruct (assoc_v x tbl) as [br|] eqn:Ea.
      + destruct (assoc_v_In _ _ _ Ea) as [w Hw].
        destruct (Forall_snd_In listedQ tbl w br Ht Hw o Hwf Hres k ee b HV Hb) as [Hin Hab]. split; [apply in_or_app; now right|exact Hab].
      + destruct dflt as [d|]; cbn [dfltr] in *; [|discriminate].
        destruct (Hd o Hwf Hres k ee b HV Hb) as [Hin Hab]. split; [apply in_or_app; now right|exact Hab].
  Qed.

  Lemma lis_switch disp tbl dflt :
    Forall (fun ve => listedQ (snd ve)) tbl -> Popt listedQ dflt -> listedQ (ESwitch disp tbl dflt).
  Proof.
    intros Ht Hd o Hwf Hres k ee Xs HV HX. rewrite V_switch in HV. rewrite X_switch in HX.
    destruct (dispr (E disp o) (is_some dflt)) as [dv|c0 ee0] eqn:Edv.
    - cbn [catchr bindr] in *. destruct dv as [k0|]; cbn [switch_sel switch_keys] in *.
      + destruct (negb (hashable k0)); [discriminate|]. apply app2_ok in HX as [x1 [x2 [H1 [H2 ->]]]].
        unfold pickr in *. destruct (assoc_v k0 tbl) as [br|] eqn:Ea.
        * destruct (assoc_v_In _ _ _ Ea) as [w Hw].
          destruct (Forall_snd_In listedQ tbl w br Ht Hw o Hwf Hres k ee x1 HV H1) as [Hin Hab]. split; [apply in_or_app; now left|exact Hab].
        * destruct dflt as [d|]; cbn [dfltr] in *; [|discriminate].
          destruct (Hd o Hwf Hres k ee x1 HV H1) as [Hin Hab]. split; [apply in_or_app; now left|exact Hab].
      + destruct dflt as [d|]; cbn [dfltr] in *; [|discriminate]. apply (Hd o Hwf Hres k ee Xs HV HX).
    - exfalso. cbn [catchr bindr] in HX. destruct (unmodb c0); [discriminate|]. unfold insuffh in HX. destruct ee0; discriminate.
  Qed.

  Lemma lis_case disp cases dflt :
    listedQ disp -> Forall (fun cr => listedQ (fst cr) /\ listedQ (snd cr)) cases -> Popt listedQ dflt ->
    listedQ (ECase disp cases dflt).
  Proof.
    intros Hdi Hc Hd o Hwf Hres k ee Xs HV HX. rewrite V_case in HV. rewrite X_case in HX.
    apply catchr_insuff_ok in HX. unfold case_body in HX.
    apply bindr_ok in HX as [a [Ha HX]]. apply bindr_ok in HX as [x [Hx HX]]. apply bindr_ok in HX as [s [Hs HX]].
    apply bindr_ok in HX as [b [Hb HX]]. inversion HX; subst Xs. apply bindr_err in HV as [HV|[[] [_ HV]]].
    - destruct (Hdi o Hwf Hres k ee a HV Ha) as [Hin Hab]. split; [apply in_or_app; now left|exact Hab].
    - rewrite Hx in HV. cbn [bindr] in HV. rewrite Hs in HV. cbn [bindr] in HV.
      destruct s as [r|]; cbn [case_res] in *.
      + destruct (case_sel_In _ _ _ _ _ _ Hs) as [c Hin]. rewrite Forall_forall in Hc.
        destruct (proj2 (Hc (c, r) Hin) o Hwf Hres k ee b HV Hb) as [Hi Hab]. split; [apply in_or_app; now right|exact Hab].
      + destruct dflt as [d|]; cbn [dfltr] in *; [|discriminate].
        destruct (Hd o Hwf Hres k ee b HV Hb) as [Hi Hab]. split; [apply in_or_app; now right|exact Hab].
  Qed.

  (** coalesce: when validate fails for a missing option, every member failed, the error is the
      last member's, and explain falls back to the last member *)
  Lemma coal_all_fail {A} o (g : expr -> res A) ms : forall last k,
    coalr (fun m => V m o) (fun m => V m o) ms last = Err (CKey k) true ->
    coalr (fun m => V m o) g ms last = Err (CKey k) true /\
    (ms <> [] -> lastr (fun m => V m o) ms = Err (CKey k) true).
  Proof.
    induction ms as [|m ms IH]; intros last k H.
    - split; [|congruence]. destruct last as [[c ee]|]; cbn [coalr] in *; inversion H; reflexivity.
    - cbn [coalr] in *. destruct (V m o) as [[]|c ee] eqn:Ev; cbn [bindr catchr] in *; [discriminate|].
      destruct (unmodb c) eqn:Un.
      + inversion H; subst. discriminate.
      + destruct ee; [|discriminate]. destruct (IH _ _ H) as [Hg Hl]. split; [exact Hg|]. intros _.
        destruct ms as [|m' ms']; [|cbn [lastr]; apply Hl; discriminate].
        cbn [coalr] in H. inversion H; subst. cbn [lastr]. exact Ev.
  Qed.

  Lemma lis_coalesce ms : Forall listedQ ms -> listedQ (ECoalesce ms).
  Proof.
    intros HQ o Hwf Hres k ee Xs HV HX. rewrite V_coalesce in HV. rewrite X_coalesce in HX. rewrite Forall_forall in HQ.
    destruct ee.
    - destruct (coal_all_fail o (fun m => X m o) ms None k HV) as [Hg Hl]. rewrite Hg in HX. cbn [catchr unmodb] in HX.
      destruct ms as [|m0 ms0]; [discriminate|].
      destruct (lastr_In (fun m => V m o) (m0 :: ms0)) as [m [Hin Hm]]; [discriminate|].
      rewrite (Hm _ (fun m => X m o)) in HX. specialize (Hl ltac:(discriminate)). rewrite (Hm _ (fun m => V m o)) in Hl.
      apply (HQ m Hin o Hwf Hres k true Xs Hl HX).
    - exfalso. (* a failure that is not an EvaluationError stops explain as well *)
      assert (G : forall last, coalr (fun m => V m o) (fun m => V m o) ms last = Err (CKey k) false ->
                    coalr (fun m => V m o) (fun m => X m o) ms last = Err (CKey k) false).
      { clear. induction ms as [|m ms IH]; intros last H.
        - destruct last as [[c ee]|]; cbn [coalr] in *; inversion H; reflexivity.
        - cbn [coalr] in *. destruct (V m o) as [[]|c ee] eqn:Ev; cbn [bindr catchr] in *; [discriminate|].
          destruct (unmodb c); [inversion H; reflexivity|]. destruct ee; [apply IH, H|inversion H; reflexivity]. }
      rewrite (G None HV) in HX. discriminate.
  Qed.

  Lemma lis_with f e : listedQ e -> listedQ (EWith f [] e).
  Proof.
    intros He o Hwf Hres k ee Xs HV HX. rewrite V_with in HV. rewrite X_with, filtr_nil in HX.
    rewrite (with_opts_nil f o Hwf) in *. apply (He o Hwf Hres k ee Xs HV HX).
  Qed.
  Lemma lis_cached c e : listedQ e -> listedQ (ECached c e).
  Proof. intros He o Hwf Hres k ee Xs HV HX. rewrite V_cached in HV. rewrite X_cached in HX. apply (He o Hwf Hres k ee Xs HV HX). Qed.
  Lemma lis_logged e : listedQ e -> listedQ (ELogged e).
  Proof. intros He o Hwf Hres k ee Xs HV HX. rewrite V_logged in HV. rewrite X_logged in HX. apply (He o Hwf Hres k ee Xs HV HX). Qed.

  Lemma lis_call pa f args kwargs :
    listedQ f -> Forall listedQ args -> Forall listedQ kwargs -> listedQ (ECall pa f args kwargs).
  Proof.
    intros Hf Ha Hk o Hwf Hres k ee Xs HV HX. rewrite V_call in HV. rewrite X_call, call_body_app2 in HX.
    apply app2_ok in HX as [x1 [x23 [G1 [G23 ->]]]]. apply app2_ok in G23 as [x2 [x3 [G2 [G3 ->]]]].
    rewrite Forall_forall in Ha, Hk.
    apply bindr_err in HV as [HV|[[] [_ HV]]]; [|apply bindr_err in HV as [HV|[[] [_ HV]]]].
    - destruct (Hf o Hwf Hres k ee x1 HV G1) as [Hin Hab]. split; [apply in_or_app; now left|exact Hab].
    - destruct (listed_iterr_unionr args o (fun x Hx => Ha x Hx o Hwf Hres) k ee x2 HV G2) as [Hin Hab].
      split; [apply in_or_app; right; apply in_or_app; now left|exact Hab].
    - destruct (listed_iterr_unionr kwargs o (fun x Hx => Hk x Hx o Hwf Hres) k ee x3 HV G3) as [Hin Hab].
      split; [apply in_or_app; right; apply in_or_app; now right|exact Hab].
  Qed.

  Lemma lis_comp e effs : listedQ e -> Forall listedQ effs -> listedQ (EComp e effs).
  Proof.
    intros He Hf o Hwf Hres k ee Xs HV HX. rewrite V_comp in HV. rewrite X_comp in HX.
    apply bindr_ok in HX as [a [Ha HX]]. rewrite Forall_forall in Hf. apply bindr_err in HV as [HV|[[] [_ HV]]].
    - destruct (He o Hwf Hres k ee a HV Ha) as [Hin Hab]. split; [|exact Hab].
      destruct (effects_opt_off o); [now inversion HX; subst|]. apply bindr_ok in HX as [b [_ HX]]. inversion HX; subst.
      apply in_or_app; now left.
    - destruct (effects_opt_off o); [discriminate|]. apply bindr_ok in HX as [b [Hb HX]]. inversion HX; subst.
      destruct (listed_iterr_unionr effs o (fun x Hx => Hf x Hx o Hwf Hres) k ee b HV Hb) as [Hin Hab].
      split; [apply in_or_app; now right|exact Hab].
  Qed.

  Lemma lis_pipe steps : Forall listedQ steps -> listedQ (EPipe steps).
  Proof.
    intros HQ o Hwf Hres k ee Xs HV HX. rewrite V_pipe in HV. rewrite X_pipe in HX. rewrite Forall_forall in HQ.
    apply (listed_iterr_unionr steps o (fun x Hx => HQ x Hx o Hwf Hres) k ee Xs HV HX).
  Qed.

  Lemma lis_all : listedQ EAllOptions.
  Proof.
    intros o Hwf Hres k ee Xs HV _. exfalso. rewrite V_all in HV. unfold allr in HV.
    destruct (Hres [] (JObj o) eq_refl) as [j Hj]. rewrite Hj in HV. discriminate.
  Qed.

  Theorem listed_main e : fragP pM e = true -> listedQ e.
  Proof.
    apply (fragP_ind pM listedQ).
    - intros v _. apply lis_value.
    - intros k dflt dom Hd Hc. apply lis_option; [exact Hd|].
      destruct dom as [de|]; [|exact I].
      assert (Hok : dom_ok pM de = true) by (destruct dflt; apply Hc).
      unfold dom_ok in Hok. cbn in Hok. destruct de; try discriminate. exists v. split; [reflexivity|].
      now rewrite andb_true_r in Hok.
    - intros a b Ha Hb _. now apply lis_apply.
    - intros es b Hl. discriminate Hl.
    - intros src tbl dflt Hs Ht Hd _. now apply lis_bind.
    - intros disp tbl dflt _ Ht Hd. now apply lis_switch.
    - intros disp cases dflt Hs Hc Hd _. now apply lis_case.
    - intros ms _. apply lis_coalesce.
    - intros es _. apply lis_iter.
    - intros force pr e0 [-> |Hp] He; [now apply lis_with|discriminate Hp].
    - exact lis_cached.
    - intros pa f args kwargs Hf Ha Hk _. now apply lis_call.
    - intros s ps Ht. discriminate Ht.
    - intros e0 effs _ He Hf _. now apply lis_comp.
    - exact lis_logged.
    - exact lis_pipe.
    - intros _. exact lis_all.
  Qed.
End Listed.

(** ** Part E: a listed key that is absent makes validate() (and evaluate()) fail. *)
Definition fails {A} (r : res A) : Prop := okb r = false.
Lemma fails_bindr_l A B (r : res A) (f : A -> res B) : fails r -> fails (bindr r f).
Proof. destruct r; cbn; [discriminate|reflexivity]. Qed.
Lemma fails_bindr_r A B (r : res A) (f : A -> res B) : (forall a, r = Ok a -> fails (f a)) -> fails (bindr r f).
Proof. destruct r; cbn [bindr]; [auto|reflexivity]. Qed.
Lemma fails_wrapr A (r : res A) : fails r -> fails (wrapr r).
Proof. unfold fails. now rewrite okb_wrapr. Qed.
Lemma fails_iterr A (f : A -> res unit) l x : In x l -> fails (f x) -> fails (iterr f l).
Proof.
  induction l as [|a l IH]; intros Hx Hf; [destruct Hx|]. cbn [iterr]. destruct Hx as [->|Hx].
  - now apply fails_bindr_l.
  - apply fails_bindr_r. intros _ _. now apply IH.
Qed.
Lemma fails_mapr A B (f : A -> res B) l x : In x l -> fails (f x) -> fails (mapr f l).
Proof.
  induction l as [|a l IH]; intros Hx Hf; [destruct Hx|]. cbn [mapr]. destruct Hx as [->|Hx].
  - now apply fails_bindr_l.
  - apply fails_bindr_r. intros b _. apply fails_bindr_l. now apply IH.
Qed.
Lemma fails_not_ok A (r : res A) a : fails r -> r = Ok a -> False.
Proof. intros H ->. discriminate H. Qed.

Section RefsAbsent.
  Variable o : dict.
  Definition absentb (k : key) : bool := match lookup k (JObj o) with Absent => true | _ => false end.

  (** strict key inspection follows the lenient one up to the first absent key *)
  Lemma unionr_strict_lenient (f g : key -> res (list key)) l :
    (forall k L, In k l -> g k = Ok L ->
       (existsb absentb L = true -> exists q, f k = Err (CKey q) true) /\ (existsb absentb L = false -> f k = Ok L)) ->
    forall L, unionr g l = Ok L ->
      (existsb absentb L = true -> exists q, unionr f l = Err (CKey q) true) /\ (existsb absentb L = false -> unionr f l = Ok L).
  Proof.
    induction l as [|a l IH]; intros H L HL.
    - inversion HL; subst. split; [discriminate|reflexivity].
    - cbn [unionr] in *. apply bindr_ok in HL as [x [Hx HL]]. apply bindr_ok in HL as [y [Hy HL]]. inversion HL; subst L.
      destruct (H a x (or_introl eq_refl) Hx) as [Ha1 Ha2].
      destruct (IH (fun k L Hk => H k L (or_intror Hk)) y Hy) as [Hl1 Hl2].
      rewrite existsb_app. destruct (existsb absentb x) eqn:Ex.
      + split; [|discriminate]. intros _. destruct (Ha1 eq_refl) as [q Hq]. exists q. now rewrite Hq.
      + rewrite (Ha2 eq_refl). cbn [bindr orb]. split.
        * intros Hy'. destruct (Hl1 Hy') as [q Hq]. exists q. now rewrite Hq.
        * intros Hy'. now rewrite (Hl2 Hy').
  Qed.

  Lemma ref_keys_strict_lenient f : forall k L,
    rs (ref_keys unit f false o k) = Ok L ->
    (existsb absentb L = true -> exists q, rs (ref_keys unit f true o k) = Err (CKey q) true) /\
    (existsb absentb L = false -> rs (ref_keys unit f true o k) = Ok L).
  Proof.
    induction f as [|f IH]; intros k L; [discriminate|]. rewrite !rs_ref_keys_S.
    destruct (lookup k (JObj o)) as [raw| |] eqn:El; [| |discriminate].
    - assert (Hk : absentb k = false) by (unfold absentb; now rewrite El).
      destruct raw; try (intros H; inversion H; subst; cbn [existsb]; rewrite Hk; split; [discriminate|reflexivity]).
      destruct (has_par s); [discriminate|].
      rewrite (rs_unionM_ext _ _ (fun k' => rs (ref_keys unit f false o k'))) by reflexivity.
      rewrite (rs_unionM_ext _ _ (fun k' => rs (ref_keys unit f true o k'))) by reflexivity.
      intros H. apply bindr_ok in H as [l0 [Hl H]]. inversion H; subst L. cbn [existsb]. rewrite Hk. cbn [orb].
      destruct (unionr_strict_lenient (fun k' => rs (ref_keys unit f true o k')) (fun k' => rs (ref_keys unit f false o k'))
                  (refs s) (fun k' L' _ => IH k' L') l0 Hl) as [H1 H2].
      split.
      + intros Ha. destruct (H1 Ha) as [q Hq]. exists q. now rewrite Hq.
      + intros Ha. now rewrite (H2 Ha).
    - intros H. inversion H; subst. cbn [existsb]. unfold absentb. rewrite El. cbn [orb]. split; [intros _; now exists k|discriminate].
  Qed.
End RefsAbsent.

Definition pN : fopts :=
  {| f_coalesce := true; f_lazy := false; f_template := false; f_effects := true; f_dom := true;
     f_domdflt := true; f_presets := false; f_partialbind := true; f_alloptions := false; f_domexpr := true; f_untyped := true |}.

Section Sound.
  Variable u : N -> list value -> cres.
  Variable rfuel : nat.
  Hypothesis Hclean : clean_u u.
  Notation ev := (eval unit nc_find nc_store cfg_nc u rfuel (fun _ _ => true)).
  Notation va := (validate unit nc_find nc_store cfg_nc u rfuel (fun _ _ => true)).
  Notation ks := (keys unit nc_find nc_store cfg_nc u rfuel (fun _ _ => true)).
  Notation ex := (explain unit nc_find nc_store cfg_nc u rfuel (fun _ _ => true)).
  Local Notation E e o := (rs (ev e o)) (only parsing).
  Local Notation V e o := (rs (va e o)) (only parsing).
  Local Notation K e o := (rs (ks e o)) (only parsing).
  Local Notation X e o := (rs (ex e o)) (only parsing).
  Notation superQ := (superQ u rfuel).

  Definition sound (e : expr) (o : dict) : Prop :=
    forall Xs k, X e o = Ok Xs -> In k Xs -> lookup k (JObj o) = Absent -> fails (V e o) /\ fails (E e o).
  Definition soundQ (e : expr) : Prop := forall o, wf_dict o = true -> resolves rfuel o -> sound e o.
  Definition ssQ (e : expr) : Prop := superQ e /\ soundQ e.

  Lemma sound_unionr es o :
    (forall x, In x es -> sound x o) ->
    forall Xs k, unionr (fun x => X x o) es = Ok Xs -> In k Xs -> lookup k (JObj o) = Absent ->
    exists x, In x es /\ fails (V x o) /\ fails (E x o).
  Proof.
    intros H Xs k HX Hk Hab. destruct (unionr_ok_in _ _ _ _ HX Hk) as [x [Xa [Hx [Ha Hin]]]].
    exists x. split; [exact Hx|]. apply (H x Hx Xa k Ha Hin Hab).
  Qed.

  Lemma snd_value v : soundQ (EValue v).
  Proof. intros o _ _ Xs k HX Hk. rewrite X_value in HX. inversion HX; subst. destruct Hk. Qed.

  Lemma snd_option k0 dflt dom : Popt soundQ dflt -> soundQ (EOption k0 dflt dom).
  Proof.
    intros Hd o Hwf Hres Xs k HX Hk Hab. rewrite X_option in HX. rewrite rs_va_option, rs_ev_option, rs_option_eval.
    destruct (lookup k0 (JObj o)) as [raw| |] eqn:El; [| |discriminate].
    - exfalso. assert (Hne : k <> k0) by (intros ->; congruence).
      destruct raw; try (inversion HX; subst; destruct Hk as [Hk|[]]; congruence).
      destruct (has_par s); [discriminate|]. apply bindr_ok in HX as [L [HL HX]]. inversion HX; subst.
      destruct Hk as [Hk|Hk]; [congruence|]. destruct (Hres k0 _ El) as [j Hj].
      pose proof (refsr_strict_noee rfuel o s j Hj) as Hn. unfold refsr in *.
      rewrite (rs_unionM_ext _ _ (fun k' => rs (ref_keys unit rfuel false o k'))) in HL by reflexivity.
      rewrite (rs_unionM_ext _ _ (fun k' => rs (ref_keys unit rfuel true o k'))) in Hn by reflexivity.
      destruct (unionr_strict_lenient o _ _ (refs s) (fun k' L' _ => ref_keys_strict_lenient o rfuel k' L') L HL) as [H1 _].
      destruct H1 as [q Hq]; [|rewrite Hq in Hn; destruct Hn].
      apply existsb_exists. exists k. split; [exact Hk|]. unfold absentb. now rewrite Hab.
    - destruct dflt as [d|].
      + destruct (Hd o Hwf Hres Xs k HX Hk Hab) as [Fv Fe]. split; [exact Fv|]. apply fails_wrapr. now apply fails_bindr_l.
      + split; reflexivity.
  Qed.

  Lemma snd_apply a b : soundQ a -> soundQ b -> soundQ (EApply a b).
  Proof.
    intros Ha Hb o Hwf Hres Xs k HX Hk Hab. rewrite X_apply in HX. apply app2_ok in HX as [x1 [x2 [H1 [H2 ->]]]].
    rewrite V_apply, E_apply. apply in_app_or in Hk as [Hk|Hk].
    - destruct (Ha o Hwf Hres x1 k H1 Hk Hab) as [Fv Fe]. split; [now apply fails_bindr_l|apply fails_wrapr; now apply fails_bindr_l].
    - destruct (Hb o Hwf Hres x2 k H2 Hk Hab) as [Fv Fe]. split; [apply fails_bindr_r; auto|].
      apply fails_wrapr, fails_bindr_r. intros x _. now apply fails_bindr_l.
  Qed.

  Lemma snd_forced es b :
    b = B_LIST \/ b = B_TUPLE -> Forall superQ es -> Forall soundQ es -> soundQ (EApply (EIter es) (EValue (VF b [] []))).
  Proof.
    intros Hb HS HQ o Hwf Hres Xs k HX Hk Hab. rewrite X_apply, X_iter, X_value in HX.
    apply app2_ok in HX as [x1 [x2 [H1 [H2 ->]]]]. inversion H2; subst x2. rewrite app_nil_r in Hk.
    rewrite Forall_forall in HQ.
    destruct (sound_unionr es o (fun x Hx => HQ x Hx o Hwf Hres) x1 k H1 Hk Hab) as [x [Hx [Fv Fe]]]. split.
    - rewrite V_apply, V_iter. apply fails_bindr_l. apply (fails_iterr _ _ _ x Hx Fv).
    - destruct (E (EApply (EIter es) (EValue (VF b [] []))) o) as [v|c ee] eqn:Ev; [|reflexivity]. exfalso.
      destruct (forced_inv u rfuel es b o v Hb (Forall_proj1 _ _ _ HS) Ev) as [_ Hall]. destruct (Hall x Hx) as [vx Hvx].
      apply (fails_not_ok _ _ _ Fe Hvx).
  Qed.

  Lemma snd_bind src tbl dflt :
    soundQ src -> Forall (fun ve => soundQ (snd ve)) tbl -> Popt soundQ dflt -> soundQ (EBind src tbl dflt).
  Proof.
    intros Hs Ht Hd o Hwf Hres Xs k HX Hk Hab. rewrite X_bind in HX. apply catchr_insuff_ok in HX. unfold bind_body in HX.
    apply bindr_ok in HX as [a [Ha HX]]. apply bindr_ok in HX as [x [Hx HX]]. apply bindr_ok in HX as [b [Hb HX]].
    inversion HX; subst Xs. rewrite V_bind, E_bind, Hx. cbn [bindr]. apply in_app_or in Hk as [Hk|Hk].
    - exfalso. destruct (Hs o Hwf Hres a k Ha Hk Hab) as [_ Fe]. apply (fails_not_ok _ _ _ Fe Hx).
    - assert (G : fails (pickr x tbl (fun e => V e o) (dfltr dflt (fun e => V e o) (CUser 0) false)) /\
                  fails (pickr x tbl (fun e => E e o) (dfltr dflt (fun e => E e o) (CUser 0) false))).
      { unfold pickr in *. destruct (assoc_v x tbl) as [br|] eqn:Ea.
        - destruct (assoc_v_In _ _ _ Ea) as [w Hw]. apply (Forall_snd_In soundQ tbl w br Ht Hw o Hwf Hres b k Hb Hk Hab).
        - destruct dflt as [d|]; cbn [dfltr] in *; [|discriminate]. apply (Hd o Hwf Hres b k Hb Hk Hab). }
      split; [apply fails_bindr_r; intros _ _; apply G|apply fails_wrapr, G].
  Qed.

  Lemma snd_switch disp tbl dflt :
    soundQ disp -> Forall (fun ve => soundQ (snd ve)) tbl -> Popt soundQ dflt -> soundQ (ESwitch disp tbl dflt).
  Proof.
    intros Hdi Ht Hd o Hwf Hres Xs k HX Hk Hab. rewrite X_switch in HX. rewrite V_switch, E_switch.
    destruct (dispr (E disp o) (is_some dflt)) as [dv|c0 ee0] eqn:Edv; cbn [catchr bindr] in *.
    - destruct dv as [k0|]; cbn [switch_sel switch_keys] in *.
      + destruct (negb (hashable k0)); [discriminate|]. apply app2_ok in HX as [x1 [x2 [H1 [H2 ->]]]].
        apply in_app_or in Hk as [Hk|Hk].
        * assert (G : fails (pickr k0 tbl (fun e => V e o) (dfltr dflt (fun e => V e o) CSwitch true)) /\
                      fails (pickr k0 tbl (fun e => E e o) (dfltr dflt (fun e => E e o) CSwitch true))).
          { unfold pickr in *. destruct (assoc_v k0 tbl) as [br|] eqn:Ea.
            - destruct (assoc_v_In _ _ _ Ea) as [w Hw]. apply (Forall_snd_In soundQ tbl w br Ht Hw o Hwf Hres x1 k H1 Hk Hab).
            - destruct dflt as [d|]; cbn [dfltr] in *; [|discriminate]. apply (Hd o Hwf Hres x1 k H1 Hk Hab). }
          split; [apply G|apply fails_wrapr, G].
        * exfalso. destruct (Hdi o Hwf Hres x2 k H2 Hk Hab) as [_ Fe]. apply dispr_some in Edv. apply (fails_not_ok _ _ _ Fe Edv).
      + destruct dflt as [d|]; cbn [dfltr] in *; [|discriminate].
        destruct (Hd o Hwf Hres Xs k HX Hk Hab) as [Fv Fe]. split; [exact Fv|now apply fails_wrapr].
    - exfalso. destruct (unmodb c0); [discriminate|]. unfold insuffh in HX. destruct ee0; discriminate.
  Qed.

  Lemma snd_case disp cases dflt :
    soundQ disp -> Forall (fun cr => soundQ (fst cr) /\ soundQ (snd cr)) cases -> Popt soundQ dflt ->
    soundQ (ECase disp cases dflt).
  Proof.
    intros Hdi Hc Hd o Hwf Hres Xs k HX Hk Hab. rewrite X_case in HX. apply catchr_insuff_ok in HX. unfold case_body in HX.
    apply bindr_ok in HX as [a [Ha HX]]. apply bindr_ok in HX as [x [Hx HX]]. apply bindr_ok in HX as [s [Hs HX]].
    apply bindr_ok in HX as [b [Hb HX]]. inversion HX; subst Xs. rewrite V_case, E_case, Hx. cbn [bindr]. rewrite Hs. cbn [bindr].
    apply in_app_or in Hk as [Hk|Hk].
    - exfalso. destruct (Hdi o Hwf Hres a k Ha Hk Hab) as [_ Fe]. apply (fails_not_ok _ _ _ Fe Hx).
    - assert (G : fails (case_res s dflt (fun e => V e o)) /\ fails (case_res s dflt (fun e => E e o))).
      { destruct s as [r|]; cbn [case_res] in *.
        - destruct (case_sel_In _ _ _ _ _ _ Hs) as [c Hin]. rewrite Forall_forall in Hc.
          apply (proj2 (Hc (c, r) Hin) o Hwf Hres b k Hb Hk Hab).
        - destruct dflt as [d|]; cbn [dfltr] in *; [|discriminate]. apply (Hd o Hwf Hres b k Hb Hk Hab). }
      split; [apply fails_bindr_r; intros _ _; apply G|apply fails_wrapr, G].
  Qed.

  Lemma coal_inner_ee {A} o (act : expr -> res A) ms :
    (forall m, In m ms -> V m o = Ok tt -> noee (X m o)) ->
    forall last c, coalr (fun m => V m o) (fun m => X m o) ms last = Err c true -> unmodb c = false ->
    fails (coalr (fun m => V m o) act ms last).
  Proof.
    induction ms as [|m ms IH]; intros H last c Hi Hu.
    - destruct last as [[c0 ee0]|]; reflexivity.
    - cbn [coalr] in *. destruct (V m o) as [[]|c1 ee1] eqn:Ev; cbn [bindr] in *.
      + exfalso. pose proof (H m (or_introl eq_refl) Ev) as Hn. destruct (X m o) as [Xm|c2 [|]]; cbn [catchr] in Hi; [discriminate|destruct Hn|].
        destruct (unmodb c2); discriminate.
      + cbn [catchr] in *. destruct (unmodb c1) eqn:U1.
        * inversion Hi; subst. congruence.
        * destruct ee1; [|discriminate]. apply (IH (fun m' Hm' => H m' (or_intror Hm')) _ c Hi Hu).
  Qed.

  Lemma snd_coalesce ms : Forall superQ ms -> Forall soundQ ms -> soundQ (ECoalesce ms).
  Proof.
    intros HS HQ o Hwf Hres Xs k HX Hk Hab. rewrite X_coalesce in HX. rewrite Forall_forall in HS, HQ.
    apply catchr_ok in HX as [HX|[c [ee [Hi [Hu HX]]]]].
    - exfalso. destruct (coalr_ok_inv _ _ ms None Xs HX) as [m [Hin [Hv Hm]]].
      destruct (HQ m Hin o Hwf Hres Xs k Hm Hk Hab) as [Fv _]. apply (fails_not_ok _ _ _ Fv Hv).
    - destruct ee; [|discriminate].
      assert (Hn : forall m, In m ms -> V m o = Ok tt -> noee (X m o)).
      { intros m Hin Hv. apply (proj2 (proj1 (proj2 (HS m Hin) o) Hv)). }
      split.
      + rewrite V_coalesce. apply (coal_inner_ee o _ ms Hn None c Hi Hu).
      + rewrite E_coalesce. apply fails_wrapr. apply (coal_inner_ee o _ ms Hn None c Hi Hu).
  Qed.

  Lemma snd_with f e : soundQ e -> soundQ (EWith f [] e).
  Proof.
    intros He o Hwf Hres Xs k HX Hk Hab. rewrite X_with, filtr_nil in HX. rewrite V_with, rs_ev_with.
    rewrite (with_opts_nil f o Hwf) in *. apply (He o Hwf Hres Xs k HX Hk Hab).
  Qed.
  Lemma snd_cached c e : soundQ e -> soundQ (ECached c e).
  Proof. intros He o Hwf Hres Xs k HX Hk Hab. rewrite X_cached in HX. rewrite V_cached, rs_ev_cached. apply (He o Hwf Hres Xs k HX Hk Hab). Qed.
  Lemma snd_logged e : soundQ e -> soundQ (ELogged e).
  Proof. intros He o Hwf Hres Xs k HX Hk Hab. rewrite X_logged in HX. rewrite V_logged, rs_ev_logged. apply (He o Hwf Hres Xs k HX Hk Hab). Qed.

  Lemma snd_call pa f args kwargs :
    soundQ f -> Forall soundQ args -> Forall soundQ kwargs -> soundQ (ECall pa f args kwargs).
  Proof.
    intros Hf Ha Hk o Hwf Hres Xs k HX Hin Hab. rewrite X_call, call_body_app2 in HX.
    apply app2_ok in HX as [x1 [x23 [G1 [G23 ->]]]]. apply app2_ok in G23 as [x2 [x3 [G2 [G3 ->]]]].
    rewrite Forall_forall in Ha, Hk. rewrite V_call, E_call.
    apply in_app_or in Hin as [Hin|Hin]; [|apply in_app_or in Hin as [Hin|Hin]].
    - destruct (Hf o Hwf Hres x1 k G1 Hin Hab) as [Fv Fe]. split; [now apply fails_bindr_l|apply fails_wrapr; now apply fails_bindr_l].
    - destruct (sound_unionr args o (fun x Hx => Ha x Hx o Hwf Hres) x2 k G2 Hin Hab) as [x [Hx [Fv Fe]]]. split.
      + apply fails_bindr_r. intros _ _. apply fails_bindr_l. apply (fails_iterr _ _ _ x Hx Fv).
      + apply fails_wrapr, fails_bindr_r. intros fv _. apply fails_bindr_l. apply (fails_mapr _ _ _ _ x Hx Fe).
    - destruct (sound_unionr kwargs o (fun x Hx => Hk x Hx o Hwf Hres) x3 k G3 Hin Hab) as [x [Hx [Fv Fe]]]. split.
      + apply fails_bindr_r. intros _ _. apply fails_bindr_r. intros _ _. apply (fails_iterr _ _ _ x Hx Fv).
      + apply fails_wrapr, fails_bindr_r. intros fv _. apply fails_bindr_r. intros av _. apply fails_bindr_l. apply (fails_mapr _ _ _ _ x Hx Fe).
  Qed.

  Lemma snd_comp e effs : soundQ e -> Forall soundQ effs -> soundQ (EComp e effs).
  Proof.
    intros He Hf o Hwf Hres Xs k HX Hk Hab. rewrite X_comp in HX. apply bindr_ok in HX as [a [Ha HX]].
    rewrite Forall_forall in Hf. rewrite V_comp, E_comp.
    assert (Hcase : In k a \/ (effects_opt_off o = false /\ exists b, unionr (fun x => X x o) effs = Ok b /\ In k b)).
    { destruct (effects_opt_off o); [left; now inversion HX; subst|]. apply bindr_ok in HX as [b [Hb HX]]. inversion HX; subst.
      apply in_app_or in Hk as [Hk|Hk]; [now left|right; split; [reflexivity|now exists b]]. }
    destruct Hcase as [Hk'|[Hoff [b [Hb Hk']]]].
    - destruct (He o Hwf Hres a k Ha Hk' Hab) as [Fv Fe]. split; [now apply fails_bindr_l|apply fails_wrapr; now apply fails_bindr_l].
    - rewrite Hoff. destruct (sound_unionr effs o (fun x Hx => Hf x Hx o Hwf Hres) b k Hb Hk' Hab) as [x [Hx [Fv Fe]]]. split.
      + apply fails_bindr_r. intros _ _. apply (fails_iterr _ _ _ x Hx Fv).
      + apply fails_wrapr, fails_bindr_r. intros v _. apply fails_bindr_l. apply (fails_iterr _ _ _ x Hx). unfold effr. now apply fails_bindr_l.
  Qed.

  Lemma snd_pipe steps : Forall soundQ steps -> soundQ (EPipe steps).
  Proof.
    intros HQ o Hwf Hres Xs k HX Hk Hab. rewrite X_pipe in HX. rewrite Forall_forall in HQ.
    destruct (sound_unionr steps o (fun x Hx => HQ x Hx o Hwf Hres) Xs k HX Hk Hab) as [x [Hx [Fv Fe]]].
    rewrite V_pipe, E_pipe. split; [apply (fails_iterr _ _ _ x Hx Fv)|apply fails_wrapr, fails_bindr_l, (fails_mapr _ _ _ _ x Hx Fe)].
  Qed.

  Lemma Forall_proj2 {A} (P Q : A -> Prop) l : Forall (fun a => P a /\ Q a) l -> Forall Q l.
  Proof. intros H. eapply Forall_impl; [|exact H]. now intros a [_ Ha]. Qed.
  Lemma Popt_proj1 (P Q : expr -> Prop) d : Popt (fun e => P e /\ Q e) d -> Popt P d.
  Proof. destruct d; cbn; [now intros [H _]|auto]. Qed.
  Lemma Popt_proj2 (P Q : expr -> Prop) d : Popt (fun e => P e /\ Q e) d -> Popt Q d.
  Proof. destruct d; cbn; [now intros [_ H]|auto]. Qed.

  Theorem sound_main e : fragP pN e = true -> ssQ e.
  Proof.
    apply (fragP_ind pN ssQ).
    - intros v Hc. split; [now apply sup_value|apply snd_value].
    - intros k dflt dom Hd _. split; [apply sup_option; [apply (Popt_proj1 _ _ _ Hd)]|apply snd_option, (Popt_proj2 _ _ _ Hd)].
    - intros a b [Sa Na] [Sb Nb] _. split; [now apply sup_apply|now apply snd_apply].
    - intros es b _ Hb HQ. split; [apply sup_forced; [exact Hb|apply (Forall_proj1 _ _ _ HQ)]|].
      apply snd_forced; [exact Hb|apply (Forall_proj1 _ _ _ HQ)|apply (Forall_proj2 _ _ _ HQ)].
    - intros src tbl dflt [Ss Ns] Ht Hd _. split.
      + apply sup_bind; [exact Ss|apply (Forall_proj1 (fun ve => superQ (snd ve)) _ _ Ht)|apply (Popt_proj1 _ _ _ Hd)].
      + apply snd_bind; [exact Ns|apply (Forall_proj2 (fun ve => superQ (snd ve)) _ _ Ht)|apply (Popt_proj2 _ _ _ Hd)].
    - intros disp tbl dflt [Ss Ns] Ht Hd. split.
      + apply sup_switch; [exact Ss|apply (Forall_proj1 (fun ve => superQ (snd ve)) _ _ Ht)|apply (Popt_proj1 _ _ _ Hd)].
      + apply snd_switch; [exact Ns|apply (Forall_proj2 (fun ve => superQ (snd ve)) _ _ Ht)|apply (Popt_proj2 _ _ _ Hd)].
    - intros disp cases dflt [Ss Ns] Hc Hd _. split.
      + apply sup_case; [exact Ss| |apply (Popt_proj1 _ _ _ Hd)].
        eapply Forall_impl; [|exact Hc]. intros a [[H1 _] [H2 _]]. now split.
      + apply snd_case; [exact Ns| |apply (Popt_proj2 _ _ _ Hd)].
        eapply Forall_impl; [|exact Hc]. intros a [[_ H1] [_ H2]]. now split.
    - intros ms _ HQ. split; [apply sup_coalesce; [apply (Forall_proj1 _ _ _ HQ)]|].
      apply snd_coalesce; [apply (Forall_proj1 _ _ _ HQ)|apply (Forall_proj2 _ _ _ HQ)].
    - intros es Hl. discriminate Hl.
    - intros force pr e0 [-> |Hp] [Se Ne]; [|discriminate Hp]. split; [now apply sup_with|now apply snd_with].
    - intros c e0 [Se Ne]. split; [now apply sup_cached|now apply snd_cached].
    - intros pa f args kwargs [Sf Nf] Ha Hk _. split.
      + apply sup_call; [exact Hclean|exact Sf|apply (Forall_proj1 _ _ _ Ha)|apply (Forall_proj1 _ _ _ Hk)].
      + apply snd_call; [exact Nf|apply (Forall_proj2 _ _ _ Ha)|apply (Forall_proj2 _ _ _ Hk)].
    - intros s ps Ht. discriminate Ht.
    - intros e0 effs _ [Se Ne] Hf _. split; [apply sup_comp; [exact Se|apply (Forall_proj1 _ _ _ Hf)]|apply snd_comp; [exact Ne|apply (Forall_proj2 _ _ _ Hf)]].
    - intros e0 [Se Ne]. split; [now apply sup_logged|now apply snd_logged].
    - intros steps HQ. split; [apply sup_pipe, (Forall_proj1 _ _ _ HQ)|apply snd_pipe, (Forall_proj2 _ _ _ HQ)].
    - intros Ha. discriminate Ha.
  Qed.
End Sound.

(** ** Part F: the sentences of C11 on the observed reference functions *)
Theorem explain_superset_nc u fuel e o Xs Ks :
  clean_u u -> fragP pC e = true ->
  fst (explain_nc u fuel e o) = Ok Xs -> fst (keys_nc u fuel e o) = Ok Ks -> incl Ks Xs.
Proof.
  intros Hu Hf HX HK. rewrite explain_nc_rs in HX. rewrite keys_nc_rs in HK.
  apply (proj2 (proj2 (proj2 (super_main u fuel Hu e Hf) o)) Ks Xs HK HX).
Qed.

(** when validate() passes, explain() does not raise an EvaluationError (in particular not
    InsufficientInformationError), and neither does keys() *)
Theorem validate_ok_explain_keys_no_evaluation_error_nc u fuel e o :
  clean_u u -> fragP pC e = true -> fst (validate_nc u fuel e o) = Ok tt ->
  (forall c, fst (keys_nc u fuel e o) <> Err c true) /\ (forall c, fst (explain_nc u fuel e o) <> Err c true).
Proof.
  intros Hu Hf HV. rewrite validate_nc_rs in HV. rewrite keys_nc_rs, explain_nc_rs.
  destruct (proj1 (proj2 (super_main u fuel Hu e Hf) o) HV) as [Nk Nx].
  split; intros c H; [rewrite H in Nk; exact Nk|rewrite H in Nx; exact Nx].
Qed.

Theorem missing_key_is_listed_nc u fuel e o k ee Xs :
  no_fabricated_missing u -> fragP pM e = true -> wf_dict o = true -> resolves fuel o ->
  fst (validate_nc u fuel e o) = Err (CKey k) ee -> fst (explain_nc u fuel e o) = Ok Xs ->
  In k Xs /\ lookup k (JObj o) = Absent.
Proof.
  intros Hu Hf Hwf Hres HV HX. rewrite validate_nc_rs in HV. rewrite explain_nc_rs in HX.
  apply (listed_main u fuel Hu e Hf o Hwf Hres k ee Xs HV HX).
Qed.

Theorem explain_complete_nc u fuel e o Xs :
  no_fabricated_missing u -> fragP pM e = true -> wf_dict o = true -> resolves fuel o ->
  fst (explain_nc u fuel e o) = Ok Xs -> (forall k, In k Xs -> lookup k (JObj o) <> Absent) ->
  forall k ee, fst (validate_nc u fuel e o) <> Err (CKey k) ee.
Proof.
  intros Hu Hf Hwf Hres HX Hall k ee HV.
  destruct (missing_key_is_listed_nc u fuel e o k ee Xs Hu Hf Hwf Hres HV HX) as [Hin Hab]. apply (Hall k Hin Hab).
Qed.

Theorem explain_sound_nc u fuel e o Xs k :
  clean_u u -> fragP pN e = true -> wf_dict o = true -> resolves fuel o ->
  fst (explain_nc u fuel e o) = Ok Xs -> In k Xs -> lookup k (JObj o) = Absent ->
  okb (fst (validate_nc u fuel e o)) = false /\ okb (fst (eval_nc u fuel e o)) = false.
Proof.
  intros Hu Hf Hwf Hres HX Hk Hab. rewrite explain_nc_rs in HX. rewrite validate_nc_rs, eval_nc_rs.
  destruct (proj2 (sound_main u fuel Hu e Hf) o Hwf Hres Xs k HX Hk Hab) as [Fv Fe]. split; [exact Fv|].
  destruct (rs (eval _ _ _ _ _ _ _ e o)); [discriminate Fe|reflexivity].
Qed.

Theorem explain_fails_only_insufficient_nc u fuel e o c ee :
  fst (explain_nc u fuel e o) = Err c ee ->
  (ee = true -> c = CInsuff \/ c = CUnmodelled) /\
  (ee = false -> c = CType \/ c = CUnmodelled \/ c = CFuel \/ exists n, c = CUser n).
Proof.
  intros H. rewrite explain_nc_rs in H. pose proof (proj2 (fails_all u fuel e o)) as F. rewrite H in F. cbn [okerr] in F.
  split; intros ->; cbn in F.
  - destruct c; cbn in F; try congruence; auto.
  - destruct c; cbn in F; try congruence; auto. right; right; right. now exists n.
Qed.

(** *** a concrete dictionary satisfying the side conditions, and closed witnesses *)
Definition o_A1 : dict := [(SName 10, JInt 1)].
Lemma resolves_nil : resolves 40 [].
Proof.
  intros k raw H. destruct k as [|s k]; [inversion H; subst; eexists; reflexivity|].
  cbn in H. destruct s; discriminate H.
Qed.
Lemma resolves_single a z : resolves 40 [(SName a, JInt z)].
Proof.
  intros k raw H. destruct k as [|s k]; [inversion H; subst; eexists; reflexivity|].
  cbn [lookup] in H. destruct s as [n|i]; [|discriminate]. cbn in H.
  destruct (N.eqb n a); cbn in H; [|discriminate].
  destruct k as [|s' k']; cbn in H; [inversion H; subst; eexists; reflexivity|discriminate].
Qed.
Lemma resolves_o_A1 : resolves 40 o_A1.
Proof. apply resolves_single. Qed.
Definition o_Q1 : dict := [(SName 14, JInt 1)].
Lemma resolves_o_Q1 : resolves 40 o_Q1.
Proof. apply resolves_single. Qed.

(** switch(Option('A', 2), {1: Option('B'), 2: f(Option('Q'))}) *)
Definition sw_expr : expr :=
  ESwitch (EOption kA (Some (EValue (VJ (JInt 2)))) None)
          [(VJ (JInt 1), EOption kB None None); (VJ (JInt 2), body 100 [EOption kQ None None])] None.
(** D4: Option('A', domain=Option('P')) *)
Definition d4x_expr : expr := EOption kA None (Some (EOption kP None None)).
(** D1: Option('A') on {'A': ['{B}']} *)
Definition d1_opts : dict := [(SName 10, JList [JStr [TRef kB]])].
(** D6: Option('S.X', default=1) on {'S': 5} *)
Definition d6_expr : expr := EOption [SName 20; SName 21] (Some (EValue (VJ (JInt 1)))) None.
Definition d6_opts : dict := [(SName 20, JInt 5)].
Lemma u_total_clean : clean_u u_total.
Proof. intros f args v _ H. inversion H. reflexivity. Qed.
Lemma u_partial_clean : clean_u u_partial.
Proof. intros f args v _ H. unfold u_partial in H. destruct (existsb _ args); inversion H. reflexivity. Qed.

(** ** Part G (property C10): validate, keys and evaluate succeed or fail together when bodies are
    total.  Fragment [pA]: function positions hold callables by syntax, an Option's domain is a
    constant and only on Options without default (finding D4), no effects (finding D9), no
    Template (D13), no pre-set dictionaries, no bare lazy Iter, no Map.  Dictionary: well-formed,
    every value resolves (templated values included: finding D1 lives in the values that do not),
    no option name of the range the model reserves for Template parameters ([no_par]). *)
Definition pA : fopts :=
  {| f_coalesce := true; f_lazy := false; f_template := false; f_effects := false; f_dom := true;
     f_domdflt := false; f_presets := false; f_partialbind := true; f_alloptions := true;
     f_domexpr := false; f_untyped := false |}.

Definition total_u (u : N -> list value -> cres) : Prop := forall f args, exists v, u f args = COk v.
Lemma ufun_compose l post : (forall x, In x l -> ufun x = true) -> ufun (VF B_COMPOSE l post) = true.
Proof.
  intros H. cbn [ufun]. rewrite N.eqb_refl. induction l as [|x l IH]; [reflexivity|].
  rewrite (H x (or_introl eq_refl)). cbn [andb]. apply IH. intros y Hy. apply H. now right.
Qed.
Lemma ufun_compose_inv l post : ufun (VF B_COMPOSE l post) = true -> forall x, In x l -> ufun x = true.
Proof.
  cbn [ufun]. rewrite N.eqb_refl. induction l as [|y l IH]; intros H x Hx; [destruct Hx|].
  apply andb_prop in H as [Hy Hl]. destruct Hx as [<-|Hx]; [exact Hy|now apply IH].
Qed.

Section Total.
  Variable u : N -> list value -> cres.
  Hypothesis Htot : total_u u.
  Hypothesis Hclean : clean_u u.
  Notation vsc := (vsgood (fun _ => true)).

  Lemma call_fun_total f args : builtin f = false -> vsc args = true -> exists y, rs (call_fun unit u f args) = Ok y.
  Proof.
    intros Hb Ha. rewrite rs_call_fun. unfold builtin in Hb.
    apply orb_false_elim in Hb as [Hb H3]. apply orb_false_elim in Hb as [H1 H2]. rewrite H1, H2, H3.
    unfold user_call. destruct (deep_err_list args) as [c|] eqn:D.
    - pose proof (deep_err_list_good (fun _ => true) args Ha c D). discriminate.
    - destruct (Htot f (map listify args)) as [v ->]. now exists v.
  Qed.

  Lemma call_value_total f : forall x, ufun f = true -> vclean f = true -> vclean x = true ->
    exists y, rs (call_value unit u f x) = Ok y.
  Proof.
    induction f using value_ind'; intros x Hu Hc Hx; try discriminate.
    rewrite call_value_VF. unfold vclean in Hc. cbn [vgood] in Hc. apply andb_prop in Hc as [Hpre Hpost].
    destruct (N.eqb f B_COMPOSE) eqn:Ec.
    - apply N.eqb_eq in Ec. subst f. pose proof (ufun_compose_inv pre post Hu) as Hall. clear Hu Hpost H0.
      revert x Hx. induction pre as [|g pre IH]; intros x Hx; [now exists x|].
      cbn [compose_go]. rewrite rs_bind. cbn [forallb] in Hpre. apply andb_prop in Hpre as [Hg Hpre].
      inversion H; subst. destruct (H2 x (Hall g (or_introl eq_refl)) Hg Hx) as [y Hy]. rewrite Hy. cbn [bindr].
      apply (IH H3 Hpre (fun z Hz => Hall z (or_intror Hz)) y).
      apply (call_value_ok (fun _ => true) u Hclean g x y Hg Hx Hy).
    - cbn [ufun] in Hu. rewrite Ec in Hu. apply negb_true_iff in Hu. apply call_fun_total; [exact Hu|].
      unfold vsgood. rewrite !forallb_app. cbn [forallb]. unfold vclean in Hx. now rewrite Hpre, Hx, Hpost.
  Qed.

  Lemma in_domain_total d j : domval d = true -> vclean d = true ->
    rs (in_domain unit u d (VJ j)) = Ok tt \/ rs (in_domain unit u d (VJ j)) = Err CDomain false.
  Proof.
    intros Hd Hc. unfold in_domain. destruct d as [jd|t args|f pre post| |c0]; try (now left).
    - destruct (elements_of (VJ jd)) as [els|]; [|now left]. destruct (existsb _ els); [now left|now right].
    - destruct (elements_of (VT t args)) as [els|]; [|now left]. destruct (existsb _ els); [now left|now right].
    - rewrite rs_bind. destruct (call_value_total (VF f pre post) (VJ j) Hd Hc eq_refl) as [b ->]. cbn [bindr].
      destruct (truthy b); [now left|now right].
  Qed.
End Total.

Lemma okb_bindr_ok A B (r : res A) (f : A -> res B) a : r = Ok a -> okb (bindr r f) = okb (f a).
Proof. now intros ->. Qed.
Lemma fails_unionr_of {A} (f : A -> res (list key)) l x : In x l -> fails (f x) -> fails (unionr f l).
Proof.
  induction l as [|a l IH]; intros Hx Hf; [destruct Hx|]. cbn [unionr]. destruct Hx as [->|Hx].
  - now apply fails_bindr_l.
  - apply fails_bindr_r. intros b _. apply fails_bindr_l. now apply IH.
Qed.
Lemma fails_unionr_some {A} (f : A -> res (list key)) l : fails (unionr f l) -> exists x, In x l /\ fails (f x).
Proof.
  unfold fails. destruct (unionr f l) as [K|c ee] eqn:E; [discriminate|]. intros _.
  apply unionr_err in E as [x [Hx E]]. exists x. split; [exact Hx|]. now rewrite E.
Qed.
Lemma okb_iterr_mapr {A B} (f : A -> res unit) (g : A -> res B) l :
  (forall x, In x l -> okb (f x) = okb (g x)) -> okb (iterr f l) = okb (mapr g l).
Proof.
  induction l as [|a l IH]; intros H; [reflexivity|]. cbn [iterr mapr].
  pose proof (H a (or_introl eq_refl)) as Ha. specialize (IH (fun x Hx => H x (or_intror Hx))).
  destruct (f a) as [[]|c ee], (g a) as [b|c' ee']; cbn in Ha; try discriminate; cbn [bindr]; [|reflexivity].
  destruct (mapr g l); cbn [bindr okb] in *; exact IH.
Qed.
Lemma fails_app2_l x y : fails x -> fails (app2 x y). Proof. apply fails_bindr_l. Qed.
Lemma fails_app2_r x y : fails y -> fails (app2 x y).
Proof. intros H. apply fails_bindr_r. intros a _. now apply fails_bindr_l. Qed.
Lemma fails_app2_inv x y : fails (app2 x y) -> fails x \/ fails y.
Proof. unfold app2, fails. destruct x; cbn; [|now left]. destruct y; cbn; [discriminate|now right]. Qed.
Lemma okb_false_fails A (r : res A) : okb r = false <-> fails r. Proof. reflexivity. Qed.
Lemma ok_not_fails A (r : res A) a : r = Ok a -> fails r -> False. Proof. intros -> H. discriminate H. Qed.
Lemma err_fails A (r : res A) c ee : r = Err c ee -> fails r. Proof. now intros ->. Qed.
Lemma fails_cases A (r : res A) : (exists a, r = Ok a) \/ fails r.
Proof. destruct r; [left; now eexists|now right]. Qed.

Section Agree.
  Variable u : N -> list value -> cres.
  Variable rfuel : nat.
  Hypothesis Htot : total_u u.
  Hypothesis Hclean : clean_u u.
  Notation ev := (eval unit nc_find nc_store cfg_nc u rfuel (fun _ _ => true)).
  Notation va := (validate unit nc_find nc_store cfg_nc u rfuel (fun _ _ => true)).
  Notation ks := (keys unit nc_find nc_store cfg_nc u rfuel (fun _ _ => true)).
  Local Notation E e o := (rs (ev e o)) (only parsing).
  Local Notation V e o := (rs (va e o)) (only parsing).
  Local Notation K e o := (rs (ks e o)) (only parsing).
  Notation cleanQ := (cleanQ u rfuel).
  Notation vsc := (vsgood (fun _ => true)).

  Definition SC (o : dict) : Prop := wf_dict o = true /\ resolves rfuel o /\ no_par o = true.
  Definition AG (e : expr) (o : dict) : Prop :=
    okb (V e o) = okb (E e o) /\
    (fails (K e o) -> fails (E e o)) /\
    (forall c ee, E e o = Err c ee -> c <> CDomain -> fails (K e o)).
  Definition agQ (e : expr) : Prop :=
    cleanQ e /\ (forall o, SC o -> AG e o) /\ (fnexprb e = true -> forall o v, E e o = Ok v -> ufun v = true).

  Lemma ag_K_ok e o v : AG e o -> E e o = Ok v -> exists L, K e o = Ok L.
  Proof. intros [_ [Hb _]] Hv. destruct (fails_cases _ (K e o)) as [H|H]; [exact H|]. exfalso. apply (ok_not_fails _ _ _ Hv (Hb H)). Qed.
  Lemma ag_V_ok e o v : AG e o -> E e o = Ok v -> V e o = Ok tt.
  Proof. intros [Ha _] Hv. rewrite Hv in Ha. destruct (V e o) as [[]|]; [reflexivity|discriminate]. Qed.
  Lemma ag_V_fails e o : AG e o -> fails (E e o) -> fails (V e o).
  Proof. intros [Ha _] H. unfold fails in *. now rewrite Ha. Qed.
  Lemma ag_all_fail e o : fails (V e o) -> fails (E e o) -> fails (K e o) -> AG e o.
  Proof. intros Hv He Hk. split; [unfold fails in *; now rewrite Hv, He|]. split; [intros _; exact He|intros; exact Hk]. Qed.

  (** *** leaves *)
  Lemma ag_value v : vclean v = true -> agQ (EValue v).
  Proof.
    intros Hc. split; [now apply clean_value|]. split.
    - intros o _. split; [reflexivity|]. split; [intros H; discriminate H|intros c ee H; discriminate H].
    - intros Hf o w H. rewrite E_value in H. inversion H; subst. exact Hf.
  Qed.

  Lemma ag_option k dflt dom :
    Popt agQ dflt ->
    match dflt, dom with
    | None, Some de => exists d, de = EValue d /\ vclean d = true /\ domval d = true
    | Some _, Some _ => False
    | _, None => True
    end -> agQ (EOption k dflt dom).
  Proof.
    intros Hd Hdom. split; [apply clean_option; destruct dflt; [apply Hd|exact I]|]. split; [|discriminate].
    intros o [Hwf [Hres Hun]]. unfold AG. rewrite rs_va_option, rs_ev_option, rs_option_eval, K_option.
    destruct (lookup k (JObj o)) as [raw| |] eqn:El.
    - destruct (Hres k raw El) as [j Hj]. rewrite Hj. cbn [of_rres]. rewrite rs_ret. cbn [bindr].
      assert (HK : exists L, match raw with
                             | JStr s => if has_par s then Err CUnmodelled false else bindr (refsr rfuel true o s) (fun l => Ok (k :: l))
                             | _ => Ok [k] end = Ok L).
      { destruct raw; try (now eexists). destruct (resolved_keys_ok o Hun rfuel s j Hj) as [Hp [L HL]].
        rewrite Hp, HL. now eexists. }
      destruct HK as [L HL]. rewrite HL.
      assert (Hdc : dom_check u rfuel dom o (VJ j) = Ok (VJ j) \/ dom_check u rfuel dom o (VJ j) = Err CDomain false).
      { destruct dom as [de|]; [|now left]. destruct dflt; [destruct Hdom|]. destruct Hdom as [d [-> [Hc Hv]]].
        cbn [dom_check]. rewrite E_value. cbn [bindr].
        destruct (in_domain_total u Htot Hclean d j Hv Hc) as [-> | ->]; [now left|now right]. }
      destruct Hdc as [-> | ->]; cbn [wrapr bindr okb].
      + split; [reflexivity|]. split; [intros H; discriminate H|intros c ee H; discriminate H].
      + split; [reflexivity|]. split; [intros H; discriminate H|]. intros c ee H Hc. inversion H; subst. congruence.
    - destruct dflt as [d|].
      + destruct dom; [destruct Hdom|]. destruct Hd as [_ [Hd _]]. destruct (Hd o (conj Hwf (conj Hres Hun))) as [Ha [Hb Hc]].
        assert (Ew : wrapr (bindr (E d o) (dom_check u rfuel None o)) = E d o).
        { cbn [dom_check]. destruct (E d o) as [v|c ee] eqn:Ed; [reflexivity|]. cbn. f_equal. now apply ev_err_ee in Ed. }
        rewrite Ew. split; [exact Ha|]. split; [exact Hb|exact Hc].
      + split; [reflexivity|]. split; [intros _; reflexivity|intros; reflexivity].
    - split; [reflexivity|]. split; [intros _; reflexivity|intros; reflexivity].
  Qed.

  (** *** Apply *)
  Lemma ag_apply src fn : agQ src -> agQ fn -> fnexprb fn = true -> agQ (EApply src fn).
  Proof.
    intros [Cs [Hs _]] [Cf [Hf Hd]] Hty. split; [now apply clean_apply|]. split; [|discriminate].
    intros o Hsc. pose proof (Hs o Hsc) as As. pose proof (Hf o Hsc) as Af. unfold AG.
    rewrite V_apply, E_apply, K_apply.
    destruct (E src o) as [x|c ee] eqn:Ex.
    - destruct (ag_K_ok _ _ _ As Ex) as [Lx HLx]. rewrite (ag_V_ok _ _ _ As Ex), HLx. cbn [bindr app2].
      destruct (E fn o) as [f|c ee] eqn:Ef.
      + destruct (ag_K_ok _ _ _ Af Ef) as [Lf HLf]. rewrite (ag_V_ok _ _ _ Af Ef), HLf. cbn [bindr].
        destruct (call_value_total u Htot Hclean f x (Hd Hty o f Ef) (Cf o f Ef) (Cs o x Ex)) as [y ->]. cbn.
        split; [reflexivity|]. split; [intros H; discriminate H|intros c ee H; discriminate H].
      + cbn [bindr wrapr okb]. rewrite (ag_V_fails _ _ Af (err_fails _ _ _ _ Ef)). split; [reflexivity|]. split; [intros _; reflexivity|].
        intros c0 ee0 H Hc. inversion H; subst. apply fails_bindr_l. apply (proj2 (proj2 Af) c0 ee Ef Hc).
    - cbn [bindr wrapr okb]. rewrite (fails_bindr_l _ _ _ _ (ag_V_fails _ _ As (err_fails _ _ _ _ Ex))).
      split; [reflexivity|]. split; [intros _; reflexivity|]. intros c0 ee0 H Hc. inversion H; subst.
      apply fails_bindr_l. apply (proj2 (proj2 As) c0 ee Ex Hc).
  Qed.

  (** *** list()/tuple() of an Iter *)
  Lemma iter_shape o es : Forall cleanQ es ->
    match rs (iter_go u rfuel o es) with
    | Ok vs => (vsc vs = true /\ forall x, In x es -> exists v, E x o = Ok v) \/
               (exists x c ee, In x es /\ E x o = Err c ee /\ first_err vs = Some c)
    | Err c ee => exists x ee', In x es /\ E x o = Err c ee'
    end.
  Proof.
    induction es as [|x es IH]; intros HQ; [left; split; [reflexivity|intros ? []]|].
    inversion HQ as [|? ? Hx HQ']; subst. specialize (IH HQ'). rewrite rs_iter_cons.
    destruct (E x o) as [v|c ee] eqn:Ex; cbn [bindr].
    - pose proof (Hx o v Ex) as Hv. rewrite (vclean_deep_err v Hv). cbn [is_some].
      destruct (rs (iter_go u rfuel o es)) as [vs|c ee]; cbn [bindr catchr].
      + destruct IH as [[Hc Hall]|[y [c [ee [Hy [Ey Hf]]]]]].
        * left. split; [unfold vsgood, vclean in *; cbn [forallb]; now rewrite Hv, Hc|].
          intros z [<-|Hz]; [now exists v|now apply Hall].
        * right. exists y, c, ee. split; [now right|]. split; [exact Ey|]. destruct v; try exact Hf. discriminate Hv.
      + destruct IH as [y [ee' [Hy Ey]]]. destruct (unmodb c) eqn:Un.
        * exists y, ee'. split; [now right|exact Ey].
        * right. exists y, c, ee'. split; [now right|]. split; [exact Ey|reflexivity].
    - cbn [catchr]. destruct (unmodb c).
      + exists x, ee. split; [now left|exact Ex].
      + right. exists x, c, ee. split; [now left|]. split; [exact Ex|reflexivity].
  Qed.

  Lemma forced_result es b o : b = B_LIST \/ b = B_TUPLE -> Forall cleanQ es ->
    (exists v, E (EApply (EIter es) (EValue (VF b [] []))) o = Ok v /\ forall x, In x es -> exists vx, E x o = Ok vx) \/
    (exists c ee x ee', E (EApply (EIter es) (EValue (VF b [] []))) o = Err c ee /\ In x es /\ E x o = Err c ee').
  Proof.
    intros Hb HQ. rewrite E_apply, E_iter, E_value. pose proof (iter_shape o es HQ) as Sh.
    assert (Hnc : N.eqb b B_COMPOSE = false) by (destruct Hb as [-> | ->]; reflexivity).
    destruct (rs (iter_go u rfuel o es)) as [vs|c ee]; cbn [bindr wrapr].
    - rewrite call_value_VF, Hnc. cbn [app]. rewrite rs_call_fun.
      assert (Hcore : forall t, 
                (exists v, wrapr (bindr (rs (force_elems unit (VT T_ITER vs))) (fun els => Ok (VT t els))) = Ok v /\
                           forall x, In x es -> exists vx, E x o = Ok vx) \/
                (exists c ee x ee', wrapr (bindr (rs (force_elems unit (VT T_ITER vs))) (fun els => Ok (VT t els))) = Err c ee /\
                                    In x es /\ E x o = Err c ee')).
      { intros t. rewrite rs_force_elems. change (elements_of (VT T_ITER vs)) with (Some vs).
        destruct Sh as [[Hc Hall]|[y [c [ee [Hy [Ey Hf]]]]]].
        - rewrite (vsclean_first_err vs Hc). left. eexists. split; [reflexivity|exact Hall].
        - rewrite Hf. right. exists c, true, y, ee. split; [reflexivity|]. split; [exact Hy|exact Ey]. }
      destruct Hb as [-> | ->]; cbn; apply Hcore.
    - destruct Sh as [y [ee' [Hy Ey]]]. right. exists c, true, y, ee'. split; [reflexivity|]. split; [exact Hy|exact Ey].
  Qed.

  Lemma ag_forced es b : b = B_LIST \/ b = B_TUPLE -> Forall agQ es -> agQ (EApply (EIter es) (EValue (VF b [] []))).
  Proof.
    intros Hb HQ. pose proof (Forall_proj1 _ _ _ HQ) as HC. split; [now apply clean_forced|]. split; [|discriminate].
    intros o Hsc. rewrite Forall_forall in HQ. unfold AG.
    rewrite V_apply, V_iter, V_value, K_apply, K_iter, K_value.
    destruct (forced_result es b o Hb HC) as [[v [Ev Hall]]|[c [ee [x [ee' [Ev [Hx Ex]]]]]]]; rewrite Ev.
    - assert (Hv : iterr (fun x => V x o) es = Ok tt).
      { apply iterr_ok. intros x Hx. destruct (Hall x Hx) as [vx Hvx]. apply (ag_V_ok _ _ _ (proj1 (proj2 (HQ x Hx)) o Hsc) Hvx). }
      destruct (unionr_all_ok (fun x => K x o) es) as [L HL].
      { intros x Hx. destruct (Hall x Hx) as [vx Hvx]. apply (ag_K_ok _ _ _ (proj1 (proj2 (HQ x Hx)) o Hsc) Hvx). }
      rewrite Hv, HL. cbn. split; [reflexivity|]. split; [intros H; discriminate H|intros c ee H; discriminate H].
    - pose proof (proj1 (proj2 (HQ x Hx)) o Hsc) as Ax.
      rewrite (fails_bindr_l _ _ _ _ (fails_iterr _ _ _ x Hx (ag_V_fails _ _ Ax (err_fails _ _ _ _ Ex)))).
      split; [reflexivity|]. split; [intros _; reflexivity|]. intros c0 ee0 H Hc. inversion H; subst.
      apply fails_app2_l. apply (fails_unionr_of _ _ x Hx). apply (proj2 (proj2 Ax) c0 ee' Ex Hc).
  Qed.

  (** *** choosers: the same branch is taken by the three methods *)
  Lemma ag_branch (tbl : list (value * expr)) dflt o x c ee :
    (forall b, (exists w, In (w, b) tbl) \/ dflt = Some b -> AG b o) ->
    okb (pickr x tbl (fun b => V b o) (dfltr dflt (fun b => V b o) c ee)) =
      okb (pickr x tbl (fun b => E b o) (dfltr dflt (fun b => E b o) c ee)) /\
    (fails (pickr x tbl (fun b => K b o) (dfltr dflt (fun b => K b o) c ee)) ->
       fails (pickr x tbl (fun b => E b o) (dfltr dflt (fun b => E b o) c ee))) /\
    (forall c0 ee0, pickr x tbl (fun b => E b o) (dfltr dflt (fun b => E b o) c ee) = Err c0 ee0 -> c0 <> CDomain ->
       fails (pickr x tbl (fun b => K b o) (dfltr dflt (fun b => K b o) c ee))).
  Proof.
    intros H. unfold pickr. destruct (assoc_v x tbl) as [b|] eqn:Ea.
    - destruct (assoc_v_In _ _ _ Ea) as [w Hw]. apply (H b). left. now exists w.
    - destruct dflt as [d|]; cbn [dfltr]; [apply (H d); now right|].
      split; [reflexivity|]. split; [intros _; reflexivity|intros; reflexivity].
  Qed.

  Lemma ag_sub (tbl : list (value * expr)) dflt :
    Forall (fun ve => agQ (snd ve)) tbl -> Popt agQ dflt ->
    forall o, SC o -> forall b, (exists w, In (w, b) tbl) \/ dflt = Some b -> AG b o.
  Proof.
    intros Ht Hd o Hsc b [[w Hw]| ->]; [apply (proj1 (proj2 (Forall_snd_In agQ tbl w b Ht Hw)) o Hsc)|apply (proj1 (proj2 Hd) o Hsc)].
  Qed.

  Lemma ag_bind src tbl dflt :
    agQ src -> Forall (fun ve => agQ (snd ve)) tbl -> Popt agQ dflt -> agQ (EBind src tbl dflt).
  Proof.
    intros [Cs [Hs _]] Ht Hd. split.
    { apply clean_bind; [eapply Forall_impl; [|exact Ht]; now intros a [Ha _]|destruct dflt; [apply Hd|exact I]]. }
    split; [|discriminate]. intros o Hsc. pose proof (Hs o Hsc) as As. unfold AG.
    rewrite V_bind, E_bind, K_bind. unfold bind_body.
    destruct (E src o) as [x|c ee] eqn:Ex.
    - destruct (ag_K_ok _ _ _ As Ex) as [Lx HLx]. rewrite (ag_V_ok _ _ _ As Ex), HLx. cbn [bindr].
      destruct (ag_branch tbl dflt o x (CUser 0) false (ag_sub tbl dflt Ht Hd o Hsc)) as [Ba [Bb Bc]].
      rewrite okb_wrapr. split; [exact Ba|]. split.
      + intros H. apply fails_wrapr, Bb. destruct (pickr x tbl (fun b => K b o) _); [discriminate H|reflexivity].
      + intros c0 ee0 H Hc. destruct (pickr x tbl (fun b => E b o) _) as [v|c1 ee1] eqn:Ep; [discriminate H|].
        inversion H; subst. apply fails_bindr_l. apply (Bc c0 ee1 eq_refl Hc).
    - cbn [bindr wrapr okb]. rewrite (fails_bindr_l _ _ _ _ (ag_V_fails _ _ As (err_fails _ _ _ _ Ex))).
      split; [reflexivity|]. split; [intros _; reflexivity|]. intros c0 ee0 _ _. apply fails_bindr_r. intros a _. reflexivity.
  Qed.

  Lemma ag_switch disp tbl dflt :
    agQ disp -> Forall (fun ve => agQ (snd ve)) tbl -> Popt agQ dflt -> agQ (ESwitch disp tbl dflt).
  Proof.
    intros [Cd [Hdi _]] Ht Hd. split.
    { apply clean_switch; [eapply Forall_impl; [|exact Ht]; now intros a [Ha _]|destruct dflt; [apply Hd|exact I]]. }
    split; [|discriminate]. intros o Hsc. pose proof (Hdi o Hsc) as Ad. unfold AG.
    rewrite V_switch, E_switch, K_switch.
    destruct (dispr (E disp o) (is_some dflt)) as [dv|c ee] eqn:Edv; cbn [bindr].
    - destruct dv as [k|]; cbn [switch_sel switch_keys].
      + destruct (negb (hashable k)).
        { cbn. split; [reflexivity|]. split; [intros _; reflexivity|intros; reflexivity]. }
        apply dispr_some in Edv. destruct (ag_K_ok _ _ _ Ad Edv) as [Ld HLd]. rewrite HLd.
        destruct (ag_branch tbl dflt o k CSwitch true (ag_sub tbl dflt Ht Hd o Hsc)) as [Ba [Bb Bc]].
        rewrite okb_wrapr. split; [exact Ba|]. split.
        * intros H. apply fails_wrapr, Bb. apply fails_app2_inv in H as [H|H]; [exact H|discriminate H].
        * intros c0 ee0 H Hc. destruct (pickr k tbl (fun b => E b o) _) as [v|c1 ee1] eqn:Ep; [discriminate H|].
          inversion H; subst. apply fails_app2_l. apply (Bc c0 ee1 eq_refl Hc).
      + destruct dflt as [d|]; cbn [dfltr].
        * destruct (proj1 (proj2 Hd) o Hsc) as [Da [Db Dc]]. rewrite okb_wrapr. split; [exact Da|]. split.
          -- intros H. apply fails_wrapr, Db, H.
          -- intros c0 ee0 H Hc. destruct (E d o) as [v|c1 ee1] eqn:Ed; [discriminate H|]. inversion H; subst. apply (Dc c0 ee1 eq_refl Hc).
        * cbn. split; [reflexivity|]. split; [intros _; reflexivity|intros; reflexivity].
    - cbn. split; [reflexivity|]. split; [intros _; reflexivity|intros; reflexivity].
  Qed.

  Lemma ag_case_res s dflt o :
    (forall b, s = Some b \/ (s = None /\ dflt = Some b) -> AG b o) ->
    okb (case_res s dflt (fun b => V b o)) = okb (case_res s dflt (fun b => E b o)) /\
    (fails (case_res s dflt (fun b => K b o)) -> fails (case_res s dflt (fun b => E b o))) /\
    (forall c0 ee0, case_res s dflt (fun b => E b o) = Err c0 ee0 -> c0 <> CDomain -> fails (case_res s dflt (fun b => K b o))).
  Proof.
    intros H. destruct s as [r|]; cbn [case_res]; [apply (H r); now left|].
    destruct dflt as [d|]; cbn [dfltr]; [apply (H d); right; now split|].
    split; [reflexivity|]. split; [intros _; reflexivity|intros; reflexivity].
  Qed.

  Lemma ag_case disp cases dflt :
    agQ disp -> Forall (fun cr => agQ (fst cr) /\ agQ (snd cr)) cases -> Popt agQ dflt -> agQ (ECase disp cases dflt).
  Proof.
    intros [Cd [Hdi _]] Hc Hd. split.
    { apply clean_case; [eapply Forall_impl; [|exact Hc]; now intros a [_ [Ha _]]|destruct dflt; [apply Hd|exact I]]. }
    split; [|discriminate]. intros o Hsc. pose proof (Hdi o Hsc) as Ad. unfold AG. rewrite Forall_forall in Hc.
    rewrite V_case, E_case, K_case. unfold case_body.
    destruct (E disp o) as [x|c ee] eqn:Ex.
    - destruct (ag_K_ok _ _ _ Ad Ex) as [Lx HLx]. rewrite (ag_V_ok _ _ _ Ad Ex), HLx. cbn [bindr].
      destruct (case_sel u rfuel x o cases) as [s|c ee] eqn:Es; cbn [bindr].
      + destruct (ag_case_res s dflt o) as [Ba [Bb Bc]].
        { intros b [->|[-> ->]]; [|apply (proj1 (proj2 Hd) o Hsc)].
          destruct (case_sel_In _ _ _ _ _ _ Es) as [c Hin]. apply (proj1 (proj2 (proj2 (Hc (c, b) Hin))) o Hsc). }
        rewrite okb_wrapr. split; [exact Ba|]. split.
        * intros H. apply fails_wrapr, Bb. destruct (case_res s dflt (fun b => K b o)); [discriminate H|reflexivity].
        * intros c0 ee0 H Hc0. destruct (case_res s dflt (fun b => E b o)) as [v|c1 ee1] eqn:Ep; [discriminate H|].
          inversion H; subst. apply fails_bindr_l. apply (Bc c0 ee1 eq_refl Hc0).
      + cbn. split; [reflexivity|]. split; [intros _; reflexivity|intros; reflexivity].
    - cbn [bindr wrapr okb]. rewrite (fails_bindr_l _ _ _ _ (ag_V_fails _ _ Ad (err_fails _ _ _ _ Ex))).
      split; [reflexivity|]. split; [intros _; reflexivity|]. intros c0 ee0 _ _. apply fails_bindr_r. intros a _. reflexivity.
  Qed.

  Lemma ag_coal o ms :
    (forall m, In m ms -> AG m o) -> forall last,
    okb (coalr (fun m => V m o) (fun m => V m o) ms last) = okb (coalr (fun m => V m o) (fun m => E m o) ms last) /\
    okb (coalr (fun m => V m o) (fun m => K m o) ms last) = okb (coalr (fun m => V m o) (fun m => E m o) ms last).
  Proof.
    induction ms as [|m ms IH]; intros H last.
    - destruct last as [[c ee]|]; split; reflexivity.
    - cbn [coalr]. pose proof (H m (or_introl eq_refl)) as Am.
      destruct (V m o) as [[]|c ee] eqn:Ev; cbn [bindr].
      + destruct Am as [Aa [Ab Ac]]. rewrite Ev in Aa. destruct (E m o) as [v|c ee] eqn:Ee; [|discriminate Aa].
        destruct (fails_cases _ (K m o)) as [[L ->]|Hk]; [split; reflexivity|]. exfalso. apply Ab in Hk. discriminate Hk.
      + cbn [catchr]. destruct (unmodb c); [split; reflexivity|]. destruct ee; [|split; reflexivity].
        apply IH. intros m' Hm'. apply H. now right.
  Qed.

  Lemma ag_coalesce ms : Forall agQ ms -> agQ (ECoalesce ms).
  Proof.
    intros HQ. split; [apply clean_coalesce, (Forall_proj1 _ _ _ HQ)|]. split; [|discriminate].
    intros o Hsc. rewrite Forall_forall in HQ. unfold AG. rewrite V_coalesce, E_coalesce, K_coalesce.
    destruct (ag_coal o ms (fun m Hm => proj1 (proj2 (HQ m Hm)) o Hsc) None) as [Hv Hk]. rewrite okb_wrapr.
    split; [exact Hv|]. unfold fails. split.
    - intros H. now rewrite okb_wrapr, <- Hk.
    - intros c ee H _. rewrite Hk. destruct (coalr _ (fun m => E m o) ms None); [discriminate H|reflexivity].
  Qed.

  Lemma ag_with f e : agQ e -> agQ (EWith f [] e).
  Proof.
    intros [Ce [He _]]. split; [now apply clean_with|]. split; [|discriminate].
    intros o Hsc. pose proof Hsc as [Hwf _]. unfold AG. rewrite V_with, rs_ev_with, K_with, filtr_nil, (with_opts_nil f o Hwf).
    apply (He o Hsc).
  Qed.
  Lemma ag_cached c e : agQ e -> agQ (ECached c e).
  Proof.
    intros [Ce [He _]]. split; [now apply clean_cached|]. split; [|discriminate].
    intros o Hsc. unfold AG. rewrite V_cached, rs_ev_cached, K_cached. apply (He o Hsc).
  Qed.
  Lemma ag_logged e : agQ e -> agQ (ELogged e).
  Proof.
    intros [Ce [He _]]. split; [now apply clean_logged|]. split; [|discriminate].
    intros o Hsc. unfold AG. rewrite V_logged, rs_ev_logged, K_logged. apply (He o Hsc).
  Qed.

  (** lists of sub-expressions evaluated in order *)
  Lemma ag_list o l : (forall x, In x l -> AG x o) ->
    okb (iterr (fun x => V x o) l) = okb (mapr (fun x => E x o) l) /\
    (fails (unionr (fun x => K x o) l) -> fails (mapr (fun x => E x o) l)) /\
    (forall c ee, mapr (fun x => E x o) l = Err c ee -> c <> CDomain -> fails (unionr (fun x => K x o) l)).
  Proof.
    intros H. split; [apply okb_iterr_mapr; intros x Hx; apply (proj1 (H x Hx))|]. split.
    - intros Hf. apply fails_unionr_some in Hf as [x [Hx Hf]]. apply (fails_mapr _ _ _ _ x Hx). apply (proj1 (proj2 (H x Hx)) Hf).
    - intros c ee Hm Hc. apply mapr_err in Hm as [x [Hx Ex]]. apply (fails_unionr_of _ _ x Hx). apply (proj2 (proj2 (H x Hx)) c ee Ex Hc).
  Qed.

  Lemma ag_call pa f args kwargs :
    agQ f -> Forall agQ args -> Forall agQ kwargs -> basefn f = true -> agQ (ECall pa f args kwargs).
  Proof.
    intros [Cf _] Ha Hk Hb. split.
    { apply clean_call; [exact Hclean|exact Cf|apply (Forall_proj1 _ _ _ Ha)|apply (Forall_proj1 _ _ _ Hk)]. }
    destruct f as [fvv| | | | | | | | | | | | | | | | ]; try discriminate Hb. destruct fvv as [|?|fid pre post| |]; try discriminate Hb.
    cbn [basefn] in Hb. apply andb_prop in Hb as [Hnb Hnc]. apply negb_true_iff in Hnb, Hnc.
    pose proof (Cf [] _ (E_value u rfuel (VF fid pre post) [])) as Cfv.
    split.
    - intros o Hsc. rewrite Forall_forall in Ha, Hk. unfold AG. rewrite V_call, E_call, K_call, call_body_app2.
      rewrite V_value, E_value, K_value. cbn [bindr].
      destruct (ag_list o args (fun x Hx => proj1 (proj2 (Ha x Hx)) o Hsc)) as [A1 [A2 A3]].
      destruct (ag_list o kwargs (fun x Hx => proj1 (proj2 (Hk x Hx)) o Hsc)) as [K1 [K2 K3]].
      destruct (mapr (fun x => E x o) args) as [av|c ee] eqn:Eav.
      + destruct (iterr (fun x => V x o) args) as [[]|]; [|discriminate A1].
        destruct (fails_cases _ (unionr (fun x => K x o) args)) as [[La HLa]|Hf]; [|apply A2 in Hf; discriminate Hf]. rewrite HLa.
        cbn [bindr]. destruct (mapr (fun x => E x o) kwargs) as [kv|c ee] eqn:Ekv.
        * destruct (iterr (fun x => V x o) kwargs) as [[]|]; [|discriminate K1].
          destruct (fails_cases _ (unionr (fun x => K x o) kwargs)) as [[Lk HLk]|Hf]; [|apply K2 in Hf; discriminate Hf]. rewrite HLk.
          cbn [bindr]. assert (Ht : exists y, call_tail u pa (VF fid pre post) av kv = Ok y).
          { unfold call_tail. destruct pa; [now eexists|]. cbn [call_value_n]. rewrite Hnc.
            apply (call_fun_total u Htot); [exact Hnb|].
            pose proof (mapr_clean u rfuel o args (Forall_proj1 _ _ _ (proj2 (Forall_forall _ _) Ha)) av Eav) as Ca.
            pose proof (mapr_clean u rfuel o kwargs (Forall_proj1 _ _ _ (proj2 (Forall_forall _ _) Hk)) kv Ekv) as Ck.
            unfold vclean in Cfv. cbn [vgood] in Cfv. apply andb_prop in Cfv as [Cp Cq].
            unfold vsgood in *. rewrite !forallb_app. now rewrite Cp, Ca, Ck, Cq. }
          destruct Ht as [y ->]. cbn. split; [reflexivity|]. split; [intros H; discriminate H|intros c ee H; discriminate H].
        * cbn [bindr wrapr okb]. destruct (iterr (fun x => V x o) kwargs) as [[]|]; [discriminate K1|].
          split; [reflexivity|]. split; [intros _; reflexivity|]. intros cx eex H Hc. inversion H; subst.
          apply fails_app2_r, fails_app2_r, (K3 cx ee eq_refl Hc).
      + cbn [bindr wrapr okb]. destruct (iterr (fun x => V x o) args) as [[]|]; [discriminate A1|]. cbn [bindr okb].
        split; [reflexivity|]. split; [intros _; reflexivity|]. intros cx eex H Hc. inversion H; subst.
        apply fails_app2_r, fails_app2_l, (A3 cx ee eq_refl Hc).
    - intros Hfe o v H. cbn [fnexprb] in Hfe. destruct pa; [|discriminate Hfe].
      rewrite E_call, E_value in H. apply (proj1 (wrapr_ok _ _ _)) in H. cbn [bindr] in H.
      apply bindr_ok in H as [av [_ H]]. apply bindr_ok in H as [kv [_ H]]. unfold call_tail in H. inversion H; subst.
      cbn [ufun]. rewrite Hnc. now rewrite Hnb.
  Qed.

  Lemma ag_comp e : agQ e -> agQ (EComp e []).
  Proof.
    intros [Ce [He _]]. split; [now apply clean_comp|]. split; [|discriminate].
    intros o Hsc. destruct (He o Hsc) as [Aa [Ab Ac]]. unfold AG. rewrite V_comp, E_comp, K_comp.
    assert (Ev : okb (bindr (V e o) (fun _ => if effects_opt_off o then Ok tt else iterr (fun x => V x o) [])) = okb (V e o)).
    { destruct (V e o); [|reflexivity]. cbn [bindr]. destruct (effects_opt_off o); reflexivity. }
    assert (Ee : forall r, wrapr (bindr r (fun v => bindr (if effects_opt_off o then Ok tt else iterr (effr u rfuel o v) []) (fun _ => Ok v))) = wrapr r).
    { intros [v|c ee]; [|reflexivity]. cbn [bindr]. destruct (effects_opt_off o); reflexivity. }
    rewrite Ev, Ee, okb_wrapr. split; [exact Aa|]. split; [intros H; apply fails_wrapr, Ab, H|].
    intros c ee H Hc. destruct (E e o) as [v|c1 ee1] eqn:Ed; [discriminate H|]. inversion H; subst. apply (Ac c ee1 eq_refl Hc).
  Qed.

  Lemma ag_pipe steps : Forall agQ steps -> agQ (EPipe steps).
  Proof.
    intros HQ. split; [apply clean_pipe, (Forall_proj1 _ _ _ HQ)|]. rewrite Forall_forall in HQ. split.
    - intros o Hsc. unfold AG. rewrite V_pipe, E_pipe, K_pipe.
      destruct (ag_list o steps (fun x Hx => proj1 (proj2 (HQ x Hx)) o Hsc)) as [A1 [A2 A3]].
      destruct (mapr (fun x => E x o) steps) as [fs|c ee] eqn:Em; cbn [bindr wrapr okb].
      + split; [exact A1|]. split; [intros H; apply A2 in H; discriminate H|intros c ee H; discriminate H].
      + split; [exact A1|]. split; [intros _; reflexivity|]. intros c0 ee0 H Hc. inversion H; subst. apply (A3 c0 ee eq_refl Hc).
    - intros Hfe o v H. rewrite E_pipe in H. apply (proj1 (wrapr_ok _ _ _)) in H. apply bindr_ok in H as [fs [Hfs H]].
      inversion H; subst. apply ufun_compose. intros x Hx. apply in_rev in Hx.
      clear H. revert fs Hfs x Hx. cbn [fnexprb] in Hfe. induction steps as [|s steps IH]; intros fs Hfs x Hx.
      + inversion Hfs; subst. destruct Hx.
      + cbn [mapr] in Hfs. apply bindr_ok in Hfs as [y [Hy Hfs]]. apply bindr_ok in Hfs as [ys [Hys Hfs]]. inversion Hfs; subst.
        apply andb_prop in Hfe as [Hs Hrest]. destruct Hx as [<-|Hx].
        * apply (proj2 (proj2 (HQ s (or_introl eq_refl))) Hs o y Hy).
        * apply (IH (fun z Hz => HQ z (or_intror Hz)) Hrest ys Hys x Hx).
  Qed.

  Lemma ag_all : agQ EAllOptions.
  Proof.
    split; [apply clean_all|]. split; [|discriminate]. intros o [Hwf [Hres Hun]]. unfold AG. rewrite V_all, E_all, K_all.
    destruct (Hres [] (JObj o) eq_refl) as [j Hj]. unfold allr. rewrite Hj. cbn.
    split; [reflexivity|]. split; [intros H; discriminate H|intros c ee H; discriminate H].
  Qed.

  Theorem agree_main e : fragP pA e = true -> agQ e.
  Proof.
    apply (fragP_ind pA agQ).
    - exact ag_value.
    - intros k dflt dom Hd Hc. apply ag_option; [exact Hd|].
      destruct dflt as [d0|], dom as [de|]; try exact I.
      + destruct Hc as [Hc _]. discriminate Hc.
      + destruct Hc as [_ Hok]. unfold dom_ok in Hok. cbn in Hok. destruct de; try discriminate Hok.
        apply andb_prop in Hok as [H1 H2]. now exists v.
    - intros src fn Hs Hf Hty. apply ag_apply; [exact Hs|exact Hf|exact Hty].
    - intros es b _. apply ag_forced.
    - intros src tbl dflt Hs Ht Hd _. now apply ag_bind.
    - exact ag_switch.
    - intros disp cases dflt Hs Hc Hd _. now apply ag_case.
    - intros ms _. apply ag_coalesce.
    - intros es Hl. discriminate Hl.
    - intros force pr e0 [-> |Hp] He; [now apply ag_with|discriminate Hp].
    - exact ag_cached.
    - intros pa f args kwargs Hf Ha Hk Hty. now apply ag_call.
    - intros s ps Ht. discriminate Ht.
    - intros e0 effs [-> |Hp] He _ _; [now apply ag_comp|discriminate Hp].
    - exact ag_logged.
    - exact ag_pipe.
    - intros _. exact ag_all.
  Qed.
End Agree.

(** *** on the observed reference functions *)
Theorem agree_nc u fuel e o :
  total_u u -> clean_u u -> fragP pA e = true -> wf_dict o = true -> resolves fuel o -> no_par o = true ->
  okb (fst (validate_nc u fuel e o)) = okb (fst (eval_nc u fuel e o)) /\
  (okb (fst (keys_nc u fuel e o)) = false -> okb (fst (eval_nc u fuel e o)) = false) /\
  (forall c ee, fst (eval_nc u fuel e o) = Err c ee -> c <> CDomain -> okb (fst (keys_nc u fuel e o)) = false).
Proof.
  intros Ht Hc Hf Hwf Hres Hun. destruct (agree_main u fuel Ht Hc e Hf) as [Cq [Ag _]].
  destruct (Ag o (conj Hwf (conj Hres Hun))) as [Aa [Ab Ac]].
  rewrite validate_nc_rs, keys_nc_rs, eval_nc_rs.
  assert (Econs : consume (rs (eval unit nc_find nc_store cfg_nc u fuel (fun _ _ => true) e o)) =
                  rs (eval unit nc_find nc_store cfg_nc u fuel (fun _ _ => true) e o)).
  { destruct (rs (eval _ _ _ _ _ _ _ e o)) as [v|c ee] eqn:Ev; [|reflexivity]. cbn [consume].
    now rewrite (vclean_deep_err v (Cq o v Ev)). }
  rewrite Econs. split; [exact Aa|]. split; [exact Ab|exact Ac].
Qed.

(** "bodies total and option values in their declared domains": validate, keys and evaluate
    succeed or fail together *)
Theorem agree_total_nc u fuel e o :
  total_u u -> clean_u u -> fragP pA e = true -> wf_dict o = true -> resolves fuel o -> no_par o = true ->
  (forall ee, fst (eval_nc u fuel e o) <> Err CDomain ee) ->
  okb (fst (validate_nc u fuel e o)) = okb (fst (eval_nc u fuel e o)) /\
  okb (fst (keys_nc u fuel e o)) = okb (fst (eval_nc u fuel e o)).
Proof.
  intros Ht Hc Hf Hwf Hres Hun Hdom. destruct (agree_nc u fuel e o Ht Hc Hf Hwf Hres Hun) as [Aa [Ab Ac]].
  split; [exact Aa|]. destruct (fst (eval_nc u fuel e o)) as [v|c ee] eqn:Ev.
  - destruct (okb (fst (keys_nc u fuel e o))) eqn:Ek; [reflexivity|]. specialize (Ab eq_refl). discriminate Ab.
  - apply (Ac c ee eq_refl). intros ->. apply (Hdom ee eq_refl).
Qed.

Lemma u_total_total : total_u u_total. Proof. intros f args. now eexists. Qed.
(** D9: an effect's callback reads an option: keys succeeds, evaluate fails for the missing option *)
Definition d9_expr : expr := EComp (body 100 [EOption kA None None]) [pstep 101 [EOption kP None None]].
(** a dataset whose dispatch is itself a dataset body: validate runs the dispatch body (chooser
    position) and not the implementation's body *)
Definition disp_expr : expr :=
  ESwitch (body 101 []) [(VJ JNull, body 102 [EOption kA None None])] None.

(** closed witnesses of the recorded findings (for Properties/C11.v) *)
Lemma d4_complete_refuted :
  fst (explain_nc u_total 40 d4x_expr o_A1) = Ok [kA] /\ lookup kA (JObj o_A1) <> Absent /\
  fst (validate_nc u_total 40 d4x_expr o_A1) = Err (CKey kP) true /\ ~ In kP [kA].
Proof. split; [reflexivity|]. split; [discriminate|]. split; [reflexivity|]. intros [H|[]]; discriminate H. Qed.
Lemma d1_listed_refuted :
  fst (explain_nc u_total 40 (EOption kA None None) d1_opts) = Ok [kA] /\
  fst (validate_nc u_total 40 (EOption kA None None) d1_opts) = Err (CKey kB) true /\ ~ In kB [kA].
Proof. split; [reflexivity|]. split; [reflexivity|]. intros [H|[]]; discriminate H. Qed.

(** without [no_par]: an option value that is a Template parameter token whose (reserved) name the
    dictionary happens to define — key inspection answers "outside the modelled universe" while
    evaluation succeeds (a model artefact; the harness never generates such names) *)
Definition o_par : dict := [(SName 10, JStr [TPar 1]); (SName (par_base + 1), JInt 5)].
Lemma no_par_needed :
  no_par o_par = false /\
  fst (keys_nc u_total 40 (EOption kA None None) o_par) = Err CUnmodelled false /\
  fst (eval_nc u_total 40 (EOption kA None None) o_par) = Ok (VJ (JInt 5)).
Proof. split; [reflexivity|]. split; reflexivity. Qed.

(** a dictionary with a templated value: {'A': '{B}', 'B': 1} *)
Definition o_T : dict := [(SName 10, JStr [TRef kB]); (SName 11, JInt 1)].
Lemma resolves_o_T : resolves 40 o_T.
Proof.
  intros k raw H. destruct k as [|s k]; [inversion H; subst; eexists; reflexivity|].
  cbn [lookup] in H. destruct s as [n|i]; [|discriminate]. cbn in H.
  destruct (N.eqb n 10); cbn in H.
  - destruct k as [|s' k']; cbn in H; [inversion H; subst; eexists; reflexivity|discriminate].
  - destruct (N.eqb n 11); cbn in H; [|discriminate].
    destruct k as [|s' k']; cbn in H; [inversion H; subst; eexists; reflexivity|discriminate].
Qed.

(** pre-set dictionaries: WithOptions(Option('S.X'), {'S': {'X': 1}}, force=False) on {'S': []}.
    The caller's list S replaces the default section, Option('S.X') is absent from the overlaid
    dictionary and validate fails naming S.X.  Before fix 6884003 explain's filter dropped S.X
    ("fully determined by the pre-set options": present there, absent from the caller's
    dictionary) and listed nothing; now a key is determined by the pre-set options only if it is
    still present in the mixed options, and explain lists S.X, which is absent. *)
Definition kSX : key := [SName 20; SName 21].
Definition preset_expr : expr := EWith false [(SName 20, JObj [(SName 21, JInt 1)])] (EOption kSX None None).
Definition preset_opts : dict := [(SName 20, JList [])].
Lemma presets_overlaid_away_listed :
  wf_dict preset_opts = true /\
  fst (validate_nc u_total 40 preset_expr preset_opts) = Err (CKey kSX) true /\
  fst (explain_nc u_total 40 preset_expr preset_opts) = Ok [kSX] /\
  lookup kSX (JObj preset_opts) = Absent.
Proof. split; [reflexivity|]. split; [reflexivity|]. split; reflexivity. Qed.
