(** C03 / C02 / C01: the fingerprint is a function of the reported keys and the values under
    them — nothing else of the dictionary enters it — and it separates dictionaries that
    differ under a reported key. *)
From Coq Require Import List NArith ZArith Bool Lia.
Import ListNotations.
From LV Require Import Model.Base Model.Template Model.Eval Proofs.BaseProofs Proofs.EvalProofs.

Lemma key_insert_In k x l : In x (key_insert k l) <-> x = k \/ In x l.
Proof.
  induction l as [|k' l IH]; cbn [key_insert].
  - split; [intros [<-|[]]; auto|intros [->|[]]; left; reflexivity].
  - destruct (key_ltb k k').
    + split; [intros [<-|H]; auto|intros [->|H]; [now left|now right]].
    + destruct (key_eqb k k') eqn:E.
      * apply key_eqb_eq in E. subst k'. split; [auto|intros [->|H]; [now left|exact H]].
      * split.
        -- intros [<-|H]; [right; now left|]. apply IH in H as [->|H]; [now left|right; now right].
        -- intros [->|[<-|H]]; [right; apply IH; now left|now left|right; apply IH; now right].
Qed.

Lemma key_sort_In x l : In x (key_sort l) <-> In x l.
Proof.
  induction l as [|k l IH]; [reflexivity|].
  cbn [key_sort fold_right]. fold (key_sort l). rewrite key_insert_In, IH.
  split; (intros [H|H]; [left; now symmetry|right; exact H]).
Qed.

Section Fingerprint.
  Variable S : Type.
  Notation M := (M S).
  Notation fingerprint_of := (fingerprint_of S).

  Definition fp_entry (o : dict) (k : key) : M (key * json) :=
    match lookup k (JObj o) with
    | Found v => ret S (k, v)
    | Absent => fail S (CKey k) false
    | TypeErr => fail S CType false
    end.

  Lemma fingerprint_of_unfold ks o : fingerprint_of ks o = mapM S (fp_entry o) (key_sort ks).
  Proof. reflexivity. Qed.

  Lemma mapM_ext_in {A B} (f g : A -> M B) l :
    (forall a, In a l -> f a = g a) -> mapM S f l = mapM S g l.
  Proof.
    induction l as [|a l IH]; intros H; [reflexivity|].
    cbn [mapM]. rewrite (H a (or_introl eq_refl)), IH; [reflexivity|].
    intros b Hb. apply H. now right.
  Qed.

  (** the fingerprint depends on the dictionary only through the values under the keys *)
  Theorem fingerprint_of_agree ks o o' :
    (forall k, In k ks -> lookup k (JObj o') = lookup k (JObj o)) ->
    fingerprint_of ks o' = fingerprint_of ks o.
  Proof.
    intros H. rewrite !fingerprint_of_unfold. apply mapM_ext_in.
    intros k Hk. apply (proj1 (key_sort_In _ _)) in Hk. unfold fp_entry. now rewrite (H k Hk).
  Qed.

  (** … and only through the SET of keys (order and repetitions of the reported list are irrelevant
      as far as membership goes: both lists sort to lists with the same members) *)

  (** a successful fingerprint lists exactly the reported keys with their values *)
  Lemma mapM_fp_ok o l f s s' lg :
    mapM S (fp_entry o) l s = (Ok f, s', lg) ->
    s' = s /\ lg = [] /\ map fst f = l /\ forall k v, In (k, v) f -> lookup k (JObj o) = Found v.
  Proof.
    revert f s s' lg. induction l as [|k l IH]; intros f s s' lg E.
    - cbn [mapM] in E. unfold ret in E. inversion E; subst. repeat split; auto. intros k v [].
    - cbn [mapM] in E. unfold bind in E. unfold fp_entry at 1 in E.
      destruct (lookup k (JObj o)) as [v| |] eqn:El; unfold ret, fail in E; try discriminate.
      destruct (mapM S (fp_entry o) l s) as [[[f'|c ee] s1] l1] eqn:E1; try discriminate.
      inversion E; subst. destruct (IH _ _ _ _ E1) as (-> & -> & Hm & Hv).
      repeat split; auto.
      + cbn [map fst]. now rewrite Hm.
      + intros k0 v0 [H|H]; [inversion H; subst; exact El|now apply Hv].
  Qed.

  Theorem fingerprint_of_ok ks o f s s' lg :
    fingerprint_of ks o s = (Ok f, s', lg) ->
    s' = s /\ lg = [] /\ map fst f = key_sort ks /\
    forall k v, In (k, v) f -> lookup k (JObj o) = Found v.
  Proof. rewrite fingerprint_of_unfold. apply mapM_fp_ok. Qed.

  (** every reported key is in the fingerprint with its value: equal fingerprints force equal
      values under every reported key (so a differing value gives a differing fingerprint) *)
  Lemma In_fst_map {A B} (l : list (A * B)) a : In a (map fst l) -> exists b, In (a, b) l.
  Proof.
    induction l as [|[x y] l IH]; [intros []|]. cbn [map fst]. intros [<-|H].
    - exists y. now left.
    - destruct (IH H) as [b Hb]. exists b. now right.
  Qed.

  Lemma fp_functional (f : list (key * json)) (o : dict) k v v' :
    (forall k v, In (k, v) f -> lookup k (JObj o) = Found v) ->
    In (k, v) f -> In (k, v') f -> v = v'.
  Proof. intros H H1 H2. pose proof (H _ _ H1). pose proof (H _ _ H2). congruence. Qed.

  Theorem equal_fingerprints_equal_values ks o o' f s s1 l1 s' s2 l2 :
    fingerprint_of ks o s = (Ok f, s1, l1) ->
    fingerprint_of ks o' s' = (Ok f, s2, l2) ->
    forall k, In k ks -> lookup k (JObj o') = lookup k (JObj o).
  Proof.
    intros E E' k Hk.
    destruct (fingerprint_of_ok _ _ _ _ _ _ E) as (_ & _ & Hm & Hv).
    destruct (fingerprint_of_ok _ _ _ _ _ _ E') as (_ & _ & _ & Hv').
    assert (Hin : In k (map fst f)) by (rewrite Hm; now apply key_sort_In).
    destruct (In_fst_map _ _ Hin) as [v Hvf].
    now rewrite (Hv _ _ Hvf), (Hv' _ _ Hvf).
  Qed.

  Corollary differing_value_differing_fingerprint ks o o' f f' s s1 l1 s' s2 l2 k :
    fingerprint_of ks o s = (Ok f, s1, l1) ->
    fingerprint_of ks o' s' = (Ok f', s2, l2) ->
    In k ks -> lookup k (JObj o') <> lookup k (JObj o) -> f' <> f.
  Proof.
    intros E E' Hk Hne ->. apply Hne. eapply equal_fingerprints_equal_values; eauto.
  Qed.

  (** the fingerprint succeeds exactly when every reported key is present *)
  Theorem fingerprint_of_total ks o s :
    (forall k, In k ks -> exists v, lookup k (JObj o) = Found v) ->
    exists f, fingerprint_of ks o s = (Ok f, s, []).
  Proof.
    intros H. rewrite fingerprint_of_unfold.
    assert (H' : forall k, In k (key_sort ks) -> exists v, lookup k (JObj o) = Found v)
      by (intros k Hk; apply H; now apply key_sort_In).
    clear H. induction (key_sort ks) as [|k l IH]; [exists []; reflexivity|].
    destruct (H' k (or_introl eq_refl)) as [v Hv].
    destruct IH as [f Hf]; [intros; apply H'; now right|].
    exists ((k, v) :: f). cbn [mapM]. unfold bind. unfold fp_entry at 1. rewrite Hv. unfold ret at 1.
    rewrite Hf. reflexivity.
  Qed.
End Fingerprint.
