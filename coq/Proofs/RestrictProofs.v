(** Lemmas about [restrict] (the options restricted to a set of dotted keys). *)
From Coq Require Import List NArith ZArith Bool Lia.
Import ListNotations.
From LV Require Import Model.Base Proofs.BaseProofs.
From LV Require Import Proofs.FrameProofs.

Lemma restrictj_obj m ks : restrictj (JObj m) ks = JObj (restrict m ks).
Proof. reflexivity. Qed.

Lemma restrictj_other j ks : (forall m, j <> JObj m) -> restrictj j ks = j.
Proof. intros H. destruct j; try reflexivity. exfalso. now apply (H m). Qed.

Definition kept (s : seg) (v : json) (ks : list key) : option json :=
  match tails s ks with
  | [] => None
  | ts => Some (if has_nil ts then v else restrictj v ts)
  end.

Lemma restrict_cons s v m ks :
  restrict ((s, v) :: m) ks =
    match kept s v ks with Some v' => (s, v') :: restrict m ks | None => restrict m ks end.
Proof. unfold restrict, kept. cbn [restrict_loop]. destruct (tails s ks); reflexivity. Qed.

(** the entry of the restricted dictionary under [s] *)
Lemma dget_restrict s m ks :
  dget s (restrict m ks) = match dget s m with Some v => kept s v ks | None => None end.
Proof.
  induction m as [|[s' v'] m IH]; [reflexivity|].
  rewrite restrict_cons. cbn [dget].
  destruct (seg_eqb s s') eqn:E.
  - apply seg_eqb_eq in E. subst s'.
    destruct (kept s v' ks) eqn:Ek.
    + cbn [dget]. now rewrite seg_eqb_refl.
    + rewrite IH. (* every entry under s is dropped alike *)
      unfold kept in *. destruct (tails s ks); [|discriminate].
      destruct (dget s m); reflexivity.
  - destruct (kept s' v' ks); [cbn [dget]; rewrite E|]; exact IH.
Qed.

Lemma In_tails s k' ks : In (s :: k') ks -> In k' (tails s ks).
Proof.
  intros H. unfold tails. apply in_flat_map. exists (s :: k'). split; [exact H|].
  rewrite seg_eqb_refl. now left.
Qed.

Lemma tails_In s k' ks : In k' (tails s ks) -> In (s :: k') ks.
Proof.
  unfold tails. intros H. apply in_flat_map in H as [k [Hk Hin]].
  destruct k as [|s' k2]; [destruct Hin|].
  destruct (seg_eqb s s') eqn:E; [|destruct Hin].
  apply seg_eqb_eq in E. subst s'. destruct Hin as [<-|[]]. exact Hk.
Qed.

Lemma has_nil_In ks : has_nil ks = true <-> In [] ks.
Proof.
  unfold has_nil. rewrite existsb_exists. split.
  - intros [k [Hk Hn]]. destruct k; [exact Hk|discriminate].
  - intros H. exists []. auto.
Qed.

(** a reported (name-only) key that is present keeps its value … *)
Lemma lookup_restrict_kept k : forall o ks v,
  forallb is_name k = true -> In k ks -> k <> [] ->
  lookup k (JObj o) = Found v -> lookup k (JObj (restrict o ks)) = Found v.
Proof.
  induction k as [|s k IH]; intros o ks v Hn Hin Hne Hl; [congruence|].
  cbn [forallb] in Hn. apply andb_prop in Hn as [Hs Hn].
  destruct s as [n|i]; [|discriminate].
  cbn [lookup] in *. rewrite dget_restrict.
  destruct (dget (SName n) o) as [v0|]; [|discriminate].
  unfold kept. pose proof (In_tails _ _ _ Hin) as Ht.
  destruct (tails (SName n) ks) as [|t ts] eqn:Et; [destruct Ht|].
  destruct (has_nil (t :: ts)) eqn:Hh; [exact Hl|].
  destruct k as [|s2 k2].
  - apply has_nil_In in Ht. congruence.
  - assert (Hobj : exists m0, v0 = JObj m0).
    { cbn [forallb] in Hn. apply andb_prop in Hn as [Hs2 _]. destruct s2; [|discriminate].
      destruct v0; cbn [lookup] in Hl; try discriminate. eauto. }
    destruct Hobj as [m0 ->]. rewrite restrictj_obj.
    apply IH; try assumption. discriminate.
Qed.

(** … an absent key stays absent … *)
Lemma lookup_restrict_absent k : forall o ks,
  lookup k (JObj o) = Absent -> lookup k (JObj (restrict o ks)) = Absent.
Proof.
  induction k as [|s k IH]; intros o ks Hl; [discriminate|].
  cbn [lookup] in *. destruct s as [n|i]; [|reflexivity].
  rewrite dget_restrict.
  destruct (dget (SName n) o) as [v0|]; [|reflexivity].
  unfold kept. destruct (tails (SName n) ks) as [|t ts]; [reflexivity|].
  destruct (has_nil (t :: ts)); [exact Hl|].
  destruct v0; try exact Hl.
  rewrite restrictj_obj. destruct k as [|s2 k2]; [discriminate|]. now apply IH.
Qed.

(** … and whatever is found in the restricted dictionary lies on the path of a reported key:
    it is an extension of a reported key (found inside its whole value) or a strict prefix of
    one.  The reported keys are name-only paths present in [o]. *)
Definition reported_ok (o : dict) (ks : list key) : Prop :=
  forall k, In k ks -> forallb is_name k = true /\ exists v, lookup k (JObj o) = Found v.

Lemma reported_ok_tails n m0 o ks :
  reported_ok o ks -> dget (SName n) o = Some (JObj m0) -> reported_ok m0 (tails (SName n) ks).
Proof.
  intros H Hd k Hk. apply tails_In in Hk. destruct (H _ Hk) as [Hn [v Hv]].
  cbn [forallb] in Hn. apply andb_prop in Hn as [_ Hn]. split; [exact Hn|].
  cbn [lookup] in Hv. rewrite Hd in Hv. eauto.
Qed.

Lemma lookup_restrict_found k : forall o ks w,
  reported_ok o ks ->
  lookup k (JObj (restrict o ks)) = Found w -> k <> [] ->
  (exists k0 rest, In k0 ks /\ k = k0 ++ rest /\ lookup k (JObj o) = Found w) \/
  (exists rest, rest <> [] /\ In (k ++ rest) ks).
Proof.
  induction k as [|s k IH]; intros o ks w Hrep Hl Hne; [congruence|].
  cbn [lookup] in Hl. destruct s as [n|i]; [|discriminate].
  rewrite dget_restrict in Hl.
  destruct (dget (SName n) o) as [v0|] eqn:Ed; [|discriminate].
  unfold kept in Hl. destruct (tails (SName n) ks) as [|t ts] eqn:Et; [discriminate|].
  destruct (has_nil (t :: ts)) eqn:Hh.
  - left. apply has_nil_In in Hh. rewrite <- Et in Hh. apply tails_In in Hh.
    exists [SName n], k. repeat split; [exact Hh|]. cbn [lookup]. now rewrite Ed.
  - assert (Htin : In (SName n :: t) ks) by (apply tails_In; rewrite Et; now left).
    assert (Htne : t <> []).
    { destruct t; [cbn in Hh; discriminate|discriminate]. }
    destruct k as [|s2 k2].
    + right. exists t. split; [exact Htne|exact Htin].
    + (* the value on the path of a reported, present, name-only key is a section *)
      assert (Hobj : exists m0, v0 = JObj m0).
      { destruct (Hrep _ Htin) as [Hn [v Hv]]. cbn [lookup] in Hv. rewrite Ed in Hv.
        cbn [forallb] in Hn. apply andb_prop in Hn as [_ Hn].
        destruct t as [|s3 t3]; [congruence|].
        cbn [forallb] in Hn. apply andb_prop in Hn as [Hs3 _]. destruct s3; [|discriminate].
        destruct v0; cbn [lookup] in Hv; try discriminate. eauto. }
      destruct Hobj as [m0 ->]. rewrite restrictj_obj in Hl.
      assert (Hrep' : reported_ok m0 (t :: ts)).
      { rewrite <- Et. eapply reported_ok_tails; eauto. }
      destruct (IH m0 (t :: ts) w Hrep' Hl ltac:(discriminate)) as [(k0 & rest & Hin & Hk & Hf)|(rest & Hr & Hin)].
      * left. exists (SName n :: k0), rest. repeat split.
        -- apply tails_In. now rewrite Et.
        -- cbn. now rewrite Hk.
        -- cbn [lookup]. now rewrite Ed.
      * right. exists rest. split; [exact Hr|]. apply tails_In. now rewrite Et.
Qed.

(** a prefix of a present key is present *)
Lemma lookup_prefix_found k : forall rest j w,
  lookup (k ++ rest) j = Found w -> exists w', lookup k j = Found w'.
Proof.
  induction k as [|s k IH]; intros rest j w H; [cbn; eauto|].
  cbn [app lookup] in *.
  destruct j; try discriminate.
  - destruct s; try discriminate. destruct (nth_error l (N.to_nat i)); [eauto|discriminate].
  - destruct s; try discriminate. destruct (dget (SName n) m); [eauto|discriminate].
Qed.

Lemma lookup_app k : forall rest j v,
  lookup k j = Found v -> lookup (k ++ rest) j = lookup rest v.
Proof.
  induction k as [|s k IH]; intros rest j v H.
  - cbn in *. now inversion H.
  - cbn [app lookup] in *. destruct j; try discriminate.
    + destruct s; try discriminate. destruct (nth_error l (N.to_nat i)); [now apply IH|discriminate].
    + destruct s; try discriminate. destruct (dget (SName n) m); [now apply IH|discriminate].
Qed.

(** restriction preserves well-formedness *)
Lemma nodup_restrict m ks : nodup_keys m = true -> nodup_keys (restrict m ks) = true.
Proof.
  induction m as [|[s v] m IH]; intros H; [reflexivity|].
  rewrite restrict_cons. pose proof (nodup_tail _ _ _ H) as Ht.
  destruct (kept s v ks) as [v'|]; [|now apply IH].
  cbn [nodup_keys]. rewrite (IH Ht), andb_true_r.
  cbn [nodup_keys] in H. apply andb_prop in H as [H _]. apply negb_true_iff in H. apply negb_true_iff.
  clear -H. induction m as [|[s2 v2] m IHm]; [reflexivity|].
  cbn [existsb fst] in H. apply orb_false_iff in H as [H1 H2].
  rewrite restrict_cons. destruct (kept s2 v2 ks); [cbn [existsb fst]; rewrite H1|]; now apply IHm.
Qed.

Lemma wf_restrictj : forall j ks, wf_json j = true -> wf_json (restrictj j ks) = true.
Proof.
  induction j using json_ind'; intros ks Hwf; try exact Hwf.
  rewrite restrictj_obj. destruct (wf_json_obj _ Hwf) as [Hnd Hsub].
  cbn [wf_json]. rewrite (nodup_restrict m ks Hnd). cbn [andb].
  clear Hnd Hwf. induction m as [|[s v] m IHm]; [reflexivity|].
  rewrite restrict_cons. inversion H as [|? ? Hv Hm]; subst. cbn [snd] in Hv.
  assert (Hwv : wf_json v = true) by (apply (Hsub s v); now left).
  assert (IH' := IHm Hm (fun k x Hin => Hsub k x (or_intror Hin))).
  unfold kept. destruct (tails s ks) as [|t ts]; [exact IH'|].
  destruct (has_nil (t :: ts)); rewrite IH'; [now rewrite Hwv|now rewrite (Hv (t :: ts) Hwv)].
Qed.

Lemma wf_restrict o ks : wf_dict o = true -> wf_dict (restrict o ks) = true.
Proof. intros H. apply (wf_restrictj (JObj o) ks H). Qed.

(** A key that extends a reported key is looked up in the restricted dictionary exactly as in
    the original one (the reported key's value is kept whole). *)
Lemma lookup_restrict_covered k0 : forall rest o ks,
  reported_ok o ks -> In k0 ks -> k0 <> [] ->
  lookup (k0 ++ rest) (JObj (restrict o ks)) = lookup (k0 ++ rest) (JObj o).
Proof.
  induction k0 as [|s k0 IH]; intros rest o ks Hrep Hin Hne; [congruence|].
  destruct (Hrep _ Hin) as [Hn [v Hv]].
  cbn [forallb] in Hn. apply andb_prop in Hn as [Hs Hn]. destruct s as [n|i]; [|discriminate].
  cbn [app lookup] in *. rewrite dget_restrict.
  destruct (dget (SName n) o) as [v0|] eqn:Ed; [|discriminate].
  unfold kept. pose proof (In_tails _ _ _ Hin) as Ht.
  destruct (tails (SName n) ks) as [|t ts] eqn:Et; [destruct Ht|].
  destruct (has_nil (t :: ts)) eqn:Hh; [reflexivity|].
  destruct k0 as [|s2 k2].
  - apply has_nil_In in Ht. congruence.
  - assert (Hobj : exists m0, v0 = JObj m0).
    { cbn [forallb] in Hn. apply andb_prop in Hn as [Hs2 _]. destruct s2; [|discriminate].
      destruct v0; cbn [lookup] in Hv; try discriminate. eauto. }
    destruct Hobj as [m0 ->]. rewrite restrictj_obj.
    apply IH; [|exact Ht|discriminate].
    rewrite <- Et. eapply reported_ok_tails; eauto.
Qed.

(** Complete case analysis of a lookup in the restricted dictionary. *)
Lemma lookup_restrict_cases k : forall o ks,
  reported_ok o ks -> k <> [] ->
  (exists k0 rest, In k0 ks /\ k0 <> [] /\ k = k0 ++ rest) \/
  lookup k (JObj (restrict o ks)) = Absent \/
  (exists rest w, rest <> [] /\ In (k ++ rest) ks /\ lookup k (JObj (restrict o ks)) = Found w).
Proof.
  induction k as [|s k IH]; intros o ks Hrep Hne; [congruence|].
  destruct s as [n|i]; [|right; left; reflexivity].
  cbn [lookup]. rewrite dget_restrict.
  destruct (dget (SName n) o) as [v0|] eqn:Ed; [|right; left; reflexivity].
  unfold kept. destruct (tails (SName n) ks) as [|t ts] eqn:Et; [right; left; reflexivity|].
  destruct (has_nil (t :: ts)) eqn:Hh.
  - left. apply has_nil_In in Hh. rewrite <- Et in Hh. apply tails_In in Hh.
    exists [SName n], k. repeat split; [exact Hh|discriminate].
  - assert (Htin : In (SName n :: t) ks) by (apply tails_In; rewrite Et; now left).
    assert (Htne : t <> []) by (destruct t; [cbn in Hh; discriminate|discriminate]).
    destruct k as [|s2 k2].
    + right. right. exists t. eexists. repeat split; [exact Htne|exact Htin].
    + assert (Hobj : exists m0, v0 = JObj m0).
      { destruct (Hrep _ Htin) as [Hn [v Hv]]. cbn [lookup] in Hv. rewrite Ed in Hv.
        cbn [forallb] in Hn. apply andb_prop in Hn as [_ Hn].
        destruct t as [|s3 t3]; [congruence|].
        cbn [forallb] in Hn. apply andb_prop in Hn as [Hs3 _]. destruct s3; [|discriminate].
        destruct v0; cbn [lookup] in Hv; try discriminate. eauto. }
      destruct Hobj as [m0 ->]. rewrite restrictj_obj.
      assert (Hrep' : reported_ok m0 (t :: ts)).
      { rewrite <- Et. eapply reported_ok_tails; eauto. }
      destruct (IH m0 (t :: ts) Hrep' ltac:(discriminate)) as [(k0 & rest & Hin & Hk0 & Hk)|[Ha|(rest & w & Hr & Hin & Hf)]].
      * left. exists (SName n :: k0), rest. repeat split; [|discriminate|cbn; now rewrite Hk].
        apply tails_In. now rewrite Et.
      * right. left. exact Ha.
      * right. right. exists rest, w. repeat split; [exact Hr| |exact Hf].
        apply tails_In. now rewrite Et.
Qed.
