(** C03, first sentence: whenever keys(o) succeeds, every reported key is present in o
    (reference semantics, fragment [frag]). *)
From Coq Require Import List NArith ZArith Bool Lia.
Import ListNotations.
From LV Require Import Model.Base Model.Template Model.Eval Model.Derived Model.EvalRun Proofs.BaseProofs Proofs.EvalProofs Proofs.EvalInd Proofs.EvalUnfold.
From LV Require Import Proofs.FrameProofs Proofs.FrameTheorem Proofs.SufficientProofs.

Section KeysPresent.
  Variable u : N -> list value -> cres.
  Variable fuel : nat.
  Notation evalN := (eval unit nc_find nc_store cfg_nc u fuel (fun _ _ => true)).
  Notation keysN := (keys unit nc_find nc_store cfg_nc u fuel (fun _ _ => true)).
  Notation M := (M unit).
  Ltac unf L := rewrite !(L unit nc_find nc_store cfg_nc u fuel (fun _ _ => true)).

  Variable o : dict.
  Notation P := (fun K => all_present K o).

  (** "whatever key list this computation returns is present in o" *)
  Definition Kres (m : M (list key)) : Prop :=
    forall K l, m tt = (Ok K, tt, l) -> all_present K o.

  Lemma P_nil : all_present [] o. Proof. intros k []. Qed.
  Lemma P_app a b : all_present a o -> all_present b o -> all_present (a ++ b) o.
  Proof. intros Ha Hb k Hk. apply in_app_or in Hk as [Hk|Hk]; auto. Qed.

  Lemma Kres_ret K : all_present K o -> Kres (ret unit K).
  Proof. intros H K' l E. unfold ret in E. now inversion E; subst. Qed.
  Lemma Kres_fail c ee : Kres (fail unit c ee).
  Proof. intros K l E. discriminate. Qed.

  Lemma Kres_bind {A} (m : M A) (f : A -> M (list key)) :
    (forall a, Kres (f a)) -> Kres (bind unit m f).
  Proof.
    intros Hf K l E. apply bind_ok in E as (a & s1 & l1 & l2 & _ & E & _). destruct s1.
    apply (Hf a K l2 E).
  Qed.

  Lemma Kres_app2 (m1 : M (list key)) (m2 : list key -> M (list key)) :
    Kres m1 -> (forall a, Kres (m2 a)) ->
    Kres (bind unit m1 (fun a => bind unit (m2 a) (fun b => ret unit (a ++ b)))).
  Proof.
    intros H1 H2 K l E.
    apply bind_ok in E as (a & s1 & l1 & l2 & E1 & E & _). destruct s1.
    apply bind_ok in E as (b & s2 & l3 & l4 & E2 & E & _). destruct s2.
    unfold ret in E. inversion E; subst.
    apply P_app; [apply (H1 a l1 E1)|apply (H2 a b l3 E2)].
  Qed.

  Lemma Kres_app_mid {B} (m1 : M (list key)) (m2 : M B) (m3 : B -> M (list key)) :
    Kres m1 -> (forall x, Kres (m3 x)) ->
    Kres (bind unit m1 (fun a => bind unit m2 (fun x => bind unit (m3 x) (fun b => ret unit (a ++ b))))).
  Proof.
    intros H1 H3 K l E.
    apply bind_ok in E as (a & s1 & l1 & l2 & E1 & E & _). destruct s1.
    apply bind_ok in E as (x & s2 & l3 & l4 & E2 & E & _). destruct s2.
    apply bind_ok in E as (b & s3 & l5 & l6 & E3 & E & _). destruct s3.
    unfold ret in E. inversion E; subst.
    apply P_app; [apply (H1 a l1 E1)|apply (H3 x b l5 E3)].
  Qed.

  Lemma Kres_catch (m : M (list key)) h :
    Kres m -> (forall c ee, Kres (h c ee)) -> Kres (catch unit m h).
  Proof.
    intros Hm Hh K l E. rewrite catch_unfold in E.
    destruct (m tt) as [[[a|c ee] []] l1] eqn:Em.
    - inversion E; subst. apply (Hm K l Em).
    - destruct (is_unmod c); [discriminate|].
      destruct (h c ee tt) as [[r []] l2] eqn:Eh. inversion E; subst. apply (Hh c ee K l2 Eh).
  Qed.

  Lemma Kres_unionM {A} (f : A -> M (list key)) l :
    (forall a, In a l -> Kres (f a)) -> Kres (unionM unit f l).
  Proof.
    induction l as [|a l IH]; intros H; [apply Kres_ret, P_nil|].
    rewrite unionM_cons. apply Kres_app2; [apply H; now left|].
    intros _. apply IH. intros; apply H; now right.
  Qed.

  Lemma Kres_pick k (onhit : expr -> M (list key)) onmiss tbl :
    (forall b, In b (map snd tbl) -> Kres (onhit b)) -> Kres onmiss -> Kres (pick k onhit onmiss tbl).
  Proof.
    intros Hh Hm. induction tbl as [|[v b] tbl IH]; [exact Hm|].
    cbn [pick]. destruct (value_eq k v); [apply Hh; now left|].
    apply IH. intros b0 Hb. apply Hh. now right.
  Qed.

  Lemma rd_run k : rd unit k o tt = (Ok (lookup k (JObj o)), tt, [EvRead k (present o k)]).
  Proof. reflexivity. Qed.

  Lemma Kres_ref_keys f : forall k, Kres (ref_keys unit f true o k).
  Proof.
    induction f as [|f IH]; intros k; [apply Kres_fail|].
    cbn [ref_keys]. intros K l E.
    apply bind_ok in E as (r & s1 & l1 & l2 & Er & E & _). destruct s1.
    rewrite rd_run in Er. inversion Er; subst r.
    destruct (lookup k (JObj o)) as [v| |] eqn:El; try discriminate.
    assert (Hk : all_present [k] o) by (intros k0 [<-|[]]; eauto).
    destruct v; try (unfold ret in E; inversion E; subst; exact Hk).
    destruct (existsb _ s); [discriminate|].
    apply bind_ok in E as (ks & s2 & l3 & l4 & Eu & E & _). destruct s2.
    unfold ret in E. inversion E; subst.
    apply (P_app [k] ks Hk). eapply Kres_unionM; [|exact Eu]. intros; apply IH.
  Qed.
End KeysPresent.

Section KeysPresentTheorem.
  Variable u : N -> list value -> cres.
  Variable fuel : nat.
  Notation keysN := (keys unit nc_find nc_store cfg_nc u fuel (fun _ _ => true)).
  Ltac unf L := rewrite !(L unit nc_find nc_store cfg_nc u fuel (fun _ _ => true)).

  Definition KP (e : expr) : Prop := forall o, wf_dict o = true -> Kres o (keysN e o).

  Theorem keys_present_all e : frag e = true -> KP e.
  Proof.
    induction e using expr_ind'; intros Hf; cbn [frag] in Hf; try discriminate; intros o Hw.
    - unf keys_EValue. apply Kres_ret, P_nil.
    - (* EOption *)
      apply andb_prop in Hf as [Hd _].
      unf keys_EOption. intros K l E.
      apply bind_ok in E as (r & s1 & l1 & l2 & Er & E & _). destruct s1.
      rewrite rd_run in Er. inversion Er; subst r.
      destruct (lookup k (JObj o)) as [v| |] eqn:El.
      + assert (Hk : all_present [k] o) by (intros k0 [<-|[]]; eauto).
        destruct v; try (unfold ret in E; inversion E; subst; exact Hk).
        destruct (existsb _ s); [discriminate|].
        apply bind_ok in E as (ks & s2 & l3 & l4 & Eu & E & _). destruct s2.
        unfold ret in E. inversion E; subst.
        apply (P_app o [k] ks Hk). eapply Kres_unionM; [|exact Eu]. intros; apply Kres_ref_keys.
      + destruct dflt as [d|]; [|discriminate]. apply (H Hd o Hw K l2 E).
      + discriminate.
    - (* EApply *)
      apply andb_prop in Hf as [Ha Hb]. unf keys_EApply.
      apply Kres_app2; [apply (IHe1 Ha o Hw)|intros; apply (IHe2 Hb o Hw)].
    - (* EBind *)
      apply andb_prop in Hf as [Hf Hdf]. apply andb_prop in Hf as [Hs Ht].
      unf keys_EBind. apply Kres_app_mid; [apply (IHe Hs o Hw)|]. intros x.
      apply Kres_pick.
      + intros b Hb. apply (Forall_tbl_In (fun x => frag x = true -> KP x) _ H b Hb); [|exact Hw].
        apply (frag_tbl_In _ Ht b Hb).
      + destruct dflt as [d|]; [apply (H0 Hdf o Hw)|apply Kres_fail].
    - (* ESwitch *)
      apply andb_prop in Hf as [Hf Hdf]. apply andb_prop in Hf as [Hs Ht].
      unf keys_ESwitch. apply Kres_bind. intros dv. destruct dv as [k|].
      + destruct (negb (hashable k)); [apply Kres_fail|].
        apply Kres_app2; [|intros; apply (IHe Hs o Hw)].
        apply Kres_pick.
        * intros b Hb. apply (Forall_tbl_In (fun x => frag x = true -> KP x) _ H b Hb); [|exact Hw].
          apply (frag_tbl_In _ Ht b Hb).
        * destruct dflt as [d|]; [apply (H0 Hdf o Hw)|apply Kres_fail].
      + destruct dflt as [d|]; [apply (H0 Hdf o Hw)|apply Kres_fail].
    - (* ECase *)
      apply andb_prop in Hf as [Hf Hdf]. apply andb_prop in Hf as [Hs Ht].
      unf keys_ECase. apply Kres_app_mid; [apply (IHe Hs o Hw)|]. intros x.
      clear IHe Hs. induction H as [|[c r] cases [Hc Hr] Hrest IH].
      + destruct dflt as [d|]; [apply (H0 Hdf o Hw)|apply Kres_fail].
      + cbn [fst snd] in *. apply andb_prop in Ht as [Ht1 Ht]. apply andb_prop in Ht1 as [Fc Frr].
        cbv beta iota. apply Kres_bind. intros p. apply Kres_bind. intros b.
        destruct (truthy b); [apply (Hr Frr o Hw)|apply IH; exact Ht].
    - (* ECoalesce *)
      unf keys_ECoalesce. generalize (@None (cause * bool)).
      induction H as [|m ms Hm Hrest IH]; intros last.
      + destruct last as [[c ee]|]; apply Kres_fail.
      + apply andb_prop in Hf as [Fm Fms]. cbv beta iota. apply Kres_catch.
        * apply Kres_bind. intros _. apply (Hm Fm o Hw).
        * intros c ee. destruct ee; [apply IH; exact Fms|apply Kres_fail].
    - (* EIter *)
      unf keys_EIter. apply Kres_unionM. intros x Hx.
      rewrite Forall_forall in H. apply (H x Hx); [|exact Hw]. apply (frag_all_In es Hf x Hx).
    - (* EWith *)
      destruct p; [|discriminate]. unf keys_EWith. cbv zeta. rewrite !with_opts_nil by assumption.
      intros K l E. apply bind_ok in E as (ks & s1 & l1 & l2 & Ek & E & _). destruct s1.
      rewrite filter_preset_nil in E. unfold ret in E. inversion E; subst.
      apply (IHe Hf o Hw K l1 Ek).
    - (* ECached *)
      unf keys_ECached. apply (IHe Hf o Hw).
    - (* ECall *)
      apply andb_prop in Hf as [Hf Hkw]. apply andb_prop in Hf as [Hfn Har].
      unf keys_ECall. intros K l E.
      apply bind_ok in E as (a & s1 & l1 & l2 & Ea & E & _). destruct s1.
      apply bind_ok in E as (b & s2 & l3 & l4 & Eb & E & _). destruct s2.
      apply bind_ok in E as (c & s3 & l5 & l6 & Ec & E & _). destruct s3.
      unfold ret in E. inversion E; subst.
      apply P_app; [apply (IHe Hfn o Hw a l1 Ea)|]. apply P_app.
      + eapply Kres_unionM; [|exact Eb]. intros x Hx. rewrite Forall_forall in H.
        apply (H x Hx); [|exact Hw]. apply (frag_all_In args Har x Hx).
      + eapply Kres_unionM; [|exact Ec]. intros x Hx. rewrite Forall_forall in H0.
        apply (H0 x Hx); [|exact Hw]. apply (frag_all_In kwargs Hkw x Hx).
    - (* ETemplate *)
      unf keys_ETemplate. intros K l E.
      apply bind_ok in E as (a & s1 & l1 & l2 & Ea & E & _). destruct s1.
      apply bind_ok in E as (b & s2 & l3 & l4 & Eb & E & _). destruct s2.
      unfold ret in E. inversion E; subst.
      apply P_app.
      + eapply Kres_unionM; [|exact Ea]. intros pe Hpe. rewrite Forall_forall in H.
        apply (H pe Hpe); [|exact Hw]. apply (frag_ps_In ps Hf pe Hpe).
      + eapply Kres_unionM; [|exact Eb]. intros; apply Kres_ref_keys.
    - (* EComp *)
      apply andb_prop in Hf as [Hfe _]. unf keys_EComp. apply (IHe Hfe o Hw).
    - (* ELogged *)
      unf keys_ELogged. apply (IHe Hf o Hw).
    - (* EPipe *)
      unf keys_EPipe. apply Kres_unionM. intros x Hx.
      rewrite Forall_forall in H. apply (H x Hx); [|exact Hw]. apply (frag_all_In steps Hf x Hx).
  Qed.
End KeysPresentTheorem.
