(** Applying the same pre-set dictionary twice is applying it once: [mix (mix o p) p = mix o p]
    (structurally — same entries in the same order), for every caller dictionary [o] and every
    well-formed [p], at every nesting depth.  This is what makes re-wrapping a graph in the options
    it is already wrapped in (`WithOptions(WithOptions(e, p), p)`, a dataset derived twice with the
    same `with_options`) indistinguishable from wrapping it once.  Only facts about Model/Base.v. *)
From Coq Require Import List NArith ZArith Bool Lia.
Import ListNotations.
From LV Require Import Model.Base Model.Template Model.Eval Proofs.BaseProofs Proofs.EvalProofs Proofs.FrameProofs
  Proofs.C08Overlay.

Lemma dset_same_id k v : forall m, dget k m = Some v -> dset k v m = m.
Proof.
  induction m as [|[k' v'] m IH]; cbn [dget dset]; [discriminate|].
  destruct (seg_eqb k k') eqn:E.
  - apply seg_eqb_eq in E. subst k'. intros H. now inversion H.
  - intros H. now rewrite IH.
Qed.

Lemma In_dget_nodup s v : forall m, nodup_keys m = true -> In (s, v) m -> dget s m = Some v.
Proof.
  induction m as [|[k' v'] m IH]; intros Hnd HIn; [destruct HIn|].
  destruct HIn as [E|HIn].
  - inversion E; subst. cbn [dget]. now rewrite seg_eqb_refl.
  - cbn [dget]. destruct (seg_eqb s k') eqn:E.
    + apply seg_eqb_eq in E. subst k'.
      pose proof (nodup_dget_none _ _ _ Hnd) as Hn.
      rewrite (IH (nodup_tail _ _ _ Hnd) HIn) in Hn. discriminate.
    + apply IH; [eapply nodup_tail; eauto|exact HIn].
Qed.

(** a dictionary every entry of the ingredient is already merged into is a fixed point *)
Lemma mix_loop_fixed rec ing : forall R,
  (forall k v, In (k, v) ing -> dget k R = Some (mix_entry rec R k v)) ->
  mix_loop rec ing R = R.
Proof.
  induction ing as [|[k v] ing IH]; intros R H; [reflexivity|].
  rewrite mix_loop_cons.
  rewrite dset_same_id by (apply H; now left).
  apply IH. intros k0 v0 HIn. apply H. now right.
Qed.

Lemma mix_loop_idem rec ing acc :
  nodup_keys ing = true ->
  (forall k v d, In (k, v) ing -> rec (rec d v) v = rec d v) ->
  mix_loop rec ing (mix_loop rec ing acc) = mix_loop rec ing acc.
Proof.
  intros Hnd Hrec. apply mix_loop_fixed. intros k v HIn.
  rewrite dget_mix_loop by exact Hnd.
  rewrite (In_dget_nodup _ _ _ Hnd HIn).
  f_equal. unfold mix_entry. destruct v; try reflexivity.
  rewrite dget_mix_loop by exact Hnd.
  rewrite (In_dget_nodup _ _ _ Hnd HIn).
  unfold mix_entry. symmetry. apply (Hrec k _ _ HIn).
Qed.

Lemma mixj_idem : forall ing dish,
  wf_json ing = true -> mixj (mixj dish ing) ing = mixj dish ing.
Proof.
  induction ing using json_ind'; intros dish Hi; try reflexivity.
  rewrite !mixj_obj. cbn [as_dict]. f_equal. unfold mix.
  destruct (wf_json_obj _ Hi) as [Hnd Hsub].
  apply mix_loop_idem; [exact Hnd|].
  intros k v d HIn.
  rewrite Forall_forall in H. apply (H (k, v) HIn d). apply (Hsub _ _ HIn).
Qed.

Theorem mix_idem o p : wf_dict p = true -> mix (mix o p) p = mix o p.
Proof.
  unfold wf_dict. intros Hp.
  pose proof (mixj_idem (JObj p) (JObj o) Hp) as H.
  rewrite !mixj_obj in H. cbn [as_dict] in H. injection H as H. exact H.
Qed.

(** overlaying a dictionary with itself changes nothing (a caller who supplies exactly the pre-set
    options, or pre-set options equal to the caller's, is evaluated under those very options) *)
Lemma mixj_self : forall v, wf_json v = true -> mixj v v = v.
Proof.
  induction v using json_ind'; intros Hw; try reflexivity.
  rewrite mixj_obj. cbn [as_dict]. f_equal. unfold mix.
  destruct (wf_json_obj _ Hw) as [Hnd Hsub].
  apply mix_loop_fixed. intros k v HIn.
  rewrite (In_dget_nodup _ _ _ Hnd HIn). f_equal.
  unfold mix_entry. destruct v; try reflexivity.
  rewrite (In_dget_nodup _ _ _ Hnd HIn). symmetry.
  rewrite Forall_forall in H. apply (H _ HIn). apply (Hsub _ _ HIn).
Qed.

Theorem mix_self o : wf_dict o = true -> mix o o = o.
Proof.
  unfold wf_dict. intros Ho. pose proof (mixj_self (JObj o) Ho) as H.
  rewrite mixj_obj in H. cbn [as_dict] in H. injection H as H. exact H.
Qed.

(** the same at lookup level, for any key: what the twice-overlaid dictionary answers *)
Corollary lookup_mix_idem k o p :
  wf_dict p = true -> lookup k (JObj (mix (mix o p) p)) = lookup k (JObj (mix o p)).
Proof. intros Hp. now rewrite mix_idem. Qed.

(** non-vacuity: a nested pre-set that changes the caller's dictionary, absorbed the second time *)
Example mix_idem_example :
  let o := [(SName 20, JObj [(SName 22, JInt 2); (SName 21, JInt 7)]); (SName 10, JInt 3)]%N in
  let p := [(SName 20, JObj [(SName 21, JInt 1); (SName 23, JObj [(SName 24, JNull)])]); (SName 11, JInt 4)]%N in
  wf_dict p = true /\ mix o p <> o /\ mix (mix o p) p = mix o p.
Proof. vm_compute. repeat split; congruence. Qed.

(** evaluation level: wrapping twice in the same forced pre-set options is wrapping once — as whole
    computations (result, store effects, events), from every state, for validate/keys/explain
    alike since all four evaluate under [with_opts] *)
Section EvalLevel.
  Variable St : Type.
  Variable mem_find : N -> fp -> St -> option value.
  Variable mem_store : N -> fp -> value -> St -> St.
  Variable cfg : config.
  Variable ucall : N -> list value -> cres.
  Variable rfuel : nat.
  Variable site_ok : expr -> dict -> bool.
  Notation eval := (eval St mem_find mem_store cfg ucall rfuel site_ok).
  Notation validate := (validate St mem_find mem_store cfg ucall rfuel site_ok).

  Lemma eval_forced_twice p e o s :
    wf_dict p = true -> eval (EWith true p (EWith true p e)) o s = eval (EWith true p e) o s.
  Proof.
    intros Hp. rewrite !(eval_with St mem_find mem_store cfg ucall rfuel site_ok).
    cbn [with_opts]. now rewrite mix_idem.
  Qed.

  Lemma validate_forced_twice p e o s :
    wf_dict p = true -> validate (EWith true p (EWith true p e)) o s = validate (EWith true p e) o s.
  Proof.
    intros Hp. rewrite !(validate_with St mem_find mem_store cfg ucall rfuel site_ok).
    cbn [with_opts]. now rewrite mix_idem.
  Qed.
End EvalLevel.
