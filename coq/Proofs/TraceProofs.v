(** Trace-level lemmas about the interpreters of Model/Eval.v, shared by C12 (failures), C06
    (laziness) and C02 (memoization): the outcome of a computation is a triple (result, store,
    events in order of occurrence); the writer monad makes the log of a sequence the
    concatenation of the logs.  Generic in the store type, store operations, switches, user code,
    resolution budget and ghost oracle.  Contents:
      1. outcome combinators ([after], [wrap_out]) and rewriting lemmas for bind/catch/wrap_eval;
      2. the local loops of the interpreters as named definitions + one unfolding equation per
         constructor and interpreter (all by [reflexivity]);
      3. the STORE FRAME theorem: any reflexive-transitive relation on stores that every
         permitted [mem_store] respects is respected by every evaluate / validate / keys run;
      4. the fragment [kstatic] of expressions whose keys() computation never looks at the
         store and runs no user code ("chooser-free up to constant or plain-Option dispatch"). *)
From Coq Require Import List NArith ZArith Bool Lia.
Import ListNotations.
From LV Require Import Model.Base Model.Template Model.Eval Model.Derived
  Proofs.BaseProofs Proofs.EvalProofs Proofs.EvalInd.

Section Trace.
  Variable S : Type.
  Variable mem_find : N -> fp -> S -> option value.
  Variable mem_store : N -> fp -> value -> S -> S.
  Variable cfg : config.
  Variable ucall : N -> list value -> cres.
  Variable rfuel : nat.
  Variable site_ok : expr -> dict -> bool.

  Notation eval := (eval S mem_find mem_store cfg ucall rfuel site_ok).
  Notation validate := (validate S mem_find mem_store cfg ucall rfuel site_ok).
  Notation keys := (keys S mem_find mem_store cfg ucall rfuel site_ok).
  Notation M := (M S).
  Notation bind := (bind S).
  Notation ret := (ret S).
  Notation fail := (fail S).
  Notation emit := (emit S).
  Notation catch := (catch S).
  Notation wrap_eval := (wrap_eval S).
  Notation call_value := (call_value S ucall).

  (** ** 1. Outcomes *)
  Definition outcome (A : Type) : Type := (res A * S * list event)%type.

  (** the same outcome, preceded by the events [l1] *)
  Definition after {A} (l1 : list event) (x : outcome A) : outcome A :=
    (fst (fst x), snd (fst x), l1 ++ snd x).

  (** what the EvaluateRequest wrapper does to an outcome *)
  Definition wrap_out {A} (x : outcome A) : outcome A :=
    match x with
    | (Ok a, s', l) => (Ok a, s', l)
    | (Err c _, s', l) => (Err c true, s', l)
    end.

  Lemma after_nil {A} (x : outcome A) : after [] x = x.
  Proof. destruct x as [[r s] l]. reflexivity. Qed.
  Lemma after_after {A} l1 l2 (x : outcome A) : after l1 (after l2 x) = after (l1 ++ l2) x.
  Proof. unfold after. cbn. now rewrite app_assoc. Qed.
  Lemma after_triple {A} l1 (r : res A) s l : after l1 (r, s, l) = (r, s, l1 ++ l).
  Proof. reflexivity. Qed.
  Lemma wrap_after {A} l1 (x : outcome A) : wrap_out (after l1 x) = after l1 (wrap_out x).
  Proof. destruct x as [[[a|c ee] s] l]; reflexivity. Qed.
  Lemma wrap_eval_out {A} (m : M A) s : wrap_eval m s = wrap_out (m s).
  Proof. reflexivity. Qed.
  Lemma wrap_out_idem {A} (x : outcome A) : wrap_out (wrap_out x) = wrap_out x.
  Proof. destruct x as [[[a|c ee] s] l]; reflexivity. Qed.
  Lemma wrap_out_eval e o s : wrap_out (eval e o s) = eval e o s.
  Proof. rewrite <- wrap_eval_out. apply eval_is_wrapped. Qed.
  Lemma wrap_out_ok {A} (a : A) s l : wrap_out (Ok a, s, l) = (Ok a, s, l).
  Proof. reflexivity. Qed.
  Lemma wrap_out_err {A} c ee s l : wrap_out (A := A) (Err c ee, s, l) = (Err c true, s, l).
  Proof. reflexivity. Qed.

  (** the log of a sequence is the concatenation of the logs *)
  Lemma bind_okE {A B} (m : M A) (f : A -> M B) s a s1 l1 :
    m s = (Ok a, s1, l1) -> bind m f s = after l1 (f a s1).
  Proof. intros H. unfold Eval.bind, after. rewrite H. destruct (f a s1) as [[r s2] l2]. reflexivity. Qed.
  Lemma bind_errE {A B} (m : M A) (f : A -> M B) s c ee s1 l1 :
    m s = (Err c ee, s1, l1) -> bind m f s = (Err c ee, s1, l1).
  Proof. intros H. unfold Eval.bind. now rewrite H. Qed.
  Lemma log_bind {A B} (m : M A) (f : A -> M B) s a s1 l1 :
    m s = (Ok a, s1, l1) -> snd (bind m f s) = l1 ++ snd (f a s1).
  Proof. intros H. rewrite (bind_okE _ _ _ _ _ _ H). reflexivity. Qed.

  Lemma catch_okE {A} (m : M A) h s a s1 l1 :
    m s = (Ok a, s1, l1) -> catch m h s = (Ok a, s1, l1).
  Proof. intros H. unfold Eval.catch. now rewrite H. Qed.
  Lemma catch_errE {A} (m : M A) h s c ee s1 l1 :
    m s = (Err c ee, s1, l1) -> c <> CUnmodelled -> catch m h s = after l1 (h c ee s1).
  Proof.
    intros H Hc. unfold Eval.catch, after. rewrite H.
    destruct (h c ee s1) as [[r s2] l2]. destruct c; try reflexivity. now elim Hc.
  Qed.
  Lemma catch_unmodE {A} (m : M A) h s ee s1 l1 :
    m s = (Err CUnmodelled ee, s1, l1) -> catch m h s = (Err CUnmodelled ee, s1, l1).
  Proof. intros H. unfold Eval.catch. now rewrite H. Qed.

  Lemma ret_E {A} (a : A) s : ret a s = (Ok a, s, []).  Proof. reflexivity. Qed.
  Lemma fail_E {A} c ee s : @Eval.fail S A c ee s = (Err c ee, s, []).  Proof. reflexivity. Qed.
  Lemma emit_E ev s : emit ev s = (Ok tt, s, [ev]).  Proof. reflexivity. Qed.

  (** an error of [eval] always carries [ee = true] *)
  Lemma eval_err_true e o s c ee s' l : eval e o s = (Err c ee, s', l) -> ee = true.
  Proof. apply eval_err_is_evaluation_error. Qed.

  (** lists of sub-evaluations: a failing element after a successful prefix *)
  Lemma mapM_app_err {A B} (f : A -> M B) pre x post s vs s1 l1 c ee s2 l2 :
    mapM S f pre s = (Ok vs, s1, l1) -> f x s1 = (Err c ee, s2, l2) ->
    mapM S f (pre ++ x :: post) s = (Err c ee, s2, l1 ++ l2).
  Proof.
    revert s vs l1. induction pre as [|a pre IH]; intros s vs l1 Hpre Hx.
    - cbn in Hpre. inversion Hpre; subst. cbn [app]. rewrite mapM_cons.
      now rewrite (bind_errE _ _ _ _ _ _ _ Hx).
    - cbn [app]. rewrite mapM_cons in *.
      destruct (f a s) as [[[b|c0 ee0] sa] la] eqn:Ea.
      + rewrite (bind_okE _ _ _ _ _ _ Ea) in Hpre. rewrite (bind_okE _ _ _ _ _ _ Ea). cbv beta in *.
        destruct (mapM S f pre sa) as [[[bs|c1 ee1] sb] lb] eqn:Eb.
        * rewrite (bind_okE _ _ _ _ _ _ Eb) in Hpre. cbn in Hpre. inversion Hpre; subst.
          rewrite (bind_errE _ _ _ _ _ _ _ (IH _ _ _ Eb Hx)). rewrite after_triple, app_nil_r. now rewrite app_assoc.
        * rewrite (bind_errE _ _ _ _ _ _ _ Eb) in Hpre. discriminate.
      + rewrite (bind_errE _ _ _ _ _ _ _ Ea) in Hpre. discriminate.
  Qed.

  Lemma iterM_app_err {A} (f : A -> M unit) pre x post s s1 l1 c ee s2 l2 :
    iterM S f pre s = (Ok tt, s1, l1) -> f x s1 = (Err c ee, s2, l2) ->
    iterM S f (pre ++ x :: post) s = (Err c ee, s2, l1 ++ l2).
  Proof.
    revert s l1. induction pre as [|a pre IH]; intros s l1 Hpre Hx.
    - cbn in Hpre. inversion Hpre; subst. cbn [app]. rewrite iterM_cons.
      now rewrite (bind_errE _ _ _ _ _ _ _ Hx).
    - cbn [app]. rewrite iterM_cons in *.
      destruct (f a s) as [[[b|c0 ee0] sa] la] eqn:Ea.
      + rewrite (bind_okE _ _ _ _ _ _ Ea) in Hpre. rewrite (bind_okE _ _ _ _ _ _ Ea). cbv beta in *.
        destruct (iterM S f pre sa) as [[[[]|c1 ee1] sb] lb] eqn:Eb; cbn in Hpre.
        * inversion Hpre; subst. rewrite (IH _ _ Eb Hx). rewrite after_triple. now rewrite app_assoc.
        * discriminate.
      + rewrite (bind_errE _ _ _ _ _ _ _ Ea) in Hpre. discriminate.
  Qed.

  (** ** 2. The local loops of the interpreters, named, and the unfolding equations *)
  Definition case_loop {A} (o : dict) (x : value) (fin : M A) (sel : expr -> M A)
    : list (expr * expr) -> M A :=
    fix go (cs : list (expr * expr)) : M A :=
      match cs with
      | [] => fin
      | (c, r) :: cs' =>
          bind (eval c o) (fun p => bind (call_value p x) (fun b => if truthy b then sel r else go cs'))
      end.

  Definition coal_loop {A} (o : dict) (act : expr -> M A)
    : list expr -> option (cause * bool) -> M A :=
    fix go (ms : list expr) (last : option (cause * bool)) : M A :=
      match ms with
      | [] => match last with Some (c, ee) => fail c ee | None => fail CUnmodelled false end
      | m :: ms' =>
          catch (bind (validate m o) (fun _ => act m))
                (fun c ee => if ee then go ms' (Some (c, ee)) else fail c ee)
      end.

  Definition iter_loop (o : dict) : list expr -> M (list value) :=
    fix go (es : list expr) : M (list value) :=
      match es with
      | [] => ret []
      | x :: es' =>
          catch (bind (eval x o) (fun v => if is_some (deep_err v) then ret [v]
                                           else bind (go es') (fun vs => ret (v :: vs))))
                (fun c _ => ret [VErr c])
      end.

  Definition map_loop (o : dict) (e : expr) : list (list (key * value) * dict) -> M (list value) :=
    fix go (rows : list (list (key * value) * dict)) : M (list value) :=
      match rows with
      | [] => ret []
      | (row, os) :: rows' =>
          catch (bind (eval e (with_opts true os o))
                   (fun r => if is_some (deep_err r) then ret [VT T_TUPLE [row_dict row; r]]
                             else bind (go rows') (fun rs => ret (VT T_TUPLE [row_dict row; r] :: rs))))
                (fun c _ => ret [VErr c])
      end.

  Definition dflt_or {A} (dflt : option expr) (f : expr -> M A) (none : M A) : M A :=
    match dflt with Some d => f d | None => none end.

  (** [Evaluatable.fingerprint] *)
  Definition fingerprint (e : expr) (o : dict) : M fp :=
    bind (keys e o) (fun ks => fingerprint_of S ks o).

  (** the CacheSetRequest handler: store, then read back *)
  Definition store_back (cid : N) (e : expr) (o : dict) (v : value) : M value :=
    bind (fingerprint e o) (fun f =>
    bind (put_store S (mem_store cid f (exhaust v))) (fun _ =>
    bind (emit (EvCacheSet cid)) (fun _ =>
    bind (if has_lazy v then emit (EvLazyStored cid) else ret tt) (fun _ =>
    bind (fingerprint e o) (fun f' =>
    bind (get_store S) (fun s =>
      match mem_find cid f' s with
      | Some _ => bind (emit (EvCacheGet cid true)) (fun _ => ret v)
      | None => bind (emit (EvCacheGet cid false)) (fun _ => ret v)
      end)))))).

  Definition miss_path (cid : N) (e : expr) (o : dict) : M value :=
    bind (eval e o) (fun v => store_back cid e o v).

  (** [Cached.evaluate] with the cache switched on *)
  Definition cached_on (cid : N) (e : expr) (o : dict) : M value :=
    bind (if site_ok e o then ret tt else emit (EvDirty cid)) (fun _ =>
    bind (fingerprint e o) (fun f =>
    bind (get_store S) (fun s =>
      match mem_find cid f s with
      | Some _ =>
          bind (emit (EvCacheExists cid true)) (fun _ =>
          bind (fingerprint e o) (fun f2 =>
          bind (get_store S) (fun s2 =>
            match mem_find cid f2 s2 with
            | Some v => bind (emit (EvCacheGet cid true)) (fun _ => ret v)
            | None => bind (emit (EvCacheGet cid false)) (fun _ => miss_path cid e o)
            end)))
      | None => bind (emit (EvCacheExists cid false)) (fun _ => miss_path cid e o)
      end))).

  Definition cache_off (o : dict) : bool := cfg.(cache_ctx_off) || cache_opt_off o.

  Definition effect_run (o : dict) (v : value) (eff : expr) : M unit :=
    bind (eval eff o) (fun f => bind (call_value f v) (fun _ => ret tt)).

  Lemma eval_value_E v o : eval (EValue v) o = wrap_eval (ret v).
  Proof. reflexivity. Qed.
  Lemma eval_apply_E src fn o :
    eval (EApply src fn) o =
      wrap_eval (bind (eval src o) (fun x => bind (eval fn o) (fun f => call_value f x))).
  Proof. reflexivity. Qed.
  Lemma eval_bind_E src tbl dflt o :
    eval (EBind src tbl dflt) o =
      wrap_eval (bind (eval src o) (fun x =>
        pick x (fun b => eval b o) (dflt_or dflt (fun d => eval d o) (fail (CUser 0) false)) tbl)).
  Proof. reflexivity. Qed.
  Lemma eval_switch_E disp tbl dflt o :
    eval (ESwitch disp tbl dflt) o =
      wrap_eval (bind (dispatch_value S (eval disp o) (is_some dflt)) (fun dv =>
        match dv with
        | None => dflt_or dflt (fun d => eval d o) (fail CUnmodelled false)
        | Some k => if negb (hashable k) then fail CType false
                    else pick k (fun b => eval b o) (dflt_or dflt (fun d => eval d o) (fail CSwitch true)) tbl
        end)).
  Proof. reflexivity. Qed.
  Lemma eval_case_E disp cases dflt o :
    eval (ECase disp cases dflt) o =
      wrap_eval (bind (eval disp o) (fun x =>
        case_loop o x (dflt_or dflt (fun d => eval d o) (fail CCase true)) (fun r => eval r o) cases)).
  Proof. reflexivity. Qed.
  Lemma eval_coalesce_E ms o :
    eval (ECoalesce ms) o = wrap_eval (coal_loop o (fun m => eval m o) ms None).
  Proof. reflexivity. Qed.
  Lemma eval_iter_E es o :
    eval (EIter es) o = wrap_eval (bind (iter_loop o es) (fun vs => ret (VT T_ITER vs))).
  Proof. reflexivity. Qed.
  Lemma eval_map_E e its o :
    eval (EMap e its) o =
      wrap_eval (bind (map_rows S (fun x => eval x o) its) (fun rows =>
                 bind (mapM S (fun row => bind (row_options S row) (fun os => ret (row, os))) rows) (fun rowsos =>
                 bind (map_loop o e rowsos) (fun rs => ret (VT T_ITER rs))))).
  Proof. reflexivity. Qed.
  Lemma eval_with_E force p e o : eval (EWith force p e) o = wrap_eval (eval e (with_opts force p o)).
  Proof. reflexivity. Qed.
  Lemma eval_cached_none_E e o : eval (ECached CNone e) o = wrap_eval (eval e o).
  Proof. reflexivity. Qed.
  Lemma eval_cached_mem_E cid e o :
    eval (ECached (CMem cid) e) o = wrap_eval (if cache_off o then eval e o else cached_on cid e o).
  Proof. reflexivity. Qed.
  Lemma eval_call_E partial f args kwargs o :
    eval (ECall partial f args kwargs) o =
      wrap_eval (bind (eval f o) (fun fv =>
                 bind (mapM S (fun x => eval x o) args) (fun av =>
                 bind (mapM S (fun x => eval x o) kwargs) (fun kv =>
                   if partial then
                     match fv with
                     | VF fid pre post => ret (VF fid (pre ++ av) (post ++ kv))
                     | _ => fail CUnmodelled false
                     end
                   else call_value_n S ucall fv (av ++ kv))))).
  Proof. reflexivity. Qed.
  Lemma eval_template_E s ps o :
    eval (ETemplate s ps) o =
      wrap_eval (bind (template_options S (fun x => eval x o) ps o) (fun o' =>
                 bind (emit_reads S (filter (fun k => negb (is_par_key k)) (resolve_reads rfuel o' (JStr s))) o) (fun _ =>
                 bind (of_rres S (resolve rfuel o' (JStr s))) (fun j =>
                   match to_str j with
                   | Some r => ret (VJ (JStr r))
                   | None => fail CUnmodelled false
                   end)))).
  Proof. reflexivity. Qed.
  Lemma eval_comp_E e effects o :
    eval (EComp e effects) o =
      wrap_eval (bind (eval e o) (fun v =>
                 bind (if effects_opt_off o then ret tt else iterM S (effect_run o v) effects) (fun _ => ret v))).
  Proof. reflexivity. Qed.
  Lemma eval_logged_E e o :
    eval (ELogged e) o =
      wrap_eval (bind (emit EvLogReq) (fun _ =>
                 bind (if cfg.(log_ctx_off) || logging_opt_off o then ret tt else emit EvLogEmit) (fun _ =>
                 eval e o))).
  Proof. reflexivity. Qed.
  Lemma eval_pipe_E steps o :
    eval (EPipe steps) o =
      wrap_eval (bind (mapM S (fun x => eval x o) steps) (fun fs => ret (VF B_COMPOSE (rev fs) []))).
  Proof. reflexivity. Qed.
  Lemma eval_alloptions_E o : eval EAllOptions o = wrap_eval (all_options_eval S rfuel o).
  Proof. reflexivity. Qed.

  (** *** validate *)
  Lemma validate_value_E v o : validate (EValue v) o = ret tt.
  Proof. reflexivity. Qed.
  Lemma validate_option_E k dflt dom o :
    validate (EOption k dflt dom) o =
      bind (rd S k o) (fun r =>
        match r with
        | TypeErr => fail CType false
        | Found _ => bind (wrap_eval (option_eval S ucall rfuel (fun x => eval x o) k dflt dom o)) (fun _ => ret tt)
        | Absent => dflt_or dflt (fun d => validate d o) (fail (CKey k) true)
        end).
  Proof. reflexivity. Qed.
  Lemma validate_apply_E src fn o :
    validate (EApply src fn) o = bind (validate src o) (fun _ => validate fn o).
  Proof. reflexivity. Qed.
  Lemma validate_bind_E src tbl dflt o :
    validate (EBind src tbl dflt) o =
      bind (validate src o) (fun _ => bind (eval src o) (fun x =>
        pick x (fun b => validate b o) (dflt_or dflt (fun d => validate d o) (fail (CUser 0) false)) tbl)).
  Proof. reflexivity. Qed.
  Lemma validate_switch_E disp tbl dflt o :
    validate (ESwitch disp tbl dflt) o =
      bind (dispatch_value S (eval disp o) (is_some dflt)) (fun dv =>
        match dv with
        | None => dflt_or dflt (fun d => validate d o) (fail CUnmodelled false)
        | Some k => if negb (hashable k) then fail CType false
                    else pick k (fun b => validate b o) (dflt_or dflt (fun d => validate d o) (fail CSwitch true)) tbl
        end).
  Proof. reflexivity. Qed.
  Lemma validate_case_E disp cases dflt o :
    validate (ECase disp cases dflt) o =
      bind (validate disp o) (fun _ => bind (eval disp o) (fun x =>
        case_loop o x (dflt_or dflt (fun d => validate d o) (fail CCase true)) (fun r => validate r o) cases)).
  Proof. reflexivity. Qed.
  Lemma validate_coalesce_E ms o :
    validate (ECoalesce ms) o = coal_loop o (fun m => validate m o) ms None.
  Proof. reflexivity. Qed.
  Lemma validate_iter_E es o : validate (EIter es) o = iterM S (fun x => validate x o) es.
  Proof. reflexivity. Qed.
  Lemma validate_map_E e its o :
    validate (EMap e its) o =
      bind (map_rows S (fun x => eval x o) its) (fun rows =>
        iterM S (fun row => bind (row_options S row) (fun os => validate e (with_opts true os o))) rows).
  Proof. reflexivity. Qed.
  Lemma validate_with_E force p e o : validate (EWith force p e) o = validate e (with_opts force p o).
  Proof. reflexivity. Qed.
  Lemma validate_cached_none_E e o : validate (ECached CNone e) o = validate e o.
  Proof. reflexivity. Qed.
  Lemma validate_cached_mem_E cid e o :
    validate (ECached (CMem cid) e) o =
      if cache_off o then validate e o
      else bind (keys e o) (fun ks => bind (fingerprint_of S ks o) (fun f => bind (get_store S) (fun s =>
             match mem_find cid f s with
             | Some _ => bind (emit (EvCacheExists cid true)) (fun _ => ret tt)
             | None => bind (emit (EvCacheExists cid false)) (fun _ => validate e o)
             end))).
  Proof. reflexivity. Qed.
  Lemma validate_call_E p f args kwargs o :
    validate (ECall p f args kwargs) o =
      bind (validate f o) (fun _ => bind (iterM S (fun x => validate x o) args) (fun _ =>
        iterM S (fun x => validate x o) kwargs)).
  Proof. reflexivity. Qed.
  Definition validate_ref (o : dict) (k : key) : M unit :=
    bind (rd S k o) (fun r =>
      match r with
      | TypeErr => fail CType false
      | Absent => fail (CKey k) true
      | Found raw =>
          bind (emit_reads S (resolve_reads rfuel o raw) o) (fun _ =>
          bind (wrap_eval (of_rres S (resolve rfuel o raw))) (fun _ => ret tt))
      end).
  Lemma validate_template_E s ps o :
    validate (ETemplate s ps) o =
      bind (iterM S (fun pe => validate (snd pe) o) ps) (fun _ => iterM S (validate_ref o) (refs s)).
  Proof. reflexivity. Qed.
  Lemma validate_comp_E e effects o :
    validate (EComp e effects) o =
      bind (validate e o) (fun _ =>
        if effects_opt_off o then ret tt else iterM S (fun x => validate x o) effects).
  Proof. reflexivity. Qed.
  Lemma validate_logged_E e o : validate (ELogged e) o = validate e o.
  Proof. reflexivity. Qed.
  Lemma validate_pipe_E steps o : validate (EPipe steps) o = iterM S (fun x => validate x o) steps.
  Proof. reflexivity. Qed.
  Lemma validate_alloptions_E o :
    validate EAllOptions o = bind (wrap_eval (all_options_eval S rfuel o)) (fun _ => ret tt).
  Proof. reflexivity. Qed.

  (** *** keys *)
  Definition has_par (s : str) : bool := existsb (fun t => match t with TPar _ => true | _ => false end) s.

  Lemma keys_value_E v o : keys (EValue v) o = ret [].
  Proof. reflexivity. Qed.
  Lemma keys_option_E k dflt dom o :
    keys (EOption k dflt dom) o =
      bind (rd S k o) (fun r =>
        match r with
        | TypeErr => fail CType false
        | Found (JStr s) =>
            if has_par s then fail CUnmodelled false
            else bind (unionM S (fun k' => ref_keys S rfuel true o k') (refs s)) (fun ks => ret (k :: ks))
        | Found _ => ret [k]
        | Absent => dflt_or dflt (fun d => keys d o) (fail (CKey k) true)
        end).
  Proof. reflexivity. Qed.
  Lemma keys_apply_E src fn o :
    keys (EApply src fn) o = bind (keys src o) (fun a => bind (keys fn o) (fun b => ret (a ++ b))).
  Proof. reflexivity. Qed.
  Lemma keys_bind_E src tbl dflt o :
    keys (EBind src tbl dflt) o =
      bind (keys src o) (fun a => bind (eval src o) (fun x =>
      bind (pick x (fun b => keys b o) (dflt_or dflt (fun d => keys d o) (fail (CUser 0) false)) tbl) (fun b =>
      ret (a ++ b)))).
  Proof. reflexivity. Qed.
  Lemma keys_switch_E disp tbl dflt o :
    keys (ESwitch disp tbl dflt) o =
      bind (dispatch_value S (eval disp o) (is_some dflt)) (fun dv =>
        match dv with
        | None => dflt_or dflt (fun d => keys d o) (fail CUnmodelled false)
        | Some k =>
            if negb (hashable k) then fail CType false
            else bind (pick k (fun b => keys b o) (dflt_or dflt (fun d => keys d o) (fail CSwitch true)) tbl) (fun a =>
                 bind (keys disp o) (fun b => ret (a ++ b)))
        end).
  Proof. reflexivity. Qed.
  Lemma keys_case_E disp cases dflt o :
    keys (ECase disp cases dflt) o =
      bind (keys disp o) (fun a => bind (eval disp o) (fun x =>
      bind (case_loop o x (dflt_or dflt (fun d => keys d o) (fail CCase true)) (fun r => keys r o) cases) (fun b =>
      ret (a ++ b)))).
  Proof. reflexivity. Qed.
  Lemma keys_coalesce_E ms o :
    keys (ECoalesce ms) o = coal_loop o (fun m => keys m o) ms None.
  Proof. reflexivity. Qed.
  Lemma keys_iter_E es o : keys (EIter es) o = unionM S (fun x => keys x o) es.
  Proof. reflexivity. Qed.
  Lemma keys_map_E e its o :
    keys (EMap e its) o =
      bind (map_rows S (fun x => eval x o) its) (fun rows =>
      bind (unionM S (fun row => bind (row_options S row) (fun os =>
                        bind (keys e (with_opts true os o)) (fun ks =>
                        filter_preset S true os o (with_opts true os o) ks))) rows) (fun a =>
      bind (unionM S (fun kv => keys (snd kv) o) its) (fun b => ret (a ++ b)))).
  Proof. reflexivity. Qed.
  Lemma keys_with_E force p e o :
    keys (EWith force p e) o =
      bind (keys e (with_opts force p o)) (fun ks => filter_preset S force p o (with_opts force p o) ks).
  Proof. reflexivity. Qed.
  Lemma keys_cached_E c e o : keys (ECached c e) o = keys e o.
  Proof. reflexivity. Qed.
  Lemma keys_call_E p f args kwargs o :
    keys (ECall p f args kwargs) o =
      bind (keys f o) (fun a => bind (unionM S (fun x => keys x o) args) (fun b =>
      bind (unionM S (fun x => keys x o) kwargs) (fun c => ret (a ++ b ++ c)))).
  Proof. reflexivity. Qed.
  Lemma keys_template_E s ps o :
    keys (ETemplate s ps) o =
      bind (unionM S (fun pe => keys (snd pe) o) ps) (fun a =>
      bind (unionM S (fun k => ref_keys S rfuel true o k) (refs s)) (fun b => ret (a ++ b))).
  Proof. reflexivity. Qed.
  Lemma keys_comp_E e effects o : keys (EComp e effects) o = keys e o.
  Proof. reflexivity. Qed.
  Lemma keys_logged_E e o : keys (ELogged e) o = keys e o.
  Proof. reflexivity. Qed.
  Lemma keys_pipe_E steps o : keys (EPipe steps) o = unionM S (fun x => keys x o) steps.
  Proof. reflexivity. Qed.
  Lemma keys_alloptions_E o :
    keys EAllOptions o = bind (emit EvReadAll) (fun _ => ret (map (fun kv => [fst kv]) o)).
  Proof. reflexivity. Qed.

  Lemma option_eval_E ev k dflt dom o :
    option_eval S ucall rfuel ev k dflt dom o =
      bind (rd S k o) (fun r =>
      bind (match r with
            | TypeErr => fail CType false
            | Absent => match dflt with None => fail (CKey k) true | Some d => ev d end
            | Found raw =>
                bind (emit_reads S (resolve_reads rfuel o raw) o) (fun _ =>
                bind (of_rres S (resolve rfuel o raw)) (fun j => ret (VJ j)))
            end) (fun v =>
      match dom with
      | None => ret v
      | Some de => bind (ev de) (fun d => bind (in_domain S ucall d v) (fun _ => ret v))
      end)).
  Proof. reflexivity. Qed.

  Lemma rd_E k o s :
    rd S k o s = (Ok (lookup k (JObj o)), s,
                  [EvRead k (match lookup k (JObj o) with Found _ => true | _ => false end)]).
  Proof. reflexivity. Qed.

  (** induction on values (nested through argument lists) *)
  Section ValueInd.
    Variable P : value -> Prop.
    Hypothesis HJ : forall j, P (VJ j).
    Hypothesis HT : forall t args, Forall P args -> P (VT t args).
    Hypothesis HF : forall f pre post, Forall P pre -> Forall P post -> P (VF f pre post).
    Hypothesis HM : P VMissing.
    Hypothesis HE : forall c, P (VErr c).
    Fixpoint value_ind' (v : value) : P v :=
      let all := fix all (l : list value) : Forall P l :=
        match l with [] => Forall_nil _ | x :: l' => Forall_cons _ (value_ind' x) (all l') end in
      match v with
      | VJ j => HJ j
      | VT t args => HT t args (all args)
      | VF f pre post => HF f pre post (all pre) (all post)
      | VMissing => HM
      | VErr c => HE c
      end.
  End ValueInd.

  Definition compose_loop : list value -> value -> M value :=
    fix go (fs : list value) (acc : value) {struct fs} : M value :=
      match fs with
      | [] => ret acc
      | g :: fs' => bind (call_value g acc) (fun y => go fs' y)
      end.
  Lemma call_value_VF fid pre post x :
    call_value (VF fid pre post) x =
      if N.eqb fid B_COMPOSE then compose_loop pre x else call_fun S ucall fid (pre ++ [x] ++ post).
  Proof. reflexivity. Qed.
  Lemma ref_keys_S fuel strict o k :
    ref_keys S (Datatypes.S fuel) strict o k =
      bind (rd S k o) (fun r =>
        match r with
        | Found (JStr s) =>
            if has_par s then fail CUnmodelled false
            else bind (unionM S (fun k' => ref_keys S fuel strict o k') (refs s)) (fun ks => ret (k :: ks))
        | Found _ => ret [k]
        | Absent => if strict then fail (CKey k) true else ret [k]
        | TypeErr => fail CType false
        end).
  Proof. reflexivity. Qed.

  (** ** 3. The store frame.  [R] is any reflexive, transitive relation between stores that
      every store operation on a permitted cache respects; then every run of evaluate /
      validate / keys of an expression that mentions only permitted caches relates its initial
      store to its final store.  (Instances: "cache c is untouched" with every other cache
      permitted; "entries are never removed" with every cache permitted.) *)
  Section StoreFrame.
    Variable R : S -> S -> Prop.
    Hypothesis R_refl : forall s, R s s.
    Hypothesis R_trans : forall a b c, R a b -> R b c -> R a c.
    Variable allowed : N -> bool.
    Hypothesis R_store : forall c f v s, allowed c = true -> R s (mem_store c f v s).

    Definition fr {A} (m : M A) : Prop := forall s r s' l, m s = (r, s', l) -> R s s'.

    Lemma fr_ret {A} (a : A) : fr (ret a).
    Proof. intros s r s' l H. inversion H; subst. apply R_refl. Qed.
    Lemma fr_fail {A} c ee : fr (@Eval.fail S A c ee).
    Proof. intros s r s' l H. inversion H; subst. apply R_refl. Qed.
    Lemma fr_emit ev : fr (emit ev).
    Proof. intros s r s' l H. inversion H; subst. apply R_refl. Qed.
    Lemma fr_get_store : fr (get_store S).
    Proof. intros s r s' l H. inversion H; subst. apply R_refl. Qed.
    Lemma fr_put_store c f v : allowed c = true -> fr (put_store S (mem_store c f v)).
    Proof. intros Ha s r s' l H. inversion H; subst. now apply R_store. Qed.
    Lemma fr_bind {A B} (m : M A) (f : A -> M B) : fr m -> (forall a, fr (f a)) -> fr (bind m f).
    Proof.
      intros Hm Hf s r s' l H. unfold Eval.bind in H.
      destruct (m s) as [[[a|c ee] s1] l1] eqn:E.
      - destruct (f a s1) as [[r2 s2] l2] eqn:E2. inversion H; subst.
        eapply R_trans; [eapply Hm; eauto|eapply Hf; eauto].
      - inversion H; subst. eapply Hm; eauto.
    Qed.
    Lemma fr_catch {A} (m : M A) h : fr m -> (forall c ee, fr (h c ee)) -> fr (catch m h).
    Proof.
      intros Hm Hh s r s' l H. unfold Eval.catch in H.
      destruct (m s) as [[[a|c ee] s1] l1] eqn:E.
      - inversion H; subst. eapply Hm; eauto.
      - destruct (h c ee s1) as [[r2 s2] l2] eqn:E2.
        assert (R s s1) by (eapply Hm; eauto).
        assert (R s1 s2) by (eapply Hh; eauto).
        destruct c; inversion H; subst; eauto.
    Qed.
    Lemma fr_wrap {A} (m : M A) : fr m -> fr (wrap_eval m).
    Proof.
      intros Hm s r s' l H. unfold Eval.wrap_eval in H.
      destruct (m s) as [[[a|c ee] s1] l1] eqn:E; inversion H; subst; eapply Hm; eauto.
    Qed.
    Lemma fr_mapM {A B} (f : A -> M B) l : (forall a, In a l -> fr (f a)) -> fr (mapM S f l).
    Proof.
      induction l as [|a l IH]; intros H; [apply fr_ret|]. rewrite mapM_cons.
      apply fr_bind; [apply H; now left|]. intros b. apply fr_bind; [|intros; apply fr_ret].
      apply IH. intros x Hx. apply H. now right.
    Qed.
    Lemma fr_iterM {A} (f : A -> M unit) l : (forall a, In a l -> fr (f a)) -> fr (iterM S f l).
    Proof.
      induction l as [|a l IH]; intros H; [apply fr_ret|]. rewrite iterM_cons.
      apply fr_bind; [apply H; now left|]. intros _. apply IH. intros x Hx. apply H. now right.
    Qed.
    Lemma fr_unionM {A} (f : A -> M (list key)) l : (forall a, In a l -> fr (f a)) -> fr (unionM S f l).
    Proof.
      induction l as [|a l IH]; intros H; [apply fr_ret|]. rewrite unionM_cons.
      apply fr_bind; [apply H; now left|]. intros b. apply fr_bind; [|intros; apply fr_ret].
      apply IH. intros x Hx. apply H. now right.
    Qed.
    Lemma fr_pick {A} k (onhit : expr -> M A) onmiss tbl :
      (forall ve, In ve tbl -> fr (onhit (snd ve))) -> fr onmiss -> fr (pick k onhit onmiss tbl).
    Proof.
      intros Hh Hm. induction tbl as [|[v b] tbl IH]; [exact Hm|]. cbn [pick].
      destruct (value_eq k v).
      - apply (Hh (v, b)). now left.
      - apply IH. intros ve Hve. apply Hh. now right.
    Qed.
    Lemma fr_dflt_or {A} dflt (f : expr -> M A) none :
      (forall d, dflt = Some d -> fr (f d)) -> fr none -> fr (dflt_or dflt f none).
    Proof. intros Hf Hn. destruct dflt as [d|]; cbn; [now apply Hf|exact Hn]. Qed.

    Ltac fr_step :=
      match goal with
      | |- fr (Eval.bind _ _ _) => apply fr_bind; [|intros ?]
      | |- fr (Eval.ret _ _) => apply fr_ret
      | |- fr (Eval.fail _ _ _) => apply fr_fail
      | |- fr (Eval.emit _ _) => apply fr_emit
      | |- fr (Eval.get_store _) => apply fr_get_store
      | |- fr (Eval.catch _ _ _) => apply fr_catch; [|intros ? ?]
      | |- fr (Eval.wrap_eval _ _) => apply fr_wrap
      | H : fr ?m |- fr ?m => exact H
      | |- fr (if ?b then _ else _) => destruct b
      | |- fr (match ?x with _ => _ end) => destruct x
      end.
    Ltac fr_tac := repeat fr_step.

    (** the primitives never touch the store *)
    Lemma fr_force_elems v : fr (force_elems S v).
    Proof. unfold force_elems. fr_tac. Qed.
    Lemma fr_call_fun f args : fr (call_fun S ucall f args).
    Proof. unfold call_fun. fr_tac; try apply fr_force_elems. Qed.
    Lemma fr_call_value f : forall x, fr (call_value f x).
    Proof.
      induction f using value_ind'; intros x; try (cbn; apply fr_fail).
      rewrite call_value_VF. destruct (N.eqb f B_COMPOSE); [|apply fr_call_fun].
      clear H0. revert x. induction H as [|g pre Hg Hpre IH]; intros x; cbn [compose_loop].
      - apply fr_ret.
      - apply fr_bind; [apply Hg|]. intros y. apply IH.
    Qed.
    Lemma fr_call_value_n f args : fr (call_value_n S ucall f args).
    Proof. unfold call_value_n. fr_tac. apply fr_call_fun. Qed.
    Lemma fr_rd k o : fr (rd S k o).
    Proof. unfold rd. fr_tac. Qed.
    Lemma fr_of_rres r : fr (of_rres S r).
    Proof. unfold of_rres. fr_tac. Qed.
    Lemma fr_emit_reads ks o : fr (emit_reads S ks o).
    Proof. unfold emit_reads. apply fr_iterM. intros. apply fr_emit. Qed.
    Lemma fr_ref_keys fuel strict o : forall k, fr (ref_keys S fuel strict o k).
    Proof.
      induction fuel as [|fuel IH]; intros k; [apply fr_fail|].
      rewrite ref_keys_S. apply fr_bind; [apply fr_rd|]. intros r.
      destruct r as [[]| |]; fr_tac. apply fr_unionM. intros; apply IH.
    Qed.
    Lemma fr_in_domain d v : fr (in_domain S ucall d v).
    Proof.
      unfold in_domain. destruct d; fr_tac; apply fr_call_value.
    Qed.
    Lemma fr_filter_preset force p o mixed ks : fr (filter_preset S force p o mixed ks).
    Proof. induction ks as [|k ks IH]; cbn [filter_preset]; fr_tac. Qed.
    Lemma fr_fingerprint_of ks o : fr (fingerprint_of S ks o).
    Proof. unfold fingerprint_of. apply fr_mapM. intros. fr_tac. Qed.
    Lemma fr_row_options row : fr (row_options S row).
    Proof. unfold row_options. fr_tac. Qed.
    Lemma fr_all_options_eval o : fr (all_options_eval S rfuel o).
    Proof. unfold all_options_eval. fr_tac. apply fr_of_rres. Qed.

    (** the combinators that take the evaluator of sub-expressions *)
    Lemma fr_option_eval ev k dflt dom o :
      (forall d, dflt = Some d -> fr (ev d)) -> (forall d, dom = Some d -> fr (ev d)) ->
      fr (option_eval S ucall rfuel ev k dflt dom o).
    Proof.
      intros Hd Hm. rewrite option_eval_E. apply fr_bind; [apply fr_rd|]. intros r.
      apply fr_bind.
      - destruct r as [raw| |]; [| |apply fr_fail].
        + fr_tac; [apply fr_emit_reads|apply fr_of_rres].
        + destruct dflt as [d|]; [now apply Hd|apply fr_fail].
      - intros v. destruct dom as [de|]; [|apply fr_ret].
        apply fr_bind; [now apply Hm|]. intros d. apply fr_bind; [apply fr_in_domain|]. intros; apply fr_ret.
    Qed.
    Lemma fr_dispatch_value ev b : fr ev -> fr (dispatch_value S ev b).
    Proof. intros H. unfold dispatch_value. fr_tac. Qed.
    Lemma fr_map_rows ev its : (forall kv, In kv its -> fr (ev (snd kv))) -> fr (map_rows S ev its).
    Proof.
      intros H. unfold map_rows. apply fr_bind; [|intros; apply fr_ret].
      apply fr_mapM. intros kv Hkv. apply fr_bind; [now apply H|]. intros; apply fr_force_elems.
    Qed.
    Lemma fr_template_options ev ps o :
      (forall pe, In pe ps -> fr (ev (snd pe))) -> fr (template_options S ev ps o).
    Proof.
      intros H. unfold template_options. apply fr_bind.
      - apply fr_mapM. intros pe Hpe. apply fr_bind; [now apply H|]. intros; apply fr_ret.
      - intros pvs. fr_tac.
    Qed.
    Lemma fr_case_loop {A} o x (fin : M A) sel cases :
      fr fin -> (forall cr, In cr cases -> fr (eval (fst cr) o) /\ fr (sel (snd cr))) ->
      fr (case_loop o x fin sel cases).
    Proof.
      intros Hf H. induction cases as [|[c r] cases IH]; [exact Hf|]. cbn [case_loop].
      destruct (H (c, r) (or_introl eq_refl)) as [Hc Hr]. cbn [fst snd] in *.
      apply fr_bind; [exact Hc|]. intros p. apply fr_bind; [apply fr_call_value|]. intros b.
      destruct (truthy b); [exact Hr|]. apply IH. intros cr Hcr. apply H. now right.
    Qed.
    Lemma fr_coal_loop {A} o (act : expr -> M A) ms :
      (forall m, In m ms -> fr (validate m o) /\ fr (act m)) -> forall last, fr (coal_loop o act ms last).
    Proof.
      induction ms as [|m ms IH]; intros H last; cbn [coal_loop].
      - destruct last as [[c ee]|]; apply fr_fail.
      - destruct (H m (or_introl eq_refl)) as [Hv Ha].
        apply fr_catch; [apply fr_bind; [exact Hv|intros; exact Ha]|].
        intros c ee. destruct ee; [|apply fr_fail]. apply IH. intros x Hx. apply H. now right.
    Qed.
    Lemma fr_iter_loop o es : (forall x, In x es -> fr (eval x o)) -> fr (iter_loop o es).
    Proof.
      induction es as [|x es IH]; intros H; cbn [iter_loop]; [apply fr_ret|].
      apply fr_catch; [|intros; apply fr_ret].
      apply fr_bind; [apply H; now left|]. intros v. destruct (is_some (deep_err v)); [apply fr_ret|].
      apply fr_bind; [|intros; apply fr_ret]. apply IH. intros y Hy. apply H. now right.
    Qed.
    Lemma fr_map_loop o e rows : (forall o', fr (eval e o')) -> fr (map_loop o e rows).
    Proof.
      intros H. induction rows as [|[row os] rows IH]; cbn [map_loop]; [apply fr_ret|].
      apply fr_catch; [|intros; apply fr_ret].
      apply fr_bind; [apply H|]. intros v. destruct (is_some (deep_err v)); [apply fr_ret|].
      apply fr_bind; [exact IH|intros; apply fr_ret].
    Qed.

    (** every cache named in the expression is permitted *)
    Definition optb (f : expr -> bool) (x : option expr) : bool :=
      match x with Some d => f d | None => true end.
    Fixpoint caches_allowed (e : expr) : bool :=
      match e with
      | EValue _ => true
      | EOption _ dflt dom => optb caches_allowed dflt && optb caches_allowed dom
      | EApply src fn => caches_allowed src && caches_allowed fn
      | EBind src tbl dflt | ESwitch src tbl dflt =>
          caches_allowed src && forallb (fun ve => caches_allowed (snd ve)) tbl && optb caches_allowed dflt
      | ECase disp cases dflt =>
          caches_allowed disp
          && forallb (fun cr => caches_allowed (fst cr) && caches_allowed (snd cr)) cases
          && optb caches_allowed dflt
      | ECoalesce ms | EIter ms | EPipe ms => forallb caches_allowed ms
      | EMap e its => caches_allowed e && forallb (fun ke => caches_allowed (snd ke)) its
      | EWith _ _ e | ELogged e => caches_allowed e
      | ECached c e => match c with CMem cid => allowed cid | CNone => true end && caches_allowed e
      | ECall _ f args kwargs => caches_allowed f && forallb caches_allowed args && forallb caches_allowed kwargs
      | ETemplate _ ps => forallb (fun pe => caches_allowed (snd pe)) ps
      | EComp e effects => caches_allowed e && forallb caches_allowed effects
      | EAllOptions => true
      end.

    Definition fr3 (e : expr) : Prop :=
      forall o, fr (eval e o) /\ fr (validate e o) /\ fr (keys e o).
    Definition PP (e : expr) : Prop := caches_allowed e = true -> fr3 e.

    Lemma opt_use dflt : Popt PP dflt -> optb caches_allowed dflt = true -> forall d, dflt = Some d -> fr3 d.
    Proof. intros H1 H2 d ->. cbn in *. auto. Qed.
    Lemma list_use l : Forall PP l -> forallb caches_allowed l = true -> forall x, In x l -> fr3 x.
    Proof.
      intros H1 H2 x Hx. rewrite Forall_forall in H1. rewrite forallb_forall in H2.
      apply H1; auto.
    Qed.
    Lemma snd_use {K} (l : list (K * expr)) :
      Forall (fun ve => PP (snd ve)) l -> forallb (fun ve => caches_allowed (snd ve)) l = true ->
      forall ve, In ve l -> fr3 (snd ve).
    Proof.
      intros H1 H2 x Hx. rewrite Forall_forall in H1. rewrite forallb_forall in H2.
      apply H1; auto.
    Qed.
    Lemma cases_use cases :
      Forall (fun cr => PP (fst cr) /\ PP (snd cr)) cases ->
      forallb (fun cr => caches_allowed (fst cr) && caches_allowed (snd cr)) cases = true ->
      forall cr, In cr cases -> fr3 (fst cr) /\ fr3 (snd cr).
    Proof.
      intros H1 H2 x Hx. rewrite Forall_forall in H1. rewrite forallb_forall in H2.
      specialize (H1 x Hx). specialize (H2 x Hx). apply andb_prop in H2 as [Ha Hb].
      destruct H1 as [P1 P2]. split; auto.
    Qed.

    Ltac fr_ih :=
      match goal with
      | H : fr3 ?x |- fr (Eval.eval _ _ _ _ _ _ _ ?x ?o) => exact (proj1 (H o))
      | H : fr3 ?x |- fr (Eval.validate _ _ _ _ _ _ _ ?x ?o) => exact (proj1 (proj2 (H o)))
      | H : fr3 ?x |- fr (Eval.keys _ _ _ _ _ _ _ ?x ?o) => exact (proj2 (proj2 (H o)))
      end.
    (* children reached through a list / option / pair hypothesis *)
    Ltac fr_child :=
      match goal with
      | H : forall x, In x ?l -> fr3 x, Hx : In ?y ?l |- _ => pose proof (H y Hx); clear Hx; fr_ih
      | H : forall ve, In ve ?l -> fr3 (snd ve), Hx : In ?y ?l |- _ => pose proof (H y Hx); clear Hx; fr_ih
      | H : forall d, ?dflt = Some d -> fr3 d, Hx : ?dflt = Some ?y |- _ => pose proof (H y Hx); clear Hx; fr_ih
      end.
    Ltac fr_go := repeat first [fr_ih | fr_child | fr_step].

    Lemma frame_EOption k dflt dom : Popt PP dflt -> Popt PP dom -> PP (EOption k dflt dom).
    Proof.
      intros Hd Hm Hc. cbn [caches_allowed] in Hc. apply andb_prop in Hc as [C1 C2].
      pose proof (opt_use _ Hd C1) as Ud. pose proof (opt_use _ Hm C2) as Um.
      assert (Hev : forall o, fr (option_eval S ucall rfuel (fun x => eval x o) k dflt dom o)).
      { intros o. apply fr_option_eval; intros d Ed; fr_go. }
      intros o. split; [|split].
      - rewrite eval_option_unfold. apply fr_wrap. apply Hev.
      - rewrite validate_option_E. apply fr_bind; [apply fr_rd|]. intros r.
        destruct r as [raw| |]; [| |apply fr_fail].
        + apply fr_bind; [apply fr_wrap, Hev|intros; apply fr_ret].
        + apply fr_dflt_or; [|apply fr_fail]. intros d Ed. fr_go.
      - rewrite keys_option_E. apply fr_bind; [apply fr_rd|]. intros r.
        destruct r as [[]| |]; try apply fr_ret; try apply fr_fail.
        + destruct (has_par s); [apply fr_fail|]. apply fr_bind; [|intros; apply fr_ret].
          apply fr_unionM. intros; apply fr_ref_keys.
        + apply fr_dflt_or; [|apply fr_fail]. intros d Ed. fr_go.
    Qed.

    Lemma frame_EApply src fn : PP src -> PP fn -> PP (EApply src fn).
    Proof.
      intros H1 H2 Hc. cbn [caches_allowed] in Hc. apply andb_prop in Hc as [C1 C2].
      specialize (H1 C1). specialize (H2 C2). intros o. split; [|split].
      - rewrite eval_apply_E. fr_go. apply fr_call_value.
      - rewrite validate_apply_E. fr_go.
      - rewrite keys_apply_E. fr_go.
    Qed.

    Lemma frame_EBind src tbl dflt :
      PP src -> Forall (fun ve => PP (snd ve)) tbl -> Popt PP dflt -> PP (EBind src tbl dflt).
    Proof.
      intros H1 H2 H3 Hc. cbn [caches_allowed] in Hc.
      apply andb_prop in Hc as [Hc C3]. apply andb_prop in Hc as [C1 C2].
      specialize (H1 C1). pose proof (snd_use _ H2 C2) as Ut. pose proof (opt_use _ H3 C3) as Ud.
      intros o. split; [|split].
      - rewrite eval_bind_E. fr_go. apply fr_pick; [intros ve Hve; fr_go|].
        apply fr_dflt_or; [intros d Ed; fr_go|apply fr_fail].
      - rewrite validate_bind_E. fr_go. apply fr_pick; [intros ve Hve; fr_go|].
        apply fr_dflt_or; [intros d Ed; fr_go|apply fr_fail].
      - rewrite keys_bind_E. fr_go. apply fr_pick; [intros ve Hve; fr_go|].
        apply fr_dflt_or; [intros d Ed; fr_go|apply fr_fail].
    Qed.

    Lemma frame_ESwitch disp tbl dflt :
      PP disp -> Forall (fun ve => PP (snd ve)) tbl -> Popt PP dflt -> PP (ESwitch disp tbl dflt).
    Proof.
      intros H1 H2 H3 Hc. cbn [caches_allowed] in Hc.
      apply andb_prop in Hc as [Hc C3]. apply andb_prop in Hc as [C1 C2].
      specialize (H1 C1). pose proof (snd_use _ H2 C2) as Ut. pose proof (opt_use _ H3 C3) as Ud.
      intros o. split; [|split].
      - rewrite eval_switch_E. apply fr_wrap. apply fr_bind; [apply fr_dispatch_value; fr_go|].
        intros [k|]; [|apply fr_dflt_or; [intros d Ed; fr_go|apply fr_fail]].
        destruct (negb (hashable k)); [apply fr_fail|].
        apply fr_pick; [intros ve Hve; fr_go|]. apply fr_dflt_or; [intros d Ed; fr_go|apply fr_fail].
      - rewrite validate_switch_E. apply fr_bind; [apply fr_dispatch_value; fr_go|].
        intros [k|]; [|apply fr_dflt_or; [intros d Ed; fr_go|apply fr_fail]].
        destruct (negb (hashable k)); [apply fr_fail|].
        apply fr_pick; [intros ve Hve; fr_go|]. apply fr_dflt_or; [intros d Ed; fr_go|apply fr_fail].
      - rewrite keys_switch_E. apply fr_bind; [apply fr_dispatch_value; fr_go|].
        intros [k|]; [|apply fr_dflt_or; [intros d Ed; fr_go|apply fr_fail]].
        destruct (negb (hashable k)); [apply fr_fail|].
        apply fr_bind; [|intros; fr_go].
        apply fr_pick; [intros ve Hve; fr_go|]. apply fr_dflt_or; [intros d Ed; fr_go|apply fr_fail].
    Qed.

    Lemma frame_ECase disp cases dflt :
      PP disp -> Forall (fun cr => PP (fst cr) /\ PP (snd cr)) cases -> Popt PP dflt ->
      PP (ECase disp cases dflt).
    Proof.
      intros H1 H2 H3 Hc. cbn [caches_allowed] in Hc.
      apply andb_prop in Hc as [Hc C3]. apply andb_prop in Hc as [C1 C2].
      specialize (H1 C1). pose proof (cases_use _ H2 C2) as Uc. pose proof (opt_use _ H3 C3) as Ud.
      intros o. split; [|split].
      - rewrite eval_case_E. apply fr_wrap. apply fr_bind; [fr_go|]. intros x.
        apply fr_case_loop; [apply fr_dflt_or; [intros d Ed; fr_go|apply fr_fail]|].
        intros cr Hcr. destruct (Uc cr Hcr) as [Ua Ub]. split; fr_go.
      - rewrite validate_case_E. apply fr_bind; [fr_go|]. intros _. apply fr_bind; [fr_go|]. intros x.
        apply fr_case_loop; [apply fr_dflt_or; [intros d Ed; fr_go|apply fr_fail]|].
        intros cr Hcr. destruct (Uc cr Hcr) as [Ua Ub]. split; fr_go.
      - rewrite keys_case_E. apply fr_bind; [fr_go|]. intros a. apply fr_bind; [fr_go|]. intros x.
        apply fr_bind; [|intros; apply fr_ret].
        apply fr_case_loop; [apply fr_dflt_or; [intros d Ed; fr_go|apply fr_fail]|].
        intros cr Hcr. destruct (Uc cr Hcr) as [Ua Ub]. split; fr_go.
    Qed.

    Lemma frame_ECoalesce ms : Forall PP ms -> PP (ECoalesce ms).
    Proof.
      intros H1 Hc. cbn [caches_allowed] in Hc. pose proof (list_use _ H1 Hc) as U.
      intros o. split; [|split].
      - rewrite eval_coalesce_E. apply fr_wrap. apply fr_coal_loop. intros m Hm.
        pose proof (U m Hm). split; fr_go.
      - rewrite validate_coalesce_E. apply fr_coal_loop. intros m Hm. pose proof (U m Hm). split; fr_go.
      - rewrite keys_coalesce_E. apply fr_coal_loop. intros m Hm. pose proof (U m Hm). split; fr_go.
    Qed.

    Lemma frame_EIter es : Forall PP es -> PP (EIter es).
    Proof.
      intros H1 Hc. cbn [caches_allowed] in Hc. pose proof (list_use _ H1 Hc) as U.
      intros o. split; [|split].
      - rewrite eval_iter_E. apply fr_wrap. apply fr_bind; [|intros; apply fr_ret].
        apply fr_iter_loop. intros x Hx. fr_go.
      - rewrite validate_iter_E. apply fr_iterM. intros x Hx. fr_go.
      - rewrite keys_iter_E. apply fr_unionM. intros x Hx. fr_go.
    Qed.

    Lemma frame_EMap e its : PP e -> Forall (fun ke => PP (snd ke)) its -> PP (EMap e its).
    Proof.
      intros H1 H2 Hc. cbn [caches_allowed] in Hc. apply andb_prop in Hc as [C1 C2].
      specialize (H1 C1). pose proof (snd_use _ H2 C2) as Ui.
      assert (Hrows : forall o, fr (map_rows S (fun x => eval x o) its)).
      { intros o. apply fr_map_rows. intros kv Hkv. fr_go. }
      intros o. split; [|split].
      - rewrite eval_map_E. apply fr_wrap. apply fr_bind; [apply Hrows|]. intros rows.
        apply fr_bind.
        + apply fr_mapM. intros row _. apply fr_bind; [apply fr_row_options|intros; apply fr_ret].
        + intros rowsos. apply fr_bind; [|intros; apply fr_ret]. apply fr_map_loop. intros o'. fr_go.
      - rewrite validate_map_E. apply fr_bind; [apply Hrows|]. intros rows.
        apply fr_iterM. intros row _. apply fr_bind; [apply fr_row_options|]. intros os. fr_go.
      - rewrite keys_map_E. apply fr_bind; [apply Hrows|]. intros rows.
        apply fr_bind.
        + apply fr_unionM. intros row _. apply fr_bind; [apply fr_row_options|]. intros os.
          apply fr_bind; [fr_go|]. intros ks. apply fr_filter_preset.
        + intros a. apply fr_bind; [|intros; apply fr_ret]. apply fr_unionM. intros kv Hkv. fr_go.
    Qed.

    Lemma frame_EWith force p e : PP e -> PP (EWith force p e).
    Proof.
      intros H1 Hc. cbn [caches_allowed] in Hc. specialize (H1 Hc). intros o. split; [|split].
      - rewrite eval_with_E. fr_go.
      - rewrite validate_with_E. fr_go.
      - rewrite keys_with_E. fr_go. apply fr_filter_preset.
    Qed.

    Lemma fr_fingerprint e o : fr3 e -> fr (fingerprint e o).
    Proof. intros H. unfold fingerprint. apply fr_bind; [fr_go|]. intros; apply fr_fingerprint_of. Qed.

    Lemma frame_ECached c e : PP e -> PP (ECached c e).
    Proof.
      intros H1 Hc. cbn [caches_allowed] in Hc. apply andb_prop in Hc as [Ca Ce].
      specialize (H1 Ce). destruct c as [cid|].
      - assert (Hsb : forall o v, fr (store_back cid e o v)).
        { intros o v. unfold store_back. apply fr_bind; [now apply fr_fingerprint|]. intros f.
          apply fr_bind; [now apply fr_put_store|]. intros _. apply fr_bind; [apply fr_emit|]. intros _.
          apply fr_bind; [destruct (has_lazy v); [apply fr_emit|apply fr_ret]|]. intros _.
          apply fr_bind; [now apply fr_fingerprint|]. intros f'. apply fr_bind; [apply fr_get_store|].
          intros s. destruct (mem_find cid f' s); fr_go. }
        assert (Hmiss : forall o, fr (miss_path cid e o)).
        { intros o. unfold miss_path. apply fr_bind; [fr_go|]. intros v. apply Hsb. }
        intros o. split; [|split].
        + rewrite eval_cached_mem_E. apply fr_wrap. destruct (cache_off o); [fr_go|].
          unfold cached_on. apply fr_bind; [destruct (site_ok e o); [apply fr_ret|apply fr_emit]|].
          intros _. apply fr_bind; [now apply fr_fingerprint|]. intros f.
          apply fr_bind; [apply fr_get_store|]. intros s.
          destruct (mem_find cid f s).
          * apply fr_bind; [apply fr_emit|]. intros _. apply fr_bind; [now apply fr_fingerprint|].
            intros f2. apply fr_bind; [apply fr_get_store|]. intros s2.
            destruct (mem_find cid f2 s2); (apply fr_bind; [apply fr_emit|]); intros _;
              [apply fr_ret|apply Hmiss].
          * apply fr_bind; [apply fr_emit|]. intros _. apply Hmiss.
        + rewrite validate_cached_mem_E. destruct (cache_off o); [fr_go|].
          apply fr_bind; [fr_go|]. intros ks. apply fr_bind; [apply fr_fingerprint_of|]. intros f.
          apply fr_bind; [apply fr_get_store|]. intros s. destruct (mem_find cid f s); fr_go.
        + rewrite keys_cached_E. fr_go.
      - intros o. split; [|split].
        + rewrite eval_cached_none_E. fr_go.
        + rewrite validate_cached_none_E. fr_go.
        + rewrite keys_cached_E. fr_go.
    Qed.

    Lemma frame_ECall partial f args kwargs :
      PP f -> Forall PP args -> Forall PP kwargs -> PP (ECall partial f args kwargs).
    Proof.
      intros H1 H2 H3 Hc. cbn [caches_allowed] in Hc.
      apply andb_prop in Hc as [Hc C3]. apply andb_prop in Hc as [C1 C2].
      specialize (H1 C1). pose proof (list_use _ H2 C2) as Ua. pose proof (list_use _ H3 C3) as Uk.
      intros o. split; [|split].
      - rewrite eval_call_E. apply fr_wrap. apply fr_bind; [fr_go|]. intros fv.
        apply fr_bind; [apply fr_mapM; intros x Hx; fr_go|]. intros av.
        apply fr_bind; [apply fr_mapM; intros x Hx; fr_go|]. intros kv.
        destruct partial; [destruct fv; fr_go|apply fr_call_value_n].
      - rewrite validate_call_E. apply fr_bind; [fr_go|]. intros _.
        apply fr_bind; [apply fr_iterM; intros x Hx; fr_go|]. intros _.
        apply fr_iterM; intros x Hx; fr_go.
      - rewrite keys_call_E. apply fr_bind; [fr_go|]. intros a.
        apply fr_bind; [apply fr_unionM; intros x Hx; fr_go|]. intros b.
        apply fr_bind; [apply fr_unionM; intros x Hx; fr_go|]. intros; apply fr_ret.
    Qed.

    Lemma frame_ETemplate s ps : Forall (fun pe => PP (snd pe)) ps -> PP (ETemplate s ps).
    Proof.
      intros H1 Hc. cbn [caches_allowed] in Hc. pose proof (snd_use _ H1 Hc) as U.
      intros o. split; [|split].
      - rewrite eval_template_E. apply fr_wrap.
        apply fr_bind; [apply fr_template_options; intros pe Hpe; fr_go|]. intros o'.
        apply fr_bind; [apply fr_emit_reads|]. intros _. apply fr_bind; [apply fr_of_rres|].
        intros j. destruct (to_str j); fr_go.
      - rewrite validate_template_E. apply fr_bind; [apply fr_iterM; intros pe Hpe; fr_go|]. intros _.
        apply fr_iterM. intros k _. unfold validate_ref. apply fr_bind; [apply fr_rd|]. intros r.
        destruct r as [raw| |]; try apply fr_fail.
        apply fr_bind; [apply fr_emit_reads|]. intros _.
        apply fr_bind; [apply fr_wrap, fr_of_rres|intros; apply fr_ret].
      - rewrite keys_template_E. apply fr_bind; [apply fr_unionM; intros pe Hpe; fr_go|]. intros a.
        apply fr_bind; [apply fr_unionM; intros; apply fr_ref_keys|intros; apply fr_ret].
    Qed.

    Lemma frame_EComp e effects : PP e -> Forall PP effects -> PP (EComp e effects).
    Proof.
      intros H1 H2 Hc. cbn [caches_allowed] in Hc. apply andb_prop in Hc as [C1 C2].
      specialize (H1 C1). pose proof (list_use _ H2 C2) as U.
      intros o. split; [|split].
      - rewrite eval_comp_E. apply fr_wrap. apply fr_bind; [fr_go|]. intros v.
        apply fr_bind; [|intros; apply fr_ret]. destruct (effects_opt_off o); [apply fr_ret|].
        apply fr_iterM. intros x Hx. unfold effect_run. apply fr_bind; [fr_go|]. intros f.
        apply fr_bind; [apply fr_call_value|intros; apply fr_ret].
      - rewrite validate_comp_E. apply fr_bind; [fr_go|]. intros _.
        destruct (effects_opt_off o); [apply fr_ret|]. apply fr_iterM. intros x Hx. fr_go.
      - rewrite keys_comp_E. fr_go.
    Qed.

    Lemma frame_ELogged e : PP e -> PP (ELogged e).
    Proof.
      intros H1 Hc. cbn [caches_allowed] in Hc. specialize (H1 Hc). intros o. split; [|split].
      - rewrite eval_logged_E. fr_go.
      - rewrite validate_logged_E. fr_go.
      - rewrite keys_logged_E. fr_go.
    Qed.

    Lemma frame_EPipe steps : Forall PP steps -> PP (EPipe steps).
    Proof.
      intros H1 Hc. cbn [caches_allowed] in Hc. pose proof (list_use _ H1 Hc) as U.
      intros o. split; [|split].
      - rewrite eval_pipe_E. apply fr_wrap. apply fr_bind; [|intros; apply fr_ret].
        apply fr_mapM. intros x Hx. fr_go.
      - rewrite validate_pipe_E. apply fr_iterM. intros x Hx. fr_go.
      - rewrite keys_pipe_E. apply fr_unionM. intros x Hx. fr_go.
    Qed.

    (** THE STORE FRAME THEOREM *)
    Theorem store_frame e : caches_allowed e = true -> fr3 e.
    Proof.
      induction e using expr_ind'.
      - intros _ o. split; [|split].
        + rewrite eval_value_E. fr_go.
        + rewrite validate_value_E. fr_go.
        + rewrite keys_value_E. fr_go.
      - now apply frame_EOption.
      - now apply frame_EApply.
      - now apply frame_EBind.
      - now apply frame_ESwitch.
      - now apply frame_ECase.
      - now apply frame_ECoalesce.
      - now apply frame_EIter.
      - now apply frame_EMap.
      - now apply frame_EWith.
      - now apply frame_ECached.
      - now apply frame_ECall.
      - now apply frame_ETemplate.
      - now apply frame_EComp.
      - now apply frame_ELogged.
      - now apply frame_EPipe.
      - intros _ o. split; [|split].
        + rewrite eval_alloptions_E. apply fr_wrap, fr_all_options_eval.
        + rewrite validate_alloptions_E. apply fr_bind; [apply fr_wrap, fr_all_options_eval|intros; apply fr_ret].
        + rewrite keys_alloptions_E. fr_go.
    Qed.

    Corollary eval_frame e o s r s' l :
      caches_allowed e = true -> eval e o s = (r, s', l) -> R s s'.
    Proof. intros Hc H. exact (proj1 (store_frame e Hc o) _ _ _ _ H). Qed.
    Corollary validate_frame e o s r s' l :
      caches_allowed e = true -> validate e o s = (r, s', l) -> R s s'.
    Proof. intros Hc H. exact (proj1 (proj2 (store_frame e Hc o)) _ _ _ _ H). Qed.
    Corollary keys_frame_store e o s r s' l :
      caches_allowed e = true -> keys e o s = (r, s', l) -> R s s'.
    Proof. intros Hc H. exact (proj2 (proj2 (store_frame e Hc o)) _ _ _ _ H). Qed.
  End StoreFrame.

  (** ** 4. Computations that neither look at the store nor run user code *)
  Definition quiet_ev (ev : event) : bool :=
    match ev with EvRead _ _ | EvReadAll => true | _ => false end.
  Definition quiet (l : list event) : bool := forallb quiet_ev l.
  Definition static {A} (m : M A) : Prop :=
    exists r l, quiet l = true /\ forall s, m s = (r, s, l).

  Lemma quiet_app a b : quiet (a ++ b) = quiet a && quiet b.
  Proof. apply forallb_app. Qed.

  Lemma static_ret {A} (a : A) : static (ret a).
  Proof. exists (Ok a), []. split; reflexivity. Qed.
  Lemma static_fail {A} c ee : static (@Eval.fail S A c ee).
  Proof. exists (Err c ee), []. split; reflexivity. Qed.
  Lemma static_emit ev : quiet_ev ev = true -> static (emit ev).
  Proof. intros H. exists (Ok tt), [ev]. split; [cbn; now rewrite H|reflexivity]. Qed.
  Lemma static_bind {A B} (m : M A) (f : A -> M B) : static m -> (forall a, static (f a)) -> static (bind m f).
  Proof.
    intros (r & l & Hq & Hm) Hf. destruct r as [a|c ee].
    - destruct (Hf a) as (r2 & l2 & Hq2 & Hf2). exists r2, (l ++ l2). split.
      + rewrite quiet_app, Hq, Hq2. reflexivity.
      + intros s. rewrite (bind_okE _ _ _ _ _ _ (Hm s)), Hf2. reflexivity.
    - exists (Err c ee), l. split; [exact Hq|]. intros s. now rewrite (bind_errE _ _ _ _ _ _ _ (Hm s)).
  Qed.
  Lemma static_catch {A} (m : M A) h : static m -> (forall c ee, static (h c ee)) -> static (catch m h).
  Proof.
    intros (r & l & Hq & Hm) Hh. destruct r as [a|c ee].
    - exists (Ok a), l. split; [exact Hq|]. intros s. now rewrite (catch_okE _ _ _ _ _ _ (Hm s)).
    - destruct (Hh c ee) as (r2 & l2 & Hq2 & Hh2).
      assert (Hc : c = CUnmodelled \/ c <> CUnmodelled)
        by (destruct c; first [now left|right; discriminate]).
      destruct Hc as [->|Hne].
      + exists (Err CUnmodelled ee), l. split; [exact Hq|].
        intros s. now rewrite (catch_unmodE _ _ _ _ _ _ (Hm s)).
      + exists r2, (l ++ l2). split; [rewrite quiet_app, Hq, Hq2; reflexivity|].
        intros s. rewrite (catch_errE _ _ _ _ _ _ _ (Hm s) Hne), Hh2. reflexivity.
  Qed.
  Lemma static_wrap {A} (m : M A) : static m -> static (wrap_eval m).
  Proof.
    intros (r & l & Hq & Hm). destruct r as [a|c ee].
    - exists (Ok a), l. split; [exact Hq|]. intros s. rewrite wrap_eval_out, Hm. reflexivity.
    - exists (Err c true), l. split; [exact Hq|]. intros s. rewrite wrap_eval_out, Hm. reflexivity.
  Qed.
  Lemma static_mapM {A B} (f : A -> M B) l : (forall a, In a l -> static (f a)) -> static (mapM S f l).
  Proof.
    induction l as [|a l IH]; intros H; [apply static_ret|]. rewrite mapM_cons.
    apply static_bind; [apply H; now left|]. intros b. apply static_bind; [|intros; apply static_ret].
    apply IH. intros x Hx. apply H. now right.
  Qed.
  Lemma static_iterM {A} (f : A -> M unit) l : (forall a, In a l -> static (f a)) -> static (iterM S f l).
  Proof.
    induction l as [|a l IH]; intros H; [apply static_ret|]. rewrite iterM_cons.
    apply static_bind; [apply H; now left|]. intros _. apply IH. intros x Hx. apply H. now right.
  Qed.
  Lemma static_unionM {A} (f : A -> M (list key)) l : (forall a, In a l -> static (f a)) -> static (unionM S f l).
  Proof.
    induction l as [|a l IH]; intros H; [apply static_ret|]. rewrite unionM_cons.
    apply static_bind; [apply H; now left|]. intros b. apply static_bind; [|intros; apply static_ret].
    apply IH. intros x Hx. apply H. now right.
  Qed.
  Lemma static_pick {A} k (onhit : expr -> M A) onmiss tbl :
    (forall ve, In ve tbl -> static (onhit (snd ve))) -> static onmiss -> static (pick k onhit onmiss tbl).
  Proof.
    intros Hh Hm. induction tbl as [|[v b] tbl IH]; [exact Hm|]. cbn [pick].
    destruct (value_eq k v).
    - apply (Hh (v, b)). now left.
    - apply IH. intros ve Hve. apply Hh. now right.
  Qed.
  Lemma static_dflt_or {A} dflt (f : expr -> M A) none :
    (forall d, dflt = Some d -> static (f d)) -> static none -> static (dflt_or dflt f none).
  Proof. intros Hf Hn. destruct dflt as [d|]; cbn; [now apply Hf|exact Hn]. Qed.

  Lemma static_rd k o : static (rd S k o).
  Proof. unfold rd. apply static_bind; [now apply static_emit|intros; apply static_ret]. Qed.
  Lemma static_of_rres r : static (of_rres S r).
  Proof. destruct r; cbn; first [apply static_ret|apply static_fail]. Qed.
  Lemma static_emit_reads ks o : static (emit_reads S ks o).
  Proof. unfold emit_reads. apply static_iterM. intros. now apply static_emit. Qed.
  Lemma static_ref_keys fuel strict o : forall k, static (ref_keys S fuel strict o k).
  Proof.
    induction fuel as [|fuel IH]; intros k; [apply static_fail|].
    rewrite ref_keys_S. apply static_bind; [apply static_rd|]. intros r.
    destruct r as [[]| |]; try apply static_ret; try apply static_fail.
    - destruct (has_par s); [apply static_fail|]. apply static_bind; [|intros; apply static_ret].
      apply static_unionM. intros; apply IH.
    - destruct strict; [apply static_fail|apply static_ret].
  Qed.
  Lemma static_filter_preset force p o mixed ks : static (filter_preset S force p o mixed ks).
  Proof.
    induction ks as [|k ks IH]; cbn [filter_preset]; [apply static_ret|].
    destruct (preset_drops force p o mixed k); [|apply static_fail].
    apply static_bind; [exact IH|intros; apply static_ret].
  Qed.
  Lemma static_fingerprint_of ks o : static (fingerprint_of S ks o).
  Proof.
    unfold fingerprint_of. apply static_mapM. intros k _.
    destruct (lookup k (JObj o)); first [apply static_ret|apply static_fail].
  Qed.

  (** dispatch expressions whose evaluation is static: constants and plain Options (no domain)
      with such defaults *)
  Fixpoint pure_expr (e : expr) : bool :=
    match e with
    | EValue _ => true
    | EOption _ dflt None => optb pure_expr dflt
    | _ => false
    end.

  Lemma pure_eval_static e : pure_expr e = true -> forall o, static (eval e o).
  Proof.
    induction e using expr_ind'; intros Hp o; try discriminate.
    - rewrite eval_value_E. apply static_wrap, static_ret.
    - destruct dom; [discriminate|]. cbn [pure_expr] in Hp.
      rewrite eval_option_unfold. apply static_wrap. rewrite option_eval_E.
      apply static_bind; [apply static_rd|]. intros r.
      apply static_bind; [|intros; apply static_ret].
      destruct r as [raw| |]; [| |apply static_fail].
      + apply static_bind; [apply static_emit_reads|]. intros _.
        apply static_bind; [apply static_of_rres|intros; apply static_ret].
      + destruct dflt as [d|]; [|apply static_fail]. cbn in *. now apply H.
  Qed.

  (** the fragment on which keys() is static: no case-when, coalesce or Map on the path keys()
      walks, and every switch / bind / overload dispatch is a [pure_expr].  (keys() ignores an
      Option's domain and a Computation's effects, so these are unrestricted.) *)
  Fixpoint kstatic (e : expr) : bool :=
    match e with
    | EValue _ | EAllOptions => true
    | EOption _ dflt _ => optb kstatic dflt
    | EApply src fn => kstatic src && kstatic fn
    | EBind src tbl dflt | ESwitch src tbl dflt =>
        pure_expr src && kstatic src && forallb (fun ve => kstatic (snd ve)) tbl && optb kstatic dflt
    | ECase _ _ _ | ECoalesce _ | EMap _ _ => false
    | EIter es | EPipe es => forallb kstatic es
    | EWith _ _ e | ELogged e | ECached _ e | EComp e _ => kstatic e
    | ECall _ f args kwargs => kstatic f && forallb kstatic args && forallb kstatic kwargs
    | ETemplate _ ps => forallb (fun pe => kstatic (snd pe)) ps
    end.

  Definition KS (e : expr) : Prop := kstatic e = true -> forall o, static (keys e o).

  Lemma ks_opt dflt : Popt KS dflt -> optb kstatic dflt = true -> forall d o, dflt = Some d -> static (keys d o).
  Proof. intros H1 H2 d o ->. cbn in *. auto. Qed.
  Lemma ks_list l : Forall KS l -> forallb kstatic l = true -> forall x o, In x l -> static (keys x o).
  Proof.
    intros H1 H2 x o Hx. rewrite Forall_forall in H1. rewrite forallb_forall in H2. apply H1; auto.
  Qed.
  Lemma ks_snd {K} (l : list (K * expr)) :
    Forall (fun ve => KS (snd ve)) l -> forallb (fun ve => kstatic (snd ve)) l = true ->
    forall ve o, In ve l -> static (keys (snd ve) o).
  Proof.
    intros H1 H2 x o Hx. rewrite Forall_forall in H1. rewrite forallb_forall in H2. apply H1; auto.
  Qed.

  Theorem keys_static_KS e : KS e.
  Proof.
    induction e using expr_ind'; intros Hk o; cbn [kstatic] in Hk; try discriminate.
    - rewrite keys_value_E. apply static_ret.
    - rewrite keys_option_E. apply static_bind; [apply static_rd|]. intros r.
      destruct r as [[]| |]; try apply static_ret; try apply static_fail.
      + destruct (has_par s); [apply static_fail|]. apply static_bind; [|intros; apply static_ret].
        apply static_unionM. intros; apply static_ref_keys.
      + apply static_dflt_or; [|apply static_fail]. intros d Ed. exact (ks_opt _ H Hk d o Ed).
    - apply andb_prop in Hk as [K1 K2]. rewrite keys_apply_E.
      apply static_bind; [now apply IHe1|]. intros a.
      apply static_bind; [now apply IHe2|intros; apply static_ret].
    - apply andb_prop in Hk as [Hk K4]. apply andb_prop in Hk as [Hk K3]. apply andb_prop in Hk as [K1 K2].
      rewrite keys_bind_E. apply static_bind; [now apply IHe|]. intros a.
      apply static_bind; [now apply pure_eval_static|]. intros x.
      apply static_bind; [|intros; apply static_ret].
      apply static_pick; [intros ve Hve; eapply ks_snd; eauto|].
      apply static_dflt_or; [|apply static_fail]. intros d Ed. eapply ks_opt; eauto.
    - apply andb_prop in Hk as [Hk K4]. apply andb_prop in Hk as [Hk K3]. apply andb_prop in Hk as [K1 K2].
      rewrite keys_switch_E. apply static_bind.
      { unfold dispatch_value. apply static_catch.
        - apply static_bind; [now apply pure_eval_static|intros; apply static_ret].
        - intros c ee. destruct (ee && is_some dflt); [apply static_ret|apply static_fail]. }
      intros [k|].
      + destruct (negb (hashable k)); [apply static_fail|].
        apply static_bind; [|intros; apply static_bind; [now apply IHe|intros; apply static_ret]].
        apply static_pick; [intros ve Hve; eapply ks_snd; eauto|].
        apply static_dflt_or; [|apply static_fail]. intros d Ed. eapply ks_opt; eauto.
      + apply static_dflt_or; [|apply static_fail]. intros d Ed. eapply ks_opt; eauto.
    - rewrite keys_iter_E. apply static_unionM. intros x Hx. eapply ks_list; eauto.
    - rewrite keys_with_E. apply static_bind; [now apply IHe|]. intros; apply static_filter_preset.
    - rewrite keys_cached_E. now apply IHe.
    - apply andb_prop in Hk as [Hk K3]. apply andb_prop in Hk as [K1 K2]. rewrite keys_call_E.
      apply static_bind; [now apply IHe|]. intros a.
      apply static_bind; [apply static_unionM; intros x Hx; exact (ks_list _ H K2 x o Hx)|]. intros b.
      apply static_bind; [apply static_unionM; intros x Hx; exact (ks_list _ H0 K3 x o Hx)|]. intros; apply static_ret.
    - rewrite keys_template_E.
      apply static_bind; [apply static_unionM; intros pe Hpe; eapply ks_snd; eauto|]. intros a.
      apply static_bind; [apply static_unionM; intros; apply static_ref_keys|intros; apply static_ret].
    - rewrite keys_comp_E. now apply IHe.
    - rewrite keys_logged_E. now apply IHe.
    - rewrite keys_pipe_E. apply static_unionM. intros x Hx. eapply ks_list; eauto.
    - rewrite keys_alloptions_E. apply static_bind; [now apply static_emit|intros; apply static_ret].
  Qed.

  Corollary keys_static e : kstatic e = true -> forall o, static (keys e o).
  Proof. exact (keys_static_KS e). Qed.

  Corollary fingerprint_static e : kstatic e = true -> forall o, static (fingerprint e o).
  Proof.
    intros Hk o. unfold fingerprint. apply static_bind; [now apply keys_static|].
    intros; apply static_fingerprint_of.
  Qed.
End Trace.
