(** Trace-level lemmas about the interpreters of Model/Eval.v, shared by C12 (failures), C06
    (laziness) and C02 (memoization): the outcome of a computation is a triple (result, store,
    events in order of occurrence); the writer monad makes the log of a sequence the
    concatenation of the logs.  Generic in the store type, store operations, switches, user code,
    resolution budget and ghost oracle.  Contents:
      1. outcome combinators ([after], [wrap_out]) and rewriting lemmas for bind/catch/wrap_eval;
      2. the local loops of the interpreters as named definitions + one unfolding equation per
         constructor and interpreter (all by [reflexivity]);
      3. the STORE FRAME theorem: any reflexive-transitive relation on stores that every
         permitted [mem_store] respects is respected by every evaluate / validate / keys run;
      4. the fragment [kstatic] of expressions whose keys() computation never looks at the
         store and runs no user code ("chooser-free up to constant or plain-Option dispatch"). *)
From Coq Require Import List NArith ZArith Bool Lia.
Import ListNotations.
From LV Require Import Model.Base Model.Template Model.Eval Model.Derived
  Proofs.BaseProofs Proofs.EvalProofs Proofs.EvalInd.

Section Trace.
  Variable S : Type.
  Variable mem_find : N -> fp -> S -> option value.
  Variable mem_store : N -> fp -> value -> S -> S.
  Variable cfg : config.
  Variable ucall : N -> list value -> cres.
  Variable rfuel : nat.
  Variable site_ok : expr -> dict -> bool.

  Notation eval := (eval S mem_find mem_store cfg ucall rfuel site_ok).
  Notation validate := (validate S mem_find mem_store cfg ucall rfuel site_ok).
  Notation keys := (keys S mem_find mem_store cfg ucall rfuel site_ok).
  Notation M := (M S).
  Notation bind := (bind S).
  Notation ret := (ret S).
  Notation fail := (fail S).
  Notation emit := (emit S).
  Notation catch := (catch S).
  Notation wrap_eval := (wrap_eval S).
  Notation call_value := (call_value S ucall).

  (** ** 1. Outcomes *)
  Definition outcome (A : Type) : Type := (res A * S * list event)%type.

  (** the same outcome, preceded by the events [l1] *)
  Definition after {A} (l1 : list event) (x : outcome A) : outcome A :=
    (fst (fst x), snd (fst x), l1 ++ snd x).

  (** what the EvaluateRequest wrapper does to an outcome *)
  Definition wrap_out {A} (x : outcome A) : outcome A :=
    match x with
    | (Ok a, s', l) => (Ok a, s', l)
    | (Err c _, s', l) => (Err c true, s', l)
    end.

  Lemma after_nil {A} (x : outcome A) : after [] x = x.
  Proof. destruct x as [[r s] l]. reflexivity. Qed.
  Lemma after_after {A} l1 l2 (x : outcome A) : after l1 (after l2 x) = after (l1 ++ l2) x.
  Proof. unfold after. cbn. now rewrite app_assoc. Qed.
  Lemma after_triple {A} l1 (r : res A) s l : after l1 (r, s, l) = (r, s, l1 ++ l).
  Proof. reflexivity. Qed.
  Lemma wrap_after {A} l1 (x : outcome A) : wrap_out (after l1 x) = after l1 (wrap_out x).
  Proof. destruct x as [[[a|c ee] s] l]; reflexivity. Qed.
  Lemma wrap_eval_out {A} (m : M A) s : wrap_eval m s = wrap_out (m s).
  Proof. reflexivity. Qed.
  Lemma wrap_out_idem {A} (x : outcome A) : wrap_out (wrap_out x) = wrap_out x.
  Proof. destruct x as [[[a|c ee] s] l]; reflexivity. Qed.
  Lemma wrap_out_eval e o s : wrap_out (eval e o s) = eval e o s.
  Proof. rewrite <- wrap_eval_out. apply eval_is_wrapped. Qed.
  Lemma wrap_out_ok {A} (a : A) s l : wrap_out (Ok a, s, l) = (Ok a, s, l).
  Proof. reflexivity. Qed.
  Lemma wrap_out_err {A} c ee s l : wrap_out (A := A) (Err c ee, s, l) = (Err c true, s, l).
  Proof. reflexivity. Qed.

  (** the log of a sequence is the concatenation of the logs *)
  Lemma bind_okE {A B} (m : M A) (f : A -> M B) s a s1 l1 :
    m s = (Ok a, s1, l1) -> bind m f s = after l1 (f a s1).
  Proof. intros H. unfold Eval.bind, after. rewrite H. destruct (f a s1) as [[r s2] l2]. reflexivity. Qed.
  Lemma bind_errE {A B} (m : M A) (f : A -> M B) s c ee s1 l1 :
    m s = (Err c ee, s1, l1) -> bind m f s = (Err c ee, s1, l1).
  Proof. intros H. unfold Eval.bind. now rewrite H. Qed.
  Lemma log_bind {A B} (m : M A) (f : A -> M B) s a s1 l1 :
    m s = (Ok a, s1, l1) -> snd (bind m f s) = l1 ++ snd (f a s1).
  Proof. intros H. rewrite (bind_okE _ _ _ _ _ _ H). reflexivity. Qed.

  Lemma catch_okE {A} (m : M A) h s a s1 l1 :
    m s = (Ok a, s1, l1) -> catch m h s = (Ok a, s1, l1).
  Proof. intros H. unfold Eval.catch. now rewrite H. Qed.
  Lemma catch_errE {A} (m : M A) h s c ee s1 l1 :
    m s = (Err c ee, s1, l1) -> c <> CUnmodelled -> catch m h s = after l1 (h c ee s1).
  Proof.
    intros H Hc. unfold Eval.catch, after. rewrite H.
    destruct (h c ee s1) as [[r s2] l2]. destruct c; try reflexivity. now elim Hc.
  Qed.
  Lemma catch_unmodE {A} (m : M A) h s ee s1 l1 :
    m s = (Err CUnmodelled ee, s1, l1) -> catch m h s = (Err CUnmodelled ee, s1, l1).
  Proof. intros H. unfold Eval.catch. now rewrite H. Qed.

  Lemma ret_E {A} (a : A) s : ret a s = (Ok a, s, []).  Proof. reflexivity. Qed.
  Lemma fail_E {A} c ee s : @Eval.fail S A c ee s = (Err c ee, s, []).  Proof. reflexivity. Qed.
  Lemma emit_E ev s : emit ev s = (Ok tt, s, [ev]).  Proof. reflexivity. Qed.

  (** an error of [eval] always carries [ee = true] *)
  Lemma eval_err_true e o s c ee s' l : eval e o s = (Err c ee, s', l) -> ee = true.
  Proof. apply eval_err_is_evaluation_error. Qed.

  (** lists of sub-evaluations: a failing element after a successful prefix *)
  Lemma mapM_app_err {A B} (f : A -> M B) pre x post s vs s1 l1 c ee s2 l2 :
    mapM S f pre s = (Ok vs, s1, l1) -> f x s1 = (Err c ee, s2, l2) ->
    mapM S f (pre ++ x :: post) s = (Err c ee, s2, l1 ++ l2).
  Proof.
    revert s vs l1. induction pre as [|a pre IH]; intros s vs l1 Hpre Hx.
    - cbn in Hpre. inversion Hpre; subst. cbn [app]. rewrite mapM_cons.
      now rewrite (bind_errE _ _ _ _ _ _ _ Hx).
    - cbn [app]. rewrite mapM_cons in *.
      destruct (f a s) as [[[b|c0 ee0] sa] la] eqn:Ea.
      + rewrite (bind_okE _ _ _ _ _ _ Ea) in Hpre. rewrite (bind_okE _ _ _ _ _ _ Ea). cbv beta in *.
        destruct (mapM S f pre sa) as [[[bs|c1 ee1] sb] lb] eqn:Eb.
        * rewrite (bind_okE _ _ _ _ _ _ Eb) in Hpre. cbn in Hpre. inversion Hpre; subst.
          rewrite (bind_errE _ _ _ _ _ _ _ (IH _ _ _ Eb Hx)). rewrite after_triple, app_nil_r. now rewrite app_assoc.
        * rewrite (bind_errE _ _ _ _ _ _ _ Eb) in Hpre. discriminate.
      + rewrite (bind_errE _ _ _ _ _ _ _ Ea) in Hpre. discriminate.
  Qed.

  Lemma iterM_app_err {A} (f : A -> M unit) pre x post s s1 l1 c ee s2 l2 :
    iterM S f pre s = (Ok tt, s1, l1) -> f x s1 = (Err c ee, s2, l2) ->
    iterM S f (pre ++ x :: post) s = (Err c ee, s2, l1 ++ l2).
  Proof.
    revert s l1. induction pre as [|a pre IH]; intros s l1 Hpre Hx.
    - cbn in Hpre. inversion Hpre; subst. cbn [app]. rewrite iterM_cons.
      now rewrite (bind_errE _ _ _ _ _ _ _ Hx).
    - cbn [app]. rewrite iterM_cons in *.
      destruct (f a s) as [[[b|c0 ee0] sa] la] eqn:Ea.
      + rewrite (bind_okE _ _ _ _ _ _ Ea) in Hpre. rewrite (bind_okE _ _ _ _ _ _ Ea). cbv beta in *.
        destruct (iterM S f pre sa) as [[[[]|c1 ee1] sb] lb] eqn:Eb; cbn in Hpre.
        * inversion Hpre; subst. rewrite (IH _ _ Eb Hx). rewrite after_triple. now rewrite app_assoc.
        * discriminate.
      + rewrite (bind_errE _ _ _ _ _ _ _ Ea) in Hpre. discriminate.
  Qed.

  (** ** 2. The local loops of the interpreters, named, and the unfolding equations *)
  Definition case_loop {A} (o : dict) (x : value) (fin : M A) (sel : expr -> M A)
    : list (expr * expr) -> M A :=
    fix go (cs : list (expr * expr)) : M A :=
      match cs with
      | [] => fin
      | (c, r) :: cs' =>
          bind (eval c o) (fun p => bind (call_value p x) (fun b => if truthy b then sel r else go cs'))
      end.

  Definition coal_loop {A} (o : dict) (act : expr -> M A)
    : list expr -> option (cause * bool) -> M A :=
    fix go (ms : list expr) (last : option (cause * bool)) : M A :=
      match ms with
      | [] => match last with Some (c, ee) => fail c ee | None => fail CUnmodelled false end
      | m :: ms' =>
          catch (bind (validate m o) (fun _ => act m))
                (fun c ee => if ee then go ms' (Some (c, ee)) else fail c ee)
      end.

  Definition iter_loop (o : dict) : list expr -> M (list value) :=
    fix go (es : list expr) : M (list value) :=
      match es with
      | [] => ret []
      | x :: es' =>
          catch (bind (eval x o) (fun v => if is_some (deep_err v) then ret [v]
                                           else bind (go es') (fun vs => ret (v :: vs))))
                (fun c _ => ret [VErr c])
      end.

  Definition map_loop (o : dict) (e : expr) : list (list (key * value) * dict) -> M (list value) :=
    fix go (rows : list (list (key * value) * dict)) : M (list value) :=
      match rows with
      | [] => ret []
      | (row, os) :: rows' =>
          catch (bind (eval e (with_opts true os o))
                   (fun r => if is_some (deep_err r) then ret [VT T_TUPLE [row_dict row; r]]
                             else bind (go rows') (fun rs => ret (VT T_TUPLE [row_dict row; r] :: rs))))
                (fun c _ => ret [VErr c])
      end.

  Definition dflt_or {A} (dflt : option expr) (f : expr -> M A) (none : M A) : M A :=
    match dflt with Some d => f d | None => none end.

  (** [Evaluatable.fingerprint] *)
  Definition fingerprint (e : expr) (o : dict) : M fp :=
    bind (keys e o) (fun ks => fingerprint_of S ks o).

  (** the CacheSetRequest handler: store, then read back *)
  Definition store_back (cid : N) (e : expr) (o : dict) (v : value) : M value :=
    bind (fingerprint e o) (fun f =>
    bind (put_store S (mem_store cid f (exhaust v))) (fun _ =>
    bind (emit (EvCacheSet cid)) (fun _ =>
    bind (if has_lazy v then emit (EvLazyStored cid) else ret tt) (fun _ =>
    bind (fingerprint e o) (fun f' =>
    bind (get_store S) (fun s =>
      match mem_find cid f' s with
      | Some _ => bind (emit (EvCacheGet cid true)) (fun _ => ret v)
      | None => bind (emit (EvCacheGet cid false)) (fun _ => ret v)
      end)))))).

  Definition miss_path (cid : N) (e : expr) (o : dict) : M value :=
    bind (eval e o) (fun v => store_back cid e o v).

  (** [Cached.evaluate] with the cache switched on *)
  Definition cached_on (cid : N) (e : expr) (o : dict) : M value :=
    bind (if site_ok e o then ret tt else emit (EvDirty cid)) (fun _ =>
    bind (fingerprint e o) (fun f =>
    bind (get_store S) (fun s =>
      match mem_find cid f s with
      | Some _ =>
          bind (emit (EvCacheExists cid true)) (fun _ =>
          bind (fingerprint e o) (fun f2 =>
          bind (get_store S) (fun s2 =>
            match mem_find cid f2 s2 with
            | Some v => bind (emit (EvCacheGet cid true)) (fun _ => ret v)
            | None => bind (emit (EvCacheGet cid false)) (fun _ => miss_path cid e o)
            end)))
      | None => bind (emit (EvCacheExists cid false)) (fun _ => miss_path cid e o)
      end))).

  Definition cache_off (o : dict) : bool := cfg.(cache_ctx_off) || cache_opt_off o.

  Definition effect_run (o : dict) (v : value) (eff : expr) : M unit :=
    bind (eval eff o) (fun f => bind (call_value f v) (fun _ => ret tt)).

  Lemma eval_value_E v o : eval (EValue v) o = wrap_eval (ret v).
  Proof. reflexivity. Qed.
  Lemma eval_apply_E src fn o :
    eval (EApply src fn) o =
      wrap_eval (bind (eval src o) (fun x => bind (eval fn o) (fun f => call_value f x))).
  Proof. reflexivity. Qed.
  Lemma eval_bind_E src tbl dflt o :
    eval (EBind src tbl dflt) o =
      wrap_eval (bind (eval src o) (fun x =>
        pick x (fun b => eval b o) (dflt_or dflt (fun d => eval d o) (fail (CUser 0) false)) tbl)).
  Proof. reflexivity. Qed.
  Lemma eval_switch_E disp tbl dflt o :
    eval (ESwitch disp tbl dflt) o =
      wrap_eval (bind (dispatch_value S (eval disp o) (is_some dflt)) (fun dv =>
        match dv with
        | None => dflt_or dflt (fun d => eval d o) (fail CUnmodelled false)
        | Some k => if negb (hashable k) then fail CType false
                    else pick k (fun b => eval b o) (dflt_or dflt (fun d => eval d o) (fail CSwitch true)) tbl
        end)).
  Proof. reflexivity. Qed.
  Lemma eval_case_E disp cases dflt o :
    eval (ECase disp cases dflt) o =
      wrap_eval (bind (eval disp o) (fun x =>
        case_loop o x (dflt_or dflt (fun d => eval d o) (fail CCase true)) (fun r => eval r o) cases)).
  Proof. reflexivity. Qed.
  Lemma eval_coalesce_E ms o :
    eval (ECoalesce ms) o = wrap_eval (coal_loop o (fun m => eval m o) ms None).
  Proof. reflexivity. Qed.
  Lemma eval_iter_E es o :
    eval (EIter es) o = wrap_eval (bind (iter_loop o es) (fun vs => ret (VT T_ITER vs))).
  Proof. reflexivity. Qed.
  Lemma eval_map_E e its o :
    eval (EMap e its) o =
      wrap_eval (bind (map_rows S (fun x => eval x o) its) (fun rows =>
                 bind (mapM S (fun row => bind (row_options S row) (fun os => ret (row, os))) rows) (fun rowsos =>
                 bind (map_loop o e rowsos) (fun rs => ret (VT T_ITER rs))))).
  Proof. reflexivity. Qed.
  Lemma eval_with_E force p e o : eval (EWith force p e) o = wrap_eval (eval e (with_opts force p o)).
  Proof. reflexivity. Qed.
  Lemma eval_cached_none_E e o : eval (ECached CNone e) o = wrap_eval (eval e o).
  Proof. reflexivity. Qed.
  Lemma eval_cached_mem_E cid e o :
    eval (ECached (CMem cid) e) o = wrap_eval (if cache_off o then eval e o else cached_on cid e o).
  Proof. reflexivity. Qed.
