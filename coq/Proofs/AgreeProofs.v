(** C10 / C11: validate, keys, explain and evaluate on the cache-free reference instance
    (store = unit, [cfg_nc]: what [labrea.cache.disabled()] computes), for ALL user code and ALL
    option dictionaries, by induction over expressions of stated fragments.

    Part 1: results ([rs]) and logs ([lg]) of reference-instance computations as pure functions,
    and one unfolding equation per (interpreter, constructor). *)
From Coq Require Import List NArith ZArith Bool Lia.
Import ListNotations.
From LV Require Import Model.Base Model.Template Model.Eval Model.Derived Model.EvalRun.
From LV Require Import Proofs.BaseProofs Proofs.EvalProofs Proofs.EvalInd Proofs.EvalUnfold.

Notation MU := (M unit).

Definition rs {A} (m : MU A) : res A := fst (fst (m tt)).
Definition lg {A} (m : MU A) : list event := snd (m tt).

Definition bindr {A B} (r : res A) (f : A -> res B) : res B :=
  match r with Ok a => f a | Err c ee => Err c ee end.
Definition wrapr {A} (r : res A) : res A :=
  match r with Ok a => Ok a | Err c _ => Err c true end.
Definition unmodb (c : cause) : bool := match c with CUnmodelled => true | _ => false end.
Definition catchr {A} (r : res A) (h : cause -> bool -> res A) : res A :=
  match r with
  | Ok a => Ok a
  | Err c ee => if unmodb c then Err c ee else h c ee
  end.
Definition okb {A} (r : res A) : bool := match r with Ok _ => true | Err _ _ => false end.

Lemma rs_ret A (a : A) : rs (ret unit a) = Ok a. Proof. reflexivity. Qed.
Lemma rs_fail A c ee : rs (@fail unit A c ee) = Err c ee. Proof. reflexivity. Qed.
Lemma rs_emit e : rs (emit unit e) = Ok tt. Proof. reflexivity. Qed.
Lemma lg_ret A (a : A) : lg (ret unit a) = []. Proof. reflexivity. Qed.
Lemma lg_fail A c ee : lg (@fail unit A c ee) = []. Proof. reflexivity. Qed.
Lemma lg_emit e : lg (emit unit e) = [e]. Proof. reflexivity. Qed.

Lemma rs_bind A B (m : MU A) (f : A -> MU B) :
  rs (bind unit m f) = bindr (rs m) (fun a => rs (f a)).
Proof.
  unfold rs, bind, bindr. destruct (m tt) as [[[a|c ee] []] l]; cbn; [|reflexivity].
  destruct (f a tt) as [[r []] l']; reflexivity.
Qed.

Lemma lg_bind A B (m : MU A) (f : A -> MU B) :
  lg (bind unit m f) = lg m ++ match rs m with Ok a => lg (f a) | Err _ _ => [] end.
Proof.
  unfold rs, lg, bind. destruct (m tt) as [[[a|c ee] []] l]; cbn; [|now rewrite app_nil_r].
  destruct (f a tt) as [[r []] l']; reflexivity.
Qed.

Lemma rs_wrap A (m : MU A) : rs (wrap_eval unit m) = wrapr (rs m).
Proof. unfold rs, wrap_eval, wrapr. destruct (m tt) as [[[a|c ee] []] l]; reflexivity. Qed.
Lemma lg_wrap A (m : MU A) : lg (wrap_eval unit m) = lg m.
Proof. unfold lg, wrap_eval. destruct (m tt) as [[[a|c ee] []] l]; reflexivity. Qed.

Lemma rs_catch A (m : MU A) h : rs (catch unit m h) = catchr (rs m) (fun c ee => rs (h c ee)).
Proof.
  unfold rs, catch, catchr. destruct (m tt) as [[[a|c ee] []] l]; cbn; [reflexivity|].
  destruct c; cbn; try reflexivity; destruct (h _ ee tt) as [[r []] l']; reflexivity.
Qed.
Lemma lg_catch A (m : MU A) h :
  lg (catch unit m h) =
    lg m ++ match rs m with
            | Ok _ => []
            | Err c ee => if unmodb c then [] else lg (h c ee)
            end.
Proof.
  unfold rs, lg, catch. destruct (m tt) as [[[a|c ee] []] l]; cbn; [now rewrite app_nil_r|].
  destruct c; cbn; try (now rewrite app_nil_r); destruct (h _ ee tt) as [[r []] l']; reflexivity.
Qed.

Lemma wrapr_idem A (r : res A) : wrapr (wrapr r) = wrapr r.
Proof. destruct r; reflexivity. Qed.
Lemma wrapr_ok A (r : res A) a : wrapr r = Ok a <-> r = Ok a.
Proof. destruct r; cbn; split; intros H; try discriminate; exact H. Qed.
Lemma okb_wrapr A (r : res A) : okb (wrapr r) = okb r.
Proof. destruct r; reflexivity. Qed.
Lemma bindr_ok A B (r : res A) (f : A -> res B) b :
  bindr r f = Ok b <-> exists a, r = Ok a /\ f a = Ok b.
Proof.
  destruct r as [a|c ee]; cbn; split.
  - intros H. exists a. split; [reflexivity|exact H].
  - intros [a' [E H]]. inversion E; subst. exact H.
  - discriminate.
  - intros [a' [E _]]. discriminate.
Qed.
Lemma bindr_err A B (r : res A) (f : A -> res B) c ee :
  bindr r f = Err c ee <-> r = Err c ee \/ exists a, r = Ok a /\ f a = Err c ee.
Proof.
  destruct r as [a|c0 ee0]; cbn; split.
  - intros H. right. exists a. split; [reflexivity|exact H].
  - intros [E|[a' [E H]]]; [discriminate|]. inversion E; subst. exact H.
  - intros H. left. now inversion H.
  - intros [E|[a' [E _]]]; [now inversion E|discriminate].
Qed.

(** list combinators, one step *)
Lemma rs_iterM_nil A (f : A -> MU unit) : rs (iterM unit f []) = Ok tt. Proof. reflexivity. Qed.
Lemma rs_iterM_cons A (f : A -> MU unit) a l :
  rs (iterM unit f (a :: l)) = bindr (rs (f a)) (fun _ => rs (iterM unit f l)).
Proof. rewrite iterM_cons. apply rs_bind. Qed.
Lemma rs_unionM_nil A (f : A -> MU (list key)) : rs (unionM unit f []) = Ok []. Proof. reflexivity. Qed.
Lemma rs_unionM_cons A (f : A -> MU (list key)) a l :
  rs (unionM unit f (a :: l)) =
    bindr (rs (f a)) (fun x => bindr (rs (unionM unit f l)) (fun y => Ok (x ++ y))).
Proof.
  rewrite unionM_cons, rs_bind. destruct (rs (f a)); cbn; [|reflexivity].
  rewrite rs_bind. destruct (rs (unionM unit f l)); reflexivity.
Qed.
Lemma rs_mapM_nil A B (f : A -> MU B) : rs (mapM unit f []) = Ok []. Proof. reflexivity. Qed.
Lemma rs_mapM_cons A B (f : A -> MU B) a l :
  rs (mapM unit f (a :: l)) =
    bindr (rs (f a)) (fun x => bindr (rs (mapM unit f l)) (fun y => Ok (x :: y))).
Proof.
  rewrite mapM_cons, rs_bind. destruct (rs (f a)); cbn; [|reflexivity].
  rewrite rs_bind. destruct (rs (mapM unit f l)); reflexivity.
Qed.

(** ** Part 2: values.  Induction on values (nested through argument lists), and the hereditary
    predicate "no deferred failure with a [bad] cause anywhere inside" (also inside the captured
    arguments of callables). *)
Section ValueInd.
  Variable P : value -> Prop.
  Hypothesis HJ : forall j, P (VJ j).
  Hypothesis HT : forall t args, Forall P args -> P (VT t args).
  Hypothesis HF : forall f pre post, Forall P pre -> Forall P post -> P (VF f pre post).
  Hypothesis HM : P VMissing.
  Hypothesis HE : forall c, P (VErr c).
  Fixpoint value_ind' (v : value) : P v :=
    let all := fix all (l : list value) : Forall P l :=
      match l with [] => Forall_nil _ | x :: l' => Forall_cons x (value_ind' x) (all l') end in
    match v with
    | VJ j => HJ j
    | VT t args => HT t args (all args)
    | VF f pre post => HF f pre post (all pre) (all post)
    | VMissing => HM
    | VErr c => HE c
    end.
End ValueInd.

Section Good.
  Variable bad : cause -> bool.

  Fixpoint vgood (v : value) : bool :=
    match v with
    | VErr c => negb (bad c)
    | VT _ args => forallb vgood args
    | VF _ pre post => forallb vgood pre && forallb vgood post
    | _ => true
    end.

  Definition vsgood (l : list value) : bool := forallb vgood l.

  Lemma vsgood_app a b : vsgood (a ++ b) = vsgood a && vsgood b.
  Proof. apply forallb_app. Qed.
  Lemma vsgood_In l x : vsgood l = true -> In x l -> vgood x = true.
  Proof. unfold vsgood. rewrite forallb_forall. auto. Qed.
  Lemma vsgood_rev l : vsgood l = true -> vsgood (rev l) = true.
  Proof.
    unfold vsgood. rewrite !forallb_forall. intros H x Hx. apply H. now apply in_rev.
  Qed.

  Lemma listify_VT t args :
    listify (VT t args) = VT (if N.eqb t T_ITER then T_LIST else t) (map listify args).
  Proof. reflexivity. Qed.

  Lemma vgood_listify v : vgood v = true -> vgood (listify v) = true.
  Proof.
    induction v using value_ind'; intros Hg; try exact Hg.
    rewrite listify_VT. cbn [vgood] in *. 
    induction args as [|a args IH]; [reflexivity|].
    cbn [map forallb] in *. apply andb_prop in Hg as [Ha Hr]. inversion H; subst.
    rewrite (H2 Ha). cbn. now apply IH.
  Qed.
  Lemma vsgood_listify l : vsgood l = true -> vsgood (map listify l) = true.
  Proof.
    unfold vsgood. induction l as [|a l IH]; [reflexivity|]. cbn [map forallb].
    intros H. apply andb_prop in H as [Ha Hl]. now rewrite (vgood_listify a Ha), IH.
  Qed.

  Lemma deep_err_VT t args : deep_err (VT t args) = deep_err_list args.
  Proof. reflexivity. Qed.
  Lemma deep_err_list_cons x l :
    deep_err_list (x :: l) = match deep_err x with Some c => Some c | None => deep_err_list l end.
  Proof. reflexivity. Qed.

  Lemma deep_err_good v : vgood v = true -> forall c, deep_err v = Some c -> bad c = false.
  Proof.
    induction v using value_ind'; intros Hg c0 Hd; try discriminate.
    - rewrite deep_err_VT in Hd. cbn [vgood] in Hg.
      induction args as [|a args IH]; [discriminate|].
      rewrite deep_err_list_cons in Hd. cbn [forallb] in Hg. apply andb_prop in Hg as [Ha Hr].
      inversion H; subst. destruct (deep_err a) eqn:E.
      + inversion Hd; subst. now apply (H2 Ha).
      + now apply IH.
    - cbn in Hd. inversion Hd; subst. cbn in Hg. now apply negb_true_iff in Hg.
  Qed.
  Lemma deep_err_list_good l : vsgood l = true -> forall c, deep_err_list l = Some c -> bad c = false.
  Proof. intros Hg c Hd. apply (deep_err_good (VT 0%N l)); [exact Hg|exact Hd]. Qed.

  Lemma first_err_good l : vsgood l = true -> forall c, first_err l = Some c -> bad c = false.
  Proof.
    unfold vsgood. induction l as [|a l IH]; intros Hg c Hf; [discriminate|].
    cbn [forallb] in Hg. apply andb_prop in Hg as [Ha Hl].
    destruct a; cbn [first_err] in Hf; try (now apply IH).
    inversion Hf; subst. cbn in Ha. now apply negb_true_iff in Ha.
  Qed.

  Lemma vsgood_map_VJ l : vsgood (map VJ l) = true.
  Proof. unfold vsgood. induction l; [reflexivity|exact IHl]. Qed.

  Lemma elements_of_good v els : vgood v = true -> elements_of v = Some els -> vsgood els = true.
  Proof.
    destruct v; cbn [elements_of]; try discriminate.
    - destruct j; try discriminate. intros _ H. inversion H. apply vsgood_map_VJ.
    - intros Hg. destruct (_ || _); [|discriminate]. intros H. inversion H; subst. exact Hg.
  Qed.

  Lemma rs_force_elems v :
    rs (force_elems unit v) =
      match elements_of v with
      | Some els => match first_err els with Some c => Err c true | None => Ok els end
      | None => Err CType false
      end.
  Proof.
    unfold force_elems. destruct (elements_of v) as [els|]; [|reflexivity].
    destruct (first_err els); reflexivity.
  Qed.

  Lemma force_elems_ok v els : vgood v = true -> rs (force_elems unit v) = Ok els -> vsgood els = true.
  Proof.
    intros Hg. rewrite rs_force_elems. destruct (elements_of v) as [l|] eqn:E; [|discriminate].
    destruct (first_err l); [discriminate|]. intros H. inversion H; subst. now apply (elements_of_good v).
  Qed.
  Lemma force_elems_err v c ee :
    bad CType = false -> vgood v = true -> rs (force_elems unit v) = Err c ee -> bad c = false.
  Proof.
    intros Ht Hg. rewrite rs_force_elems. destruct (elements_of v) as [l|] eqn:E.
    - destruct (first_err l) eqn:F; [|discriminate]. intros H. inversion H; subst.
      apply (first_err_good l); [now apply (elements_of_good v)|exact F].
    - intros H. now inversion H; subst.
  Qed.
End Good.

(** ** Part 3: calling values preserves goodness *)
Section Calls.
  Variable bad : cause -> bool.
  Variable u : N -> list value -> cres.
  Notation vg := (vgood bad).
  Notation vsg := (vsgood bad).
  (** user code does not fabricate deferred failures: good arguments give a good result *)
  Hypothesis Hu_ok : forall f args v, vsg args = true -> u f args = COk v -> vg v = true.

  Lemma dict_put_good k v d :
    vg k = true -> vg v = true -> vsg d = true -> vsg (dict_put k v d) = true.
  Proof.
    intros Hk Hv. unfold vsgood. induction d as [|x d IH]; intros Hd.
    - cbn. now rewrite Hk, Hv.
    - cbn [forallb] in Hd. apply andb_prop in Hd as [Hx Hd'].
      assert (Hdef : forallb (vgood bad) (x :: dict_put k v d) = true) by (cbn [forallb]; now rewrite Hx, IH).
      destruct x as [j|t args|f pre post| |c]; try exact Hdef.
      destruct args as [|k' [|v' [|z args]]]; try exact Hdef.
      cbn [dict_put]. destruct (value_eq k k').
      + cbn [forallb vgood]. cbn [forallb] in Hd'. now rewrite Hk, Hv, Hd'.
      + cbn [forallb]. rewrite Hx. cbn. now apply IH.
  Qed.

  Lemma dict_of_pairs_good ps : forall acc d,
    vsg ps = true -> vsg acc = true -> dict_of_pairs ps acc = Some d -> vsg d = true.
  Proof.
    induction ps as [|p ps IH]; intros acc d Hps Hacc H.
    - inversion H; subst. exact Hacc.
    - cbn [dict_of_pairs] in H. unfold vsgood in Hps. cbn [forallb] in Hps.
      apply andb_prop in Hps as [Hp Hps].
      destruct (elements_of p) as [els|] eqn:E; [|discriminate].
      pose proof (elements_of_good bad p els Hp E) as Hels.
      destruct els as [|k [|v [|z els]]]; try discriminate.
      destruct (hashable k); [|discriminate].
      unfold vsgood in Hels. cbn [forallb] in Hels.
      apply andb_prop in Hels as [Hk Hv]. apply andb_prop in Hv as [Hv _].
      apply (IH _ _ Hps (dict_put_good k v acc Hk Hv Hacc) H).
  Qed.

  Definition user_call (f : N) (args : list value) : res value :=
    match deep_err_list args with
    | Some c => Err c true
    | None => match u f (map listify args) with COk v => Ok v | CRaise n => Err (CUser n) false end
    end.

  Lemma rs_call_fun f args :
    rs (call_fun unit u f args) =
      if N.eqb f B_LIST then
        match args with [x] => bindr (rs (force_elems unit x)) (fun els => Ok (VT T_LIST els)) | _ => Err CType false end
      else if N.eqb f B_TUPLE then
        match args with [x] => bindr (rs (force_elems unit x)) (fun els => Ok (VT T_TUPLE els)) | _ => Err CType false end
      else if N.eqb f B_DICT then
        match args with
        | [x] => bindr (rs (force_elems unit x)) (fun ps =>
                   match first_err (flat_map (fun p => match elements_of p with Some l => l | None => [] end) ps) with
                   | Some c => Err c true
                   | None => match dict_of_pairs ps [] with Some d => Ok (VT T_DICT d) | None => Err CType false end
                   end)
        | _ => Err CType false
        end
      else user_call f args.
  Proof.
    unfold call_fun, user_call.
    destruct (N.eqb f B_LIST).
    { destruct args as [|x [|y l]]; try reflexivity. rewrite rs_bind. destruct (rs (force_elems unit x)); reflexivity. }
    destruct (N.eqb f B_TUPLE).
    { destruct args as [|x [|y l]]; try reflexivity. rewrite rs_bind. destruct (rs (force_elems unit x)); reflexivity. }
    destruct (N.eqb f B_DICT).
    { destruct args as [|x [|y l]]; try reflexivity. rewrite rs_bind.
      destruct (rs (force_elems unit x)) as [ps|c ee]; cbn [bindr]; [|reflexivity].
      destruct (first_err _); [reflexivity|]. destruct (dict_of_pairs ps []); reflexivity. }
    destruct (deep_err_list args); [reflexivity|].
    destruct (u f (map listify args)); rewrite rs_bind; reflexivity.
  Qed.

  Lemma flat_elems_good ps :
    vsg ps = true ->
    vsg (flat_map (fun p => match elements_of p with Some l => l | None => [] end) ps) = true.
  Proof.
    unfold vsgood. induction ps as [|p ps IH]; [reflexivity|]. cbn [flat_map forallb].
    intros H. apply andb_prop in H as [Hp Hps]. rewrite forallb_app, (IH Hps), andb_true_r.
    destruct (elements_of p) as [l|] eqn:E; [|reflexivity]. apply (elements_of_good bad p l Hp E).
  Qed.

  Lemma call_fun_ok f args v :
    vsg args = true -> rs (call_fun unit u f args) = Ok v -> vg v = true.
  Proof.
    intros Hg. rewrite rs_call_fun.
    assert (Hone : forall t x, vsg [x] = true ->
              bindr (rs (force_elems unit x)) (fun els => Ok (VT t els)) = Ok v -> vg v = true).
    { intros t x Hx H. apply bindr_ok in H as [els [E H]]. inversion H; subst.
      cbn [vgood]. apply (force_elems_ok bad x els); [|exact E].
      unfold vsgood in Hx. cbn in Hx. now rewrite andb_true_r in Hx. }
    destruct (N.eqb f B_LIST). { destruct args as [|x [|y l]]; try discriminate. now apply Hone. }
    destruct (N.eqb f B_TUPLE). { destruct args as [|x [|y l]]; try discriminate. now apply Hone. }
    destruct (N.eqb f B_DICT).
    { destruct args as [|x [|y l]]; try discriminate. intros H. apply bindr_ok in H as [ps [E H]].
      destruct (first_err _); [discriminate|]. destruct (dict_of_pairs ps []) as [d|] eqn:D; [|discriminate].
      inversion H; subst. cbn [vgood].
      apply (dict_of_pairs_good ps [] d); [|reflexivity|exact D].
      apply (force_elems_ok bad x ps); [|exact E]. unfold vsgood in Hg. cbn in Hg. now rewrite andb_true_r in Hg. }
    unfold user_call. destruct (deep_err_list args); [discriminate|].
    destruct (u f (map listify args)) as [w|n] eqn:E; [|discriminate].
    intros H. inversion H; subst. apply (Hu_ok f (map listify args)); [|exact E]. now apply vsgood_listify.
  Qed.

  (** failures of a call on good arguments: a type error of the glue, a deferred failure (good, by
      assumption on the arguments), or an exception of the body *)
  Hypothesis Hbad_type : bad CType = false.
  Hypothesis Hu_raise : forall f args n, u f args = CRaise n -> bad (CUser n) = false.

  Lemma call_fun_err f args c ee :
    vsg args = true -> rs (call_fun unit u f args) = Err c ee -> bad c = false.
  Proof.
    intros Hg. rewrite rs_call_fun.
    assert (Hx1 : forall x, vsg [x] = true -> vg x = true).
    { intros x Hx. unfold vsgood in Hx. cbn in Hx. now rewrite andb_true_r in Hx. }
    assert (Hone : forall t x, vsg [x] = true ->
              bindr (rs (force_elems unit x)) (fun els => Ok (VT t els)) = Err c ee -> bad c = false).
    { intros t x Hx H. apply bindr_err in H as [H|[els [_ H]]]; [|discriminate].
      apply (force_elems_err bad x c ee Hbad_type (Hx1 x Hx) H). }
    assert (Hty : @Err value CType false = Err c ee -> bad c = false) by (intros H; now inversion H; subst).
    destruct (N.eqb f B_LIST). { destruct args as [|x [|y l]]; try exact Hty. now apply Hone. }
    destruct (N.eqb f B_TUPLE). { destruct args as [|x [|y l]]; try exact Hty. now apply Hone. }
    destruct (N.eqb f B_DICT).
    { destruct args as [|x [|y l]]; try exact Hty. intros H.
      apply bindr_err in H as [H|[ps [E H]]].
      - apply (force_elems_err bad x c ee Hbad_type (Hx1 x Hg) H).
      - pose proof (force_elems_ok bad x ps (Hx1 x Hg) E) as Hps.
        destruct (first_err _) eqn:F.
        + inversion H; subst. apply (first_err_good bad _ (flat_elems_good ps Hps) _ F).
        + destruct (dict_of_pairs ps []); [discriminate|]. now apply Hty. }
    unfold user_call. destruct (deep_err_list args) eqn:D.
    - intros H. inversion H; subst. apply (deep_err_list_good bad args Hg _ D).
    - destruct (u f (map listify args)) as [w|n] eqn:E; [discriminate|].
      intros H. inversion H; subst. apply (Hu_raise _ _ _ E).
  Qed.

  (** [call_value]: a callable applied to one argument (compositions apply their members in order) *)
  Definition compose_go : list value -> value -> MU value :=
    fix go (fs : list value) (acc : value) {struct fs} : MU value :=
      match fs with
      | [] => ret unit acc
      | g :: fs' => bind unit (call_value unit u g acc) (fun y => go fs' y)
      end.

  Lemma call_value_VF fid pre post x :
    call_value unit u (VF fid pre post) x =
      if N.eqb fid B_COMPOSE then compose_go pre x else call_fun unit u fid (pre ++ [x] ++ post).
  Proof. reflexivity. Qed.

  Definition res_good (r : res value) : Prop :=
    match r with Ok v => vg v = true | Err c _ => bad c = false end.

  Lemma call_value_good f : forall x, vg f = true -> vg x = true -> res_good (rs (call_value unit u f x)).
  Proof.
    induction f using value_ind'; intros x Hf Hx; try exact Hbad_type.
    rewrite call_value_VF. cbn [vgood] in Hf. apply andb_prop in Hf as [Hpre Hpost].
    destruct (N.eqb f B_COMPOSE).
    - clear Hpost H0. revert x Hx. induction pre as [|g pre IH]; intros x Hx; [exact Hx|].
      cbn [compose_go]. rewrite rs_bind. cbn [forallb] in Hpre. apply andb_prop in Hpre as [Hg Hpre].
      inversion H; subst. specialize (H2 x Hg Hx).
      destruct (rs (call_value unit u g x)) as [y|c ee]; cbn [bindr res_good] in *; [|exact H2].
      now apply IH.
    - assert (Hargs : vsg (pre ++ [x] ++ post) = true).
      { rewrite !vsgood_app. unfold vsgood at 2. cbn [forallb]. now rewrite Hpre, Hx, Hpost. }
      destruct (rs (call_fun unit u f (pre ++ [x] ++ post))) as [v|c ee] eqn:E; cbn [res_good].
      + apply (call_fun_ok bad u Hu_ok _ _ _ Hargs E).
      + apply (call_fun_err _ _ _ _ Hargs E).
  Qed.

  Lemma call_value_n_good f args :
    vg f = true -> vsg args = true -> res_good (rs (call_value_n unit u f args)).
  Proof.
    intros Hf Ha. destruct f; try exact Hbad_type. cbn [call_value_n].
    destruct (N.eqb f B_COMPOSE); [exact Hbad_type|].
    cbn [vgood] in Hf. apply andb_prop in Hf as [Hpre Hpost].
    assert (Hargs : vsg (pre ++ args ++ post) = true) by (rewrite !vsgood_app; now rewrite Hpre, Ha, Hpost).
    destruct (rs (call_fun unit u f (pre ++ args ++ post))) as [v|c ee] eqn:E; cbn [res_good].
    - apply (call_fun_ok bad u Hu_ok _ _ _ Hargs E).
    - apply (call_fun_err _ _ _ _ Hargs E).
  Qed.
End Calls.
