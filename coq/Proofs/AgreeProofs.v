(** C10 / C11: validate, keys, explain and evaluate on the cache-free reference instance
    (store = unit, [cfg_nc]: what [labrea.cache.disabled()] computes), for ALL user code and ALL
    option dictionaries, by induction over expressions of stated fragments.

    Part 1: results ([rs]) and logs ([lg]) of reference-instance computations as pure functions,
    and one unfolding equation per (interpreter, constructor). *)
From Coq Require Import List NArith ZArith Bool Lia.
Import ListNotations.
From LV Require Import Model.Base Model.Template Model.Eval Model.Derived Model.EvalRun.
From LV Require Import Proofs.BaseProofs Proofs.EvalProofs Proofs.EvalInd Proofs.EvalUnfold.

Notation MU := (M unit).

Definition rs {A} (m : MU A) : res A := fst (fst (m tt)).
Definition lg {A} (m : MU A) : list event := snd (m tt).

Definition bindr {A B} (r : res A) (f : A -> res B) : res B :=
  match r with Ok a => f a | Err c ee => Err c ee end.
Definition wrapr {A} (r : res A) : res A :=
  match r with Ok a => Ok a | Err c _ => Err c true end.
Definition unmodb (c : cause) : bool := match c with CUnmodelled => true | _ => false end.
Definition catchr {A} (r : res A) (h : cause -> bool -> res A) : res A :=
  match r with
  | Ok a => Ok a
  | Err c ee => if unmodb c then Err c ee else h c ee
  end.
Definition okb {A} (r : res A) : bool := match r with Ok _ => true | Err _ _ => false end.

Lemma rs_ret A (a : A) : rs (ret unit a) = Ok a. Proof. reflexivity. Qed.
Lemma rs_fail A c ee : rs (@fail unit A c ee) = Err c ee. Proof. reflexivity. Qed.
Lemma rs_emit e : rs (emit unit e) = Ok tt. Proof. reflexivity. Qed.
Lemma lg_ret A (a : A) : lg (ret unit a) = []. Proof. reflexivity. Qed.
Lemma lg_fail A c ee : lg (@fail unit A c ee) = []. Proof. reflexivity. Qed.
Lemma lg_emit e : lg (emit unit e) = [e]. Proof. reflexivity. Qed.

Lemma rs_bind A B (m : MU A) (f : A -> MU B) :
  rs (bind unit m f) = bindr (rs m) (fun a => rs (f a)).
Proof.
  unfold rs, bind, bindr. destruct (m tt) as [[[a|c ee] []] l]; cbn; [|reflexivity].
  destruct (f a tt) as [[r []] l']; reflexivity.
Qed.

Lemma lg_bind A B (m : MU A) (f : A -> MU B) :
  lg (bind unit m f) = lg m ++ match rs m with Ok a => lg (f a) | Err _ _ => [] end.
Proof.
  unfold rs, lg, bind. destruct (m tt) as [[[a|c ee] []] l]; cbn; [|now rewrite app_nil_r].
  destruct (f a tt) as [[r []] l']; reflexivity.
Qed.

Lemma rs_wrap A (m : MU A) : rs (wrap_eval unit m) = wrapr (rs m).
Proof. unfold rs, wrap_eval, wrapr. destruct (m tt) as [[[a|c ee] []] l]; reflexivity. Qed.
Lemma lg_wrap A (m : MU A) : lg (wrap_eval unit m) = lg m.
Proof. unfold lg, wrap_eval. destruct (m tt) as [[[a|c ee] []] l]; reflexivity. Qed.

Lemma rs_catch A (m : MU A) h : rs (catch unit m h) = catchr (rs m) (fun c ee => rs (h c ee)).
Proof.
  unfold rs, catch, catchr. destruct (m tt) as [[[a|c ee] []] l]; cbn; [reflexivity|].
  destruct c; cbn; try reflexivity; destruct (h _ ee tt) as [[r []] l']; reflexivity.
Qed.
Lemma lg_catch A (m : MU A) h :
  lg (catch unit m h) =
    lg m ++ match rs m with
            | Ok _ => []
            | Err c ee => if unmodb c then [] else lg (h c ee)
            end.
Proof.
  unfold rs, lg, catch. destruct (m tt) as [[[a|c ee] []] l]; cbn; [now rewrite app_nil_r|].
  destruct c; cbn; try (now rewrite app_nil_r); destruct (h _ ee tt) as [[r []] l']; reflexivity.
Qed.

Lemma wrapr_idem A (r : res A) : wrapr (wrapr r) = wrapr r.
Proof. destruct r; reflexivity. Qed.
Lemma wrapr_ok A (r : res A) a : wrapr r = Ok a <-> r = Ok a.
Proof. destruct r; cbn; split; intros H; try discriminate; exact H. Qed.
Lemma okb_wrapr A (r : res A) : okb (wrapr r) = okb r.
Proof. destruct r; reflexivity. Qed.
Lemma bindr_ok A B (r : res A) (f : A -> res B) b :
  bindr r f = Ok b <-> exists a, r = Ok a /\ f a = Ok b.
Proof.
  destruct r as [a|c ee]; cbn; split.
  - intros H. exists a. split; [reflexivity|exact H].
  - intros [a' [E H]]. inversion E; subst. exact H.
  - discriminate.
  - intros [a' [E _]]. discriminate.
Qed.
Lemma bindr_err A B (r : res A) (f : A -> res B) c ee :
  bindr r f = Err c ee <-> r = Err c ee \/ exists a, r = Ok a /\ f a = Err c ee.
Proof.
  destruct r as [a|c0 ee0]; cbn; split.
  - intros H. right. exists a. split; [reflexivity|exact H].
  - intros [E|[a' [E H]]]; [discriminate|]. inversion E; subst. exact H.
  - intros H. left. now inversion H.
  - intros [E|[a' [E _]]]; [now inversion E|discriminate].
Qed.

(** list combinators, one step *)
Lemma rs_iterM_nil A (f : A -> MU unit) : rs (iterM unit f []) = Ok tt. Proof. reflexivity. Qed.
Lemma rs_iterM_cons A (f : A -> MU unit) a l :
  rs (iterM unit f (a :: l)) = bindr (rs (f a)) (fun _ => rs (iterM unit f l)).
Proof. rewrite iterM_cons. apply rs_bind. Qed.
Lemma rs_unionM_nil A (f : A -> MU (list key)) : rs (unionM unit f []) = Ok []. Proof. reflexivity. Qed.
Lemma rs_unionM_cons A (f : A -> MU (list key)) a l :
  rs (unionM unit f (a :: l)) =
    bindr (rs (f a)) (fun x => bindr (rs (unionM unit f l)) (fun y => Ok (x ++ y))).
Proof.
  rewrite unionM_cons, rs_bind. destruct (rs (f a)); cbn; [|reflexivity].
  rewrite rs_bind. destruct (rs (unionM unit f l)); reflexivity.
Qed.
Lemma rs_mapM_nil A B (f : A -> MU B) : rs (mapM unit f []) = Ok []. Proof. reflexivity. Qed.
Lemma rs_mapM_cons A B (f : A -> MU B) a l :
  rs (mapM unit f (a :: l)) =
    bindr (rs (f a)) (fun x => bindr (rs (mapM unit f l)) (fun y => Ok (x :: y))).
Proof.
  rewrite mapM_cons, rs_bind. destruct (rs (f a)); cbn; [|reflexivity].
  rewrite rs_bind. destruct (rs (mapM unit f l)); reflexivity.
Qed.

(** ** Part 2: values.  Induction on values (nested through argument lists), and the hereditary
    predicate "no deferred failure with a [bad] cause anywhere inside" (also inside the captured
    arguments of callables). *)
Section ValueInd.
  Variable P : value -> Prop.
  Hypothesis HJ : forall j, P (VJ j).
  Hypothesis HT : forall t args, Forall P args -> P (VT t args).
  Hypothesis HF : forall f pre post, Forall P pre -> Forall P post -> P (VF f pre post).
  Hypothesis HM : P VMissing.
  Hypothesis HE : forall c, P (VErr c).
  Fixpoint value_ind' (v : value) : P v :=
    let all := fix all (l : list value) : Forall P l :=
      match l with [] => Forall_nil _ | x :: l' => Forall_cons x (value_ind' x) (all l') end in
    match v with
    | VJ j => HJ j
    | VT t args => HT t args (all args)
    | VF f pre post => HF f pre post (all pre) (all post)
    | VMissing => HM
    | VErr c => HE c
    end.
End ValueInd.

Section Good.
  Variable bad : cause -> bool.

  Fixpoint vgood (v : value) : bool :=
    match v with
    | VErr c => negb (bad c)
    | VT _ args => forallb vgood args
    | VF _ pre post => forallb vgood pre && forallb vgood post
    | _ => true
    end.

  Definition vsgood (l : list value) : bool := forallb vgood l.

  Lemma vsgood_app a b : vsgood (a ++ b) = vsgood a && vsgood b.
  Proof. apply forallb_app. Qed.
  Lemma vsgood_In l x : vsgood l = true -> In x l -> vgood x = true.
  Proof. unfold vsgood. rewrite forallb_forall. auto. Qed.
  Lemma vsgood_rev l : vsgood l = true -> vsgood (rev l) = true.
  Proof.
    unfold vsgood. rewrite !forallb_forall. intros H x Hx. apply H. now apply in_rev.
  Qed.

  Lemma listify_VT t args :
    listify (VT t args) = VT (if N.eqb t T_ITER then T_LIST else t) (map listify args).
  Proof. reflexivity. Qed.

  Lemma vgood_listify v : vgood v = true -> vgood (listify v) = true.
  Proof.
    induction v using value_ind'; intros Hg; try exact Hg.
    rewrite listify_VT. cbn [vgood] in *. 
    induction args as [|a args IH]; [reflexivity|].
    cbn [map forallb] in *. apply andb_prop in Hg as [Ha Hr]. inversion H; subst.
    rewrite (H2 Ha). cbn. now apply IH.
  Qed.
  Lemma vsgood_listify l : vsgood l = true -> vsgood (map listify l) = true.
  Proof.
    unfold vsgood. induction l as [|a l IH]; [reflexivity|]. cbn [map forallb].
    intros H. apply andb_prop in H as [Ha Hl]. now rewrite (vgood_listify a Ha), IH.
  Qed.

  Lemma deep_err_VT t args : deep_err (VT t args) = deep_err_list args.
  Proof. reflexivity. Qed.
  Lemma deep_err_list_cons x l :
    deep_err_list (x :: l) = match deep_err x with Some c => Some c | None => deep_err_list l end.
  Proof. reflexivity. Qed.

  Lemma deep_err_good v : vgood v = true -> forall c, deep_err v = Some c -> bad c = false.
  Proof.
    induction v using value_ind'; intros Hg c0 Hd; try discriminate.
    - rewrite deep_err_VT in Hd. cbn [vgood] in Hg.
      induction args as [|a args IH]; [discriminate|].
      rewrite deep_err_list_cons in Hd. cbn [forallb] in Hg. apply andb_prop in Hg as [Ha Hr].
      inversion H; subst. destruct (deep_err a) eqn:E.
      + inversion Hd; subst. now apply (H2 Ha).
      + now apply IH.
    - cbn in Hd. inversion Hd; subst. cbn in Hg. now apply negb_true_iff in Hg.
  Qed.
  Lemma deep_err_list_good l : vsgood l = true -> forall c, deep_err_list l = Some c -> bad c = false.
  Proof. intros Hg c Hd. apply (deep_err_good (VT 0%N l)); [exact Hg|exact Hd]. Qed.

  Lemma first_err_good l : vsgood l = true -> forall c, first_err l = Some c -> bad c = false.
  Proof.
    unfold vsgood. induction l as [|a l IH]; intros Hg c Hf; [discriminate|].
    cbn [forallb] in Hg. apply andb_prop in Hg as [Ha Hl].
    destruct a; cbn [first_err] in Hf; try (now apply IH).
    inversion Hf; subst. cbn in Ha. now apply negb_true_iff in Ha.
  Qed.

  Lemma vsgood_map_VJ l : vsgood (map VJ l) = true.
  Proof. unfold vsgood. induction l; [reflexivity|exact IHl]. Qed.

  Lemma elements_of_good v els : vgood v = true -> elements_of v = Some els -> vsgood els = true.
  Proof.
    destruct v; cbn [elements_of]; try discriminate.
    - destruct j; try discriminate. intros _ H. inversion H. apply vsgood_map_VJ.
    - intros Hg. destruct (_ || _); [|discriminate]. intros H. inversion H; subst. exact Hg.
  Qed.

  Lemma rs_force_elems v :
    rs (force_elems unit v) =
      match elements_of v with
      | Some els => match first_err els with Some c => Err c true | None => Ok els end
      | None => Err CType false
      end.
  Proof.
    unfold force_elems. destruct (elements_of v) as [els|]; [|reflexivity].
    destruct (first_err els); reflexivity.
  Qed.

  Lemma force_elems_ok v els : vgood v = true -> rs (force_elems unit v) = Ok els -> vsgood els = true.
  Proof.
    intros Hg. rewrite rs_force_elems. destruct (elements_of v) as [l|] eqn:E; [|discriminate].
    destruct (first_err l); [discriminate|]. intros H. inversion H; subst. now apply (elements_of_good v).
  Qed.
  Lemma force_elems_err v c ee :
    bad CType = false -> vgood v = true -> rs (force_elems unit v) = Err c ee -> bad c = false.
  Proof.
    intros Ht Hg. rewrite rs_force_elems. destruct (elements_of v) as [l|] eqn:E.
    - destruct (first_err l) eqn:F; [|discriminate]. intros H. inversion H; subst.
      apply (first_err_good l); [now apply (elements_of_good v)|exact F].
    - intros H. now inversion H; subst.
  Qed.
End Good.

(** ** Part 3: calling values preserves goodness *)
Section Calls.
  Variable bad : cause -> bool.
  Variable u : N -> list value -> cres.
  Notation vg := (vgood bad).
  Notation vsg := (vsgood bad).
  (** user code does not fabricate deferred failures: good arguments give a good result *)
  Hypothesis Hu_ok : forall f args v, vsg args = true -> u f args = COk v -> vg v = true.

  Lemma dict_put_good k v d :
    vg k = true -> vg v = true -> vsg d = true -> vsg (dict_put k v d) = true.
  Proof.
    intros Hk Hv. unfold vsgood. induction d as [|x d IH]; intros Hd.
    - cbn. now rewrite Hk, Hv.
    - cbn [forallb] in Hd. apply andb_prop in Hd as [Hx Hd'].
      assert (Hdef : forallb (vgood bad) (x :: dict_put k v d) = true) by (cbn [forallb]; now rewrite Hx, IH).
      destruct x as [j|t args|f pre post| |c]; try exact Hdef.
      destruct args as [|k' [|v' [|z args]]]; try exact Hdef.
      cbn [dict_put]. destruct (value_eq k k').
      + cbn [forallb vgood]. cbn [forallb] in Hd'. now rewrite Hk, Hv, Hd'.
      + cbn [forallb]. rewrite Hx. cbn. now apply IH.
  Qed.

  Lemma dict_of_pairs_good ps : forall acc d,
    vsg ps = true -> vsg acc = true -> dict_of_pairs ps acc = Some d -> vsg d = true.
  Proof.
    induction ps as [|p ps IH]; intros acc d Hps Hacc H.
    - inversion H; subst. exact Hacc.
    - cbn [dict_of_pairs] in H. unfold vsgood in Hps. cbn [forallb] in Hps.
      apply andb_prop in Hps as [Hp Hps].
      destruct (elements_of p) as [els|] eqn:E; [|discriminate].
      pose proof (elements_of_good bad p els Hp E) as Hels.
      destruct els as [|k [|v [|z els]]]; try discriminate.
      destruct (hashable k); [|discriminate].
      unfold vsgood in Hels. cbn [forallb] in Hels.
      apply andb_prop in Hels as [Hk Hv]. apply andb_prop in Hv as [Hv _].
      apply (IH _ _ Hps (dict_put_good k v acc Hk Hv Hacc) H).
  Qed.

  Definition user_call (f : N) (args : list value) : res value :=
    match deep_err_list args with
    | Some c => Err c true
    | None => match u f (map listify args) with COk v => Ok v | CRaise n => Err (CUser n) false end
    end.

  Lemma rs_call_fun f args :
    rs (call_fun unit u f args) =
      if N.eqb f B_LIST then
        match args with [x] => bindr (rs (force_elems unit x)) (fun els => Ok (VT T_LIST els)) | _ => Err CType false end
      else if N.eqb f B_TUPLE then
        match args with [x] => bindr (rs (force_elems unit x)) (fun els => Ok (VT T_TUPLE els)) | _ => Err CType false end
      else if N.eqb f B_DICT then
        match args with
        | [x] => bindr (rs (force_elems unit x)) (fun ps =>
                   match first_err (flat_map (fun p => match elements_of p with Some l => l | None => [] end) ps) with
                   | Some c => Err c true
                   | None => match dict_of_pairs ps [] with Some d => Ok (VT T_DICT d) | None => Err CType false end
                   end)
        | _ => Err CType false
        end
      else user_call f args.
  Proof.
    unfold call_fun, user_call.
    destruct (N.eqb f B_LIST).
    { destruct args as [|x [|y l]]; try reflexivity. rewrite rs_bind. destruct (rs (force_elems unit x)); reflexivity. }
    destruct (N.eqb f B_TUPLE).
    { destruct args as [|x [|y l]]; try reflexivity. rewrite rs_bind. destruct (rs (force_elems unit x)); reflexivity. }
    destruct (N.eqb f B_DICT).
    { destruct args as [|x [|y l]]; try reflexivity. rewrite rs_bind.
      destruct (rs (force_elems unit x)) as [ps|c ee]; cbn [bindr]; [|reflexivity].
      destruct (first_err _); [reflexivity|]. destruct (dict_of_pairs ps []); reflexivity. }
    destruct (deep_err_list args); [reflexivity|].
    destruct (u f (map listify args)); rewrite rs_bind; reflexivity.
  Qed.

  Lemma flat_elems_good ps :
    vsg ps = true ->
    vsg (flat_map (fun p => match elements_of p with Some l => l | None => [] end) ps) = true.
  Proof.
    unfold vsgood. induction ps as [|p ps IH]; [reflexivity|]. cbn [flat_map forallb].
    intros H. apply andb_prop in H as [Hp Hps]. rewrite forallb_app, (IH Hps), andb_true_r.
    destruct (elements_of p) as [l|] eqn:E; [|reflexivity]. apply (elements_of_good bad p l Hp E).
  Qed.

  Lemma call_fun_ok f args v :
    vsg args = true -> rs (call_fun unit u f args) = Ok v -> vg v = true.
  Proof.
    intros Hg. rewrite rs_call_fun.
    assert (Hone : forall t x, vsg [x] = true ->
              bindr (rs (force_elems unit x)) (fun els => Ok (VT t els)) = Ok v -> vg v = true).
    { intros t x Hx H. apply bindr_ok in H as [els [E H]]. inversion H; subst.
      cbn [vgood]. apply (force_elems_ok bad x els); [|exact E].
      unfold vsgood in Hx. cbn in Hx. now rewrite andb_true_r in Hx. }
    destruct (N.eqb f B_LIST). { destruct args as [|x [|y l]]; try discriminate. now apply Hone. }
    destruct (N.eqb f B_TUPLE). { destruct args as [|x [|y l]]; try discriminate. now apply Hone. }
    destruct (N.eqb f B_DICT).
    { destruct args as [|x [|y l]]; try discriminate. intros H. apply bindr_ok in H as [ps [E H]].
      destruct (first_err _); [discriminate|]. destruct (dict_of_pairs ps []) as [d|] eqn:D; [|discriminate].
      inversion H; subst. cbn [vgood].
      apply (dict_of_pairs_good ps [] d); [|reflexivity|exact D].
      apply (force_elems_ok bad x ps); [|exact E]. unfold vsgood in Hg. cbn in Hg. now rewrite andb_true_r in Hg. }
    unfold user_call. destruct (deep_err_list args); [discriminate|].
    destruct (u f (map listify args)) as [w|n] eqn:E; [|discriminate].
    intros H. inversion H; subst. apply (Hu_ok f (map listify args)); [|exact E]. now apply vsgood_listify.
  Qed.

  (** failures of a call on good arguments: a type error of the glue, a deferred failure (good, by
      assumption on the arguments), or an exception of the body *)
  Hypothesis Hbad_type : bad CType = false.
  Hypothesis Hu_raise : forall f args n, u f args = CRaise n -> bad (CUser n) = false.

  Lemma call_fun_err f args c ee :
    vsg args = true -> rs (call_fun unit u f args) = Err c ee -> bad c = false.
  Proof.
    intros Hg. rewrite rs_call_fun.
    assert (Hx1 : forall x, vsg [x] = true -> vg x = true).
    { intros x Hx. unfold vsgood in Hx. cbn in Hx. now rewrite andb_true_r in Hx. }
    assert (Hone : forall t x, vsg [x] = true ->
              bindr (rs (force_elems unit x)) (fun els => Ok (VT t els)) = Err c ee -> bad c = false).
    { intros t x Hx H. apply bindr_err in H as [H|[els [_ H]]]; [|discriminate].
      apply (force_elems_err bad x c ee Hbad_type (Hx1 x Hx) H). }
    assert (Hty : @Err value CType false = Err c ee -> bad c = false) by (intros H; now inversion H; subst).
    destruct (N.eqb f B_LIST). { destruct args as [|x [|y l]]; try exact Hty. now apply Hone. }
    destruct (N.eqb f B_TUPLE). { destruct args as [|x [|y l]]; try exact Hty. now apply Hone. }
    destruct (N.eqb f B_DICT).
    { destruct args as [|x [|y l]]; try exact Hty. intros H.
      apply bindr_err in H as [H|[ps [E H]]].
      - apply (force_elems_err bad x c ee Hbad_type (Hx1 x Hg) H).
      - pose proof (force_elems_ok bad x ps (Hx1 x Hg) E) as Hps.
        destruct (first_err _) eqn:F.
        + inversion H; subst. apply (first_err_good bad _ (flat_elems_good ps Hps) _ F).
        + destruct (dict_of_pairs ps []); [discriminate|]. now apply Hty. }
    unfold user_call. destruct (deep_err_list args) eqn:D.
    - intros H. inversion H; subst. apply (deep_err_list_good bad args Hg _ D).
    - destruct (u f (map listify args)) as [w|n] eqn:E; [discriminate|].
      intros H. inversion H; subst. apply (Hu_raise _ _ _ E).
  Qed.

  (** [call_value]: a callable applied to one argument (compositions apply their members in order) *)
  Definition compose_go : list value -> value -> MU value :=
    fix go (fs : list value) (acc : value) {struct fs} : MU value :=
      match fs with
      | [] => ret unit acc
      | g :: fs' => bind unit (call_value unit u g acc) (fun y => go fs' y)
      end.

  Lemma call_value_VF fid pre post x :
    call_value unit u (VF fid pre post) x =
      if N.eqb fid B_COMPOSE then compose_go pre x else call_fun unit u fid (pre ++ [x] ++ post).
  Proof. reflexivity. Qed.

  Definition res_good (r : res value) : Prop :=
    match r with Ok v => vg v = true | Err c _ => bad c = false end.

  Lemma call_value_good f : forall x, vg f = true -> vg x = true -> res_good (rs (call_value unit u f x)).
  Proof.
    induction f using value_ind'; intros x Hf Hx; try exact Hbad_type.
    rewrite call_value_VF. cbn [vgood] in Hf. apply andb_prop in Hf as [Hpre Hpost].
    destruct (N.eqb f B_COMPOSE).
    - clear Hpost H0. revert x Hx. induction pre as [|g pre IH]; intros x Hx; [exact Hx|].
      cbn [compose_go]. rewrite rs_bind. cbn [forallb] in Hpre. apply andb_prop in Hpre as [Hg Hpre].
      inversion H; subst. specialize (H2 x Hg Hx).
      destruct (rs (call_value unit u g x)) as [y|c ee]; cbn [bindr res_good] in *; [|exact H2].
      now apply IH.
    - assert (Hargs : vsg (pre ++ [x] ++ post) = true).
      { unfold vsgood. rewrite !forallb_app. cbn [forallb]. now rewrite Hpre, Hx, Hpost. }
      destruct (rs (call_fun unit u f (pre ++ [x] ++ post))) as [v|c ee] eqn:E; cbn [res_good].
      + apply (call_fun_ok _ _ _ Hargs E).
      + apply (call_fun_err _ _ _ _ Hargs E).
  Qed.

  Lemma call_value_n_good f args :
    vg f = true -> vsg args = true -> res_good (rs (call_value_n unit u f args)).
  Proof.
    intros Hf Ha. destruct f; try exact Hbad_type. cbn [call_value_n].
    destruct (N.eqb f B_COMPOSE); [exact Hbad_type|].
    cbn [vgood] in Hf. apply andb_prop in Hf as [Hpre Hpost].
    assert (Hargs : vsg (pre ++ args ++ post) = true) by (unfold vsgood in *; rewrite !forallb_app; now rewrite Hpre, Ha, Hpost).
    destruct (rs (call_fun unit u f (pre ++ args ++ post))) as [v|c ee] eqn:E; cbn [res_good].
    - apply (call_fun_ok _ _ _ Hargs E).
    - apply (call_fun_err _ _ _ _ Hargs E).
  Qed.
End Calls.

(** ** Part 4: the fragments.  One boolean predicate on expressions, parameterised by which of
    the constructs that carry a recorded finding (or need reasoning about templates) are let in;
    every theorem names its parameter.  Never in: [EMap]. *)
Record fopts := {
  f_coalesce : bool;     (* ECoalesce *)
  f_lazy : bool;         (* a bare EIter (a generator); otherwise only directly under list()/tuple() *)
  f_template : bool;     (* ETemplate *)
  f_effects : bool;      (* EComp with a non-empty list of effects *)
  f_dom : bool;          (* an Option without default declaring a domain *)
  f_domdflt : bool;      (* an Option with a default declaring a domain *)
  f_presets : bool;      (* EWith with a non-empty pre-set dictionary *)
  f_partialbind : bool;  (* EBind whose function is partial (no otherwise branch) *)
  f_alloptions : bool    (* EAllOptions *)
}.

Definition vclean : value -> bool := vgood (fun _ => true).

Definition is_forcer (fn : expr) : bool :=
  match fn with
  | EValue (VF b [] []) => N.eqb b B_LIST || N.eqb b B_TUPLE
  | _ => false
  end.

Fixpoint fragP (p : fopts) (e : expr) : bool :=
  match e with
  | EValue v => vclean v
  | EOption k dflt dom =>
      match dflt with
      | None => match dom with None => true | Some _ => f_dom p end
      | Some d => fragP p d && match dom with None => true | Some _ => f_domdflt p end
      end
  | EApply src fn =>
      match src with
      | EIter es =>
          if f_lazy p then forallb (fragP p) es && fragP p fn
          else is_forcer fn && forallb (fragP p) es
      | _ => fragP p src && fragP p fn
      end
  | EBind src tbl dflt =>
      fragP p src && forallb (fun ve => fragP p (snd ve)) tbl &&
      match dflt with Some d => fragP p d | None => f_partialbind p end
  | ESwitch disp tbl dflt =>
      fragP p disp && forallb (fun ve => fragP p (snd ve)) tbl &&
      match dflt with Some d => fragP p d | None => true end
  | ECase disp cases dflt =>
      fragP p disp && forallb (fun cr => fragP p (fst cr) && fragP p (snd cr)) cases &&
      match dflt with Some d => fragP p d | None => true end
  | ECoalesce ms => f_coalesce p && forallb (fragP p) ms
  | EIter es => f_lazy p && forallb (fragP p) es
  | EMap _ _ => false
  | EWith _ pr e => match pr with [] => true | _ => f_presets p end && fragP p e
  | ECached _ e => fragP p e
  | ECall _ f args kwargs => fragP p f && forallb (fragP p) args && forallb (fragP p) kwargs
  | ETemplate _ ps => f_template p && forallb (fun pe => fragP p (snd pe)) ps
  | EComp e effs => fragP p e && match effs with [] => true | _ => f_effects p end && forallb (fragP p) effs
  | ELogged e => fragP p e
  | EPipe steps => forallb (fragP p) steps
  | EAllOptions => f_alloptions p
  end.

Lemma Forall_frag {A} (g : A -> expr) (F : expr -> bool) (Q : expr -> Prop) l :
  forallb (fun a => F (g a)) l = true -> Forall (fun a => F (g a) = true -> Q (g a)) l ->
  Forall (fun a => Q (g a)) l.
Proof.
  induction l as [|a l IH]; intros Hb Hf; [constructor|].
  cbn [forallb] in Hb. apply andb_prop in Hb as [Ha Hl]. inversion Hf; subst.
  constructor; [now apply H1|now apply IH].
Qed.

Section FragInd.
  Variable p : fopts.
  Variable Q : expr -> Prop.
  Hypothesis HValue : forall v, vclean v = true -> Q (EValue v).
  Hypothesis HOption : forall k dflt dom,
    Popt Q dflt ->
    match dflt, dom with
    | None, Some _ => f_dom p = true
    | Some _, Some _ => f_domdflt p = true
    | _, None => True
    end -> Q (EOption k dflt dom).
  Hypothesis HApply : forall src fn, Q src -> Q fn -> Q (EApply src fn).
  Hypothesis HForced : forall es b,
    f_lazy p = false -> b = B_LIST \/ b = B_TUPLE -> Forall Q es -> Q (EApply (EIter es) (EValue (VF b [] []))).
  Hypothesis HBind : forall src tbl dflt,
    Q src -> Forall (fun ve => Q (snd ve)) tbl -> Popt Q dflt -> (dflt = None -> f_partialbind p = true) ->
    Q (EBind src tbl dflt).
  Hypothesis HSwitch : forall disp tbl dflt,
    Q disp -> Forall (fun ve => Q (snd ve)) tbl -> Popt Q dflt -> Q (ESwitch disp tbl dflt).
  Hypothesis HCase : forall disp cases dflt,
    Q disp -> Forall (fun cr => Q (fst cr) /\ Q (snd cr)) cases -> Popt Q dflt -> Q (ECase disp cases dflt).
  Hypothesis HCoalesce : forall ms, f_coalesce p = true -> Forall Q ms -> Q (ECoalesce ms).
  Hypothesis HIter : forall es, f_lazy p = true -> Forall Q es -> Q (EIter es).
  Hypothesis HWith : forall force pr e, pr = [] \/ f_presets p = true -> Q e -> Q (EWith force pr e).
  Hypothesis HCached : forall c e, Q e -> Q (ECached c e).
  Hypothesis HCall : forall partial f args kwargs,
    Q f -> Forall Q args -> Forall Q kwargs -> Q (ECall partial f args kwargs).
  Hypothesis HTemplate : forall s ps,
    f_template p = true -> Forall (fun pe => Q (snd pe)) ps -> Q (ETemplate s ps).
  Hypothesis HComp : forall e effs,
    effs = [] \/ f_effects p = true -> Q e -> Forall Q effs -> Q (EComp e effs).
  Hypothesis HLogged : forall e, Q e -> Q (ELogged e).
  Hypothesis HPipe : forall steps, Forall Q steps -> Q (EPipe steps).
  Hypothesis HAll : f_alloptions p = true -> Q EAllOptions.

  Let P (e : expr) : Prop :=
    (fragP p e = true -> Q e) /\
    match e with EIter es => Forall (fun x => fragP p x = true -> Q x) es | _ => True end.

  Lemma P_all l : Forall P l -> forallb (fragP p) l = true -> Forall Q l.
  Proof.
    intros HP Hb. apply (Forall_frag (fun x => x) (fragP p) Q l Hb).
    eapply Forall_impl; [|exact HP]. intros a [Ha _]. exact Ha.
  Qed.
  Lemma P_snd {A} (l : list (A * expr)) :
    Forall (fun ve => P (snd ve)) l -> forallb (fun ve => fragP p (snd ve)) l = true ->
    Forall (fun ve => Q (snd ve)) l.
  Proof.
    intros HP Hb. apply (Forall_frag (fun ve : A * expr => snd ve) (fragP p) Q l Hb).
    eapply Forall_impl; [|exact HP]. intros a [Ha _]. exact Ha.
  Qed.
  Lemma P_opt d : Popt P d -> match d with Some x => fragP p x | None => true end = true -> Popt Q d.
  Proof. destruct d as [x|]; cbn; [|trivial]. intros [Hx _] Hb. now apply Hx. Qed.

  Theorem fragP_ind : forall e, fragP p e = true -> Q e.
  Proof.
    assert (HP : forall e, P e); [|intros e; apply (HP e)].
    induction e using expr_ind'; (split; [|exact I || idtac]); try (intros Hf; cbn [fragP] in Hf).
    - now apply HValue.
    - destruct dflt as [d|].
      + apply andb_prop in Hf as [Hd Hdom]. apply HOption; [apply (proj1 H Hd)|].
        destruct dom; [exact Hdom|exact I].
      + apply HOption; [exact I|]. destruct dom; [exact Hf|exact I].
    - destruct IHe1 as [Hs Hes].
      assert (Hgen : fragP p e1 && fragP p e2 = true -> Q (EApply e1 e2)).
      { intros Hb. apply andb_prop in Hb as [H1 H2]. apply HApply; [now apply Hs|now apply (proj1 IHe2)]. }
      destruct e1; try exact (Hgen Hf).
      destruct (Bool.bool_dec (f_lazy p) true) as [L|L].
      + apply Hgen. cbn [fragP]. rewrite L in *. exact Hf.
      + apply not_true_is_false in L. rewrite L in Hf.
        apply andb_prop in Hf as [Hfc Hes']. clear Hgen.
        assert (HQ : Forall Q es) by (apply (Forall_frag (fun x => x) (fragP p) Q es Hes' Hes)).
        destruct e2 as [v| | | | | | | | | | | | | | | | ]; try discriminate.
        destruct v as [|?|b pre post| |]; try discriminate.
        destruct pre; [|discriminate]. destruct post; [|discriminate].
        cbn [is_forcer] in Hfc. apply HForced; [exact L| |exact HQ].
        apply orb_prop in Hfc as [E|E]; apply N.eqb_eq in E; auto.
    - apply andb_prop in Hf as [Hf Hd]. apply andb_prop in Hf as [Hs Ht].
      apply HBind; [now apply (proj1 IHe)|now apply P_snd| |].
      + destruct dflt as [d|]; [apply (proj1 H0 Hd)|exact I].
      + intros ->. exact Hd.
    - apply andb_prop in Hf as [Hf Hd]. apply andb_prop in Hf as [Hs Ht].
      apply HSwitch; [now apply (proj1 IHe)|now apply P_snd|now apply P_opt].
    - apply andb_prop in Hf as [Hf Hd]. apply andb_prop in Hf as [Hs Ht].
      apply HCase; [now apply (proj1 IHe)| |now apply P_opt].
      clear -H Ht. induction cases as [|[c r] cases IH]; [constructor|].
      cbn [forallb fst snd] in Ht. apply andb_prop in Ht as [Hcr Ht]. apply andb_prop in Hcr as [Hc Hr].
      inversion H; subst. destruct H2 as [[Pc _] [Pr _]]. constructor; [split; auto|now apply IH].
    - apply andb_prop in Hf as [Hc Hm]. apply HCoalesce; [exact Hc|now apply P_all].
    - apply andb_prop in Hf as [Hl Hm]. apply HIter; [exact Hl|now apply P_all].
    - eapply Forall_impl; [|exact H]. intros a [Ha _]. exact Ha.
    - discriminate.
    - apply andb_prop in Hf as [Hp He]. apply HWith; [|now apply (proj1 IHe)].
      destruct p0; [now left|now right].
    - apply HCached. now apply (proj1 IHe).
    - apply andb_prop in Hf as [Hf Hk]. apply andb_prop in Hf as [Hf Ha].
      apply HCall; [now apply (proj1 IHe)|now apply P_all|now apply P_all].
    - apply andb_prop in Hf as [Ht Hps]. apply HTemplate; [exact Ht|now apply P_snd].
    - apply andb_prop in Hf as [Hf Hes]. apply andb_prop in Hf as [He Hfl].
      apply HComp; [|now apply (proj1 IHe)|now apply P_all].
      destruct effects; [now left|now right].
    - apply HLogged. now apply (proj1 IHe).
    - apply HPipe. now apply P_all.
    - now apply HAll.
  Qed.
End FragInd.

(** ** Part 5: the reference instance *)
Lemma vclean_good bad v : vclean v = true -> vgood bad v = true.
Proof.
  unfold vclean. induction v using value_ind'; intros Hc; try reflexivity; cbn [vgood] in *.
  - induction args as [|a args IH]; [reflexivity|]. cbn [forallb] in *.
    apply andb_prop in Hc as [Ha Hr]. inversion H; subst. now rewrite (H2 Ha), IH.
  - apply andb_prop in Hc as [Hp Hq].
    assert (G : forall l, Forall (fun v => vgood (fun _ => true) v = true -> vgood bad v = true) l ->
                forallb (vgood (fun _ => true)) l = true -> forallb (vgood bad) l = true).
    { induction l as [|a l IH]; intros HF Hl; [reflexivity|]. cbn [forallb] in *.
      apply andb_prop in Hl as [Ha Hl]. inversion HF; subst. now rewrite (H3 Ha), IH. }
    now rewrite (G pre H Hp), (G post H0 Hq).
  - discriminate.
Qed.

Lemma res_good_wrapr bad r : res_good bad (wrapr r) <-> res_good bad r.
Proof. destruct r; reflexivity. Qed.

Lemma rs_rd k o : rs (rd unit k o) = Ok (lookup k (JObj o)).
Proof. unfold rd. rewrite rs_bind, rs_emit. reflexivity. Qed.
Lemma rs_emit_reads l o : rs (emit_reads unit l o) = Ok tt.
Proof.
  unfold emit_reads. induction l as [|k l IH]; [reflexivity|].
  rewrite rs_iterM_cons, rs_emit. exact IH.
Qed.

Lemma assoc_v_In {A} x (tbl : list (value * A)) b : assoc_v x tbl = Some b -> exists v, In (v, b) tbl.
Proof.
  unfold assoc_v. induction tbl as [|[v a] tbl IH]; [discriminate|].
  destruct (value_eq x v).
  - intros H. inversion H; subst. exists v. now left.
  - intros H. destruct (IH H) as [v' Hv]. exists v'. now right.
Qed.

Lemma Forall_snd_In {A} (Q : expr -> Prop) (tbl : list (A * expr)) a b :
  Forall (fun ve => Q (snd ve)) tbl -> In (a, b) tbl -> Q b.
Proof. rewrite Forall_forall. intros H Hin. apply (H (a, b) Hin). Qed.

Section Ref.
  Variable u : N -> list value -> cres.
  Variable rfuel : nat.
  Notation ev := (eval unit nc_find nc_store cfg_nc u rfuel (fun _ _ => true)).
  Notation va := (validate unit nc_find nc_store cfg_nc u rfuel (fun _ _ => true)).
  Notation ks := (keys unit nc_find nc_store cfg_nc u rfuel (fun _ _ => true)).
  Notation ex := (explain unit nc_find nc_store cfg_nc u rfuel (fun _ _ => true)).
  Local Notation U l := (l unit nc_find nc_store cfg_nc u rfuel (fun _ _ => true)) (only parsing).
  Notation "x <- m ;; f" := (bind unit m (fun x => f)) (at level 61, m at next level, right associativity).
  Notation "m ;;; f" := (bind unit m (fun _ => f)) (at level 61, right associativity).

  Lemma rs_ev_wrapped e o : wrapr (rs (ev e o)) = rs (ev e o).
  Proof.
    pose proof (eval_is_wrapped unit nc_find nc_store cfg_nc u rfuel (fun _ _ => true) e o tt) as W.
    rewrite <- rs_wrap. unfold rs. now rewrite W.
  Qed.
  Lemma ev_err_ee e o c ee : rs (ev e o) = Err c ee -> ee = true.
  Proof. intros H. pose proof (rs_ev_wrapped e o) as W. rewrite H in W. cbn in W. now inversion W. Qed.

  (** caching is off on the reference instance: a cached node is its body *)
  Lemma ev_cached c e o : ev (ECached c e) o = wrap_eval unit (ev e o).
  Proof. destruct c; reflexivity. Qed.
  Lemma va_cached c e o : va (ECached c e) o = va e o.
  Proof. destruct c; reflexivity. Qed.
  Lemma rs_ev_cached c e o : rs (ev (ECached c e) o) = rs (ev e o).
  Proof. rewrite ev_cached, rs_wrap. apply rs_ev_wrapped. Qed.
  Lemma rs_ev_with f p e o : rs (ev (EWith f p e) o) = rs (ev e (with_opts f p o)).
  Proof. rewrite (U eval_EWith), rs_wrap. apply rs_ev_wrapped. Qed.
  Lemma rs_ev_logged e o : rs (ev (ELogged e) o) = rs (ev e o).
  Proof.
    rewrite (U eval_ELogged), rs_wrap, rs_bind, rs_emit. cbn [bindr]. rewrite rs_bind.
    destruct (_ || _); [rewrite rs_ret|rewrite rs_emit]; cbn [bindr]; apply rs_ev_wrapped.
  Qed.

  (** the loops inside the clauses, named *)
  Definition case_go {A} (x : value) (o : dict) (onres : expr -> MU A) (dm : MU A) : list (expr * expr) -> MU A :=
    fix go (cs : list (expr * expr)) : MU A :=
      match cs with
      | [] => dm
      | (c, r) :: cs' => p <- ev c o ;; b <- call_value unit u p x ;; if truthy b then onres r else go cs'
      end.
  Definition coal_go {A} (o : dict) (act : expr -> MU A) : list expr -> option (cause * bool) -> MU A :=
    fix go (ms : list expr) (last : option (cause * bool)) : MU A :=
      match ms with
      | [] => match last with Some (c, ee) => fail unit c ee | None => fail unit CUnmodelled false end
      | m :: ms' => catch unit (va m o ;;; act m) (fun c ee => if ee then go ms' (Some (c, ee)) else fail unit c ee)
      end.
  Definition iter_go (o : dict) : list expr -> MU (list value) :=
    fix go (es : list expr) : MU (list value) :=
      match es with
      | [] => ret unit []
      | x :: es' => catch unit (v <- ev x o ;;
                                if is_some (deep_err v) then ret unit [v]
                                else vs <- go es' ;; ret unit (v :: vs))
                               (fun c _ => ret unit [VErr c])
      end.
  Definition dflt_or {A} (dflt : option expr) (act : expr -> MU A) (c : cause) (ee : bool) : MU A :=
    match dflt with Some d => act d | None => fail unit c ee end.

  Lemma ev_case disp cases dflt o :
    ev (ECase disp cases dflt) o =
      wrap_eval unit (x <- ev disp o ;; case_go x o (fun r => ev r o) (dflt_or dflt (fun d => ev d o) CCase true) cases).
  Proof. reflexivity. Qed.
  Lemma va_case disp cases dflt o :
    va (ECase disp cases dflt) o =
      va disp o ;;; x <- ev disp o ;; case_go x o (fun r => va r o) (dflt_or dflt (fun d => va d o) CCase true) cases.
  Proof. reflexivity. Qed.
  Lemma ks_case disp cases dflt o :
    ks (ECase disp cases dflt) o =
      a <- ks disp o ;; x <- ev disp o ;;
      b <- case_go x o (fun r => ks r o) (dflt_or dflt (fun d => ks d o) CCase true) cases ;; ret unit (a ++ b).
  Proof. reflexivity. Qed.
  Lemma ex_case disp cases dflt o :
    ex (ECase disp cases dflt) o =
      catch unit (a <- ex disp o ;; x <- ev disp o ;;
                  b <- case_go x o (fun r => ex r o) (dflt_or dflt (fun d => ex d o) CCase true) cases ;; ret unit (a ++ b))
                 (fun c ee => if ee then fail unit CInsuff true else fail unit c ee).
  Proof. reflexivity. Qed.
  Lemma ev_coalesce ms o : ev (ECoalesce ms) o = wrap_eval unit (coal_go o (fun m => ev m o) ms None).
  Proof. reflexivity. Qed.
  Lemma va_coalesce ms o : va (ECoalesce ms) o = coal_go o (fun m => va m o) ms None.
  Proof. reflexivity. Qed.
  Lemma ks_coalesce ms o : ks (ECoalesce ms) o = coal_go o (fun m => ks m o) ms None.
  Proof. reflexivity. Qed.
  Lemma ev_iter es o : ev (EIter es) o = wrap_eval unit (vs <- iter_go o es ;; ret unit (VT T_ITER vs)).
  Proof. reflexivity. Qed.

  (** which case a CaseWhen takes: the same computation in all four interpreters *)
  Fixpoint case_sel (x : value) (o : dict) (cs : list (expr * expr)) : res (option expr) :=
    match cs with
    | [] => Ok None
    | (c, r) :: cs' =>
        bindr (rs (ev c o)) (fun p => bindr (rs (call_value unit u p x)) (fun b =>
          if truthy b then Ok (Some r) else case_sel x o cs'))
    end.
  Lemma rs_case_go A x o (onres : expr -> MU A) dm cs :
    rs (case_go x o onres dm cs) =
      bindr (case_sel x o cs) (fun s => match s with Some r => rs (onres r) | None => rs dm end).
  Proof.
    induction cs as [|[c r] cs IH]; [reflexivity|].
    cbn [case_go case_sel]. rewrite rs_bind. destruct (rs (ev c o)) as [p|]; cbn [bindr]; [|reflexivity].
    rewrite rs_bind. destruct (rs (call_value unit u p x)) as [b|]; cbn [bindr]; [|reflexivity].
    destruct (truthy b); [reflexivity|exact IH].
  Qed.
  Lemma case_sel_In x o cs r : case_sel x o cs = Ok (Some r) -> exists c, In (c, r) cs.
  Proof.
    induction cs as [|[c r'] cs IH]; [discriminate|]. cbn [case_sel].
    destruct (rs (ev c o)) as [p|]; cbn [bindr]; [|discriminate].
    destruct (rs (call_value unit u p x)) as [b|]; cbn [bindr]; [|discriminate].
    destruct (truthy b).
    - intros H. inversion H; subst. exists c. now left.
    - intros H. destruct (IH H) as [c' Hc]. exists c'. now right.
  Qed.
  Lemma rs_dflt_or A dflt (act : expr -> MU A) c ee :
    rs (dflt_or dflt act c ee) = match dflt with Some d => rs (act d) | None => Err c ee end.
  Proof. destruct dflt; reflexivity. Qed.

  Lemma rs_coal_nil A o (act : expr -> MU A) last :
    rs (coal_go o act [] last) = match last with Some (c, ee) => Err c ee | None => Err CUnmodelled false end.
  Proof. destruct last as [[c ee]|]; reflexivity. Qed.
  Lemma rs_coal_cons A o (act : expr -> MU A) m ms last :
    rs (coal_go o act (m :: ms) last) =
      catchr (bindr (rs (va m o)) (fun _ => rs (act m)))
             (fun c ee => if ee then rs (coal_go o act ms (Some (c, ee))) else Err c ee).
  Proof.
    cbn [coal_go]. rewrite rs_catch, rs_bind. destruct (bindr _ _) as [a|c ee]; cbn [catchr]; [reflexivity|].
    destruct (unmodb c); [reflexivity|]. destruct ee; reflexivity.
  Qed.
  Lemma rs_iter_cons o x es :
    rs (iter_go o (x :: es)) =
      catchr (bindr (rs (ev x o)) (fun v => if is_some (deep_err v) then Ok [v]
                                            else bindr (rs (iter_go o es)) (fun vs => Ok (v :: vs))))
             (fun c _ => Ok [VErr c]).
  Proof.
    cbn [iter_go]. rewrite rs_catch, rs_bind.
    destruct (rs (ev x o)) as [v|c ee]; cbn [bindr]; [|reflexivity].
    destruct (is_some (deep_err v)); [reflexivity|]. rewrite rs_bind.
    destruct (rs (iter_go o es)); reflexivity.
  Qed.

  Lemma iterM_ok_Forall A (f : A -> MU unit) l :
    rs (iterM unit f l) = Ok tt <-> Forall (fun a => rs (f a) = Ok tt) l.
  Proof.
    induction l as [|a l IH]; [split; [constructor|reflexivity]|].
    rewrite rs_iterM_cons. split.
    - intros H. apply bindr_ok in H as [[] [Ha Hl]]. constructor; [exact Ha|now apply IH].
    - intros H. inversion H; subst. rewrite H2. cbn [bindr]. now apply IH.
  Qed.
  Lemma iterM_err_Exists A (f : A -> MU unit) l c ee :
    rs (iterM unit f l) = Err c ee -> Exists (fun a => rs (f a) = Err c ee) l.
  Proof.
    induction l as [|a l IH]; [discriminate|]. rewrite rs_iterM_cons. intros H.
    apply bindr_err in H as [H|[[] [_ H]]]; [now left|right; now apply IH].
  Qed.

  (** [Option.evaluate], result level *)
  Definition dom_check (dom : option expr) (o : dict) (v : value) : res value :=
    match dom with
    | None => Ok v
    | Some de => bindr (rs (ev de o)) (fun d => bindr (rs (in_domain unit u d v)) (fun _ => Ok v))
    end.
  Lemma rs_dom_tail dom o v :
    rs (match dom with
        | None => ret unit v
        | Some de => d <- ev de o ;; in_domain unit u d v ;;; ret unit v
        end) = dom_check dom o v.
  Proof.
    destruct dom as [de|]; [|reflexivity]. cbn [dom_check]. rewrite rs_bind.
    destruct (rs (ev de o)) as [d|]; cbn [bindr]; [|reflexivity]. rewrite rs_bind.
    destruct (rs (in_domain unit u d v)); reflexivity.
  Qed.
  Lemma rs_option_eval k dflt dom o :
    rs (option_eval unit u rfuel (fun x => ev x o) k dflt dom o) =
      match lookup k (JObj o) with
      | TypeErr => Err CType false
      | Absent => match dflt with
                  | None => Err (CKey k) true
                  | Some d => bindr (rs (ev d o)) (dom_check dom o)
                  end
      | Found raw => bindr (rs (of_rres unit (resolve rfuel o raw))) (fun j => dom_check dom o (VJ j))
      end.
  Proof.
    unfold option_eval. rewrite rs_bind, rs_rd. cbn [bindr]. rewrite rs_bind.
    destruct (lookup k (JObj o)) as [raw| |]; [| |reflexivity].
    - rewrite rs_bind, rs_emit_reads. cbn [bindr]. rewrite rs_bind.
      destruct (rs (of_rres unit (resolve rfuel o raw))) as [j|]; cbn [bindr]; [|reflexivity].
      apply rs_dom_tail.
    - destruct dflt as [d|]; [|reflexivity].
      destruct (rs (ev d o)) as [v|]; cbn [bindr]; [|reflexivity]. apply rs_dom_tail.
  Qed.
  Lemma rs_va_option k dflt dom o :
    rs (va (EOption k dflt dom) o) =
      match lookup k (JObj o) with
      | TypeErr => Err CType false
      | Found _ => bindr (rs (ev (EOption k dflt dom) o)) (fun _ => Ok tt)
      | Absent => match dflt with Some d => rs (va d o) | None => Err (CKey k) true end
      end.
  Proof.
    rewrite (U validate_EOption), rs_bind, rs_rd. cbn [bindr].
    destruct (lookup k (JObj o)); [|destruct dflt; reflexivity|reflexivity].
    rewrite rs_bind. rewrite (U eval_EOption). destruct (rs (wrap_eval unit _)); reflexivity.
  Qed.
  Lemma rs_ev_option k dflt dom o :
    rs (ev (EOption k dflt dom) o) = wrapr (rs (option_eval unit u rfuel (fun x => ev x o) k dflt dom o)).
  Proof. rewrite (U eval_EOption). apply rs_wrap. Qed.

  Lemma dom_check_value dom o v w : dom_check dom o v = Ok w -> w = v.
  Proof.
    destruct dom as [de|]; cbn [dom_check]; [|intros H; now inversion H].
    intros H. apply bindr_ok in H as [d [_ H]]. apply bindr_ok in H as [[] [_ H]]. now inversion H.
  Qed.

  Section Guard.
    Variable bad : cause -> bool.
    Hypothesis Hu_ok : forall f args v, vsgood bad args = true -> u f args = COk v -> vgood bad v = true.
    Hypothesis Hbad_type : bad CType = false.
    Hypothesis Hbad_unmod : bad CUnmodelled = false.
    Hypothesis Hu_raise : forall f args n, u f args = CRaise n -> bad (CUser n) = false.
    Notation rg := (res_good bad).

    Definition guardQ (e : expr) : Prop := forall o, rs (va e o) = Ok tt -> rg (rs (ev e o)).

    Lemma guard_value v : vclean v = true -> guardQ (EValue v).
    Proof. intros Hc o _. rewrite (U eval_EValue), rs_wrap, rs_ret. now apply vclean_good. Qed.

    Lemma guard_option k dflt dom :
      Popt guardQ dflt ->
      match dflt, dom with Some _, Some _ => False | _, _ => True end ->
      guardQ (EOption k dflt dom).
    Proof.
      intros Hd Hc o. rewrite rs_va_option, rs_ev_option, rs_option_eval.
      destruct (lookup k (JObj o)) as [raw| |]; [| |discriminate].
      - intros H. apply bindr_ok in H as [v [H _]]. apply (proj1 (wrapr_ok _ _ _)) in H. rewrite H. cbn.
        apply bindr_ok in H as [j [_ H]]. apply dom_check_value in H. now subst.
      - destruct dflt as [d|]; [|discriminate]. destruct dom; [destruct Hc|].
        intros H. specialize (Hd o H). apply res_good_wrapr.
        destruct (rs (ev d o)); exact Hd.
    Qed.

    Lemma guard_apply src fn : guardQ src -> guardQ fn -> guardQ (EApply src fn).
    Proof.
      intros Hs Hf o. rewrite (U validate_EApply), rs_bind. intros H.
      apply bindr_ok in H as [[] [H1 H2]]. specialize (Hs o H1). specialize (Hf o H2).
      rewrite (U eval_EApply), rs_wrap. apply res_good_wrapr. rewrite rs_bind.
      destruct (rs (ev src o)) as [x|]; cbn [bindr]; [|exact Hs]. rewrite rs_bind.
      destruct (rs (ev fn o)) as [f|]; cbn [bindr]; [|exact Hf].
      apply (call_value_good bad u Hu_ok Hbad_type Hu_raise f x Hf Hs).
    Qed.

    Lemma guard_bind src tbl dflt :
      Forall (fun ve => guardQ (snd ve)) tbl -> Popt guardQ dflt -> guardQ (EBind src tbl dflt).
    Proof.
      intros Ht Hd o. rewrite (U validate_EBind), rs_bind. intros H.
      apply bindr_ok in H as [[] [_ H]]. rewrite rs_bind in H. apply bindr_ok in H as [x [Hx H]].
      rewrite pick_assoc in H. rewrite (U eval_EBind), rs_wrap. apply res_good_wrapr.
      rewrite rs_bind, Hx. cbn [bindr]. rewrite pick_assoc.
      destruct (assoc_v x tbl) as [b|] eqn:E.
      - destruct (assoc_v_In _ _ _ E) as [v Hin]. apply (Forall_snd_In guardQ tbl v b Ht Hin o H).
      - destruct dflt as [d|]; [apply (Hd o H)|discriminate].
    Qed.

    Lemma guard_switch disp tbl dflt :
      Forall (fun ve => guardQ (snd ve)) tbl -> Popt guardQ dflt -> guardQ (ESwitch disp tbl dflt).
    Proof.
      intros Ht Hd o. rewrite (U validate_ESwitch), rs_bind. intros H.
      apply bindr_ok in H as [dv [Hdv H]].
      rewrite (U eval_ESwitch), rs_wrap. apply res_good_wrapr. rewrite rs_bind, Hdv. cbn [bindr].
      destruct dv as [k|].
      - destruct (negb (hashable k)); [discriminate|]. rewrite pick_assoc in H. rewrite pick_assoc.
        destruct (assoc_v k tbl) as [b|] eqn:E.
        + destruct (assoc_v_In _ _ _ E) as [v Hin]. apply (Forall_snd_In guardQ tbl v b Ht Hin o H).
        + destruct dflt as [d|]; [apply (Hd o H)|discriminate].
      - destruct dflt as [d|]; [apply (Hd o H)|discriminate].
    Qed.

    Lemma guard_case disp cases dflt :
      Forall (fun cr => guardQ (fst cr) /\ guardQ (snd cr)) cases -> Popt guardQ dflt ->
      guardQ (ECase disp cases dflt).
    Proof.
      intros Hc Hd o. rewrite va_case, rs_bind. intros H.
      apply bindr_ok in H as [[] [_ H]]. rewrite rs_bind in H. apply bindr_ok in H as [x [Hx H]].
      rewrite rs_case_go in H. apply bindr_ok in H as [s [Hs H]].
      rewrite ev_case, rs_wrap. apply res_good_wrapr. rewrite rs_bind, Hx. cbn [bindr].
      rewrite rs_case_go, Hs. cbn [bindr]. destruct s as [r|].
      - destruct (case_sel_In _ _ _ _ Hs) as [c Hin]. rewrite Forall_forall in Hc.
        apply (proj2 (Hc (c, r) Hin) o H).
      - rewrite rs_dflt_or in *. destruct dflt as [d|]; [apply (Hd o H)|discriminate].
    Qed.

    Lemma iter_guard o es :
      Forall guardQ es -> Forall (fun x => rs (va x o) = Ok tt) es ->
      match rs (iter_go o es) with Ok vs => vsgood bad vs = true | Err c _ => bad c = false end.
    Proof.
      induction es as [|x es IH]; intros HQ HV; [reflexivity|].
      inversion HQ; subst. inversion HV; subst. specialize (IH H2 H4). specialize (H1 o H3).
      rewrite rs_iter_cons. destruct (rs (ev x o)) as [v|c ee]; cbn [bindr res_good] in *.
      - destruct (is_some (deep_err v)); cbn [catchr].
        + unfold vsgood. cbn. now rewrite H1.
        + destruct (rs (iter_go o es)) as [vs|c ee]; cbn [bindr catchr].
          * unfold vsgood in *. cbn [forallb]. now rewrite H1, IH.
          * destruct (unmodb c); [exact IH|]. unfold vsgood. cbn. now rewrite IH.
      - cbn [catchr]. destruct (unmodb c); [exact H1|]. unfold vsgood. cbn. now rewrite H1.
    Qed.

    Lemma guard_iter es : Forall guardQ es -> guardQ (EIter es).
    Proof.
      intros HQ o. rewrite (U validate_EIter). intros H. apply iterM_ok_Forall in H.
      pose proof (iter_guard o es HQ H) as G.
      rewrite ev_iter, rs_wrap. apply res_good_wrapr. rewrite rs_bind.
      destruct (rs (iter_go o es)) as [vs|c ee]; cbn [bindr]; [|exact G]. exact G.
    Qed.

    Lemma guard_with force pr e : guardQ e -> guardQ (EWith force pr e).
    Proof. intros He o H. rewrite (U validate_EWith) in H. rewrite rs_ev_with. apply (He _ H). Qed.
    Lemma guard_cached c e : guardQ e -> guardQ (ECached c e).
    Proof. intros He o H. rewrite va_cached in H. rewrite rs_ev_cached. apply (He _ H). Qed.
    Lemma guard_logged e : guardQ e -> guardQ (ELogged e).
    Proof. intros He o H. rewrite (U validate_ELogged) in H. rewrite rs_ev_logged. apply (He _ H). Qed.

    Lemma mapM_guard o es :
      Forall guardQ es -> Forall (fun x => rs (va x o) = Ok tt) es ->
      match rs (mapM unit (fun x => ev x o) es) with Ok vs => vsgood bad vs = true | Err c _ => bad c = false end.
    Proof.
      induction es as [|x es IH]; intros HQ HV; [reflexivity|].
      inversion HQ; subst. inversion HV; subst. specialize (IH H2 H4). specialize (H1 o H3).
      rewrite rs_mapM_cons. destruct (rs (ev x o)) as [v|c ee]; cbn [bindr res_good] in *; [|exact H1].
      destruct (rs (mapM unit _ es)) as [vs|c ee]; cbn [bindr]; [|exact IH].
      unfold vsgood in *. cbn [forallb]. now rewrite H1, IH.
    Qed.

    Lemma guard_call partial f args kwargs :
      guardQ f -> Forall guardQ args -> Forall guardQ kwargs -> guardQ (ECall partial f args kwargs).
    Proof.
      intros Hf Ha Hk o. rewrite (U validate_ECall), rs_bind. intros H.
      apply bindr_ok in H as [[] [H1 H]]. rewrite rs_bind in H. apply bindr_ok in H as [[] [H2 H3]].
      apply iterM_ok_Forall in H2. apply iterM_ok_Forall in H3.
      specialize (Hf o H1). pose proof (mapM_guard o args Ha H2) as Ga. pose proof (mapM_guard o kwargs Hk H3) as Gk.
      rewrite (U eval_ECall), rs_wrap. apply res_good_wrapr. rewrite rs_bind.
      destruct (rs (ev f o)) as [fv|]; cbn [bindr res_good] in *; [|exact Hf]. rewrite rs_bind.
      destruct (rs (mapM unit _ args)) as [av|]; cbn [bindr]; [|exact Ga]. rewrite rs_bind.
      destruct (rs (mapM unit _ kwargs)) as [kv|]; cbn [bindr]; [|exact Gk].
      destruct partial.
      - destruct fv; try exact Hbad_unmod. rewrite rs_ret. cbn [res_good vgood] in *.
        apply andb_prop in Hf as [Hp Hq]. fold (vsgood bad (pre ++ av)). fold (vsgood bad (post ++ kv)).
        rewrite !vsgood_app. unfold vsgood in *. now rewrite Hp, Hq, Ga, Gk.
      - apply (call_value_n_good bad u Hu_ok Hbad_type Hu_raise fv (av ++ kv) Hf).
        rewrite vsgood_app. now rewrite Ga, Gk.
    Qed.

    Lemma guard_pipe steps : Forall guardQ steps -> guardQ (EPipe steps).
    Proof.
      intros Hs o. rewrite (U validate_EPipe). intros H. apply iterM_ok_Forall in H.
      pose proof (mapM_guard o steps Hs H) as G.
      rewrite (U eval_EPipe), rs_wrap. apply res_good_wrapr. rewrite rs_bind.
      destruct (rs (mapM unit _ steps)) as [fs|]; cbn [bindr]; [|exact G].
      rewrite rs_ret. cbn [res_good vgood forallb]. rewrite andb_true_r. now apply vsgood_rev.
    Qed.

    Lemma effects_guard o v effs :
      vgood bad v = true -> Forall guardQ effs -> Forall (fun x => rs (va x o) = Ok tt) effs ->
      match rs (iterM unit (fun eff => f <- ev eff o ;; call_value unit u f v ;;; ret unit tt) effs) with
      | Ok _ => True | Err c _ => bad c = false end.
    Proof.
      intros Hv. induction effs as [|x effs IH]; intros HQ HV; [exact I|].
      inversion HQ; subst. inversion HV; subst. specialize (IH H2 H4). specialize (H1 o H3).
      rewrite rs_iterM_cons, rs_bind.
      destruct (rs (ev x o)) as [f|c ee]; cbn [bindr res_good] in *; [|exact H1].
      rewrite rs_bind. pose proof (call_value_good bad u Hu_ok Hbad_type Hu_raise f v H1 Hv) as G.
      destruct (rs (call_value unit u f v)) as [w|c ee]; cbn [bindr res_good] in *; [|exact G].
      rewrite rs_ret. cbn [bindr]. exact IH.
    Qed.

    Lemma guard_comp e effs : guardQ e -> Forall guardQ effs -> guardQ (EComp e effs).
    Proof.
      intros He Hf o. rewrite (U validate_EComp), rs_bind. intros H.
      apply bindr_ok in H as [[] [H1 H]]. specialize (He o H1).
      rewrite (U eval_EComp), rs_wrap. apply res_good_wrapr. rewrite rs_bind.
      destruct (rs (ev e o)) as [v|]; cbn [bindr res_good] in *; [|exact He]. rewrite rs_bind.
      destruct (effects_opt_off o).
      - rewrite rs_ret. cbn [bindr]. rewrite rs_ret. exact He.
      - apply iterM_ok_Forall in H. pose proof (effects_guard o v effs He Hf H) as G.
        destruct (rs (iterM unit _ effs)); cbn [bindr]; [rewrite rs_ret; exact He|exact G].
    Qed.

    Lemma guard_all : guardQ EAllOptions.
    Proof.
      intros o. rewrite (U validate_EAllOptions), rs_bind. intros H.
      apply bindr_ok in H as [v [H _]]. rewrite (U eval_EAllOptions), H. cbn [res_good].
      rewrite rs_wrap in H. apply (proj1 (wrapr_ok _ _ _)) in H. unfold all_options_eval in H.
      rewrite rs_bind, rs_emit in H. cbn [bindr] in H. rewrite rs_bind in H.
      apply bindr_ok in H as [j [_ H]]. rewrite rs_ret in H. now inversion H.
    Qed.

    (** the fragment of the guard theorem: everything except Coalesce (finding D20), Template,
        Map, and an Option that has both a default and a domain (finding D4) *)
    Definition pG : fopts :=
      {| f_coalesce := false; f_lazy := true; f_template := false; f_effects := true; f_dom := true;
         f_domdflt := false; f_presets := true; f_partialbind := true; f_alloptions := true |}.

    Theorem guard_main e : fragP pG e = true -> guardQ e.
    Proof.
      apply (fragP_ind pG guardQ).
      - exact guard_value.
      - intros k dflt dom Hd Hc. apply guard_option; [exact Hd|].
        destruct dflt, dom; try exact I. discriminate Hc.
      - exact guard_apply.
      - intros es b Hl. discriminate Hl.
      - intros src tbl dflt _ Ht Hd _. now apply guard_bind.
      - intros disp tbl dflt _ Ht Hd. now apply guard_switch.
      - intros disp cases dflt _ Hc Hd. now apply guard_case.
      - intros ms Hc. discriminate Hc.
      - intros es _. apply guard_iter.
      - intros force pr e0 _. apply guard_with.
      - exact guard_cached.
      - exact guard_call.
      - intros s ps Ht. discriminate Ht.
      - intros e0 effs _. apply guard_comp.
      - exact guard_logged.
      - exact guard_pipe.
      - intros _. exact guard_all.
    Qed.
  End Guard.
End Ref.
