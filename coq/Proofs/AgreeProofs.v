(** C10 / C11: validate, keys, explain and evaluate on the cache-free reference instance
    (store = unit, [cfg_nc]: what [labrea.cache.disabled()] computes), for ALL user code and ALL
    option dictionaries, by induction over expressions of stated fragments.

    Part 1  results ([rs]) and logs ([lg]) of reference-instance computations as pure functions
    Part 2  values: induction, "no deferred failure with a bad cause inside" ([vgood])
    Part 3  calling values preserves goodness
    Part 4  the fragment family [fragP p] (one boolean predicate, switches in [fopts]) and its
            induction principle [fragP_ind]
    Part 5  [guard_main]: validate passing => evaluate cannot fail for a missing option (fragment pG)
    Part 6  the same on the observed functions ([validate_nc], [eval_nc]); witnesses D20, D4
    Part 7  result-level combinators and ONE result-level equation per (interpreter, constructor)
            ([V_*], [K_*], [X_*], [E_*])
    Part 8  [ev_clean]: successful evaluations hold no deferred failure (fragment pC)
    Part 9  [runs_only_choosers]: validate/keys/explain run user code only inside evaluations of
            chooser-position sub-expressions (EVERY expression)
    The theorems about explain (C11) and the three-way agreement (C10, Part G) are in C11Proofs.v. *)
From Coq Require Import List NArith ZArith Bool Lia.
Import ListNotations.
From LV Require Import Model.Base Model.Template Model.Eval Model.Derived Model.EvalRun.
From LV Require Import Proofs.BaseProofs Proofs.EvalProofs Proofs.EvalInd Proofs.EvalUnfold.

Notation MU := (M unit).

Definition rs {A} (m : MU A) : res A := fst (fst (m tt)).
Definition lg {A} (m : MU A) : list event := snd (m tt).

Definition bindr {A B} (r : res A) (f : A -> res B) : res B :=
  match r with Ok a => f a | Err c ee => Err c ee end.
Definition wrapr {A} (r : res A) : res A :=
  match r with Ok a => Ok a | Err c _ => Err c true end.
Definition unmodb (c : cause) : bool := match c with CUnmodelled => true | _ => false end.
Definition catchr {A} (r : res A) (h : cause -> bool -> res A) : res A :=
  match r with
  | Ok a => Ok a
  | Err c ee => if unmodb c then Err c ee else h c ee
  end.
Definition okb {A} (r : res A) : bool := match r with Ok _ => true | Err _ _ => false end.

Lemma rs_ret A (a : A) : rs (ret unit a) = Ok a. Proof. reflexivity. Qed.
Lemma rs_fail A c ee : rs (@fail unit A c ee) = Err c ee. Proof. reflexivity. Qed.
Lemma rs_emit e : rs (emit unit e) = Ok tt. Proof. reflexivity. Qed.
Lemma lg_ret A (a : A) : lg (ret unit a) = []. Proof. reflexivity. Qed.
Lemma lg_fail A c ee : lg (@fail unit A c ee) = []. Proof. reflexivity. Qed.
Lemma lg_emit e : lg (emit unit e) = [e]. Proof. reflexivity. Qed.

Lemma rs_bind A B (m : MU A) (f : A -> MU B) :
  rs (bind unit m f) = bindr (rs m) (fun a => rs (f a)).
Proof.
  unfold rs, bind, bindr. destruct (m tt) as [[[a|c ee] []] l]; cbn; [|reflexivity].
  destruct (f a tt) as [[r []] l']; reflexivity.
Qed.

Lemma lg_bind A B (m : MU A) (f : A -> MU B) :
  lg (bind unit m f) = lg m ++ match rs m with Ok a => lg (f a) | Err _ _ => [] end.
Proof.
  unfold rs, lg, bind. destruct (m tt) as [[[a|c ee] []] l]; cbn; [|now rewrite app_nil_r].
  destruct (f a tt) as [[r []] l']; reflexivity.
Qed.

Lemma rs_wrap A (m : MU A) : rs (wrap_eval unit m) = wrapr (rs m).
Proof. unfold rs, wrap_eval, wrapr. destruct (m tt) as [[[a|c ee] []] l]; reflexivity. Qed.
Lemma lg_wrap A (m : MU A) : lg (wrap_eval unit m) = lg m.
Proof. unfold lg, wrap_eval. destruct (m tt) as [[[a|c ee] []] l]; reflexivity. Qed.

Lemma rs_catch A (m : MU A) h : rs (catch unit m h) = catchr (rs m) (fun c ee => rs (h c ee)).
Proof.
  unfold rs, catch, catchr. destruct (m tt) as [[[a|c ee] []] l]; cbn; [reflexivity|].
  destruct c; cbn; try reflexivity; destruct (h _ ee tt) as [[r []] l']; reflexivity.
Qed.
Lemma lg_catch A (m : MU A) h :
  lg (catch unit m h) =
    lg m ++ match rs m with
            | Ok _ => []
            | Err c ee => if unmodb c then [] else lg (h c ee)
            end.
Proof.
  unfold rs, lg, catch. destruct (m tt) as [[[a|c ee] []] l]; cbn; [now rewrite app_nil_r|].
  destruct c; cbn; try (now rewrite app_nil_r); destruct (h _ ee tt) as [[r []] l']; reflexivity.
Qed.

Lemma wrapr_idem A (r : res A) : wrapr (wrapr r) = wrapr r.
Proof. destruct r; reflexivity. Qed.
Lemma wrapr_ok A (r : res A) a : wrapr r = Ok a <-> r = Ok a.
Proof. destruct r; cbn; split; intros H; try discriminate; exact H. Qed.
Lemma okb_wrapr A (r : res A) : okb (wrapr r) = okb r.
Proof. destruct r; reflexivity. Qed.
Lemma bindr_ok A B (r : res A) (f : A -> res B) b :
  bindr r f = Ok b <-> exists a, r = Ok a /\ f a = Ok b.
Proof.
  destruct r as [a|c ee]; cbn; split.
  - intros H. exists a. split; [reflexivity|exact H].
  - intros [a' [E H]]. inversion E; subst. exact H.
  - discriminate.
  - intros [a' [E _]]. discriminate.
Qed.
Lemma bindr_err A B (r : res A) (f : A -> res B) c ee :
  bindr r f = Err c ee <-> r = Err c ee \/ exists a, r = Ok a /\ f a = Err c ee.
Proof.
  destruct r as [a|c0 ee0]; cbn; split.
  - intros H. right. exists a. split; [reflexivity|exact H].
  - intros [E|[a' [E H]]]; [discriminate|]. inversion E; subst. exact H.
  - intros H. left. now inversion H.
  - intros [E|[a' [E _]]]; [now inversion E|discriminate].
Qed.

(** list combinators, one step *)
Lemma rs_iterM_nil A (f : A -> MU unit) : rs (iterM unit f []) = Ok tt. Proof. reflexivity. Qed.
Lemma rs_iterM_cons A (f : A -> MU unit) a l :
  rs (iterM unit f (a :: l)) = bindr (rs (f a)) (fun _ => rs (iterM unit f l)).
Proof. rewrite iterM_cons. apply rs_bind. Qed.
Lemma rs_unionM_nil A (f : A -> MU (list key)) : rs (unionM unit f []) = Ok []. Proof. reflexivity. Qed.
Lemma rs_unionM_cons A (f : A -> MU (list key)) a l :
  rs (unionM unit f (a :: l)) =
    bindr (rs (f a)) (fun x => bindr (rs (unionM unit f l)) (fun y => Ok (x ++ y))).
Proof.
  rewrite unionM_cons, rs_bind. destruct (rs (f a)); cbn; [|reflexivity].
  rewrite rs_bind. destruct (rs (unionM unit f l)); reflexivity.
Qed.
Lemma rs_mapM_nil A B (f : A -> MU B) : rs (mapM unit f []) = Ok []. Proof. reflexivity. Qed.
Lemma rs_mapM_cons A B (f : A -> MU B) a l :
  rs (mapM unit f (a :: l)) =
    bindr (rs (f a)) (fun x => bindr (rs (mapM unit f l)) (fun y => Ok (x :: y))).
Proof.
  rewrite mapM_cons, rs_bind. destruct (rs (f a)); cbn; [|reflexivity].
  rewrite rs_bind. destruct (rs (mapM unit f l)); reflexivity.
Qed.

(** ** Part 2: values.  Induction on values (nested through argument lists), and the hereditary
    predicate "no deferred failure with a [bad] cause anywhere inside" (also inside the captured
    arguments of callables). *)
Section ValueInd.
  Variable P : value -> Prop.
  Hypothesis HJ : forall j, P (VJ j).
  Hypothesis HT : forall t args, Forall P args -> P (VT t args).
  Hypothesis HF : forall f pre post, Forall P pre -> Forall P post -> P (VF f pre post).
  Hypothesis HM : P VMissing.
  Hypothesis HE : forall c, P (VErr c).
  Fixpoint value_ind' (v : value) : P v :=
    let all := fix all (l : list value) : Forall P l :=
      match l with [] => Forall_nil _ | x :: l' => Forall_cons x (value_ind' x) (all l') end in
    match v with
    | VJ j => HJ j
    | VT t args => HT t args (all args)
    | VF f pre post => HF f pre post (all pre) (all post)
    | VMissing => HM
    | VErr c => HE c
    end.
End ValueInd.

Section Good.
  Variable bad : cause -> bool.

  Fixpoint vgood (v : value) : bool :=
    match v with
    | VErr c => negb (bad c)
    | VT _ args => forallb vgood args
    | VF _ pre post => forallb vgood pre && forallb vgood post
    | _ => true
    end.

  Definition vsgood (l : list value) : bool := forallb vgood l.

  Lemma vsgood_app a b : vsgood (a ++ b) = vsgood a && vsgood b.
  Proof. apply forallb_app. Qed.
  Lemma vsgood_In l x : vsgood l = true -> In x l -> vgood x = true.
  Proof. unfold vsgood. rewrite forallb_forall. auto. Qed.
  Lemma vsgood_rev l : vsgood l = true -> vsgood (rev l) = true.
  Proof.
    unfold vsgood. rewrite !forallb_forall. intros H x Hx. apply H. now apply in_rev.
  Qed.

  Lemma listify_VT t args :
    listify (VT t args) = VT (if N.eqb t T_ITER then T_LIST else t) (map listify args).
  Proof. reflexivity. Qed.

  Lemma vgood_listify v : vgood v = true -> vgood (listify v) = true.
  Proof.
    induction v using value_ind'; intros Hg; try exact Hg.
    rewrite listify_VT. cbn [vgood] in *. 
    induction args as [|a args IH]; [reflexivity|].
    cbn [map forallb] in *. apply andb_prop in Hg as [Ha Hr]. inversion H; subst.
    rewrite (H2 Ha). cbn. now apply IH.
  Qed.
  Lemma vsgood_listify l : vsgood l = true -> vsgood (map listify l) = true.
  Proof.
    unfold vsgood. induction l as [|a l IH]; [reflexivity|]. cbn [map forallb].
    intros H. apply andb_prop in H as [Ha Hl]. now rewrite (vgood_listify a Ha), IH.
  Qed.

  Lemma deep_err_VT t args : deep_err (VT t args) = deep_err_list args.
  Proof. reflexivity. Qed.
  Lemma deep_err_list_cons x l :
    deep_err_list (x :: l) = match deep_err x with Some c => Some c | None => deep_err_list l end.
  Proof. reflexivity. Qed.

  Lemma deep_err_good v : vgood v = true -> forall c, deep_err v = Some c -> bad c = false.
  Proof.
    induction v using value_ind'; intros Hg c0 Hd; try discriminate.
    - rewrite deep_err_VT in Hd. cbn [vgood] in Hg.
      induction args as [|a args IH]; [discriminate|].
      rewrite deep_err_list_cons in Hd. cbn [forallb] in Hg. apply andb_prop in Hg as [Ha Hr].
      inversion H; subst. destruct (deep_err a) eqn:E.
      + inversion Hd; subst. now apply (H2 Ha).
      + now apply IH.
    - cbn in Hd. inversion Hd; subst. cbn in Hg. now apply negb_true_iff in Hg.
  Qed.
  Lemma deep_err_list_good l : vsgood l = true -> forall c, deep_err_list l = Some c -> bad c = false.
  Proof. intros Hg c Hd. apply (deep_err_good (VT 0%N l)); [exact Hg|exact Hd]. Qed.

  Lemma first_err_good l : vsgood l = true -> forall c, first_err l = Some c -> bad c = false.
  Proof.
    unfold vsgood. induction l as [|a l IH]; intros Hg c Hf; [discriminate|].
    cbn [forallb] in Hg. apply andb_prop in Hg as [Ha Hl].
    destruct a; cbn [first_err] in Hf; try (now apply IH).
    inversion Hf; subst. cbn in Ha. now apply negb_true_iff in Ha.
  Qed.

  Lemma vsgood_map_VJ l : vsgood (map VJ l) = true.
  Proof. unfold vsgood. induction l; [reflexivity|exact IHl]. Qed.

  Lemma elements_of_good v els : vgood v = true -> elements_of v = Some els -> vsgood els = true.
  Proof.
    destruct v; cbn [elements_of]; try discriminate.
    - destruct j; try discriminate. intros _ H. inversion H. apply vsgood_map_VJ.
    - intros Hg. destruct (_ || _); [|discriminate]. intros H. inversion H; subst. exact Hg.
  Qed.

  Lemma rs_force_elems v :
    rs (force_elems unit v) =
      match elements_of v with
      | Some els => match first_err els with Some c => Err c true | None => Ok els end
      | None => Err CType false
      end.
  Proof.
    unfold force_elems. destruct (elements_of v) as [els|]; [|reflexivity].
    destruct (first_err els); reflexivity.
  Qed.

  Lemma force_elems_ok v els : vgood v = true -> rs (force_elems unit v) = Ok els -> vsgood els = true.
  Proof.
    intros Hg. rewrite rs_force_elems. destruct (elements_of v) as [l|] eqn:E; [|discriminate].
    destruct (first_err l); [discriminate|]. intros H. inversion H; subst. now apply (elements_of_good v).
  Qed.
  Lemma force_elems_err v c ee :
    bad CType = false -> vgood v = true -> rs (force_elems unit v) = Err c ee -> bad c = false.
  Proof.
    intros Ht Hg. rewrite rs_force_elems. destruct (elements_of v) as [l|] eqn:E.
    - destruct (first_err l) eqn:F; [|discriminate]. intros H. inversion H; subst.
      apply (first_err_good l); [now apply (elements_of_good v)|exact F].
    - intros H. now inversion H; subst.
  Qed.
End Good.

(** ** Part 3: calling values preserves goodness *)
Section Calls.
  Variable bad : cause -> bool.
  Variable u : N -> list value -> cres.
  Notation vg := (vgood bad).
  Notation vsg := (vsgood bad).
  (** user code does not fabricate deferred failures: good arguments give a good result *)
  Hypothesis Hu_ok : forall f args v, vsg args = true -> u f args = COk v -> vg v = true.

  Lemma dict_put_good k v d :
    vg k = true -> vg v = true -> vsg d = true -> vsg (dict_put k v d) = true.
  Proof.
    intros Hk Hv. unfold vsgood. induction d as [|x d IH]; intros Hd.
    - cbn. now rewrite Hk, Hv.
    - cbn [forallb] in Hd. apply andb_prop in Hd as [Hx Hd'].
      assert (Hdef : forallb (vgood bad) (x :: dict_put k v d) = true) by (cbn [forallb]; now rewrite Hx, IH).
      destruct x as [j|t args|f pre post| |c]; try exact Hdef.
      destruct args as [|k' [|v' [|z args]]]; try exact Hdef.
      cbn [dict_put]. destruct (value_eq k k').
      + cbn [forallb vgood]. cbn [forallb] in Hd'. now rewrite Hk, Hv, Hd'.
      + cbn [forallb]. rewrite Hx. cbn. now apply IH.
  Qed.

  Lemma dict_of_pairs_good ps : forall acc d,
    vsg ps = true -> vsg acc = true -> dict_of_pairs ps acc = Some d -> vsg d = true.
  Proof.
    induction ps as [|p ps IH]; intros acc d Hps Hacc H.
    - inversion H; subst. exact Hacc.
    - cbn [dict_of_pairs] in H. unfold vsgood in Hps. cbn [forallb] in Hps.
      apply andb_prop in Hps as [Hp Hps].
      destruct (elements_of p) as [els|] eqn:E; [|discriminate].
      pose proof (elements_of_good bad p els Hp E) as Hels.
      destruct els as [|k [|v [|z els]]]; try discriminate.
      destruct (hashable k); [|discriminate].
      unfold vsgood in Hels. cbn [forallb] in Hels.
      apply andb_prop in Hels as [Hk Hv]. apply andb_prop in Hv as [Hv _].
      apply (IH _ _ Hps (dict_put_good k v acc Hk Hv Hacc) H).
  Qed.

  Definition user_call (f : N) (args : list value) : res value :=
    match deep_err_list args with
    | Some c => Err c true
    | None => match u f (map listify args) with COk v => Ok v | CRaise n => Err (CUser n) false end
    end.

  Lemma rs_call_fun f args :
    rs (call_fun unit u f args) =
      if N.eqb f B_LIST then
        match args with [x] => bindr (rs (force_elems unit x)) (fun els => Ok (VT T_LIST els)) | _ => Err CType false end
      else if N.eqb f B_TUPLE then
        match args with [x] => bindr (rs (force_elems unit x)) (fun els => Ok (VT T_TUPLE els)) | _ => Err CType false end
      else if N.eqb f B_DICT then
        match args with
        | [x] => bindr (rs (force_elems unit x)) (fun ps =>
                   match first_err (flat_map (fun p => match elements_of p with Some l => l | None => [] end) ps) with
                   | Some c => Err c true
                   | None => match dict_of_pairs ps [] with Some d => Ok (VT T_DICT d) | None => Err CType false end
                   end)
        | _ => Err CType false
        end
      else user_call f args.
  Proof.
    unfold call_fun, user_call.
    destruct (N.eqb f B_LIST).
    { destruct args as [|x [|y l]]; try reflexivity. rewrite rs_bind. destruct (rs (force_elems unit x)); reflexivity. }
    destruct (N.eqb f B_TUPLE).
    { destruct args as [|x [|y l]]; try reflexivity. rewrite rs_bind. destruct (rs (force_elems unit x)); reflexivity. }
    destruct (N.eqb f B_DICT).
    { destruct args as [|x [|y l]]; try reflexivity. rewrite rs_bind.
      destruct (rs (force_elems unit x)) as [ps|c ee]; cbn [bindr]; [|reflexivity].
      destruct (first_err _); [reflexivity|]. destruct (dict_of_pairs ps []); reflexivity. }
    destruct (deep_err_list args); [reflexivity|].
    destruct (u f (map listify args)); rewrite rs_bind; reflexivity.
  Qed.

  Lemma flat_elems_good ps :
    vsg ps = true ->
    vsg (flat_map (fun p => match elements_of p with Some l => l | None => [] end) ps) = true.
  Proof.
    unfold vsgood. induction ps as [|p ps IH]; [reflexivity|]. cbn [flat_map forallb].
    intros H. apply andb_prop in H as [Hp Hps]. rewrite forallb_app, (IH Hps), andb_true_r.
    destruct (elements_of p) as [l|] eqn:E; [|reflexivity]. apply (elements_of_good bad p l Hp E).
  Qed.

  Lemma call_fun_ok f args v :
    vsg args = true -> rs (call_fun unit u f args) = Ok v -> vg v = true.
  Proof.
    intros Hg. rewrite rs_call_fun.
    assert (Hone : forall t x, vsg [x] = true ->
              bindr (rs (force_elems unit x)) (fun els => Ok (VT t els)) = Ok v -> vg v = true).
    { intros t x Hx H. apply bindr_ok in H as [els [E H]]. inversion H; subst.
      cbn [vgood]. apply (force_elems_ok bad x els); [|exact E].
      unfold vsgood in Hx. cbn in Hx. now rewrite andb_true_r in Hx. }
    destruct (N.eqb f B_LIST). { destruct args as [|x [|y l]]; try discriminate. now apply Hone. }
    destruct (N.eqb f B_TUPLE). { destruct args as [|x [|y l]]; try discriminate. now apply Hone. }
    destruct (N.eqb f B_DICT).
    { destruct args as [|x [|y l]]; try discriminate. intros H. apply bindr_ok in H as [ps [E H]].
      destruct (first_err _); [discriminate|]. destruct (dict_of_pairs ps []) as [d|] eqn:D; [|discriminate].
      inversion H; subst. cbn [vgood].
      apply (dict_of_pairs_good ps [] d); [|reflexivity|exact D].
      apply (force_elems_ok bad x ps); [|exact E]. unfold vsgood in Hg. cbn in Hg. now rewrite andb_true_r in Hg. }
    unfold user_call. destruct (deep_err_list args); [discriminate|].
    destruct (u f (map listify args)) as [w|n] eqn:E; [|discriminate].
    intros H. inversion H; subst. apply (Hu_ok f (map listify args)); [|exact E]. now apply vsgood_listify.
  Qed.

  (** failures of a call on good arguments: a type error of the glue, a deferred failure (good, by
      assumption on the arguments), or an exception of the body *)
  Hypothesis Hbad_type : bad CType = false.
  Hypothesis Hu_raise : forall f args n, u f args = CRaise n -> bad (CUser n) = false.

  Lemma call_fun_err f args c ee :
    vsg args = true -> rs (call_fun unit u f args) = Err c ee -> bad c = false.
  Proof.
    intros Hg. rewrite rs_call_fun.
    assert (Hx1 : forall x, vsg [x] = true -> vg x = true).
    { intros x Hx. unfold vsgood in Hx. cbn in Hx. now rewrite andb_true_r in Hx. }
    assert (Hone : forall t x, vsg [x] = true ->
              bindr (rs (force_elems unit x)) (fun els => Ok (VT t els)) = Err c ee -> bad c = false).
    { intros t x Hx H. apply bindr_err in H as [H|[els [_ H]]]; [|discriminate].
      apply (force_elems_err bad x c ee Hbad_type (Hx1 x Hx) H). }
    assert (Hty : @Err value CType false = Err c ee -> bad c = false) by (intros H; now inversion H; subst).
    destruct (N.eqb f B_LIST). { destruct args as [|x [|y l]]; try exact Hty. now apply Hone. }
    destruct (N.eqb f B_TUPLE). { destruct args as [|x [|y l]]; try exact Hty. now apply Hone. }
    destruct (N.eqb f B_DICT).
    { destruct args as [|x [|y l]]; try exact Hty. intros H.
      apply bindr_err in H as [H|[ps [E H]]].
      - apply (force_elems_err bad x c ee Hbad_type (Hx1 x Hg) H).
      - pose proof (force_elems_ok bad x ps (Hx1 x Hg) E) as Hps.
        destruct (first_err _) eqn:F.
        + inversion H; subst. apply (first_err_good bad _ (flat_elems_good ps Hps) _ F).
        + destruct (dict_of_pairs ps []); [discriminate|]. now apply Hty. }
    unfold user_call. destruct (deep_err_list args) eqn:D.
    - intros H. inversion H; subst. apply (deep_err_list_good bad args Hg _ D).
    - destruct (u f (map listify args)) as [w|n] eqn:E; [discriminate|].
      intros H. inversion H; subst. apply (Hu_raise _ _ _ E).
  Qed.

  (** [call_value]: a callable applied to one argument (compositions apply their members in order) *)
  Definition compose_go : list value -> value -> MU value :=
    fix go (fs : list value) (acc : value) {struct fs} : MU value :=
      match fs with
      | [] => ret unit acc
      | g :: fs' => bind unit (call_value unit u g acc) (fun y => go fs' y)
      end.

  Lemma call_value_VF fid pre post x :
    call_value unit u (VF fid pre post) x =
      if N.eqb fid B_COMPOSE then compose_go pre x else call_fun unit u fid (pre ++ [x] ++ post).
  Proof. reflexivity. Qed.

  Definition res_good (r : res value) : Prop :=
    match r with Ok v => vg v = true | Err c _ => bad c = false end.

  Lemma call_value_good f : forall x, vg f = true -> vg x = true -> res_good (rs (call_value unit u f x)).
  Proof.
    induction f using value_ind'; intros x Hf Hx; try exact Hbad_type.
    rewrite call_value_VF. cbn [vgood] in Hf. apply andb_prop in Hf as [Hpre Hpost].
    destruct (N.eqb f B_COMPOSE).
    - clear Hpost H0. revert x Hx. induction pre as [|g pre IH]; intros x Hx; [exact Hx|].
      cbn [compose_go]. rewrite rs_bind. cbn [forallb] in Hpre. apply andb_prop in Hpre as [Hg Hpre].
      inversion H; subst. specialize (H2 x Hg Hx).
      destruct (rs (call_value unit u g x)) as [y|c ee]; cbn [bindr res_good] in *; [|exact H2].
      now apply IH.
    - assert (Hargs : vsg (pre ++ [x] ++ post) = true).
      { unfold vsgood. rewrite !forallb_app. cbn [forallb]. now rewrite Hpre, Hx, Hpost. }
      destruct (rs (call_fun unit u f (pre ++ [x] ++ post))) as [v|c ee] eqn:E; cbn [res_good].
      + apply (call_fun_ok _ _ _ Hargs E).
      + apply (call_fun_err _ _ _ _ Hargs E).
  Qed.

  Lemma call_value_n_good f args :
    vg f = true -> vsg args = true -> res_good (rs (call_value_n unit u f args)).
  Proof.
    intros Hf Ha. destruct f; try exact Hbad_type. cbn [call_value_n].
    destruct (N.eqb f B_COMPOSE); [exact Hbad_type|].
    cbn [vgood] in Hf. apply andb_prop in Hf as [Hpre Hpost].
    assert (Hargs : vsg (pre ++ args ++ post) = true) by (unfold vsgood in *; rewrite !forallb_app; now rewrite Hpre, Ha, Hpost).
    destruct (rs (call_fun unit u f (pre ++ args ++ post))) as [v|c ee] eqn:E; cbn [res_good].
    - apply (call_fun_ok _ _ _ Hargs E).
    - apply (call_fun_err _ _ _ _ Hargs E).
  Qed.
End Calls.

(** ** Part 4: the fragments.  One boolean predicate on expressions, parameterised by which of
    the constructs that carry a recorded finding (or need reasoning about templates) are let in;
    every theorem names its parameter.  Never in: [EMap]. *)
Record fopts := {
  f_coalesce : bool;     (* ECoalesce *)
  f_lazy : bool;         (* a bare EIter (a generator); otherwise only directly under list()/tuple() *)
  f_template : bool;     (* ETemplate *)
  f_effects : bool;      (* EComp with a non-empty list of effects *)
  f_dom : bool;          (* an Option without default declaring a domain *)
  f_domdflt : bool;      (* an Option with a default declaring a domain *)
  f_presets : bool;      (* EWith with a non-empty pre-set dictionary *)
  f_partialbind : bool;  (* EBind whose function is partial (no otherwise branch) *)
  f_alloptions : bool;   (* EAllOptions *)
  f_domexpr : bool;      (* an Option's domain may be any expression; otherwise a constant only *)
  f_untyped : bool       (* function positions (the function of an Apply / a call, case conditions,
                            effect callbacks, a constant domain) may hold anything; otherwise only
                            expressions that are callables by their syntax *)
}.

Definition vclean : value -> bool := vgood (fun _ => true).

Definition is_forcer (fn : expr) : bool :=
  match fn with
  | EValue (VF b [] []) => N.eqb b B_LIST || N.eqb b B_TUPLE
  | _ => false
  end.

(** callables by syntax: user functions (not the builtins list/tuple/dict), partial applications
    of them, compositions of such *)
Definition builtin (f : N) : bool := N.eqb f B_LIST || N.eqb f B_TUPLE || N.eqb f B_DICT.
Fixpoint ufun (v : value) : bool :=
  match v with
  | VF f pre post =>
      if N.eqb f B_COMPOSE then (fix go (l : list value) : bool := match l with [] => true | x :: l' => ufun x && go l' end) pre
      else negb (builtin f)
  | _ => false
  end.
Definition basefn (f : expr) : bool :=
  match f with EValue (VF fid _ _) => negb (builtin fid) && negb (N.eqb fid B_COMPOSE) | _ => false end.
Fixpoint fnexprb (e : expr) : bool :=
  match e with
  | EValue v => ufun v
  | ECall true f _ _ => basefn f
  | EPipe steps => (fix go (l : list expr) : bool := match l with [] => true | x :: l' => fnexprb x && go l' end) steps
  | _ => false
  end.
Definition domval (d : value) : bool := match d with VF _ _ _ => ufun d | _ => true end.

Definition dom_ok (p : fopts) (de : expr) : bool :=
  f_domexpr p || match de with EValue d => vclean d && (f_untyped p || domval d) | _ => false end.
Definition tyfn (p : fopts) (fn : expr) : bool := f_untyped p || fnexprb fn.

Fixpoint fragP (p : fopts) (e : expr) : bool :=
  match e with
  | EValue v => vclean v
  | EOption k dflt dom =>
      match dflt with
      | None => match dom with None => true | Some de => f_dom p && dom_ok p de end
      | Some d => fragP p d && match dom with None => true | Some de => f_domdflt p && dom_ok p de end
      end
  | EApply src fn =>
      match src with
      | EIter es =>
          if f_lazy p then forallb (fragP p) es && fragP p fn && tyfn p fn
          else is_forcer fn && forallb (fragP p) es
      | _ => fragP p src && fragP p fn && tyfn p fn
      end
  | EBind src tbl dflt =>
      fragP p src && forallb (fun ve => fragP p (snd ve)) tbl &&
      match dflt with Some d => fragP p d | None => f_partialbind p end
  | ESwitch disp tbl dflt =>
      fragP p disp && forallb (fun ve => fragP p (snd ve)) tbl &&
      match dflt with Some d => fragP p d | None => true end
  | ECase disp cases dflt =>
      fragP p disp && forallb (fun cr => fragP p (fst cr) && fragP p (snd cr)) cases &&
      match dflt with Some d => fragP p d | None => true end &&
      (f_untyped p || forallb (fun cr => fnexprb (fst cr)) cases)
  | ECoalesce ms => f_coalesce p && forallb (fragP p) ms
  | EIter es => f_lazy p && forallb (fragP p) es
  | EMap _ _ => false
  | EWith _ pr e => match pr with [] => true | _ => f_presets p end && fragP p e
  | ECached _ e => fragP p e
  | ECall _ f args kwargs =>
      fragP p f && forallb (fragP p) args && forallb (fragP p) kwargs && (f_untyped p || basefn f)
  | ETemplate _ ps => f_template p && forallb (fun pe => fragP p (snd pe)) ps
  | EComp e effs =>
      fragP p e && match effs with [] => true | _ => f_effects p end && forallb (fragP p) effs &&
      (f_untyped p || forallb fnexprb effs)
  | ELogged e => fragP p e
  | EPipe steps => forallb (fragP p) steps
  | EAllOptions => f_alloptions p
  end.

Lemma Forall_frag {A} (g : A -> expr) (F : expr -> bool) (Q : expr -> Prop) l :
  forallb (fun a => F (g a)) l = true -> Forall (fun a => F (g a) = true -> Q (g a)) l ->
  Forall (fun a => Q (g a)) l.
Proof.
  induction l as [|a l IH]; intros Hb Hf; [constructor|].
  cbn [forallb] in Hb. apply andb_prop in Hb as [Ha Hl]. inversion Hf; subst.
  constructor; [now apply H1|now apply IH].
Qed.

Section FragInd.
  Variable p : fopts.
  Variable Q : expr -> Prop.
  Hypothesis HValue : forall v, vclean v = true -> Q (EValue v).
  Hypothesis HOption : forall k dflt dom,
    Popt Q dflt ->
    match dflt, dom with
    | None, Some de => f_dom p = true /\ dom_ok p de = true
    | Some _, Some de => f_domdflt p = true /\ dom_ok p de = true
    | _, None => True
    end -> Q (EOption k dflt dom).
  Hypothesis HApply : forall src fn, Q src -> Q fn -> tyfn p fn = true -> Q (EApply src fn).
  Hypothesis HForced : forall es b,
    f_lazy p = false -> b = B_LIST \/ b = B_TUPLE -> Forall Q es -> Q (EApply (EIter es) (EValue (VF b [] []))).
  Hypothesis HBind : forall src tbl dflt,
    Q src -> Forall (fun ve => Q (snd ve)) tbl -> Popt Q dflt -> (dflt = None -> f_partialbind p = true) ->
    Q (EBind src tbl dflt).
  Hypothesis HSwitch : forall disp tbl dflt,
    Q disp -> Forall (fun ve => Q (snd ve)) tbl -> Popt Q dflt -> Q (ESwitch disp tbl dflt).
  Hypothesis HCase : forall disp cases dflt,
    Q disp -> Forall (fun cr => Q (fst cr) /\ Q (snd cr)) cases -> Popt Q dflt ->
    f_untyped p || forallb (fun cr => fnexprb (fst cr)) cases = true -> Q (ECase disp cases dflt).
  Hypothesis HCoalesce : forall ms, f_coalesce p = true -> Forall Q ms -> Q (ECoalesce ms).
  Hypothesis HIter : forall es, f_lazy p = true -> Forall Q es -> Q (EIter es).
  Hypothesis HWith : forall force pr e, pr = [] \/ f_presets p = true -> Q e -> Q (EWith force pr e).
  Hypothesis HCached : forall c e, Q e -> Q (ECached c e).
  Hypothesis HCall : forall partial f args kwargs,
    Q f -> Forall Q args -> Forall Q kwargs -> f_untyped p || basefn f = true -> Q (ECall partial f args kwargs).
  Hypothesis HTemplate : forall s ps,
    f_template p = true -> Forall (fun pe => Q (snd pe)) ps -> Q (ETemplate s ps).
  Hypothesis HComp : forall e effs,
    effs = [] \/ f_effects p = true -> Q e -> Forall Q effs -> f_untyped p || forallb fnexprb effs = true -> Q (EComp e effs).
  Hypothesis HLogged : forall e, Q e -> Q (ELogged e).
  Hypothesis HPipe : forall steps, Forall Q steps -> Q (EPipe steps).
  Hypothesis HAll : f_alloptions p = true -> Q EAllOptions.

  Let P (e : expr) : Prop :=
    (fragP p e = true -> Q e) /\
    match e with EIter es => Forall (fun x => fragP p x = true -> Q x) es | _ => True end.

  Lemma P_all l : Forall P l -> forallb (fragP p) l = true -> Forall Q l.
  Proof.
    intros HP Hb. apply (Forall_frag (fun x => x) (fragP p) Q l Hb).
    eapply Forall_impl; [|exact HP]. intros a [Ha _]. exact Ha.
  Qed.
  Lemma P_snd {A} (l : list (A * expr)) :
    Forall (fun ve => P (snd ve)) l -> forallb (fun ve => fragP p (snd ve)) l = true ->
    Forall (fun ve => Q (snd ve)) l.
  Proof.
    intros HP Hb. apply (Forall_frag (fun ve : A * expr => snd ve) (fragP p) Q l Hb).
    eapply Forall_impl; [|exact HP]. intros a [Ha _]. exact Ha.
  Qed.
  Lemma P_opt d : Popt P d -> match d with Some x => fragP p x | None => true end = true -> Popt Q d.
  Proof. destruct d as [x|]; cbn; [|trivial]. intros [Hx _] Hb. now apply Hx. Qed.

  Theorem fragP_ind : forall e, fragP p e = true -> Q e.
  Proof.
    assert (HP : forall e, P e); [|intros e; apply (HP e)].
    induction e using expr_ind'; (split; [|exact I || idtac]); try (intros Hf; cbn [fragP] in Hf).
    - now apply HValue.
    - destruct dflt as [d|].
      + apply andb_prop in Hf as [Hd Hdom]. apply HOption; [apply (proj1 H Hd)|].
        destruct dom; [now apply andb_prop in Hdom|exact I].
      + apply HOption; [exact I|]. destruct dom; [now apply andb_prop in Hf|exact I].
    - destruct IHe1 as [Hs Hes].
      assert (Hgen : fragP p e1 && fragP p e2 && tyfn p e2 = true -> Q (EApply e1 e2)).
      { intros Hb. apply andb_prop in Hb as [Hb Ht]. apply andb_prop in Hb as [H1 H2].
        apply HApply; [now apply Hs|now apply (proj1 IHe2)|exact Ht]. }
      destruct e1; try exact (Hgen Hf).
      destruct (Bool.bool_dec (f_lazy p) true) as [L|L].
      + apply Hgen. cbn [fragP]. rewrite L in *. exact Hf.
      + apply not_true_is_false in L. rewrite L in Hf.
        apply andb_prop in Hf as [Hfc Hes']. clear Hgen.
        assert (HQ : Forall Q es) by (apply (Forall_frag (fun x => x) (fragP p) Q es Hes' Hes)).
        destruct e2 as [v| | | | | | | | | | | | | | | | ]; try discriminate.
        destruct v as [|?|b pre post| |]; try discriminate.
        destruct pre; [|discriminate]. destruct post; [|discriminate].
        cbn [is_forcer] in Hfc. apply HForced; [exact L| |exact HQ].
        apply orb_prop in Hfc as [E|E]; apply N.eqb_eq in E; auto.
    - apply andb_prop in Hf as [Hf Hd]. apply andb_prop in Hf as [Hs Ht].
      apply HBind; [now apply (proj1 IHe)|now apply P_snd| |].
      + destruct dflt as [d|]; [apply (proj1 H0 Hd)|exact I].
      + intros ->. exact Hd.
    - apply andb_prop in Hf as [Hf Hd]. apply andb_prop in Hf as [Hs Ht].
      apply HSwitch; [now apply (proj1 IHe)|now apply P_snd|now apply P_opt].
    - apply andb_prop in Hf as [Hf Hty]. apply andb_prop in Hf as [Hf Hd]. apply andb_prop in Hf as [Hs Ht].
      apply HCase; [now apply (proj1 IHe)| |now apply P_opt|exact Hty].
      clear -H Ht. induction cases as [|[c r] cases IH]; [constructor|].
      cbn [forallb fst snd] in Ht. apply andb_prop in Ht as [Hcr Ht]. apply andb_prop in Hcr as [Hc Hr].
      inversion H; subst. destruct H2 as [[Pc _] [Pr _]]. constructor; [split; auto|now apply IH].
    - apply andb_prop in Hf as [Hc Hm]. apply HCoalesce; [exact Hc|now apply P_all].
    - apply andb_prop in Hf as [Hl Hm]. apply HIter; [exact Hl|now apply P_all].
    - eapply Forall_impl; [|exact H]. intros a [Ha _]. exact Ha.
    - discriminate.
    - apply andb_prop in Hf as [Hp He]. apply HWith; [|now apply (proj1 IHe)].
      destruct p0; [now left|now right].
    - apply HCached. now apply (proj1 IHe).
    - apply andb_prop in Hf as [Hf Hty]. apply andb_prop in Hf as [Hf Hk]. apply andb_prop in Hf as [Hf Ha].
      apply HCall; [now apply (proj1 IHe)|now apply P_all|now apply P_all|exact Hty].
    - apply andb_prop in Hf as [Ht Hps]. apply HTemplate; [exact Ht|now apply P_snd].
    - apply andb_prop in Hf as [Hf Hty]. apply andb_prop in Hf as [Hf Hes]. apply andb_prop in Hf as [He Hfl].
      apply HComp; [|now apply (proj1 IHe)|now apply P_all|exact Hty].
      destruct effects; [now left|now right].
    - apply HLogged. now apply (proj1 IHe).
    - apply HPipe. now apply P_all.
    - now apply HAll.
  Qed.
End FragInd.

(** ** Part 5: the reference instance *)
Lemma vclean_good bad v : vclean v = true -> vgood bad v = true.
Proof.
  unfold vclean. induction v using value_ind'; intros Hc; try reflexivity; cbn [vgood] in *.
  - induction args as [|a args IH]; [reflexivity|]. cbn [forallb] in *.
    apply andb_prop in Hc as [Ha Hr]. inversion H; subst. now rewrite (H2 Ha), IH.
  - apply andb_prop in Hc as [Hp Hq].
    assert (G : forall l, Forall (fun v => vgood (fun _ => true) v = true -> vgood bad v = true) l ->
                forallb (vgood (fun _ => true)) l = true -> forallb (vgood bad) l = true).
    { induction l as [|a l IH]; intros HF Hl; [reflexivity|]. cbn [forallb] in *.
      apply andb_prop in Hl as [Ha Hl]. inversion HF; subst. now rewrite (H3 Ha), IH. }
    now rewrite (G pre H Hp), (G post H0 Hq).
  - discriminate.
Qed.

Lemma res_good_wrapr bad r : res_good bad (wrapr r) <-> res_good bad r.
Proof. destruct r; reflexivity. Qed.

Lemma rs_rd k o : rs (rd unit k o) = Ok (lookup k (JObj o)).
Proof. unfold rd. rewrite rs_bind, rs_emit. reflexivity. Qed.
Lemma rs_emit_reads l o : rs (emit_reads unit l o) = Ok tt.
Proof.
  unfold emit_reads. induction l as [|k l IH]; [reflexivity|].
  rewrite rs_iterM_cons, rs_emit. exact IH.
Qed.

Lemma assoc_v_In {A} x (tbl : list (value * A)) b : assoc_v x tbl = Some b -> exists v, In (v, b) tbl.
Proof.
  unfold assoc_v. induction tbl as [|[v a] tbl IH]; [discriminate|].
  destruct (value_eq x v).
  - intros H. inversion H; subst. exists v. now left.
  - intros H. destruct (IH H) as [v' Hv]. exists v'. now right.
Qed.

Lemma Forall_snd_In {A} (Q : expr -> Prop) (tbl : list (A * expr)) a b :
  Forall (fun ve => Q (snd ve)) tbl -> In (a, b) tbl -> Q b.
Proof. rewrite Forall_forall. intros H Hin. apply (H (a, b) Hin). Qed.

Section Ref.
  Variable u : N -> list value -> cres.
  Variable rfuel : nat.
  Notation ev := (eval unit nc_find nc_store cfg_nc u rfuel (fun _ _ => true)).
  Notation va := (validate unit nc_find nc_store cfg_nc u rfuel (fun _ _ => true)).
  Notation ks := (keys unit nc_find nc_store cfg_nc u rfuel (fun _ _ => true)).
  Notation ex := (explain unit nc_find nc_store cfg_nc u rfuel (fun _ _ => true)).
  Local Notation U l := (l unit nc_find nc_store cfg_nc u rfuel (fun _ _ => true)) (only parsing).
  Notation "x <- m ;; f" := (bind unit m (fun x => f)) (at level 61, m at next level, right associativity).
  Notation "m ;;; f" := (bind unit m (fun _ => f)) (at level 61, right associativity).

  Lemma rs_ev_wrapped e o : wrapr (rs (ev e o)) = rs (ev e o).
  Proof.
    pose proof (eval_is_wrapped unit nc_find nc_store cfg_nc u rfuel (fun _ _ => true) e o tt) as W.
    rewrite <- rs_wrap. unfold rs. now rewrite W.
  Qed.
  Lemma ev_err_ee e o c ee : rs (ev e o) = Err c ee -> ee = true.
  Proof. intros H. pose proof (rs_ev_wrapped e o) as W. rewrite H in W. cbn in W. now inversion W. Qed.

  (** caching is off on the reference instance: a cached node is its body *)
  Lemma ev_cached c e o : ev (ECached c e) o = wrap_eval unit (ev e o).
  Proof. destruct c; reflexivity. Qed.
  Lemma va_cached c e o : va (ECached c e) o = va e o.
  Proof. destruct c; reflexivity. Qed.
  Lemma rs_ev_cached c e o : rs (ev (ECached c e) o) = rs (ev e o).
  Proof. rewrite ev_cached, rs_wrap. apply rs_ev_wrapped. Qed.
  Lemma rs_ev_with f p e o : rs (ev (EWith f p e) o) = rs (ev e (with_opts f p o)).
  Proof. rewrite (U eval_EWith), rs_wrap. apply rs_ev_wrapped. Qed.
  Lemma rs_ev_logged e o : rs (ev (ELogged e) o) = rs (ev e o).
  Proof.
    rewrite (U eval_ELogged), rs_wrap, rs_bind, rs_emit. cbn [bindr]. rewrite rs_bind.
    destruct (_ || _); [rewrite rs_ret|rewrite rs_emit]; cbn [bindr]; apply rs_ev_wrapped.
  Qed.

  (** the loops inside the clauses, named *)
  Definition case_go {A} (x : value) (o : dict) (onres : expr -> MU A) (dm : MU A) : list (expr * expr) -> MU A :=
    fix go (cs : list (expr * expr)) : MU A :=
      match cs with
      | [] => dm
      | (c, r) :: cs' => p <- ev c o ;; b <- call_value unit u p x ;; if truthy b then onres r else go cs'
      end.
  Definition coal_go {A} (o : dict) (act : expr -> MU A) : list expr -> option (cause * bool) -> MU A :=
    fix go (ms : list expr) (last : option (cause * bool)) : MU A :=
      match ms with
      | [] => match last with Some (c, ee) => fail unit c ee | None => fail unit CUnmodelled false end
      | m :: ms' => catch unit (va m o ;;; act m) (fun c ee => if ee then go ms' (Some (c, ee)) else fail unit c ee)
      end.
  Definition iter_go (o : dict) : list expr -> MU (list value) :=
    fix go (es : list expr) : MU (list value) :=
      match es with
      | [] => ret unit []
      | x :: es' => catch unit (v <- ev x o ;;
                                if is_some (deep_err v) then ret unit [v]
                                else vs <- go es' ;; ret unit (v :: vs))
                               (fun c _ => ret unit [VErr c])
      end.
  Definition dflt_or {A} (dflt : option expr) (act : expr -> MU A) (c : cause) (ee : bool) : MU A :=
    match dflt with Some d => act d | None => fail unit c ee end.

  Lemma ev_case disp cases dflt o :
    ev (ECase disp cases dflt) o =
      wrap_eval unit (x <- ev disp o ;; case_go x o (fun r => ev r o) (dflt_or dflt (fun d => ev d o) CCase true) cases).
  Proof. reflexivity. Qed.
  Lemma va_case disp cases dflt o :
    va (ECase disp cases dflt) o =
      va disp o ;;; x <- ev disp o ;; case_go x o (fun r => va r o) (dflt_or dflt (fun d => va d o) CCase true) cases.
  Proof. reflexivity. Qed.
  Lemma ks_case disp cases dflt o :
    ks (ECase disp cases dflt) o =
      a <- ks disp o ;; x <- ev disp o ;;
      b <- case_go x o (fun r => ks r o) (dflt_or dflt (fun d => ks d o) CCase true) cases ;; ret unit (a ++ b).
  Proof. reflexivity. Qed.
  Lemma ex_case disp cases dflt o :
    ex (ECase disp cases dflt) o =
      catch unit (a <- ex disp o ;; x <- ev disp o ;;
                  b <- case_go x o (fun r => ex r o) (dflt_or dflt (fun d => ex d o) CCase true) cases ;; ret unit (a ++ b))
                 (fun c ee => if ee then fail unit CInsuff true else fail unit c ee).
  Proof. reflexivity. Qed.
  Lemma ev_coalesce ms o : ev (ECoalesce ms) o = wrap_eval unit (coal_go o (fun m => ev m o) ms None).
  Proof. reflexivity. Qed.
  Lemma va_coalesce ms o : va (ECoalesce ms) o = coal_go o (fun m => va m o) ms None.
  Proof. reflexivity. Qed.
  Lemma ks_coalesce ms o : ks (ECoalesce ms) o = coal_go o (fun m => ks m o) ms None.
  Proof. reflexivity. Qed.
  Lemma ev_iter es o : ev (EIter es) o = wrap_eval unit (vs <- iter_go o es ;; ret unit (VT T_ITER vs)).
  Proof. reflexivity. Qed.

  (** which case a CaseWhen takes: the same computation in all four interpreters *)
  Fixpoint case_sel (x : value) (o : dict) (cs : list (expr * expr)) : res (option expr) :=
    match cs with
    | [] => Ok None
    | (c, r) :: cs' =>
        bindr (rs (ev c o)) (fun p => bindr (rs (call_value unit u p x)) (fun b =>
          if truthy b then Ok (Some r) else case_sel x o cs'))
    end.
  Lemma rs_case_go A x o (onres : expr -> MU A) dm cs :
    rs (case_go x o onres dm cs) =
      bindr (case_sel x o cs) (fun s => match s with Some r => rs (onres r) | None => rs dm end).
  Proof.
    induction cs as [|[c r] cs IH]; [reflexivity|].
    cbn [case_go case_sel]. rewrite rs_bind. destruct (rs (ev c o)) as [p|]; cbn [bindr]; [|reflexivity].
    rewrite rs_bind. destruct (rs (call_value unit u p x)) as [b|]; cbn [bindr]; [|reflexivity].
    destruct (truthy b); [reflexivity|exact IH].
  Qed.
  Lemma case_sel_In x o cs r : case_sel x o cs = Ok (Some r) -> exists c, In (c, r) cs.
  Proof.
    induction cs as [|[c r'] cs IH]; [discriminate|]. cbn [case_sel].
    destruct (rs (ev c o)) as [p|]; cbn [bindr]; [|discriminate].
    destruct (rs (call_value unit u p x)) as [b|]; cbn [bindr]; [|discriminate].
    destruct (truthy b).
    - intros H. inversion H; subst. exists c. now left.
    - intros H. destruct (IH H) as [c' Hc]. exists c'. now right.
  Qed.
  Lemma rs_dflt_or A dflt (act : expr -> MU A) c ee :
    rs (dflt_or dflt act c ee) = match dflt with Some d => rs (act d) | None => Err c ee end.
  Proof. destruct dflt; reflexivity. Qed.

  Lemma rs_coal_nil A o (act : expr -> MU A) last :
    rs (coal_go o act [] last) = match last with Some (c, ee) => Err c ee | None => Err CUnmodelled false end.
  Proof. destruct last as [[c ee]|]; reflexivity. Qed.
  Lemma rs_coal_cons A o (act : expr -> MU A) m ms last :
    rs (coal_go o act (m :: ms) last) =
      catchr (bindr (rs (va m o)) (fun _ => rs (act m)))
             (fun c ee => if ee then rs (coal_go o act ms (Some (c, ee))) else Err c ee).
  Proof.
    cbn [coal_go]. rewrite rs_catch, rs_bind. destruct (bindr _ _) as [a|c ee]; cbn [catchr]; [reflexivity|].
    destruct (unmodb c); [reflexivity|]. destruct ee; reflexivity.
  Qed.
  Lemma rs_iter_cons o x es :
    rs (iter_go o (x :: es)) =
      catchr (bindr (rs (ev x o)) (fun v => if is_some (deep_err v) then Ok [v]
                                            else bindr (rs (iter_go o es)) (fun vs => Ok (v :: vs))))
             (fun c _ => Ok [VErr c]).
  Proof.
    cbn [iter_go]. rewrite rs_catch, rs_bind.
    destruct (rs (ev x o)) as [v|c ee]; cbn [bindr]; [|reflexivity].
    destruct (is_some (deep_err v)); [reflexivity|]. rewrite rs_bind.
    destruct (rs (iter_go o es)); reflexivity.
  Qed.

  Lemma iterM_ok_Forall A (f : A -> MU unit) l :
    rs (iterM unit f l) = Ok tt <-> Forall (fun a => rs (f a) = Ok tt) l.
  Proof.
    induction l as [|a l IH]; [split; [constructor|reflexivity]|].
    rewrite rs_iterM_cons. split.
    - intros H. apply bindr_ok in H as [[] [Ha Hl]]. constructor; [exact Ha|now apply IH].
    - intros H. inversion H; subst. rewrite H2. cbn [bindr]. now apply IH.
  Qed.
  Lemma iterM_err_Exists A (f : A -> MU unit) l c ee :
    rs (iterM unit f l) = Err c ee -> Exists (fun a => rs (f a) = Err c ee) l.
  Proof.
    induction l as [|a l IH]; [discriminate|]. rewrite rs_iterM_cons. intros H.
    apply bindr_err in H as [H|[[] [_ H]]]; [now left|right; now apply IH].
  Qed.

  (** [Option.evaluate], result level *)
  Definition dom_check (dom : option expr) (o : dict) (v : value) : res value :=
    match dom with
    | None => Ok v
    | Some de => bindr (rs (ev de o)) (fun d => bindr (rs (in_domain unit u d v)) (fun _ => Ok v))
    end.
  Lemma rs_dom_tail dom o v :
    rs (match dom with
        | None => ret unit v
        | Some de => d <- ev de o ;; in_domain unit u d v ;;; ret unit v
        end) = dom_check dom o v.
  Proof.
    destruct dom as [de|]; [|reflexivity]. cbn [dom_check]. rewrite rs_bind.
    destruct (rs (ev de o)) as [d|]; cbn [bindr]; [|reflexivity]. rewrite rs_bind.
    destruct (rs (in_domain unit u d v)); reflexivity.
  Qed.
  Lemma rs_option_eval k dflt dom o :
    rs (option_eval unit u rfuel (fun x => ev x o) k dflt dom o) =
      match lookup k (JObj o) with
      | TypeErr => Err CType false
      | Absent => match dflt with
                  | None => Err (CKey k) true
                  | Some d => bindr (rs (ev d o)) (dom_check dom o)
                  end
      | Found raw => bindr (rs (of_rres unit (resolve rfuel o raw))) (fun j => dom_check dom o (VJ j))
      end.
  Proof.
    unfold option_eval. rewrite rs_bind, rs_rd. cbn [bindr]. rewrite rs_bind.
    destruct (lookup k (JObj o)) as [raw| |]; [| |reflexivity].
    - rewrite rs_bind, rs_emit_reads. cbn [bindr]. rewrite rs_bind.
      destruct (rs (of_rres unit (resolve rfuel o raw))) as [j|]; cbn [bindr]; [|reflexivity].
      apply rs_dom_tail.
    - destruct dflt as [d|]; [|reflexivity].
      destruct (rs (ev d o)) as [v|]; cbn [bindr]; [|reflexivity]. apply rs_dom_tail.
  Qed.
  Lemma rs_va_option k dflt dom o :
    rs (va (EOption k dflt dom) o) =
      match lookup k (JObj o) with
      | TypeErr => Err CType false
      | Found _ => bindr (rs (ev (EOption k dflt dom) o)) (fun _ => Ok tt)
      | Absent => match dflt with Some d => rs (va d o) | None => Err (CKey k) true end
      end.
  Proof.
    rewrite (U validate_EOption), rs_bind, rs_rd. cbn [bindr].
    destruct (lookup k (JObj o)); [|destruct dflt; reflexivity|reflexivity].
    rewrite rs_bind. rewrite (U eval_EOption). destruct (rs (wrap_eval unit _)); reflexivity.
  Qed.
  Lemma rs_ev_option k dflt dom o :
    rs (ev (EOption k dflt dom) o) = wrapr (rs (option_eval unit u rfuel (fun x => ev x o) k dflt dom o)).
  Proof. rewrite (U eval_EOption). apply rs_wrap. Qed.

  Lemma dom_check_value dom o v w : dom_check dom o v = Ok w -> w = v.
  Proof.
    destruct dom as [de|]; cbn [dom_check]; [|intros H; now inversion H].
    intros H. apply bindr_ok in H as [d [_ H]]. apply bindr_ok in H as [[] [_ H]]. now inversion H.
  Qed.

  Section Guard.
    Variable bad : cause -> bool.
    Hypothesis Hu_ok : forall f args v, vsgood bad args = true -> u f args = COk v -> vgood bad v = true.
    Hypothesis Hbad_type : bad CType = false.
    Hypothesis Hbad_unmod : bad CUnmodelled = false.
    Hypothesis Hu_raise : forall f args n, u f args = CRaise n -> bad (CUser n) = false.
    Notation rg := (res_good bad).

    Definition guardQ (e : expr) : Prop := forall o, rs (va e o) = Ok tt -> rg (rs (ev e o)).

    Lemma guard_value v : vclean v = true -> guardQ (EValue v).
    Proof. intros Hc o _. rewrite (U eval_EValue), rs_wrap, rs_ret. now apply vclean_good. Qed.

    Lemma guard_option k dflt dom :
      Popt guardQ dflt ->
      match dflt, dom with Some _, Some _ => False | _, _ => True end ->
      guardQ (EOption k dflt dom).
    Proof.
      intros Hd Hc o. rewrite rs_va_option, rs_ev_option, rs_option_eval.
      destruct (lookup k (JObj o)) as [raw| |]; [| |discriminate].
      - intros H. apply bindr_ok in H as [v [H _]]. apply (proj1 (wrapr_ok _ _ _)) in H. rewrite H. cbn.
        apply bindr_ok in H as [j [_ H]]. apply dom_check_value in H. now subst.
      - destruct dflt as [d|]; [|discriminate]. destruct dom; [destruct Hc|].
        intros H. specialize (Hd o H). apply res_good_wrapr.
        destruct (rs (ev d o)); exact Hd.
    Qed.

    Lemma guard_apply src fn : guardQ src -> guardQ fn -> guardQ (EApply src fn).
    Proof.
      intros Hs Hf o. rewrite (U validate_EApply), rs_bind. intros H.
      apply bindr_ok in H as [[] [H1 H2]]. specialize (Hs o H1). specialize (Hf o H2).
      rewrite (U eval_EApply), rs_wrap. apply res_good_wrapr. rewrite rs_bind.
      destruct (rs (ev src o)) as [x|]; cbn [bindr]; [|exact Hs]. rewrite rs_bind.
      destruct (rs (ev fn o)) as [f|]; cbn [bindr]; [|exact Hf].
      apply (call_value_good bad u Hu_ok Hbad_type Hu_raise f x Hf Hs).
    Qed.

    Lemma guard_bind src tbl dflt :
      Forall (fun ve => guardQ (snd ve)) tbl -> Popt guardQ dflt -> guardQ (EBind src tbl dflt).
    Proof.
      intros Ht Hd o. rewrite (U validate_EBind), rs_bind. intros H.
      apply bindr_ok in H as [[] [_ H]]. rewrite rs_bind in H. apply bindr_ok in H as [x [Hx H]].
      rewrite pick_assoc in H. rewrite (U eval_EBind), rs_wrap. apply res_good_wrapr.
      rewrite rs_bind, Hx. cbn [bindr]. rewrite pick_assoc.
      destruct (assoc_v x tbl) as [b|] eqn:E.
      - destruct (assoc_v_In _ _ _ E) as [v Hin]. apply (Forall_snd_In guardQ tbl v b Ht Hin o H).
      - destruct dflt as [d|]; [apply (Hd o H)|discriminate].
    Qed.

    Lemma guard_switch disp tbl dflt :
      Forall (fun ve => guardQ (snd ve)) tbl -> Popt guardQ dflt -> guardQ (ESwitch disp tbl dflt).
    Proof.
      intros Ht Hd o. rewrite (U validate_ESwitch), rs_bind. intros H.
      apply bindr_ok in H as [dv [Hdv H]].
      rewrite (U eval_ESwitch), rs_wrap. apply res_good_wrapr. rewrite rs_bind, Hdv. cbn [bindr].
      destruct dv as [k|].
      - destruct (negb (hashable k)); [discriminate|]. rewrite pick_assoc in H. rewrite pick_assoc.
        destruct (assoc_v k tbl) as [b|] eqn:E.
        + destruct (assoc_v_In _ _ _ E) as [v Hin]. apply (Forall_snd_In guardQ tbl v b Ht Hin o H).
        + destruct dflt as [d|]; [apply (Hd o H)|discriminate].
      - destruct dflt as [d|]; [apply (Hd o H)|discriminate].
    Qed.

    Lemma guard_case disp cases dflt :
      Forall (fun cr => guardQ (fst cr) /\ guardQ (snd cr)) cases -> Popt guardQ dflt ->
      guardQ (ECase disp cases dflt).
    Proof.
      intros Hc Hd o. rewrite va_case, rs_bind. intros H.
      apply bindr_ok in H as [[] [_ H]]. rewrite rs_bind in H. apply bindr_ok in H as [x [Hx H]].
      rewrite rs_case_go in H. apply bindr_ok in H as [s [Hs H]].
      rewrite ev_case, rs_wrap. apply res_good_wrapr. rewrite rs_bind, Hx. cbn [bindr].
      rewrite rs_case_go, Hs. cbn [bindr]. destruct s as [r|].
      - destruct (case_sel_In _ _ _ _ Hs) as [c Hin]. rewrite Forall_forall in Hc.
        apply (proj2 (Hc (c, r) Hin) o H).
      - rewrite rs_dflt_or in *. destruct dflt as [d|]; [apply (Hd o H)|discriminate].
    Qed.

    Lemma iter_guard o es :
      Forall guardQ es -> Forall (fun x => rs (va x o) = Ok tt) es ->
      match rs (iter_go o es) with Ok vs => vsgood bad vs = true | Err c _ => bad c = false end.
    Proof.
      induction es as [|x es IH]; intros HQ HV; [reflexivity|].
      inversion HQ; subst. inversion HV; subst. specialize (IH H2 H4). specialize (H1 o H3).
      rewrite rs_iter_cons. destruct (rs (ev x o)) as [v|c ee]; cbn [bindr res_good] in *.
      - destruct (is_some (deep_err v)); cbn [catchr].
        + unfold vsgood. cbn. now rewrite H1.
        + destruct (rs (iter_go o es)) as [vs|c ee]; cbn [bindr catchr].
          * unfold vsgood in *. cbn [forallb]. now rewrite H1, IH.
          * destruct (unmodb c); [exact IH|]. unfold vsgood. cbn. now rewrite IH.
      - cbn [catchr]. destruct (unmodb c); [exact H1|]. unfold vsgood. cbn. now rewrite H1.
    Qed.

    Lemma guard_iter es : Forall guardQ es -> guardQ (EIter es).
    Proof.
      intros HQ o. rewrite (U validate_EIter). intros H. apply iterM_ok_Forall in H.
      pose proof (iter_guard o es HQ H) as G.
      rewrite ev_iter, rs_wrap. apply res_good_wrapr. rewrite rs_bind.
      destruct (rs (iter_go o es)) as [vs|c ee]; cbn [bindr]; [|exact G]. exact G.
    Qed.

    Lemma guard_with force pr e : guardQ e -> guardQ (EWith force pr e).
    Proof. intros He o H. rewrite (U validate_EWith) in H. rewrite rs_ev_with. apply (He _ H). Qed.
    Lemma guard_cached c e : guardQ e -> guardQ (ECached c e).
    Proof. intros He o H. rewrite va_cached in H. rewrite rs_ev_cached. apply (He _ H). Qed.
    Lemma guard_logged e : guardQ e -> guardQ (ELogged e).
    Proof. intros He o H. rewrite (U validate_ELogged) in H. rewrite rs_ev_logged. apply (He _ H). Qed.

    Lemma mapM_guard o es :
      Forall guardQ es -> Forall (fun x => rs (va x o) = Ok tt) es ->
      match rs (mapM unit (fun x => ev x o) es) with Ok vs => vsgood bad vs = true | Err c _ => bad c = false end.
    Proof.
      induction es as [|x es IH]; intros HQ HV; [reflexivity|].
      inversion HQ; subst. inversion HV; subst. specialize (IH H2 H4). specialize (H1 o H3).
      rewrite rs_mapM_cons. destruct (rs (ev x o)) as [v|c ee]; cbn [bindr res_good] in *; [|exact H1].
      destruct (rs (mapM unit _ es)) as [vs|c ee]; cbn [bindr]; [|exact IH].
      unfold vsgood in *. cbn [forallb]. now rewrite H1, IH.
    Qed.

    Lemma guard_call partial f args kwargs :
      guardQ f -> Forall guardQ args -> Forall guardQ kwargs -> guardQ (ECall partial f args kwargs).
    Proof.
      intros Hf Ha Hk o. rewrite (U validate_ECall), rs_bind. intros H.
      apply bindr_ok in H as [[] [H1 H]]. rewrite rs_bind in H. apply bindr_ok in H as [[] [H2 H3]].
      apply iterM_ok_Forall in H2. apply iterM_ok_Forall in H3.
      specialize (Hf o H1). pose proof (mapM_guard o args Ha H2) as Ga. pose proof (mapM_guard o kwargs Hk H3) as Gk.
      rewrite (U eval_ECall), rs_wrap. apply res_good_wrapr. rewrite rs_bind.
      destruct (rs (ev f o)) as [fv|]; cbn [bindr res_good] in *; [|exact Hf]. rewrite rs_bind.
      destruct (rs (mapM unit _ args)) as [av|]; cbn [bindr]; [|exact Ga]. rewrite rs_bind.
      destruct (rs (mapM unit _ kwargs)) as [kv|]; cbn [bindr]; [|exact Gk].
      destruct partial.
      - destruct fv; try exact Hbad_unmod. rewrite rs_ret. cbn [res_good vgood] in *.
        apply andb_prop in Hf as [Hp Hq]. fold (vsgood bad (pre ++ av)). fold (vsgood bad (post ++ kv)).
        rewrite !vsgood_app. unfold vsgood in *. now rewrite Hp, Hq, Ga, Gk.
      - apply (call_value_n_good bad u Hu_ok Hbad_type Hu_raise fv (av ++ kv) Hf).
        rewrite vsgood_app. now rewrite Ga, Gk.
    Qed.

    Lemma guard_pipe steps : Forall guardQ steps -> guardQ (EPipe steps).
    Proof.
      intros Hs o. rewrite (U validate_EPipe). intros H. apply iterM_ok_Forall in H.
      pose proof (mapM_guard o steps Hs H) as G.
      rewrite (U eval_EPipe), rs_wrap. apply res_good_wrapr. rewrite rs_bind.
      destruct (rs (mapM unit _ steps)) as [fs|]; cbn [bindr]; [|exact G].
      rewrite rs_ret. cbn [res_good vgood forallb]. rewrite andb_true_r. now apply vsgood_rev.
    Qed.

    Lemma effects_guard o v effs :
      vgood bad v = true -> Forall guardQ effs -> Forall (fun x => rs (va x o) = Ok tt) effs ->
      match rs (iterM unit (fun eff => f <- ev eff o ;; call_value unit u f v ;;; ret unit tt) effs) with
      | Ok _ => True | Err c _ => bad c = false end.
    Proof.
      intros Hv. induction effs as [|x effs IH]; intros HQ HV; [exact I|].
      inversion HQ; subst. inversion HV; subst. specialize (IH H2 H4). specialize (H1 o H3).
      rewrite rs_iterM_cons, rs_bind.
      destruct (rs (ev x o)) as [f|c ee]; cbn [bindr res_good] in *; [|exact H1].
      rewrite rs_bind. pose proof (call_value_good bad u Hu_ok Hbad_type Hu_raise f v H1 Hv) as G.
      destruct (rs (call_value unit u f v)) as [w|c ee]; cbn [bindr res_good] in *; [|exact G].
      rewrite rs_ret. cbn [bindr]. exact IH.
    Qed.

    Lemma guard_comp e effs : guardQ e -> Forall guardQ effs -> guardQ (EComp e effs).
    Proof.
      intros He Hf o. rewrite (U validate_EComp), rs_bind. intros H.
      apply bindr_ok in H as [[] [H1 H]]. specialize (He o H1).
      rewrite (U eval_EComp), rs_wrap. apply res_good_wrapr. rewrite rs_bind.
      destruct (rs (ev e o)) as [v|]; cbn [bindr res_good] in *; [|exact He]. rewrite rs_bind.
      destruct (effects_opt_off o).
      - rewrite rs_ret. cbn [bindr]. rewrite rs_ret. exact He.
      - apply iterM_ok_Forall in H. pose proof (effects_guard o v effs He Hf H) as G.
        destruct (rs (iterM unit _ effs)); cbn [bindr]; [rewrite rs_ret; exact He|exact G].
    Qed.

    Lemma guard_all : guardQ EAllOptions.
    Proof.
      intros o. rewrite (U validate_EAllOptions), rs_bind. intros H.
      apply bindr_ok in H as [v [H _]]. rewrite (U eval_EAllOptions), H. cbn [res_good].
      rewrite rs_wrap in H. apply (proj1 (wrapr_ok _ _ _)) in H. unfold all_options_eval in H.
      rewrite rs_bind, rs_emit in H. cbn [bindr] in H. rewrite rs_bind in H.
      apply bindr_ok in H as [j [_ H]]. rewrite rs_ret in H. now inversion H.
    Qed.

    (** the fragment of the guard theorem: everything except Coalesce (finding D20), Template,
        Map, and an Option that has both a default and a domain (finding D4) *)
    Definition pG : fopts :=
      {| f_coalesce := false; f_lazy := true; f_template := false; f_effects := true; f_dom := true;
         f_domdflt := false; f_presets := true; f_partialbind := true; f_alloptions := true; f_domexpr := true; f_untyped := true |}.

    Theorem guard_main e : fragP pG e = true -> guardQ e.
    Proof.
      apply (fragP_ind pG guardQ).
      - exact guard_value.
      - intros k dflt dom Hd Hc. apply guard_option; [exact Hd|].
        destruct dflt, dom; try exact I. destruct Hc as [Hc _]. discriminate Hc.
      - intros src fn Hs Hf _. now apply guard_apply.
      - intros es b Hl. discriminate Hl.
      - intros src tbl dflt _ Ht Hd _. now apply guard_bind.
      - intros disp tbl dflt _ Ht Hd. now apply guard_switch.
      - intros disp cases dflt _ Hc Hd _. now apply guard_case.
      - intros ms Hc. discriminate Hc.
      - intros es _. apply guard_iter.
      - intros force pr e0 _. apply guard_with.
      - exact guard_cached.
      - intros pa f args kwargs Hf Ha Hk _. now apply guard_call.
      - intros s ps Ht. discriminate Ht.
      - intros e0 effs _ He Hf _. now apply guard_comp.
      - exact guard_logged.
      - exact guard_pipe.
      - intros _. exact guard_all.
    Qed.
  End Guard.
End Ref.

(** ** Part 6: the statements of C10 on the observed reference functions ([validate_nc], [keys_nc],
    [eval_nc]: the result with every lazily evaluated iterable consumed, as the harness observes). *)
Definition is_key (c : cause) : bool := match c with CKey _ => true | _ => false end.

Lemma validate_nc_rs u fuel e o :
  fst (validate_nc u fuel e o) = rs (validate unit nc_find nc_store cfg_nc u fuel (fun _ _ => true) e o).
Proof. unfold validate_nc, rs. destruct (validate _ _ _ _ _ _ _ e o tt) as [[r s] l]. reflexivity. Qed.
Lemma keys_nc_rs u fuel e o :
  fst (keys_nc u fuel e o) = rs (keys unit nc_find nc_store cfg_nc u fuel (fun _ _ => true) e o).
Proof. unfold keys_nc, rs. destruct (keys _ _ _ _ _ _ _ e o tt) as [[r s] l]. reflexivity. Qed.
Lemma explain_nc_rs u fuel e o :
  fst (explain_nc u fuel e o) = rs (explain unit nc_find nc_store cfg_nc u fuel (fun _ _ => true) e o).
Proof. unfold explain_nc, rs. destruct (explain _ _ _ _ _ _ _ e o tt) as [[r s] l]. reflexivity. Qed.

Definition consume (r : res value) : res value :=
  match r with
  | Ok v => match deep_err v with Some c => Err c true | None => r end
  | _ => r
  end.
Lemma eval_nc_rs u fuel e o :
  fst (eval_nc u fuel e o) = consume (rs (eval unit nc_find nc_store cfg_nc u fuel (fun _ _ => true) e o)).
Proof. unfold eval_nc, rs, consume. destruct (eval _ _ _ _ _ _ _ e o tt) as [[r s] l]. reflexivity. Qed.

(** user code does not fabricate deferred missing-option failures: a result holds one only if an
    argument did *)
Definition no_fabricated_missing (u : N -> list value -> cres) : Prop :=
  forall f args v, vsgood is_key args = true -> u f args = COk v -> vgood is_key v = true.

Theorem validate_guards_missing_nc u fuel e o :
  no_fabricated_missing u -> fragP pG e = true ->
  fst (validate_nc u fuel e o) = Ok tt ->
  forall c ee, fst (eval_nc u fuel e o) = Err c ee -> is_key c = false.
Proof.
  intros Hu Hf Hv c ee He. rewrite validate_nc_rs in Hv. rewrite eval_nc_rs in He.
  pose proof (guard_main u fuel is_key Hu eq_refl eq_refl (fun _ _ _ _ => eq_refl) e Hf o Hv) as G.
  destruct (rs (eval _ _ _ _ _ _ _ e o)) as [v|c0 ee0]; cbn [consume res_good] in *.
  - destruct (deep_err v) eqn:D; [|discriminate]. inversion He; subst.
    apply (deep_err_good is_key v G _ D).
  - inversion He; subst. exact G.
Qed.

(** *** witnesses of the recorded findings (closed terms, decided by computation) *)
Definition kA : key := [SName 10]. Definition kB : key := [SName 11].
Definition kP : key := [SName 13]. Definition kQ : key := [SName 14].
Definition str_b : json := JStr [TLit 98].
(** a body that raises when some argument is the string "b", and returns None otherwise *)
Definition u_partial (f : N) (args : list value) : cres :=
  if existsb (fun a => value_eq a (VJ str_b)) args then CRaise 1 else COk (VJ JNull).
(** a total body *)
Definition u_total (f : N) (args : list value) : cres := COk (VJ JNull).

Lemma u_partial_no_fabrication : no_fabricated_missing u_partial.
Proof. intros f args v _ H. unfold u_partial in H. destruct (existsb _ args); inversion H. reflexivity. Qed.
Lemma u_total_no_fabrication : no_fabricated_missing u_total.
Proof. intros f args v _ H. inversion H. reflexivity. Qed.

(** D20: Coalesce(f(a=Option('A')), Option('Q')), f raises for "b", on {'A': 'b'} *)
Definition d20_expr : expr := ECoalesce [body 100 [EOption kA None None]; EOption kQ None None].
Definition d20_opts : dict := [(SName 10, str_b)].
(** D4: Option('A', default=1, domain=Option('P')) on {} *)
Definition d4_expr : expr := EOption kA (Some (EValue (VJ (JInt 1)))) (Some (EOption kP None None)).

(** ** Part 7: result-level combinators and one result-level equation per (interpreter,
    constructor) for validate / keys / explain on the reference instance. *)
Fixpoint unionr {A} (f : A -> res (list key)) (l : list A) : res (list key) :=
  match l with
  | [] => Ok []
  | a :: l' => bindr (f a) (fun x => bindr (unionr f l') (fun y => Ok (x ++ y)))
  end.
Fixpoint iterr {A} (f : A -> res unit) (l : list A) : res unit :=
  match l with
  | [] => Ok tt
  | a :: l' => bindr (f a) (fun _ => iterr f l')
  end.
Fixpoint mapr {A B} (f : A -> res B) (l : list A) : res (list B) :=
  match l with
  | [] => Ok []
  | a :: l' => bindr (f a) (fun x => bindr (mapr f l') (fun y => Ok (x :: y)))
  end.
Definition pickr {A} (x : value) (tbl : list (value * expr)) (g : expr -> res A) (miss : res A) : res A :=
  match assoc_v x tbl with Some b => g b | None => miss end.
Definition dfltr {A} (dflt : option expr) (g : expr -> res A) (c : cause) (ee : bool) : res A :=
  match dflt with Some d => g d | None => Err c ee end.
Definition dispr (r : res value) (hd : bool) : res (option value) :=
  catchr (bindr r (fun k => Ok (Some k))) (fun c ee => if ee && hd then Ok None else Err c ee).
Definition insuffh {A} (c : cause) (ee : bool) : res A := if ee then Err CInsuff true else Err c ee.
Fixpoint coalr {A} (v : expr -> res unit) (act : expr -> res A) (ms : list expr) (last : option (cause * bool)) : res A :=
  match ms with
  | [] => match last with Some (c, ee) => Err c ee | None => Err CUnmodelled false end
  | m :: ms' => catchr (bindr (v m) (fun _ => act m))
                       (fun c ee => if ee then coalr v act ms' (Some (c, ee)) else Err c ee)
  end.
Fixpoint lastr {A} (act : expr -> res A) (ms : list expr) : res A :=
  match ms with
  | [] => Err CUnmodelled false
  | [m] => act m
  | _ :: ms' => lastr act ms'
  end.

Lemma rs_bind_ext A B (m : MU A) (f : A -> MU B) g :
  (forall a, rs (f a) = g a) -> rs (bind unit m f) = bindr (rs m) g.
Proof. intros H. rewrite rs_bind. destruct (rs m); cbn [bindr]; [apply H|reflexivity]. Qed.
Lemma rs_catch_ext A (m : MU A) h r g :
  rs m = r -> (forall c ee, rs (h c ee) = g c ee) -> rs (catch unit m h) = catchr r g.
Proof.
  intros <- H. rewrite rs_catch. destruct (rs m) as [a|c ee]; cbn [catchr]; [reflexivity|].
  destruct (unmodb c); [reflexivity|apply H].
Qed.
Lemma rs_wrap_ext A (m : MU A) r : rs m = r -> rs (wrap_eval unit m) = wrapr r.
Proof. intros <-. apply rs_wrap. Qed.
Lemma rs_unionM_ext A (f : A -> MU (list key)) g l :
  (forall a, rs (f a) = g a) -> rs (unionM unit f l) = unionr g l.
Proof.
  intros H. induction l as [|a l IH]; [reflexivity|].
  rewrite rs_unionM_cons. cbn [unionr]. now rewrite H, IH.
Qed.
Lemma rs_iterM_ext A (f : A -> MU unit) g l :
  (forall a, rs (f a) = g a) -> rs (iterM unit f l) = iterr g l.
Proof.
  intros H. induction l as [|a l IH]; [reflexivity|].
  rewrite rs_iterM_cons. cbn [iterr]. rewrite H. destruct (g a); cbn [bindr]; [exact IH|reflexivity].
Qed.
Lemma rs_mapM_ext A B (f : A -> MU B) g l :
  (forall a, rs (f a) = g a) -> rs (mapM unit f l) = mapr g l.
Proof.
  intros H. induction l as [|a l IH]; [reflexivity|].
  rewrite rs_mapM_cons. cbn [mapr]. now rewrite H, IH.
Qed.
Lemma rs_pick_ext A x tbl (onhit : expr -> MU A) onmiss g miss :
  (forall b, rs (onhit b) = g b) -> rs onmiss = miss ->
  rs (pick x onhit onmiss tbl) = pickr x tbl g miss.
Proof. intros H1 H2. rewrite pick_assoc. unfold pickr. destruct (assoc_v x tbl); auto. Qed.
Lemma rs_dispatch (m : MU value) hd : rs (dispatch_value unit m hd) = dispr (rs m) hd.
Proof.
  unfold dispatch_value, dispr. apply rs_catch_ext.
  - apply rs_bind_ext. reflexivity.
  - intros c ee. destruct (ee && hd); reflexivity.
Qed.

(** inversion of the list combinators *)
Lemma unionr_ok {A} (f : A -> res (list key)) l K :
  unionr f l = Ok K -> forall a, In a l -> exists Ka, f a = Ok Ka /\ incl Ka K.
Proof.
  revert K. induction l as [|b l IH]; intros K H a Ha; [destruct Ha|].
  cbn [unionr] in H. apply bindr_ok in H as [x [Hx H]]. apply bindr_ok in H as [y [Hy H]].
  inversion H; subst. destruct Ha as [<-|Ha].
  - exists x. split; [exact Hx|]. apply incl_appl, incl_refl.
  - destruct (IH y Hy a Ha) as [Ka [E I]]. exists Ka. split; [exact E|]. now apply incl_appr.
Qed.
Lemma unionr_ok_in {A} (f : A -> res (list key)) l K k :
  unionr f l = Ok K -> In k K -> exists a Ka, In a l /\ f a = Ok Ka /\ In k Ka.
Proof.
  revert K. induction l as [|b l IH]; intros K H Hk.
  - inversion H; subst. destruct Hk.
  - cbn [unionr] in H. apply bindr_ok in H as [x [Hx H]]. apply bindr_ok in H as [y [Hy H]].
    inversion H; subst. apply in_app_or in Hk as [Hk|Hk].
    + exists b, x. split; [now left|auto].
    + destruct (IH y Hy Hk) as [a [Ka [Ha [E I]]]]. exists a, Ka. split; [now right|auto].
Qed.
Lemma unionr_err {A} (f : A -> res (list key)) l c ee :
  unionr f l = Err c ee -> exists a, In a l /\ f a = Err c ee.
Proof.
  induction l as [|b l IH]; [discriminate|]. cbn [unionr]. intros H.
  apply bindr_err in H as [H|[x [_ H]]]; [exists b; split; [now left|exact H]|].
  apply bindr_err in H as [H|[y [_ H]]]; [|discriminate].
  destruct (IH H) as [a [Ha E]]. exists a. split; [now right|exact E].
Qed.
Lemma unionr_all_ok {A} (f : A -> res (list key)) l :
  (forall a, In a l -> exists Ka, f a = Ok Ka) -> exists K, unionr f l = Ok K.
Proof.
  induction l as [|b l IH]; intros H; [now exists []|].
  destruct (H b (or_introl eq_refl)) as [x Hx]. destruct IH as [y Hy]; [intros a Ha; apply H; now right|].
  exists (x ++ y). cbn [unionr]. now rewrite Hx, Hy.
Qed.
Lemma iterr_ok {A} (f : A -> res unit) l : iterr f l = Ok tt <-> forall a, In a l -> f a = Ok tt.
Proof.
  induction l as [|b l IH]; [split; [intros _ a []|reflexivity]|]. cbn [iterr]. split.
  - intros H a [<-|Ha]; apply bindr_ok in H as [[] [Hb H]]; [exact Hb|now apply IH].
  - intros H. rewrite (H b (or_introl eq_refl)). cbn [bindr]. apply IH. intros a Ha. apply H. now right.
Qed.
Lemma iterr_err {A} (f : A -> res unit) l c ee :
  iterr f l = Err c ee -> exists a, In a l /\ f a = Err c ee.
Proof.
  induction l as [|b l IH]; [discriminate|]. cbn [iterr]. intros H.
  apply bindr_err in H as [H|[[] [_ H]]]; [exists b; split; [now left|exact H]|].
  destruct (IH H) as [a [Ha E]]. exists a. split; [now right|exact E].
Qed.
(** the first failing element: everything before it succeeds *)
Lemma iterr_err_first {A} (f : A -> res unit) l c ee :
  iterr f l = Err c ee -> exists pre a post, l = pre ++ a :: post /\ (forall b, In b pre -> f b = Ok tt) /\ f a = Err c ee.
Proof.
  induction l as [|b l IH]; [discriminate|]. cbn [iterr]. intros H.
  apply bindr_err in H as [H|[[] [Hb H]]].
  - exists [], b, l. split; [reflexivity|]. split; [intros ? []|exact H].
  - destruct (IH H) as [pre [a [post [-> [Hp Ha]]]]]. exists (b :: pre), a, post.
    split; [reflexivity|]. split; [|exact Ha]. intros x [<-|Hx]; auto.
Qed.
Lemma mapr_err {A B} (f : A -> res B) l c ee :
  mapr f l = Err c ee -> exists a, In a l /\ f a = Err c ee.
Proof.
  induction l as [|b l IH]; [discriminate|]. cbn [mapr]. intros H.
  apply bindr_err in H as [H|[x [_ H]]]; [exists b; split; [now left|exact H]|].
  apply bindr_err in H as [H|[y [_ H]]]; [|discriminate].
  destruct (IH H) as [a [Ha E]]. exists a. split; [now right|exact E].
Qed.
Lemma catchr_ok {A} (r : res A) h a : catchr r h = Ok a -> r = Ok a \/ exists c ee, r = Err c ee /\ unmodb c = false /\ h c ee = Ok a.
Proof.
  destruct r as [x|c ee]; cbn [catchr]; [intros H; now left|].
  destruct (unmodb c) eqn:U; [discriminate|]. intros H. right. now exists c, ee.
Qed.
Lemma catchr_err {A} (r : res A) h c ee :
  catchr r h = Err c ee ->
  (r = Err c ee /\ unmodb c = true) \/ exists c0 ee0, r = Err c0 ee0 /\ unmodb c0 = false /\ h c0 ee0 = Err c ee.
Proof.
  destruct r as [x|c0 ee0]; cbn [catchr]; [discriminate|].
  destruct (unmodb c0) eqn:U.
  - intros H. inversion H; subst. now left.
  - intros H. right. now exists c0, ee0.
Qed.

Lemma rs_bind_ext2 A B (m : MU A) (f : A -> MU B) r g :
  rs m = r -> (forall a, rs (f a) = g a) -> rs (bind unit m f) = bindr r g.
Proof. intros <-. apply rs_bind_ext. Qed.

Section Eqs.
  Variable u : N -> list value -> cres.
  Variable rfuel : nat.
  Notation ev := (eval unit nc_find nc_store cfg_nc u rfuel (fun _ _ => true)).
  Notation va := (validate unit nc_find nc_store cfg_nc u rfuel (fun _ _ => true)).
  Notation ks := (keys unit nc_find nc_store cfg_nc u rfuel (fun _ _ => true)).
  Notation ex := (explain unit nc_find nc_store cfg_nc u rfuel (fun _ _ => true)).
  Local Notation U l := (l unit nc_find nc_store cfg_nc u rfuel (fun _ _ => true)) (only parsing).
  Local Notation E e o := (rs (ev e o)) (only parsing).
  Local Notation V e o := (rs (va e o)) (only parsing).
  Local Notation K e o := (rs (ks e o)) (only parsing).
  Local Notation X e o := (rs (ex e o)) (only parsing).

  Definition has_par (s : str) : bool := existsb (fun t => match t with TPar _ => true | _ => false end) s.
  Definition refsr (strict : bool) (o : dict) (s : str) : res (list key) :=
    rs (unionM unit (fun k' => ref_keys unit rfuel strict o k') (refs s)).

  (** Value *)
  Lemma V_value v o : V (EValue v) o = Ok tt. Proof. reflexivity. Qed.
  Lemma K_value v o : K (EValue v) o = Ok []. Proof. reflexivity. Qed.
  Lemma X_value v o : X (EValue v) o = Ok []. Proof. reflexivity. Qed.

  (** Option *)
  Lemma K_option k dflt dom o :
    K (EOption k dflt dom) o =
      match lookup k (JObj o) with
      | TypeErr => Err CType false
      | Found (JStr s) => if has_par s then Err CUnmodelled false else bindr (refsr true o s) (fun l => Ok (k :: l))
      | Found _ => Ok [k]
      | Absent => match dflt with Some d => K d o | None => Err (CKey k) true end
      end.
  Proof.
    rewrite (U keys_EOption), rs_bind, rs_rd. cbn [bindr].
    destruct (lookup k (JObj o)) as [raw| |]; [|destruct dflt; reflexivity|reflexivity].
    destruct raw; try reflexivity. fold (has_par s). destruct (has_par s); [reflexivity|].
    apply rs_bind_ext. reflexivity.
  Qed.
  Lemma X_option k dflt dom o :
    X (EOption k dflt dom) o =
      match lookup k (JObj o) with
      | TypeErr => Err CType false
      | Found (JStr s) => if has_par s then Err CUnmodelled false else bindr (refsr false o s) (fun l => Ok (k :: l))
      | Found _ => Ok [k]
      | Absent => match dflt with Some d => X d o | None => Ok [k] end
      end.
  Proof.
    rewrite (U explain_EOption), rs_bind, rs_rd. cbn [bindr].
    destruct (lookup k (JObj o)) as [raw| |]; [|destruct dflt; reflexivity|reflexivity].
    destruct raw; try reflexivity. fold (has_par s). destruct (has_par s); [reflexivity|].
    apply rs_bind_ext. reflexivity.
  Qed.

  (** Apply *)
  Lemma V_apply a b o : V (EApply a b) o = bindr (V a o) (fun _ => V b o).
  Proof. rewrite (U validate_EApply). now apply rs_bind_ext. Qed.
  Definition app2 (x y : res (list key)) : res (list key) := bindr x (fun a => bindr y (fun b => Ok (a ++ b))).
  Lemma K_apply a b o : K (EApply a b) o = app2 (K a o) (K b o).
  Proof. rewrite (U keys_EApply). apply rs_bind_ext. intros x. now apply rs_bind_ext. Qed.
  Lemma X_apply a b o : X (EApply a b) o = app2 (X a o) (X b o).
  Proof. rewrite (U explain_EApply). apply rs_bind_ext. intros x. now apply rs_bind_ext. Qed.

  (** Bind *)
  Lemma V_bind src tbl dflt o :
    V (EBind src tbl dflt) o =
      bindr (V src o) (fun _ => bindr (E src o) (fun x =>
        pickr x tbl (fun b => V b o) (dfltr dflt (fun d => V d o) (CUser 0) false))).
  Proof.
    rewrite (U validate_EBind). apply rs_bind_ext. intros _. apply rs_bind_ext. intros x.
    apply rs_pick_ext; [reflexivity|destruct dflt; reflexivity].
  Qed.
  Definition bind_body (src : expr) (tbl : list (value * expr)) (dflt : option expr) (o : dict)
      (g : expr -> res (list key)) : res (list key) :=
    bindr (g src) (fun a => bindr (E src o) (fun x =>
      bindr (pickr x tbl g (dfltr dflt g (CUser 0) false)) (fun b => Ok (a ++ b)))).
  Lemma K_bind src tbl dflt o :
    K (EBind src tbl dflt) o = bind_body src tbl dflt o (fun e => K e o).
  Proof.
    rewrite (U keys_EBind). unfold bind_body. apply rs_bind_ext. intros a. apply rs_bind_ext. intros x.
    rewrite rs_bind. f_equal. apply rs_pick_ext; [reflexivity|destruct dflt; reflexivity].
  Qed.
  Lemma X_bind src tbl dflt o :
    X (EBind src tbl dflt) o = catchr (bind_body src tbl dflt o (fun e => X e o)) insuffh.
  Proof.
    rewrite (U explain_EBind). apply rs_catch_ext; [|intros c [|]; reflexivity].
    unfold bind_body. apply rs_bind_ext. intros a. apply rs_bind_ext. intros x.
    rewrite rs_bind. f_equal. apply rs_pick_ext; [reflexivity|destruct dflt; reflexivity].
  Qed.

  (** Switch *)
  Definition switch_sel {A} (dv : option value) (tbl : list (value * expr)) (dflt : option expr)
      (g : expr -> res A) (c : cause) : res A :=
    match dv with
    | None => dfltr dflt g CUnmodelled false
    | Some k => if negb (hashable k) then Err CType false else pickr k tbl g (dfltr dflt g c true)
    end.
  Definition switch_keys (dv : option value) (tbl : list (value * expr)) (dflt : option expr)
      (g : expr -> res (list key)) (c : cause) (kd : res (list key)) : res (list key) :=
    match dv with
    | None => dfltr dflt g CUnmodelled false
    | Some k => if negb (hashable k) then Err CType false else app2 (pickr k tbl g (dfltr dflt g c true)) kd
    end.
  Lemma V_switch disp tbl dflt o :
    V (ESwitch disp tbl dflt) o =
      bindr (dispr (E disp o) (is_some dflt)) (fun dv => switch_sel dv tbl dflt (fun e => V e o) CSwitch).
  Proof.
    rewrite (U validate_ESwitch). apply rs_bind_ext2; [apply rs_dispatch|]. intros [k|]; cbn [switch_sel].
    - destruct (negb (hashable k)); [reflexivity|]. apply rs_pick_ext; [reflexivity|destruct dflt; reflexivity].
    - destruct dflt; reflexivity.
  Qed.
  Lemma K_switch disp tbl dflt o :
    K (ESwitch disp tbl dflt) o =
      bindr (dispr (E disp o) (is_some dflt)) (fun dv => switch_keys dv tbl dflt (fun e => K e o) CSwitch (K disp o)).
  Proof.
    rewrite (U keys_ESwitch). apply rs_bind_ext2; [apply rs_dispatch|]. intros [k|]; cbn [switch_keys].
    - destruct (negb (hashable k)); [reflexivity|]. unfold app2.
      apply rs_bind_ext2; [apply rs_pick_ext; [reflexivity|destruct dflt; reflexivity]|].
      intros a. now apply rs_bind_ext.
    - destruct dflt; reflexivity.
  Qed.
  Lemma X_switch disp tbl dflt o :
    X (ESwitch disp tbl dflt) o =
      bindr (catchr (dispr (E disp o) (is_some dflt)) insuffh)
            (fun dv => switch_keys dv tbl dflt (fun e => X e o) CInsuff (X disp o)).
  Proof.
    rewrite (U explain_ESwitch). apply rs_bind_ext2.
    { apply rs_catch_ext; [apply rs_dispatch|intros c [|]; reflexivity]. }
    intros [k|]; cbn [switch_keys].
    - destruct (negb (hashable k)); [reflexivity|]. unfold app2.
      apply rs_bind_ext2; [apply rs_pick_ext; [reflexivity|destruct dflt; reflexivity]|].
      intros a. now apply rs_bind_ext.
    - destruct dflt; reflexivity.
  Qed.

  (** CaseWhen *)
  Notation case_sel := (case_sel u rfuel).
  Definition case_res {A} (s : option expr) (dflt : option expr) (g : expr -> res A) : res A :=
    match s with Some r => g r | None => dfltr dflt g CCase true end.
  Lemma V_case disp cases dflt o :
    V (ECase disp cases dflt) o =
      bindr (V disp o) (fun _ => bindr (E disp o) (fun x => bindr (case_sel x o cases) (fun s =>
        case_res s dflt (fun e => V e o)))).
  Proof.
    rewrite va_case. apply rs_bind_ext. intros _. apply rs_bind_ext. intros x.
    rewrite rs_case_go. destruct (case_sel x o cases) as [[r|]|]; cbn [bindr case_res]; try reflexivity.
    apply rs_dflt_or.
  Qed.
  Definition case_body (disp : expr) (cases : list (expr * expr)) (dflt : option expr) (o : dict)
      (g : expr -> res (list key)) : res (list key) :=
    bindr (g disp) (fun a => bindr (E disp o) (fun x => bindr (case_sel x o cases) (fun s =>
      bindr (case_res s dflt g) (fun b => Ok (a ++ b))))).
  Lemma K_case disp cases dflt o :
    K (ECase disp cases dflt) o = case_body disp cases dflt o (fun e => K e o).
  Proof.
    rewrite ks_case. unfold case_body. apply rs_bind_ext. intros a. apply rs_bind_ext. intros x.
    rewrite rs_bind, rs_case_go. destruct (case_sel x o cases) as [[r|]|]; cbn [bindr case_res]; try reflexivity.
    now rewrite rs_dflt_or.
  Qed.
  Lemma X_case disp cases dflt o :
    X (ECase disp cases dflt) o = catchr (case_body disp cases dflt o (fun e => X e o)) insuffh.
  Proof.
    rewrite ex_case. apply rs_catch_ext; [|intros c [|]; reflexivity].
    unfold case_body. apply rs_bind_ext. intros a. apply rs_bind_ext. intros x.
    rewrite rs_bind, rs_case_go. destruct (case_sel x o cases) as [[r|]|]; cbn [bindr case_res]; try reflexivity.
    now rewrite rs_dflt_or.
  Qed.

  (** Coalesce *)
  Lemma rs_coal_go A o (act : expr -> MU A) ms : forall last,
    rs (coal_go u rfuel o act ms last) = coalr (fun m => V m o) (fun m => rs (act m)) ms last.
  Proof.
    induction ms as [|m ms IH]; intros last; [apply rs_coal_nil|].
    rewrite rs_coal_cons. cbn [coalr]. destruct (bindr _ _) as [a|c ee]; cbn [catchr]; [reflexivity|].
    destruct (unmodb c); [reflexivity|]. destruct ee; [apply IH|reflexivity].
  Qed.
  Lemma V_coalesce ms o : V (ECoalesce ms) o = coalr (fun m => V m o) (fun m => V m o) ms None.
  Proof. rewrite va_coalesce. apply rs_coal_go. Qed.
  Lemma K_coalesce ms o : K (ECoalesce ms) o = coalr (fun m => V m o) (fun m => K m o) ms None.
  Proof. rewrite ks_coalesce. apply rs_coal_go. Qed.
  Lemma X_coalesce ms o :
    X (ECoalesce ms) o =
      catchr (coalr (fun m => V m o) (fun m => X m o) ms None)
             (fun c ee => if ee then lastr (fun m => X m o) ms else Err c ee).
  Proof.
    rewrite (U explain_ECoalesce). apply rs_catch_ext.
    - apply (rs_coal_go _ o (fun m => ex m o) ms None).
    - intros c [|]; [|reflexivity]. induction ms as [|m [|m' ms] IH]; try reflexivity. exact IH.
  Qed.

  (** Iter *)
  Lemma V_iter es o : V (EIter es) o = iterr (fun x => V x o) es.
  Proof. rewrite (U validate_EIter). now apply rs_iterM_ext. Qed.
  Lemma K_iter es o : K (EIter es) o = unionr (fun x => K x o) es.
  Proof. rewrite (U keys_EIter). now apply rs_unionM_ext. Qed.
  Lemma X_iter es o : X (EIter es) o = unionr (fun x => X x o) es.
  Proof. rewrite (U explain_EIter). now apply rs_unionM_ext. Qed.

  (** Map *)
  Definition rowsr (o : dict) (its : list (key * expr)) : res (list (list (key * value))) :=
    bindr (mapr (fun kv => bindr (E (snd kv) o) (fun v => rs (force_elems unit v))) its)
          (fun vals => Ok (map (fun combo => combine (map fst its) combo) (product vals))).
  Lemma rs_map_rows o its : rs (map_rows unit (fun x => ev x o) its) = rowsr o its.
  Proof.
    unfold map_rows, rowsr. apply rs_bind_ext2; [|reflexivity].
    apply rs_mapM_ext. intros kv. now apply rs_bind_ext.
  Qed.
  Definition row_keys (e : expr) (o : dict) (g : expr -> dict -> res (list key)) (row : list (key * value)) : res (list key) :=
    bindr (rs (row_options unit row)) (fun os =>
      bindr (g e (with_opts true os o)) (fun l => rs (filter_preset unit true os o (with_opts true os o) l))).
  Definition map_body (e : expr) (its : list (key * expr)) (o : dict) (g : expr -> dict -> res (list key)) : res (list key) :=
    bindr (rowsr o its) (fun rows => app2 (unionr (row_keys e o g) rows) (unionr (fun kv => g (snd kv) o) its)).
  Lemma V_map e its o :
    V (EMap e its) o =
      bindr (rowsr o its) (fun rows =>
        iterr (fun row => bindr (rs (row_options unit row)) (fun os => V e (with_opts true os o))) rows).
  Proof.
    rewrite (U validate_EMap). apply rs_bind_ext2; [apply rs_map_rows|]. intros rows.
    apply rs_iterM_ext. intros row. now apply rs_bind_ext.
  Qed.
  Lemma K_map e its o : K (EMap e its) o = map_body e its o (fun x d => K x d).
  Proof.
    rewrite (U keys_EMap). unfold map_body, app2. apply rs_bind_ext2; [apply rs_map_rows|]. intros rows.
    apply rs_bind_ext2.
    - apply rs_unionM_ext. intros row. unfold row_keys. apply rs_bind_ext. intros os. now apply rs_bind_ext.
    - intros a. apply rs_bind_ext2; [now apply rs_unionM_ext|reflexivity].
  Qed.
  Lemma X_map e its o :
    X (EMap e its) o =
      catchr (map_body e its o (fun x d => X x d))
             (fun c ee => if ee then
                 bindr (X e o) (fun a => bindr (unionr (fun kv => X (snd kv) o) its) (fun b =>
                   Ok (filter (fun k => negb (key_mem k (map fst its))) a ++ b)))
               else Err c ee).
  Proof.
    rewrite (U explain_EMap). apply rs_catch_ext.
    - unfold map_body, app2. apply rs_bind_ext2; [apply rs_map_rows|]. intros rows.
      apply rs_bind_ext2.
      + apply rs_unionM_ext. intros row. unfold row_keys. apply rs_bind_ext. intros os. now apply rs_bind_ext.
      + intros a. apply rs_bind_ext2; [now apply rs_unionM_ext|reflexivity].
    - intros c [|]; [|reflexivity]. apply rs_bind_ext. intros a.
      apply rs_bind_ext2; [now apply rs_unionM_ext|reflexivity].
  Qed.

  (** WithOptions / Cached / Logged *)
  Lemma V_with f p e o : V (EWith f p e) o = V e (with_opts f p o). Proof. reflexivity. Qed.
  Definition filtr (f : bool) (p o : dict) (r : res (list key)) : res (list key) :=
    bindr r (fun l => rs (filter_preset unit f p o (with_opts f p o) l)).
  Lemma K_with f p e o : K (EWith f p e) o = filtr f p o (K e (with_opts f p o)).
  Proof. rewrite (U keys_EWith). cbv zeta. now apply rs_bind_ext. Qed.
  Lemma X_with f p e o : X (EWith f p e) o = filtr f p o (X e (with_opts f p o)).
  Proof. rewrite (U explain_EWith). cbv zeta. now apply rs_bind_ext. Qed.
  Lemma V_cached c e o : V (ECached c e) o = V e o. Proof. now rewrite va_cached. Qed.
  Lemma K_cached c e o : K (ECached c e) o = K e o. Proof. reflexivity. Qed.
  Lemma X_cached c e o : X (ECached c e) o = X e o. Proof. reflexivity. Qed.
  Lemma V_logged e o : V (ELogged e) o = V e o. Proof. reflexivity. Qed.
  Lemma K_logged e o : K (ELogged e) o = K e o. Proof. reflexivity. Qed.
  Lemma X_logged e o : X (ELogged e) o = X e o. Proof. reflexivity. Qed.

  (** Call *)
  Lemma V_call pa f args kwargs o :
    V (ECall pa f args kwargs) o =
      bindr (V f o) (fun _ => bindr (iterr (fun x => V x o) args) (fun _ => iterr (fun x => V x o) kwargs)).
  Proof.
    rewrite (U validate_ECall). apply rs_bind_ext. intros _.
    apply rs_bind_ext2; [now apply rs_iterM_ext|]. intros _. now apply rs_iterM_ext.
  Qed.
  Definition call_body (f : expr) (args kwargs : list expr) (g : expr -> res (list key)) : res (list key) :=
    bindr (g f) (fun a => bindr (unionr g args) (fun b => bindr (unionr g kwargs) (fun c => Ok (a ++ b ++ c)))).
  Lemma K_call pa f args kwargs o : K (ECall pa f args kwargs) o = call_body f args kwargs (fun x => K x o).
  Proof.
    rewrite (U keys_ECall). unfold call_body. apply rs_bind_ext. intros a.
    apply rs_bind_ext2; [now apply rs_unionM_ext|]. intros b.
    apply rs_bind_ext2; [now apply rs_unionM_ext|reflexivity].
  Qed.
  Lemma X_call pa f args kwargs o : X (ECall pa f args kwargs) o = call_body f args kwargs (fun x => X x o).
  Proof.
    rewrite (U explain_ECall). unfold call_body. apply rs_bind_ext. intros a.
    apply rs_bind_ext2; [now apply rs_unionM_ext|]. intros b.
    apply rs_bind_ext2; [now apply rs_unionM_ext|reflexivity].
  Qed.

  (** Template *)
  Definition vref (o : dict) (k : key) : res unit :=
    match lookup k (JObj o) with
    | TypeErr => Err CType false
    | Absent => Err (CKey k) true
    | Found raw => bindr (wrapr (rs (of_rres unit (resolve rfuel o raw)))) (fun _ => Ok tt)
    end.
  Lemma V_template s ps o :
    V (ETemplate s ps) o =
      bindr (iterr (fun pe => V (snd pe) o) ps) (fun _ => iterr (vref o) (refs s)).
  Proof.
    rewrite (U validate_ETemplate). apply rs_bind_ext2; [now apply rs_iterM_ext|]. intros _.
    apply rs_iterM_ext. intros k. rewrite rs_bind, rs_rd. cbn [bindr]. unfold vref.
    destruct (lookup k (JObj o)); try reflexivity.
    rewrite rs_bind, rs_emit_reads. cbn [bindr]. rewrite rs_bind, rs_wrap.
    destruct (wrapr _); reflexivity.
  Qed.
  Lemma K_template s ps o :
    K (ETemplate s ps) o = app2 (unionr (fun pe => K (snd pe) o) ps) (refsr true o s).
  Proof.
    rewrite (U keys_ETemplate). unfold app2. apply rs_bind_ext2; [now apply rs_unionM_ext|]. intros a.
    now apply rs_bind_ext.
  Qed.
  Lemma X_template s ps o :
    X (ETemplate s ps) o = app2 (unionr (fun pe => X (snd pe) o) ps) (refsr false o s).
  Proof.
    rewrite (U explain_ETemplate). unfold app2. apply rs_bind_ext2; [now apply rs_unionM_ext|]. intros a.
    now apply rs_bind_ext.
  Qed.

  (** Computation *)
  Lemma V_comp e effs o :
    V (EComp e effs) o =
      bindr (V e o) (fun _ => if effects_opt_off o then Ok tt else iterr (fun x => V x o) effs).
  Proof.
    rewrite (U validate_EComp). apply rs_bind_ext. intros _.
    destruct (effects_opt_off o); [reflexivity|now apply rs_iterM_ext].
  Qed.
  Lemma K_comp e effs o : K (EComp e effs) o = K e o. Proof. reflexivity. Qed.
  Lemma X_comp e effs o :
    X (EComp e effs) o =
      bindr (X e o) (fun a => if effects_opt_off o then Ok a
                              else bindr (unionr (fun x => X x o) effs) (fun b => Ok (a ++ b))).
  Proof.
    rewrite (U explain_EComp). apply rs_bind_ext. intros a.
    destruct (effects_opt_off o); [reflexivity|]. apply rs_bind_ext2; [now apply rs_unionM_ext|reflexivity].
  Qed.

  (** Pipeline / AllOptions *)
  Lemma V_pipe steps o : V (EPipe steps) o = iterr (fun x => V x o) steps.
  Proof. rewrite (U validate_EPipe). now apply rs_iterM_ext. Qed.
  Lemma K_pipe steps o : K (EPipe steps) o = unionr (fun x => K x o) steps.
  Proof. rewrite (U keys_EPipe). now apply rs_unionM_ext. Qed.
  Lemma X_pipe steps o : X (EPipe steps) o = unionr (fun x => X x o) steps.
  Proof. rewrite (U explain_EPipe). now apply rs_unionM_ext. Qed.
  Definition allr (o : dict) : res value :=
    bindr (rs (of_rres unit (resolve rfuel o (JObj o)))) (fun j => Ok (VJ j)).
  Lemma rs_all_options o : rs (all_options_eval unit rfuel o) = allr o.
  Proof. unfold all_options_eval. rewrite rs_bind, rs_emit. cbn [bindr]. now apply rs_bind_ext. Qed.
  Lemma V_all o : V EAllOptions o = bindr (wrapr (allr o)) (fun _ => Ok tt).
  Proof. rewrite (U validate_EAllOptions). apply rs_bind_ext2; [|reflexivity]. apply rs_wrap_ext, rs_all_options. Qed.
  Lemma K_all o : K EAllOptions o = Ok (map (fun kv => [fst kv]) o). Proof. reflexivity. Qed.
  Lemma X_all o : X EAllOptions o = Ok (map (fun kv => [fst kv]) o). Proof. reflexivity. Qed.
End Eqs.

Section EqsE.
  Variable u : N -> list value -> cres.
  Variable rfuel : nat.
  Notation ev := (eval unit nc_find nc_store cfg_nc u rfuel (fun _ _ => true)).
  Notation va := (validate unit nc_find nc_store cfg_nc u rfuel (fun _ _ => true)).
  Local Notation U l := (l unit nc_find nc_store cfg_nc u rfuel (fun _ _ => true)) (only parsing).
  Local Notation E e o := (rs (ev e o)) (only parsing).
  Local Notation V e o := (rs (va e o)) (only parsing).

  Lemma E_value v o : E (EValue v) o = Ok v. Proof. reflexivity. Qed.
  Lemma E_apply a b o :
    E (EApply a b) o = wrapr (bindr (E a o) (fun x => bindr (E b o) (fun f => rs (call_value unit u f x)))).
  Proof. rewrite (U eval_EApply). apply rs_wrap_ext. apply rs_bind_ext. intros x. now apply rs_bind_ext. Qed.
  Lemma E_bind src tbl dflt o :
    E (EBind src tbl dflt) o =
      wrapr (bindr (E src o) (fun x => pickr x tbl (fun b => E b o) (dfltr dflt (fun d => E d o) (CUser 0) false))).
  Proof.
    rewrite (U eval_EBind). apply rs_wrap_ext. apply rs_bind_ext. intros x.
    apply rs_pick_ext; [reflexivity|destruct dflt; reflexivity].
  Qed.
  Lemma E_switch disp tbl dflt o :
    E (ESwitch disp tbl dflt) o =
      wrapr (bindr (dispr (E disp o) (is_some dflt)) (fun dv => switch_sel dv tbl dflt (fun e => E e o) CSwitch)).
  Proof.
    rewrite (U eval_ESwitch). apply rs_wrap_ext. apply rs_bind_ext2; [apply rs_dispatch|]. intros [k|]; cbn [switch_sel].
    - destruct (negb (hashable k)); [reflexivity|]. apply rs_pick_ext; [reflexivity|destruct dflt; reflexivity].
    - destruct dflt; reflexivity.
  Qed.
  Lemma E_case disp cases dflt o :
    E (ECase disp cases dflt) o =
      wrapr (bindr (E disp o) (fun x => bindr (case_sel u rfuel x o cases) (fun s => case_res s dflt (fun e => E e o)))).
  Proof.
    rewrite ev_case. apply rs_wrap_ext. apply rs_bind_ext. intros x.
    rewrite rs_case_go. destruct (case_sel u rfuel x o cases) as [[r|]|]; cbn [bindr case_res]; try reflexivity.
    apply rs_dflt_or.
  Qed.
  Lemma E_coalesce ms o : E (ECoalesce ms) o = wrapr (coalr (fun m => V m o) (fun m => E m o) ms None).
  Proof. rewrite ev_coalesce. apply rs_wrap_ext. apply rs_coal_go. Qed.
  Lemma E_iter es o : E (EIter es) o = wrapr (bindr (rs (iter_go u rfuel o es)) (fun vs => Ok (VT T_ITER vs))).
  Proof. rewrite ev_iter. apply rs_wrap_ext. now apply rs_bind_ext. Qed.
  Definition call_tail (pa : bool) (fv : value) (av kv : list value) : res value :=
    if pa then match fv with VF fid pre post => Ok (VF fid (pre ++ av) (post ++ kv)) | _ => Err CUnmodelled false end
    else rs (call_value_n unit u fv (av ++ kv)).
  Lemma E_call pa f args kwargs o :
    E (ECall pa f args kwargs) o =
      wrapr (bindr (E f o) (fun fv => bindr (mapr (fun x => E x o) args) (fun av =>
             bindr (mapr (fun x => E x o) kwargs) (fun kv => call_tail pa fv av kv)))).
  Proof.
    rewrite (U eval_ECall). apply rs_wrap_ext. apply rs_bind_ext. intros fv.
    apply rs_bind_ext2; [now apply rs_mapM_ext|]. intros av.
    apply rs_bind_ext2; [now apply rs_mapM_ext|]. intros kv.
    unfold call_tail. destruct pa; [destruct fv; reflexivity|reflexivity].
  Qed.
  Definition effr (o : dict) (v : value) (eff : expr) : res unit :=
    bindr (E eff o) (fun f => bindr (rs (call_value unit u f v)) (fun _ => Ok tt)).
  Lemma E_comp e effs o :
    E (EComp e effs) o =
      wrapr (bindr (E e o) (fun v =>
        bindr (if effects_opt_off o then Ok tt else iterr (effr o v) effs) (fun _ => Ok v))).
  Proof.
    rewrite (U eval_EComp). apply rs_wrap_ext. apply rs_bind_ext. intros v.
    apply rs_bind_ext2; [|reflexivity]. destruct (effects_opt_off o); [reflexivity|].
    apply rs_iterM_ext. intros eff. unfold effr. apply rs_bind_ext. intros f. now apply rs_bind_ext.
  Qed.
  Lemma E_pipe steps o :
    E (EPipe steps) o = wrapr (bindr (mapr (fun x => E x o) steps) (fun fs => Ok (VF B_COMPOSE (rev fs) []))).
  Proof. rewrite (U eval_EPipe). apply rs_wrap_ext. apply rs_bind_ext2; [now apply rs_mapM_ext|reflexivity]. Qed.
  Lemma E_all o : E EAllOptions o = wrapr (allr rfuel o).
  Proof. rewrite (U eval_EAllOptions). apply rs_wrap_ext, rs_all_options. Qed.
End EqsE.

(** ** Part 8: successful evaluations yield values without deferred failures (no lazy iterables
    in the fragment; user code does not fabricate deferred failures). *)
Section CallsOk.
  Variable bad : cause -> bool.
  Variable u : N -> list value -> cres.
  Notation vg := (vgood bad).
  Notation vsg := (vsgood bad).
  Hypothesis Hu_ok : forall f args v, vsg args = true -> u f args = COk v -> vg v = true.

  Lemma call_value_ok f : forall x v, vg f = true -> vg x = true -> rs (call_value unit u f x) = Ok v -> vg v = true.
  Proof.
    induction f using value_ind'; intros x v Hf Hx; try discriminate.
    rewrite call_value_VF. cbn [vgood] in Hf. apply andb_prop in Hf as [Hpre Hpost].
    destruct (N.eqb f B_COMPOSE).
    - clear Hpost H0. revert x Hx. induction pre as [|g pre IH]; intros x Hx.
      + cbn [compose_go]. rewrite rs_ret. intros E. now inversion E; subst.
      + cbn [compose_go]. rewrite rs_bind. cbn [forallb] in Hpre. apply andb_prop in Hpre as [Hg Hpre].
        inversion H; subst. intros E. apply bindr_ok in E as [y [Ey E]].
        apply (IH H3 Hpre y (H2 x y Hg Hx Ey) E).
    - apply call_fun_ok; [exact Hu_ok|]. unfold vsgood. rewrite !forallb_app. cbn [forallb]. now rewrite Hpre, Hx, Hpost.
  Qed.
  Lemma call_value_n_ok f args v :
    vg f = true -> vsg args = true -> rs (call_value_n unit u f args) = Ok v -> vg v = true.
  Proof.
    intros Hf Ha. destruct f; try discriminate. cbn [call_value_n]. destruct (N.eqb f B_COMPOSE); [discriminate|].
    cbn [vgood] in Hf. apply andb_prop in Hf as [Hpre Hpost].
    apply call_fun_ok; [exact Hu_ok|]. unfold vsgood in *. rewrite !forallb_app. now rewrite Hpre, Ha, Hpost.
  Qed.
End CallsOk.

Definition clean_u (u : N -> list value -> cres) : Prop :=
  forall f args v, vsgood (fun _ => true) args = true -> u f args = COk v -> vclean v = true.

Lemma vclean_deep_err v : vclean v = true -> deep_err v = None.
Proof.
  intros H. destruct (deep_err v) as [c|] eqn:D; [|reflexivity].
  pose proof (deep_err_good (fun _ => true) v H c D). discriminate.
Qed.
Lemma vsclean_first_err l : vsgood (fun _ => true) l = true -> first_err l = None.
Proof.
  intros H. destruct (first_err l) as [c|] eqn:D; [|reflexivity].
  pose proof (first_err_good (fun _ => true) l H c D). discriminate.
Qed.

(** the fragment: no bare lazy iterable (list()/tuple() of an Iter is in), no Template, no Map *)
Definition pC : fopts :=
  {| f_coalesce := true; f_lazy := false; f_template := false; f_effects := true; f_dom := true;
     f_domdflt := true; f_presets := true; f_partialbind := true; f_alloptions := true; f_domexpr := true; f_untyped := true |}.

Section Clean.
  Variable u : N -> list value -> cres.
  Variable rfuel : nat.
  Hypothesis Hclean : clean_u u.
  Notation ev := (eval unit nc_find nc_store cfg_nc u rfuel (fun _ _ => true)).
  Notation va := (validate unit nc_find nc_store cfg_nc u rfuel (fun _ _ => true)).
  Local Notation E e o := (rs (ev e o)) (only parsing).
  Local Notation V e o := (rs (va e o)) (only parsing).
  Notation vsc := (vsgood (fun _ => true)).

  Definition cleanQ (e : expr) : Prop := forall o v, E e o = Ok v -> vclean v = true.

  (** an Iter consumed at once by list()/tuple(): success means every element was evaluated *)
  Lemma iter_all_ok o es : Forall cleanQ es -> forall vs,
    rs (iter_go u rfuel o es) = Ok vs -> first_err vs = None ->
    vsc vs = true /\ forall x, In x es -> exists v, E x o = Ok v.
  Proof.
    induction es as [|x es IH]; intros HQ vs Hvs Hf.
    - inversion Hvs; subst. split; [reflexivity|intros ? []].
    - inversion HQ; subst. rewrite rs_iter_cons in Hvs.
      destruct (E x o) as [v|c ee] eqn:Ex; cbn [bindr] in Hvs.
      + pose proof (H1 o v Ex) as Hv. rewrite (vclean_deep_err v Hv) in Hvs. cbn [is_some] in Hvs.
        destruct (rs (iter_go u rfuel o es)) as [vs'|c ee] eqn:Ei; cbn [bindr catchr] in Hvs.
        * inversion Hvs; subst.
          assert (Hf' : first_err vs' = None) by (destruct v; try exact Hf; discriminate).
          destruct (IH H2 vs' eq_refl Hf') as [Hc Hall]. split.
          -- unfold vsgood, vclean in *. cbn [forallb]. now rewrite Hv, Hc.
          -- intros y [<-|Hy]; [now exists v|now apply Hall].
        * destruct (unmodb c); [discriminate|]. inversion Hvs; subst. discriminate.
      + cbn [catchr] in Hvs. destruct (unmodb c); [discriminate|]. inversion Hvs; subst. discriminate.
  Qed.

  Lemma forced_inv es b o v :
    b = B_LIST \/ b = B_TUPLE -> Forall cleanQ es ->
    E (EApply (EIter es) (EValue (VF b [] []))) o = Ok v ->
    vclean v = true /\ forall x, In x es -> exists vx, E x o = Ok vx.
  Proof.
    intros Hb HQ H. rewrite E_apply in H. apply (proj1 (wrapr_ok _ _ _)) in H.
    apply bindr_ok in H as [it [Hit H]]. rewrite E_value in H. cbn [bindr] in H.
    rewrite E_iter in Hit. apply (proj1 (wrapr_ok _ _ _)) in Hit. apply bindr_ok in Hit as [vs [Hvs Hit]].
    inversion Hit; subst it. rewrite call_value_VF in H.
    assert (Hnc : N.eqb b B_COMPOSE = false) by (destruct Hb as [-> | ->]; reflexivity).
    rewrite Hnc in H. cbn [app] in H. rewrite rs_call_fun in H.
    assert (Hel : elements_of (VT T_ITER vs) = Some vs) by reflexivity.
    assert (Hcore : forall t, bindr (rs (force_elems unit (VT T_ITER vs))) (fun els => Ok (VT t els)) = Ok v ->
                      vclean v = true /\ forall x, In x es -> exists vx, E x o = Ok vx).
    { intros t Ht. apply bindr_ok in Ht as [els [He Ht]]. rewrite rs_force_elems, Hel in He.
      destruct (first_err vs) eqn:Hf; [discriminate|]. inversion He; subst els. inversion Ht; subst v.
      destruct (iter_all_ok o es HQ vs Hvs Hf) as [Hc Hall]. split; [exact Hc|exact Hall]. }
    destruct Hb as [-> | ->]; cbn in H; eapply Hcore; exact H.
  Qed.

  Lemma mapr_clean o es : Forall cleanQ es -> forall vs, mapr (fun x => E x o) es = Ok vs -> vsc vs = true.
  Proof.
    induction es as [|x es IH]; intros HQ vs H; [now inversion H|].
    inversion HQ as [|? ? Hx HQ']; subst. cbn [mapr] in H. apply bindr_ok in H as [v [Hv H]]. apply bindr_ok in H as [vs' [Hvs H]].
    inversion H; subst. pose proof (Hx o v Hv) as Cv. pose proof (IH HQ' vs' Hvs) as Cs.
    unfold vsgood, vclean in *. cbn [forallb]. now rewrite Cv, Cs.
  Qed.
  Lemma mapr_all_ok {A} (f : A -> res value) l vs : mapr f l = Ok vs -> forall x, In x l -> exists v, f x = Ok v.
  Proof.
    revert vs. induction l as [|a l IH]; intros vs H x Hx; [destruct Hx|].
    cbn [mapr] in H. apply bindr_ok in H as [v [Hv H]]. apply bindr_ok in H as [vs' [Hvs H]].
    destruct Hx as [<-|Hx]; [now exists v|apply (IH vs' Hvs x Hx)].
  Qed.

  Lemma coalr_ok_inv {A} (v : expr -> res unit) (act : expr -> res A) ms : forall last a,
    coalr v act ms last = Ok a -> exists m, In m ms /\ v m = Ok tt /\ act m = Ok a.
  Proof.
    induction ms as [|m ms IH]; intros last a H.
    - destruct last as [[c ee]|]; discriminate.
    - cbn [coalr] in H. apply catchr_ok in H as [H|[c [ee [_ [_ H]]]]].
      + apply bindr_ok in H as [[] [Hv Ha]]. exists m. split; [now left|auto].
      + destruct ee; [|discriminate]. destruct (IH _ _ H) as [m' [Hin Hm']]. exists m'. split; [now right|exact Hm'].
  Qed.

  Lemma clean_value v : vclean v = true -> cleanQ (EValue v).
  Proof. intros Hc o w H. rewrite E_value in H. now inversion H; subst. Qed.
  Lemma clean_option k dflt dom : Popt cleanQ dflt -> cleanQ (EOption k dflt dom).
  Proof.
    intros Hd o v H. rewrite rs_ev_option in H. apply (proj1 (wrapr_ok _ _ _)) in H.
    rewrite rs_option_eval in H. destruct (lookup k (JObj o)) as [raw| |]; [| |discriminate].
    - apply bindr_ok in H as [j [_ H]]. apply dom_check_value in H. now subst.
    - destruct dflt as [d|]; [|discriminate]. apply bindr_ok in H as [w [Hw H]].
      apply dom_check_value in H. subst. apply (Hd o w Hw).
  Qed.
  Lemma clean_apply src fn : cleanQ src -> cleanQ fn -> cleanQ (EApply src fn).
  Proof.
    intros Hs Hf o v H. rewrite E_apply in H. apply (proj1 (wrapr_ok _ _ _)) in H.
    apply bindr_ok in H as [x [Hx H]]. apply bindr_ok in H as [f [Hff H]].
    apply (call_value_ok (fun _ => true) u Hclean f x v (Hf o f Hff) (Hs o x Hx) H).
  Qed.
  Lemma clean_forced es b : b = B_LIST \/ b = B_TUPLE -> Forall cleanQ es -> cleanQ (EApply (EIter es) (EValue (VF b [] []))).
  Proof. intros Hb HQ o v H. apply (forced_inv es b o v Hb HQ H). Qed.
  Lemma clean_bind src tbl dflt :
    Forall (fun ve => cleanQ (snd ve)) tbl -> Popt cleanQ dflt -> cleanQ (EBind src tbl dflt).
  Proof.
    intros Ht Hd o v H. rewrite E_bind in H. apply (proj1 (wrapr_ok _ _ _)) in H.
    apply bindr_ok in H as [x [_ H]]. unfold pickr in H. destruct (assoc_v x tbl) as [b|] eqn:Ea.
    - destruct (assoc_v_In _ _ _ Ea) as [w Hin]. apply (Forall_snd_In cleanQ tbl w b Ht Hin o v H).
    - destruct dflt as [d|]; [apply (Hd o v H)|discriminate].
  Qed.
  Lemma clean_switch disp tbl dflt :
    Forall (fun ve => cleanQ (snd ve)) tbl -> Popt cleanQ dflt -> cleanQ (ESwitch disp tbl dflt).
  Proof.
    intros Ht Hd o v H. rewrite E_switch in H. apply (proj1 (wrapr_ok _ _ _)) in H.
    apply bindr_ok in H as [dv [_ H]]. destruct dv as [k|]; cbn [switch_sel] in H.
    - destruct (negb (hashable k)); [discriminate|]. unfold pickr in H. destruct (assoc_v k tbl) as [b|] eqn:Ea.
      + destruct (assoc_v_In _ _ _ Ea) as [w Hin]. apply (Forall_snd_In cleanQ tbl w b Ht Hin o v H).
      + destruct dflt as [d|]; [apply (Hd o v H)|discriminate].
    - destruct dflt as [d|]; [apply (Hd o v H)|discriminate].
  Qed.
  Lemma clean_case disp cases dflt :
    Forall (fun cr => cleanQ (snd cr)) cases -> Popt cleanQ dflt -> cleanQ (ECase disp cases dflt).
  Proof.
    intros Hc Hd o v H. rewrite E_case in H. apply (proj1 (wrapr_ok _ _ _)) in H.
    apply bindr_ok in H as [x [_ H]]. apply bindr_ok in H as [s [Hs H]]. destruct s as [r|]; cbn [case_res] in H.
    - destruct (case_sel_In _ _ _ _ _ _ Hs) as [c Hin]. rewrite Forall_forall in Hc. apply (Hc (c, r) Hin o v H).
    - destruct dflt as [d|]; [apply (Hd o v H)|discriminate].
  Qed.
  Lemma clean_coalesce ms : Forall cleanQ ms -> cleanQ (ECoalesce ms).
  Proof.
    intros HQ o v H. rewrite E_coalesce in H. apply (proj1 (wrapr_ok _ _ _)) in H.
    destruct (coalr_ok_inv _ _ ms None v H) as [m [Hin [_ Hm]]]. rewrite Forall_forall in HQ. apply (HQ m Hin o v Hm).
  Qed.
  Lemma clean_with force pr e : cleanQ e -> cleanQ (EWith force pr e).
  Proof. intros He o v H. rewrite rs_ev_with in H. apply (He _ v H). Qed.
  Lemma clean_cached c e : cleanQ e -> cleanQ (ECached c e).
  Proof. intros He o v H. rewrite rs_ev_cached in H. apply (He o v H). Qed.
  Lemma clean_logged e : cleanQ e -> cleanQ (ELogged e).
  Proof. intros He o v H. rewrite rs_ev_logged in H. apply (He o v H). Qed.
  Lemma clean_call pa f args kwargs : cleanQ f -> Forall cleanQ args -> Forall cleanQ kwargs -> cleanQ (ECall pa f args kwargs).
  Proof.
    intros Hf Ha Hk o v H. rewrite E_call in H. apply (proj1 (wrapr_ok _ _ _)) in H.
    apply bindr_ok in H as [fv [Hfv H]]. apply bindr_ok in H as [av [Hav H]]. apply bindr_ok in H as [kv [Hkv H]].
    pose proof (Hf o fv Hfv) as Cf. pose proof (mapr_clean o args Ha av Hav) as Ca. pose proof (mapr_clean o kwargs Hk kv Hkv) as Ck.
    unfold call_tail in H. destruct pa.
    - destruct fv; try discriminate. inversion H; subst. unfold vclean in *. cbn [vgood] in *.
      apply andb_prop in Cf as [Cp Cq]. fold (vsgood (fun _ => true) (pre ++ av)). fold (vsgood (fun _ => true) (post ++ kv)).
      rewrite !vsgood_app. unfold vsgood in *. now rewrite Cp, Cq, Ca, Ck.
    - apply (call_value_n_ok (fun _ => true) u Hclean fv (av ++ kv) v Cf); [|exact H]. rewrite vsgood_app. now rewrite Ca, Ck.
  Qed.
  Lemma clean_comp e effs : cleanQ e -> cleanQ (EComp e effs).
  Proof.
    intros He o v H. rewrite E_comp in H. apply (proj1 (wrapr_ok _ _ _)) in H.
    apply bindr_ok in H as [w [Hw H]]. apply bindr_ok in H as [[] [_ H]]. inversion H; subst. apply (He o v Hw).
  Qed.
  Lemma clean_pipe steps : Forall cleanQ steps -> cleanQ (EPipe steps).
  Proof.
    intros Hs o v H. rewrite E_pipe in H. apply (proj1 (wrapr_ok _ _ _)) in H.
    apply bindr_ok in H as [fs [Hfs H]]. inversion H; subst. unfold vclean. cbn [vgood forallb]. rewrite andb_true_r.
    apply vsgood_rev. apply (mapr_clean o steps Hs fs Hfs).
  Qed.
  Lemma clean_all : cleanQ EAllOptions.
  Proof.
    intros o v H. rewrite E_all in H. apply (proj1 (wrapr_ok _ _ _)) in H. unfold allr in H.
    apply bindr_ok in H as [j [_ H]]. now inversion H; subst.
  Qed.

  Theorem ev_clean e : fragP pC e = true -> cleanQ e.
  Proof.
    apply (fragP_ind pC cleanQ).
    - exact clean_value.
    - intros k dflt dom Hd _. now apply clean_option.
    - intros src fn Hs Hf _. now apply clean_apply.
    - intros es b _. apply clean_forced.
    - intros src tbl dflt _ Ht Hd _. now apply clean_bind.
    - intros disp tbl dflt _ Ht Hd. now apply clean_switch.
    - intros disp cases dflt _ Hc Hd _. apply clean_case; [|exact Hd].
      eapply Forall_impl; [|exact Hc]. intros a [_ Ha]. exact Ha.
    - intros ms _. apply clean_coalesce.
    - intros es Hl. discriminate Hl.
    - intros force pr e0 _. apply clean_with.
    - exact clean_cached.
    - intros pa f args kwargs Hf Ha Hk _. now apply clean_call.
    - intros s ps Ht. discriminate Ht.
    - intros e0 effs _ He _ _. now apply clean_comp.
    - exact clean_logged.
    - exact clean_pipe.
    - intros _. exact clean_all.
  Qed.
End Clean.

(** ** Part 9: validate(), keys() and explain() run user code only inside the evaluation of a
    sub-expression in chooser position.  For EVERY expression, dictionary and user code. *)
Definition is_call (e : event) : bool := match e with EvCall _ _ => true | _ => false end.

Definition only {A} (P : event -> Prop) (m : MU A) : Prop :=
  forall ev, In ev (lg m) -> is_call ev = true -> P ev.
Definition quiet {A} (m : MU A) : Prop := only (fun _ => False) m.

Lemma only_mono A (P Q : event -> Prop) (m : MU A) : (forall ev, P ev -> Q ev) -> only P m -> only Q m.
Proof. intros H Hm ev Hin Hc. apply H, (Hm ev Hin Hc). Qed.
Lemma quiet_only A P (m : MU A) : quiet m -> only P m.
Proof. apply only_mono. intros ev []. Qed.
Lemma only_ret A P (a : A) : only P (ret unit a). Proof. intros ev []. Qed.
Lemma only_fail A P c ee : only P (@fail unit A c ee). Proof. intros ev []. Qed.
Lemma only_emit P e : is_call e = false -> only P (emit unit e).
Proof. intros H ev [<-|[]] Hc. congruence. Qed.
Lemma only_bind A B P (m : MU A) (f : A -> MU B) :
  only P m -> (forall a, rs m = Ok a -> only P (f a)) -> only P (bind unit m f).
Proof.
  intros Hm Hf ev Hin Hc. rewrite lg_bind in Hin. apply in_app_or in Hin as [Hin|Hin]; [apply (Hm ev Hin Hc)|].
  destruct (rs m) as [a|c ee] eqn:E; [apply (Hf a eq_refl ev Hin Hc)|destruct Hin].
Qed.
Lemma only_catch A P (m : MU A) h :
  only P m -> (forall c ee, rs m = Err c ee -> only P (h c ee)) -> only P (catch unit m h).
Proof.
  intros Hm Hh ev Hin Hc. rewrite lg_catch in Hin. apply in_app_or in Hin as [Hin|Hin]; [apply (Hm ev Hin Hc)|].
  destruct (rs m) as [a|c ee] eqn:E; [destruct Hin|]. destruct (unmodb c); [destruct Hin|apply (Hh c ee eq_refl ev Hin Hc)].
Qed.
Lemma only_wrap A P (m : MU A) : only P m -> only P (wrap_eval unit m).
Proof. intros Hm ev Hin Hc. rewrite lg_wrap in Hin. apply (Hm ev Hin Hc). Qed.
Lemma only_iterM A P (f : A -> MU unit) l : (forall a, In a l -> only P (f a)) -> only P (iterM unit f l).
Proof.
  induction l as [|a l IH]; intros H; [apply only_ret|]. rewrite iterM_cons.
  apply only_bind; [apply H; now left|]. intros _ _. apply IH. intros b Hb. apply H. now right.
Qed.
Lemma only_unionM A P (f : A -> MU (list key)) l : (forall a, In a l -> only P (f a)) -> only P (unionM unit f l).
Proof.
  induction l as [|a l IH]; intros H; [apply only_ret|]. rewrite unionM_cons.
  apply only_bind; [apply H; now left|]. intros x _. apply only_bind; [|intros; apply only_ret].
  apply IH. intros b Hb. apply H. now right.
Qed.
Lemma only_mapM A B P (f : A -> MU B) l : (forall a, In a l -> only P (f a)) -> only P (mapM unit f l).
Proof.
  induction l as [|a l IH]; intros H; [apply only_ret|]. rewrite mapM_cons.
  apply only_bind; [apply H; now left|]. intros x _. apply only_bind; [|intros; apply only_ret].
  apply IH. intros b Hb. apply H. now right.
Qed.
Lemma only_pick A P x (onhit : expr -> MU A) onmiss tbl :
  (forall v b, In (v, b) tbl -> only P (onhit b)) -> only P onmiss -> only P (pick x onhit onmiss tbl).
Proof.
  intros Hh Hm. rewrite pick_assoc. destruct (assoc_v x tbl) as [b|] eqn:E; [|exact Hm].
  destruct (assoc_v_In _ _ _ E) as [v Hin]. apply (Hh v b Hin).
Qed.

Lemma quiet_rd k o : quiet (rd unit k o).
Proof. unfold rd. apply only_bind; [now apply only_emit|intros; apply only_ret]. Qed.
Lemma quiet_emit_reads l o : quiet (emit_reads unit l o).
Proof. unfold emit_reads. apply only_iterM. intros k _. now apply only_emit. Qed.
Lemma quiet_of_rres r : quiet (of_rres unit r).
Proof. destruct r; intros ev []. Qed.
Lemma quiet_force v : quiet (force_elems unit v).
Proof. unfold force_elems. destruct (elements_of v) as [els|]; [destruct (first_err els)|]; intros ev []. Qed.
Lemma quiet_ref_keys f strict o : forall k, quiet (ref_keys unit f strict o k).
Proof.
  induction f as [|f IH]; intros k; [apply only_fail|]. cbn [ref_keys].
  apply only_bind; [apply quiet_rd|]. intros r _. destruct r as [raw| |]; [|destruct strict; [apply only_fail|apply only_ret]|apply only_fail].
  destruct raw; try apply only_ret. destruct (existsb _ s); [apply only_fail|].
  apply only_bind; [|intros; apply only_ret]. apply only_unionM. intros k' _. apply IH.
Qed.
Lemma quiet_filter_preset f p o m l : quiet (filter_preset unit f p o m l).
Proof.
  induction l as [|k l IH]; [apply only_ret|]. cbn [filter_preset].
  destruct (preset_drops f p o m k); [|apply only_fail]. apply only_bind; [exact IH|intros; apply only_ret].
Qed.
Lemma quiet_row_options row : quiet (row_options unit row).
Proof. unfold row_options. destruct (option_set _ []); [destruct (_ && _)|]; intros ev []. Qed.

Definition opt_list (d : option expr) : list expr := match d with Some x => [x] | None => [] end.

(** sub-expressions in chooser position: evaluated by validate/keys/explain to choose a branch
    (bind source, switch dispatch, case dispatch and conditions, map iterables) — and an Option
    that declares a domain (a present value is evaluated to be checked against it) *)
Definition choosers (e : expr) : list expr :=
  match e with
  | EBind src _ _ => [src]
  | ESwitch disp _ _ => [disp]
  | ECase disp cases _ => disp :: map fst cases
  | EMap _ its => map snd its
  | EOption _ _ (Some _) => [e]
  | _ => []
  end.
(** the sub-expressions validate/keys/explain descend into *)
Definition subs (e : expr) : list expr :=
  match e with
  | EValue _ | EAllOptions => []
  | EOption _ dflt _ => opt_list dflt
  | EApply a b => [a; b]
  | EBind src tbl dflt => src :: map snd tbl ++ opt_list dflt
  | ESwitch disp tbl dflt => disp :: map snd tbl ++ opt_list dflt
  | ECase disp cases dflt => disp :: map snd cases ++ opt_list dflt
  | ECoalesce ms => ms
  | EIter es => es
  | EMap e its => e :: map snd its
  | EWith _ _ e => [e]
  | ECached _ e => [e]
  | ECall _ f args kwargs => f :: args ++ kwargs
  | ETemplate _ ps => map snd ps
  | EComp e effs => e :: effs
  | ELogged e => [e]
  | EPipe steps => steps
  end.

Section Choosers.
  Variable u : N -> list value -> cres.
  Variable rfuel : nat.
  Notation ev := (eval unit nc_find nc_store cfg_nc u rfuel (fun _ _ => true)).
  Notation va := (validate unit nc_find nc_store cfg_nc u rfuel (fun _ _ => true)).
  Notation ks := (keys unit nc_find nc_store cfg_nc u rfuel (fun _ _ => true)).
  Notation ex := (explain unit nc_find nc_store cfg_nc u rfuel (fun _ _ => true)).
  Local Notation U l := (l unit nc_find nc_store cfg_nc u rfuel (fun _ _ => true)) (only parsing).

  (** sub-expressions reached under the SAME dictionary (everything except WithOptions and Map) *)
  Definition plain (e : expr) : bool := match e with EWith _ _ _ | EMap _ _ => false | _ => true end.

  (** the dictionary under which validate/keys/explain of [e] under [o] reach the sub-expression
      [e'] they descend into: the overlaid dictionary below WithOptions; below Map the dictionary of
      one of the rows of option combinations (the iterables, and the repeated expression in
      explain's fallback when the iterables cannot be evaluated, see [o] itself) *)
  Definition reaches (e : expr) (o : dict) (e' : expr) (o' : dict) : Prop :=
    match e with
    | EWith f p e0 => e' = e0 /\ o' = with_opts f p o
    | EMap e0 its =>
        (In e' (map snd its) /\ o' = o) \/
        (e' = e0 /\ (o' = o \/
           exists rows row os, rs (map_rows unit (fun x => ev x o) its) = Ok rows /\ In row rows /\
                               rs (row_options unit row) = Ok os /\ o' = with_opts true os o))
    | _ => In e' (subs e) /\ o' = o
    end.

  (** user code [evt] ran, while validate/keys/explain of [e] ran under the dictionary [o], …  *)
  Inductive allowed : expr -> dict -> event -> Prop :=
  | al_here e o c evt : In c (choosers e) -> In evt (lg (ev c o)) -> allowed e o evt
      (* … inside the evaluation, under [o], of a chooser-position sub-expression of [e] *)
  | al_cond disp cases dflt o c r p x evt :
      In (c, r) cases -> rs (ev c o) = Ok p -> rs (ev disp o) = Ok x -> In evt (lg (call_value unit u p x)) ->
      allowed (ECase disp cases dflt) o evt
      (* … as the application of a case condition (evaluated under [o]) to the dispatch value *)
  | al_sub e o e' o' evt : reaches e o e' o' -> allowed e' o' evt -> allowed e o evt.
      (* … for one of these reasons, in a sub-expression, under the dictionary that reaches it *)

  Lemma only_chooser e c o : In c (choosers e) -> only (allowed e o) (ev c o).
  Proof. intros Hc evt Hin _. apply (al_here e o c evt Hc Hin). Qed.
  Lemma only_at {A} e o e' o' (m : MU A) : reaches e o e' o' -> only (allowed e' o') m -> only (allowed e o) m.
  Proof. intros Hs. apply only_mono. intros evt. now apply (al_sub e o e' o'). Qed.
  Lemma only_sub {A} e o e' (m : MU A) : plain e = true -> In e' (subs e) -> only (allowed e' o) m -> only (allowed e o) m.
  Proof.
    intros Hp Hs. apply only_at. destruct e; try discriminate Hp; cbn [reaches]; split; try exact Hs; reflexivity.
  Qed.

  Definition runsQ (e : expr) : Prop :=
    forall o, only (allowed e o) (va e o) /\ only (allowed e o) (ks e o) /\ only (allowed e o) (ex e o).

  Lemma in_opt d : In d (opt_list (Some d)). Proof. now left. Qed.

  Lemma runs_value v : runsQ (EValue v).
  Proof. intros o. repeat split; apply only_ret. Qed.

  Lemma quiet_option_found k dflt o raw :
    lookup k (JObj o) = Found raw -> quiet (option_eval unit u rfuel (fun x => ev x o) k dflt None o).
  Proof.
    intros Hl. unfold option_eval. apply only_bind; [apply quiet_rd|]. intros r Hr. rewrite rs_rd in Hr. inversion Hr; subst r.
    rewrite Hl. apply only_bind; [|intros; apply only_ret].
    apply only_bind; [apply quiet_emit_reads|]. intros _ _. apply only_bind; [apply quiet_of_rres|intros; apply only_ret].
  Qed.

  Lemma runs_option k dflt dom : Popt runsQ dflt -> runsQ (EOption k dflt dom).
  Proof.
    intros Hd o.
    assert (Hsub : forall (A : Type) (m : MU A) d, dflt = Some d -> only (allowed d o) m -> only (allowed (EOption k dflt dom) o) m).
    { intros A m d ->. apply (only_sub (EOption k (Some d) dom) o d); [reflexivity|apply in_opt]. }
    split; [|split].
    - rewrite (U validate_EOption). apply only_bind; [apply quiet_only, quiet_rd|]. intros r Hr.
      rewrite rs_rd in Hr. inversion Hr; subst r. destruct (lookup k (JObj o)) as [raw| |] eqn:El; [| |apply only_fail].
      + apply only_bind; [|intros; apply only_ret]. destruct dom as [de|].
        * change (wrap_eval unit (option_eval unit u rfuel (fun x => ev x o) k dflt (Some de) o)) with (ev (EOption k dflt (Some de)) o).
          apply only_chooser. now left.
        * apply only_wrap, quiet_only, (quiet_option_found k dflt o raw El).
      + destruct dflt as [d|]; [|apply only_fail]. apply (Hsub _ _ d eq_refl), (proj1 (Hd o)).
    - rewrite (U keys_EOption). apply only_bind; [apply quiet_only, quiet_rd|]. intros r _.
      destruct r as [raw| |]; [| |apply only_fail].
      + destruct raw; try apply only_ret. destruct (existsb _ s); [apply only_fail|].
        apply only_bind; [|intros; apply only_ret]. apply only_unionM. intros k' _. apply quiet_only, quiet_ref_keys.
      + destruct dflt as [d|]; [|apply only_fail]. apply (Hsub _ _ d eq_refl), (proj1 (proj2 (Hd o))).
    - rewrite (U explain_EOption). apply only_bind; [apply quiet_only, quiet_rd|]. intros r _.
      destruct r as [raw| |]; [| |apply only_fail].
      + destruct raw; try apply only_ret. destruct (existsb _ s); [apply only_fail|].
        apply only_bind; [|intros; apply only_ret]. apply only_unionM. intros k' _. apply quiet_only, quiet_ref_keys.
      + destruct dflt as [d|]; [|apply only_ret]. apply (Hsub _ _ d eq_refl), (proj2 (proj2 (Hd o))).
  Qed.

  Lemma runs_apply a b : runsQ a -> runsQ b -> runsQ (EApply a b).
  Proof.
    intros Ha Hb o. destruct (Ha o) as [Va [Ka Xa]]. destruct (Hb o) as [Vb [Kb Xb]].
    assert (Sa : In a (subs (EApply a b))) by now left. assert (Sb : In b (subs (EApply a b))) by (right; now left).
    split; [|split].
    - rewrite (U validate_EApply). apply only_bind; [apply (only_sub (EApply a b) o a _ eq_refl Sa Va)|intros; apply (only_sub (EApply a b) o b _ eq_refl Sb Vb)].
    - rewrite (U keys_EApply). apply only_bind; [apply (only_sub (EApply a b) o a _ eq_refl Sa Ka)|intros].
      apply only_bind; [apply (only_sub (EApply a b) o b _ eq_refl Sb Kb)|intros; apply only_ret].
    - rewrite (U explain_EApply). apply only_bind; [apply (only_sub (EApply a b) o a _ eq_refl Sa Xa)|intros].
      apply only_bind; [apply (only_sub (EApply a b) o b _ eq_refl Sb Xb)|intros; apply only_ret].
  Qed.

  Lemma sub_tbl {A} (x : expr) (tbl : list (A * expr)) dflt v b : In (v, b) tbl -> In b (x :: map snd tbl ++ opt_list dflt).
  Proof. intros H. right. apply in_or_app. left. apply (in_map snd tbl (v, b) H). Qed.
  Lemma sub_dflt (x : expr) l d : In d (x :: l ++ opt_list (Some d)).
  Proof. right. apply in_or_app. right. now left. Qed.

  Lemma runs_bind src tbl dflt :
    runsQ src -> Forall (fun ve => runsQ (snd ve)) tbl -> Popt runsQ dflt -> runsQ (EBind src tbl dflt).
  Proof.
    intros Hs Ht Hd o. pose (e := EBind src tbl dflt).
    assert (Ssrc : In src (subs e)) by now left.
    assert (Csrc : only (allowed e o) (ev src o)) by (apply only_chooser; now left).
    assert (Hpick : forall (A : Type) (m : expr -> MU A) x, (forall b, runsQ b -> only (allowed b o) (m b)) ->
              only (allowed e o) (pick x m (match dflt with Some d => m d | None => fail unit (CUser 0) false end) tbl)).
    { intros A m x Hm. apply only_pick.
      - intros v b Hin. apply (only_sub e o b _ eq_refl (sub_tbl src tbl dflt v b Hin)). apply Hm, (Forall_snd_In runsQ tbl v b Ht Hin).
      - destruct dflt as [d|]; [|apply only_fail]. apply (only_sub e o d _ eq_refl (sub_dflt src _ d)). apply Hm, Hd. }
    split; [|split].
    - rewrite (U validate_EBind). apply only_bind; [apply (only_sub e o src _ eq_refl Ssrc), (proj1 (Hs o))|]. intros _ _.
      apply only_bind; [exact Csrc|]. intros x _. apply (Hpick _ (fun b => va b o)). intros b Hb. apply (proj1 (Hb o)).
    - rewrite (U keys_EBind). apply only_bind; [apply (only_sub e o src _ eq_refl Ssrc), (proj1 (proj2 (Hs o)))|]. intros a _.
      apply only_bind; [exact Csrc|]. intros x _. apply only_bind; [|intros; apply only_ret].
      apply (Hpick _ (fun b => ks b o)). intros b Hb. apply (proj1 (proj2 (Hb o))).
    - rewrite (U explain_EBind). apply only_catch; [|intros c [|] _; apply only_fail].
      apply only_bind; [apply (only_sub e o src _ eq_refl Ssrc), (proj2 (proj2 (Hs o)))|]. intros a _.
      apply only_bind; [exact Csrc|]. intros x _. apply only_bind; [|intros; apply only_ret].
      apply (Hpick _ (fun b => ex b o)). intros b Hb. apply (proj2 (proj2 (Hb o))).
  Qed.

  Lemma only_dispatch P (m : MU value) hd : only P m -> only P (dispatch_value unit m hd).
  Proof.
    intros Hm. unfold dispatch_value. apply only_catch.
    - apply only_bind; [exact Hm|intros; apply only_ret].
    - intros c ee _. destruct (ee && hd); [apply only_ret|apply only_fail].
  Qed.

  Lemma runs_switch disp tbl dflt :
    runsQ disp -> Forall (fun ve => runsQ (snd ve)) tbl -> Popt runsQ dflt -> runsQ (ESwitch disp tbl dflt).
  Proof.
    intros Hs Ht Hd o. pose (e := ESwitch disp tbl dflt).
    assert (Sd : In disp (subs e)) by now left.
    assert (Cd : only (allowed e o) (dispatch_value unit (ev disp o) (is_some dflt))).
    { apply only_dispatch. apply only_chooser. now left. }
    assert (Hdf : forall (A : Type) (m : expr -> MU A) c ee, (forall b, runsQ b -> only (allowed b o) (m b)) ->
              only (allowed e o) (match dflt with Some d => m d | None => fail unit c ee end)).
    { intros A m c ee Hm. destruct dflt as [d|]; [|apply only_fail]. apply (only_sub e o d _ eq_refl (sub_dflt disp _ d)). apply Hm, Hd. }
    assert (Hpick : forall (A : Type) (m : expr -> MU A) x c, (forall b, runsQ b -> only (allowed b o) (m b)) ->
              only (allowed e o) (pick x m (match dflt with Some d => m d | None => fail unit c true end) tbl)).
    { intros A m x c Hm. apply only_pick; [|now apply Hdf].
      intros v b Hin. apply (only_sub e o b _ eq_refl (sub_tbl disp tbl dflt v b Hin)). apply Hm, (Forall_snd_In runsQ tbl v b Ht Hin). }
    split; [|split].
    - rewrite (U validate_ESwitch). apply only_bind; [exact Cd|]. intros [k|] _.
      + destruct (negb (hashable k)); [apply only_fail|]. apply (Hpick _ (fun b => va b o)). intros b Hb. apply (proj1 (Hb o)).
      + apply (Hdf _ (fun b => va b o)). intros b Hb. apply (proj1 (Hb o)).
    - rewrite (U keys_ESwitch). apply only_bind; [exact Cd|]. intros [k|] _.
      + destruct (negb (hashable k)); [apply only_fail|]. apply only_bind.
        * apply (Hpick _ (fun b => ks b o)). intros b Hb. apply (proj1 (proj2 (Hb o))).
        * intros a _. apply only_bind; [apply (only_sub e o disp _ eq_refl Sd), (proj1 (proj2 (Hs o)))|intros; apply only_ret].
      + apply (Hdf _ (fun b => ks b o)). intros b Hb. apply (proj1 (proj2 (Hb o))).
    - rewrite (U explain_ESwitch). apply only_bind.
      { apply only_catch; [exact Cd|intros c [|] _; apply only_fail]. }
      intros [k|] _.
      + destruct (negb (hashable k)); [apply only_fail|]. apply only_bind.
        * apply (Hpick _ (fun b => ex b o)). intros b Hb. apply (proj2 (proj2 (Hb o))).
        * intros a _. apply only_bind; [apply (only_sub e o disp _ eq_refl Sd), (proj2 (proj2 (Hs o)))|intros; apply only_ret].
      + apply (Hdf _ (fun b => ex b o)). intros b Hb. apply (proj2 (proj2 (Hb o))).
  Qed.

  Lemma only_case_go {A} disp cases dflt x o (onres : expr -> MU A) dm :
    rs (ev disp o) = Ok x ->
    (forall c r, In (c, r) cases -> only (allowed (ECase disp cases dflt) o) (onres r)) ->
    only (allowed (ECase disp cases dflt) o) dm ->
    forall cs, incl cs cases -> only (allowed (ECase disp cases dflt) o) (case_go u rfuel x o onres dm cs).
  Proof.
    intros Hx Hr Hdm. induction cs as [|[c r] cs IH]; intros Hi; [exact Hdm|].
    assert (Hin : In (c, r) cases) by (apply Hi; now left).
    cbn [case_go]. apply only_bind.
    - apply only_chooser. right. apply (in_map fst cases (c, r) Hin).
    - intros p Hp. apply only_bind.
      + intros evt Hev _. apply (al_cond disp cases dflt o c r p x evt Hin Hp Hx Hev).
      + intros b _. destruct (truthy b); [apply (Hr c r Hin)|]. apply IH. intros y Hy. apply Hi. now right.
  Qed.

  Lemma runs_case disp cases dflt :
    runsQ disp -> Forall (fun cr => runsQ (fst cr) /\ runsQ (snd cr)) cases -> Popt runsQ dflt -> runsQ (ECase disp cases dflt).
  Proof.
    intros Hs Hc Hd o. pose (e := ECase disp cases dflt). rewrite Forall_forall in Hc.
    assert (Sd : In disp (subs e)) by now left.
    assert (Cd : only (allowed e o) (ev disp o)) by (apply only_chooser; now left).
    assert (Hgo : forall (A : Type) (m : expr -> MU A) x c ee, rs (ev disp o) = Ok x -> (forall b, runsQ b -> only (allowed b o) (m b)) ->
              only (allowed e o) (case_go u rfuel x o m (dflt_or dflt m c ee) cases)).
    { intros A m x c ee Hx Hm. apply only_case_go; [exact Hx| | |apply incl_refl].
      - intros c0 r Hin. apply (only_sub e o r _ eq_refl (sub_tbl disp cases dflt c0 r Hin)). apply Hm, (proj2 (Hc (c0, r) Hin)).
      - unfold dflt_or. destruct dflt as [d|]; [|apply only_fail]. apply (only_sub e o d _ eq_refl (sub_dflt disp _ d)). apply Hm, Hd. }
    split; [|split].
    - rewrite va_case. apply only_bind; [apply (only_sub e o disp _ eq_refl Sd), (proj1 (Hs o))|]. intros _ _.
      apply only_bind; [exact Cd|]. intros x Hx. apply (Hgo _ (fun r => va r o) x _ _ Hx). intros b Hb. apply (proj1 (Hb o)).
    - rewrite ks_case. apply only_bind; [apply (only_sub e o disp _ eq_refl Sd), (proj1 (proj2 (Hs o)))|]. intros a _.
      apply only_bind; [exact Cd|]. intros x Hx. apply only_bind; [|intros; apply only_ret].
      apply (Hgo _ (fun r => ks r o) x _ _ Hx). intros b Hb. apply (proj1 (proj2 (Hb o))).
    - rewrite ex_case. apply only_catch; [|intros c [|] _; apply only_fail].
      apply only_bind; [apply (only_sub e o disp _ eq_refl Sd), (proj2 (proj2 (Hs o)))|]. intros a _.
      apply only_bind; [exact Cd|]. intros x Hx. apply only_bind; [|intros; apply only_ret].
      apply (Hgo _ (fun r => ex r o) x _ _ Hx). intros b Hb. apply (proj2 (proj2 (Hb o))).
  Qed.

  Lemma only_coal_go {A} P o (act : expr -> MU A) ms :
    (forall m, In m ms -> only P (va m o) /\ only P (act m)) ->
    forall last, only P (coal_go u rfuel o act ms last).
  Proof.
    induction ms as [|m ms IH]; intros H last.
    - destruct last as [[c ee]|]; apply only_fail.
    - cbn [coal_go]. destruct (H m (or_introl eq_refl)) as [Hv Ha]. apply only_catch.
      + apply only_bind; [exact Hv|intros; exact Ha].
      + intros c [|] _; [|apply only_fail]. apply IH. intros m' Hm'. apply H. now right.
  Qed.

  Definition last_go (o : dict) : list expr -> MU (list key) :=
    fix last (ms : list expr) : MU (list key) :=
      match ms with
      | [] => fail unit CUnmodelled false
      | [m] => ex m o
      | _ :: ms' => last ms'
      end.
  Lemma ex_coalesce ms o :
    ex (ECoalesce ms) o =
      catch unit (coal_go u rfuel o (fun m => ex m o) ms None)
            (fun c ee => if ee then last_go o ms else fail unit c ee).
  Proof. reflexivity. Qed.

  Lemma runs_coalesce ms : Forall runsQ ms -> runsQ (ECoalesce ms).
  Proof.
    intros HQ o. pose (e := ECoalesce ms). rewrite Forall_forall in HQ.
    assert (Hm : forall (A : Type) (act : expr -> MU A), (forall b, runsQ b -> only (allowed b o) (act b)) ->
              forall m, In m ms -> only (allowed e o) (va m o) /\ only (allowed e o) (act m)).
    { intros A act Ha m Hin. split; apply (only_sub e o m _ eq_refl Hin); [apply (proj1 (HQ m Hin o))|apply Ha, (HQ m Hin)]. }
    split; [|split].
    - rewrite va_coalesce. apply only_coal_go. apply (Hm _ (fun m => va m o)). intros b Hb. apply (proj1 (Hb o)).
    - rewrite ks_coalesce. apply only_coal_go. apply (Hm _ (fun m => ks m o)). intros b Hb. apply (proj1 (proj2 (Hb o))).
    - rewrite ex_coalesce. apply only_catch.
      + apply only_coal_go. apply (Hm _ (fun m => ex m o)). intros b Hb. apply (proj2 (proj2 (Hb o))).
      + intros c [|] _; [|apply only_fail].
        assert (G : forall l, incl l ms -> only (allowed e o) (last_go o l)).
        { induction l as [|m [|m' l] IH]; intros Hi; [apply only_fail| |].
          - cbn [last_go]. apply (only_sub e o m _ eq_refl (Hi m (or_introl eq_refl))), (proj2 (proj2 (HQ m (Hi m (or_introl eq_refl)) o))).
          - apply IH. intros y Hy. apply Hi. now right. }
        apply G, incl_refl.
  Qed.

  Lemma runs_iter es : Forall runsQ es -> runsQ (EIter es).
  Proof.
    intros HQ o. rewrite Forall_forall in HQ. split; [|split].
    - rewrite (U validate_EIter). apply only_iterM. intros x Hx. apply (only_sub (EIter es) o x _ eq_refl Hx), (proj1 (HQ x Hx o)).
    - rewrite (U keys_EIter). apply only_unionM. intros x Hx. apply (only_sub (EIter es) o x _ eq_refl Hx), (proj1 (proj2 (HQ x Hx o))).
    - rewrite (U explain_EIter). apply only_unionM. intros x Hx. apply (only_sub (EIter es) o x _ eq_refl Hx), (proj2 (proj2 (HQ x Hx o))).
  Qed.

  Lemma runs_map e0 its : runsQ e0 -> Forall (fun ke => runsQ (snd ke)) its -> runsQ (EMap e0 its).
  Proof.
    intros He Hi o. pose (e := EMap e0 its). rewrite Forall_forall in Hi.
    assert (Sit : forall kv, In kv its -> reaches e o (snd kv) o).
    { intros kv H. left. split; [apply (in_map snd its kv H)|reflexivity]. }
    assert (Sfall : reaches e o e0 o) by (right; split; [reflexivity|now left]).
    assert (Rows : only (allowed e o) (map_rows unit (fun x => ev x o) its)).
    { unfold map_rows. apply only_bind; [|intros; apply only_ret]. apply only_mapM. intros kv Hkv.
      apply only_bind; [apply only_chooser, (in_map snd its kv Hkv)|intros; apply quiet_only, quiet_force]. }
    assert (Hits : forall (m : expr -> MU (list key)), (forall b, runsQ b -> only (allowed b o) (m b)) ->
              only (allowed e o) (unionM unit (fun kv : key * expr => m (snd kv)) its)).
    { intros m Hm. apply only_unionM. intros kv Hkv. apply (only_at e o (snd kv) o _ (Sit kv Hkv)). apply Hm, (Hi kv Hkv). }
    assert (Srow : forall rows row os, rs (map_rows unit (fun x => ev x o) its) = Ok rows -> In row rows ->
              rs (row_options unit row) = Ok os -> reaches e o e0 (with_opts true os o)).
    { intros rows row os Hr Hin Hos. right. split; [reflexivity|]. right. now exists rows, row, os. }
    assert (Hrow : forall (m : expr -> dict -> MU (list key)), (forall d, only (allowed e0 d) (m e0 d)) -> forall rows,
              rs (map_rows unit (fun x => ev x o) its) = Ok rows ->
              only (allowed e o) (unionM unit (fun row => bind unit (row_options unit row) (fun os =>
                 let mixed := with_opts true os o in bind unit (m e0 mixed) (fun l => filter_preset unit true os o mixed l))) rows)).
    { intros m Hm rows Hr. apply only_unionM. intros row Hin. apply only_bind; [apply quiet_only, quiet_row_options|]. intros os Hos.
      cbv zeta. apply only_bind; [apply (only_at e o e0 _ _ (Srow rows row os Hr Hin Hos)), Hm|intros; apply quiet_only, quiet_filter_preset]. }
    split; [|split].
    - rewrite (U validate_EMap). apply only_bind; [exact Rows|]. intros rows Hr. apply only_iterM. intros row Hin.
      apply only_bind; [apply quiet_only, quiet_row_options|]. intros os Hos.
      apply (only_at e o e0 _ _ (Srow rows row os Hr Hin Hos)), (proj1 (He _)).
    - rewrite (U keys_EMap). apply only_bind; [exact Rows|]. intros rows Hr.
      apply only_bind; [apply (Hrow (fun x d => ks x d)); [intros d; apply (proj1 (proj2 (He d)))|exact Hr]|]. intros a _.
      apply only_bind; [|intros; apply only_ret]. apply (Hits (fun x => ks x o)). intros b Hb. apply (proj1 (proj2 (Hb o))).
    - rewrite (U explain_EMap). apply only_catch.
      + apply only_bind; [exact Rows|]. intros rows Hr.
        apply only_bind; [apply (Hrow (fun x d => ex x d)); [intros d; apply (proj2 (proj2 (He d)))|exact Hr]|]. intros a _.
        apply only_bind; [|intros; apply only_ret]. apply (Hits (fun x => ex x o)). intros b Hb. apply (proj2 (proj2 (Hb o))).
      + intros c [|] _; [|apply only_fail]. apply only_bind; [apply (only_at e o e0 o _ Sfall), (proj2 (proj2 (He o)))|]. intros a _.
        apply only_bind; [|intros; apply only_ret]. apply (Hits (fun x => ex x o)). intros b Hb. apply (proj2 (proj2 (Hb o))).
  Qed.

  Lemma runs_with f p e0 : runsQ e0 -> runsQ (EWith f p e0).
  Proof.
    intros He o.
    assert (Se : reaches (EWith f p e0) o e0 (with_opts f p o)) by (split; reflexivity). split; [|split].
    - rewrite (U validate_EWith). apply (only_at _ _ _ _ _ Se), (proj1 (He _)).
    - rewrite (U keys_EWith). cbv zeta. apply only_bind; [apply (only_at _ _ _ _ _ Se), (proj1 (proj2 (He _)))|intros; apply quiet_only, quiet_filter_preset].
    - rewrite (U explain_EWith). cbv zeta. apply only_bind; [apply (only_at _ _ _ _ _ Se), (proj2 (proj2 (He _)))|intros; apply quiet_only, quiet_filter_preset].
  Qed.
  Lemma runs_cached c e0 : runsQ e0 -> runsQ (ECached c e0).
  Proof.
    intros He o. assert (Se : In e0 (subs (ECached c e0))) by now left. split; [|split].
    - rewrite va_cached. apply (only_sub (ECached c e0) o e0 _ eq_refl Se), (proj1 (He _)).
    - change (ks (ECached c e0) o) with (ks e0 o). apply (only_sub (ECached c e0) o e0 _ eq_refl Se), (proj1 (proj2 (He _))).
    - change (ex (ECached c e0) o) with (ex e0 o). apply (only_sub (ECached c e0) o e0 _ eq_refl Se), (proj2 (proj2 (He _))).
  Qed.
  Lemma runs_logged e0 : runsQ e0 -> runsQ (ELogged e0).
  Proof.
    intros He o. assert (Se : In e0 (subs (ELogged e0))) by now left. split; [|split].
    - change (va (ELogged e0) o) with (va e0 o). apply (only_sub (ELogged e0) o e0 _ eq_refl Se), (proj1 (He _)).
    - change (ks (ELogged e0) o) with (ks e0 o). apply (only_sub (ELogged e0) o e0 _ eq_refl Se), (proj1 (proj2 (He _))).
    - change (ex (ELogged e0) o) with (ex e0 o). apply (only_sub (ELogged e0) o e0 _ eq_refl Se), (proj2 (proj2 (He _))).
  Qed.

  Lemma runs_call pa f args kwargs : runsQ f -> Forall runsQ args -> Forall runsQ kwargs -> runsQ (ECall pa f args kwargs).
  Proof.
    intros Hf Ha Hk o. pose (e := ECall pa f args kwargs). rewrite Forall_forall in Ha, Hk.
    assert (Sf : In f (subs e)) by now left.
    assert (Sa : forall x, In x args -> In x (subs e)) by (intros x H; right; apply in_or_app; now left).
    assert (Sk : forall x, In x kwargs -> In x (subs e)) by (intros x H; right; apply in_or_app; now right).
    split; [|split].
    - rewrite (U validate_ECall). apply only_bind; [apply (only_sub e o f _ eq_refl Sf), (proj1 (Hf o))|]. intros _ _.
      apply only_bind; [apply only_iterM; intros x Hx; apply (only_sub e o x _ eq_refl (Sa x Hx)), (proj1 (Ha x Hx o))|]. intros _ _.
      apply only_iterM; intros x Hx; apply (only_sub e o x _ eq_refl (Sk x Hx)), (proj1 (Hk x Hx o)).
    - rewrite (U keys_ECall). apply only_bind; [apply (only_sub e o f _ eq_refl Sf), (proj1 (proj2 (Hf o)))|]. intros a _.
      apply only_bind; [apply only_unionM; intros x Hx; apply (only_sub e o x _ eq_refl (Sa x Hx)), (proj1 (proj2 (Ha x Hx o)))|]. intros b _.
      apply only_bind; [apply only_unionM; intros x Hx; apply (only_sub e o x _ eq_refl (Sk x Hx)), (proj1 (proj2 (Hk x Hx o)))|intros; apply only_ret].
    - rewrite (U explain_ECall). apply only_bind; [apply (only_sub e o f _ eq_refl Sf), (proj2 (proj2 (Hf o)))|]. intros a _.
      apply only_bind; [apply only_unionM; intros x Hx; apply (only_sub e o x _ eq_refl (Sa x Hx)), (proj2 (proj2 (Ha x Hx o)))|]. intros b _.
      apply only_bind; [apply only_unionM; intros x Hx; apply (only_sub e o x _ eq_refl (Sk x Hx)), (proj2 (proj2 (Hk x Hx o)))|intros; apply only_ret].
  Qed.

  Lemma runs_template s ps : Forall (fun pe => runsQ (snd pe)) ps -> runsQ (ETemplate s ps).
  Proof.
    intros HQ o. pose (e := ETemplate s ps). rewrite Forall_forall in HQ.
    assert (Sp : forall pe, In pe ps -> In (snd pe) (subs e)) by (intros pe H; apply (in_map snd ps pe H)).
    split; [|split].
    - rewrite (U validate_ETemplate). apply only_bind.
      + apply only_iterM. intros pe Hpe. apply (only_sub e o (snd pe) _ eq_refl (Sp pe Hpe)), (proj1 (HQ pe Hpe o)).
      + intros _ _. apply only_iterM. intros k _. apply only_bind; [apply quiet_only, quiet_rd|]. intros r _.
        destruct r as [raw| |]; [|apply only_fail|apply only_fail].
        apply only_bind; [apply quiet_only, quiet_emit_reads|]. intros _ _.
        apply only_bind; [apply only_wrap, quiet_only, quiet_of_rres|intros; apply only_ret].
    - rewrite (U keys_ETemplate). apply only_bind.
      + apply only_unionM. intros pe Hpe. apply (only_sub e o (snd pe) _ eq_refl (Sp pe Hpe)), (proj1 (proj2 (HQ pe Hpe o))).
      + intros a _. apply only_bind; [|intros; apply only_ret]. apply only_unionM. intros k _. apply quiet_only, quiet_ref_keys.
    - rewrite (U explain_ETemplate). apply only_bind.
      + apply only_unionM. intros pe Hpe. apply (only_sub e o (snd pe) _ eq_refl (Sp pe Hpe)), (proj2 (proj2 (HQ pe Hpe o))).
      + intros a _. apply only_bind; [|intros; apply only_ret]. apply only_unionM. intros k _. apply quiet_only, quiet_ref_keys.
  Qed.

  Lemma runs_comp e0 effs : runsQ e0 -> Forall runsQ effs -> runsQ (EComp e0 effs).
  Proof.
    intros He Hf o. pose (e := EComp e0 effs). rewrite Forall_forall in Hf.
    assert (Se : In e0 (subs e)) by now left.
    assert (Sf : forall x, In x effs -> In x (subs e)) by (intros x H; now right).
    split; [|split].
    - rewrite (U validate_EComp). apply only_bind; [apply (only_sub e o e0 _ eq_refl Se), (proj1 (He o))|]. intros _ _.
      destruct (effects_opt_off o); [apply only_ret|]. apply only_iterM. intros x Hx. apply (only_sub e o x _ eq_refl (Sf x Hx)), (proj1 (Hf x Hx o)).
    - change (ks e o) with (ks e0 o). apply (only_sub e o e0 _ eq_refl Se), (proj1 (proj2 (He o))).
    - rewrite (U explain_EComp). apply only_bind; [apply (only_sub e o e0 _ eq_refl Se), (proj2 (proj2 (He o)))|]. intros a _.
      destruct (effects_opt_off o); [apply only_ret|]. apply only_bind; [|intros; apply only_ret].
      apply only_unionM. intros x Hx. apply (only_sub e o x _ eq_refl (Sf x Hx)), (proj2 (proj2 (Hf x Hx o))).
  Qed.

  Lemma runs_pipe steps : Forall runsQ steps -> runsQ (EPipe steps).
  Proof.
    intros HQ o. rewrite Forall_forall in HQ. split; [|split].
    - rewrite (U validate_EPipe). apply only_iterM. intros x Hx. apply (only_sub (EPipe steps) o x _ eq_refl Hx), (proj1 (HQ x Hx o)).
    - rewrite (U keys_EPipe). apply only_unionM. intros x Hx. apply (only_sub (EPipe steps) o x _ eq_refl Hx), (proj1 (proj2 (HQ x Hx o))).
    - rewrite (U explain_EPipe). apply only_unionM. intros x Hx. apply (only_sub (EPipe steps) o x _ eq_refl Hx), (proj2 (proj2 (HQ x Hx o))).
  Qed.

  Lemma runs_all : runsQ EAllOptions.
  Proof.
    intros o. split; [|split].
    - rewrite (U validate_EAllOptions). apply only_bind; [|intros; apply only_ret]. apply only_wrap.
      unfold all_options_eval. apply only_bind; [now apply only_emit|]. intros _ _.
      apply only_bind; [apply quiet_only, quiet_of_rres|intros; apply only_ret].
    - rewrite (U keys_EAllOptions). apply only_bind; [now apply only_emit|intros; apply only_ret].
    - rewrite (U explain_EAllOptions). apply only_bind; [now apply only_emit|intros; apply only_ret].
  Qed.

  Theorem runs_only_choosers e : runsQ e.
  Proof.
    induction e using expr_ind'.
    - apply runs_value.
    - now apply runs_option.
    - now apply runs_apply.
    - now apply runs_bind.
    - now apply runs_switch.
    - now apply runs_case.
    - now apply runs_coalesce.
    - now apply runs_iter.
    - now apply runs_map.
    - now apply runs_with.
    - now apply runs_cached.
    - now apply runs_call.
    - now apply runs_template.
    - now apply runs_comp.
    - now apply runs_logged.
    - now apply runs_pipe.
    - apply runs_all.
  Qed.
End Choosers.

(** *** on the observed reference functions; a chooser-free expression runs no user code *)
Inductive reach : expr -> expr -> Prop :=
| reach_refl e : reach e e
| reach_step e e' e'' : In e' (subs e) -> reach e' e'' -> reach e e''.

Lemma reaches_sub u rfuel e o e' o' : reaches u rfuel e o e' o' -> In e' (subs e).
Proof.
  destruct e; cbn [reaches subs]; try (now intros [H _]).
  - intros [[H _]|[-> _]]; [now right|now left].
  - intros [-> _]. now left.
Qed.

Lemma allowed_has_chooser u rfuel e o evt : allowed u rfuel e o evt -> exists e', reach e e' /\ choosers e' <> [].
Proof.
  induction 1 as [e o c evt Hc _|disp cases dflt o c r p x evt _ _ _ _|e o e' o' evt Hs _ IH].
  - exists e. split; [constructor|]. intros E. rewrite E in Hc. destruct Hc.
  - exists (ECase disp cases dflt). split; [constructor|discriminate].
  - destruct IH as [e'' [Hr Hc]]. exists e''. split; [|exact Hc].
    apply (reach_step e e' e''); [apply (reaches_sub u rfuel e o e' o' Hs)|exact Hr].
Qed.

Lemma validate_nc_lg u fuel e o :
  snd (validate_nc u fuel e o) = lg (validate unit nc_find nc_store cfg_nc u fuel (fun _ _ => true) e o).
Proof. unfold validate_nc, lg. destruct (validate _ _ _ _ _ _ _ e o tt) as [[r s] l]. reflexivity. Qed.
Lemma keys_nc_lg u fuel e o :
  snd (keys_nc u fuel e o) = lg (keys unit nc_find nc_store cfg_nc u fuel (fun _ _ => true) e o).
Proof. unfold keys_nc, lg. destruct (keys _ _ _ _ _ _ _ e o tt) as [[r s] l]. reflexivity. Qed.
Lemma explain_nc_lg u fuel e o :
  snd (explain_nc u fuel e o) = lg (explain unit nc_find nc_store cfg_nc u fuel (fun _ _ => true) e o).
Proof. unfold explain_nc, lg. destruct (explain _ _ _ _ _ _ _ e o tt) as [[r s] l]. reflexivity. Qed.

Theorem runs_only_choosers_nc u fuel e o evt :
  is_call evt = true ->
  In evt (snd (validate_nc u fuel e o)) \/ In evt (snd (keys_nc u fuel e o)) \/ In evt (snd (explain_nc u fuel e o)) ->
  allowed u fuel e o evt.
Proof.
  intros Hc H. rewrite validate_nc_lg, keys_nc_lg, explain_nc_lg in H.
  destruct (runs_only_choosers u fuel e o) as [Hv [Hk Hx]].
  destruct H as [H|[H|H]]; [apply (Hv evt H Hc)|apply (Hk evt H Hc)|apply (Hx evt H Hc)].
Qed.

Theorem chooser_free_runs_nothing_nc u fuel e o evt :
  (forall e', reach e e' -> choosers e' = []) ->
  In evt (snd (validate_nc u fuel e o)) \/ In evt (snd (keys_nc u fuel e o)) \/ In evt (snd (explain_nc u fuel e o)) ->
  is_call evt = false.
Proof.
  intros Hfree H. destruct (is_call evt) eqn:Hc; [|reflexivity]. exfalso.
  destruct (allowed_has_chooser u fuel e o evt (runs_only_choosers_nc u fuel e o evt Hc H)) as [e' [Hr Hne]].
  apply Hne, (Hfree e' Hr).
Qed.
