(** Proofs about Model/Threads.v (C15).  Every statement quantifies over ALL schedules
    (induction over the schedule with an invariant), all programs, any number of threads. *)
From Coq Require Import List NArith Bool Lia.
Import ListNotations.
From LV Require Import Model.Threads.

Lemma upd_same : forall A (f : thread -> A) t v, upd f t v t = v.
Proof. intros A f t v. unfold upd. rewrite N.eqb_refl. reflexivity. Qed.

Lemma upd_other : forall A (f : thread -> A) t u v, u <> t -> upd f t v u = f u.
Proof.
  intros A f t u v Hne. unfold upd. destruct (N.eqb u t) eqn:E.
  - apply N.eqb_eq in E. contradiction.
  - reflexivity.
Qed.

(** Case-splitting tactic for [step]: destruct every scrutinee that blocks reduction. *)
Ltac split_step :=
  repeat match goal with
  | |- context [match ?x with _ => _ end] =>
      match x with
      | context [match _ with _ => _ end] => fail 1
      | _ => destruct x eqn:?
      end
  end.

Ltac unfold_step :=
  unfold step, step_enter, step_exit, step_run, step_inherit, step_register, step_eval.

Section Proofs.
  Variable fpf : opts -> fpr.
  Variable valf : opts -> value.
  Variable fl : flags.

  Notation step := (step fpf valf fl).
  Notation run := (run fpf valf fl).
  Notation solo := (solo fpf valf fl).

  (** ---------------------------------------------------------------- frame
      An action of thread u touches neither the local state of another thread t, nor slot t of
      _RUNTIMES, nor stack t of _PREVIOUS; no action writes the heap or the defaults. *)
  Lemma step_other : forall u t s, u <> t ->
    tl (step u s) t = tl s t /\ runtimes (step u s) t = runtimes s t /\
    previous (step u s) t = previous s t.
  Proof.
    intros u t s Hne. assert (Hne' : t <> u) by congruence.
    unfold_step. split_step; simpl; rewrite ?(upd_other _ _ u t _ Hne'); auto.
  Qed.

  Lemma step_const : forall u s, heap (step u s) = heap s /\ defaults (step u s) = defaults s.
  Proof. intros u s. unfold_step. split_step; simpl; auto. Qed.

  Lemma run_const : forall sched s, heap (run sched s) = heap s /\ defaults (run sched s) = defaults s.
  Proof.
    induction sched as [|u sched IH]; intros s; simpl; [auto|].
    destruct (IH (step u s)) as [H1 H2]. destruct (step_const u s) as [H3 H4].
    split; congruence.
  Qed.

  Lemma run_other : forall sched t s, ~ In t sched ->
    tl (run sched s) t = tl s t /\ runtimes (run sched s) t = runtimes s t /\
    previous (run sched s) t = previous s t.
  Proof.
    induction sched as [|u sched IH]; intros t s Hnin; simpl; [auto|].
    assert (Hne : u <> t) by (intro; subst; apply Hnin; left; reflexivity).
    assert (Hnin' : ~ In t sched) by (intro; apply Hnin; right; assumption).
    destruct (IH t (step u s) Hnin') as (H1 & H2 & H3).
    destruct (step_other u t s Hne) as (H4 & H5 & H6).
    repeat split; congruence.
  Qed.

  (** ---------------------------------------------------------------- thread isolation
      The handler-relevant view of a thread: program, position, runtime register, observed tags,
      its slot of _RUNTIMES and its stack in _PREVIOUS. *)
  Definition lview (s : gstate) (t : thread) :=
    (prog (tl s t), pc (tl s t), rreg (tl s t), tags (tl s t), runtimes s t, previous s t).

  Definition sim (t : thread) (s s' : gstate) : Prop :=
    lview s t = lview s' t /\ heap s = heap s' /\ defaults s = defaults s'.

  Lemma no_inherit_tail : forall p, no_inherit p = true -> no_inherit (tail p) = true.
  Proof. intros [|o p] H; simpl in *; [reflexivity|]. apply andb_true_iff in H. tauto. Qed.

  (** what an own action does to the program: nothing, or drops the head operation *)
  Lemma step_prog : forall t s,
    prog (tl (step t s) t) = prog (tl s t) \/ prog (tl (step t s) t) = tail (prog (tl s t)).
  Proof.
    intros t s. unfold_step. split_step; simpl; rewrite ?upd_same; simpl; auto;
      match goal with H : prog _ = _ |- _ => rewrite H end; simpl; auto.
  Qed.

  Lemma step_no_inherit : forall t s,
    no_inherit (prog (tl s t)) = true -> no_inherit (prog (tl (step t s) t)) = true.
  Proof.
    intros t s H. destruct (step_prog t s) as [E|E]; rewrite E; auto using no_inherit_tail.
  Qed.

  (** An own action on two states that agree on the view yields states that agree on the view
      (for operations other than Inherit, which reads another thread's slot). *)
  Lemma step_own_sim : forall t s s',
    sim t s s' -> no_inherit (prog (tl s t)) = true -> sim t (step t s) (step t s').
  Proof.
    intros t s s' (Hv & Hh & Hd) Hni. unfold sim, lview in *.
    destruct (step_const t s) as [Hc1 Hc2]. destruct (step_const t s') as [Hc3 Hc4].
    split; [|split; congruence].
    clear Hc1 Hc2 Hc3 Hc4.
    unfold_step.
    destruct (tl s t) as [pg n rr tr vr ht tg ev] eqn:Ets.
    destruct (tl s' t) as [pg' n' rr' tr' vr' ht' tg' ev'] eqn:Ets'.
    simpl in Hv. inversion Hv as [[Hp Hn Hr Ht Hs Hpv]]; subst pg' n' rr' tg'.
    simpl in Hni.
    destruct pg as [|o rest]; simpl.
    - rewrite Ets, Ets'. simpl. rewrite Hs, Hpv. reflexivity.
    - destruct o; simpl in Hni; try discriminate Hni; simpl;
        rewrite <- ?Hs, <- ?Hpv, <- ?Hh, <- ?Hd;
        split_step; simpl; rewrite ?upd_same; simpl; try reflexivity; try congruence.
  Qed.

  Lemma isolation_gen : forall t sched s s',
    sim t s s' -> no_inherit (prog (tl s t)) = true ->
    sim t (run sched s) (solo t (count_thread t sched) s').
  Proof.
    intros t. induction sched as [|u sched IH]; intros s s' Hsim Hni; simpl; [assumption|].
    destruct (N.eqb u t) eqn:E.
    - apply N.eqb_eq in E. subst u. simpl. apply IH.
      + apply step_own_sim; assumption.
      + apply step_no_inherit; assumption.
    - apply N.eqb_neq in E. simpl. apply IH.
      + destruct Hsim as (Hv & Hh & Hd). unfold sim, lview in *.
        destruct (step_other u t s E) as (H1 & H2 & H3).
        destruct (step_const u s) as [H4 H5].
        rewrite H1, H2, H3, H4, H5. auto.
      + destruct (step_other u t s E) as (H1 & _). rewrite H1. assumption.
  Qed.

  (** Under ANY interleaving with ANY other threads, what thread t has observed (and its slot,
      its saved stack, its remaining program) is what it has after running alone for the same
      number of its own actions. *)
  Lemma thread_isolation : forall t sched s0,
    no_inherit (prog (tl s0 t)) = true ->
    let s := run sched s0 in
    let s' := solo t (count_thread t sched) s0 in
    tags (tl s t) = tags (tl s' t) /\ prog (tl s t) = prog (tl s' t) /\
    runtimes s t = runtimes s' t /\ previous s t = previous s' t.
  Proof.
    intros t sched s0 Hni s s'.
    assert (Hsim : sim t s0 s0) by (unfold sim; auto).
    destruct (isolation_gen t sched s0 s0 Hsim Hni) as (Hv & _ & _).
    unfold lview in Hv. fold s s' in Hv. inversion Hv. auto.
  Qed.

  (** ---------------------------------------------------------------- inherit *)
  Definition serving (s : gstate) (t : thread) (q : ty) : option tag :=
    serve (heap s) (defaults s) (slot_or_fresh (runtimes s t)) q.

  Lemma inherit_step : inherit_atomic fl = true -> forall s t p rest,
    prog (tl s t) = Inherit p :: rest ->
    runtimes (step t s) t = Some (slot_or_fresh (runtimes s p)) /\
    prog (tl (step t s) t) = rest.
  Proof.
    intros Hat s t p rest Hp. unfold step. rewrite Hp. unfold step_inherit. rewrite Hat.
    simpl. rewrite !upd_same. simpl. rewrite Hp. auto.
  Qed.

  (** After [Inherit p] thread t holds the runtime p had at that action (a fresh default runtime
      if p had none), and keeps it whatever the other threads (p included) do afterwards. *)
  Lemma inherit_snapshot : inherit_atomic fl = true -> forall s t p rest,
    prog (tl s t) = Inherit p :: rest ->
    forall sched, ~ In t sched ->
    let r := slot_or_fresh (runtimes s p) in
    let s' := run sched (step t s) in
    runtimes s' t = Some r /\ prog (tl s' t) = rest /\
    forall q, serving s' t q = serve (heap s) (defaults s) r q.
  Proof.
    intros Hat s t p rest Hp sched Hnin r s'.
    destruct (inherit_step Hat s t p rest Hp) as [H1 H2].
    destruct (run_other sched t (step t s) Hnin) as (H3 & H4 & _).
    destruct (run_const sched (step t s)) as [H5 H6].
    destruct (step_const t s) as [H7 H8].
    fold s' in H3, H4, H5, H6.
    assert (Hr : runtimes s' t = Some r) by (rewrite H4; exact H1).
    repeat split.
    - exact Hr.
    - rewrite H3. exact H2.
    - intros q. unfold serving. rewrite Hr, H5, H6, H7, H8. reflexivity.
  Qed.

  (** A request is answered by the handler of the thread's current runtime. *)
  Lemma run_observes : current_atomic fl = true -> forall s t q rest,
    prog (tl s t) = Run q :: rest ->
    tags (tl (step t s) t) = tags (tl s t) ++ [serving s t q] /\
    prog (tl (step t s) t) = rest.
  Proof.
    intros Hat s t q rest Hp. unfold step. rewrite Hp. unfold step_run. rewrite Hat.
    simpl. rewrite !upd_same. simpl. rewrite Hp. auto.
  Qed.

  (** Entering a runtime saves the thread's current one on ITS stack and installs the new one;
      the matching exit restores exactly what was saved (one atomic action each). *)
  Lemma enter_step : enter_atomic fl = true -> forall s t r rest,
    prog (tl s t) = Enter r :: rest ->
    runtimes (step t s) t = Some r /\ previous (step t s) t = runtimes s t :: previous s t /\
    prog (tl (step t s) t) = rest.
  Proof.
    intros Hat s t r rest Hp. unfold step. rewrite Hp. unfold step_enter. rewrite Hat.
    simpl. rewrite !upd_same. simpl. rewrite Hp. auto.
  Qed.

  Lemma exit_step : exit_atomic fl = true -> forall s t saved st rest,
    prog (tl s t) = Exit :: rest -> previous s t = saved :: st ->
    runtimes (step t s) t = saved /\ previous (step t s) t = st /\ prog (tl (step t s) t) = rest.
  Proof.
    intros Hat s t saved st rest Hp Hpv. unfold step. rewrite Hp. unfold step_exit. rewrite Hat, Hpv.
    simpl. rewrite !upd_same. simpl. rewrite Hp. auto.
  Qed.

  (** with r: <anything the OTHER threads do> : leaving the block restores the runtime the thread
      had before entering, whatever ran in between on other threads. *)
  Lemma enter_exit_restores : enter_atomic fl = true -> exit_atomic fl = true ->
    forall s t r rest, prog (tl s t) = Enter r :: Exit :: rest ->
    forall sched, ~ In t sched ->
    let s1 := run sched (step t s) in
    runtimes s1 t = Some r /\
    runtimes (step t s1) t = runtimes s t /\ previous (step t s1) t = previous s t.
  Proof.
    intros Hen Hex s t r rest Hp sched Hnin s1.
    destruct (enter_step Hen s t r (Exit :: rest) Hp) as (H1 & H2 & H3).
    destruct (run_other sched t (step t s) Hnin) as (H4 & H5 & H6). fold s1 in H4, H5, H6.
    split; [congruence|].
    assert (Hp1 : prog (tl s1 t) = Exit :: rest) by congruence.
    assert (Hpv1 : previous s1 t = runtimes s t :: previous s t) by congruence.
    destruct (exit_step Hex s1 t _ _ rest Hp1 Hpv1) as (H7 & H8 & _). auto.
  Qed.

  (** ---------------------------------------------------------------- register *)
  Lemma assoc_aset_same : forall A k (v : A) l, assoc k (aset k v l) = Some v.
  Proof.
    intros A k v. induction l as [|[k' v'] l IH]; simpl.
    - rewrite N.eqb_refl. reflexivity.
    - destruct (N.eqb k k') eqn:E; simpl.
      + rewrite N.eqb_refl. reflexivity.
      + rewrite E. exact IH.
  Qed.

  Lemma assoc_aset_other : forall A k k2 (v : A) l, k2 <> k -> assoc k2 (aset k v l) = assoc k2 l.
  Proof.
    intros A k k2 v l Hne. induction l as [|[k' v'] l IH]; simpl.
    - destruct (N.eqb k2 k) eqn:E; [apply N.eqb_eq in E; contradiction|reflexivity].
    - destruct (N.eqb k k') eqn:E; simpl.
      + apply N.eqb_eq in E. subst k'.
        destruct (N.eqb k2 k) eqn:E2; [apply N.eqb_eq in E2; contradiction|reflexivity].
      + destruct (N.eqb k2 k'); [reflexivity|exact IH].
  Qed.

  Definition replay (log : list (alias * impl)) (tb : list (alias * impl)) :=
    fold_left (fun tb p => aset (fst p) (snd p) tb) log tb.

  Lemma replay_app : forall l1 l2 tb, replay (l1 ++ l2) tb = replay l2 (replay l1 tb).
  Proof. intros. unfold replay. apply fold_left_app. Qed.

  (** last writer wins: the entry of alias a is the last registration of a in the log *)
  Lemma assoc_replay : forall log tb a,
    assoc a (replay log tb) =
      match assoc a (rev log) with Some i => Some i | None => assoc a tb end.
  Proof.
    induction log as [|[b j] log IH] using rev_ind; intros tb a; [reflexivity|].
    rewrite replay_app, rev_app_distr. simpl.
    destruct (N.eqb a b) eqn:E.
    - apply N.eqb_eq in E. subst b. apply assoc_aset_same.
    - apply N.eqb_neq in E. rewrite assoc_aset_other by assumption. apply IH.
  Qed.

  (** effect of one action on table / log / own program when the read-modify-write is atomic *)
  Lemma step_reg_cases : register_rmw_atomic fl = true -> forall u s,
    (exists a i rest, prog (tl s u) = Register a i :: rest /\
       table (step u s) = aset a i (table s) /\ reglog (step u s) = reglog s ++ [(a, i)] /\
       prog (tl (step u s) u) = rest)
    \/
    ((forall a i rest, prog (tl s u) <> Register a i :: rest) /\
       table (step u s) = table s /\ reglog (step u s) = reglog s /\
       (prog (tl (step u s) u) = prog (tl s u) \/ prog (tl (step u s) u) = tail (prog (tl s u)))).
  Proof.
    intros Hat u s. destruct (prog (tl s u)) as [|o rest] eqn:Hp.
    - right. unfold step. rewrite Hp. repeat split; auto. intros; discriminate.
    - destruct o.
      6: { right. split; [intros; discriminate|].
           pose proof (step_prog u s) as Hsp. rewrite Hp in Hsp.
           unfold step in *. rewrite Hp in *. unfold step_eval in *.
           split_step; simpl; auto. }
      5: { left. exists a, i, rest. unfold step. rewrite Hp. unfold step_register. rewrite Hat.
           simpl. rewrite upd_same. simpl. rewrite Hp. auto. }
      all: right; (split; [intros; discriminate|]);
        pose proof (step_prog u s) as Hsp; rewrite Hp in Hsp;
        unfold step in *; rewrite Hp in *;
        unfold step_enter, step_exit, step_run, step_inherit in *;
        split_step; simpl; auto.
  Qed.

  (** invariant 1: the table is the replay of the log of register writes *)
  Lemma table_is_replay : register_rmw_atomic fl = true -> forall sched s tb0,
    table s = replay (reglog s) tb0 ->
    table (run sched s) = replay (reglog (run sched s)) tb0.
  Proof.
    intros Hat. induction sched as [|u sched IH]; intros s tb0 Hinv; simpl; [assumption|].
    apply IH.
    destruct (step_reg_cases Hat u s) as [(a & i & rest & _ & Ht & Hl & _)|(_ & Ht & Hl & _)].
    - rewrite Ht, Hl, replay_app, <- Hinv. reflexivity.
    - rewrite Ht, Hl. assumption.
  Qed.

  (** invariant 2: an alias some thread still has to register, or has in the table *)
  Definition pending (s : gstate) (a : alias) : Prop :=
    exists t i, In (Register a i) (prog (tl s t)).
  Definition present (s : gstate) (a : alias) : Prop :=
    exists i, assoc a (table s) = Some i.

  Lemma present_aset : forall (tb : list (alias * impl)) a b j,
    (exists i, assoc a tb = Some i) -> exists i, assoc a (aset b j tb) = Some i.
  Proof.
    intros tb a b j [i Hi]. destruct (N.eqb a b) eqn:E.
    - apply N.eqb_eq in E. subst b. exists j. apply assoc_aset_same.
    - apply N.eqb_neq in E. exists i. rewrite assoc_aset_other; assumption.
  Qed.

  Lemma step_pending_or_present : register_rmw_atomic fl = true -> forall u s a,
    pending s a \/ present s a -> pending (step u s) a \/ present (step u s) a.
  Proof.
    intros Hat u s a [Hpend|Hpres].
    - destruct Hpend as (t & i & Hin).
      destruct (N.eq_dec u t) as [Heq|Hne].
      + subst u.
        destruct (step_reg_cases Hat t s) as [(b & j & rest & Hp & Ht & _ & Hp')|(Hno & _ & _ & Hp')].
        * rewrite Hp in Hin. destruct Hin as [Hhd|Htl].
          -- inversion Hhd; subst b j. right. exists i. rewrite Ht. apply assoc_aset_same.
          -- left. exists t, i. rewrite Hp'. exact Htl.
        * destruct Hp' as [Hp'|Hp'].
          -- left. exists t, i. rewrite Hp'. exact Hin.
          -- destruct (prog (tl s t)) as [|o rest] eqn:Hp; [destruct Hin|].
             destruct Hin as [Hhd|Htl].
             ++ subst o. exfalso. apply (Hno a i rest). reflexivity.
             ++ left. exists t, i. rewrite Hp'. simpl. exact Htl.
      + left. exists t, i. destruct (step_other u t s Hne) as (H1 & _). rewrite H1. exact Hin.
    - right. destruct (step_reg_cases Hat u s) as [(b & j & rest & _ & Ht & _)|(_ & Ht & _)].
      + unfold present. rewrite Ht. apply present_aset. exact Hpres.
      + unfold present. rewrite Ht. exact Hpres.
  Qed.

  (** If the read-modify-write is atomic then, once every program has finished, every alias any
      thread registered is in the table, and the table is the replay of the register writes in
      the order they took effect (so each alias maps to its last writer's implementation). *)
  Lemma register_all_present : register_rmw_atomic fl = true -> forall sched s0,
    reglog s0 = [] ->
    let sf := run sched s0 in
    (forall t, prog (tl sf t) = []) ->
    (forall t a i, In (Register a i) (prog (tl s0 t)) -> exists j, assoc a (table sf) = Some j) /\
    table sf = replay (reglog sf) (table s0) /\
    (forall a, assoc a (table sf) =
       match assoc a (rev (reglog sf)) with Some i => Some i | None => assoc a (table s0) end).
  Proof.
    intros Hat sched s0 Hlog sf Hdone.
    assert (Hrep : table sf = replay (reglog sf) (table s0)).
    { apply table_is_replay; [assumption|]. rewrite Hlog. reflexivity. }
    split; [|split; [exact Hrep|]].
    - intros t a i Hin.
      assert (Hinv : forall sched s, pending s a \/ present s a ->
                pending (run sched s) a \/ present (run sched s) a).
      { induction sched0 as [|u sched0 IH]; intros s H; simpl; [assumption|].
        apply IH. apply step_pending_or_present; assumption. }
      destruct (Hinv sched s0) as [(t' & i' & Hin')|Hpres].
      + left. exists t, i. exact Hin.
      + fold sf in Hin'. rewrite Hdone in Hin'. destruct Hin'.
      + exact Hpres.
    - intros a. rewrite Hrep. apply assoc_replay.
  Qed.

  (** ---------------------------------------------------------------- concurrent cached evaluation *)
  Hypothesis fp_val : forall o o', fpf o = fpf o' -> valf o = valf o'.

  Definition cache_inv (c : list (fpr * value)) : Prop :=
    forall f v, assoc f c = Some v -> forall o, fpf o = f -> v = valf o.
  Definition loc_inv (ts : tstate) : Prop :=
    (forall o v, In (o, v) (evals ts) -> v = valf o) /\
    (forall v, vreg ts = Some v -> exists o rest, prog ts = EvalCached o :: rest /\ v = valf o).
  Definition einv (s : gstate) : Prop := cache_inv (cache s) /\ forall t, loc_inv (tl s t).

  Lemma cache_inv_aset : forall c o, cache_inv c -> cache_inv (aset (fpf o) (valf o) c).
  Proof.
    intros c o Hc f v Ha o2 Hf. destruct (N.eq_dec f (fpf o)) as [E|E].
    - rewrite E in Ha, Hf. rewrite assoc_aset_same in Ha. inversion Ha; subst v. symmetry.
      apply fp_val. exact Hf.
    - rewrite assoc_aset_other in Ha by assumption. exact (Hc f v Ha o2 Hf).
  Qed.

  (** operations other than EvalCached touch neither the cache nor the evaluation registers *)
  Lemma step_noneval : forall u s,
    (forall o rest, prog (tl s u) <> EvalCached o :: rest) ->
    cache (step u s) = cache s /\ evals (tl (step u s) u) = evals (tl s u) /\
    vreg (tl (step u s) u) = vreg (tl s u).
  Proof.
    intros u s Hno. unfold step. destruct (prog (tl s u)) as [|o rest] eqn:Hp; [auto|].
    destruct o; try (exfalso; eapply Hno; reflexivity);
      unfold step_enter, step_exit, step_run, step_inherit, step_register;
      split_step; simpl; rewrite ?upd_same; simpl; auto.
  Qed.

  Lemma loc_inv_eval_step : forall s u o rest,
    einv s -> prog (tl s u) = EvalCached o :: rest ->
    cache_inv (cache (step u s)) /\ loc_inv (tl (step u s) u).
  Proof.
    intros s u o rest [Hc Hl] Hp. destruct (Hl u) as [He Hv].
    unfold step. rewrite Hp. unfold step_eval.
    destruct (pc (tl s u)) as [|[|[|n]]].
    - (* exists *) simpl. rewrite upd_same. split; [exact Hc|]. split; simpl; [exact He|].
      intros v H; discriminate H.
    - (* get *) destruct (hit (tl s u)).
      + destruct (assoc (fpf o) (cache s)) as [v|] eqn:Ha; simpl; rewrite upd_same;
          (split; [exact Hc|]); (split; simpl; [exact He|]).
        * intros v' H. inversion H; subst v'. exists o, rest. split; [exact Hp|].
          exact (Hc (fpf o) v Ha o eq_refl).
        * exact Hv.
      + simpl. rewrite upd_same. split; [exact Hc|]. split; simpl; [exact He|exact Hv].
    - (* compute *) destruct (vreg (tl s u)) as [v|] eqn:Hvr; simpl; rewrite upd_same;
        (split; [exact Hc|]); (split; simpl; [exact He|]).
      + rewrite Hvr. exact Hv.
      + intros v' H. inversion H; subst v'. exists o, rest. auto.
    - (* set / return *) destruct (vreg (tl s u)) as [v|] eqn:Hvr.
      + destruct (Hv v eq_refl) as (o' & rest' & Hp' & Hval).
        rewrite Hp in Hp'. inversion Hp'; subst o' rest'. subst v.
        destruct (hit (tl s u)); simpl; rewrite upd_same.
        * split; [exact Hc|]. split; simpl.
          -- intros o2 v2 Hin. apply in_app_or in Hin. destruct Hin as [Hin|[Hin|[]]].
             ++ exact (He o2 v2 Hin).
             ++ inversion Hin; subst. reflexivity.
          -- intros v' H; discriminate H.
        * split; [apply cache_inv_aset; exact Hc|]. split; simpl.
          -- intros o2 v2 Hin. apply in_app_or in Hin. destruct Hin as [Hin|[Hin|[]]].
             ++ exact (He o2 v2 Hin).
             ++ rewrite assoc_aset_same in Hin. inversion Hin; subst. reflexivity.
          -- intros v' H; discriminate H.
      + simpl. rewrite upd_same. split; [exact Hc|]. split; simpl; [exact He|].
        rewrite Hvr. intros v' H; discriminate H.
  Qed.

  Lemma einv_step : forall u s, einv s -> einv (step u s).
  Proof.
    intros u s Hinv. pose proof Hinv as [Hc Hl].
    destruct (prog (tl s u)) as [|o rest] eqn:Hp.
    - unfold step. rewrite Hp. exact Hinv.
    - assert (Hothers : forall t, t <> u -> loc_inv (tl (step u s) t)).
      { intros t Hne. assert (Hne' : u <> t) by congruence.
        destruct (step_other u t s Hne') as (H1 & _). rewrite H1. apply Hl. }
      destruct o.
      6: { destruct (loc_inv_eval_step s u o rest Hinv Hp) as [Hc' Hl'].
           split; [exact Hc'|]. intros t. destruct (N.eq_dec t u) as [E|E]; [subst t; exact Hl'|auto]. }
      all: (assert (Hno : forall o rest, prog (tl s u) <> EvalCached o :: rest)
              by (intros o' rest'; rewrite Hp; discriminate));
        destruct (step_noneval u s Hno) as (Hca & Hev & Hvr);
        (split; [rewrite Hca; exact Hc|]);
        intros t; (destruct (N.eq_dec t u) as [E|E]; [subst t|auto]);
        destruct (Hl u) as [He Hv]; (split; [rewrite Hev; exact He|]);
        intros v Hsome; rewrite Hvr in Hsome;
        destruct (Hv v Hsome) as (o' & rest' & Hp' & _); rewrite Hp in Hp'; discriminate Hp'.
  Qed.

  Lemma einv_run : forall sched s, einv s -> einv (run sched s).
  Proof.
    induction sched as [|u sched IH]; intros s H; simpl; [assumption|].
    apply IH. apply einv_step. assumption.
  Qed.

  (** Every EvalCached o returns valf o, under every interleaving, although several threads may
      compute and store the same entry. *)
  Lemma concurrent_eval_own_value : forall sched s0,
    cache_inv (cache s0) ->
    (forall t, vreg (tl s0 t) = None /\ evals (tl s0 t) = []) ->
    forall t o v, In (o, v) (evals (tl (run sched s0) t)) -> v = valf o.
  Proof.
    intros sched s0 Hc Hinit t o v Hin.
    assert (H0 : einv s0).
    { split; [exact Hc|]. intros t'. destruct (Hinit t') as [Hv He]. split.
      - rewrite He. intros o' v' H; destruct H.
      - rewrite Hv. intros v' H; discriminate H. }
    destruct (einv_run sched s0 H0) as [_ Hl]. destruct (Hl t) as [He _].
    exact (He o v Hin).
  Qed.

  (** ... and every entry of the shared cache holds the value of its fingerprint. *)
  Lemma cache_entries_own_value : forall sched s0,
    cache_inv (cache s0) ->
    (forall t, vreg (tl s0 t) = None /\ evals (tl s0 t) = []) ->
    cache_inv (cache (run sched s0)).
  Proof.
    intros sched s0 Hc Hinit.
    assert (H0 : einv s0).
    { split; [exact Hc|]. intros t'. destruct (Hinit t') as [Hv He]. split.
      - rewrite He. intros o' v' H; destruct H.
      - rewrite Hv. intros v' H; discriminate H. }
    exact (proj1 (einv_run sched s0 H0)).
  Qed.
End Proofs.

(** ---------------------------------------------------------------- lost update
    Without atomicity of the read-modify-write a registration can be lost: both threads read
    the (empty) table, then both write. *)
Lemma register_lost_update : forall fpf valf fl,
  register_rmw_atomic fl = false ->
  exists progs sched,
    let sf := run fpf valf fl sched (init_state [] [] progs) in
    (forall t, prog (tl sf t) = []) /\
    exists t a i, In (Register a i) (match assoc t progs with Some p => p | None => [] end) /\
                  assoc a (table sf) = None.
Proof.
  intros fpf valf fl Hna.
  exists [(1%N, [Register 1%N 10%N]); (2%N, [Register 2%N 20%N])], [1%N; 2%N; 1%N; 2%N].
  destruct fl as [b1 b2 b3 b4 b5 b6]. simpl in Hna. subst b6.
  split.
  - intros t.
    destruct (N.eq_dec t 1) as [E1|E1]; [subst t; vm_compute; reflexivity|].
    destruct (N.eq_dec t 2) as [E2|E2]; [subst t; vm_compute; reflexivity|].
    match goal with |- prog (tl (run _ _ ?f ?sc ?s0) t) = [] =>
      destruct (run_other fpf valf f sc t s0) as (H1 & _) end.
    + simpl. intros [H|[H|[H|[H|[]]]]]; congruence.
    + rewrite H1. simpl.
      apply N.eqb_neq in E1. apply N.eqb_neq in E2. rewrite E1, E2. reflexivity.
  - exists 1%N, 1%N, 10%N. split; [left; reflexivity|]. vm_compute. reflexivity.
Qed.
