(** C18: the LINK between the request layer (Model/Requests.v: [deval] / [dvalidate] / [dkeys] /
    [dexplain], program trees interpreted by [run H]) and the core model (Model/Eval.v: [eval] /
    [validate] / [keys] / [explain]).

    Part 1 (generic, every program tree): [erase] forgets the request layer of a tree (a
    request is its default action; a LogRequest is the core event [EvLogReq] followed by its
    default action) and [run_erase]: running a tree without handlers IS running its erasure,
    up to the projection [link_events] of the history (core events kept, [RIssued] of a
    LogRequest read as [EvLogReq] - the core model's name for "a LogRequest was issued" -, every
    other request-bookkeeping event forgotten).
    Part 2 (the four interpreters, all expressions, by one nested induction): the erasure of
    [deval p e o] is pointwise equal to [eval e o], and likewise for the three other methods,
    as soon as every class's [evaluate] is a request-issuing wrapper (whose default handler
    turns every exception into an EvaluationError: [wrap_eval]) and [Logged] issues its
    LogRequest - both implied by [table_ok rt]. *)
From Coq Require Import List NArith ZArith Bool Lia.
Import ListNotations.
From LV Require Import Model.Base Model.Template Model.Eval Model.Requests Proofs.EvalInd
  Proofs.EvalUnfold Proofs.C18Proofs.

(** ** The projection of a request-layer history onto a core history *)
Definition link1 (e : hev) : list event :=
  match e with
  | RCore c => [c]
  | RIssued r => match r.(rq_kind) with KLog => [EvLogReq] | _ => [] end
  | RSeen _ => []
  end.
Definition link_events (l : list hev) : list event := flat_map link1 l.

Lemma link_app l1 l2 : link_events (l1 ++ l2) = link_events l1 ++ link_events l2.
Proof. unfold link_events. apply flat_map_app. Qed.

Lemma link_core (l : list event) : link_events (map RCore l) = l.
Proof. induction l as [|e l IH]; [reflexivity|]. simpl. now rewrite IH. Qed.

Lemma link_mark K l : link_events (mark K l) = link_events l.
Proof.
  induction l as [|e l IH]; [reflexivity|].
  destruct e; simpl; try (now rewrite IH).
  destruct (K (rq_kind r)); simpl; now rewrite IH.
Qed.

(** the events of the request layer proper ([RCore]) are the linked events minus the
    "LogRequest issued" markers, as far as those markers are concerned *)
Definition is_logreq (e : event) : bool := match e with EvLogReq => true | _ => false end.

Lemma link_minus_logreq l :
  filter (fun e => negb (is_logreq e)) (link_events l) =
  filter (fun e => negb (is_logreq e)) (core_events l).
Proof.
  induction l as [|e l IH]; [reflexivity|].
  unfold link_events, core_events in *. simpl. rewrite !filter_app, IH. f_equal.
  destruct e as [c|r|r]; try reflexivity. simpl. destruct (rq_kind r); reflexivity.
Qed.

(** the "LogRequest issued" markers are the issued LogRequests *)
Lemma link_logreq_count l :
  (forall c, In (RCore c) l -> is_logreq c = false) ->
  length (filter is_logreq (link_events l)) =
  length (filter (fun r => rkind_eqb r.(rq_kind) KLog) (issued l)).
Proof.
  induction l as [|e l IH]; intros Hc; [reflexivity|].
  unfold link_events, issued in *. simpl. rewrite !filter_app, !app_length, IH.
  - f_equal. destruct e as [c|r|r]; try reflexivity.
    + simpl. rewrite (Hc c) by now left. reflexivity.
    + simpl. destruct (rq_kind r); reflexivity.
  - intros c Hin. apply Hc. now right.
Qed.

Section LinkGeneric.
  Variable S : Type.
  Notation prog := (prog S).
  Notation run := (run S).
  Notation M := (M S).

  (** ** Erasure of the request layer of a program tree *)
  Fixpoint erase {A : Type} (q : prog A) {struct q} : M A :=
    match q in Requests.prog _ A return M A with
    | PRet a => ret S a
    | PLift m => m
    | PBind q f => bind S (erase q) (fun a => erase (f a))
    | PCatch q h => catch S (erase q) (fun c ee => erase (h c ee))
    | PWrap q => wrap_eval S (erase q)
    | PReqE _ _ _ d => erase d
    | PReq k _ _ _ d =>
        match k with
        | KLog => bind S (emit S EvLogReq) (fun _ => erase d)
        | _ => erase d
        end
    end.

  Theorem run_erase A (q : prog A) :
    forall s, erase q s = (let '(r, s', l) := run no_handlers q s in (r, s', link_events l)).
  Proof.
    induction q as [A a|A m|A B q IHq f IHf|A q IHq h IHh|A q IHq|pth n o d IHd|A k pth n o d IHd]; intros s.
    - reflexivity.
    - rewrite run_lift. cbn [erase]. destruct (m s) as [[r s'] l]. now rewrite link_core.
    - rewrite run_bind. cbn [erase]. unfold bind. rewrite IHq.
      destruct (Requests.run S no_handlers q s) as [[[a|c ee] s1] l1]; [|reflexivity].
      rewrite IHf. destruct (Requests.run S no_handlers (f a) s1) as [[r2 s2] l2].
      now rewrite link_app.
    - rewrite run_catch. cbn [erase]. unfold catch. rewrite IHq.
      destruct (Requests.run S no_handlers q s) as [[[a|c ee] s1] l1]; [reflexivity|].
      destruct c; try reflexivity;
        rewrite IHh; destruct (Requests.run S no_handlers (h _ ee) s1) as [[r2 s2] l2];
        now rewrite link_app.
    - rewrite run_wrap. cbn [erase]. unfold wrap_eval. rewrite IHq.
      destruct (Requests.run S no_handlers q s) as [[[a|c ee] s1] l1]; reflexivity.
    - rewrite (run_reqE_default S no_handlers) by reflexivity. cbn [erase]. rewrite IHd.
      destruct (Requests.run S no_handlers d s) as [[r2 s2] l2]. reflexivity.
    - rewrite (run_req_default S no_handlers) by reflexivity.
      destruct k; cbn [erase]; try (rewrite IHd; destruct (Requests.run S no_handlers d s) as [[r2 s2] l2]; reflexivity).
      unfold bind, emit. rewrite IHd. destruct (Requests.run S no_handlers d s) as [[r2 s2] l2]. reflexivity.
  Qed.

  (** ** Pointwise equality of computations of the core monad, and the monad laws used *)
  Definition eqm {A} (m1 m2 : M A) : Prop := forall s, m1 s = m2 s.
  Infix "==" := eqm (at level 70).

  Lemma eqm_refl {A} (m : M A) : m == m. Proof. intros s. reflexivity. Qed.
  Lemma eqm_sym {A} (m1 m2 : M A) : m1 == m2 -> m2 == m1. Proof. intros H s. now rewrite H. Qed.
  Lemma eqm_trans {A} (m1 m2 m3 : M A) : m1 == m2 -> m2 == m3 -> m1 == m3.
  Proof. intros H1 H2 s. now rewrite H1, H2. Qed.

  Lemma bind_ext {A B} (m m' : M A) (f f' : A -> M B) :
    m == m' -> (forall a, f a == f' a) -> bind S m f == bind S m' f'.
  Proof.
    intros Hm Hf s. unfold bind. rewrite Hm.
    destruct (m' s) as [[[a|c ee] s1] l1]; [|reflexivity]. now rewrite Hf.
  Qed.

  Lemma catch_ext {A} (m m' : M A) (h h' : cause -> bool -> M A) :
    m == m' -> (forall c ee, h c ee == h' c ee) -> catch S m h == catch S m' h'.
  Proof.
    intros Hm Hh s. unfold catch. rewrite Hm.
    destruct (m' s) as [[[a|c ee] s1] l1]; [reflexivity|].
    destruct c; try reflexivity; now rewrite Hh.
  Qed.

  Lemma wrap_ext {A} (m m' : M A) : m == m' -> wrap_eval S m == wrap_eval S m'.
  Proof. intros Hm s. unfold wrap_eval. now rewrite Hm. Qed.

  Lemma bind_assoc {A B C} (m : M A) (f : A -> M B) (g : B -> M C) :
    bind S (bind S m f) g == bind S m (fun a => bind S (f a) g).
  Proof.
    intros s. unfold bind.
    destruct (m s) as [[[a|c ee] s1] l1]; [|reflexivity].
    destruct (f a s1) as [[[b|c ee] s2] l2]; [|reflexivity].
    destruct (g b s2) as [[r s3] l3]. now rewrite app_assoc.
  Qed.

  Lemma bind_ret_l {A B} (a : A) (f : A -> M B) : bind S (ret S a) f == f a.
  Proof. intros s. unfold bind, ret. destruct (f a s) as [[r s'] l]. reflexivity. Qed.

  Lemma bind_ret_r {A} (m : M A) : bind S m (fun a => ret S a) == m.
  Proof.
    intros s. unfold bind, ret. destruct (m s) as [[[a|c ee] s1] l1]; [|reflexivity].
    now rewrite app_nil_r.
  Qed.

  Lemma erase_if {A} (b : bool) (x y : prog A) :
    erase (if b then x else y) = if b then erase x else erase y.
  Proof. destruct b; reflexivity. Qed.
End LinkGeneric.

Arguments eqm {S A} _ _.
Arguments erase {S A} _.

Section LinkInterp.
  Variable S : Type.
  Variable mem_find : N -> fp -> S -> option value.
  Variable mem_store : N -> fp -> value -> S -> S.
  Variable cfg : config.
  Variable ucall : N -> list value -> cres.
  Variable rfuel : nat.
  Variable site_ok : expr -> dict -> bool.
  Variable rt : rtable.

  Notation prog := (prog S).
  Notation M := (M S).
  Notation deval := (deval S mem_find mem_store cfg ucall rfuel site_ok rt).
  Notation dvalidate := (dvalidate S mem_find mem_store cfg ucall rfuel site_ok rt).
  Notation dkeys := (dkeys S mem_find mem_store cfg ucall rfuel site_ok rt).
  Notation dexplain := (dexplain S mem_find mem_store cfg ucall rfuel site_ok rt).
  Notation eval := (eval S mem_find mem_store cfg ucall rfuel site_ok).
  Notation validate := (validate S mem_find mem_store cfg ucall rfuel site_ok).
  Notation keys := (keys S mem_find mem_store cfg ucall rfuel site_ok).
  Notation explain := (explain S mem_find mem_store cfg ucall rfuel site_ok).
  Notation call_meth := (call_meth S rt).
  Notation call_eval := (call_eval S rt).
  Notation mapMi := (mapMi S).
  Notation iterMi := (iterMi S).
  Notation unionMi := (unionMi S).
  Notation option_clause := (option_clause S ucall rfuel rt).
  Notation dispatch_prog := (dispatch_prog S).
  Notation case_loop := (case_loop S ucall).
  Notation coalesce_loop := (coalesce_loop S).
  Notation last_member := (last_member S).
  Notation iter_loop := (iter_loop S).
  Notation map_rows_prog := (map_rows_prog S).
  Notation map_loop := (map_loop S).
  Notation rows_iter := (rows_iter S).
  Notation rows_union := (rows_union S).
  Notation template_options_prog := (template_options_prog S).
  Notation default_exists := (default_exists S mem_find cfg site_ok).
  Notation default_get := (default_get S mem_find cfg).
  Notation default_set := (default_set S mem_find mem_store cfg).
  Notation default_log := (default_log S cfg).
  Notation ret := (ret S).
  Notation fail := (fail S).
  Notation bind := (bind S).
  Notation emit := (emit S).
  Notation catch := (catch S).
  Notation wrap_eval := (wrap_eval S).
  Notation mapM := (mapM S).
  Notation iterM := (iterM S).
  Notation unionM := (unionM S).
  Notation call_value := (call_value S ucall).
  Infix "==" := eqm (at level 70).

  Ltac sb := apply bind_ext; [|intros ?].
  Ltac sc := apply catch_ext; [|intros ? ?].
  Ltac rfl := apply eqm_refl.
  Ltac assoc := repeat (eapply eqm_trans; [apply bind_assoc|]).
  Ltac retl := eapply eqm_trans; [apply bind_ret_l|].

  (** ** The loops *)
  Lemma sim_mapMi A B (f : nat -> A -> prog B) (g : A -> M B) l :
    (forall i a, In a l -> erase (f i a) == g a) -> forall i, erase (mapMi f i l) == mapM g l.
  Proof.
    induction l as [|a l IH]; intros Hf i; simpl; [rfl|].
    sb; [apply Hf; now left|]. sb; [apply IH; intros; apply Hf; now right|rfl].
  Qed.

  Lemma sim_iterMi A (f : nat -> A -> prog unit) (g : A -> M unit) l :
    (forall i a, In a l -> erase (f i a) == g a) -> forall i, erase (iterMi f i l) == iterM g l.
  Proof.
    induction l as [|a l IH]; intros Hf i; simpl; [rfl|].
    sb; [apply Hf; now left|]. apply IH; intros; apply Hf; now right.
  Qed.

  Lemma sim_unionMi A (f : nat -> A -> prog (list key)) (g : A -> M (list key)) l :
    (forall i a, In a l -> erase (f i a) == g a) -> forall i, erase (unionMi f i l) == unionM g l.
  Proof.
    induction l as [|a l IH]; intros Hf i; simpl; [rfl|].
    sb; [apply Hf; now left|]. sb; [apply IH; intros; apply Hf; now right|rfl].
  Qed.

  Lemma sim_picki A k (f : nat -> expr -> prog A) (g : expr -> M A) miss miss' tbl :
    (forall i ve, In ve tbl -> erase (f i (snd ve)) == g (snd ve)) -> erase miss == miss' ->
    forall i, erase (picki k f miss i tbl) == pick k g miss' tbl.
  Proof.
    induction tbl as [|[v' b] tbl IH]; intros Hf Hm i; simpl; [exact Hm|].
    destruct (value_eq k v'); [apply (Hf i (v', b)); now left|].
    apply IH; [intros; apply Hf; now right|exact Hm].
  Qed.

  Lemma sim_case_loop A ev (fin : nat -> expr -> prog A) dflt x (ev' : expr -> M value) (fin' : expr -> M A) dflt' cs :
    (forall i cr, In cr cs -> erase (ev i (fst cr)) == ev' (fst cr)) ->
    (forall i cr, In cr cs -> erase (fin i (snd cr)) == fin' (snd cr)) -> erase dflt == dflt' ->
    forall i, erase (case_loop ev fin dflt x i cs) ==
      (fix go (cs : list (expr * expr)) : M A :=
         match cs with
         | [] => dflt'
         | (c, r) :: cs' =>
             bind (ev' c) (fun p => bind (call_value p x) (fun b => if truthy b then fin' r else go cs'))
         end) cs.
  Proof.
    induction cs as [|[c r] cs IH]; intros He Hf Hd i; simpl; [exact Hd|].
    sb; [apply (He _ (c, r)); now left|]. sb; [rfl|].
    destruct (truthy a0); [apply (Hf _ (c, r)); now left|].
    apply IH; [intros; apply He; now right|intros; apply Hf; now right|exact Hd].
  Qed.

  Lemma sim_coalesce_loop A vl (fin : nat -> expr -> prog A) (vl' : expr -> M unit) (fin' : expr -> M A) ms :
    (forall i m, In m ms -> erase (vl i m) == vl' m) -> (forall i m, In m ms -> erase (fin i m) == fin' m) ->
    forall i last, erase (coalesce_loop vl fin i ms last) ==
      (fix go (ms : list expr) (last : option (cause * bool)) : M A :=
         match ms with
         | [] => match last with Some (c, ee) => fail c ee | None => fail CUnmodelled false end
         | m :: ms' =>
             catch (bind (vl' m) (fun _ => fin' m))
                   (fun c ee => if ee then go ms' (Some (c, ee)) else fail c ee)
         end) ms last.
  Proof.
    induction ms as [|m ms IH]; intros Hv Hf i last; simpl.
    - destruct last as [[c ee]|]; rfl.
    - sc.
      + sb; [apply Hv; now left|apply Hf; now left].
      + destruct ee; [|rfl]. apply IH; [intros; apply Hv; now right|intros; apply Hf; now right].
  Qed.

  Lemma sim_last_member A (f : nat -> expr -> prog A) (g : expr -> M A) ms :
    (forall i m, In m ms -> erase (f i m) == g m) ->
    forall i, erase (last_member f i ms) ==
      (fix last (ms : list expr) : M A :=
         match ms with
         | [] => fail CUnmodelled false
         | [m] => g m
         | _ :: ms' => last ms'
         end) ms.
  Proof.
    induction ms as [|m ms IH]; intros Hf i; simpl; [rfl|].
    destruct ms as [|m' ms']; [apply Hf; now left|].
    apply IH. intros; apply Hf; now right.
  Qed.

  Lemma sim_iter_loop ev (ev' : expr -> M value) es :
    (forall i x, In x es -> erase (ev i x) == ev' x) ->
    forall i, erase (iter_loop ev i es) ==
      (fix go (es : list expr) : M (list value) :=
         match es with
         | [] => ret []
         | x :: es' => catch (bind (ev' x) (fun v =>
                                if is_some (deep_err v) then ret [v]
                                else bind (go es') (fun vs => ret (v :: vs))))
                             (fun c _ => ret [VErr c])
         end) es.
  Proof.
    induction es as [|x es IH]; intros He i; simpl; [rfl|].
    sc; [|rfl]. sb; [apply He; now left|].
    destruct (is_some (deep_err a)); [rfl|].
    sb; [apply IH; intros; apply He; now right|rfl].
  Qed.

  Lemma sim_map_rows ev (ev' : expr -> M value) (its : list (key * expr)) :
    (forall i kv, In kv its -> erase (ev i (snd kv)) == ev' (snd kv)) ->
    erase (map_rows_prog ev its) == map_rows S ev' its.
  Proof.
    intros He. unfold Requests.map_rows_prog, map_rows. cbn [erase].
    sb; [|rfl]. apply sim_mapMi. intros i kv Hin. cbn [erase]. sb; [now apply He|rfl].
  Qed.

  Lemma sim_map_loop evrow (evrow' : dict -> M value) rows :
    (forall os, erase (evrow os) == evrow' os) ->
    erase (map_loop evrow rows) ==
      (fix go (rows : list (list (key * value) * dict)) : M (list value) :=
         match rows with
         | [] => ret []
         | (row, os) :: rows' =>
             catch (bind (evrow' os) (fun r =>
                      if is_some (deep_err r) then ret [VT T_TUPLE [row_dict row; r]]
                      else bind (go rows') (fun rs => ret (VT T_TUPLE [row_dict row; r] :: rs))))
                   (fun c _ => ret [VErr c])
         end) rows.
  Proof.
    intros He. induction rows as [|[row os] rows IH]; simpl; [rfl|].
    sc; [|rfl]. sb; [apply He|].
    destruct (is_some (deep_err a)); [rfl|]. sb; [exact IH|rfl].
  Qed.

  Lemma sim_rows_iter f (f' : dict -> M unit) rows :
    (forall os, erase (f os) == f' os) ->
    erase (rows_iter f rows) == iterM (fun row => bind (row_options S row) (fun os => f' os)) rows.
  Proof.
    intros Hf. induction rows as [|row rows IH]; simpl; [rfl|].
    sb; [|exact IH]. sb; [rfl|apply Hf].
  Qed.

  Lemma sim_rows_union f (f' : dict -> M (list key)) rows :
    (forall os, erase (f os) == f' os) ->
    erase (rows_union f rows) == unionM (fun row => bind (row_options S row) (fun os => f' os)) rows.
  Proof.
    intros Hf. induction rows as [|row rows IH]; simpl; [rfl|].
    sb; [|sb; [exact IH|rfl]]. sb; [rfl|apply Hf].
  Qed.

  Lemma sim_template_options ev (ev' : expr -> M value) (ps : list (N * expr)) o :
    (forall i pe, In pe ps -> erase (ev i (snd pe)) == ev' (snd pe)) ->
    erase (template_options_prog ev ps o) == template_options S ev' ps o.
  Proof.
    intros He. unfold Requests.template_options_prog, template_options. cbn [erase].
    sb.
    - apply sim_mapMi. intros i pe Hin. cbn [erase]. sb; [now apply He|rfl].
    - destruct (option_set _ _); [|rfl]. destruct (negb _); rfl.
  Qed.

  Lemma sim_dispatch ev (ev' : M value) hd :
    erase ev == ev' -> erase (dispatch_prog ev hd) == dispatch_value S ev' hd.
  Proof.
    intros He. unfold Requests.dispatch_prog, dispatch_value. cbn [erase].
    sc; [sb; [exact He|rfl]|]. destruct (ee && hd); rfl.
  Qed.

  (** requests other than LogRequest and EvaluateRequest are erased to their default action,
      whether the class is wrapped or not *)
  Lemma erase_call_meth A k p e o (c : prog A) :
    k <> KLog -> erase (call_meth k p e o c) = erase c.
  Proof.
    intros Hk. unfold Requests.call_meth. destruct (wrapped rt (ctor_of e) k); [|reflexivity].
    destruct k; try reflexivity. now elim Hk.
  Qed.

  (** ** The hypotheses of the link: every [evaluate] is behind the EvaluateRequest wrapper (whose
      default handler is [wrap_eval]) and [Logged] issues its LogRequest *)
  Hypothesis HE : forall c, wrapped rt c KEval = true.
  Hypothesis HL : wrapped rt CtLogged KLog = true.

  Lemma erase_call_eval p e o c : erase (call_eval p e o c) = wrap_eval (erase c).
  Proof. unfold Requests.call_eval. now rewrite HE. Qed.

  Lemma erase_call_log p e' o (c : prog unit) :
    erase (call_meth KLog p (ELogged e') o c) = bind (emit EvLogReq) (fun _ => erase c).
  Proof. unfold Requests.call_meth. cbn [ctor_of]. now rewrite HL. Qed.

  Lemma sim_option_clause ev (ev' : expr -> M value) p self k dflt dom o :
    (forall i d, dflt = Some d -> erase (ev i d) == ev' d) ->
    (forall i d, dom = Some d -> erase (ev i d) == ev' d) ->
    erase (option_clause ev p self k dflt dom o) == option_eval S ucall rfuel ev' k dflt dom o.
  Proof.
    intros Hd Hm. unfold Requests.option_clause, option_eval. cbn [erase].
    sb; [rfl|]. sb.
    - destruct a as [raw| |]; [rfl| |rfl]. destruct dflt; [now apply Hd|rfl].
    - rewrite erase_call_meth by discriminate. cbn [erase]. retl.
      destruct dom as [de|]; [|rfl]. cbn [erase]. sb; [now apply Hm|]. sb; rfl.
  Qed.

  Lemma sim_default_set cid o fpr (fpr' : M fp) v :
    cache_off cfg o = false -> erase fpr == fpr' ->
    erase (default_set (CMem cid) o fpr v) ==
      bind fpr' (fun f =>
      bind (put_store S (mem_store cid f (exhaust v))) (fun _ =>
      bind (emit (EvCacheSet cid)) (fun _ =>
      bind (if has_lazy v then emit (EvLazyStored cid) else ret tt) (fun _ =>
      bind fpr' (fun f' =>
      bind (get_store S) (fun s =>
      match mem_find cid f' s with
      | Some _ => bind (emit (EvCacheGet cid true)) (fun _ => ret v)
      | None => bind (emit (EvCacheGet cid false)) (fun _ => ret v)
      end)))))).
  Proof.
    intros Hoff Hf. unfold Requests.default_set. rewrite Hoff. cbn [erase].
    sb; [exact Hf|]. sb; [rfl|]. sb; [rfl|]. sb; [destruct (has_lazy v); rfl|].
    sb; [exact Hf|]. sb; [rfl|]. destruct (mem_find cid a3 a4); rfl.
  Qed.

  (** [Cached.evaluate] with its memory cache in use, for any fingerprint computation *)
  Lemma sim_cached_on cid p o self e fpr (fpr' : M fp) ev (ev' : M value) :
    cache_off cfg o = false -> erase fpr == fpr' -> erase ev == ev' ->
    erase (PBind (call_meth KCacheExists p self o (default_exists true (CMem cid) e o fpr)) (fun ex =>
           PBind (if ex then call_meth KCacheGet p self o (default_get (CMem cid) o fpr) else PRet None) (fun hit =>
           match hit with
           | Some v => PRet v
           | None => PBind ev (fun v => call_meth KCacheSet p self o (default_set (CMem cid) o fpr v))
           end))) ==
    bind (if site_ok e o then ret tt else emit (EvDirty cid)) (fun _ =>
    bind fpr' (fun f => bind (get_store S) (fun s =>
    match mem_find cid f s with
    | Some _ =>
        bind (emit (EvCacheExists cid true)) (fun _ =>
        bind fpr' (fun f2 => bind (get_store S) (fun s2 =>
        match mem_find cid f2 s2 with
        | Some v => bind (emit (EvCacheGet cid true)) (fun _ => ret v)
        | None =>
            bind (emit (EvCacheGet cid false)) (fun _ => bind ev' (fun v =>
              bind fpr' (fun f =>
              bind (put_store S (mem_store cid f (exhaust v))) (fun _ =>
              bind (emit (EvCacheSet cid)) (fun _ =>
              bind (if has_lazy v then emit (EvLazyStored cid) else ret tt) (fun _ =>
              bind fpr' (fun f' =>
              bind (get_store S) (fun s =>
              match mem_find cid f' s with
              | Some _ => bind (emit (EvCacheGet cid true)) (fun _ => ret v)
              | None => bind (emit (EvCacheGet cid false)) (fun _ => ret v)
              end))))))))
        end)))
    | None =>
        bind (emit (EvCacheExists cid false)) (fun _ => bind ev' (fun v =>
          bind fpr' (fun f =>
          bind (put_store S (mem_store cid f (exhaust v))) (fun _ =>
          bind (emit (EvCacheSet cid)) (fun _ =>
          bind (if has_lazy v then emit (EvLazyStored cid) else ret tt) (fun _ =>
          bind fpr' (fun f' =>
          bind (get_store S) (fun s =>
          match mem_find cid f' s with
          | Some _ => bind (emit (EvCacheGet cid true)) (fun _ => ret v)
          | None => bind (emit (EvCacheGet cid false)) (fun _ => ret v)
          end))))))))
    end))).
  Proof.
    intros Hoff Hf Hev. cbn [erase]. rewrite erase_call_meth by discriminate.
    unfold Requests.default_exists. rewrite Hoff. cbn [erase].
    assoc. sb; [rfl|]. assoc. sb; [exact Hf|]. assoc. sb; [rfl|].
    destruct (mem_find cid a0 a1).
    - assoc. sb; [rfl|]. retl. cbn [erase]. rewrite erase_call_meth by discriminate.
      unfold Requests.default_get. rewrite Hoff. cbn [erase].
      assoc. sb; [exact Hf|]. assoc. sb; [rfl|].
      destruct (mem_find cid a3 a4).
      + assoc. sb; [rfl|]. retl. cbn [erase]. rfl.
      + assoc. sb; [rfl|]. retl. cbn [erase]. sb; [exact Hev|].
        rewrite erase_call_meth by discriminate. apply sim_default_set; [exact Hoff|exact Hf].
    - assoc. sb; [rfl|]. retl. cbn [erase]. retl. cbn [erase]. sb; [exact Hev|].
      rewrite erase_call_meth by discriminate. apply sim_default_set; [exact Hoff|exact Hf].
  Qed.

  (** [Cached.validate] with its memory cache in use *)
  Lemma sim_cached_validate_on cid p o self e ks (ks' : M (list key)) vl (vl' : M unit) :
    cache_off cfg o = false -> erase ks == ks' -> erase vl == vl' ->
    erase (PBind (call_meth KCacheExists p self o
                    (default_exists false (CMem cid) e o (PBind ks (fun k => PLift (fingerprint_of S k o)))))
                 (fun ex : bool => if ex then PRet tt else vl)) ==
    bind ks' (fun k => bind (fingerprint_of S k o) (fun f => bind (get_store S) (fun s =>
    match mem_find cid f s with
    | Some _ => bind (emit (EvCacheExists cid true)) (fun _ => ret tt)
    | None => bind (emit (EvCacheExists cid false)) (fun _ => vl')
    end))).
  Proof.
    intros Hoff Hk Hv. cbn [erase]. rewrite erase_call_meth by discriminate.
    unfold Requests.default_exists. rewrite Hoff. cbn [erase].
    assoc. retl. assoc. sb; [exact Hk|]. sb; [rfl|]. assoc. sb; [rfl|].
    destruct (mem_find cid a0 a1).
    - assoc. sb; [rfl|]. retl. cbn [erase]. rfl.
    - assoc. sb; [rfl|]. retl. cbn [erase]. exact Hv.
  Qed.

  Definition QE (e : expr) : Prop := forall p o, erase (deval p e o) == eval e o.
  Definition QV (e : expr) : Prop := forall p o, erase (dvalidate p e o) == validate e o.
  Definition QK (e : expr) : Prop := forall p o, erase (dkeys p e o) == keys e o.
  Definition QX (e : expr) : Prop := forall p o, erase (dexplain p e o) == explain e o.
  Definition Q4 (e : expr) : Prop := QE e /\ QV e /\ QK e /\ QX e.

  Ltac kids :=
    repeat match goal with
           | H : Q4 _ |- _ => destruct H as (? & ? & ? & ?)
           | H : Popt _ (Some _) |- _ => simpl in H
           | H : Popt _ None |- _ => clear H
           end;
    unfold QE, QV, QK, QX in *.
  Ltac ih := solve [auto].
  Ltac inl H := let HH := fresh in
    pose proof H as HH; rewrite Forall_forall in HH.
  Ltac openE L1 L2 := rewrite L1; rewrite erase_call_eval; rewrite L2; apply wrap_ext; cbn [erase].
  Ltac openM L1 L2 := rewrite L1; rewrite erase_call_meth by discriminate; rewrite L2; cbn [erase].

  Ltac inE Hf := let i := fresh in let x := fresh in let Hin := fresh in let HH := fresh in
    intros i x Hin; destruct (Hf _ Hin) as (HH & _); cbv beta; apply HH.
  Ltac inV Hf := let i := fresh in let x := fresh in let Hin := fresh in let HH := fresh in
    intros i x Hin; destruct (Hf _ Hin) as (_ & HH & _); cbv beta; apply HH.
  Ltac inK Hf := let i := fresh in let x := fresh in let Hin := fresh in let HH := fresh in
    intros i x Hin; destruct (Hf _ Hin) as (_ & _ & HH & _); cbv beta; apply HH.
  Ltac inX Hf := let i := fresh in let x := fresh in let Hin := fresh in let HH := fresh in
    intros i x Hin; destruct (Hf _ Hin) as (_ & _ & _ & HH); cbv beta; apply HH.

  Theorem link_all e : Q4 e.
  Proof.
    induction e using expr_ind'.
    - (* EValue *) repeat split; intros p o.
      + openE deval_EValue eval_EValue. rfl.
      + openM dvalidate_EValue validate_EValue. rfl.
      + openM dkeys_EValue keys_EValue. rfl.
      + openM dexplain_EValue explain_EValue. rfl.
    - (* EOption *)
      assert (HC : forall p o, erase (option_clause (fun i x => deval (p +: i) x o) p (EOption k dflt dom) k dflt dom o)
                               == option_eval S ucall rfuel (fun x => eval x o) k dflt dom o).
      { intros p o. apply sim_option_clause; intros i d ->; kids; ih. }
      repeat split; intros p o.
      + openE deval_EOption eval_EOption. apply HC.
      + openM dvalidate_EOption validate_EOption. sb; [rfl|].
        destruct a; [|destruct dflt; kids; [ih|rfl]|rfl].
        cbn [erase]. sb; [|rfl]. rewrite erase_call_eval. apply wrap_ext, HC.
      + openM dkeys_EOption keys_EOption. sb; [rfl|].
        destruct a as [j| |]; [|destruct dflt; kids; [ih|rfl]|rfl].
        destruct j; rfl.
      + openM dexplain_EOption explain_EOption. sb; [rfl|].
        destruct a as [j| |]; [|destruct dflt; kids; [ih|rfl]|rfl].
        destruct j; rfl.
    - (* EApply *) kids. repeat split; intros p o.
      + openE deval_EApply eval_EApply. sb; [ih|]. sb; [ih|rfl].
      + openM dvalidate_EApply validate_EApply. sb; [ih|ih].
      + openM dkeys_EApply keys_EApply. sb; [ih|]. sb; [ih|rfl].
      + openM dexplain_EApply explain_EApply. sb; [ih|]. sb; [ih|rfl].
    - (* EBind *)
      inl H. assert (HD : Popt Q4 dflt) by assumption.
      repeat split; intros p o.
      + openE deval_EBind eval_EBind. sb; [kids; ih|].
        apply sim_picki; [inE H1|]. destruct dflt; kids; [ih|rfl].
      + openM dvalidate_EBind validate_EBind. sb; [kids; ih|]. sb; [kids; ih|].
        apply sim_picki; [inV H1|]. destruct dflt; kids; [ih|rfl].
      + openM dkeys_EBind keys_EBind. sb; [kids; ih|]. sb; [kids; ih|]. sb; [|rfl].
        apply sim_picki; [inK H1|]. destruct dflt; kids; [ih|rfl].
      + openM dexplain_EBind explain_EBind. sc; [|destruct ee; rfl].
        sb; [kids; ih|]. sb; [kids; ih|]. sb; [|rfl].
        apply sim_picki; [inX H1|]. destruct dflt; kids; [ih|rfl].
    - (* ESwitch *)
      inl H.
      assert (HDv : forall p o, erase (dispatch_prog (deval (p +: 0) e o) (is_some dflt))
                                == dispatch_value S (eval e o) (is_some dflt)).
      { intros p o. apply sim_dispatch. kids; ih. }
      repeat split; intros p o.
      + openE deval_ESwitch eval_ESwitch. sb; [apply HDv|].
        destruct a as [kk|]; [|destruct dflt; kids; [ih|rfl]].
        destruct (negb (hashable kk)); [rfl|].
        apply sim_picki; [inE H1|]. destruct dflt; kids; [ih|rfl].
      + openM dvalidate_ESwitch validate_ESwitch. sb; [apply HDv|].
        destruct a as [kk|]; [|destruct dflt; kids; [ih|rfl]].
        destruct (negb (hashable kk)); [rfl|].
        apply sim_picki; [inV H1|]. destruct dflt; kids; [ih|rfl].
      + openM dkeys_ESwitch keys_ESwitch. sb; [apply HDv|].
        destruct a as [kk|]; [|destruct dflt; kids; [ih|rfl]].
        destruct (negb (hashable kk)); [rfl|]. cbn [erase].
        sb; [|sb; [kids; ih|rfl]].
        apply sim_picki; [inK H1|]. destruct dflt; kids; [ih|rfl].
      + openM dexplain_ESwitch explain_ESwitch. sb.
        * sc; [apply HDv|destruct ee; rfl].
        * destruct a as [kk|]; [|destruct dflt; kids; [ih|rfl]].
          destruct (negb (hashable kk)); [rfl|]. cbn [erase].
          sb; [|sb; [kids; ih|rfl]].
          apply sim_picki; [inX H1|]. destruct dflt; kids; [ih|rfl].
    - (* ECase *)
      inl H. repeat split; intros p o.
      + openE deval_ECase eval_ECase. sb; [kids; ih|].
        apply sim_case_loop with (ev' := fun c => eval c o) (fin' := fun r => eval r o);
          [intros i cr Hin; destruct (H1 _ Hin) as ((HH & _) & _); apply HH
          |intros i cr Hin; destruct (H1 _ Hin) as (_ & (HH & _)); apply HH|].
        destruct dflt; kids; [ih|rfl].
      + openM dvalidate_ECase validate_ECase. sb; [kids; ih|]. sb; [kids; ih|].
        apply sim_case_loop with (ev' := fun c => eval c o) (fin' := fun r => validate r o);
          [intros i cr Hin; destruct (H1 _ Hin) as ((HH & _) & _); apply HH
          |intros i cr Hin; destruct (H1 _ Hin) as (_ & (_ & HH & _)); apply HH|].
        destruct dflt; kids; [ih|rfl].
      + openM dkeys_ECase keys_ECase. sb; [kids; ih|]. sb; [kids; ih|]. sb; [|rfl].
        apply sim_case_loop with (ev' := fun c => eval c o) (fin' := fun r => keys r o);
          [intros i cr Hin; destruct (H1 _ Hin) as ((HH & _) & _); apply HH
          |intros i cr Hin; destruct (H1 _ Hin) as (_ & (_ & _ & HH & _)); apply HH|].
        destruct dflt; kids; [ih|rfl].
      + openM dexplain_ECase explain_ECase. sc; [|destruct ee; rfl].
        sb; [kids; ih|]. sb; [kids; ih|]. sb; [|rfl].
        apply sim_case_loop with (ev' := fun c => eval c o) (fin' := fun r => explain r o);
          [intros i cr Hin; destruct (H1 _ Hin) as ((HH & _) & _); apply HH
          |intros i cr Hin; destruct (H1 _ Hin) as (_ & (_ & _ & _ & HH)); apply HH|].
        destruct dflt; kids; [ih|rfl].
    - (* ECoalesce *)
      inl H. repeat split; intros p o.
      + openE deval_ECoalesce eval_ECoalesce.
        apply sim_coalesce_loop with (vl' := fun m => validate m o) (fin' := fun m => eval m o); [inV H0|inE H0].
      + openM dvalidate_ECoalesce validate_ECoalesce.
        apply sim_coalesce_loop with (vl' := fun m => validate m o) (fin' := fun m => validate m o); [inV H0|inV H0].
      + openM dkeys_ECoalesce keys_ECoalesce.
        apply sim_coalesce_loop with (vl' := fun m => validate m o) (fin' := fun m => keys m o); [inV H0|inK H0].
      + openM dexplain_ECoalesce explain_ECoalesce. sc.
        * apply sim_coalesce_loop with (vl' := fun m => validate m o) (fin' := fun m => explain m o); [inV H0|inX H0].
        * destruct ee; [|rfl].
          apply sim_last_member with (g := fun m => explain m o). inX H0.
    - (* EIter *)
      inl H. repeat split; intros p o.
      + openE deval_EIter eval_EIter. sb; [|rfl].
        apply sim_iter_loop with (ev' := fun x => eval x o). inE H0.
      + openM dvalidate_EIter validate_EIter. apply sim_iterMi. inV H0.
      + openM dkeys_EIter keys_EIter. apply sim_unionMi. inK H0.
      + openM dexplain_EIter explain_EIter. apply sim_unionMi. inX H0.
    - (* EMap *)
      inl H.
      assert (HR : forall p o, erase (map_rows_prog (fun i x => deval (p +: i) x o) its)
                               == map_rows S (fun x => eval x o) its).
      { intros p o. apply sim_map_rows. inE H0. }
      kids. repeat split; intros p o.
      + openE deval_EMap eval_EMap. sb; [apply HR|]. sb; [rfl|]. sb; [|rfl].
        apply sim_map_loop with (evrow' := fun os => eval e (with_opts true os o)). intros os. ih.
      + openM dvalidate_EMap validate_EMap. sb; [apply HR|].
        apply sim_rows_iter with (f' := fun os => validate e (with_opts true os o)). intros os. ih.
      + openM dkeys_EMap keys_EMap. sb; [apply HR|]. sb.
        * apply sim_rows_union with
            (f' := fun os => bind (keys e (with_opts true os o))
                               (fun ks => filter_preset S true os o (with_opts true os o) ks)).
          intros os. cbn [erase]. sb; [ih|rfl].
        * sb; [|rfl]. apply sim_unionMi. inK H0.
      + openM dexplain_EMap explain_EMap. sc.
        * sb; [apply HR|]. sb.
          -- apply sim_rows_union with
               (f' := fun os => bind (explain e (with_opts true os o))
                                  (fun ks => filter_preset S true os o (with_opts true os o) ks)).
             intros os. cbn [erase]. sb; [ih|rfl].
          -- sb; [|rfl]. apply sim_unionMi. inX H0.
        * destruct ee; [|rfl]. cbn [erase]. sb; [ih|]. sb; [|rfl]. apply sim_unionMi. inX H0.
    - (* EWith *) kids. repeat split; intros pp o.
      + openE deval_EWith eval_EWith. ih.
      + openM dvalidate_EWith validate_EWith. ih.
      + openM dkeys_EWith keys_EWith. sb; [ih|rfl].
      + openM dexplain_EWith explain_EWith. sb; [ih|rfl].
    - (* ECached *) kids.
      assert (HF : forall p o, erase (PBind (dkeys (p +: 0) e o) (fun ks => PLift (fingerprint_of S ks o)))
                               == bind (keys e o) (fun ks => fingerprint_of S ks o)).
      { intros p o. cbn [erase]. sb; [ih|rfl]. }
      assert (Hoffcase : forall p o (self : expr) (c' : cache_ref) (fpr : prog fp),
                 (match c' with CNone => true | CMem _ => cache_off cfg o end) = true ->
                 erase (PBind (call_meth KCacheExists p self o (default_exists true c' e o fpr)) (fun ex =>
                        PBind (if ex then call_meth KCacheGet p self o (default_get c' o fpr) else PRet None) (fun hit =>
                        match hit with
                        | Some v => PRet v
                        | None => PBind (deval (p +: 0) e o) (fun v =>
                                    call_meth KCacheSet p self o (default_set c' o fpr v))
                        end))) == eval e o).
      { intros p o self c' fpr Hc. cbn [erase]. rewrite erase_call_meth by discriminate.
        assert (E1 : default_exists true c' e o fpr = PRet false).
        { unfold Requests.default_exists. destruct c'; [now rewrite Hc|reflexivity]. }
        rewrite E1. cbn [erase]. retl. cbn [erase]. retl. cbn [erase].
        eapply eqm_trans; [|apply bind_ret_r]. sb; [ih|].
        rewrite erase_call_meth by discriminate.
        unfold Requests.default_set. destruct c'; [rewrite Hc|]; rfl. }
      repeat split; intros p o.
      + rewrite deval_ECached, erase_call_eval, eval_ECached. apply wrap_ext.
        destruct c as [cid|]; [|apply Hoffcase; reflexivity].
        change (cache_ctx_off cfg || cache_opt_off o) with (cache_off cfg o).
        destruct (cache_off cfg o) eqn:Hoff; [apply Hoffcase; exact Hoff|].
        cbv zeta. apply sim_cached_on; [exact Hoff|apply HF|ih].
      + rewrite dvalidate_ECached. rewrite erase_call_meth by discriminate. rewrite validate_ECached.
        destruct c as [cid|].
        2:{ cbn [erase]. rewrite erase_call_meth by discriminate. unfold Requests.default_exists.
            cbn [erase]. retl. cbv beta iota. ih. }
        change (cache_ctx_off cfg || cache_opt_off o) with (cache_off cfg o).
        destruct (cache_off cfg o) eqn:Hoff.
        { cbn [erase]. rewrite erase_call_meth by discriminate. unfold Requests.default_exists.
          rewrite Hoff. cbn [erase]. retl. cbv beta iota. ih. }
        apply sim_cached_validate_on; [exact Hoff|ih|ih].
      + openM dkeys_ECached keys_ECached. ih.
      + openM dexplain_ECached explain_ECached. ih.
    - (* ECall *)
      inl H. inl H0. kids. repeat split; intros p o.
      + openE deval_ECall eval_ECall. sb; [ih|].
        sb; [apply sim_mapMi; inE H1|]. sb; [apply sim_mapMi; inE H2|].
        destruct partial; [|rfl]. destruct a; rfl.
      + openM dvalidate_ECall validate_ECall. sb; [ih|].
        sb; [apply sim_iterMi; inV H1|]. apply sim_iterMi; inV H2.
      + openM dkeys_ECall keys_ECall. sb; [ih|].
        sb; [apply sim_unionMi; inK H1|]. sb; [apply sim_unionMi; inK H2|rfl].
      + openM dexplain_ECall explain_ECall. sb; [ih|].
        sb; [apply sim_unionMi; inX H1|]. sb; [apply sim_unionMi; inX H2|rfl].
    - (* ETemplate *)
      inl H. repeat split; intros p o.
      + openE deval_ETemplate eval_ETemplate. sb; [|rfl].
        apply sim_template_options with (ev' := fun x => eval x o). inE H0.
      + openM dvalidate_ETemplate validate_ETemplate. sb; [|rfl].
        apply sim_iterMi with (g := fun pe => validate (snd pe) o). inV H0.
      + openM dkeys_ETemplate keys_ETemplate. sb; [|rfl].
        apply sim_unionMi with (g := fun pe => keys (snd pe) o). inK H0.
      + openM dexplain_ETemplate explain_ETemplate. sb; [|rfl].
        apply sim_unionMi with (g := fun pe => explain (snd pe) o). inX H0.
    - (* EComp *)
      inl H. kids. repeat split; intros p o.
      + openE deval_EComp eval_EComp. sb; [ih|]. sb; [|rfl].
        destruct (effects_opt_off o); [rfl|].
        apply sim_iterMi with (g := fun eff => bind (eval eff o) (fun f => bind (call_value f a) (fun _ => ret tt))).
        intros i x Hin. destruct (H0 _ Hin) as (HH & _). cbn [erase]. sb; [apply HH|rfl].
      + openM dvalidate_EComp validate_EComp. sb; [ih|].
        destruct (effects_opt_off o); [rfl|]. apply sim_iterMi. inV H0.
      + openM dkeys_EComp keys_EComp. ih.
      + openM dexplain_EComp explain_EComp. sb; [ih|].
        destruct (effects_opt_off o); [rfl|]. cbn [erase]. sb; [|rfl]. apply sim_unionMi. inX H0.
    - (* ELogged *) kids. repeat split; intros p o.
      + openE deval_ELogged eval_ELogged. rewrite erase_call_log. assoc. sb; [rfl|].
        sb; [|ih]. unfold Requests.default_log. destruct (_ || _); rfl.
      + openM dvalidate_ELogged validate_ELogged. ih.
      + openM dkeys_ELogged keys_ELogged. ih.
      + openM dexplain_ELogged explain_ELogged. ih.
    - (* EPipe *)
      inl H. repeat split; intros p o.
      + openE deval_EPipe eval_EPipe. sb; [|rfl]. apply sim_mapMi. inE H0.
      + openM dvalidate_EPipe validate_EPipe. apply sim_iterMi. inV H0.
      + openM dkeys_EPipe keys_EPipe. apply sim_unionMi. inK H0.
      + openM dexplain_EPipe explain_EPipe. apply sim_unionMi. inX H0.
    - (* EAllOptions *) repeat split; intros p o.
      + openE deval_EAllOptions eval_EAllOptions. rfl.
      + openM dvalidate_EAllOptions validate_EAllOptions. sb; [|rfl].
        rewrite erase_call_eval. rfl.
      + openM dkeys_EAllOptions keys_EAllOptions. rfl.
      + openM dexplain_EAllOptions explain_EAllOptions. rfl.
  Qed.
End LinkInterp.

(** ** The link, on runs *)
Section LinkRuns.
  Variable S : Type.
  Variable mem_find : N -> fp -> S -> option value.
  Variable mem_store : N -> fp -> value -> S -> S.
  Variable cfg : config.
  Variable ucall : N -> list value -> cres.
  Variable rfuel : nat.
  Variable site_ok : expr -> dict -> bool.
  Variable rt : rtable.

  Notation deval := (deval S mem_find mem_store cfg ucall rfuel site_ok rt).
  Notation dvalidate := (dvalidate S mem_find mem_store cfg ucall rfuel site_ok rt).
  Notation dkeys := (dkeys S mem_find mem_store cfg ucall rfuel site_ok rt).
  Notation dexplain := (dexplain S mem_find mem_store cfg ucall rfuel site_ok rt).
  Notation eval := (eval S mem_find mem_store cfg ucall rfuel site_ok).
  Notation validate := (validate S mem_find mem_store cfg ucall rfuel site_ok).
  Notation keys := (keys S mem_find mem_store cfg ucall rfuel site_ok).
  Notation explain := (explain S mem_find mem_store cfg ucall rfuel site_ok).

  (** what a run of the request layer is in the vocabulary of the core model: its result, its
      final store, and its history projected by [link_events] *)
  Definition core_view {A} (x : res A * S * list hev) : res A * S * list event :=
    let '(r, s', l) := x in (r, s', link_events l).

  (** under the two facts about the reflection table that the link needs *)
  Theorem link_runs_weak :
    (forall c, wrapped rt c KEval = true) -> wrapped rt CtLogged KLog = true ->
    forall e p o s,
      eval e o s = core_view (run S no_handlers (deval p e o) s) /\
      validate e o s = core_view (run S no_handlers (dvalidate p e o) s) /\
      keys e o s = core_view (run S no_handlers (dkeys p e o) s) /\
      explain e o s = core_view (run S no_handlers (dexplain p e o) s).
  Proof.
    intros HE HL e p o s.
    destruct (link_all S mem_find mem_store cfg ucall rfuel site_ok rt HE HL e) as (E & V & K & X).
    unfold core_view.
    repeat split;
      [rewrite <- (E p o s)|rewrite <- (V p o s)|rewrite <- (K p o s)|rewrite <- (X p o s)];
      apply run_erase.
  Qed.

  Theorem link_runs :
    table_ok rt = true ->
    forall e p o s,
      eval e o s = core_view (run S no_handlers (deval p e o) s) /\
      validate e o s = core_view (run S no_handlers (dvalidate p e o) s) /\
      keys e o s = core_view (run S no_handlers (dkeys p e o) s) /\
      explain e o s = core_view (run S no_handlers (dexplain p e o) s).
  Proof.
    intros Hrt. apply link_runs_weak; [intros c|]; now apply wrapped_ok.
  Qed.

  Lemma core_view_passthrough K A (q : prog S A) s :
    core_view (run S (passthrough K) q s) = core_view (run S no_handlers q s).
  Proof.
    rewrite run_passthrough. unfold core_view.
    destruct (run S no_handlers q s) as [[r s'] l]. now rewrite link_mark.
  Qed.

  (** ... and with recording pass-through handlers for any set of request kinds *)
  Theorem link_runs_passthrough :
    table_ok rt = true ->
    forall K e p o s,
      eval e o s = core_view (run S (passthrough K) (deval p e o) s) /\
      validate e o s = core_view (run S (passthrough K) (dvalidate p e o) s) /\
      keys e o s = core_view (run S (passthrough K) (dkeys p e o) s) /\
      explain e o s = core_view (run S (passthrough K) (dexplain p e o) s).
  Proof.
    intros Hrt K e p o s. rewrite !core_view_passthrough. now apply link_runs.
  Qed.
End LinkRuns.
