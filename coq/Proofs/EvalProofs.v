(** Structural lemmas about the interpreters of Model/Eval.v, for every store type, store
    operations, configuration, user code, resolution budget and ghost oracle. *)
From Coq Require Import List NArith ZArith Bool Lia.
Import ListNotations.
From LV Require Import Model.Base Model.Template Model.Eval Model.Derived Proofs.BaseProofs.

Section Generic.
  Variable S : Type.
  Variable mem_find : N -> fp -> S -> option value.
  Variable mem_store : N -> fp -> value -> S -> S.
  Variable cfg : config.
  Variable ucall : N -> list value -> cres.
  Variable rfuel : nat.
  Variable site_ok : expr -> dict -> bool.

  Notation eval := (eval S mem_find mem_store cfg ucall rfuel site_ok).
  Notation validate := (validate S mem_find mem_store cfg ucall rfuel site_ok).
  Notation keys := (keys S mem_find mem_store cfg ucall rfuel site_ok).
  Notation explain := (explain S mem_find mem_store cfg ucall rfuel site_ok).
  Notation M := (M S).

  (** pointwise equality of computations *)
  Definition meq {A} (m1 m2 : M A) : Prop := forall s, m1 s = m2 s.
  Infix "==" := meq (at level 70).

  Lemma meq_refl {A} (m : M A) : m == m. Proof. intros s. reflexivity. Qed.
  Lemma meq_sym {A} (m1 m2 : M A) : m1 == m2 -> m2 == m1. Proof. intros H s. now rewrite H. Qed.
  Lemma meq_trans {A} (m1 m2 m3 : M A) : m1 == m2 -> m2 == m3 -> m1 == m3.
  Proof. intros H1 H2 s. now rewrite H1, H2. Qed.

  Lemma wrap_eval_idem {A} (m : M A) : wrap_eval S (wrap_eval S m) == wrap_eval S m.
  Proof. intros s. unfold wrap_eval. destruct (m s) as [[[a|c ee] s'] l]; reflexivity. Qed.

  (** every [eval] is behind the EvaluateRequest wrapper *)
  Lemma eval_is_wrapped e o : wrap_eval S (eval e o) == eval e o.
  Proof. destruct e; apply wrap_eval_idem. Qed.

  (** an evaluation never fails with a non-EvaluationError *)
  Lemma eval_err_is_evaluation_error e o s c ee s' l :
    eval e o s = (Err c ee, s', l) -> ee = true.
  Proof.
    intros H. pose proof (eval_is_wrapped e o s) as W. rewrite H in W.
    unfold wrap_eval in W. rewrite H in W. now inversion W.
  Qed.

  (** ** C08: the wrapper combinators *)
  Lemma eval_with force p e o : eval (EWith force p e) o == eval e (with_opts force p o).
  Proof. intros s. change (eval (EWith force p e) o s) with (wrap_eval S (eval e (with_opts force p o)) s).
         apply eval_is_wrapped. Qed.

  Lemma validate_with force p e o : validate (EWith force p e) o == validate e (with_opts force p o).
  Proof. intros s. reflexivity. Qed.

  Lemma keys_with force p e o :
    keys (EWith force p e) o ==
      bind S (keys e (with_opts force p o)) (fun ks => filter_preset S force p o (with_opts force p o) ks).
  Proof. intros s. reflexivity. Qed.

  Lemma explain_with force p e o :
    explain (EWith force p e) o ==
      bind S (explain e (with_opts force p o)) (fun ks => filter_preset S force p o (with_opts force p o) ks).
  Proof. intros s. reflexivity. Qed.

  (** [Dataset._composed]: a dataset evaluates its cached body under (defaults overlaid by the
      caller's options) overlaid by the pre-set options *)
  Lemma eval_dataset d o :
    eval (dataset_expr d) o ==
      eval (ECached d.(ds_cache) (ELogged (if d.(ds_effects_disabled)
                                             then EApply (ESwitch d.(ds_dispatch) d.(ds_table) d.(ds_default)) d.(ds_callback)
                                             else EComp (EApply (ESwitch d.(ds_dispatch) d.(ds_table) d.(ds_default)) d.(ds_callback)) d.(ds_effects))))
           (mix (mix d.(ds_default_options) o) d.(ds_options)).
  Proof.
    unfold dataset_expr. eapply meq_trans; [apply eval_with|].
    eapply meq_trans; [apply eval_with|]. apply meq_refl.
  Qed.

  (** nesting composes: a stack of wrappers is one evaluation under the successively overlaid
      dictionary *)
  Fixpoint wrap_all (ws : list (bool * dict)) (e : expr) : expr :=
    match ws with [] => e | (f, p) :: ws' => EWith f p (wrap_all ws' e) end.
  Fixpoint overlay_all (ws : list (bool * dict)) (o : dict) : dict :=
    match ws with [] => o | (f, p) :: ws' => overlay_all ws' (with_opts f p o) end.

  Lemma eval_wrap_all ws : forall e o, eval (wrap_all ws e) o == eval e (overlay_all ws o).
  Proof.
    induction ws as [|[f p] ws IH]; intros e o; simpl; [apply meq_refl|].
    eapply meq_trans; [apply eval_with|]. apply IH.
  Qed.

  Lemma validate_wrap_all ws : forall e o, validate (wrap_all ws e) o == validate e (overlay_all ws o).
  Proof.
    induction ws as [|[f p] ws IH]; intros e o; simpl; [apply meq_refl|].
    eapply meq_trans; [apply validate_with|]. apply IH.
  Qed.

  (** with_options / with_default_options derivatives (after fix 3f28b1e): the same dataset —
      same dispatch, table, default, callback, effects, cache — under the merged pre-set /
      default options *)
  Lemma eval_with_options_derivative d p o :
    d.(ds_effects_disabled) = false ->
    eval (dataset_expr (ds_with_options d p)) o ==
      eval (ECached d.(ds_cache) (ELogged (EComp (EApply (ESwitch d.(ds_dispatch) d.(ds_table) d.(ds_default)) d.(ds_callback)) d.(ds_effects))))
           (mix (mix d.(ds_default_options) o) (mix d.(ds_options) p)).
  Proof. intros _. apply (eval_dataset (ds_with_options d p) o). Qed.

  Lemma eval_with_default_options_derivative d p o :
    eval (dataset_expr (ds_with_default_options d p)) o ==
      eval (ECached d.(ds_cache) (ELogged (EComp (EApply (ESwitch d.(ds_dispatch) d.(ds_table) d.(ds_default)) d.(ds_callback)) d.(ds_effects))))
           (mix (mix (mix d.(ds_default_options) p) o) d.(ds_options)).
  Proof. apply (eval_dataset (ds_with_default_options d p) o). Qed.

  (** ** C04: Option resolution *)
  Definition is_read (e : event) : bool := match e with EvRead _ _ => true | _ => false end.

  Lemma iterM_cons {A} (f : A -> M unit) a l :
    iterM S f (a :: l) = bind S (f a) (fun _ => iterM S f l).
  Proof. reflexivity. Qed.
  Lemma mapM_cons {A B} (f : A -> M B) a l :
    mapM S f (a :: l) = bind S (f a) (fun b => bind S (mapM S f l) (fun bs => ret S (b :: bs))).
  Proof. reflexivity. Qed.
  Lemma unionM_cons {A} (f : A -> M (list key)) a l :
    unionM S f (a :: l) = bind S (f a) (fun ks => bind S (unionM S f l) (fun ks' => ret S (ks ++ ks'))).
  Proof. reflexivity. Qed.

  Lemma emit_reads_spec ks o s :
    exists l, emit_reads S ks o s = (Ok tt, s, l) /\ forallb is_read l = true.
  Proof.
    unfold emit_reads. induction ks as [|k ks IH].
    - exists []. split; reflexivity.
    - destruct IH as [l [E Hl]].
      rewrite iterM_cons. unfold bind. unfold emit at 1. cbv beta iota. rewrite E.
      eexists. split; [reflexivity|]. cbn. exact Hl.
  Qed.

  Lemma eval_option_unfold k dflt dom o :
    eval (EOption k dflt dom) o = wrap_eval S (option_eval S ucall rfuel (fun x => eval x o) k dflt dom o).
  Proof. reflexivity. Qed.

  (** the key is present: its (resolved) value, whatever it is; the default is not evaluated *)
  Lemma eval_option_present k dflt raw j o s :
    lookup k (JObj o) = Found raw -> resolve rfuel o raw = ROk j ->
    exists l, eval (EOption k dflt None) o s = (Ok (VJ j), s, l) /\ forallb is_read l = true.
  Proof.
    intros Hl Hr. rewrite eval_option_unfold.
    destruct (emit_reads_spec (resolve_reads rfuel o raw) o s) as [l [E Hrd]].
    unfold wrap_eval, option_eval, rd, bind, emit, ret. cbn. rewrite Hl. cbn.
    rewrite E. rewrite Hr. cbn.
    eexists. split; [reflexivity|]. cbn. rewrite !app_nil_r. exact Hrd.
  Qed.

  (** a present key whose templated value references a missing key: missing-key error naming
      THAT key (fix 634ec72), the default is not used *)
  Lemma eval_option_missing_reference k dflt dom raw k' o s :
    lookup k (JObj o) = Found raw -> resolve rfuel o raw = RMissing k' ->
    exists l, eval (EOption k dflt dom) o s = (Err (CKey k') true, s, l) /\ forallb is_read l = true.
  Proof.
    intros Hl Hr. rewrite eval_option_unfold.
    destruct (emit_reads_spec (resolve_reads rfuel o raw) o s) as [l [E Hrd]].
    unfold wrap_eval, option_eval, rd, bind, emit, ret. cbn. rewrite Hl. cbn.
    rewrite E. rewrite Hr. cbn.
    eexists. split; [reflexivity|]. cbn. rewrite app_nil_r. exact Hrd.
  Qed.

  (** the key is absent: the default, evaluated against the same options *)
  Lemma eval_option_absent_default k d o s :
    lookup k (JObj o) = Absent ->
    eval (EOption k (Some d) None) o s =
      (let '(r, s', l) := eval d o s in (r, s', EvRead k false :: l)).
  Proof.
    intros Hl. rewrite eval_option_unfold.
    pose proof (eval_is_wrapped d o s) as W.
    unfold wrap_eval, option_eval, rd, bind, emit, ret in *. cbn. rewrite Hl. cbn.
    destruct (eval d o s) as [[[v|c ee] s'] l] eqn:E; cbn.
    - now rewrite app_nil_r.
    - inversion W. reflexivity.
  Qed.

  (** absent and no default: missing-key error naming the key, whatever the domain *)
  Lemma eval_option_absent_nodefault k dom o s :
    lookup k (JObj o) = Absent ->
    eval (EOption k None dom) o s = (Err (CKey k) true, s, [EvRead k false]).
  Proof.
    intros Hl. rewrite eval_option_unfold.
    unfold wrap_eval, option_eval, rd, bind, emit, fail. cbn. now rewrite Hl.
  Qed.

  (** a value outside a declared domain is never returned: whenever an Option with a domain
      evaluates to [v], its domain expression evaluated to some [d] that accepts [v] *)
  Definition accepts (d v : value) (s : S) : Prop :=
    match in_domain S ucall d v s with (Ok _, _, _) => True | _ => False end.

  Lemma bind_ok {A B} (m : M A) (f : A -> M B) s b s' l :
    bind S m f s = (Ok b, s', l) ->
    exists a s1 l1 l2, m s = (Ok a, s1, l1) /\ f a s1 = (Ok b, s', l2) /\ l = l1 ++ l2.
  Proof.
    unfold bind. destruct (m s) as [[[a|c ee] s1] l1]; [|discriminate].
    destruct (f a s1) as [[r s2] l2] eqn:E. intros H. inversion H; subst.
    exists a, s1, l1, l2. auto.
  Qed.

  Lemma wrap_eval_ok {A} (m : M A) s a s' l :
    wrap_eval S m s = (Ok a, s', l) -> m s = (Ok a, s', l).
  Proof. unfold wrap_eval. destruct (m s) as [[[a0|c ee] s1] l1]; intros H; inversion H; reflexivity. Qed.

  Lemma eval_option_domain_sound k dflt de o s v s' l :
    eval (EOption k dflt (Some de)) o s = (Ok v, s', l) ->
    exists d s1 s2 l1, eval de o s1 = (Ok d, s2, l1) /\ accepts d v s2.
  Proof.
    rewrite eval_option_unfold. intros H. apply wrap_eval_ok in H.
    unfold option_eval in H.
    apply bind_ok in H as (r & s1 & l1 & l2 & _ & H & _).
    apply bind_ok in H as (v0 & s2 & l3 & l4 & _ & H & _).
    apply bind_ok in H as (d & s3 & l5 & l6 & Hd & H & _).
    apply bind_ok in H as (u & s4 & l7 & l8 & Hin & H & _).
    unfold ret in H. inversion H; subst.
    exists d, s2, s3, l5. split; [exact Hd|]. unfold accepts. now rewrite Hin.
  Qed.

  (** ** generic inversion / computation lemmas for the monad *)
  Lemma bind_err {A B} (m : M A) (f : A -> M B) s c ee s' l :
    bind S m f s = (Err c ee, s', l) ->
    m s = (Err c ee, s', l) \/
    exists a s1 l1 l2, m s = (Ok a, s1, l1) /\ f a s1 = (Err c ee, s', l2) /\ l = l1 ++ l2.
  Proof.
    unfold bind. destruct (m s) as [[[a|c0 ee0] s1] l1].
    - destruct (f a s1) as [[r s2] l2] eqn:E. intros H. inversion H; subst.
      right. exists a, s1, l1, l2. auto.
    - intros H. left. inversion H; subst. reflexivity.
  Qed.

  Lemma bind_of_ok {A B} (m : M A) (f : A -> M B) s a s1 l1 :
    m s = (Ok a, s1, l1) ->
    bind S m f s = (let '(r, s2, l2) := f a s1 in (r, s2, l1 ++ l2)).
  Proof. intros H. unfold bind. rewrite H. reflexivity. Qed.

  Lemma bind_of_err {A B} (m : M A) (f : A -> M B) s c ee s1 l1 :
    m s = (Err c ee, s1, l1) -> bind S m f s = (Err c ee, s1, l1).
  Proof. intros H. unfold bind. now rewrite H. Qed.

  Lemma pick_assoc {A} (k : value) (onhit : expr -> A) (onmiss : A) tbl :
    pick k onhit onmiss tbl = match assoc_v k tbl with Some b => onhit b | None => onmiss end.
  Proof.
    unfold pick, assoc_v. induction tbl as [|[v b] tbl IH]; [reflexivity|].
    destruct (value_eq k v); [reflexivity|exact IH].
  Qed.
End Generic.
