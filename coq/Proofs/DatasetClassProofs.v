(** Proofs about Model/DatasetClass.v (property C19).

    Contents
      1. equality tests of Base ([seg_eqb], [key_eqb], ...) decide equality
      2. association lists: [dget], [dset], unique keys, well-formed JSON
      3. Python's [==] on JSON ([json_eq]) is an equivalence on well-formed values, and on
         dictionaries it is pointwise equality of the bindings
      4. [restrict] (the oracle) computed binding by binding; it only depends on the SET of keys
      5. the constructor's loop builds the restriction ([IsRestr] invariant)
      6. members are evaluations; class operations are unions
      7. equality of instances, repr, the caller's dictionary
    Lemmas about Base.v that this property needs are proved here (Base.v is shared and
    contains definitions only). *)
From Coq Require Import List NArith ZArith Bool Lia Permutation.
Import ListNotations.
From LV Require Import Model.Base Model.DatasetClass.

(** * 1. Boolean equality tests *)

Lemma seg_eqb_eq a b : seg_eqb a b = true <-> a = b.
Proof.
  destruct a as [x|x], b as [y|y]; simpl; split; intros H; try discriminate;
    try (apply N.eqb_eq in H; now subst); try (injection H as ->; apply N.eqb_refl).
Qed.

Lemma seg_eqb_refl a : seg_eqb a a = true.
Proof. now apply seg_eqb_eq. Qed.

Lemma seg_eqb_neq a b : seg_eqb a b = false <-> a <> b.
Proof.
  split.
  - intros H E. subst. rewrite seg_eqb_refl in H. discriminate.
  - intros H. destruct (seg_eqb a b) eqn:E; [|reflexivity]. apply seg_eqb_eq in E. contradiction.
Qed.

Lemma seg_eqb_sym a b : seg_eqb a b = seg_eqb b a.
Proof.
  destruct (seg_eqb a b) eqn:E.
  - apply seg_eqb_eq in E. subst. symmetry. apply seg_eqb_refl.
  - symmetry. apply seg_eqb_neq. apply seg_eqb_neq in E. congruence.
Qed.

Lemma key_eqb_eq a b : key_eqb a b = true <-> a = b.
Proof.
  revert b; induction a as [|x a IH]; intros [|y b]; simpl; split; intros H; try discriminate; try reflexivity.
  - apply andb_true_iff in H as [H1 H2]. apply seg_eqb_eq in H1. apply IH in H2. now subst.
  - injection H as -> ->. rewrite seg_eqb_refl. simpl. now apply IH.
Qed.

Lemma key_eqb_refl a : key_eqb a a = true.
Proof. now apply key_eqb_eq. Qed.

Lemma tok_eqb_eq a b : tok_eqb a b = true <-> a = b.
Proof.
  destruct a, b; simpl; split; intros H; try discriminate; try reflexivity;
    try (apply N.eqb_eq in H; now subst); try (apply key_eqb_eq in H; now subst);
    try (injection H as ->; first [apply N.eqb_refl | apply key_eqb_refl]).
Qed.

Lemma str_eqb_eq a b : str_eqb a b = true <-> a = b.
Proof.
  revert b; induction a as [|x a IH]; intros [|y b]; simpl; split; intros H; try discriminate; try reflexivity.
  - apply andb_true_iff in H as [H1 H2]. apply tok_eqb_eq in H1. apply IH in H2. now subst.
  - injection H as -> ->. apply andb_true_iff. split; [now apply tok_eqb_eq | now apply IH].
Qed.

(** * 2. Association lists *)

Lemma dget_dset_same s v m : dget s (dset s v m) = Some v.
Proof.
  induction m as [|[k' v'] m IH]; simpl.
  - now rewrite seg_eqb_refl.
  - destruct (seg_eqb s k') eqn:E; simpl.
    + now rewrite seg_eqb_refl.
    + now rewrite E.
Qed.

Lemma dget_dset_other s s' v m : seg_eqb s' s = false -> dget s' (dset s v m) = dget s' m.
Proof.
  intros N. induction m as [|[k' v'] m IH]; simpl.
  - now rewrite N.
  - destruct (seg_eqb s k') eqn:E; simpl.
    + apply seg_eqb_eq in E. subst k'. now rewrite N.
    + now rewrite IH.
Qed.

(** Writing the value a key already has changes nothing — not even the order. *)
Lemma dset_same s v m : dget s m = Some v -> dset s v m = m.
Proof.
  induction m as [|[k' v'] m IH]; simpl; intros H; [discriminate|].
  destruct (seg_eqb s k') eqn:E.
  - apply seg_eqb_eq in E. injection H as ->. now subst.
  - now rewrite IH.
Qed.

Lemma dget_In s v m : dget s m = Some v -> In (s, v) m.
Proof.
  induction m as [|[k' v'] m IH]; simpl; intros H; [discriminate|].
  destruct (seg_eqb s k') eqn:E.
  - apply seg_eqb_eq in E. injection H as ->. subst. now left.
  - right. now apply IH.
Qed.

Lemma dget_None_iff s m : dget s m = None <-> ~ In s (map fst m).
Proof.
  induction m as [|[k' v'] m IH]; simpl.
  - split; [intros _ []|reflexivity].
  - destruct (seg_eqb s k') eqn:E.
    + apply seg_eqb_eq in E. subst. split; [discriminate|]. intros H. exfalso. apply H. now left.
    + apply seg_eqb_neq in E. rewrite IH. split.
      * intros H [H'|H']; [congruence|contradiction].
      * intros H H'. apply H. now right.
Qed.

Lemma dget_Some_key s v m : dget s m = Some v -> In s (map fst m).
Proof. intros H. apply dget_In in H. apply (in_map fst) in H. exact H. Qed.

Lemma existsb_key_false k m :
  existsb (fun kv : seg * json => seg_eqb k (fst kv)) m = false <-> ~ In k (map fst m).
Proof.
  induction m as [|[k' v'] m IH]; simpl.
  - split; [intros _ []|reflexivity].
  - rewrite orb_false_iff, IH, seg_eqb_neq. split.
    + intros [H1 H2] [H|H]; [congruence|contradiction].
    + intros H. split; [intros E; apply H; left; congruence | intros H'; apply H; now right].
Qed.

Lemma nodup_keys_NoDup m : nodup_keys m = true <-> NoDup (map fst m).
Proof.
  induction m as [|[k v] m IH]; simpl.
  - split; [constructor|reflexivity].
  - rewrite andb_true_iff, negb_true_iff, existsb_key_false, IH. split.
    + intros [H1 H2]. now constructor.
    + intros H. inversion H; subst. now split.
Qed.

Lemma In_dget s v m : nodup_keys m = true -> In (s, v) m -> dget s m = Some v.
Proof.
  induction m as [|[k' v'] m IH]; simpl; intros ND H; [contradiction|].
  apply andb_true_iff in ND as [ND1 ND2]. apply negb_true_iff, existsb_key_false in ND1.
  destruct H as [H|H].
  - injection H as -> ->. now rewrite seg_eqb_refl.
  - destruct (seg_eqb s k') eqn:E.
    + apply seg_eqb_eq in E. subst. exfalso. apply ND1. apply (in_map fst) in H. exact H.
    + now apply IH.
Qed.

(** Well-formed JSON, unfolded. *)
Lemma wf_json_list l : wf_json (JList l) = forallb wf_json l.
Proof. induction l as [|x l IH]; simpl; [reflexivity|]. f_equal; try exact IH. Qed.

Lemma wf_json_obj m : wf_json (JObj m) = nodup_keys m && forallb (fun kv => wf_json (snd kv)) m.
Proof.
  simpl. f_equal. induction m as [|[k v] m IH]; simpl; [reflexivity|]. f_equal; try exact IH.
Qed.

Lemma wf_dict_inv m : wf_dict m = true ->
  nodup_keys m = true /\ forall s v, dget s m = Some v -> wf_json v = true.
Proof.
  unfold wf_dict. rewrite wf_json_obj. intros H. apply andb_true_iff in H as [H1 H2]. split; [exact H1|].
  intros s v G. apply dget_In in G. rewrite forallb_forall in H2. exact (H2 _ G).
Qed.

Lemma wf_dict_intro m :
  nodup_keys m = true -> (forall s v, In (s, v) m -> wf_json v = true) -> wf_dict m = true.
Proof.
  intros H1 H2. unfold wf_dict. rewrite wf_json_obj, H1. simpl. apply forallb_forall.
  intros [s v] I. simpl. exact (H2 _ _ I).
Qed.

Lemma wf_dict_nil : wf_dict [] = true.
Proof. reflexivity. Qed.

Lemma In_dset s v m s' v' : In (s', v') (dset s v m) -> (s' = s /\ v' = v) \/ In (s', v') m.
Proof.
  induction m as [|[k w] m IH]; simpl.
  - intros [H|[]]. injection H as <- <-. now left.
  - destruct (seg_eqb s k) eqn:E; simpl.
    + intros [H|H]; [injection H as <- <-; now left | right; now right].
    + intros [H|H]; [right; now left|]. destruct (IH H) as [H'|H']; [now left|right; now right].
Qed.

Lemma keys_dset s v m : forall k, In k (map fst (dset s v m)) <-> k = s \/ In k (map fst m).
Proof.
  intros k. induction m as [|[k' w] m IH]; simpl.
  - split; [intros [H|[]]; now left | intros [H|[]]; now left].
  - destruct (seg_eqb s k') eqn:E; simpl.
    + apply seg_eqb_eq in E. subst k'. split; [intros [H|H]; [now left|right; now right] | intros [H|[H|H]]; [now left|now left|now right]].
    + rewrite IH. split; [intros [H|[H|H]]; [right; now left|now left|right; now right] | intros [H|[H|H]]; [right; now left|now left|right; now right]].
Qed.

Lemma nodup_dset s v m : nodup_keys m = true -> nodup_keys (dset s v m) = true.
Proof.
  induction m as [|[k w] m IH]; simpl; intros ND; [reflexivity|].
  apply andb_true_iff in ND as [ND1 ND2].
  destruct (seg_eqb s k) eqn:E; simpl.
  - apply seg_eqb_eq in E. subst k. now rewrite ND1, ND2.
  - rewrite IH by exact ND2. rewrite andb_true_r. apply negb_true_iff, existsb_key_false.
    apply negb_true_iff, existsb_key_false in ND1. intros H. apply keys_dset in H as [H|H].
    + subst. rewrite seg_eqb_refl in E. discriminate.
    + contradiction.
Qed.

Lemma wf_dset s v m : wf_dict m = true -> wf_json v = true -> wf_dict (dset s v m) = true.
Proof.
  intros W Wv. destruct (wf_dict_inv _ W) as [ND Wm]. apply wf_dict_intro.
  - now apply nodup_dset.
  - intros s' v' I. apply In_dset in I as [[-> ->]|I]; [exact Wv|].
    apply (Wm s'). now apply In_dget.
Qed.

Lemma wf_nth l n v : wf_json (JList l) = true -> nth_error l n = Some v -> wf_json v = true.
Proof.
  rewrite wf_json_list, forallb_forall. intros H G. apply H. eapply nth_error_In; eauto.
Qed.

Lemma wf_lookup k : forall j v, wf_json j = true -> lookup k j = Found v -> wf_json v = true.
Proof.
  induction k as [|s k IH]; simpl; intros j v W H.
  - now injection H as <-.
  - destruct j; try discriminate.
    + destruct s; try discriminate. destruct (nth_error l (N.to_nat i)) eqn:G; [|discriminate].
      eapply IH; [|exact H]. eapply wf_nth; eauto.
    + destruct s; try discriminate. destruct (dget (SName n) m) eqn:G; [|discriminate].
      eapply IH; [|exact H]. exact (proj2 (wf_dict_inv _ W) _ _ G).
Qed.

Lemma set_dotted_long s k v m : k <> [] ->
  set_dotted (s :: k) v m =
  match dget s m with
  | None => match set_dotted k v [] with Some sub => Some (dset s (JObj sub) m) | None => None end
  | Some (JObj sub0) =>
      match set_dotted k v sub0 with Some sub => Some (dset s (JObj sub) m) | None => None end
  | Some _ => None
  end.
Proof. destruct k; [congruence|reflexivity]. Qed.

Lemma wf_set_dotted k : forall v m m', wf_dict m = true -> wf_json v = true ->
  set_dotted k v m = Some m' -> wf_dict m' = true.
Proof.
  induction k as [|s k IH]; intros v m m' W Wv H.
  - simpl in H. now injection H as <-.
  - destruct k as [|s2 k].
    + simpl in H. injection H as <-. now apply wf_dset.
    + rewrite set_dotted_long in H by discriminate.
      destruct (dget s m) as [[| | | | | |sub0]|] eqn:G; try discriminate.
      * destruct (set_dotted (s2 :: k) v sub0) as [sub|] eqn:S; [|discriminate]. injection H as <-.
        apply wf_dset; [exact W|]. apply (IH v sub0 sub); [|exact Wv|exact S].
        exact (proj2 (wf_dict_inv _ W) _ _ G).
      * destruct (set_dotted (s2 :: k) v []) as [sub|] eqn:S; [|discriminate]. injection H as <-.
        apply wf_dset; [exact W|]. apply (IH v [] sub); [reflexivity|exact Wv|exact S].
Qed.

(** * 3. Python's [==] on JSON values *)

(** Induction on JSON values with the hypothesis available for every element of a list and
    every value of a dictionary. *)
Section JsonInd.
  Variable P : json -> Prop.
  Hypothesis HNull : P JNull.
  Hypothesis HBool : forall b, P (JBool b).
  Hypothesis HInt : forall z, P (JInt z).
  Hypothesis HFlt : forall i, P (JFlt i).
  Hypothesis HStr : forall s, P (JStr s).
  Hypothesis HList : forall l, Forall P l -> P (JList l).
  Hypothesis HObj : forall m, Forall (fun kv => P (snd kv)) m -> P (JObj m).

  Fixpoint json_ind2 (j : json) : P j :=
    match j with
    | JNull => HNull
    | JBool b => HBool b
    | JInt z => HInt z
    | JFlt i => HFlt i
    | JStr s => HStr s
    | JList l =>
        HList l ((fix go (l : list json) : Forall P l :=
                    match l with
                    | [] => Forall_nil _
                    | x :: l' => Forall_cons x (json_ind2 x) (go l')
                    end) l)
    | JObj m =>
        HObj m ((fix go (m : list (seg * json)) : Forall (fun kv => P (snd kv)) m :=
                   match m with
                   | [] => Forall_nil _
                   | (k, v) :: m' => Forall_cons (k, v) (json_ind2 v) (go m')
                   end) m)
    end.
End JsonInd.

Fixpoint forall2b {A} (f : A -> A -> bool) (x y : list A) : bool :=
  match x, y with
  | [], [] => true
  | a :: x', b :: y' => f a b && forall2b f x' y'
  | _, _ => false
  end.

Lemma json_eq_list x y : json_eq (JList x) (JList y) = forall2b json_eq x y.
Proof.
  revert y; induction x as [|a x IH]; intros [|b y]; simpl; try reflexivity.
  f_equal; try exact (IH y).
Qed.

Definition obj_all (y x : dict) : bool :=
  forallb (fun kv => match dget (fst kv) y with Some b => json_eq (snd kv) b | None => false end) x.

Lemma json_eq_obj x y :
  json_eq (JObj x) (JObj y) = Nat.eqb (length x) (length y) && obj_all y x.
Proof.
  simpl. f_equal. unfold obj_all. induction x as [|[ka a] x IH]; simpl; [reflexivity|].
  f_equal; try exact IH.
Qed.

(** Pointwise relation between two bindings of the same key. *)
Definition rel_opt (a b : option json) : Prop :=
  match a, b with
  | Some a, Some b => json_eq a b = true
  | None, None => True
  | _, _ => False
  end.

Lemma obj_all_spec y x :
  obj_all y x = true <->
  forall k a, In (k, a) x -> exists b, dget k y = Some b /\ json_eq a b = true.
Proof.
  unfold obj_all. rewrite forallb_forall. split.
  - intros H k a I. specialize (H _ I). simpl in H. destruct (dget k y) as [b|]; [|discriminate]. now exists b.
  - intros H [k a] I. simpl. destruct (H _ _ I) as [b [-> E]]. exact E.
Qed.

(** On dictionaries with unique keys, [==] is: same keys, equal values. *)
Lemma obj_eq_iff x y : nodup_keys x = true -> nodup_keys y = true ->
  (json_eq (JObj x) (JObj y) = true <-> forall s, rel_opt (dget s x) (dget s y)).
Proof.
  intros NDx NDy. rewrite json_eq_obj, andb_true_iff, Nat.eqb_eq, obj_all_spec.
  pose proof (proj1 (nodup_keys_NoDup x) NDx) as Nx.
  pose proof (proj1 (nodup_keys_NoDup y) NDy) as Ny.
  split.
  - intros [HL HA] s.
    assert (Hincl : incl (map fst x) (map fst y)).
    { intros k I. apply in_map_iff in I as [[k' a] [E I]]. simpl in E. subst k'.
      destruct (HA _ _ I) as [b [G _]]. eapply dget_Some_key; eauto. }
    assert (Hincl' : incl (map fst y) (map fst x)).
    { apply NoDup_length_incl; [exact Nx| |exact Hincl]. rewrite !map_length. lia. }
    unfold rel_opt. destruct (dget s x) as [a|] eqn:Gx.
    + destruct (HA _ _ (dget_In _ _ _ Gx)) as [b [-> E]]. exact E.
    + destruct (dget s y) as [b|] eqn:Gy; [|exact I].
      apply dget_None_iff in Gx. apply Gx, Hincl'. eapply dget_Some_key; eauto.
  - intros H.
    assert (Hxy : incl (map fst x) (map fst y)).
    { intros k I. specialize (H k). unfold rel_opt in H.
      destruct (dget k x) as [a|] eqn:Gx.
      - destruct (dget k y) as [b|] eqn:Gy; [eapply dget_Some_key; eauto|contradiction].
      - apply dget_None_iff in Gx. contradiction. }
    assert (Hyx : incl (map fst y) (map fst x)).
    { intros k I. specialize (H k). unfold rel_opt in H.
      destruct (dget k y) as [b|] eqn:Gy.
      - destruct (dget k x) as [a|] eqn:Gx; [eapply dget_Some_key; eauto|contradiction].
      - apply dget_None_iff in Gy. contradiction. }
    split.
    + pose proof (NoDup_incl_length Nx Hxy) as L1. pose proof (NoDup_incl_length Ny Hyx) as L2.
      rewrite !map_length in L1, L2. lia.
    + intros k a I. specialize (H k). unfold rel_opt in H.
      rewrite (In_dget _ _ _ NDx I) in H. destruct (dget k y) as [b|]; [|contradiction]. now exists b.
Qed.

Lemma bool_z_inj a b : bool_z a = bool_z b -> a = b.
Proof. destruct a, b; simpl; intros H; try reflexivity; discriminate. Qed.

Ltac scalar_hyps :=
  repeat match goal with
         | H : Bool.eqb _ _ = true |- _ => apply eqb_prop in H
         | H : Z.eqb _ _ = true |- _ => apply Z.eqb_eq in H
         | H : N.eqb _ _ = true |- _ => apply N.eqb_eq in H
         | H : str_eqb _ _ = true |- _ => apply str_eqb_eq in H
         end.

Ltac scalar_goal :=
  match goal with
  | |- Bool.eqb _ _ = true => apply eqb_true_iff
  | |- Z.eqb _ _ = true => apply Z.eqb_eq
  | |- N.eqb _ _ = true => apply N.eqb_eq
  | |- str_eqb _ _ = true => apply str_eqb_eq
  end.

Lemma forall2b_refl {A} (f : A -> A -> bool) l :
  Forall (fun a => f a a = true) l -> forall2b f l l = true.
Proof. induction 1 as [|a l H _ IH]; simpl; [reflexivity|]. now rewrite H, IH. Qed.

Lemma json_eq_refl : forall j, wf_json j = true -> json_eq j j = true.
Proof.
  apply (json_ind2 (fun j => wf_json j = true -> json_eq j j = true)); simpl; intros; try reflexivity.
  - apply eqb_reflx.
  - apply Z.eqb_refl.
  - apply N.eqb_refl.
  - now apply str_eqb_eq.
  - change (json_eq (JList l) (JList l) = true). rewrite json_eq_list. apply forall2b_refl.
    change (wf_json (JList l) = true) in H0. rewrite wf_json_list, forallb_forall in H0.
    rewrite Forall_forall in *. intros a I. apply H; [exact I|]. now apply H0.
  - change (json_eq (JObj m) (JObj m) = true). change (wf_json (JObj m) = true) in H0.
    destruct (wf_dict_inv _ H0) as [ND W]. apply obj_eq_iff; [exact ND|exact ND|].
    intros s. unfold rel_opt. destruct (dget s m) as [a|] eqn:G; [|exact I].
    rewrite Forall_forall in H. apply (H (s, a)); [now apply dget_In|]. exact (W _ _ G).
Qed.

Lemma json_eq_sym : forall a, wf_json a = true -> forall b, wf_json b = true ->
  json_eq a b = true -> json_eq b a = true.
Proof.
  apply (json_ind2 (fun a => wf_json a = true -> forall b, wf_json b = true ->
                             json_eq a b = true -> json_eq b a = true)).
  - intros _ [] _ H; simpl in *; try discriminate; reflexivity.
  - intros x _ [] _ H; simpl in *; try discriminate; scalar_hyps; subst; scalar_goal; reflexivity.
  - intros x _ [] _ H; simpl in *; try discriminate; scalar_hyps; subst; scalar_goal; reflexivity.
  - intros x _ [] _ H; simpl in *; try discriminate; scalar_hyps; subst; scalar_goal; reflexivity.
  - intros x _ [] _ H; simpl in *; try discriminate; scalar_hyps; subst; scalar_goal; reflexivity.
  - intros l IH Wa [| | | | |l'|] Wb H; try (simpl in H; discriminate).
    rewrite json_eq_list in *. rewrite wf_json_list, forallb_forall in Wa, Wb.
    revert l' Wb H. induction l as [|a l IHl]; intros [|b l'] Wb H; simpl in *; try discriminate; try reflexivity.
    apply andb_true_iff in H as [H1 H2]. inversion IH as [|? ? IHa IHr]; subst.
    apply andb_true_iff. split.
    + apply IHa; [apply Wa; now left|apply Wb; now left|exact H1].
    + apply IHl; [exact IHr|intros z Iz; apply Wa; now right|intros z Iz; apply Wb; now right|exact H2].
  - intros m IH Wa [| | | | | |m'] Wb H; try (simpl in H; discriminate).
    destruct (wf_dict_inv _ Wa) as [NDa Wma]. destruct (wf_dict_inv _ Wb) as [NDb Wmb].
    apply obj_eq_iff; [exact NDb|exact NDa|]. rewrite obj_eq_iff in H by assumption.
    intros s. specialize (H s). unfold rel_opt in *.
    destruct (dget s m) as [a|] eqn:Ga; destruct (dget s m') as [b|] eqn:Gb; try contradiction; try exact I.
    rewrite Forall_forall in IH. apply (IH (s, a)); [now apply dget_In|exact (Wma _ _ Ga)|exact (Wmb _ _ Gb)|exact H].
Qed.

Lemma json_eq_trans : forall a, wf_json a = true -> forall b c, wf_json b = true -> wf_json c = true ->
  json_eq a b = true -> json_eq b c = true -> json_eq a c = true.
Proof.
  apply (json_ind2 (fun a => wf_json a = true -> forall b c, wf_json b = true -> wf_json c = true ->
                             json_eq a b = true -> json_eq b c = true -> json_eq a c = true)).
  - intros _ [] [] _ _ H1 H2; simpl in *; try discriminate; reflexivity.
  - intros x _ [] [] _ _ H1 H2; simpl in *; try discriminate; scalar_hyps; subst;
      try (apply bool_z_inj in H2; subst); scalar_goal; try reflexivity; congruence.
  - intros x _ [] [] _ _ H1 H2; simpl in *; try discriminate; scalar_hyps; subst;
      try (apply bool_z_inj in H2; subst); scalar_goal; try reflexivity; congruence.
  - intros x _ [] [] _ _ H1 H2; simpl in *; try discriminate; scalar_hyps; subst; scalar_goal; reflexivity.
  - intros x _ [] [] _ _ H1 H2; simpl in *; try discriminate; scalar_hyps; subst; scalar_goal; reflexivity.
  - intros l IH Wa [| | | | |l2|] [| | | | |l3|] Wb Wc H1 H2; try (simpl in H1; discriminate); try (simpl in H2; discriminate).
    rewrite json_eq_list in *. rewrite wf_json_list, forallb_forall in Wa, Wb, Wc.
    revert l2 l3 Wb Wc H1 H2. induction l as [|a l IHl]; intros [|b l2] [|c l3] Wb Wc H1 H2; simpl in *; try discriminate; try reflexivity.
    apply andb_true_iff in H1 as [H1 H1']. apply andb_true_iff in H2 as [H2 H2'].
    inversion IH as [|? ? IHa IHr]; subst. apply andb_true_iff. split.
    + apply (IHa (Wa _ (or_introl eq_refl)) b c); [apply Wb; now left|apply Wc; now left|exact H1|exact H2].
    + apply (IHl IHr) with (l2 := l2); [intros z Iz; apply Wa; now right|intros z Iz; apply Wb; now right|intros z Iz; apply Wc; now right|exact H1'|exact H2'].
  - intros m IH Wa [| | | | | |m2] [| | | | | |m3] Wb Wc H1 H2; try (simpl in H1; discriminate); try (simpl in H2; discriminate).
    destruct (wf_dict_inv _ Wa) as [NDa Wma]. destruct (wf_dict_inv _ Wb) as [NDb Wmb].
    destruct (wf_dict_inv _ Wc) as [NDc Wmc].
    apply obj_eq_iff; [exact NDa|exact NDc|].
    rewrite obj_eq_iff in H1 by assumption. rewrite obj_eq_iff in H2 by assumption.
    intros s. specialize (H1 s). specialize (H2 s). unfold rel_opt in *.
    destruct (dget s m) as [a|] eqn:Ga; destruct (dget s m2) as [b|] eqn:Gb;
      destruct (dget s m3) as [c|] eqn:Gc; try contradiction; try exact I.
    rewrite Forall_forall in IH.
    apply (IH (s, a) (dget_In _ _ _ Ga) (Wma _ _ Ga) b c); [exact (Wmb _ _ Gb)|exact (Wmc _ _ Gc)|exact H1|exact H2].
Qed.

(** [json_eq] respects [json_eq] on both sides (as booleans). *)
Lemma json_eq_congr a a' b b' :
  wf_json a = true -> wf_json a' = true -> wf_json b = true -> wf_json b' = true ->
  json_eq a a' = true -> json_eq b b' = true -> json_eq a b = json_eq a' b'.
Proof.
  intros Wa Wa' Wb Wb' Ea Eb.
  destruct (json_eq a b) eqn:E1; destruct (json_eq a' b') eqn:E2; try reflexivity.
  - rewrite <- E2. symmetry.
    apply (json_eq_trans a' Wa' a b' Wa Wb'); [now apply json_eq_sym|].
    apply (json_eq_trans a Wa b b' Wb Wb'); assumption.
  - rewrite <- E1.
    apply (json_eq_trans a Wa a' b Wa' Wb); [assumption|].
    apply (json_eq_trans a' Wa' b' b Wb' Wb); [assumption|now apply json_eq_sym].
Qed.

(** * 4. [restrict], binding by binding *)

Definition rentry (s : seg) (v : json) (K : list key) : option json :=
  match tails s K with
  | [] => None
  | ts => Some (if has_nil ts then v else restrictj v ts)
  end.

Lemma restrictj_obj m K : restrictj (JObj m) K = JObj (restrict m K).
Proof. reflexivity. Qed.

Lemma restrict_cons s v m K :
  restrict ((s, v) :: m) K =
  match rentry s v K with None => restrict m K | Some v' => (s, v') :: restrict m K end.
Proof. unfold rentry, restrict. simpl. destruct (tails s K); reflexivity. Qed.

Lemma In_restrict s v' m K :
  In (s, v') (restrict m K) -> exists v, In (s, v) m /\ rentry s v K = Some v'.
Proof.
  induction m as [|[s0 v0] m IH]; [intros []|]. rewrite restrict_cons.
  destruct (rentry s0 v0 K) as [w|] eqn:R.
  - intros [H|H].
    + injection H as -> ->. exists v0. split; [now left|exact R].
    + destruct (IH H) as [v [I E]]. exists v. split; [now right|exact E].
  - intros H. destruct (IH H) as [v [I E]]. exists v. split; [now right|exact E].
Qed.

Lemma keys_restrict_incl s m K : In s (map fst (restrict m K)) -> In s (map fst m).
Proof.
  intros H. apply in_map_iff in H as [[s' v'] [E I]]. simpl in E. subst s'.
  destruct (In_restrict _ _ _ _ I) as [v [I' _]]. apply (in_map fst) in I'. exact I'.
Qed.

Lemma nodup_restrict m K : nodup_keys m = true -> nodup_keys (restrict m K) = true.
Proof.
  induction m as [|[s v] m IH]; [reflexivity|]. intros ND. simpl in ND.
  apply andb_true_iff in ND as [ND1 ND2]. apply negb_true_iff, existsb_key_false in ND1.
  rewrite restrict_cons. destruct (rentry s v K) as [w|]; [|now apply IH].
  simpl. rewrite IH by exact ND2. rewrite andb_true_r. apply negb_true_iff, existsb_key_false.
  intros H. apply ND1. eapply keys_restrict_incl; eauto.
Qed.

Lemma dget_restrict s m K : nodup_keys m = true ->
  dget s (restrict m K) = match dget s m with None => None | Some v => rentry s v K end.
Proof.
  induction m as [|[s0 v0] m IH]; [reflexivity|]. intros ND. simpl in ND.
  apply andb_true_iff in ND as [ND1 ND2]. apply negb_true_iff, existsb_key_false in ND1.
  rewrite restrict_cons. simpl. destruct (seg_eqb s s0) eqn:E.
  - apply seg_eqb_eq in E. subst s0. destruct (rentry s v0 K) as [w|]; simpl.
    + now rewrite seg_eqb_refl.
    + apply dget_None_iff. intros H. apply ND1. eapply keys_restrict_incl; eauto.
  - destruct (rentry s0 v0 K) as [w|]; simpl; [rewrite E|]; now apply IH.
Qed.

Lemma wf_restrictj : forall j, wf_json j = true -> forall K, wf_json (restrictj j K) = true.
Proof.
  apply (json_ind2 (fun j => wf_json j = true -> forall K, wf_json (restrictj j K) = true));
    try (intros; simpl; assumption).
  intros m IH W K. rewrite restrictj_obj. destruct (wf_dict_inv _ W) as [ND Wm].
  apply wf_dict_intro; [now apply nodup_restrict|].
  intros s v' I. destruct (In_restrict _ _ _ _ I) as [v [I' R]]. unfold rentry in R.
  assert (Wv : wf_json v = true) by (apply (Wm s); now apply In_dget).
  destruct (tails s K) as [|t ts]; [discriminate|]. remember (t :: ts) as tt eqn:Ett.
  injection R as <-.
  destruct (has_nil tt); [exact Wv|]. rewrite Forall_forall in IH. exact (IH (s, v) I' Wv _).
Qed.

Lemma wf_restrict o K : wf_dict o = true -> wf_dict (restrict o K) = true.
Proof. intros W. exact (wf_restrictj (JObj o) W K). Qed.

Lemma tails_In s k' K : In k' (tails s K) <-> In (s :: k') K.
Proof.
  unfold tails. rewrite in_flat_map. split.
  - intros [[|s' k0] [I H]]; [destruct H|]. destruct (seg_eqb s s') eqn:E; [|destruct H].
    apply seg_eqb_eq in E. subst s'. destruct H as [<-|[]]. exact I.
  - intros I. exists (s :: k'). split; [exact I|]. rewrite seg_eqb_refl. now left.
Qed.

Lemma has_nil_In ts : has_nil ts = true <-> In [] ts.
Proof.
  unfold has_nil. rewrite existsb_exists. split.
  - intros [[|a k] [I H]]; [exact I|discriminate].
  - intros I. exists []. now split.
Qed.

Lemma rentry_ext s v K K' :
  (forall k, In k K <-> In k K') ->
  (forall ts ts', (forall k, In k ts <-> In k ts') -> restrictj v ts = restrictj v ts') ->
  rentry s v K = rentry s v K'.
Proof.
  intros HK IH. unfold rentry.
  assert (HT : forall k, In k (tails s K) <-> In k (tails s K')) by (intros k; now rewrite !tails_In).
  assert (HN : has_nil (tails s K) = has_nil (tails s K')).
  { destruct (has_nil (tails s K)) eqn:A; destruct (has_nil (tails s K')) eqn:B; try reflexivity.
    - apply has_nil_In, HT, has_nil_In in A. congruence.
    - apply has_nil_In, HT, has_nil_In in B. congruence. }
  destruct (tails s K) as [|t ts] eqn:T; destruct (tails s K') as [|t' ts'] eqn:T'.
  - reflexivity.
  - exfalso. apply (proj2 (HT t')). now left.
  - exfalso. apply (proj1 (HT t)). now left.
  - rewrite HN. rewrite (IH _ _ HT). reflexivity.
Qed.

(** [restrict] depends only on the set of keys (not on order or repetitions). *)
Lemma restrictj_ext : forall j K K', (forall k, In k K <-> In k K') -> restrictj j K = restrictj j K'.
Proof.
  apply (json_ind2 (fun j => forall K K', (forall k, In k K <-> In k K') -> restrictj j K = restrictj j K'));
    try reflexivity.
  intros m IH K K' HK. rewrite !restrictj_obj. f_equal.
  induction m as [|[s v] m IHm]; [reflexivity|]. rewrite !restrict_cons.
  inversion IH as [|? ? IHv IHr]; subst. simpl in IHv.
  rewrite (rentry_ext s v K K' HK IHv). rewrite (IHm IHr). reflexivity.
Qed.

Lemma restrict_ext o K K' : (forall k, In k K <-> In k K') -> restrict o K = restrict o K'.
Proof.
  intros H. pose proof (restrictj_ext (JObj o) K K' H) as E. rewrite !restrictj_obj in E. now injection E.
Qed.

Lemma key_insert_In x k l : In x (key_insert k l) <-> x = k \/ In x l.
Proof.
  induction l as [|a l IH]; simpl.
  - split; [intros [H|[]]; now left | intros [H|[]]; now left].
  - destruct (key_ltb k a); [simpl; split; [intros [H|H]; [now left|now right] | intros [H|H]; [now left|now right]]|].
    destruct (key_eqb k a) eqn:E.
    + apply key_eqb_eq in E. subst a. simpl. split; [intros H; now right | intros [H|H]; [now left|exact H]].
    + simpl. rewrite IH. split; [intros [H|[H|H]]; [right; now left|now left|right; now right] | intros [H|[H|H]]; [right; now left|now left|right; now right]].
Qed.

Lemma key_sort_In x l : In x (key_sort l) <-> In x l.
Proof.
  unfold key_sort. induction l as [|a l IH]; simpl; [reflexivity|].
  rewrite key_insert_In, IH. split; intros [H|H]; auto.
Qed.

(** * 5. The constructor's loop builds the restriction *)

(** [IsRestr K d o]: [d] contains, binding by binding, exactly what the keys [K] select from
    [o]: nothing under a name no key starts with; the caller's whole value under a name that is a
    key; and, recursively, the restriction to the key tails otherwise. *)
Inductive IsRestr : list key -> dict -> dict -> Prop :=
| IsRestr_intro K d o :
    (forall s, tails s K = [] -> dget s d = None) ->
    (forall s, has_nil (tails s K) = true -> exists v, dget s o = Some v /\ dget s d = Some v) ->
    (forall s, tails s K <> [] -> has_nil (tails s K) = false ->
       exists d' o', dget s d = Some (JObj d') /\ dget s o = Some (JObj o') /\ IsRestr (tails s K) d' o') ->
    IsRestr K d o.

Lemma IsRestr_nil o : IsRestr [] [] o.
Proof.
  constructor; simpl; intros s H; try reflexivity; try discriminate. exfalso. now apply H.
Qed.

Lemma tails_cons_key s0 s k' K :
  tails s0 ((s :: k') :: K) = (if seg_eqb s0 s then [k'] else []) ++ tails s0 K.
Proof. reflexivity. Qed.

(** The restriction, read through [==]. *)
Lemma IsRestr_json_eq : forall j, wf_json j = true ->
  match j with
  | JObj o => forall K d, wf_dict d = true -> IsRestr K d o -> json_eq (JObj d) (JObj (restrict o K)) = true
  | _ => True
  end.
Proof.
  apply (json_ind2 (fun j => wf_json j = true ->
    match j with
    | JObj o => forall K d, wf_dict d = true -> IsRestr K d o -> json_eq (JObj d) (JObj (restrict o K)) = true
    | _ => True
    end)); try (intros; exact I).
  intros m IH W K d Wd HR. destruct (wf_dict_inv _ W) as [ND Wm]. destruct (wf_dict_inv _ Wd) as [NDd Wdm].
  apply obj_eq_iff; [exact NDd|now apply nodup_restrict|].
  intros s. rewrite dget_restrict by exact ND. inversion HR as [? ? ? H1 H2 H3]; subst.
  unfold rentry. destruct (tails s K) as [|t ts] eqn:T.
  - rewrite (H1 s T). destruct (dget s m); exact I.
  - destruct (has_nil (t :: ts)) eqn:N.
    + rewrite <- T in N. destruct (H2 s N) as [v [Go Gd]]. rewrite Go, Gd. simpl.
      apply json_eq_refl. exact (Wm _ _ Go).
    + assert (T' : tails s K <> []) by (rewrite T; discriminate). rewrite <- T in N.
      destruct (H3 s T' N) as [d' [o' [Gd [Go HR']]]]. rewrite Go, Gd. simpl.
      rewrite <- T. rewrite Forall_forall in IH.
      exact (IH (s, JObj o') (dget_In _ _ _ Go) (Wm _ _ Go) (tails s K) d' (Wdm _ _ Gd) HR').
Qed.

Lemma IsRestr_eq o K d : wf_dict o = true -> wf_dict d = true -> IsRestr K d o ->
  json_eq (JObj d) (JObj (restrict o K)) = true.
Proof. intros W Wd H. exact (IsRestr_json_eq (JObj o) W K d Wd H). Qed.

(** Every selected key reads, in the restriction, exactly the value it has in the options. *)
Lemma IsRestr_lookup : forall k K d o, IsRestr K d o -> In k K -> k <> [] ->
  lookup k (JObj d) = lookup k (JObj o).
Proof.
  induction k as [|s k IH]; intros K d o HR I NE; [congruence|].
  inversion HR as [? ? ? H1 H2 H3]; subst. simpl. destruct s as [n|i]; [|reflexivity].
  apply tails_In in I.
  destruct (has_nil (tails (SName n) K)) eqn:N.
  - destruct (H2 _ N) as [v [Go Gd]]. now rewrite Go, Gd.
  - assert (T : tails (SName n) K <> []) by (intros E; rewrite E in I; destruct I).
    destruct (H3 _ T N) as [d' [o' [Gd [Go HR']]]]. rewrite Go, Gd.
    apply (IH _ _ _ HR' I). intros ->. apply has_nil_In in I. congruence.
Qed.

Lemma name_key_cons s k : name_key (s :: k) = true -> is_name s = true /\ (k = [] \/ name_key k = true).
Proof.
  simpl. intros H. apply andb_true_iff in H as [H1 H2]. split; [exact H1|].
  destruct k as [|s2 k]; [now left|right]. exact H2.
Qed.

Lemma lookup_name_cons s k j v : is_name s = true -> lookup (s :: k) j = Found v ->
  exists m w, j = JObj m /\ dget s m = Some w /\ lookup k w = Found v.
Proof.
  intros Hs H. destruct s as [n|i]; [|discriminate]. simpl in H.
  destruct j; try discriminate. destruct (dget (SName n) m) as [w|] eqn:G; [|discriminate].
  now exists m, w.
Qed.

(** Writing, under a name path, the value that is already there changes nothing (this is what
    the constructor does to the caller's nested dictionary when a key and one of its prefixes are
    both reported). *)
Lemma set_dotted_same : forall k, name_key k = true -> forall m v,
  lookup k (JObj m) = Found v -> set_dotted k v m = Some m.
Proof.
  induction k as [|s k IH]; [discriminate|]. intros NK m v H.
  destruct (name_key_cons _ _ NK) as [Hs Hk].
  destruct (lookup_name_cons _ _ _ _ Hs H) as [m0 [w [E [G L]]]]. injection E as <-.
  destruct k as [|s2 k].
  - simpl in L. injection L as ->. simpl. now rewrite dset_same.
  - destruct Hk as [Hk|Hk]; [discriminate|]. rewrite set_dotted_long by discriminate. rewrite G.
    destruct (name_key_cons _ _ Hk) as [Hs2 _].
    destruct (lookup_name_cons _ _ _ _ Hs2 L) as [sub0 [w2 [E2 _]]]. subst w.
    rewrite (IH Hk sub0 v L). now rewrite dset_same.
Qed.

(** One iteration of the loop. *)
Lemma set_step : forall k, name_key k = true -> forall v K acc o,
  IsRestr K acc o -> lookup k (JObj o) = Found v ->
  exists acc', set_dotted k v acc = Some acc' /\ IsRestr (k :: K) acc' o.
Proof.
  induction k as [|s k IH]; [discriminate|]. intros NK v K acc o HR H.
  destruct (name_key_cons _ _ NK) as [Hs Hk].
  destruct (lookup_name_cons _ _ _ _ Hs H) as [m0 [w [E [G L]]]]. injection E as <-.
  inversion HR as [? ? ? H1 H2 H3]; subst.
  destruct k as [|s2 k].
  - (* the key is a single name: d[s] = v *)
    simpl in L. injection L as ->. exists (dset s v acc). split; [reflexivity|].
    constructor; intros s0; rewrite tails_cons_key; destruct (seg_eqb s0 s) eqn:E; simpl.
    + discriminate.
    + rewrite dget_dset_other by exact E. apply H1.
    + intros _. apply seg_eqb_eq in E. subst s0. exists v. split; [exact G|apply dget_dset_same].
    + rewrite dget_dset_other by exact E. apply H2.
    + intros _ N. discriminate.
    + rewrite dget_dset_other by exact E. apply H3.
  - destruct Hk as [Hk|Hk]; [discriminate|].
    destruct (name_key_cons _ _ Hk) as [Hs2 _].
    destruct (lookup_name_cons _ _ _ _ Hs2 L) as [o' [w2 [E2 _]]]. subst w.
    rewrite set_dotted_long by discriminate.
    destruct (tails s K) as [|t ts] eqn:T.
    + (* first key under this name: a fresh dictionary is created *)
      rewrite (H1 s T).
      destruct (IH Hk v [] [] o' (IsRestr_nil o') L) as [sub [S HRs]]. rewrite S.
      exists (dset s (JObj sub) acc). split; [reflexivity|].
      constructor; intros s0; rewrite tails_cons_key; destruct (seg_eqb s0 s) eqn:E; simpl.
      * discriminate.
      * rewrite dget_dset_other by exact E. apply H1.
      * apply seg_eqb_eq in E. subst s0. rewrite T. simpl. discriminate.
      * rewrite dget_dset_other by exact E. apply H2.
      * intros _ _. apply seg_eqb_eq in E. subst s0. rewrite T. exists sub, o'.
        split; [apply dget_dset_same|]. split; [exact G|exact HRs].
      * rewrite dget_dset_other by exact E. apply H3.
    + destruct (has_nil (t :: ts)) eqn:N.
      * (* a prefix was reported: the caller's own dictionary sits there; the write is a no-op *)
        rewrite <- T in N. destruct (H2 s N) as [v0 [Go Gd]]. rewrite G in Go. injection Go as <-.
        rewrite Gd. rewrite (set_dotted_same _ Hk o' v L). rewrite (dset_same _ _ _ Gd).
        exists acc. split; [reflexivity|].
        constructor; intros s0; rewrite tails_cons_key; destruct (seg_eqb s0 s) eqn:E; simpl.
        -- discriminate.
        -- apply H1.
        -- intros _. apply seg_eqb_eq in E. subst s0. exists (JObj o'). now split.
        -- apply H2.
        -- intros _ N'. apply seg_eqb_eq in E. subst s0. rewrite N in N'. discriminate.
        -- apply H3.
      * (* other keys under this name were written before: descend *)
        assert (T' : tails s K <> []) by (rewrite T; discriminate). rewrite <- T in N.
        destruct (H3 s T' N) as [d' [o'' [Gd [Go HR']]]]. rewrite G in Go. injection Go as <-.
        rewrite Gd. destruct (IH Hk v _ d' o' HR' L) as [d'' [S HRd]]. rewrite S.
        exists (dset s (JObj d'') acc). split; [reflexivity|].
        constructor; intros s0; rewrite tails_cons_key; destruct (seg_eqb s0 s) eqn:E; simpl.
        -- discriminate.
        -- rewrite dget_dset_other by exact E. apply H1.
        -- apply seg_eqb_eq in E. subst s0. rewrite N. discriminate.
        -- rewrite dget_dset_other by exact E. apply H2.
        -- intros _ _. apply seg_eqb_eq in E. subst s0. exists d'', o'.
           split; [apply dget_dset_same|]. split; [exact G|exact HRd].
        -- rewrite dget_dset_other by exact E. apply H3.
Qed.

Lemma forallb_In {A} (f : A -> bool) l l' :
  (forall x, In x l' -> In x l) -> forallb f l = true -> forallb f l' = true.
Proof. rewrite !forallb_forall. intros H F x I. apply F, H, I. Qed.

(** The whole loop, from any intermediate state. *)
Lemma build_repr_spec : forall ks o acc Kdone,
  wf_dict o = true -> wf_dict acc = true -> IsRestr Kdone acc o ->
  name_keys ks = true -> keys_present ks o = true ->
  exists r, build_repr ks o acc = RBuilt r /\ wf_dict r = true /\ IsRestr (rev ks ++ Kdone) r o.
Proof.
  induction ks as [|k ks IH]; intros o acc Kdone W Wa HR NK KP.
  - exists acc. split; [reflexivity|]. split; [exact Wa|exact HR].
  - simpl in NK, KP. apply andb_true_iff in NK as [NK1 NK2]. apply andb_true_iff in KP as [KP1 KP2].
    simpl. destruct (lookup_top k o) as [v| |] eqn:L; try discriminate.
    destruct (set_step k NK1 v Kdone acc o HR L) as [acc' [S HR']]. rewrite S.
    assert (Wa' : wf_dict acc' = true).
    { apply (wf_set_dotted k v acc acc' Wa); [|exact S]. exact (wf_lookup k (JObj o) v W L). }
    destruct (IH o acc' (k :: Kdone) W Wa' HR' NK2 KP2) as [r [B [Wr HRr]]].
    exists r. split; [exact B|]. split; [exact Wr|]. now rewrite <- app_assoc.
Qed.

(** If the loop ran to completion, every key was found. *)
Lemma build_repr_present : forall ks o acc r, build_repr ks o acc = RBuilt r -> keys_present ks o = true.
Proof.
  induction ks as [|k ks IH]; intros o acc r H; [reflexivity|]. simpl in *.
  destruct (lookup_top k o) as [v| |]; try discriminate. simpl.
  destruct (set_dotted k v acc) as [acc'|]; [|discriminate]. eapply IH; eauto.
Qed.

Lemma repr_options_present K o r : repr_options K o = RBuilt r -> keys_present K o = true.
Proof.
  intros H. apply build_repr_present in H. unfold keys_present in *.
  eapply forallb_In; [|exact H]. intros x I. now apply key_sort_In.
Qed.

(** [_repr_options] is the options restricted to the reported keys. *)
Lemma repr_options_restrict K o :
  wf_dict o = true -> name_keys K = true -> keys_present K o = true ->
  exists r, repr_options K o = RBuilt r /\ wf_dict r = true /\
            json_eq (JObj r) (JObj (restrict o K)) = true /\
            (forall k, In k K -> lookup_top k r = lookup_top k o).
Proof.
  intros W NK KP. unfold repr_options.
  assert (NK' : name_keys (key_sort K) = true).
  { unfold name_keys in *. eapply forallb_In; [|exact NK]. intros x I. now apply key_sort_In. }
  assert (KP' : keys_present (key_sort K) o = true).
  { unfold keys_present in *. eapply forallb_In; [|exact KP]. intros x I. now apply key_sort_In. }
  destruct (build_repr_spec (key_sort K) o [] [] W wf_dict_nil (IsRestr_nil o) NK' KP') as [r [B [Wr HR]]].
  exists r. split; [exact B|]. split; [exact Wr|]. rewrite app_nil_r in HR. split.
  - rewrite (restrict_ext o K (rev (key_sort K))).
    + now apply IsRestr_eq.
    + intros k. rewrite <- in_rev. symmetry. apply key_sort_In.
  - intros k I. unfold lookup_top. apply (IsRestr_lookup k _ _ _ HR).
    + rewrite <- in_rev. now apply key_sort_In.
    + unfold name_keys in NK. rewrite forallb_forall in NK. specialize (NK _ I). intros ->. discriminate.
Qed.

(** * 7a. The caller's dictionary *)

Lemma set_dotted_found : forall k m v, lookup k (JObj m) = Found v ->
  set_dotted k v m = Some m \/ set_dotted k v m = None.
Proof.
  induction k as [|s k IH]; intros m v H; [now left|].
  destruct s as [n|i]; [|discriminate]. simpl in H.
  destruct (dget (SName n) m) as [w|] eqn:G; [|discriminate].
  destruct k as [|s2 k].
  - simpl in H. injection H as ->. left. simpl. now rewrite dset_same.
  - rewrite set_dotted_long by discriminate. rewrite G.
    destruct w as [| | | | | |sub0]; try (now right).
    destruct (IH sub0 v H) as [E|E]; rewrite E; [left; now rewrite dset_same | now right].
Qed.

Lemma caller_writes_sound : forall ks done o k v,
  In (k, v) (caller_writes done ks o) -> lookup_top k o = Found v.
Proof.
  induction ks as [|k0 ks IH]; intros done o k v I; [destruct I|]. simpl in I.
  apply in_app_or in I as [I|I]; [|eapply IH; eauto].
  destruct (existsb (fun p => proper_prefix p k0) done); [|destruct I].
  destruct (lookup_top k0 o) as [v0| |] eqn:L.
  - destruct I as [I|[]]. injection I as <- <-. exact L.
  - destruct I.
  - destruct I.
Qed.

Lemma apply_writes_same : forall ws o,
  (forall k v, In (k, v) ws -> lookup_top k o = Found v) -> fst (apply_writes ws o) = o.
Proof.
  induction ws as [|[k v] ws IH]; intros o H; [reflexivity|]. simpl.
  destruct (set_dotted_found k o v (H k v (or_introl eq_refl))) as [E|E]; rewrite E; [|reflexivity].
  apply IH. intros k' v' I. apply H. now right.
Qed.

(** No write of the constructor that lands in an object owned by the caller changes it. *)
Lemma caller_unchanged K o : fst (caller_after K o) = o.
Proof.
  unfold caller_after. apply apply_writes_same. intros k v I. eapply caller_writes_sound; eauto.
Qed.

Lemma apply_writes_names : forall ws o,
  (forall k v, In (k, v) ws -> name_key k = true /\ lookup_top k o = Found v) ->
  apply_writes ws o = (o, true).
Proof.
  induction ws as [|[k v] ws IH]; intros o H; [reflexivity|]. simpl.
  destruct (H k v (or_introl eq_refl)) as [NK L]. rewrite (set_dotted_same k NK o v L).
  apply IH. intros k' v' I. apply H. now right.
Qed.

Lemma caller_writes_keys : forall ks done o k v, In (k, v) (caller_writes done ks o) -> In k ks.
Proof.
  induction ks as [|k0 ks IH]; intros done o k v I; [destruct I|]. simpl in I.
  apply in_app_or in I as [I|I]; [|right; eapply IH; eauto].
  destruct (existsb (fun p => proper_prefix p k0) done); [|destruct I].
  destruct (lookup_top k0 o).
  - destruct I as [I|[]]. injection I as <- <-. now left.
  - destruct I.
  - destruct I.
Qed.

(** ... and for name paths none of them raises. *)
Lemma caller_unchanged_names K o : name_keys K = true -> caller_after K o = (o, true).
Proof.
  intros NK. unfold caller_after. apply apply_writes_names. intros k v I. split.
  - apply caller_writes_keys in I. apply (proj1 (key_sort_In _ _)) in I. unfold name_keys in NK.
    rewrite forallb_forall in NK. now apply NK.
  - eapply caller_writes_sound; eauto.
Qed.

(** * 6. Members are evaluations; class operations are unions *)

Section Members.
  Variables X V E : Type.
  Variable ev : X -> dict -> result E V.
  Variable vl : X -> dict -> option E.
  Variable ks : X -> dict -> result E (list key).
  Variable ex : X -> dict -> result E (list key).

  Notation entry := (entry X V).
  Notation klass := (klass X V).

  (** What the property demands of one attribute of the instance. *)
  Definition member_is_evaluation (o : dict) (en : entry) (nv : N * V) : Prop :=
    fst nv = e_name en /\
    match e_member en with
    | MExpr e => ev e o = Ok (snd nv)
    | MConst v => snd nv = v
    end.

  (** Entry [en] is the first (in dir() order) whose evaluation fails, with [x]. *)
  Definition first_failing (ms : list entry) (o : dict) (n : N) (x : E) : Prop :=
    exists pre en post e,
      visible ms = pre ++ en :: post /\ e_name en = n /\ e_member en = MExpr e /\ ev e o = Err x /\
      Forall (fun en' => forall e', e_member en' = MExpr e' -> exists v, ev e' o = Ok v) pre.

  Definition all_evaluate (ms : list entry) (o : dict) : Prop :=
    forall e, In e (member_exprs ms) -> exists v, ev e o = Ok v.

  Lemma visible_cons (en : entry) (ms : list entry) :
    visible (en :: ms) = if e_hidden en then visible ms else en :: visible ms.
  Proof. unfold visible. simpl. now destruct (e_hidden en). Qed.

  Lemma eval_members_ok : forall ms o vals, eval_members X V E ev ms o = Ok vals ->
    Forall2 (member_is_evaluation o) (visible ms) vals.
  Proof.
    induction ms as [|en ms IH]; intros o vals H; simpl in H.
    - injection H as <-. constructor.
    - rewrite visible_cons. destruct (e_hidden en); [now apply IH|].
      destruct (e_member en) as [e|v] eqn:M.
      + destruct (ev e o) as [v|x] eqn:Ev; [|discriminate].
        destruct (eval_members X V E ev ms o) as [l|x] eqn:R; [|discriminate]. injection H as <-.
        constructor; [|now apply IH]. split; [reflexivity|]. now rewrite M.
      + destruct (eval_members X V E ev ms o) as [l|x] eqn:R; [|discriminate]. injection H as <-.
        constructor; [|now apply IH]. split; [reflexivity|]. now rewrite M.
  Qed.

  Lemma eval_members_err : forall ms o n x,
    eval_members X V E ev ms o = Err (n, x) <-> first_failing ms o n x.
  Proof.
    induction ms as [|en ms IH]; intros o n x; simpl.
    - split; [discriminate|]. intros [pre [en [post [e [H _]]]]]. destruct pre; discriminate.
    - unfold first_failing. rewrite visible_cons. destruct (e_hidden en); [apply IH|].
      destruct (e_member en) as [e|v] eqn:M.
      + destruct (ev e o) as [v|x0] eqn:Ev.
        * destruct (eval_members X V E ev ms o) as [l|[n1 x1]] eqn:R.
          -- split; [discriminate|]. intros [pre [en0 [post [e0 [Hv [Hn [Hm [He Hp]]]]]]]].
             destruct pre as [|p pre]; simpl in Hv; injection Hv as <- Hv.
             ++ rewrite M in Hm. injection Hm as <-. congruence.
             ++ apply Forall_cons_iff in Hp as [Hp1 Hp2].
                assert (F : first_failing ms o n x) by (exists pre, en0, post, e0; repeat split; assumption).
                apply IH in F. congruence.
          -- split.
             ++ intros H. injection H as -> ->. apply IH in R.
                destruct R as [pre [en0 [post [e0 [Hv [Hn [Hm [He Hp]]]]]]]].
                exists (en :: pre), en0, post, e0. repeat split; auto.
                ** simpl. now rewrite Hv.
                ** constructor; [|exact Hp]. intros e' M'. rewrite M in M'. injection M' as <-. now exists v.
             ++ intros [pre [en0 [post [e0 [Hv [Hn [Hm [He Hp]]]]]]]].
                destruct pre as [|p pre]; simpl in Hv; injection Hv as <- Hv.
                ** rewrite M in Hm. injection Hm as <-. congruence.
                ** apply Forall_cons_iff in Hp as [Hp1 Hp2].
                   assert (F : first_failing ms o n x) by (exists pre, en0, post, e0; repeat split; assumption).
                   apply IH in F. congruence.
        * split.
          -- intros H. injection H as <- <-. exists [], en, (visible ms), e. repeat split; auto.
          -- intros [pre [en0 [post [e0 [Hv [Hn [Hm [He Hp]]]]]]]].
             destruct pre as [|p pre]; simpl in Hv; injection Hv as <- Hv.
             ++ rewrite M in Hm. injection Hm as <-. rewrite Ev in He. injection He as <-. now subst.
             ++ apply Forall_cons_iff in Hp as [Hp1 Hp2]. destruct (Hp1 e M) as [v Hv']. congruence.
      + destruct (eval_members X V E ev ms o) as [l|[n1 x1]] eqn:R.
        * split; [discriminate|]. intros [pre [en0 [post [e0 [Hv [Hn [Hm [He Hp]]]]]]]].
          destruct pre as [|p pre]; simpl in Hv; injection Hv as <- Hv.
          -- congruence.
          -- apply Forall_cons_iff in Hp as [Hp1 Hp2].
             assert (F : first_failing ms o n x) by (exists pre, en0, post, e0; repeat split; assumption).
             apply IH in F. congruence.
        * split.
          -- intros H. injection H as -> ->. apply IH in R.
             destruct R as [pre [en0 [post [e0 [Hv [Hn [Hm [He Hp]]]]]]]].
             exists (en :: pre), en0, post, e0. repeat split; auto.
             ++ simpl. now rewrite Hv.
             ++ constructor; [|exact Hp]. intros e' M'. congruence.
          -- intros [pre [en0 [post [e0 [Hv [Hn [Hm [He Hp]]]]]]]].
             destruct pre as [|p pre]; simpl in Hv; injection Hv as <- Hv.
             ++ congruence.
             ++ apply Forall_cons_iff in Hp as [Hp1 Hp2].
                assert (F : first_failing ms o n x) by (exists pre, en0, post, e0; repeat split; assumption).
                apply IH in F. congruence.
  Qed.

  Lemma eval_members_total : forall ms o,
    all_evaluate ms o <-> exists vals, eval_members X V E ev ms o = Ok vals.
  Proof.
    unfold all_evaluate. induction ms as [|en ms IH]; intros o; simpl.
    - split; [intros _; now exists []|intros _ e []].
    - destruct (e_hidden en); [apply IH|]. destruct (e_member en) as [e|v] eqn:M.
      + split.
        * intros H. destruct (H e (or_introl eq_refl)) as [v Ev]. rewrite Ev.
          destruct (proj1 (IH o)) as [l R]; [intros e' I; apply H; now right|]. rewrite R. now eexists.
        * intros [vals H]. destruct (ev e o) as [v|x] eqn:Ev; [|discriminate].
          destruct (eval_members X V E ev ms o) as [l|x] eqn:R; [|discriminate].
          intros e' [<-|I]; [now exists v|]. apply (proj2 (IH o)); [now exists l|exact I].
      + split.
        * intros H. destruct (proj1 (IH o) H) as [l R]. rewrite R. now eexists.
        * intros [vals H]. destruct (eval_members X V E ev ms o) as [l|x] eqn:R; [|discriminate].
          apply (proj2 (IH o)). now exists l.
  Qed.

  (** The class operations, over the list of member expressions. *)
  Fixpoint collect_l (f : X -> dict -> result E (list key)) (es : list X) (o : dict) : result E (list key) :=
    match es with
    | [] => Ok []
    | e :: es' =>
        match f e o with
        | Err x => Err x
        | Ok a => match collect_l f es' o with Ok b => Ok (a ++ b) | Err x => Err x end
        end
    end.

  Lemma collect_members f : forall ms o, collect X V E f ms o = collect_l f (member_exprs ms) o.
  Proof.
    induction ms as [|en ms IH]; intros o; simpl; [reflexivity|].
    destruct (e_hidden en); [apply IH|]. destruct (e_member en) as [e|v]; simpl; [|apply IH].
    now rewrite IH.
  Qed.

  (** Success: every member succeeds and the result is the concatenation (as a set: the union). *)
  Lemma collect_l_ok f : forall es o K, collect_l f es o = Ok K ->
    exists Ks, Forall2 (fun e Ke => f e o = Ok Ke) es Ks /\ K = concat Ks.
  Proof.
    induction es as [|e es IH]; intros o K H; simpl in H.
    - injection H as <-. exists []. split; [constructor|reflexivity].
    - destruct (f e o) as [a|x] eqn:F; [|discriminate].
      destruct (collect_l f es o) as [b|x] eqn:R; [|discriminate]. injection H as <-.
      destruct (IH o b R) as [Ks [H1 H2]]. exists (a :: Ks). split; [now constructor|]. simpl. now rewrite H2.
  Qed.

  Lemma collect_l_all_ok f : forall es o,
    (forall e, In e es -> exists Ke, f e o = Ok Ke) -> exists K, collect_l f es o = Ok K.
  Proof.
    induction es as [|e es IH]; intros o H; simpl; [now eexists|].
    destruct (H e (or_introl eq_refl)) as [a ->].
    destruct (IH o) as [b ->]; [intros e' I; apply H; now right|]. now eexists.
  Qed.

  (** Failure: with the exception of the first member that fails. *)
  Lemma collect_l_err f : forall es o x, collect_l f es o = Err x <->
    exists pre e post, es = pre ++ e :: post /\ f e o = Err x /\
                       Forall (fun e' => exists Ke, f e' o = Ok Ke) pre.
  Proof.
    induction es as [|e es IH]; intros o x; simpl.
    - split; [discriminate|]. intros [pre [e [post [H _]]]]. destruct pre; discriminate.
    - destruct (f e o) as [a|x0] eqn:F.
      + destruct (collect_l f es o) as [b|x1] eqn:R.
        * split; [discriminate|]. intros [pre [e0 [post [Hs [He Hp]]]]].
          destruct pre as [|p pre]; simpl in Hs; injection Hs as <- Hs; [congruence|].
          apply Forall_cons_iff in Hp as [Hp1 Hp2].
          assert (C : collect_l f es o = Err x) by (apply IH; exists pre, e0, post; repeat split; assumption).
          congruence.
        * split.
          -- intros H. injection H as ->. apply IH in R. destruct R as [pre [e0 [post [Hs [He Hp]]]]].
             exists (e :: pre), e0, post. split; [simpl; now rewrite Hs|]. split; [exact He|].
             constructor; [now exists a|exact Hp].
          -- intros [pre [e0 [post [Hs [He Hp]]]]].
             destruct pre as [|p pre]; simpl in Hs; injection Hs as <- Hs; [congruence|].
             apply Forall_cons_iff in Hp as [Hp1 Hp2].
             assert (C : collect_l f es o = Err x) by (apply IH; exists pre, e0, post; repeat split; assumption).
             congruence.
      + split.
        * intros H. injection H as <-. exists [], e, es. now repeat split.
        * intros [pre [e0 [post [Hs [He Hp]]]]].
          destruct pre as [|p pre]; simpl in Hs; injection Hs as <- Hs; [congruence|].
          apply Forall_cons_iff in Hp as [[Ke HK] _]. congruence.
  Qed.

  Lemma concat_In {A} (x : A) Ks : In x (concat Ks) <-> exists l, In l Ks /\ In x l.
  Proof. rewrite in_concat. split; intros [l H]; exists l; tauto. Qed.

  Lemma Forall2_In_l {A B} (R : A -> B -> Prop) l l' a :
    Forall2 R l l' -> In a l -> exists b, In b l' /\ R a b.
  Proof.
    induction 1 as [|x y l l' H _ IH]; intros I; [destruct I|]. destruct I as [<-|I].
    - exists y. split; [now left|exact H].
    - destruct (IH I) as [b [I' Hb]]. exists b. split; [now right|exact Hb].
  Qed.

  Lemma Forall2_In_r {A B} (R : A -> B -> Prop) l l' b :
    Forall2 R l l' -> In b l' -> exists a, In a l /\ R a b.
  Proof.
    induction 1 as [|x y l l' H _ IH]; intros I; [destruct I|]. destruct I as [<-|I].
    - exists x. split; [now left|exact H].
    - destruct (IH I) as [a [I' Ha]]. exists a. split; [now right|exact Ha].
  Qed.

  (** ... as a set: a key is reported by the class iff some member reports it. *)
  Lemma collect_l_union f es o K : collect_l f es o = Ok K ->
    forall k, In k K <-> exists e Ke, In e es /\ f e o = Ok Ke /\ In k Ke.
  Proof.
    intros H k. destruct (collect_l_ok f es o K H) as [Ks [F ->]]. rewrite concat_In. split.
    - intros [l [I1 I2]]. destruct (Forall2_In_r _ _ _ _ F I1) as [e [Ie He]]. now exists e, l.
    - intros [e [Ke [Ie [He Ik]]]]. destruct (Forall2_In_l _ _ _ _ F Ie) as [l [Il Hl]].
      exists l. split; [exact Il|]. congruence.
  Qed.

  Fixpoint validate_l (es : list X) (o : dict) : option E :=
    match es with
    | [] => None
    | e :: es' => match vl e o with Some x => Some x | None => validate_l es' o end
    end.

  Lemma validate_members_l : forall ms o, validate_members X V E vl ms o = validate_l (member_exprs ms) o.
  Proof.
    induction ms as [|en ms IH]; intros o; simpl; [reflexivity|].
    destruct (e_hidden en); [apply IH|]. destruct (e_member en) as [e|v]; simpl; [|apply IH].
    now rewrite IH.
  Qed.

  Lemma validate_l_pass : forall es o, validate_l es o = None <-> forall e, In e es -> vl e o = None.
  Proof.
    induction es as [|e es IH]; intros o; simpl.
    - split; [intros _ e []|reflexivity].
    - destruct (vl e o) as [x|] eqn:F.
      + split; [discriminate|]. intros H. specialize (H e (or_introl eq_refl)). congruence.
      + rewrite IH. split; [intros H e' [<-|I]; [exact F|now apply H] | intros H e' I; apply H; now right].
  Qed.

  Lemma validate_l_fail : forall es o x, validate_l es o = Some x <->
    exists pre e post, es = pre ++ e :: post /\ vl e o = Some x /\ Forall (fun e' => vl e' o = None) pre.
  Proof.
    induction es as [|e es IH]; intros o x; simpl.
    - split; [discriminate|]. intros [pre [e [post [H _]]]]. destruct pre; discriminate.
    - destruct (vl e o) as [x0|] eqn:F.
      + split.
        * intros H. injection H as <-. exists [], e, es. now repeat split.
        * intros [pre [e0 [post [Hs [He Hp]]]]].
          destruct pre as [|p pre]; simpl in Hs; injection Hs as <- Hs; [congruence|].
          apply Forall_cons_iff in Hp as [Hp1 Hp2]. congruence.
      + rewrite IH. split.
        * intros [pre [e0 [post [Hs [He Hp]]]]]. exists (e :: pre), e0, post.
          split; [simpl; now rewrite Hs|]. split; [exact He|]. now constructor.
        * intros [pre [e0 [post [Hs [He Hp]]]]].
          destruct pre as [|p pre]; simpl in Hs; injection Hs as <- Hs; [congruence|].
          apply Forall_cons_iff in Hp as [Hp1 Hp2]. now exists pre, e0, post.
  Qed.

  (** ** The statements of C19 *)

  Lemma instantiate_built c o i : instantiate X V E ev ks c o = Built i ->
    exists vals K, eval_members X V E ev (k_entries c) o = Ok vals /\ class_keys X V E ks c o = Ok K /\
                   repr_options K o = RBuilt (i_repr i) /\ i_cls i = k_id c /\ i_members i = vals.
  Proof.
    unfold instantiate. intros H.
    destruct (eval_members X V E ev (k_entries c) o) as [vals|[n x]]; [|discriminate].
    destruct (class_keys X V E ks c o) as [K|x]; [|discriminate].
    destruct (repr_options K o) as [r| |] eqn:R; try discriminate.
    injection H as <-. now exists vals, K.
  Qed.

  Theorem members_are_evaluations c o :
    (forall i, instantiate X V E ev ks c o = Built i ->
       i_cls i = k_id c /\ Forall2 (member_is_evaluation o) (visible (k_entries c)) (i_members i)) /\
    (forall n x, instantiate X V E ev ks c o = MemberFails n x <-> first_failing (k_entries c) o n x) /\
    ((exists n x, instantiate X V E ev ks c o = MemberFails n x) <-> ~ all_evaluate (k_entries c) o) /\
    class_evaluate X V E ev ks c o = instantiate X V E ev ks c o.
  Proof.
    split; [|split; [|split; [|reflexivity]]].
    - intros i H. destruct (instantiate_built c o i H) as [vals [K [Hv [_ [_ [Hc Hm]]]]]].
      split; [exact Hc|]. rewrite Hm. now apply eval_members_ok.
    - intros n x. rewrite <- eval_members_err. unfold instantiate.
      destruct (eval_members X V E ev (k_entries c) o) as [vals|[n1 x1]].
      + split; [|discriminate]. destruct (class_keys X V E ks c o) as [K|x']; [|discriminate].
        destruct (repr_options K o); discriminate.
      + split; intros H; injection H as -> ->; reflexivity.
    - rewrite eval_members_total. unfold instantiate.
      destruct (eval_members X V E ev (k_entries c) o) as [vals|[n1 x1]].
      + split.
        * intros [n [x H]]. destruct (class_keys X V E ks c o) as [K|x']; [|discriminate].
          destruct (repr_options K o); discriminate.
        * intros H. exfalso. apply H. now exists vals.
      + split; [|intros _; now exists n1, x1]. intros _ [vals H]. discriminate.
  Qed.

  (** Under the side condition (name paths, all present) the constructor succeeds as soon as
      every member evaluates. *)
  Theorem instantiation_total c o K :
    wf_dict o = true -> all_evaluate (k_entries c) o -> class_keys X V E ks c o = Ok K ->
    name_keys K = true -> keys_present K o = true ->
    exists i, instantiate X V E ev ks c o = Built i.
  Proof.
    intros W A HK NK KP. apply eval_members_total in A as [vals Hv]. unfold instantiate.
    rewrite Hv, HK. destruct (repr_options_restrict K o W NK KP) as [r [R _]]. rewrite R. now eexists.
  Qed.

  Theorem class_ops_are_unions c o :
    (* keys *)
    (forall K, class_keys X V E ks c o = Ok K ->
       forall k, In k K <-> exists e Ke, In e (member_exprs (k_entries c)) /\ ks e o = Ok Ke /\ In k Ke) /\
    (forall x, class_keys X V E ks c o = Err x <->
       exists pre e post, member_exprs (k_entries c) = pre ++ e :: post /\ ks e o = Err x /\
                          Forall (fun e' => exists Ke, ks e' o = Ok Ke) pre) /\
    (* explain *)
    (forall K, class_explain X V E ex c o = Ok K ->
       forall k, In k K <-> exists e Ke, In e (member_exprs (k_entries c)) /\ ex e o = Ok Ke /\ In k Ke) /\
    (forall x, class_explain X V E ex c o = Err x <->
       exists pre e post, member_exprs (k_entries c) = pre ++ e :: post /\ ex e o = Err x /\
                          Forall (fun e' => exists Ke, ex e' o = Ok Ke) pre) /\
    (* validate *)
    (class_validate X V E vl c o = None <-> forall e, In e (member_exprs (k_entries c)) -> vl e o = None) /\
    (forall x, class_validate X V E vl c o = Some x <->
       exists pre e post, member_exprs (k_entries c) = pre ++ e :: post /\ vl e o = Some x /\
                          Forall (fun e' => vl e' o = None) pre).
  Proof.
    unfold class_keys, class_explain, class_validate. rewrite !collect_members, validate_members_l.
    repeat split.
    - now apply collect_l_union.
    - now apply collect_l_union.
    - now apply collect_l_err.
    - now apply collect_l_err.
    - now apply collect_l_union.
    - now apply collect_l_union.
    - now apply collect_l_err.
    - now apply collect_l_err.
    - now apply validate_l_pass.
    - now apply validate_l_pass.
    - now apply validate_l_fail.
    - now apply validate_l_fail.
  Qed.

  (** The keys succeed exactly when every member's keys succeed. *)
  Theorem class_keys_total c o :
    (exists K, class_keys X V E ks c o = Ok K) <->
    (forall e, In e (member_exprs (k_entries c)) -> exists Ke, ks e o = Ok Ke).
  Proof.
    unfold class_keys. rewrite collect_members. split.
    - intros [K H] e I. destruct (collect_l_ok ks _ _ _ H) as [Ks [F _]].
      destruct (Forall2_In_l _ _ _ _ F I) as [Ke [_ HK]]. now exists Ke.
    - apply collect_l_all_ok.
  Qed.

  (** What an instance records, under the side condition. *)
  Theorem repr_of_instance c o i K :
    wf_dict o = true -> instantiate X V E ev ks c o = Built i -> class_keys X V E ks c o = Ok K ->
    name_keys K = true ->
    wf_dict (i_repr i) = true /\
    json_eq (JObj (i_repr i)) (JObj (restrict o K)) = true /\
    (forall k, In k K -> lookup_top k (i_repr i) = lookup_top k o) /\
    inst_repr i = (k_id c, i_repr i).
  Proof.
    intros W H HK NK. destruct (instantiate_built c o i H) as [vals [K' [_ [HK' [R [Hc _]]]]]].
    rewrite HK in HK'. injection HK' as <-.
    destruct (repr_options_restrict K o W NK (repr_options_present K o _ R)) as [r [R' [Wr [Eq L]]]].
    rewrite R in R'. injection R' as <-. repeat split; auto. unfold inst_repr. now rewrite Hc.
  Qed.

  Theorem eq_iff_relevant c o1 o2 i1 i2 K1 K2 :
    wf_dict o1 = true -> wf_dict o2 = true ->
    instantiate X V E ev ks c o1 = Built i1 -> instantiate X V E ev ks c o2 = Built i2 ->
    class_keys X V E ks c o1 = Ok K1 -> class_keys X V E ks c o2 = Ok K2 ->
    name_keys K1 = true -> name_keys K2 = true ->
    inst_eq i1 i2 = json_eq (JObj (restrict o1 K1)) (JObj (restrict o2 K2)).
  Proof.
    intros W1 W2 H1 H2 HK1 HK2 NK1 NK2.
    destruct (repr_of_instance c o1 i1 K1 W1 H1 HK1 NK1) as [Wr1 [E1 _]].
    destruct (repr_of_instance c o2 i2 K2 W2 H2 HK2 NK2) as [Wr2 [E2 _]].
    destruct (instantiate_built c o1 i1 H1) as [_ [_ [_ [_ [_ [Hc1 _]]]]]].
    destruct (instantiate_built c o2 i2 H2) as [_ [_ [_ [_ [_ [Hc2 _]]]]]].
    unfold inst_eq. rewrite Hc1, Hc2, N.eqb_refl, andb_true_l.
    apply json_eq_congr; auto; now apply wf_restrict.
  Qed.

  Theorem eq_other_class c1 c2 o1 o2 i1 i2 :
    k_id c1 <> k_id c2 ->
    instantiate X V E ev ks c1 o1 = Built i1 -> instantiate X V E ev ks c2 o2 = Built i2 ->
    inst_eq i1 i2 = false.
  Proof.
    intros NE H1 H2.
    destruct (instantiate_built c1 o1 i1 H1) as [_ [_ [_ [_ [_ [Hc1 _]]]]]].
    destruct (instantiate_built c2 o2 i2 H2) as [_ [_ [_ [_ [_ [Hc2 _]]]]]].
    unfold inst_eq. rewrite Hc1, Hc2. apply N.eqb_neq in NE. now rewrite NE.
  Qed.
End Members.

(** [dir()]: names strictly increasing (so each name occurs once, most derived definition). *)
Fixpoint names_sorted {X V} (l : list (entry X V)) : Prop :=
  match l with
  | [] => True
  | x :: l' => match l' with [] => True | y :: _ => (e_name x < e_name y)%N end /\ names_sorted l'
  end.

Lemma dir_insert_sorted {X V} (en : entry X V) l : names_sorted l -> names_sorted (dir_insert en l).
Proof.
  induction l as [|x l IH]; simpl; intros H; [now split|].
  destruct H as [H1 H2].
  destruct (N.ltb (e_name en) (e_name x)) eqn:L1.
  - apply N.ltb_lt in L1. simpl. now repeat split.
  - destruct (N.eqb (e_name en) (e_name x)) eqn:L2.
    + apply N.eqb_eq in L2. simpl. split; [|exact H2]. destruct l; [exact I|]. now rewrite L2.
    + apply N.ltb_ge in L1. apply N.eqb_neq in L2. specialize (IH H2).
      destruct l as [|y l]; simpl in *.
      * split; [lia|now split].
      * destruct (N.ltb (e_name en) (e_name y)); [simpl; split; [lia|exact IH]|].
        destruct (N.eqb (e_name en) (e_name y)); simpl in *; (split; [lia|exact IH]) || (split; [tauto|exact IH]).
Qed.

Lemma dir_entries_sorted {X V} (mro : list (list (entry X V))) : names_sorted (dir_entries mro).
Proof.
  unfold dir_entries. generalize (concat (rev mro)). intros l.
  assert (G : forall acc, names_sorted acc -> names_sorted (fold_left (fun acc en => dir_insert en acc) l acc)).
  { induction l as [|en l IH]; intros acc H; simpl; [exact H|]. apply IH. now apply dir_insert_sorted. }
  apply G. exact I.
Qed.

(** * 8. Witnesses on the concrete member language (list-index keys, finding C19-L) and
      non-vacuity *)
From LV Require Import Model.DatasetClassRun.
Local Open Scope list_scope.
Local Open Scope N_scope.

Module Witness.
  Definition nL : seg := SName 1.
  Definition nS : seg := SName 2.
  Definition nX : seg := SName 3.
  Definition nY : seg := SName 4.
  Definition nA : seg := SName 5.
  Definition nQ : seg := SName 6.

  (** class C: l = Option('L'); l0 = Option('L.0') *)
  Definition cls_L_L0 : cklass :=
    mk_class 1 [[mk_entry 1 false (MExpr (COpt (COption [nL] None)));
                 mk_entry 2 false (MExpr (COpt (COption [nL; SIdx 0] None)))]].
  (** class C: l0 = Option('L.0') *)
  Definition cls_L0 : cklass :=
    mk_class 2 [[mk_entry 2 false (MExpr (COpt (COption [nL; SIdx 0] None)))]].

  Definition o_L12 : dict := [(nL, JList [JInt 1; JInt 2])].
  Definition o_L13 : dict := [(nL, JList [JInt 1; JInt 3])].
  Definition o_L52 : dict := [(nL, JList [JInt 5; JInt 2])].

  (** A well-behaved class: base class body (q annotated constant, s = Option('S')), derived body
      (a = dataset reading A and S.X, x = Option('S.X'), y = Option('S.Y', default 7),
      __h__ = Option('Q') hidden, k = plain constant, s overridden?  no: inherited). *)
  Definition base_body : list centry :=
    [mk_entry 40 false (MExpr (CValue (JInt 4)));
     mk_entry 50 false (MExpr (COpt (COption [nS] None)))].
  Definition derived_body : list centry :=
    [mk_entry 60 false (MExpr (COpt (COption [nS; nX] None)));
     mk_entry 10 false (MExpr (CData 9 (COption [nA] None) (Some (COption [nS; nX] None))));
     mk_entry 70 false (MExpr (COpt (COption [nS; nY] (Some (JInt 7)))));
     mk_entry 5 true (MExpr (COpt (COption [nQ] None)));
     mk_entry 30 false (MConst (CJ (JBool true)))].
  Definition cls_good : cklass := mk_class 3 [derived_body; base_body].
  Definition o_good : dict :=
    [(nA, JInt 1); (nS, JObj [(nX, JInt 2); (nY, JInt 3)]); (nQ, JNull)].
  (** same relevant content: key order permuted, an irrelevant key added, 1 written as True *)
  Definition o_good_perm : dict :=
    [(nS, JObj [(nY, JInt 3); (nX, JInt 2)]); (SName 8, JInt 0); (nA, JBool true)].
  (** differs in the relevant nested key S.X only *)
  Definition o_good_sx : dict :=
    [(nA, JInt 1); (nS, JObj [(nX, JInt 5); (nY, JInt 3)]); (nQ, JNull)].
  (** differs in the irrelevant key Q only *)
  Definition o_good_q : dict :=
    [(nA, JInt 1); (nS, JObj [(nX, JInt 2); (nY, JInt 3)]); (nQ, JInt 9)].
End Witness.
Import Witness.

Lemma instantiation_total_witness :
  exists (c : cklass) (o : dict) (K : list key),
    wf_dict o = true /\
    (forall e, In e (member_exprs (k_entries c)) -> exists v, c_ev e o = Ok v) /\
    c_keys c o = Ok K /\ keys_present K o = true /\
    c_instantiate c o = SetFails [SName 1; SIdx 0].
Proof.
  exists cls_L_L0, o_L12, [[nL]; [nL; SIdx 0]].
  split; [reflexivity|]. split.
  - intros e [<-|[<-|[]]]; eexists; vm_compute; reflexivity.
  - split; [vm_compute; reflexivity|]. split; vm_compute; reflexivity.
Qed.

Lemma repr_options_restrict_witness :
  exists (o : dict) (K : list key) (r : dict),
    wf_dict o = true /\ keys_present K o = true /\ repr_options K o = RBuilt r /\
    json_eq (JObj r) (JObj (restrict o K)) = false /\
    r = [(SName 1, JObj [(SIdx 0, JInt 1%Z)])].
Proof.
  exists o_L12, [[nL; SIdx 0]], [(nL, JObj [(SIdx 0, JInt 1%Z)])].
  repeat split; vm_compute; reflexivity.
Qed.

Lemma eq_iff_relevant_witness :
  exists (c : cklass) (o1 o2 : dict) (i1 i2 : instance cval) (K1 K2 : list key),
    wf_dict o1 = true /\ wf_dict o2 = true /\
    c_instantiate c o1 = Built i1 /\ c_instantiate c o2 = Built i2 /\
    c_keys c o1 = Ok K1 /\ c_keys c o2 = Ok K2 /\
    inst_eq i1 i2 = true /\ json_eq (JObj (restrict o1 K1)) (JObj (restrict o2 K2)) = false.
Proof.
  exists cls_L0, o_L12, o_L13.
  do 2 eexists. exists [[nL; SIdx 0]], [[nL; SIdx 0]].
  repeat split; vm_compute; reflexivity.
Qed.
