(** Proofs about Model/CacheFault.v (property C17). *)
From Coq Require Import List NArith Bool Lia.
Import ListNotations.
From LV Require Import Model.CacheFault.

(* ------------------------------------------------------------------ keys of the store *)

Lemma fp_eqb_eq : forall a b, fp_eqb a b = true <-> a = b.
Proof.
  induction a as [|[k v] a IH]; intros [|[k' v'] b]; simpl; split; intro H; try discriminate; auto.
  - apply andb_true_iff in H as [H Hr]. apply andb_true_iff in H as [Hk Hv].
    apply N.eqb_eq in Hk. apply N.eqb_eq in Hv. apply IH in Hr. subst. reflexivity.
  - inversion H; subst. rewrite !N.eqb_refl. simpl. apply IH. reflexivity.
Qed.

Lemma key_eqb_eq : forall a b, key_eqb a b = true <-> a = b.
Proof.
  intros [d f] [d' f']. unfold key_eqb. simpl. split; intro H.
  - apply andb_true_iff in H as [Hd Hf]. apply N.eqb_eq in Hd. apply fp_eqb_eq in Hf. subst. reflexivity.
  - inversion H; subst. rewrite N.eqb_refl. simpl. apply fp_eqb_eq. reflexivity.
Qed.

Lemma key_eqb_refl : forall a, key_eqb a a = true.
Proof. intro a. apply key_eqb_eq. reflexivity. Qed.

Lemma key_eqb_neq : forall a b, key_eqb a b = false <-> a <> b.
Proof.
  intros a b. split; intro H.
  - intro E. apply key_eqb_eq in E. congruence.
  - destruct (key_eqb a b) eqn:E; auto. apply key_eqb_eq in E. contradiction.
Qed.

(* ------------------------------------------------------------------ sublist *)

Lemma sublist_nil_l : forall A (l : list A), sublist [] l.
Proof. induction l; [apply sl_nil|apply sl_skip; auto]. Qed.

Lemma sublist_refl : forall A (l : list A), sublist l l.
Proof. induction l; [apply sl_nil|apply sl_keep; auto]. Qed.

Lemma sublist_app : forall A (a b c d : list A), sublist a b -> sublist c d -> sublist (a ++ c) (b ++ d).
Proof.
  intros A a b c d H. induction H; intro Hc; simpl; auto.
  - apply sl_skip. auto.
  - apply sl_keep. auto.
Qed.

Lemma sublist_In : forall A (a b : list A), sublist a b -> forall x, In x a -> In x b.
Proof.
  intros A a b H. induction H; intros y Hy; simpl in *; auto.
  destruct Hy as [Hy|Hy]; auto.
Qed.

Lemma sublist_length : forall A (a b : list A), sublist a b -> length a <= length b.
Proof. intros A a b H. induction H; simpl; lia. Qed.

Lemma NoDup_snoc : forall A (l : list A) x, NoDup l -> ~ In x l -> NoDup (l ++ [x]).
Proof.
  intros A l x H. induction H as [|y l Hy Hl IH]; intro Hx; simpl.
  - constructor; auto. constructor.
  - constructor.
    + intro Hin. apply in_app_or in Hin as [Hin|[Hin|[]]]; auto. subst. apply Hx. left. reflexivity.
    + apply IH. intro Hin. apply Hx. right. exact Hin.
Qed.

(* ------------------------------------------------------------------ the sorted key list *)

Lemma In_insert_sorted_same : forall n l, In n (insert_sorted n l).
Proof.
  intros n l. induction l as [|m l IH]; simpl; auto.
  destruct (N.ltb n m); [left; reflexivity|].
  destruct (N.eqb n m) eqn:E.
  - apply N.eqb_eq in E. subst. left. reflexivity.
  - right. exact IH.
Qed.

Lemma In_insert_sorted_old : forall n x l, In x l -> In x (insert_sorted n l).
Proof.
  intros n x l. induction l as [|m l IH]; simpl; intro H; [contradiction|].
  destruct (N.ltb n m); [right; exact H|].
  destruct (N.eqb n m); [exact H|].
  destruct H as [H|H]; [left; exact H|right; auto].
Qed.

Lemma In_sort_dedup : forall x l, In x l -> In x (sort_dedup l).
Proof.
  intros x l. induction l as [|a l IH]; simpl; intro H; [contradiction|].
  destruct H as [H|H].
  - subst. apply In_insert_sorted_same.
  - apply In_insert_sorted_old. auto.
Qed.

Lemma map_pair_agree : forall (o o' : options) (L : list N),
  map (fun k => (k, o k)) L = map (fun k => (k, o' k)) L -> forall k, In k L -> o k = o' k.
Proof.
  intros o o' L. induction L as [|a L IH]; simpl; intros H k Hk; [contradiction|].
  inversion H as [[Ha Hr]]. destruct Hk as [Hk|Hk]; [subst; exact Ha|auto].
Qed.

(* ================================================================== the semantics *)

Section Proofs.
  Variable value : Type.
  Variable of_opt : N -> value.

  Notation graph := (graph value).
  Notation state := (state value).
  Notation store := (store value).
  Notation run := (run value).
  Notation refv := (refv value of_opt).

  (* ---------------------------------------------------------------- store *)

  Lemma s_find_remove : forall k k' (s : store),
    s_find value k (s_remove value k' s) = if key_eqb k k' then None else s_find value k s.
  Proof.
    intros k k' s. induction s as [|[k0 v0] s IH]; simpl.
    - destruct (key_eqb k k'); reflexivity.
    - destruct (key_eqb k' k0) eqn:E0.
      + rewrite IH. destruct (key_eqb k k') eqn:E; auto.
        apply key_eqb_eq in E0. subst k0. rewrite E. reflexivity.
      + simpl. rewrite IH. destruct (key_eqb k k0) eqn:E1; auto.
        destruct (key_eqb k k') eqn:E; auto.
        apply key_eqb_eq in E. apply key_eqb_eq in E1. subst. rewrite key_eqb_refl in E0. discriminate.
  Qed.

  Lemma s_find_add : forall k k' v (s : store),
    s_find value k (s_add value k' v s) = if key_eqb k k' then Some v else s_find value k s.
  Proof.
    intros k k' v s. unfold s_add. simpl. destruct (key_eqb k k') eqn:E; auto.
    rewrite s_find_remove, E. reflexivity.
  Qed.

  Lemma s_mem_find : forall k (s : store), s_mem value k s = true -> exists v, s_find value k s = Some v.
  Proof. intros k s. unfold s_mem. destruct (s_find value k s); simpl; intro H; [eauto|discriminate]. Qed.

  Lemma s_mem_false : forall k (s : store), s_mem value k s = false -> s_find value k s = None.
  Proof. intros k s. unfold s_mem. destruct (s_find value k s); simpl; intro H; [discriminate|auto]. Qed.

  (* ---------------------------------------------------------------- positional lookup *)

  Lemma refv_here : forall (df : dsdef value) g' o,
    refv (df :: g') (N.of_nat (length g')) o = refv_step value of_opt (refv g') (N.of_nat (length g')) df o.
  Proof. intros. simpl. rewrite N.eqb_refl. reflexivity. Qed.

  Lemma refv_suffix : forall (pre g : graph) d o,
    (d < N.of_nat (length g))%N -> refv (pre ++ g) d o = refv g d o.
  Proof.
    induction pre as [|x pre IH]; intros g d o Hd; simpl; auto.
    destruct (N.eqb d (N.of_nat (length (pre ++ g)))) eqn:E.
    - apply N.eqb_eq in E. rewrite app_length in E. lia.
    - apply IH. exact Hd.
  Qed.

  (* ---------------------------------------------------------------- the store invariant *)

  Variable fp : N -> options -> fingerprint.

  Notation store_ok := (store_ok value of_opt fp).
  Notation fp_sound := (fp_sound value of_opt fp).
  Notation ref_runs := (ref_runs value of_opt fp).

  Lemma store_ok_nil : forall G, store_ok G [].
  Proof. intros G d f v H. simpl in H. discriminate. Qed.

  Lemma store_ok_remove : forall G k s, store_ok G s -> store_ok G (s_remove value k s).
  Proof.
    intros G k s H d f v Hf o Ho. rewrite s_find_remove in Hf.
    destruct (key_eqb (d, f) k); [discriminate|]. eapply H; eauto.
  Qed.

  Lemma store_ok_add : forall G d f v s,
    store_ok G s -> (forall o, fp d o = f -> refv G d o = Ok v) -> store_ok G (s_add value (d, f) v s).
  Proof.
    intros G d f v s H Hv d' f' v' Hf o Ho. rewrite s_find_add in Hf.
    destruct (key_eqb (d', f') (d, f)) eqn:E.
    - apply key_eqb_eq in E. inversion E; subst. inversion Hf; subst. apply Hv. reflexivity.
    - eapply H; eauto.
  Qed.

  (* ---------------------------------------------------------------- every backend call, every fault *)

  Section Faulty.
  Variable fault : nat -> behaviour.

  Notation b_exists := (b_exists value fault).
  Notation b_get := (b_get value fault).
  Notation b_set := (b_set value fault).
  Notation eval := (eval value of_opt fp fault).

  (** exists: whatever it answers, it can only lose information. *)
  Lemma b_exists_spec : forall G d f st b st',
    b_exists d f st = (b, st') -> store_ok G (st_store st) ->
    store_ok G (st_store st') /\ st_runs st' = st_runs st.
  Proof.
    unfold CacheFault.b_exists. intros G d f st b st' H Hok.
    destruct (fault (now value st)); inversion H; subst; simpl; split; auto using store_ok_remove.
  Qed.

  (** get: a returned value is one the honest store held. *)
  Lemma b_get_spec : forall G d f st r st',
    b_get d f st = (r, st') -> store_ok G (st_store st) ->
    store_ok G (st_store st') /\ st_runs st' = st_runs st /\
    (forall v, r = Some v -> s_find value (d, f) (st_store st) = Some v).
  Proof.
    unfold CacheFault.b_get. intros G d f st r st' H Hok.
    destruct (fault (now value st)); inversion H; subst; simpl; repeat split;
      auto using store_ok_remove; try discriminate.
  Qed.

  (** set: stores a correct value, or forgets. *)
  Lemma b_set_spec : forall G d f v st,
    store_ok G (st_store st) -> (forall o, fp d o = f -> refv G d o = Ok v) ->
    store_ok G (st_store (b_set d f v st)) /\ st_runs (b_set d f v st) = st_runs st.
  Proof.
    unfold CacheFault.b_set. intros G d f v st Hok Hv.
    destruct (fault (now value st)); simpl; split; auto using store_ok_remove, store_ok_add.
  Qed.

  (** The set handler returns the value it was given or a value the store holds for that key. *)
  Lemma set_handler_spec : forall G d o v st v' st',
    set_handler value fault d (fp d o) v st = (v', st') ->
    store_ok G (st_store st) -> (forall o', fp d o' = fp d o -> refv G d o' = Ok v) ->
    refv G d o = Ok v' /\ store_ok G (st_store st') /\ st_runs st' = st_runs st.
  Proof.
    unfold set_handler. intros G d o v st v' st' H Hok Hv.
    destruct (b_set_spec G d (fp d o) v st Hok Hv) as [Hok1 Hr1].
    destruct (b_get d (fp d o) (b_set d (fp d o) v st)) as [got st2] eqn:Eg.
    destruct (b_get_spec G _ _ _ _ _ Eg Hok1) as [Hok2 [Hr2 Hgot]].
    destruct got as [w|]; inversion H; subst.
    - split; [|split; [auto|congruence]]. eapply Hok1; [apply Hgot; reflexivity|reflexivity].
    - split; [|split; [auto|congruence]]. apply Hv. reflexivity.
  Qed.

  (* ---------------------------------------------------------------- arguments *)

  Definition post (G : graph) (rv : res value) (rr : list run) (st : state) (r : res value) (st' : state) : Prop :=
    r = rv /\ store_ok G (st_store st') /\
    exists dl, st_runs st' = st_runs st ++ dl /\ sublist dl rr.

  Section ArgsCorrect.
    Variable G : graph.
    Variable rec : N -> options -> state -> res value * state.
    Variable recv : N -> options -> res value.
    Variable recr : N -> options -> list run.
    Hypothesis Hrec : forall j o st r st',
      store_ok G (st_store st) -> rec j o st = (r, st') -> post G (recv j o) (recr j o) st r st'.

    Lemma eval_args_correct : forall l o st r st',
      store_ok G (st_store st) -> eval_args value of_opt state rec l o st = (r, st') ->
      r = refv_args value of_opt recv l o /\ store_ok G (st_store st') /\
      exists dl, st_runs st' = st_runs st ++ dl /\ sublist dl (refr_args value of_opt recv recr l o).
    Proof.
      induction l as [|a l IH]; intros o st r st' Hok H; simpl in H.
      - inversion H; subst. simpl. repeat split; auto. exists []. rewrite app_nil_r. split; auto. apply sl_nil.
      - simpl.
        assert (Ha : exists r1 st1,
                   (match a with AOpt k => (Ok (of_opt (o k)), st) | ADs j => rec j o st end) = (r1, st1) /\
                   post G (arg_refv value of_opt recv a o) (arg_refr value recr a o) st r1 st1).
        { destruct a as [k|j]; simpl.
          - exists (Ok (of_opt (o k))), st. split; auto. repeat split; auto.
            exists []. rewrite app_nil_r. split; auto. apply sl_nil.
          - destruct (rec j o st) as [r1 st1] eqn:E. exists r1, st1. split; [reflexivity|eapply Hrec; eauto]. }
        destruct Ha as [r1 [st1 [E1 [Hr1 [Hok1 [dl1 [Hd1 Hs1]]]]]]]. rewrite E1 in H. subst r1.
        destruct (arg_refv value of_opt recv a o) as [v|e] eqn:Ev.
        + destruct (eval_args value of_opt state rec l o st1) as [r2 st2] eqn:E2.
          destruct (IH o st1 r2 st2 Hok1 E2) as [Hr2 [Hok2 [dl2 [Hd2 Hs2]]]].
          assert (Hruns : exists dl, st_runs st2 = st_runs st ++ dl /\
                     sublist dl (arg_refr value recr a o ++ refr_args value of_opt recv recr l o)).
          { exists (dl1 ++ dl2). rewrite Hd2, Hd1, app_assoc. split; auto. apply sublist_app; auto. }
          destruct r2 as [vs|e]; inversion H; subst; rewrite <- Hr2; auto.
        + inversion H; subst. repeat split; auto. exists dl1. split; auto.
          rewrite <- (app_nil_r dl1). apply sublist_app; auto. apply sl_nil.
    Qed.

    Lemma inner_correct : forall d df o st r st',
      store_ok G (st_store st) -> inner value of_opt fp rec d df o st = (r, st') ->
      post G (refv_step value of_opt recv d df o) (refr_step value of_opt fp recv recr d df o) st r st'.
    Proof.
      unfold inner, refv_step, refr_step, post. intros d df o st r st' Hok H.
      destruct (eval_args value of_opt state rec (ds_args df) o st) as [ra st1] eqn:E.
      destruct (eval_args_correct _ _ _ _ _ Hok E) as [Hra [Hok1 [dl [Hd Hs]]]].
      rewrite <- Hra. destruct ra as [vs|e]; inversion H; subst; simpl.
      - repeat split; auto. exists (dl ++ [mk_run value fp d o vs (ds_body df vs)]).
        rewrite Hd, app_assoc. split; auto. apply sublist_app; auto. apply sublist_refl.
      - repeat split; auto. exists dl. split; auto.
        rewrite <- (app_nil_r dl). apply sublist_app; auto. apply sl_nil.
    Qed.

    (** Cached.evaluate in front of the adversary: same result as the cache-free step. *)
    Lemma cached_eval_correct : forall dis d df o st r st',
      fp_sound G ->
      refv G d o = refv_step value of_opt recv d df o ->
      store_ok G (st_store st) ->
      cached_eval value of_opt fp fault rec dis d df o st = (r, st') ->
      post G (refv_step value of_opt recv d df o) (refr_step value of_opt fp recv recr d df o) st r st'.
    Proof.
      intros dis d df o st r st' Hfp HG Hok H. unfold cached_eval in H.
      destruct dis; [eapply inner_correct; eauto|].
      destruct (b_exists d (fp d o) st) as [ex st1] eqn:Eex.
      destruct (b_exists_spec G _ _ _ _ _ Eex Hok) as [Hok1 Hr1].
      assert (Hget : exists got st2,
                 (if ex then b_get d (fp d o) st1 else (None, st1)) = (got, st2) /\
                 store_ok G (st_store st2) /\ st_runs st2 = st_runs st /\
                 (forall v, got = Some v -> refv G d o = Ok v)).
      { destruct ex.
        - destruct (b_get d (fp d o) st1) as [got st2] eqn:Eg. exists got, st2.
          destruct (b_get_spec G _ _ _ _ _ Eg Hok1) as [Hok2 [Hr2 Hgot]].
          repeat split; auto; [congruence|]. intros v Hv. eapply Hok1; [apply Hgot; exact Hv|reflexivity].
        - exists None, st1. repeat split; auto. discriminate. }
      destruct Hget as [got [st2 [Eg [Hok2 [Hr2 Hgot]]]]]. rewrite Eg in H.
      destruct got as [v|].
      - (* served from the cache: the entry is correct *)
        inversion H; subst. unfold post. rewrite <- HG.
        split; [symmetry; apply Hgot; reflexivity|]. split; [exact Hok2|].
        exists []. rewrite app_nil_r. split; auto. apply sublist_nil_l.
      - (* recompute *)
        destruct (inner value of_opt fp rec d df o st2) as [ri st3] eqn:Ei.
        destruct (inner_correct _ _ _ _ _ _ Hok2 Ei) as [Hri [Hok3 [dl [Hd Hs]]]].
        destruct ri as [v|e].
        + destruct (set_handler value fault d (fp d o) v st3) as [v' st4] eqn:Es.
          inversion H; subst.
          assert (Hv : forall o', fp d o' = fp d o -> refv G d o' = Ok v).
          { intros o' Ho'. rewrite (Hfp d o' o Ho'), HG. auto. }
          destruct (set_handler_spec G _ _ _ _ _ _ Es Hok3 Hv) as [Hv' [Hok4 Hr4]].
          unfold post. rewrite <- HG.
          split; [symmetry; exact Hv'|]. split; [exact Hok4|].
          exists dl. split; auto. congruence.
        + inversion H; subst. unfold post. repeat split; auto. exists dl. split; auto. congruence.
    Qed.
  End ArgsCorrect.

  (** Main invariant lemma: any suffix of the graph, any dataset, any state. *)
  Lemma eval_correct : forall G, fp_sound G -> forall dis g pre, G = pre ++ g ->
    forall d o st r st', store_ok G (st_store st) -> eval g dis d o st = (r, st') ->
    post G (refv g d o) (ref_runs g d o) st r st'.
  Proof.
    intros G Hfp dis. induction g as [|df g' IH]; intros pre HG d o st r st' Hok H; simpl in H.
    - inversion H; subst. simpl. repeat split; auto. exists []. rewrite app_nil_r. split; auto. apply sl_nil.
    - simpl. destruct (N.eqb d (N.of_nat (length g'))) eqn:E.
      + eapply cached_eval_correct; eauto.
        * intros j o0 st0 r0 st0' Hok0 H0. eapply (IH (pre ++ [df])); eauto.
          rewrite <- app_assoc. exact HG.
        * apply N.eqb_eq in E. subst d. rewrite HG, refv_suffix, refv_here; auto.
          simpl. lia.
      + eapply (IH (pre ++ [df])); eauto. rewrite <- app_assoc. exact HG.
  Qed.

  (** Histories. *)
  Lemma run_hist_correct : forall G, fp_sound G -> forall h st rs st',
    store_ok G (st_store st) -> run_hist value of_opt fp fault G h st = (rs, st') ->
    rs = map (fun '(_, d, o) => refv G d o) h /\ store_ok G (st_store st') /\
    exists dl, st_runs st' = st_runs st ++ dl /\
               sublist dl (flat_map (fun '(_, d, o) => ref_runs G d o) h).
  Proof.
    intros G Hfp. induction h as [|[[dis d] o] h IH]; intros st rs st' Hok H; simpl in H.
    - inversion H; subst. simpl. repeat split; auto. exists []. rewrite app_nil_r. split; auto. apply sl_nil.
    - destruct (eval G dis d o st) as [r st1] eqn:E1.
      destruct (run_hist value of_opt fp fault G h st1) as [rs' st2] eqn:E2.
      inversion H; subst.
      destruct (eval_correct G Hfp dis G [] eq_refl d o st r st1 Hok E1) as [Hr [Hok1 [dl1 [Hd1 Hs1]]]].
      destruct (IH st1 rs' st' Hok1 E2) as [Hrs [Hok2 [dl2 [Hd2 Hs2]]]].
      simpl. subst. repeat split; auto. exists (dl1 ++ dl2). rewrite Hd2, Hd1, app_assoc. split; auto.
      apply sublist_app; auto.
  Qed.
  End Faulty.

  (* ---------------------------------------------------------------- cache disabled = reference *)

  Lemma add_runs_nil : forall st : state, add_runs value [] st = st.
  Proof. intros [s c r]. unfold add_runs. simpl. rewrite app_nil_r. reflexivity. Qed.

  Lemma add_runs_app : forall a b (st : state),
    add_runs value b (add_runs value a st) = add_runs value (a ++ b) st.
  Proof. intros a b st. unfold add_runs. simpl. rewrite app_assoc. reflexivity. Qed.

  Lemma eval_args_disabled : forall rec recv recr,
    (forall j o st, rec j o st = (recv j o, add_runs value (recr j o) st)) ->
    forall l o (st : state),
      eval_args value of_opt state rec l o st =
      (refv_args value of_opt recv l o, add_runs value (refr_args value of_opt recv recr l o) st).
  Proof.
    intros rec recv recr Hrec. induction l as [|a l IH]; intros o st; simpl.
    - rewrite add_runs_nil. reflexivity.
    - destruct a as [k|j]; simpl.
      + rewrite IH. destruct (refv_args value of_opt recv l o); reflexivity.
      + rewrite Hrec. destruct (recv j o) as [v|e].
        * rewrite IH, add_runs_app. destruct (refv_args value of_opt recv l o); reflexivity.
        * rewrite app_nil_r. reflexivity.
  Qed.

  Lemma eval_disabled : forall fault g d o st,
    eval value of_opt fp fault g true d o st = (refv g d o, add_runs value (ref_runs g d o) st).
  Proof.
    intros fault. induction g as [|df g' IH]; intros d o st; simpl.
    - rewrite add_runs_nil. reflexivity.
    - destruct (N.eqb d (N.of_nat (length g'))); [|apply IH].
      unfold cached_eval, inner, refv_step, refr_step.
      rewrite (eval_args_disabled _ (refv g') (ref_runs g') IH).
      destruct (refv_args value of_opt (refv g') (ds_args df) o) as [vs|e].
      + rewrite <- add_runs_app. reflexivity.
      + rewrite app_nil_r. reflexivity.
  Qed.

  (* ---------------------------------------------------------------- truthful backend = plain memoisation *)

  Notation honest := (fun _ : nat => Behave).

  Lemma honest_exists : forall d f (st : state),
    b_exists value honest d f st =
    (s_mem value (d, f) (st_store st), tick value (CExists d (s_mem value (d, f) (st_store st))) (st_store st) st).
  Proof. reflexivity. Qed.
  Lemma honest_get : forall d f (st : state),
    b_get value honest d f st =
    (s_find value (d, f) (st_store st), tick value (CGet d (is_some (s_find value (d, f) (st_store st)))) (st_store st) st).
  Proof. reflexivity. Qed.
  Lemma honest_set : forall d f v (st : state),
    b_set value honest d f v st = tick value (CSet d) (s_add value (d, f) v (st_store st)) st.
  Proof. reflexivity. Qed.

  Section HonestStep.
    Variable rec : N -> options -> state -> res value * state.
    Variable mrec : N -> options -> mstate value -> res value * mstate value.
    Hypothesis Hrec : forall j o st r st',
      rec j o st = (r, st') -> mrec j o (mproj value st) = (r, mproj value st').

    Lemma eval_args_sim : forall l o st r st',
      eval_args value of_opt state rec l o st = (r, st') ->
      eval_args value of_opt (mstate value) mrec l o (mproj value st) = (r, mproj value st').
    Proof.
      induction l as [|a l IH]; intros o st r st' H; simpl in *.
      - inversion H; reflexivity.
      - destruct a as [k|j].
        + destruct (eval_args value of_opt state rec l o st) as [r2 st2] eqn:E2.
          rewrite (IH _ _ _ _ E2). destruct r2; inversion H; subst; reflexivity.
        + destruct (rec j o st) as [r1 st1] eqn:E1. rewrite (Hrec _ _ _ _ _ E1). destruct r1 as [v|e].
          * destruct (eval_args value of_opt state rec l o st1) as [r2 st2] eqn:E2.
            rewrite (IH _ _ _ _ E2). destruct r2; inversion H; subst; reflexivity.
          * inversion H; subst; reflexivity.
    Qed.

    Lemma cached_honest_memo : forall d df o st r st',
      cached_eval value of_opt fp honest rec false d df o st = (r, st') ->
      memo_step value of_opt fp mrec d df o (mproj value st) = (r, mproj value st').
    Proof.
      intros d df o st r st' H. unfold cached_eval in H. rewrite honest_exists in H.
      unfold memo_step. unfold mproj at 1. simpl fst.
      destruct (s_mem value (d, fp d o) (st_store st)) eqn:Em.
      - rewrite honest_get in H. unfold tick in H. simpl st_store in H.
        apply s_mem_find in Em as [v Ev]. rewrite Ev in *. inversion H; subst. reflexivity.
      - apply s_mem_false in Em. rewrite Em. unfold inner in H.
        destruct (eval_args value of_opt state rec (ds_args df) o
                    (tick value (CExists d false) (st_store st) st)) as [ra st1] eqn:Ea.
        apply eval_args_sim in Ea.
        change (mproj value (tick value (CExists d false) (st_store st) st)) with (mproj value st) in Ea.
        rewrite Ea. destruct ra as [vs|e]; [|inversion H; subst; reflexivity].
        destruct (ds_body df vs) as [v|] eqn:Eb; simpl in H.
        + unfold set_handler in H. rewrite honest_set, honest_get in H.
          unfold tick in H. simpl st_store in H. rewrite s_find_add, key_eqb_refl in H.
          inversion H; subst. reflexivity.
        + inversion H; subst. reflexivity.
    Qed.
  End HonestStep.

  Lemma honest_eval_memo : forall g d o st r st',
    eval value of_opt fp honest g false d o st = (r, st') ->
    memo value of_opt fp g d o (mproj value st) = (r, mproj value st').
  Proof.
    induction g as [|df g' IH]; intros d o st r st' H; simpl in *.
    - inversion H; subst; reflexivity.
    - destruct (N.eqb d (N.of_nat (length g'))).
      + eapply cached_honest_memo; eauto.
      + apply IH. exact H.
  Qed.

  Lemma honest_hist_memo : forall g h st rs st',
    run_hist value of_opt fp honest g (enabled h) st = (rs, st') ->
    memo_hist value of_opt fp g h (mproj value st) = (rs, mproj value st').
  Proof.
    intros g. induction h as [|[d o] h IH]; intros st rs st' H; simpl in *.
    - inversion H; subst; reflexivity.
    - destruct (eval value of_opt fp honest g false d o st) as [r st1] eqn:E1.
      destruct (run_hist value of_opt fp honest g (enabled h) st1) as [rs' st2] eqn:E2.
      rewrite (honest_eval_memo _ _ _ _ _ _ E1), (IH _ _ _ E2). inversion H; subst; reflexivity.
  Qed.

  (* ---------------------------------------------------------------- memoisation runs each body once *)

  Lemma ok_keys_app : forall a b : list run, ok_keys value (a ++ b) = ok_keys value a ++ ok_keys value b.
  Proof. intros a b. unfold ok_keys. rewrite filter_app, map_app. reflexivity. Qed.

  Lemma ok_keys_bound : forall bound (dl : list run) k,
    Forall (fun x => (r_ds x < bound)%N) dl -> In k (ok_keys value dl) -> (fst k < bound)%N.
  Proof.
    intros bound dl k HF Hin. unfold ok_keys in Hin. apply in_map_iff in Hin as [x [Hx Hin]].
    apply filter_In in Hin as [Hin _]. rewrite Forall_forall in HF. subst k. simpl. apply HF. exact Hin.
  Qed.

  Definition minv (m : mstate value) : Prop :=
    NoDup (ok_keys value (snd m)) /\
    forall k, In k (ok_keys value (snd m)) -> s_mem value k (fst m) = true.

  Definition mext (bound : N) (m m' : mstate value) : Prop :=
    exists dl, snd m' = snd m ++ dl /\ Forall (fun x : run => (r_ds x < bound)%N) dl.

  Lemma mext_refl : forall b m, mext b m m.
  Proof. intros b m. exists []. rewrite app_nil_r. split; auto. Qed.

  Lemma mext_trans : forall b m1 m2 m3, mext b m1 m2 -> mext b m2 m3 -> mext b m1 m3.
  Proof.
    intros b m1 m2 m3 [d1 [H1 F1]] [d2 [H2 F2]]. exists (d1 ++ d2). rewrite H2, H1, app_assoc.
    split; auto. apply Forall_app. split; auto.
  Qed.

  Lemma mext_weaken : forall b b' m m', (b <= b')%N -> mext b m m' -> mext b' m m'.
  Proof.
    intros b b' m m' Hb [dl [H F]]. exists dl. split; auto.
    eapply Forall_impl; [|exact F]. simpl. intros x Hx. lia.
  Qed.

  Section MemoInv.
    Variable rec : N -> options -> mstate value -> res value * mstate value.
    Variable d : N.
    Hypothesis Hrec : forall j o m r m', minv m -> rec j o m = (r, m') -> minv m' /\ mext d m m'.

    Lemma eval_args_minv : forall l o m r m',
      minv m -> eval_args value of_opt (mstate value) rec l o m = (r, m') -> minv m' /\ mext d m m'.
    Proof.
      induction l as [|a l IH]; intros o m r m' Hm H; simpl in H.
      - inversion H; subst. split; auto. apply mext_refl.
      - destruct a as [k|j].
        + destruct (eval_args value of_opt (mstate value) rec l o m) as [r2 m2] eqn:E2.
          destruct (IH _ _ _ _ Hm E2) as [Hm2 Hx2]. destruct r2; inversion H; subst; auto.
        + destruct (rec j o m) as [r1 m1] eqn:E1. destruct (Hrec _ _ _ _ _ Hm E1) as [Hm1 Hx1].
          destruct r1 as [v|e].
          * destruct (eval_args value of_opt (mstate value) rec l o m1) as [r2 m2] eqn:E2.
            destruct (IH _ _ _ _ Hm1 E2) as [Hm2 Hx2].
            destruct r2; inversion H; subst; split; auto; eapply mext_trans; eauto.
          * inversion H; subst. auto.
    Qed.

    Lemma memo_step_minv : forall df o m r m',
      minv m -> memo_step value of_opt fp rec d df o m = (r, m') -> minv m' /\ mext (d + 1) m m'.
    Proof.
      intros df o m r m' Hm H. unfold memo_step in H.
      destruct (s_find value (d, fp d o) (fst m)) as [v0|] eqn:Ef.
      - inversion H; subst. split; auto. apply mext_refl.
      - destruct (eval_args value of_opt (mstate value) rec (ds_args df) o m) as [ra m1] eqn:Ea.
        destruct (eval_args_minv _ _ _ _ _ Hm Ea) as [[Hnd1 Hmem1] [dl [Hdl HF]]].
        assert (Hx1 : mext (d + 1) m m1).
        { apply (mext_weaken d); [lia|]. exists dl. auto. }
        destruct ra as [vs|e]; [|inversion H; subst; split; auto; split; auto].
        destruct (ds_body df vs) as [v|] eqn:Eb; inversion H; subst; clear H.
        + (* the body ran and succeeded: its key was not yet among the successful runs *)
          assert (Hnew : ~ In (d, fp d o) (ok_keys value (snd m1))).
          { rewrite Hdl, ok_keys_app. intro Hin. apply in_app_or in Hin as [Hin|Hin].
            - destruct Hm as [_ Hmem]. apply Hmem in Hin. unfold s_mem in Hin. rewrite Ef in Hin. discriminate.
            - apply (ok_keys_bound d) in Hin; auto. simpl in Hin. lia. }
          split.
          * split; simpl.
            -- rewrite ok_keys_app. simpl. apply NoDup_snoc; auto.
            -- intros k Hk. rewrite ok_keys_app in Hk. unfold s_mem. rewrite s_find_add.
               destruct (key_eqb k (d, fp d o)) eqn:Ek; auto.
               apply in_app_or in Hk as [Hk|Hk]; [apply Hmem1; exact Hk|].
               simpl in Hk. destruct Hk as [Hk|[]]. subst k. rewrite key_eqb_refl in Ek. discriminate.
          * eapply mext_trans; [exact Hx1|]. exists [mk_run value fp d o vs (Some v)]. simpl. split; auto.
            constructor; auto. simpl. lia.
        + split.
          * split; simpl.
            -- rewrite ok_keys_app. simpl. rewrite app_nil_r. exact Hnd1.
            -- intros k Hk. rewrite ok_keys_app in Hk. simpl in Hk. rewrite app_nil_r in Hk. auto.
          * eapply mext_trans; [exact Hx1|]. exists [mk_run value fp d o vs None]. simpl. split; auto.
            constructor; auto. simpl. lia.
    Qed.
  End MemoInv.

  Lemma memo_minv : forall g d o m r m',
    minv m -> memo value of_opt fp g d o m = (r, m') ->
    minv m' /\ mext (N.of_nat (length g)) m m'.
  Proof.
    induction g as [|df g' IH]; intros d o m r m' Hm H; simpl in H.
    - inversion H; subst. split; auto. apply mext_refl.
    - destruct (N.eqb d (N.of_nat (length g'))) eqn:E.
      + apply N.eqb_eq in E. subst d.
        destruct (memo_step_minv (memo value of_opt fp g') (N.of_nat (length g')) IH _ _ _ _ _ Hm H) as [Hm' Hx].
        split; auto. apply (mext_weaken (N.of_nat (length g') + 1)); auto. simpl length. lia.
      + destruct (IH _ _ _ _ _ Hm H) as [Hm' Hx]. split; auto.
        apply (mext_weaken (N.of_nat (length g'))); auto. simpl length. lia.
  Qed.

  Lemma memo_hist_minv : forall g h m rs m',
    minv m -> memo_hist value of_opt fp g h m = (rs, m') -> minv m'.
  Proof.
    intros g. induction h as [|[d o] h IH]; intros m rs m' Hm H; simpl in H.
    - inversion H; subst; auto.
    - destruct (memo value of_opt fp g d o m) as [r m1] eqn:E1.
      destruct (memo_hist value of_opt fp g h m1) as [rs' m2] eqn:E2.
      inversion H; subst. destruct (memo_minv _ _ _ _ _ _ Hm E1) as [Hm1 _]. eapply IH; eauto.
  Qed.

  Lemma minv_init : minv (mproj value (init_state value)).
  Proof. split; simpl; [constructor|intros k []]. Qed.

  (** With a truthful backend every (dataset, fingerprint) body succeeds at most once. *)
  Lemma honest_runs_once : forall g h rs st',
    run_hist value of_opt fp honest g (enabled h) (init_state value) = (rs, st') ->
    NoDup (ok_keys value (st_runs st')).
  Proof.
    intros g h rs st' H. apply honest_hist_memo in H.
    destruct (memo_hist_minv _ _ _ _ _ minv_init H) as [Hnd _]. exact Hnd.
  Qed.

  (* ---------------------------------------------------------------- never fails when nothing can *)

  Lemma refv_total : forall g, wf_graph value g = true -> bodies_total value g ->
    forall d o, (d < N.of_nat (length g))%N -> exists v, refv g d o = Ok v.
  Proof.
    induction g as [|df g' IH]; intros Hwf Hbt d o Hd; simpl in Hd; [lia|].
    simpl in Hwf. apply andb_true_iff in Hwf as [Hargs Hwf'].
    assert (Hbt' : bodies_total value g').
    { intros df' Hin. apply Hbt. right. exact Hin. }
    simpl. destruct (N.eqb d (N.of_nat (length g'))) eqn:E.
    - unfold refv_step.
      assert (Ha : exists vs, refv_args value of_opt (refv g') (ds_args df) o = Ok vs).
      { clear Hbt. induction (ds_args df) as [|a l IHl]; simpl; [eauto|].
        simpl in Hargs. apply andb_true_iff in Hargs as [Ha Hl].
        destruct (IHl Hl) as [vs Hvs]. rewrite Hvs.
        destruct a as [k|j]; simpl; [eauto|].
        apply N.ltb_lt in Ha. destruct (IH Hwf' Hbt' j o Ha) as [v Hv]. rewrite Hv. eauto. }
      destruct Ha as [vs Hvs]. rewrite Hvs.
      destruct (ds_body df vs) as [v|] eqn:Eb; simpl; [eauto|].
      exfalso. apply (Hbt df (or_introl eq_refl) vs). exact Eb.
    - apply IH; auto. apply N.eqb_neq in E. lia.
  Qed.
End Proofs.

(* ================================================================== the concrete fingerprint is sound *)

Section KeysSound.
  Variable value : Type.
  Variable of_opt : N -> value.

  Lemma refv_keys_frame : forall (g : graph value) d o o',
    (forall k, In k (keys value g d) -> o k = o' k) ->
    refv value of_opt g d o = refv value of_opt g d o'.
  Proof.
    induction g as [|df g' IH]; intros d o o' H; simpl; auto.
    simpl in H. destruct (N.eqb d (N.of_nat (length g'))); [|apply IH; exact H].
    unfold refv_step.
    assert (Ha : refv_args value of_opt (refv value of_opt g') (ds_args df) o =
                 refv_args value of_opt (refv value of_opt g') (ds_args df) o').
    { induction (ds_args df) as [|a l IHl]; simpl; auto.
      simpl in H.
      assert (Hl : forall k, In k (flat_map (fun a => match a with AOpt k => [k] | ADs j => keys value g' j end) l) -> o k = o' k).
      { intros k Hk. apply H. apply in_or_app. right. exact Hk. }
      rewrite (IHl Hl).
      destruct a as [k|j]; simpl.
      - rewrite (H k); [reflexivity|]. apply in_or_app. left. left. reflexivity.
      - rewrite (IH j o o'); [reflexivity|]. intros k Hk. apply H. apply in_or_app. left. exact Hk. }
    rewrite Ha. reflexivity.
  Qed.

  (** types.py:115-119 is a sound fingerprint for this graph language (C01/C03 in the small). *)
  Lemma fp_keys_sound : forall G : graph value, fp_sound value of_opt (fp_keys value G) G.
  Proof.
    intros G d o o' H. apply refv_keys_frame. intros k Hk.
    unfold fp_keys in H. eapply map_pair_agree; [exact H|]. apply In_sort_dedup. exact Hk.
  Qed.
End KeysSound.

(* ================================================================== statements used by Properties/C17.v *)

Section Statements.
  Variable value : Type.
  Variable of_opt : N -> value.
  Variable fp : N -> options -> fingerprint.
  Variable fault : nat -> behaviour.

  Notation refv := (refv value of_opt).
  Notation ref_runs := (ref_runs value of_opt fp).
  Notation store_ok := (store_ok value of_opt fp).
  Notation fp_sound := (fp_sound value of_opt fp).
  Notation eval := (eval value of_opt fp fault).
  Notation run_hist := (run_hist value of_opt fp fault).

  Definition ref_results (G : graph value) (h : list op) : list (res value) :=
    map (fun '(_, d, o) => refv G d o) h.
  Definition ref_hist_runs (G : graph value) (h : list op) : list (run value) :=
    flat_map (fun '(_, d, o) => ref_runs G d o) h.

  Lemma faulty_backend_correct : forall G, fp_sound G -> forall h st rs st',
    store_ok G (st_store st) -> run_hist G h st = (rs, st') ->
    rs = ref_results G h /\ store_ok G (st_store st').
  Proof.
    intros G Hfp h st rs st' Hok H.
    destruct (run_hist_correct value of_opt fp fault G Hfp h st rs st' Hok H) as [Hr [Hok' _]]. auto.
  Qed.

  Lemma faulty_backend_correct_init : forall G, fp_sound G -> forall h,
    fst (run_hist G h (init_state value)) = ref_results G h.
  Proof.
    intros G Hfp h. destruct (run_hist G h (init_state value)) as [rs st'] eqn:E. simpl.
    eapply faulty_backend_correct; eauto. apply store_ok_nil.
  Qed.

  Lemma faulty_eval_correct : forall G, fp_sound G -> forall dis d o st,
    store_ok G (st_store st) ->
    fst (eval G dis d o st) = refv G d o /\ store_ok G (st_store (snd (eval G dis d o st))).
  Proof.
    intros G Hfp dis d o st Hok. destruct (eval G dis d o st) as [r st'] eqn:E. simpl.
    destruct (eval_correct value of_opt fp fault G Hfp dis G [] eq_refl d o st r st' Hok E) as [Hr [Hok' _]].
    auto.
  Qed.

  Lemma backend_calls_preserve_invariant : forall G d f st,
    store_ok G (st_store st) ->
    store_ok G (st_store (snd (b_exists value fault d f st))) /\
    store_ok G (st_store (snd (b_get value fault d f st))) /\
    (forall v, fst (b_get value fault d f st) = Some v -> s_find value (d, f) (st_store st) = Some v) /\
    (forall v, (forall o, fp d o = f -> refv G d o = Ok v) ->
               store_ok G (st_store (b_set value fault d f v st))).
  Proof.
    intros G d f st Hok. repeat split.
    - destruct (b_exists value fault d f st) as [b st'] eqn:E.
      destruct (b_exists_spec value of_opt fp fault G _ _ _ _ _ E Hok). auto.
    - destruct (b_get value fault d f st) as [b st'] eqn:E.
      destruct (b_get_spec value of_opt fp fault G _ _ _ _ _ E Hok). auto.
    - destruct (b_get value fault d f st) as [b st'] eqn:E.
      destruct (b_get_spec value of_opt fp fault G _ _ _ _ _ E Hok) as [_ [_ H]]. exact H.
    - intros v Hv. destruct (b_set_spec value of_opt fp fault G d f v st Hok Hv). auto.
  Qed.

  Lemma faulty_never_fails : forall G, fp_sound G ->
    wf_graph value G = true -> bodies_total value G ->
    forall h, (forall dis d o, In (dis, d, o) h -> (d < N.of_nat (length G))%N) ->
    forall r, In r (fst (run_hist G h (init_state value))) -> exists v, r = Ok v.
  Proof.
    intros G Hfp Hwf Hbt h Hh r Hr. rewrite faulty_backend_correct_init in Hr; auto.
    unfold ref_results in Hr. apply in_map_iff in Hr as [[[dis d] o] [Hr Hin]]. subst r.
    eapply refv_total; eauto.
  Qed.

  Lemma faulty_costs_only_recompute_eval : forall G, fp_sound G -> forall dis d o st r st',
    store_ok G (st_store st) -> eval G dis d o st = (r, st') ->
    exists dl, st_runs st' = st_runs st ++ dl /\ sublist dl (ref_runs G d o).
  Proof.
    intros G Hfp dis d o st r st' Hok E.
    destruct (eval_correct value of_opt fp fault G Hfp dis G [] eq_refl d o st r st' Hok E) as [_ [_ H]].
    exact H.
  Qed.

  Lemma faulty_costs_only_recompute : forall G, fp_sound G -> forall h st rs st',
    store_ok G (st_store st) -> run_hist G h st = (rs, st') ->
    exists dl, st_runs st' = st_runs st ++ dl /\ sublist dl (ref_hist_runs G h) /\
               (forall x, In x dl -> In x (ref_hist_runs G h)) /\ length dl <= length (ref_hist_runs G h).
  Proof.
    intros G Hfp h st rs st' Hok H.
    destruct (run_hist_correct value of_opt fp fault G Hfp h st rs st' Hok H) as [_ [_ [dl [Hd Hs]]]].
    exists dl. repeat split; auto.
    - apply sublist_In. exact Hs.
    - apply sublist_length. exact Hs.
  Qed.
End Statements.
