(** Dictionary-level lemmas shared by Proofs/C08Eval.v and Proofs/C05Spec.v: which dotted keys an
    overlay leaves alone ([untouched]), well-formedness of [mix], and what [set_dotted] /
    [option_set] (Map's nested-set of an assignment) do to lookups.  Only facts about Model/Base.v
    and the two helper functions of Model/Eval.v; no interpreter here. *)
From Coq Require Import List NArith ZArith Bool Lia.
Import ListNotations.
From LV Require Import Model.Base Model.Template Model.Eval Proofs.BaseProofs Proofs.FrameProofs.

(** ** lookups: appending keys, empty dictionary *)
Lemma lookup_app k1 : forall k2 j,
  lookup (k1 ++ k2) j = match lookup k1 j with Found v => lookup k2 v | r => r end.
Proof.
  induction k1 as [|s k1 IH]; intros k2 j; [reflexivity|].
  cbn [app lookup]. destruct j; try reflexivity.
  - destruct s; [reflexivity|]. destruct (nth_error l (N.to_nat i)); [apply IH|reflexivity].
  - destruct s; [|reflexivity]. destruct (dget (SName n) m); [apply IH|reflexivity].
Qed.

Lemma lookup_nil_dict k : k <> [] -> lookup k (JObj []) = Absent.
Proof. destruct k as [|[n|i] k]; [congruence|reflexivity|reflexivity]. Qed.

(** ** [untouched k p]: walking [k] through [p] meets sections only, until a name [p] does not
    have — no prefix and no extension of [k] is given a value by [p]. *)
Fixpoint untouched (k : key) (p : dict) : bool :=
  match k with
  | [] => false
  | s :: k' =>
      match dget s p with
      | None => true
      | Some (JObj sub) => untouched k' sub
      | Some _ => false
      end
  end.

Lemma untouched_nonempty k p : untouched k p = true -> k <> [].
Proof. destruct k; [discriminate|discriminate]. Qed.

Lemma untouched_nil k : k <> [] -> untouched k [] = true.
Proof. destruct k; [congruence|reflexivity]. Qed.

Lemma untouched_absent k : forall p,
  forallb is_name k = true -> untouched k p = true -> lookup k (JObj p) = Absent.
Proof.
  induction k as [|s k IH]; intros p Hn Hu; [discriminate|].
  cbn [forallb] in Hn. apply andb_prop in Hn as [Hs Hn]. destruct s as [n|i]; [|discriminate].
  cbn [untouched] in Hu. cbn [lookup].
  destruct (dget (SName n) p) as [v|]; [|reflexivity].
  destruct v; try discriminate. now apply IH.
Qed.

(** the overlay answers an untouched key as the dish does (the one exception, a scalar of the
    dish standing where the ingredient has a section, is excluded by the last hypothesis: there the
    dish raises TypeError and the overlay, in which the section replaced the scalar, KeyError) *)
Theorem lookup_mix_untouched_deep k : forall o p,
  wf_json (JObj p) = true -> forallb is_name k = true -> untouched k p = true ->
  lookup k (JObj o) <> TypeErr ->
  lookup k (JObj (mix o p)) = lookup k (JObj o).
Proof.
  induction k as [|s k IH]; intros o p Hwf Hn Hu Ht; [discriminate|].
  destruct (wf_json_obj _ Hwf) as [Hnd Hsub].
  rewrite lookup_mix_step by exact Hnd.
  cbn [forallb] in Hn. apply andb_prop in Hn as [Hs Hn]. destruct s as [n|i]; [|discriminate].
  cbn [untouched] in Hu.
  destruct (dget (SName n) p) as [pv|] eqn:Ep; [|reflexivity].
  destruct pv; try discriminate.
  assert (Hwm : wf_json (JObj m) = true) by apply (Hsub _ _ (dget_In _ _ _ Ep)).
  assert (Hk : k <> []) by (eapply untouched_nonempty; eauto).
  cbn [lookup] in Ht |- *.
  destruct (dget (SName n) o) as [ov|] eqn:Eo.
  - destruct ov; cbn [as_dict];
      try (rewrite IH by (try assumption; rewrite lookup_nil_dict by exact Hk; discriminate);
           rewrite lookup_nil_dict by exact Hk;
           destruct k as [|[n'|i'] k]; [congruence| |discriminate];
           cbn [lookup] in Ht |- *; congruence).
    apply IH; assumption.
  - cbn [as_dict]. rewrite IH by (try assumption; rewrite lookup_nil_dict by exact Hk; discriminate).
    now apply lookup_nil_dict.
Qed.

(** ** [mix] preserves well-formedness (unique keys, hereditarily) *)
Lemma wf_obj_split m :
  wf_json (JObj m) = nodup_keys m && forallb (fun kv => wf_json (snd kv)) m.
Proof.
  cbn [wf_json]. f_equal. induction m as [|[k v] m IH]; [reflexivity|].
  cbn [forallb snd]. now rewrite <- IH.
Qed.

Lemma existsb_dset_key k k' v m :
  seg_eqb k k' = false ->
  existsb (fun kv => seg_eqb k (fst kv)) (dset k' v m) = existsb (fun kv => seg_eqb k (fst kv)) m.
Proof.
  intros H. induction m as [|[k2 v2] m IH]; cbn [dset existsb fst].
  - now rewrite H.
  - destruct (seg_eqb k' k2) eqn:E; cbn [existsb fst].
    + apply seg_eqb_eq in E. subst k2. now rewrite H.
    + now rewrite IH.
Qed.

Lemma nodup_dset k v m : nodup_keys m = true -> nodup_keys (dset k v m) = true.
Proof.
  induction m as [|[k' v'] m IH]; intros H; [reflexivity|].
  cbn [dset]. destruct (seg_eqb k k') eqn:E.
  - apply seg_eqb_eq in E. subst k'. exact H.
  - cbn [nodup_keys] in H |- *. apply andb_prop in H as [H1 H2].
    rewrite existsb_dset_key by (rewrite seg_eqb_sym; exact E). rewrite H1. cbn [andb]. now apply IH.
Qed.

Lemma all_wf_dset k v m :
  forallb (fun kv => wf_json (snd kv)) m = true -> wf_json v = true ->
  forallb (fun kv => wf_json (snd kv)) (dset k v m) = true.
Proof.
  intros Hm Hv. induction m as [|[k' v'] m IH]; cbn [dset forallb snd]; [now rewrite Hv|].
  cbn [forallb snd] in Hm. apply andb_prop in Hm as [H1 H2].
  destruct (seg_eqb k k'); cbn [forallb snd]; [now rewrite Hv, H2|now rewrite H1, IH].
Qed.

Lemma wf_dset k v m :
  wf_json (JObj m) = true -> wf_json v = true -> wf_json (JObj (dset k v m)) = true.
Proof.
  rewrite !wf_obj_split. intros H Hv. apply andb_prop in H as [H1 H2].
  now rewrite nodup_dset, all_wf_dset.
Qed.

Lemma dget_wf k m v : wf_json (JObj m) = true -> dget k m = Some v -> wf_json v = true.
Proof. intros H E. destruct (wf_json_obj _ H) as [_ Hs]. apply (Hs _ _ (dget_In _ _ _ E)). Qed.

Lemma wf_mixj : forall ing dish,
  wf_json dish = true -> wf_json ing = true -> wf_json (mixj dish ing) = true.
Proof.
  induction ing using json_ind'; intros dish Hd Hi; try exact Hi.
  rewrite mixj_obj.
  assert (Hacc : wf_json (JObj (as_dict dish)) = true) by (destruct dish; try reflexivity; exact Hd).
  revert Hacc. generalize (as_dict dish) as acc. unfold mix.
  rewrite wf_obj_split in Hi. apply andb_prop in Hi as [_ Hall].
  induction H as [|[k v] m Hv _ IH]; intros acc Hacc; [exact Hacc|].
  cbn [forallb snd] in Hall. apply andb_prop in Hall as [Hwv Hall].
  rewrite mix_loop_cons. apply IH; [exact Hall|]. apply wf_dset; [exact Hacc|].
  unfold mix_entry. destruct v; try exact Hwv.
  cbn [snd] in Hv. apply Hv; [|exact Hwv].
  destruct (dget k acc) as [d|] eqn:E; [exact (dget_wf _ _ _ Hacc E)|reflexivity].
Qed.

Theorem wf_mix o p : wf_dict o = true -> wf_dict p = true -> wf_dict (mix o p) = true.
Proof.
  unfold wf_dict. intros Ho Hp. pose proof (wf_mixj (JObj p) (JObj o) Ho Hp) as H.
  now rewrite mixj_obj in H.
Qed.

(** ** [set_dotted]: what setting one dotted key does to lookups *)
Lemma diverge_sym k : forall k', diverge k k' = diverge k' k.
Proof.
  induction k as [|s k IH]; intros [|s' k']; try reflexivity.
  cbn [diverge]. rewrite (seg_eqb_sym s s'). destruct (seg_eqb s' s); [apply IH|reflexivity].
Qed.

Lemma diverge_nonempty_r k k' : diverge k k' = true -> k' <> [].
Proof. destruct k, k'; cbn; congruence. Qed.

(** an untouched key can be set: the path is free *)
Lemma set_dotted_untouched k : forall v acc,
  untouched k acc = true -> exists acc', set_dotted k v acc = Some acc'.
Proof.
  induction k as [|s k IH]; intros v acc Hu; [discriminate|].
  destruct k as [|s2 k2]; [eexists; reflexivity|].
  cbn [untouched] in Hu.
  change (set_dotted (s :: s2 :: k2) v acc) with
    (match dget s acc with
     | None => match set_dotted (s2 :: k2) v [] with Some sub => Some (dset s (JObj sub) acc) | None => None end
     | Some (JObj sub0) =>
         match set_dotted (s2 :: k2) v sub0 with Some sub => Some (dset s (JObj sub) acc) | None => None end
     | Some _ => None
     end).
  destruct (dget s acc) as [d|].
  - destruct d; try discriminate. destruct (IH v m Hu) as [sub ->]. eexists; reflexivity.
  - destruct (IH v [] eq_refl) as [sub ->]. eexists; reflexivity.
Qed.

Lemma set_dotted_cons2 s s2 k2 v acc :
  set_dotted (s :: s2 :: k2) v acc =
    match dget s acc with
    | None => match set_dotted (s2 :: k2) v [] with Some sub => Some (dset s (JObj sub) acc) | None => None end
    | Some (JObj sub0) =>
        match set_dotted (s2 :: k2) v sub0 with Some sub => Some (dset s (JObj sub) acc) | None => None end
    | Some _ => None
    end.
Proof. reflexivity. Qed.

(** the key set holds the value set *)
Lemma set_dotted_get k : forall v acc acc',
  forallb is_name k = true -> k <> [] -> set_dotted k v acc = Some acc' ->
  lookup k (JObj acc') = Found v.
Proof.
  induction k as [|s k IH]; intros v acc acc' Hn Hne H; [congruence|].
  cbn [forallb] in Hn. apply andb_prop in Hn as [Hs Hn]. destruct s as [n|i]; [|discriminate].
  destruct k as [|s2 k2].
  - cbn [set_dotted] in H. inversion H; subst acc'. cbn [lookup]. now rewrite dget_dset_same.
  - rewrite set_dotted_cons2 in H. cbn [lookup].
    destruct (dget (SName n) acc) as [d|].
    + destruct d; try discriminate.
      destruct (set_dotted (s2 :: k2) v m) as [sub|] eqn:E; [|discriminate].
      inversion H; subst acc'. rewrite dget_dset_same. eapply IH; eauto. discriminate.
    + destruct (set_dotted (s2 :: k2) v []) as [sub|] eqn:E; [|discriminate].
      inversion H; subst acc'. rewrite dget_dset_same. eapply IH; eauto. discriminate.
Qed.

(** every key diverging from it is answered as before *)
Lemma set_dotted_frame k : forall k' v acc acc',
  diverge k k' = true -> set_dotted k v acc = Some acc' ->
  lookup k' (JObj acc') = lookup k' (JObj acc).
Proof.
  induction k as [|s k IH]; intros k' v acc acc' Hd H; [discriminate|].
  destruct k' as [|s' k']; [discriminate|]. cbn [diverge] in Hd.
  cbn [lookup]. destruct s' as [n'|i']; [|reflexivity].
  destruct (seg_eqb s (SName n')) eqn:E.
  - apply seg_eqb_eq in E. subst s.
    destruct k as [|s2 k2]; [discriminate|].
    rewrite set_dotted_cons2 in H.
    destruct (dget (SName n') acc) as [d|] eqn:Ed.
    + destruct d; try discriminate.
      destruct (set_dotted (s2 :: k2) v m) as [sub|] eqn:Es; [|discriminate].
      inversion H; subst acc'. rewrite dget_dset_same. eapply IH; eauto.
    + destruct (set_dotted (s2 :: k2) v []) as [sub|] eqn:Es; [|discriminate].
      inversion H; subst acc'. rewrite dget_dset_same.
      rewrite (IH _ _ _ _ Hd Es). apply lookup_nil_dict. eapply diverge_nonempty_r; eauto.
  - assert (Hother : dget (SName n') acc' = dget (SName n') acc).
    { rewrite seg_eqb_sym in E.
      destruct k as [|s2 k2].
      - cbn [set_dotted] in H. inversion H; subst acc'. now apply dget_dset_other.
      - rewrite set_dotted_cons2 in H.
        destruct (dget s acc) as [d|].
        + destruct d; try discriminate.
          destruct (set_dotted (s2 :: k2) v m); [|discriminate].
          inversion H; subst acc'. now apply dget_dset_other.
        + destruct (set_dotted (s2 :: k2) v []); [|discriminate].
          inversion H; subst acc'. now apply dget_dset_other. }
    now rewrite Hother.
Qed.

(** … and stays untouched if it was *)
Lemma set_dotted_untouched_frame k : forall k' v acc acc',
  diverge k k' = true -> set_dotted k v acc = Some acc' ->
  untouched k' acc = true -> untouched k' acc' = true.
Proof.
  induction k as [|s k IH]; intros k' v acc acc' Hd H Hu; [discriminate|].
  destruct k' as [|s' k']; [discriminate|]. cbn [diverge] in Hd. cbn [untouched] in Hu |- *.
  destruct (seg_eqb s s') eqn:E.
  - apply seg_eqb_eq in E. subst s'.
    destruct k as [|s2 k2]; [discriminate|].
    rewrite set_dotted_cons2 in H.
    destruct (dget s acc) as [d|] eqn:Ed.
    + destruct d; try discriminate.
      destruct (set_dotted (s2 :: k2) v m) as [sub|] eqn:Es; [|discriminate].
      inversion H; subst acc'. rewrite dget_dset_same. eapply IH; eauto.
    + destruct (set_dotted (s2 :: k2) v []) as [sub|] eqn:Es; [|discriminate].
      inversion H; subst acc'. rewrite dget_dset_same. eapply IH; eauto.
      apply untouched_nil. eapply diverge_nonempty_r; eauto.
  - assert (Hother : dget s' acc' = dget s' acc).
    { rewrite seg_eqb_sym in E.
      destruct k as [|s2 k2].
      - cbn [set_dotted] in H. inversion H; subst acc'. now apply dget_dset_other.
      - rewrite set_dotted_cons2 in H.
        destruct (dget s acc) as [d|].
        + destruct d; try discriminate.
          destruct (set_dotted (s2 :: k2) v m); [|discriminate].
          inversion H; subst acc'. now apply dget_dset_other.
        + destruct (set_dotted (s2 :: k2) v []); [|discriminate].
          inversion H; subst acc'. now apply dget_dset_other. }
    now rewrite Hother.
Qed.

Lemma set_dotted_wf k : forall v acc acc',
  wf_json (JObj acc) = true -> wf_json v = true -> set_dotted k v acc = Some acc' ->
  wf_json (JObj acc') = true.
Proof.
  induction k as [|s k IH]; intros v acc acc' Ha Hv H.
  - cbn [set_dotted] in H. now inversion H; subst.
  - destruct k as [|s2 k2].
    + cbn [set_dotted] in H. inversion H; subst acc'. now apply wf_dset.
    + rewrite set_dotted_cons2 in H.
      destruct (dget s acc) as [d|] eqn:Ed.
      * destruct d; try discriminate.
        destruct (set_dotted (s2 :: k2) v m) as [sub|] eqn:Es; [|discriminate].
        inversion H; subst acc'. apply wf_dset; [exact Ha|].
        eapply IH; [|exact Hv|exact Es]. exact (dget_wf _ _ _ Ha Ed).
      * destruct (set_dotted (s2 :: k2) v []) as [sub|] eqn:Es; [|discriminate].
        inversion H; subst acc'. apply wf_dset; [exact Ha|].
        eapply IH; [|exact Hv|exact Es]. reflexivity.
Qed.

Lemma dset_nonempty k v m : dset k v m <> [].
Proof. destruct m as [|[k' v'] m]; cbn [dset]; [discriminate|]. destruct (seg_eqb k k'); discriminate. Qed.

Lemma set_dotted_nonempty k v acc acc' : k <> [] -> set_dotted k v acc = Some acc' -> acc' <> [].
Proof.
  intros Hne H. destruct k as [|s k]; [congruence|]. destruct k as [|s2 k2].
  - cbn [set_dotted] in H. inversion H. apply dset_nonempty.
  - rewrite set_dotted_cons2 in H.
    destruct (dget s acc) as [d|].
    + destruct d; try discriminate. destruct (set_dotted (s2 :: k2) v m); [|discriminate].
      inversion H. apply dset_nonempty.
    + destruct (set_dotted (s2 :: k2) v []); [|discriminate]. inversion H. apply dset_nonempty.
Qed.

(** ** [option_set] (Map._create_option_set): all assignments of a combination, nested-set one
    after the other into one dictionary.  Keys: non-empty paths of names, pairwise diverging
    (none a prefix of another). *)
Definition name_key (k : key) : bool := negb (Nat.eqb (length k) 0) && forallb is_name k.

Fixpoint pairwise_diverge (ks : list key) : bool :=
  match ks with
  | [] => true
  | k :: ks' => forallb (fun k' => diverge k k') ks' && pairwise_diverge ks'
  end.

Lemma name_key_spec k : name_key k = true -> k <> [] /\ forallb is_name k = true.
Proof.
  unfold name_key. intros H. apply andb_prop in H as [H1 H2]. split; [|exact H2].
  destruct k; [discriminate|discriminate].
Qed.

Theorem option_set_spec kvs : forall acc,
  forallb name_key (map fst kvs) = true -> pairwise_diverge (map fst kvs) = true ->
  forallb (fun kv => wf_json (snd kv)) kvs = true ->
  wf_json (JObj acc) = true ->
  (forall k, In k (map fst kvs) -> untouched k acc = true) ->
  exists os,
    option_set kvs acc = Some os /\ wf_json (JObj os) = true /\
    (forall k v, In (k, v) kvs -> lookup k (JObj os) = Found v) /\
    (forall k', (forall k, In k (map fst kvs) -> diverge k k' = true) ->
                lookup k' (JObj os) = lookup k' (JObj acc) /\
                (untouched k' acc = true -> untouched k' os = true)) /\
    (kvs <> [] -> os <> []).
Proof.
  induction kvs as [|[k v] kvs IH]; intros acc Hn Hp Hwv Hwa Hu.
  - exists acc. cbn [option_set]. repeat split; auto; try (intros ? ? []); congruence.
  - cbn [map fst forallb pairwise_diverge snd] in Hn, Hp, Hwv.
    apply andb_prop in Hn as [Hnk Hn]. apply andb_prop in Hp as [Hdk Hp]. apply andb_prop in Hwv as [Hwk Hwv].
    destruct (name_key_spec _ Hnk) as [Hne Hnames].
    destruct (set_dotted_untouched k v acc (Hu k (or_introl eq_refl))) as [acc1 Hs].
    rewrite forallb_forall in Hdk.
    destruct (IH acc1 Hn Hp Hwv (set_dotted_wf _ _ _ _ Hwa Hwk Hs)) as (os & Hos & Hwos & Hget & Hfr & Hnon).
    { intros k2 Hk2. eapply set_dotted_untouched_frame; [apply Hdk; exact Hk2|exact Hs|].
      apply Hu. now right. }
    exists os. cbn [option_set]. rewrite Hs. split; [exact Hos|]. split; [exact Hwos|].
    split; [|split].
    + intros k2 v2 [E|Hin].
      * inversion E; subst k2 v2.
        destruct (Hfr k) as [Hl _].
        { intros k2 Hk2. rewrite diverge_sym. now apply Hdk. }
        rewrite Hl. eapply set_dotted_get; eauto.
      * now apply Hget.
    + intros k' Hk'. destruct (Hfr k') as [Hl Hun]; [intros k2 Hk2; apply Hk'; now right|].
      assert (Hd : diverge k k' = true) by (apply Hk'; now left).
      split.
      * rewrite Hl. eapply set_dotted_frame; eauto.
      * intros Hua. apply Hun. eapply set_dotted_untouched_frame; eauto.
    + intros _. destruct kvs as [|kv kvs'].
      * cbn [option_set] in Hos. inversion Hos; subst os. eapply set_dotted_nonempty; eauto.
      * apply Hnon. discriminate.
Qed.
