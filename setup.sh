#!/bin/bash
# Build the framework from files on disk only (offline). Full .vo build, no -vos.
cd "$(dirname "$0")"
export PYTHONPATH="${VERIF_REPO:-/repo}:$(pwd)/harness"
export PYTHONDONTWRITEBYTECODE=1
set -e
# forbidden-word gate over the hand-written theory
/venv/bin/python - <<'PY'
import sys
sys.path.insert(0, "harness")
import lib
hits = lib.forbidden_scan()
if hits:
    for h in hits:
        print("FORBIDDEN:", h)
    sys.exit(1)
ok, log = lib.ensure_built()
print(log[-2000:])
sys.exit(0 if ok else 1)
PY
echo "setup ok"
