"""Scenario language for the expression core (Model/Eval.v): one neutral description that is
(a) built into live labrea objects through the public API, (b) printed as a Gallina term, and
(c) run on both sides, with observations canonicalised into the same strings.

Expression descriptions are nested tuples (see `build`). Keys are tuples of segments
('n', atom) / ('i', index); option names are "K<atom>" (atoms 1..6 are the reserved switch names).
"""
import logging as pylogging

RESERVED = {1: "LABREA", 2: "CACHE", 3: "DISABLED", 4: "DISABLE", 5: "EFFECTS", 6: "LOGGING"}
RESERVED_INV = {v: k for k, v in RESERVED.items()}


# Option names are free (the model only sees atoms).  Some atoms get names that are plain STRING
# prefixes / extensions of other option names (no dot boundary): K10 / K10B at the top level and
# K21 / K21Y inside section K20 - code that confuses "is a string prefix of" with "is a dotted
# parent of" (startswith without the dot) then behaves differently from the model.
ALIASES = {11: "K10B", 22: "K21Y"}
ALIASES_INV = {v: k for k, v in ALIASES.items()}


def canon_names(text):
    """observation text with aliased option names replaced by the canonical K<atom> the model prints
    (generated literals never contain the letter K)"""
    for name, atom in ALIASES_INV.items():
        text = text.replace(name, f"K{atom}")
    return text


def name_of(atom):
    return RESERVED.get(atom) or ALIASES.get(atom) or f"K{atom}"


def atom_of(name):
    if name in RESERVED_INV:
        return RESERVED_INV[name]
    if name in ALIASES_INV:
        return ALIASES_INV[name]
    assert name.startswith("K"), name
    return int(name[1:])


def key_text(key):
    return ".".join(name_of(s[1]) if s[0] == "n" else str(s[1]) for s in key)


def parse_key(text):
    out = []
    for part in text.split("."):
        if part.lstrip("-").isdigit():
            out.append(("i", int(part)))
        else:
            out.append(("n", atom_of(part)))
    return tuple(out)


def key_order(key):
    return tuple((0, s[1]) if s[0] == "i" else (1, s[1]) for s in key)


# ----------------------------------------------------------------------------- strings / json

def str_text(toks):
    out = []
    for t in toks:
        if t[0] == "lit":
            out.append(t[1])
        elif t[0] == "ref":
            out.append("{" + key_text(t[1]) + "}")
        elif t[0] == "par":
            out.append("{:p%d:}" % t[1])
        elif t[0] == "escl":
            out.append("\\{")
        elif t[0] == "escr":
            out.append("\\}")
    return "".join(out)


class S:
    """a template string in a scenario (token list), to tell it apart from python str"""
    __slots__ = ("toks",)

    def __init__(self, *toks):
        self.toks = tuple(toks)

    def __repr__(self):
        return "S(" + ", ".join(repr(t) for t in self.toks) + ")"

    def text(self):
        return str_text(self.toks)

    def __eq__(self, o):
        return isinstance(o, S) and self.toks == o.toks

    def __hash__(self):
        return hash(self.toks)


def lit(text):
    return S(*[("lit", c) for c in text])


def py_json(j):
    """scenario JSON (with S strings, dict keys = atoms or ('i', n)) -> python JSON"""
    if isinstance(j, S):
        return str_text(j.toks)
    if isinstance(j, list):
        return [py_json(x) for x in j]
    if isinstance(j, dict):
        return {(name_of(k) if isinstance(k, int) else str(k[1])): py_json(v) for k, v in j.items()}
    return j


def coq_key(key):
    return "[" + "; ".join(f"SName {s[1]}%N" if s[0] == "n" else f"SIdx {s[1]}%N" for s in key) + "]"


def coq_str(toks):
    out = []
    for t in toks:
        if t[0] == "lit":
            out.append(f"TLit {ord(t[1])}%N")
        elif t[0] == "ref":
            out.append(f"TRef {coq_key(t[1])}")
        elif t[0] == "par":
            out.append(f"TPar {t[1]}%N")
        elif t[0] == "escl":
            out.append("TEscL")
        else:
            out.append("TEscR")
    return "[" + "; ".join(out) + "]"


def coq_json(j):
    if j is None:
        return "JNull"
    if isinstance(j, bool):
        return f"(JBool {'true' if j else 'false'})"
    if isinstance(j, int):
        return f"(JInt ({j})%Z)"
    if isinstance(j, S):
        return f"(JStr {coq_str(j.toks)})"
    if isinstance(j, list):
        return "(JList [" + "; ".join(coq_json(x) for x in j) + "])"
    if isinstance(j, dict):
        return "(JObj " + coq_dict(j) + ")"
    raise TypeError(j)


def coq_dict(d):
    items = []
    for k, v in d.items():
        seg = f"SName {k}%N" if isinstance(k, int) else f"SIdx {k[1]}%N"
        items.append(f"({seg}, {coq_json(v)})")
    return "[" + "; ".join(items) + "]"


# ----------------------------------------------------------------------------- values

class Tag:
    """marker making results of harness functions a free algebra: (Tag(f), *args)"""
    __slots__ = ("f",)

    def __init__(self, f):
        self.f = f

    def __eq__(self, o):
        return isinstance(o, Tag) and o.f == self.f

    def __hash__(self):
        return hash(("Tag", self.f))

    def __repr__(self):
        return f"Tag({self.f})"


def py_value(v):
    """scenario value -> python value.  ('j', json) | ('t', f, [vals]) | ('tuple', [vals]) | ('missing',)"""
    k = v[0]
    if k == "j":
        return py_json(v[1])
    if k == "t":
        return (Tag(v[1]),) + tuple(py_value(x) for x in v[2])
    if k == "tuple":
        return tuple(py_value(x) for x in v[1])
    raise TypeError(v)


def coq_value(v):
    k = v[0]
    if k == "j":
        return f"(VJ {coq_json(v[1])})"
    if k == "t":
        return f"(VT {v[1]}%N [" + "; ".join(coq_value(x) for x in v[2]) + "])"
    if k == "tuple":
        return "(VT T_TUPLE [" + "; ".join(coq_value(x) for x in v[1]) + "])"
    if k == "missing":
        return "VMissing"
    raise TypeError(v)


def show(v):
    """canonical rendering of a python value, identical to EvalRun.show_value"""
    import types as _t
    from labrea._missing import MISSING
    if v is None:
        return "N"
    if v is True:
        return "T"
    if v is False:
        return "F"
    if v is MISSING:
        return "MISSING"
    if isinstance(v, int):
        return str(v)
    if isinstance(v, float):
        return "f?"
    if isinstance(v, str):
        return "'" + v + "'"
    if isinstance(v, tuple):
        if v and isinstance(v[0], Tag):
            return f"t{v[0].f}(" + ",".join(show(x) for x in v[1:]) + ")"
        return "(" + ",".join(show(x) for x in v) + ")"
    if isinstance(v, list):
        return "[" + ",".join(show(x) for x in v) + "]"
    if isinstance(v, dict):
        return "{" + ",".join(show(k) + ":" + show(x) for k, x in v.items()) + "}"
    if callable(v):
        return "<fn>"
    if hasattr(v, "__next__") or isinstance(v, (_t.GeneratorType, map, filter)):
        return "[" + ",".join(show(x) for x in v) + "]"
    return f"?{type(v).__name__}"


def force(v):
    """force lazily evaluated results (generators) recursively, so that failures surface"""
    import types as _t
    if isinstance(v, (_t.GeneratorType, map, filter)) or (hasattr(v, "__next__") and not isinstance(v, (str, bytes))):
        return [force(x) for x in v]
    if isinstance(v, list):
        return [force(x) for x in v]
    if isinstance(v, tuple):
        return tuple(force(x) for x in v)
    if isinstance(v, dict):
        return {k: force(x) for k, x in v.items()}
    return v


def show_keys(ks):
    keys = sorted({parse_key(k) for k in ks}, key=key_order)
    return "[" + ",".join(key_text(k) for k in keys) + "]"


# ----------------------------------------------------------------------------- user functions

EXC_CLASSES = {}


def exc_class(n):
    bases = {0: RuntimeError, 1: RuntimeError, 2: KeyError, 3: ValueError, 4: TypeError, 5: Exception,
             6: ZeroDivisionError, 7: AttributeError}
    if n not in EXC_CLASSES:
        base = bases.get(n % 8, Exception)
        EXC_CLASSES[n] = type(f"UserErr{n}", (base,), {"labrea_verif_n": n})
    return EXC_CLASSES[n]


class World:
    """function table + call log + cache objects + recording handlers for one scenario"""

    def __init__(self, ftable):
        self.ftable = dict(ftable)   # fid -> desc tuple
        self.calls = []              # event strings in order
        self.fns = {}
        self.caches = {}
        self.raised = []             # exception instances raised by user code

    def fn(self, fid, arity=None):
        """the python callable for function atom fid (variadic positional)"""
        if fid in self.fns:
            return self.fns[fid]
        desc = self.ftable.get(fid, ("tag",))
        world = self

        def impl(*args):
            args = tuple(force(a) for a in args)
            world.calls.append(f"c{fid}(" + ",".join(show(a) for a in args) + ")")
            k = desc[0]
            if k == "tag":
                return (Tag(fid),) + args
            if k == "tag_raise_on":
                bad = py_value(desc[1])
                if any(_eq(a, bad) for a in args):
                    e = exc_class(desc[2])("user code raises")
                    world.raised.append(e)
                    raise e
                return (Tag(fid),) + args
            if k == "raise":
                e = exc_class(desc[1])("user code raises")
                world.raised.append(e)
                raise e
            if k == "const":
                return py_value(desc[1])
            if k == "first":
                return args[0]
            if k == "eq":
                return _eq(args[0], py_value(desc[1]))
            if k == "in":
                return any(_eq(args[0], py_value(x)) for x in desc[1])
            if k == "truthy":
                return bool(args[0])
            if k == "eq2":
                return _eq(args[0], args[1])
            raise AssertionError(desc)
        impl.__name__ = f"fn{fid}"
        impl.__qualname__ = f"fn{fid}"
        self.fns[fid] = impl
        return impl

    def kwfn(self, fid, n, first_positional=False):
        """a python function with n named parameters a0..a{n-1} delegating to fn(fid)"""
        impl = self.fn(fid)
        names = [f"a{i}" for i in range(n)]
        if first_positional:
            sig = ", ".join(["x"] + [f"{a}=None" for a in names])
            call = ", ".join(["x"] + names)
        else:
            sig = ", ".join(f"{a}=None" for a in names)
            call = ", ".join(names)
        ns = {"impl": impl}
        exec(f"def f({sig}):\n    return impl({call})\n", ns)
        f = ns["f"]
        f.__name__ = f"body{fid}"
        f.__qualname__ = f"body{fid}"
        return f

    def cache(self, cid):
        from labrea.cache import MemoryCache
        world = self
        if cid not in self.caches:
            class RecCache(MemoryCache):
                def exists(self, evaluatable, options):
                    r = super().exists(evaluatable, options)
                    world.calls.append(f"ex{cid}{'T' if r else 'F'}")
                    return r

                def get(self, evaluatable, options):
                    try:
                        r = super().get(evaluatable, options)
                    except Exception:
                        world.calls.append(f"get{cid}F")
                        raise
                    world.calls.append(f"get{cid}T")
                    return r

                def set(self, evaluatable, options, value):
                    super().set(evaluatable, options, value)
                    world.calls.append(f"set{cid}")
            self.caches[cid] = RecCache()
        return self.caches[cid]


def _eq(a, b):
    try:
        return bool(a == b)
    except Exception:
        return False


def coq_fdesc(d):
    k = d[0]
    if k == "tag":
        return "FTag"
    if k == "tag_raise_on":
        return f"(FTagRaiseOn {coq_value(d[1])} {d[2]}%N)"
    if k == "raise":
        return f"(FRaise {d[1]}%N)"
    if k == "const":
        return f"(FConst {coq_value(d[1])})"
    if k == "first":
        return "FFirst"
    if k == "eq":
        return f"(FEq {coq_value(d[1])})"
    if k == "in":
        return "(FIn [" + "; ".join(coq_value(x) for x in d[1]) + "])"
    if k == "truthy":
        return "FTruthy"
    if k == "eq2":
        return "FEq2"
    raise TypeError(d)


def coq_ftable(ft):
    return "[" + "; ".join(f"({f}%N, {coq_fdesc(d)})" for f, d in sorted(ft.items())) + "]"


# ----------------------------------------------------------------------------- building labrea objects

class Builder:
    def __init__(self, world, env):
        self.w = world
        self.env = env          # dsid -> dataset definition dict
        self.ds = {}            # dsid -> labrea Dataset
        import labrea
        self.L = labrea

    def dataset(self, dsid):
        if dsid in self.ds:
            return self.ds[dsid]
        from labrea import dataset, abstractdataset
        from labrea.cache import NoCache
        d = self.env[dsid]
        if d.get("derived") is not None:
            base = self.dataset(d["derived"])
            how, p = d["how"], py_json(d["preset"])
            obj = base.with_options(p) if how == "with_options" else base.with_default_options(p)
            self.ds[dsid] = obj
            return obj
        kwargs = d.get("kwargs", [])
        kw = {}
        if d.get("dispatch") is not None:
            kw["dispatch"] = self.build(d["dispatch"])
        if d.get("options"):
            kw["options"] = py_json(d["options"])
        if d.get("default_options"):
            kw["default_options"] = py_json(d["default_options"])
        if d.get("callback") is not None:
            kw["callback"] = self.build(d["callback"])
        if d.get("effects"):
            kw["effects"] = [self.build(e) for e in d["effects"]]
        kw["cache"] = self.w.cache(dsid) if d.get("cache", "mem") == "mem" else NoCache()
        if d.get("abstract"):
            def _abstract():
                pass
            _abstract.__name__ = _abstract.__qualname__ = f"ds{dsid}"
            obj = abstractdataset(_abstract, **kw)
        else:
            f = self.w.kwfn(d["fid"], len(kwargs))
            f.__name__ = f.__qualname__ = f"ds{dsid}"
            kw["defaults"] = {f"a{i}": self.build(e) for i, e in enumerate(kwargs)}
            obj = dataset(f, **kw)
        self.ds[dsid] = obj
        for alias, impl in d.get("overloads", []):
            obj.register(py_value(alias), self.build(impl))
        if d.get("effects_disabled"):
            obj.disable_effects()
        return obj

    def build(self, e):
        L = self.L
        from labrea.types import Value
        k = e[0]
        if k == "value":
            return Value(py_value(e[1]))
        if k == "fnvalue":
            return Value(self.w.fn(e[1]))
        if k == "option":
            from labrea._missing import MISSING
            kw = {}
            if e[2] is not None:
                kw["default"] = self.build(e[2])
            if e[3] is not None:
                kw["domain"] = self.build(e[3])
            return L.Option(key_text(e[1]), **kw)
        if k == "apply":
            fn = e[2]
            return self.build(e[1]).apply(self.build(fn))
        if k == "bind":
            tbl = [(py_value(v), self.build(x)) for v, x in e[2]]
            dflt = self.build(e[3]) if e[3] is not None else None
            world = self.w

            def func(x):
                x = force(x)
                for v, b in tbl:
                    if _eq(x, v):
                        return b
                if dflt is not None:
                    return dflt
                exc = exc_class(0)("bind function raises")
                world.raised.append(exc)
                raise exc
            return self.build(e[1]).bind(func)
        if k == "switch":
            lookup = {py_value(v): self.build(x) for v, x in e[2]}
            if e[3] is not None:
                return L.switch(self.build(e[1]), lookup, self.build(e[3]))
            return L.switch(self.build(e[1]), lookup)
        if k == "case":
            c = L.case(self.build(e[1]))
            for cond, r in e[2]:
                c = c.when(self.build(cond), self.build(r))
            if e[3] is not None:
                c = c.otherwise(self.build(e[3]))
            return c
        if k == "coalesce":
            return L.Coalesce(*[self.build(x) for x in e[1]])
        if k == "iter":
            return L.Iter(*[self.build(x) for x in e[1]])
        if k == "list":
            return L.evaluatable_list(*[self.build(x) for x in e[1]])
        if k == "tuple":
            return L.evaluatable_tuple(*[self.build(x) for x in e[1]])
        if k == "dict":
            return L.evaluatable_dict({py_value(v): self.build(x) for v, x in e[1]})
        if k == "map":
            return L.Map(self.build(e[1]), {key_text(kk): self.build(x) for kk, x in e[2]})
        if k == "tolist":
            return self.build(e[1]).apply(list)
        if k == "with":
            return L.WithOptions(self.build(e[3]), py_json(e[2]), force=e[1])
        if k == "cached":
            from labrea.cache import NoCache
            return L.cached(self.build(e[2]), self.w.cache(e[1]) if e[1] is not None else NoCache())
        if k == "call":
            from labrea.application import FunctionApplication
            f = self.w.kwfn(e[1], len(e[2]))
            return FunctionApplication(f, **{f"a{i}": self.build(x) for i, x in enumerate(e[2])})
        if k == "pstep":
            from labrea.application import PartialApplication
            from labrea.pipeline import PipelineStep
            f = self.w.kwfn(e[1], len(e[2]), first_positional=True)
            return PipelineStep(PartialApplication(f, **{f"a{i}": self.build(x) for i, x in enumerate(e[2])}), f"step{e[1]}")
        if k == "template":
            return L.Template(str_text(e[1]), **{f"p{p}": self.build(x) for p, x in e[2]})
        if k == "comp":
            from labrea.computation import CallbackEffect, ChainedEffect, Computation
            return Computation(self.build(e[1]), ChainedEffect(*[CallbackEffect(self.build(x)) for x in e[2]]))
        if k == "logged":
            from labrea.logging import Logged
            return Logged(self.build(e[1]), pylogging.INFO, "labrea.verif", "msg")
        if k == "pipe":
            from labrea.pipeline import Pipeline
            p = Pipeline()
            for s in e[1]:
                p = p + self.build(s)
            return p
        if k == "alloptions":
            return L.AllOptions
        if k == "dataset":
            return self.dataset(e[1])
        raise TypeError(e)


# ----------------------------------------------------------------------------- printing Gallina

class CoqPrinter:
    def __init__(self, env):
        self.env = env

    def opt(self, e):
        return "None" if e is None else f"(Some {self.expr(e)})"

    def exprs(self, es):
        return "[" + "; ".join(self.expr(x) for x in es) + "]"

    def table(self, tbl):
        return "[" + "; ".join(f"({coq_value(v)}, {self.expr(x)})" for v, x in tbl) + "]"

    def dsrec(self, dsid):
        d = self.env[dsid]
        if d.get("derived") is not None:
            base = self.dsrec(d["derived"])
            fn = "ds_with_options" if d["how"] == "with_options" else "ds_with_default_options"
            return f"({fn} {base} {coq_dict(d['preset'])})"
        disp = self.expr(d["dispatch"]) if d.get("dispatch") is not None else "no_dispatch"
        # Overloaded.lookup: a re-registered alias replaces the old one; model picks the first match
        tbl = list(reversed(d.get("overloads", [])))
        dflt = "None" if d.get("abstract") else f"(Some (body {d['fid']}%N {self.exprs(d.get('kwargs', []))}))"
        if d.get("callback") is not None:
            cb = f"(EPipe [{self.expr(d['callback'])}])"
        else:
            cb = "empty_callback"
        cache = f"(CMem {self.cache_id(dsid)}%N)" if d.get("cache", "mem") == "mem" else "CNone"
        return ("{| ds_dispatch := %s; ds_table := %s; ds_default := %s; ds_callback := %s; ds_effects := %s; "
                "ds_effects_disabled := %s; ds_cache := %s; ds_options := %s; ds_default_options := %s |}" % (
                    disp, self.table(tbl), dflt, cb, self.exprs(d.get("effects", [])),
                    "true" if d.get("effects_disabled") else "false", cache,
                    coq_dict(d.get("options") or {}), coq_dict(d.get("default_options") or {})))

    def cache_id(self, dsid):
        d = self.env[dsid]
        while d.get("derived") is not None:
            dsid = d["derived"]
            d = self.env[dsid]
        return dsid

    def expr(self, e):
        k = e[0]
        if k == "value":
            return f"(EValue {coq_value(e[1])})"
        if k == "fnvalue":
            return f"(EValue (VF {e[1]}%N [] []))"
        if k == "option":
            return f"(EOption {coq_key(e[1])} {self.opt(e[2])} {self.opt(e[3])})"
        if k == "apply":
            return f"(EApply {self.expr(e[1])} {self.expr(e[2])})"
        if k == "bind":
            return f"(EBind {self.expr(e[1])} {self.table(e[2])} {self.opt(e[3])})"
        if k == "switch":
            return f"(ESwitch {self.expr(e[1])} {self.table(e[2])} {self.opt(e[3])})"
        if k == "case":
            cs = "[" + "; ".join(f"({self.expr(c)}, {self.expr(r)})" for c, r in e[2]) + "]"
            return f"(ECase {self.expr(e[1])} {cs} {self.opt(e[3])})"
        if k == "coalesce":
            return f"(ECoalesce {self.exprs(e[1])})"
        if k == "iter":
            return f"(EIter {self.exprs(e[1])})"
        if k == "list":
            return f"(elist {self.exprs(e[1])})"
        if k == "tuple":
            return f"(etuple {self.exprs(e[1])})"
        if k == "dict":
            return f"(edict {self.table(e[1])})"
        if k == "map":
            its = "[" + "; ".join(f"({coq_key(kk)}, {self.expr(x)})" for kk, x in e[2]) + "]"
            return f"(EMap {self.expr(e[1])} {its})"
        if k == "tolist":
            return f"(EApply {self.expr(e[1])} (EValue (VF B_LIST [] [])))"
        if k == "with":
            return f"(EWith {'true' if e[1] else 'false'} {coq_dict(e[2])} {self.expr(e[3])})"
        if k == "cached":
            c = f"(CMem {e[1]}%N)" if e[1] is not None else "CNone"
            return f"(ECached {c} {self.expr(e[2])})"
        if k == "call":
            return f"(body {e[1]}%N {self.exprs(e[2])})"
        if k == "pstep":
            return f"(pstep {e[1]}%N {self.exprs(e[2])})"
        if k == "template":
            ps = "[" + "; ".join(f"({p}%N, {self.expr(x)})" for p, x in e[2]) + "]"
            return f"(ETemplate {coq_str(e[1])} {ps})"
        if k == "comp":
            return f"(EComp {self.expr(e[1])} {self.exprs(e[2])})"
        if k == "logged":
            return f"(ELogged {self.expr(e[1])})"
        if k == "pipe":
            return f"(EPipe {self.exprs(list(reversed(e[1])))})"
        if k == "alloptions":
            return "EAllOptions"
        if k == "dataset":
            return f"(dataset_expr {self.dsrec(e[1])})"
        raise TypeError(e)


METH = {"evaluate": "MEval", "validate": "MValidate", "keys": "MKeys", "explain": "MExplain"}


def coq_scenario(scn):
    """scn = dict(ftable, env, exprs, ops=[(meth, idx, cache_ctx, log_ctx, options)]) -> Coq string expr"""
    pr = CoqPrinter(scn["env"])
    es = "[" + "; ".join(pr.expr(e) for e in scn["exprs"]) + "]"
    ops = "[" + "; ".join(
        "{| op_meth := %s; op_expr := %d%%nat; op_cfg := {| cache_ctx_off := %s; log_ctx_off := %s |}; op_opts := %s |}" % (
            METH[m], i, "true" if cc else "false", "true" if lc else "false", coq_dict(o))
        for (m, i, cc, lc, o) in scn["ops"]) + "]"
    return f"run_scenario {coq_ftable(scn['ftable'])} {es} {ops}"


# ----------------------------------------------------------------------------- running the implementation

def classify(exc):
    """(cause string, is-EvaluationError) with the same vocabulary as EvalRun.show_cause"""
    from labrea.exceptions import EvaluationError, InsufficientInformationError, KeyNotFoundError
    from labrea.conditional import CaseWhenError, SwitchError
    ee = isinstance(exc, EvaluationError)
    if isinstance(exc, InsufficientInformationError):
        return "insuff", ee
    chain = []
    x = exc
    seen = set()
    while x is not None and id(x) not in seen:
        seen.add(id(x))
        chain.append(x)
        x = x.__cause__
    cause = "other"
    for x in chain:     # the deepest classified exception wins
        if hasattr(x, "labrea_verif_n"):
            cause = f"user({x.labrea_verif_n})"
        elif isinstance(x, KeyNotFoundError):
            try:
                cause = f"key({key_text(parse_key(x.key))})"
            except Exception:
                cause = f"key(?{x.key})"
        elif isinstance(x, SwitchError):
            cause = "switch"
        elif isinstance(x, CaseWhenError):
            cause = "case"
        elif isinstance(x, InsufficientInformationError):
            cause = "insuff"
        elif isinstance(x, RecursionError):
            cause = "fuel"
        elif isinstance(x, ValueError):
            cause = "domain"
        elif isinstance(x, TypeError):
            cause = "type"
        elif isinstance(x, KeyError) and cause.startswith("key("):
            pass        # KeyNotFoundError raised from the raw KeyError under it
        elif isinstance(x, EvaluationError):
            pass
        else:
            cause = f"other({type(x).__name__})"
    return cause, ee


class _LogCapture(pylogging.Handler):
    def __init__(self, world):
        super().__init__(level=pylogging.DEBUG)
        self.world = world

    def emit(self, record):
        self.world.calls.append("emit")


def run_impl(scn, want_objects=False, raw_out=None):
    """returns the list of observation lines (one per op), same format as EvalRun.run_op"""
    import labrea.cache
    import labrea.logging
    from labrea.logging import LogRequest
    from labrea import runtime
    w = World(scn["ftable"])
    b = Builder(w, scn["env"])
    objs = [b.build(e) for e in scn["exprs"]]
    cap = _LogCapture(w)
    root = pylogging.getLogger()
    old_level = root.level
    root.addHandler(cap)
    root.setLevel(pylogging.DEBUG)
    lines = []
    default_log = runtime._DEFAULT_HANDLERS[LogRequest]
    try:
        for (m, i, cc, lc, o) in scn["ops"]:
            po = py_json(o)
            w.calls.clear()

            def rec_log(req, _w=w):
                _w.calls.append("log")
                return runtime.current_runtime().run(req) if False else default_log(req)
            ctxs = []
            if cc:
                ctxs.append(labrea.cache.disabled)
            if lc:
                ctxs.append(labrea.logging.disabled)
            import contextlib
            with contextlib.ExitStack() as st:
                # the recording handler is the outermost context so that logging.disabled()
                # (entered after it) replaces it: then no request reaches the recorder either,
                # which is not what we want -> record by wrapping the *current* handler instead
                rt = runtime.current_runtime()
                for c in ctxs:
                    st.enter_context(c())
                inner = runtime.current_runtime().handlers.get(LogRequest, default_log)

                def rec(req, _inner=inner, _w=w):
                    _w.calls.append("log")
                    return _inner(req)
                st.enter_context(runtime.handle(LogRequest, rec))
                obj = objs[i]
                raw = None
                try:
                    if m == "evaluate":
                        raw = force(obj.evaluate(po))
                        r = "ok:" + show(raw)
                    elif m == "validate":
                        obj.validate(po)
                        r = "ok:()"
                    elif m == "keys":
                        r = "ok:" + show_keys(obj.keys(po))
                    else:
                        r = "ok:" + show_keys(obj.explain(po))
                except RecursionError:
                    r = "err:fuel:F"
                except Exception as exc:  # noqa
                    c, ee = classify(exc)
                    r = f"err:{c}:{'T' if ee else 'F'}"
            lines.append(canon_names(r + "|" + " ".join(w.calls)))
            if raw_out is not None:
                raw_out.append(raw)
    finally:
        root.removeHandler(cap)
        root.setLevel(old_level)
    if want_objects:
        return lines, objs, w, b
    return lines
