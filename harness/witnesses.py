"""Concrete witness scenarios of the recorded findings on the expression core (DESIGN.md section 6).
Each is a scenario in the language of core.py; `fails_at` is the op whose outcome differs from
the property's yardstick."""
from core import S, lit
from gen import K


def opt(k, d=None, dom=None):
    return ("option", k, d, dom)


def val(j):
    return ("value", ("j", j))


A, B, T, P, Z, X = 10, 11, 12, 13, 14, 15

WITNESSES = {
    # keys read inside a failed attempt are reported nowhere (coalesce member / switch dispatch)
    "D19": dict(
        what="cached(Coalesce(switch(Option('A',2), {1: Option('B'), 2: 'c'}), 'd')): {'A':1} -> 'd', then {} -> stale 'd' (uncached 'c')",
        scn=dict(ftable={}, env={}, exprs=[("cached", 50, ("coalesce", [
            ("switch", opt(K(A), val(2)), [(("j", 1), opt(K(B))), (("j", 2), val(lit("c")))], None), val(lit("d"))]))],
            ops=[("evaluate", 0, False, False, {A: 1}), ("evaluate", 0, False, False, {})]),
        fails_at=1),
    # templated strings inside containers are resolved by evaluate but invisible to keys()
    "D1": dict(
        what="@dataset d(a=Option('A')): {'A':['{B}'],'B':1} -> [1], then {'A':['{B}'],'B':2} -> stale [1]",
        scn=dict(ftable={100: ("first",)}, env={1: dict(fid=100, kwargs=[opt(K(A))])}, exprs=[("dataset", 1)],
                 ops=[("evaluate", 0, False, False, {A: [S(("ref", K(B)))], B: 1}),
                      ("evaluate", 0, False, False, {A: [S(("ref", K(B)))], B: 2})]),
        fails_at=1),
    # case-when condition expressions' keys are omitted
    "D3": dict(
        what="cached(case(Option('A')).when(<predicate built from Option('T')>, 'big').otherwise('small')): {'A':5,'T':5} -> 'big', then {'A':5,'T':7} -> stale 'big'",
        scn=dict(ftable={101: ("eq2",)}, env={}, exprs=[("cached", 50, ("case", opt(K(A)), [
            (("pstep", 101, [opt(K(T))]), val(lit("big")))], val(lit("small"))))],
            ops=[("evaluate", 0, False, False, {A: 5, T: 5}), ("evaluate", 0, False, False, {A: 5, T: 7})]),
        fails_at=1),
    # an Option's domain expression's keys are omitted
    "D4": dict(
        what="cached(Option('A', domain=Option('ALLOWED'))): {'A':1,'ALLOWED':[1,2]} -> 1, then {'A':1,'ALLOWED':[5]} -> 1 (uncached: domain error)",
        scn=dict(ftable={}, env={}, exprs=[("cached", 50, opt(K(A), None, opt(K(P))))],
                 ops=[("evaluate", 0, False, False, {A: 1, P: [1, 2]}), ("evaluate", 0, False, False, {A: 1, P: [5]})]),
        fails_at=1),
    # effects read options that are in no fingerprint
    "D9": dict(
        what="@dataset(effects=[step(prefix=Option('PREFIX'))]) e(a=Option('A')): {'A':1,'PREFIX':1} stored, then {'A':1} returns the stored value (uncached: missing PREFIX)",
        scn=dict(ftable={100: ("tag",), 101: ("tag",)},
                 env={1: dict(fid=100, kwargs=[opt(K(A))], effects=[("pstep", 101, [opt(K(P))])])},
                 exprs=[("dataset", 1)],
                 ops=[("evaluate", 0, False, False, {A: 1, P: 1}), ("evaluate", 0, False, False, {A: 1})]),
        fails_at=1),
    # the effects switch is consulted by every Computation and is part of no fingerprint
    "D24": dict(
        what="@dataset(effects=[<raises>]) d(a=Option('A')): {'A':1,'LABREA':{'EFFECTS':{'DISABLED':True}}} -> value stored (effect skipped), then {'A':1} -> the stored value is served although the uncached evaluation fails in the effect",
        scn=dict(ftable={100: ("tag",), 101: ("raise", 3)},
                 env={1: dict(fid=100, kwargs=[opt(K(A))], effects=[("fnvalue", 101)])},
                 exprs=[("dataset", 1)],
                 ops=[("evaluate", 0, False, False, {A: 1, 1: {5: {3: True}}}), ("evaluate", 0, False, False, {A: 1})]),
        fails_at=1),
    # a caller's non-section value that overlays a yielding pre-set section away is reported by no keys()
    "D26": dict(
        what="cached(WithOptions(Option('S.X', default=9), {'S': {'X': 1}}, force=False)): {'S': []} -> 9 (the caller's list replaces the pre-set section, S.X is absent, the default is used; keys() = {}), then {} -> the stored 9 is served although the uncached evaluation yields the pre-set 1",
        scn=dict(ftable={}, env={},
                 exprs=[("cached", 50, ("with", False, {20: {21: 1}}, opt(K(20, 21), val(9))))],
                 ops=[("evaluate", 0, False, False, {20: []}), ("evaluate", 0, False, False, {})]),
        fails_at=1),
    # a cached lazily evaluated iterable: the cache keeps the generator object, exhausted by its first consumer
    "D21": dict(
        what="cached(Map(Option('A'), {'B': [1, 2]})) on {'A':0}: first evaluation yields two pairs, the second (cache hit) yields [] (the stored generator is exhausted)",
        scn=dict(ftable={}, env={}, exprs=[("cached", 50, ("map", opt(K(A)), [(K(B), val([1, 2]))]))],
                 ops=[("evaluate", 0, False, False, {A: 0}), ("evaluate", 0, False, False, {A: 0})]),
        fails_at=1),
}

# Scenarios of defects that were repaired by fix: commits (known_findings.json, status "fixed").
# They suppress nothing: they run first on every check of the properties they concern and must pass.
S_, SX_, SY_ = 20, 21, 22
FIXED = {
    "D2": dict(  # fix f469561
        props=["C01", "C03", "C08"],
        scn=dict(ftable={100: ("first",), 101: ("tag",)},
                 env={1: dict(fid=100, kwargs=[opt(K(S_))], options={S_: {SX_: 1}}),
                      2: dict(fid=101, kwargs=[("dataset", 1)])},
                 exprs=[("dataset", 2), ("dataset", 1)],
                 ops=[("evaluate", 0, False, False, {S_: {SY_: 2}}), ("evaluate", 0, False, False, {S_: {SY_: 3}}),
                      ("keys", 0, False, False, {S_: {SY_: 3}}), ("explain", 0, False, False, {}),
                      ("evaluate", 1, False, False, {S_: {SY_: 3}}), ("evaluate", 0, False, False, {}),
                      ("keys", 0, False, False, {}), ("evaluate", 0, False, False, {S_: {SX_: 5}}),
                      ("keys", 0, False, False, {S_: {SX_: 5}}), ("keys", 0, False, False, {S_: {SX_: 1}})])),
    "D2b": dict(  # same root cause through default options and a WithOptions wrapper
        props=["C01", "C03", "C08"],
        scn=dict(ftable={100: ("first",)}, env={},
                 exprs=[("cached", 50, ("with", True, {S_: {SX_: 1}}, opt(K(S_)))),
                        ("cached", 51, ("with", False, {S_: {SX_: 1}}, opt(K(S_))))],
                 ops=[("evaluate", 0, False, False, {S_: {SY_: 2}}), ("evaluate", 0, False, False, {S_: {SY_: 3}}),
                      ("keys", 0, False, False, {S_: {SY_: 3}}),
                      ("evaluate", 1, False, False, {S_: {SY_: 2}}), ("evaluate", 1, False, False, {S_: {SY_: 3}}),
                      ("evaluate", 1, False, False, {}), ("keys", 1, False, False, {}),
                      ("keys", 1, False, False, {S_: {SY_: 3}})])),
    "D8": dict(  # fix 3f28b1e
        props=["C01", "C08", "C07"],
        scn=dict(ftable={100: ("tag",), 101: ("tag",)},
                 env={1: dict(fid=100, kwargs=[opt(K(A))], callback=("pstep", 101, [])),
                      2: dict(derived=1, how="with_options", preset={Z: 1}),
                      3: dict(derived=1, how="with_default_options", preset={A: 7})},
                 exprs=[("dataset", 1), ("dataset", 2), ("dataset", 3)],
                 ops=[("evaluate", 1, False, False, {A: 1}), ("evaluate", 0, False, False, {A: 1}),
                      ("evaluate", 0, False, False, {A: 2}), ("evaluate", 1, False, False, {A: 2}),
                      ("evaluate", 2, False, False, {}), ("evaluate", 2, False, False, {A: 3}),
                      ("evaluate", 0, False, False, {A: 7})])),
    "D5": dict(  # fix 634ec72
        props=["C04", "C06", "C10", "C11", "C12", "C01"],
        scn=dict(ftable={100: ("tag",)}, env={},
                 exprs=[opt(K(A), val(5)), opt(K(A)), opt(K(A), ("call", 100, []))],
                 ops=[("evaluate", 0, False, False, {A: S(("ref", K(B)))}), ("evaluate", 1, False, False, {A: S(("ref", K(B)))}),
                      ("validate", 0, False, False, {A: S(("ref", K(B)))}), ("keys", 0, False, False, {A: S(("ref", K(B)))}),
                      ("explain", 0, False, False, {A: S(("ref", K(B)))}), ("evaluate", 2, False, False, {A: S(("ref", K(B)))}),
                      ("evaluate", 0, False, False, {A: S(("ref", K(B))), B: 3}), ("evaluate", 0, False, False, {})])),
    "D25": dict(  # fix 6884003: a pre-set key overlaid away by the caller's non-section value is listed by explain
        props=["C11", "C10", "C08", "C01", "C03"],
        scn=dict(ftable={100: ("tag",)},
                 env={1: dict(fid=100, kwargs=[opt(K(S_, SX_))], default_options={S_: {SX_: 1}})},
                 exprs=[("with", False, {S_: {SX_: 1}}, opt(K(S_, SX_))), ("dataset", 1),
                        ("with", False, {S_: {SX_: 1}}, opt(K(S_, SX_), val(9)))],
                 ops=[("explain", 0, False, False, {S_: []}), ("validate", 0, False, False, {S_: []}),
                      ("keys", 0, False, False, {S_: []}), ("evaluate", 0, False, False, {S_: []}),
                      ("explain", 0, False, False, {S_: [5]}), ("explain", 0, False, False, {}),
                      ("explain", 0, False, False, {S_: {SY_: 2}}), ("explain", 0, False, False, {S_: {SX_: 7}}),
                      ("explain", 1, False, False, {S_: []}), ("validate", 1, False, False, {S_: []}),
                      ("evaluate", 1, False, False, {}), ("explain", 2, False, False, {S_: []}),
                      ("evaluate", 2, False, False, {S_: []})])),
}


def corpus_for(pid):
    return [(name, w["scn"]) for name, w in FIXED.items() if pid in w["props"]]
