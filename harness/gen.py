"""Random / enumerated scenario generators for the expression core (see core.py for the language).
All randomness comes from the Random instance passed in."""
from core import S, lit

FLAT = [10, 11, 12]
SEC, SX, SY = 20, 21, 22
DEEP = (23, 24, 25)
LST = 30


def K(*a):
    return tuple(("n", x) if isinstance(x, int) else ("i", int(x[1:])) for x in a)


KEYS = [K(10), K(11), K(12), K(SEC, SX), K(SEC, SY), K(SEC), K(*DEEP), K(LST, "i0"), K(LST, "i1"), K(LST)]
SCALARS = [None, True, False, 0, 1, 2, 5, lit(""), lit("a"), lit("b")]


def rand_scalar(rng):
    return rng.choice(SCALARS)


REF_ORDER = [K(10), K(11), K(12), K(SEC, SX), K(SEC, SY), K(*DEEP)]


def rank_of(key):
    """rank of the option key a templated value is stored under: it may only reference keys of
    higher rank, so that reference chains are acyclic (cyclic chains blow up in Python)"""
    return REF_ORDER.index(key) if key in REF_ORDER else len(REF_ORDER)


def rand_templ(rng, min_rank=-1):
    """a templated string referencing flat / nested keys of rank > min_rank"""
    refs = REF_ORDER[min_rank + 1:]
    if not refs:
        return rand_scalar(rng)
    r = rng.random()
    if r < 0.45:
        return S(("ref", rng.choice(refs)))
    toks = []
    for _ in range(rng.randint(1, 3)):
        c = rng.random()
        if c < 0.45:
            toks.append(("ref", rng.choice(refs)))
        elif c < 0.9:
            toks.append(("lit", rng.choice("abxy/_ ")))
        elif c < 0.95:
            toks.append(("escl",))
        else:
            toks.append(("escr",))
    if not any(t[0] == "ref" for t in toks):
        toks.append(("ref", rng.choice(refs)))
    return S(*toks)


def rand_leafval(rng, templ_p=0.12, at=None):
    r = rng.random()
    if r < templ_p:
        return rand_templ(rng, rank_of(at) if at is not None else len(REF_ORDER))
    return rand_scalar(rng)


def rand_options(rng, templ_p=0.12, containers=True):
    """a JSON options dictionary over the key universe (atoms as dict keys)"""
    o = {}
    for k in FLAT:
        if rng.random() < 0.6:
            r = rng.random()
            if containers and r < 0.08:
                o[k] = [rand_scalar(rng) for _ in range(rng.randint(0, 3))]
            elif containers and r < 0.12:
                o[k] = {SX: rand_scalar(rng)}
            else:
                o[k] = rand_leafval(rng, templ_p, K(k))
    if rng.random() < 0.6:
        sec = {}
        if rng.random() < 0.65:
            sec[SX] = rand_leafval(rng, templ_p, K(SEC, SX))
        if rng.random() < 0.5:
            sec[SY] = rand_leafval(rng, templ_p, K(SEC, SY))
        o[SEC] = sec
    if rng.random() < 0.35:
        o[DEEP[0]] = {DEEP[1]: {DEEP[2]: rand_leafval(rng, templ_p, K(*DEEP))}} if rng.random() < 0.8 else {DEEP[1]: {}}
    if rng.random() < 0.4:
        o[LST] = [rand_scalar(rng) for _ in range(rng.randint(0, 3))]
    if rng.random() < 0.5:   # shuffle top-level order
        items = list(o.items())
        rng.shuffle(items)
        o = dict(items)
    return o


def rand_preset(rng):
    """a small pre-set / default dictionary overlapping the universe inside sections"""
    p = {}
    r = rng.random()
    if r < 0.35:
        p[rng.choice(FLAT)] = rand_scalar(rng)
    elif r < 0.75:
        p[SEC] = {rng.choice([SX, SY]): rand_scalar(rng)}
    elif r < 0.85:
        p[SEC] = {SX: rand_scalar(rng), SY: rand_scalar(rng)}
    elif r < 0.93:
        p[DEEP[0]] = {DEEP[1]: {DEEP[2]: rand_scalar(rng)}}
    else:
        p[rng.choice(FLAT)] = rand_scalar(rng)
        p[SEC] = {SX: rand_scalar(rng)}
    return p


DISPATCH_VALS = [1, 2, lit("a"), lit("b"), None]


class Gen:
    def __init__(self, rng, *, with_presets=True, with_templates=True, with_map=True, with_effects=True,
                 with_alloptions=False, with_domains=True, with_failing=True, with_lists=True, max_ds=4,
                 preset_on_ds=0.3):
        self.rng = rng
        self.f = dict(with_presets=with_presets, with_templates=with_templates, with_map=with_map,
                      with_effects=with_effects, with_alloptions=with_alloptions, with_domains=with_domains,
                      with_failing=with_failing, with_lists=with_lists)
        self.max_ds = max_ds
        self.preset_on_ds = preset_on_ds
        self.ftable = {}
        self.env = {}
        self.next_f = 100
        self.next_c = 50
        self.kinds = {}

    def note(self, k):
        self.kinds[k] = self.kinds.get(k, 0) + 1

    def newf(self, desc=("tag",)):
        f = self.next_f
        self.next_f += 1
        self.ftable[f] = desc
        return f

    def body_fid(self):
        rng = self.rng
        if self.f["with_failing"] and rng.random() < 0.12:
            return self.newf(("tag_raise_on", ("j", rng.choice([5, lit("b"), None])), rng.randint(1, 7)))
        if self.f["with_failing"] and rng.random() < 0.03:
            return self.newf(("raise", rng.randint(1, 7)))
        return self.newf(("tag",))

    # ---- leaves
    def option(self, depth=0):
        rng = self.rng
        keys = KEYS if self.f["with_lists"] else KEYS[:7]
        k = rng.choice(keys)
        r = rng.random()
        dflt = None
        if r < 0.25:
            dflt = ("value", ("j", rand_scalar(rng)))
        elif r < 0.32 and self.f["with_templates"]:
            dflt = ("template", rand_templ(rng).toks, [])
        elif r < 0.40 and depth < 3:
            dflt = self.option(depth + 1)
        elif r < 0.44 and self.env and depth < 3:
            dflt = ("dataset", rng.choice(list(self.env)))
        dom = None
        if self.f["with_domains"] and rng.random() < 0.1:
            if rng.random() < 0.6:
                dom = ("value", ("j", [0, 1, 2, lit("a"), None]))
            else:
                dom = ("fnvalue", self.newf(("in", [("j", 0), ("j", 1), ("j", 2), ("j", lit("a")), ("j", True)])))
        self.note("option")
        return ("option", k, dflt, dom)

    def leaf(self):
        rng = self.rng
        r = rng.random()
        if r < 0.55:
            return self.option()
        if r < 0.75 and self.env:
            self.note("dataset_ref")
            return ("dataset", rng.choice(list(self.env)))
        if r < 0.78 and self.f["with_alloptions"]:
            self.note("alloptions")
            return ("alloptions",)
        self.note("value")
        return ("value", ("j", rand_scalar(rng)))

    def chooser(self, depth):
        """an expression whose value is a hashable scalar (dispatch position)"""
        rng = self.rng
        r = rng.random()
        if r < 0.5:
            k = rng.choice([K(10), K(11), K(12), K(SEC, SX)])
            dflt = ("value", ("j", rng.choice(DISPATCH_VALS))) if rng.random() < 0.4 else None
            return ("option", k, dflt, None)
        if r < 0.6 and self.f["with_domains"]:
            return ("option", rng.choice([K(10), K(11)]), ("value", ("j", 1)),
                    ("value", ("j", [1, 2, lit("a")])))
        if r < 0.7:
            f = self.newf(("first",))
            return ("call", f, [("option", rng.choice([K(10), K(11)]), ("value", ("j", 1)) if rng.random() < 0.5 else None, None)])
        if r < 0.8:
            return ("value", ("j", rng.choice(DISPATCH_VALS)))
        return self.option()

    def fnexpr(self):
        """an expression evaluating to a unary callable"""
        rng = self.rng
        r = rng.random()
        if r < 0.5:
            return ("fnvalue", self.body_fid())
        if r < 0.85:
            n = rng.randint(0, 2)
            self.note("pstep")
            return ("pstep", self.body_fid(), [self.option() for _ in range(n)])
        self.note("pipe")
        return ("pipe", [("pstep", self.body_fid(), [self.option() for _ in range(rng.randint(0, 1))])
                         for _ in range(rng.randint(0, 3))])

    def expr(self, depth, root=False):
        rng = self.rng
        if depth <= 0 or rng.random() < 0.25:
            return self.leaf()
        r = rng.random()
        d = depth - 1
        if r < 0.12:
            self.note("apply")
            return ("apply", self.expr(d), self.fnexpr())
        if r < 0.20:
            self.note("bind")
            vals = rng.sample(DISPATCH_VALS, rng.randint(1, 2))
            dflt = self.expr(d) if rng.random() < 0.7 else None
            return ("bind", self.chooser(d), [(("j", v), self.expr(d)) for v in vals], dflt)
        if r < 0.34:
            self.note("switch")
            vals = rng.sample(DISPATCH_VALS, rng.randint(1, 3))
            dflt = self.expr(d) if rng.random() < 0.6 else None
            return ("switch", self.chooser(d), [(("j", v), self.expr(d)) for v in vals], dflt)
        if r < 0.42:
            self.note("case")
            cases = []
            for _ in range(rng.randint(1, 2)):
                c = rng.random()
                if c < 0.45:
                    pred = ("fnvalue", self.newf(("eq", ("j", rng.choice(DISPATCH_VALS)))))
                elif c < 0.8:
                    pred = ("fnvalue", self.newf(("in", [("j", v) for v in rng.sample(DISPATCH_VALS, 2)])))
                elif c < 0.9:
                    pred = ("fnvalue", self.newf(("truthy",)))
                else:   # option-valued condition (finding D3 zone)
                    pred = ("pstep", self.newf(("eq", ("j", 1))), [])
                cases.append((pred, self.expr(d)))
            dflt = self.expr(d) if rng.random() < 0.6 else None
            return ("case", self.chooser(d), cases, dflt)
        if r < 0.52:
            self.note("coalesce")
            return ("coalesce", [self.expr(d) for _ in range(rng.randint(1, 3))])
        if r < 0.60:
            self.note("collection")
            kind = rng.choice(["list", "tuple", "dict"])
            if kind == "dict":
                vals = rng.sample([1, 2, lit("a"), lit("b")], rng.randint(1, 2))
                return ("dict", [(("j", v), self.expr(d)) for v in vals])
            return (kind, [self.expr(d) for _ in range(rng.randint(0, 3))])
        if r < 0.66 and self.f["with_map"]:
            self.note("map")
            its = []
            for kk in rng.sample([K(10), K(11), K(SEC, SX), K(SEC, SY)], rng.randint(1, 2)):
                if rng.random() < 0.6:
                    its.append((kk, ("value", ("j", [rand_scalar(rng) for _ in range(rng.randint(0, 2))]))))
                else:
                    its.append((kk, ("option", K(LST), ("value", ("j", [1, 2])) if rng.random() < 0.5 else None, None)))
            m = ("map", self.expr(d), its)
            # a bare Map is a generator: consumed lazily, so effects of later siblings would come
            # first; keep bare ones at the root only, elsewhere consume at once (.apply(list))
            return m if (root and rng.random() < 0.6) else ("tolist", m)
        if r < 0.74 and self.f["with_presets"]:
            self.note("with")
            return ("with", rng.random() < 0.5, rand_preset(rng), self.expr(d))
        if r < 0.80:
            self.note("cached")
            c = self.next_c
            self.next_c += 1
            return ("cached", c if rng.random() < 0.9 else None, self.expr(d))
        if r < 0.88:
            self.note("call")
            return ("call", self.body_fid(), [self.expr(d) for _ in range(rng.randint(0, 3))])
        if r < 0.94 and self.f["with_templates"]:
            self.note("template")
            toks = list(rand_templ(rng).toks)
            ps = []
            if rng.random() < 0.5:
                toks.insert(rng.randint(0, len(toks)), ("par", 1))
                pe = rng.choice([self.option(), ("value", ("j", rand_scalar(rng))),
                                 ("call", self.newf(("first",)), [self.option()])])
                ps = [(1, pe)]
            return ("template", tuple(toks), ps)
        return self.leaf()

    # ---- datasets
    def dataset(self, dsid):
        rng = self.rng
        d = dict(fid=self.body_fid(), kwargs=[self.expr(1) if rng.random() < 0.3 else self.leaf()
                                              for _ in range(rng.randint(0, 3))])
        if rng.random() < 0.35:
            d["dispatch"] = self.chooser(1)
            d["overloads"] = []
            for v in rng.sample(DISPATCH_VALS, rng.randint(1, 2)):
                impl = rng.choice([self.leaf(), ("call", self.body_fid(), [self.leaf() for _ in range(rng.randint(0, 2))])])
                d["overloads"].append((("j", v), impl))
            if rng.random() < 0.2:
                d["abstract"] = True
        if self.f["with_presets"] and rng.random() < self.preset_on_ds:
            d["options"] = rand_preset(rng)
        if self.f["with_presets"] and rng.random() < self.preset_on_ds:
            d["default_options"] = rand_preset(rng)
        if rng.random() < 0.2:
            d["callback"] = ("pstep", self.newf(("tag",)), [])
        if self.f["with_effects"] and rng.random() < 0.15:
            d["effects"] = [("pstep", self.newf(("tag",)), [])]
            if rng.random() < 0.2:
                d["effects_disabled"] = True
        if rng.random() < 0.12:
            d["cache"] = "none"
        self.env[dsid] = d
        self.note("dataset_def")

    def derived(self, dsid, base):
        rng = self.rng
        self.env[dsid] = dict(derived=base, how=rng.choice(["with_options", "with_default_options"]),
                              preset=rand_preset(rng))
        self.note("derived_def")

    def scenario(self, n_exprs=2, depth=3, n_ops=10, methods=("evaluate", "validate", "keys", "explain"),
                 switches=False, dict_pool=None):
        rng = self.rng
        nds = rng.randint(1, self.max_ds)
        for i in range(1, nds + 1):
            if i > 1 and self.f["with_presets"] and rng.random() < 0.12:
                bases = [j for j in self.env if self.env[j].get("derived") is None]
                self.derived(i, rng.choice(bases))
            else:
                self.dataset(i)
        exprs = []
        for _ in range(n_exprs):
            exprs.append(self.expr(depth, root=True) if rng.random() < 0.7 else ("dataset", rng.choice(list(self.env))))
        pool = dict_pool or self.dict_pool()
        ops = []
        for _ in range(n_ops):
            m = rng.choice(methods)
            i = rng.randrange(len(exprs))
            cc = switches and rng.random() < 0.15
            lc = switches and rng.random() < 0.15
            o = dict(rng.choice(pool))
            if switches and rng.random() < 0.25:
                sw = rng.choice([(2, 3), (2, 4), (5, 3), (6, 3)])
                o[1] = {sw[0]: {sw[1]: rng.choice([True, True, False])}}
            ops.append((m, i, cc, lc, o))
        return dict(ftable=dict(self.ftable), env=dict(self.env), exprs=exprs, ops=ops)

    def dict_pool(self):
        """3-5 dictionaries: a base one and adversarial neighbours (one or two keys changed,
        deleted or added; top-level order permuted)"""
        rng = self.rng
        tp = 0.12 if self.f["with_templates"] else 0.0
        base = rand_options(rng, tp, containers=self.f["with_lists"])
        pool = [base, {}]
        for _ in range(rng.randint(1, 3)):
            o = {k: (dict(v) if isinstance(v, dict) else v) for k, v in base.items()}
            for _ in range(rng.randint(1, 2)):
                r = rng.random()
                if r < 0.35 and o:
                    k = rng.choice(list(o))
                    if isinstance(o[k], dict) and o[k] and rng.random() < 0.6:
                        kk = rng.choice(list(o[k]))
                        if rng.random() < 0.5:
                            del o[k][kk]
                        else:
                            o[k][kk] = rand_leafval(rng, tp, K(k, kk))
                    else:
                        del o[k]
                elif r < 0.7:
                    k = rng.choice(FLAT)
                    o[k] = rand_leafval(rng, tp, K(k))
                else:
                    sec = dict(o.get(SEC) or {}) if isinstance(o.get(SEC), dict) else {}
                    kk = rng.choice([SX, SY])
                    sec[kk] = rand_leafval(rng, tp, K(SEC, kk))
                    o[SEC] = sec
            pool.append(o)
        if rng.random() < 0.5:
            items = list(base.items())
            rng.shuffle(items)
            pool.append(dict(items))
        pool.append(rand_options(rng, tp, containers=self.f["with_lists"]))
        return pool
