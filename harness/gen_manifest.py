"""Writes MANIFEST.json from the table below (kept in one place so it stays valid)."""
import json, os
ROOT = os.path.dirname(os.path.dirname(os.path.abspath(__file__)))
ALL = [f"C{i:02d}" for i in range(1, 21)]
# integrated and passing on the unchanged tree (a claim file written by a builder is not enough)
READY = {"C01", "C02", "C03", "C04", "C05", "C06", "C07", "C08", "C09", "C10", "C11", "C12", "C13", "C14", "C15", "C16", "C17", "C18", "C19", "C20"}
CLAIMED = {}
for _f in sorted(os.listdir(os.path.join(ROOT, "harness", "props"))):
    if _f.endswith(".claim.json"):
        if _f.split(".")[0].upper() not in READY:
            continue
        with open(os.path.join(ROOT, "harness", "props", _f)) as _fh:
            CLAIMED[_f.split(".")[0].upper()] = json.load(_fh)
def main():
    checks = []
    for pid in ALL:
        if pid in CLAIMED:
            c = CLAIMED[pid]
            checks.append({
                "property_id": pid,
                "quick_cmd": f"./check {pid} --tier quick",
                "thorough_cmd": f"./check {pid} --tier thorough",
                "evidence_file": f"evidence/{pid}.json",
                "replay_cmd_template": f"./check {pid} --replay {{path}}",
                "engine": "coq-model+correspondence",
                "level_claimed": {"category": "proof", "text": c["text"], "design_ref": c["design"]},
                "level_note": c["note"],
                "technique": c["technique"],
            })
    na = [{"property_id": pid, "reason": "check not built yet in this revision (planned: see DESIGN.md section 5); the technique applies"}
          for pid in ALL if pid not in CLAIMED]
    m = {
        "version": 1,
        "setup_cmd": "./setup.sh",
        "hooks": {"guard": "LABREA_VERIF", "enable": "no instrumentation in /repo is needed; checks import labrea from /repo's working tree (PYTHONPATH=/repo)",
                  "baseline_off_cmd": "cd /repo && /venv/bin/python -m pytest -ra -q -p no:cacheprovider --timeout=900 --continue-on-collection-errors",
                  "source_commits": [], "add_only": True},
        "engines": [
            {"name": "coq-model+correspondence", "path": "coq/ + harness/", "serves_properties": sorted(CLAIMED),
             "kind_free_text": "hand-written Gallina model + theorems (Coq 8.16.1), correspondence check running the model by vm_compute against labrea imported from /repo, property oracle on the implementation"}],
        "checks": checks,
        "not_applicable": na,
        "notes": "See DESIGN.md. known_findings.json and findings/<PID>.json (committed, never written at run time) list recorded findings (status known) and repaired defects (status fixed, with the fix: commit in /repo); seeded/ holds the 120 seeded changes and seeded/DETECTION.md what catches them.",
    }
    with open(os.path.join(ROOT, "MANIFEST.json"), "w") as fh:
        json.dump(m, fh, indent=1)
if __name__ == "__main__":
    main()
