"""Driver: ./check <Cxx> [--tier quick|thorough] [--replay path]

Steps (DESIGN.md section 4): forbidden-word gate, full build of the hand-written theory,
fresh re-check of Properties/<id>.v (Print Assumptions captured), the property's
correspondence + oracle run against /repo's working tree, verdict, evidence.
"""
import argparse
import importlib
import json
import os
import random
import sys
import time
import traceback

import lib


class Ctx:
    def __init__(self, pid, tier, seed, scratch):
        self.pid = pid
        self.tier = tier
        self.seed = seed
        self.rng = random.Random(seed)
        self.scratch = scratch
        self.quick = tier == "quick"

    def coq_eval(self, name, requires, prelude, exprs, **kw):
        return lib.coq_eval_lines(self.scratch, name, requires, prelude, exprs, **kw)


def main():
    ap = argparse.ArgumentParser()
    ap.add_argument("pid")
    ap.add_argument("--tier", default=os.environ.get("VERIF_TIER", "quick"))
    ap.add_argument("--replay", default=None)
    args = ap.parse_args()
    pid = args.pid.upper()
    tier = args.tier if args.tier in ("quick", "thorough") else "quick"
    seed = int(os.environ.get("VERIF_SEED", "20260926"))
    t0 = time.time()
    try:  # a runaway evaluation (e.g. a cyclic template after a mutation) must not eat the machine
        import resource
        resource.setrlimit(resource.RLIMIT_AS, (12 << 30, 12 << 30))
    except Exception:
        pass
    os.chdir(lib.ROOT)
    scratch = lib.Scratch(pid)
    rc = 1
    try:
        rc = run(pid, tier, seed, scratch, args.replay, t0)
    finally:
        scratch.close()
    sys.exit(rc)


def run(pid, tier, seed, scratch, replay, t0):
    mod = importlib.import_module(f"props.{pid.lower()}")
    ctx = Ctx(pid, tier, seed, scratch)

    if replay:
        with open(replay) as fh:
            payload = json.load(fh)
        ok_b, blog = lib.ensure_built(targets=[f"Properties/{pid}.vo"] + list(getattr(mod, "COQ_TARGETS", [])))
        still, detail = mod.replay(ctx, payload)
        print(json.dumps(detail, indent=1, default=str))
        if still:
            print(f"VIOLATION property={pid} replay={replay}")
            return 1
        print(f"replay of {replay}: property holds on this input now")
        return 0

    broken = []  # proof obligations / correspondence that no longer check (names)
    # 1. gates + build + proof obligations
    hits = lib.forbidden_scan()
    if hits:
        broken.append({"what": "forbidden-word gate", "hits": hits[:10]})
    ok_b, blog = lib.ensure_built(targets=[f"Properties/{pid}.vo"] + list(getattr(mod, "COQ_TARGETS", [])))
    if not ok_b:
        broken.append({"what": "theory build failed", "log": blog[-3000:]})
    extra_q = []
    gen = getattr(mod, "generate_tables", None)
    if gen is not None:
        try:
            gdir = gen(ctx)  # writes Generated/*.v into scratch, compiles them, returns dir
            extra_q.append((gdir, "LVG"))
        except Exception as e:  # fail closed
            broken.append({"what": "generated fact table", "error": repr(e)})
    pf = {"obligations": 0, "discharged": 0, "print_assumptions": [], "all_closed": False,
          "theorems": [], "ok": False}
    if True:
        pf = lib.check_property_file(pid, scratch, extra_q=extra_q)
        if not pf["ok"]:
            broken.append({"what": "proof obligation", "theorem": pf.get("failing_theorem"),
                           "file": pf["file"], "error": pf["error"]})

    # 2./3. correspondence and oracle
    rep = None
    try:
        rep = mod.run(ctx)
    except Exception as e:
        tb = traceback.format_exc()
        lib.log(tb)
        broken.append({"what": "harness error", "error": repr(e), "trace": tb[-3000:]})
        rep = {"evaluations": 0, "distinct_nontrivial": 0, "rule": "harness failed", "samples": [],
               "violations": [], "known": [], "correspondence_mismatches": []}

    known_entries = lib.load_known_findings(pid)
    known_ids = {e["id"]: e for e in known_entries if e.get("status") == "known"}

    for mm in rep.get("correspondence_mismatches", []):
        broken.append({"what": "correspondence", **mm})

    new_violations = []
    for v in rep.get("violations", []):
        fid = v.get("finding")
        if fid and fid in known_ids:
            continue
        new_violations.append(v)

    out_lines = []
    for k in rep.get("known", []):
        if k["id"] in known_ids and k.get("still_fails"):
            out_lines.append(f"KNOWN-FINDING: property={pid} {k['id']} {known_ids[k['id']]['what']}")
    for e in known_entries:
        if e.get("status") == "known" and e["id"] not in {k["id"] for k in rep.get("known", [])}:
            # listed but the module has no witness replay for it: say so in evidence
            rep.setdefault("notes", []).append(f"known finding {e['id']} has no witness replay in this module")

    exit_code = 0
    viol_lines = []
    if new_violations:
        for v in new_violations[:5]:
            path = lib.write_replay(pid, {"property": pid, "kind": "failing-input", **v})
            viol_lines.append(f"VIOLATION property={pid} replay={path}")
        exit_code = 1
    elif broken:
        path = lib.write_replay(pid, {"property": pid, "kind": "no-failing-input-found",
                                      "broken": broken})
        viol_lines.append(f"VIOLATION property={pid} replay={path} no-failing-input-found")
        exit_code = 1

    # 5. evidence
    cov = {
        "obligations": pf["obligations"],
        "discharged": pf["discharged"],
        "checker_cmd": f"coqc -Q coq LV coq/Properties/{pid}.v (after full make of coq/; Coq 8.16.1 kernel; vm_compute used for witnesses and case evaluation; no native_compute)",
        "trusted_base": [
            "Coq 8.16.1 kernel (coqc), vm_compute",
            "Print Assumptions: " + ("all theorems closed under the global context" if pf["all_closed"] else "; ".join(pf["print_assumptions"])[:1500] or "none captured"),
            "hand-written Gallina model (coq/Model), tied to /repo by the correspondence run of this check",
            "harness (harness/*.py): scenario generators, canonicalisation, Coq printers",
        ] + list(rep.get("trusted_base", [])),
        "theorems": pf["theorems"],
        "evaluations": int(rep.get("evaluations", 0)),
        "distinct_nontrivial": int(rep.get("distinct_nontrivial", 0)),
        "rule": rep.get("rule", ""),
        "samples": rep.get("samples", [])[:8] or ["(none)"],
        "traces_validated_against_impl": int(rep.get("traces_validated_against_impl", 0)),
        "exhaustive": bool(rep.get("exhaustive", False)),
        "distribution": rep.get("distribution", {}),
        "broken": broken,
        "known_findings_replayed": rep.get("known", []),
        "notes": rep.get("notes", []),
    }
    ev = {
        "property_id": pid,
        "tier": tier,
        "seed": seed,
        "level": "proof",
        "coverage": cov,
        "assumptions": list(rep.get("assumptions", [])),
        "wall_s": round(time.time() - t0, 2),
        "violations": len(new_violations) + (1 if (broken and not new_violations) else 0),
    }
    lib.write_evidence(pid, ev)

    for l in out_lines:
        print(l)
    for l in viol_lines:
        print(l)
    print(f"[{pid}] tier={tier} obligations={pf['obligations']} discharged={pf['discharged']} "
          f"evaluations={cov['evaluations']} distinct_nontrivial={cov['distinct_nontrivial']} "
          f"model-vs-impl={cov['traces_validated_against_impl']} wall={ev['wall_s']}s "
          f"-> {'FAIL' if exit_code else 'ok'}")
    return exit_code


if __name__ == "__main__":
    main()
