"""Shared engine for the properties decided on the expression core (Model/Eval.v):
correspondence run (implementation vs model on the same scenarios) and the tolerant comparison."""
import re

import core
import lib
from core import S

REQ = ["Model.Base", "Model.Template", "Model.Eval", "Model.Derived", "Model.EvalRun"]
COQ_TARGETS = ["Model/EvalRun.vo"]


def dump_scn(scn):
    return repr(scn)


def load_scn(text):
    return eval(text, {"S": S, "__builtins__": {"dict": dict, "True": True, "False": False, "None": None}})


def split(line):
    res, _, ev = line.partition("|")
    return res, ev.split(" ") if ev else []


def strip_ghost(line):
    res, ev = split(line)
    return res + "|" + " ".join(t for t in ev if not t.startswith("dirty"))


def is_dirty(line):
    return any(t.startswith("dirty") for t in split(line)[1])


def _multi_ref(x):
    """does a description contain a template (string or Template node) with >= 2 distinct references"""
    if isinstance(x, S):
        return len({t[1] for t in x.toks if t[0] in ("ref", "par")}) >= 2
    if isinstance(x, tuple) and x and x[0] == "template":
        return len({t[1:] for t in x[1] if t[0] in ("ref", "par")}) >= 2 or any(_multi_ref(y) for y in x[2])
    if isinstance(x, (tuple, list)):
        return any(_multi_ref(y) for y in x)
    if isinstance(x, dict):
        return any(_multi_ref(y) for y in x.values())
    return False


KEYRE = re.compile(r"key\([^)]*\)")


def same(impl, model, multi):
    """tolerant equality of one observation line (ghost events stripped from the model)"""
    m = strip_ghost(model)
    if impl == m:
        return True
    mres = split(m)[0]
    ires = split(impl)[0]
    if "unmod" in mres:
        return True                      # outside the modelled universe
    if mres.startswith("err:fuel") and ires.startswith("err:"):
        return True                      # cyclic reference chain: both fail
    if multi and KEYRE.sub("key(*)", impl) == KEYRE.sub("key(*)", m):
        return True                      # several missing references: Python names one by set order
    if multi and re.match(r"err:(key\([^)]*\)|type):[TF]$", ires) and re.match(r"err:(key\([^)]*\)|type):[TF]$", mres) \
            and split(impl)[1] == split(m)[1]:
        return True                      # ... likewise when one reference is missing and another hits a scalar parent
    return False


def correspondence(ctx, scns, name, shard=30):
    """run scenarios on both sides; returns (impl_lines, model_lines, mismatches, stats)"""
    impls, errors = [], []
    for s in scns:
        impls.append(core.run_impl(s))
    outs = ctx.coq_eval(name, REQ, "", [core.coq_scenario(s) for s in scns], shard=shard)
    models = [o.split(" ## ") for o in outs]
    mism = []
    stats = {"ops": 0, "ok": 0, "err": 0, "unmodelled": 0, "dirty_ops": 0, "cache_hits": 0, "by_cause": {}, "by_method": {}}
    for si, (s, il, ml) in enumerate(zip(scns, impls, models)):
        multi = _multi_ref(s["exprs"]) or _multi_ref(s["env"]) or _multi_ref([op[4] for op in s["ops"]])
        if len(ml) != len(il):
            mism.append(dict(where="Model/Eval.v vs labrea (line count)", scenario_repr=dump_scn(s)))
            continue
        for oi, (op, a, b) in enumerate(zip(s["ops"], il, ml)):
            stats["ops"] += 1
            stats["by_method"][op[0]] = stats["by_method"].get(op[0], 0) + 1
            res = split(a)[0]
            if res.startswith("ok"):
                stats["ok"] += 1
            else:
                stats["err"] += 1
                c = res.split(":")[1].split("(")[0]
                stats["by_cause"][c] = stats["by_cause"].get(c, 0) + 1
            if "unmod" in b:
                stats["unmodelled"] += 1
            if is_dirty(b):
                stats["dirty_ops"] += 1
            if any(t.startswith("get") and t.endswith("T") for t in split(a)[1]):
                stats["cache_hits"] += 1
            if not same(a, b, multi):
                mism.append(dict(where="Model/Eval.v vs labrea", op_index=oi, op=repr(op), impl=a, model=strip_ghost(b),
                                 scenario_repr=dump_scn(s)))
                break
            if "unmod" in split(strip_ghost(b))[0]:
                break      # outside the modelled universe: the two stores may have diverged; stop comparing this history
    return impls, models, mism, stats


def agrees(il, ml, scn, upto=None):
    multi = _multi_ref(scn["exprs"]) or _multi_ref(scn["env"]) or _multi_ref([op[4] for op in scn["ops"]])
    n = len(il) if upto is None else upto + 1
    return len(il) == len(ml) and all(same(a, b, multi) for a, b in list(zip(il, ml))[:n])


def outcome(line):
    """coarse outcome of an observation: the value, or just 'err' (which of several possible causes
    surfaces first legitimately differs between cached and cache-free evaluation)"""
    res = split(line)[0]
    return res if res.startswith("ok:") else "err"


def fresh_eval(scn, idx, options, method="evaluate", disabled=True, raw=False):
    """the property's yardstick: a freshly built copy of the graph, evaluated once, caching disabled"""
    one = dict(scn, exprs=[scn["exprs"][idx]], ops=[(method, 0, disabled, False, options)])
    raws = []
    line = core.run_impl(one, raw_out=raws)[0]
    return (line, raws[0]) if raw else line


def same_outcome(line_a, raw_a, line_b, raw_b):
    """same value (Python ==, so dictionaries compare regardless of key order) or both failing"""
    a_ok, b_ok = split(line_a)[0].startswith("ok:"), split(line_b)[0].startswith("ok:")
    if a_ok != b_ok:
        return False
    if not a_ok:
        return True
    if split(line_a)[0] == split(line_b)[0]:
        return True
    try:
        return bool(raw_a == raw_b) and "<fn>" not in split(line_a)[0]
    except Exception:
        return False


def sub_exprs(x):
    if isinstance(x, tuple):
        yield x
        for y in x:
            yield from sub_exprs(y)
    elif isinstance(x, list):
        for y in x:
            yield from sub_exprs(y)
    elif isinstance(x, dict):
        for y in x.values():
            yield from sub_exprs(y)


def has_option_read(x):
    return any(isinstance(t, tuple) and t and t[0] in ("option", "alloptions", "dataset", "template") for t in sub_exprs(x))


def templ_in_container(j, inside=False):
    if isinstance(j, S):
        return inside and any(t[0] in ("ref", "par") for t in j.toks)
    if isinstance(j, list):
        return any(templ_in_container(x, True) for x in j)
    if isinstance(j, dict):
        return any(templ_in_container(x, True) for x in j.values())
    return False


def default_presets(scn):
    """the pre-set dictionaries that YIELD to the caller: WithOptions(force=False) nodes, decorator
    default_options and with_default_options derivatives"""
    out = []
    for t in list(sub_exprs(scn["exprs"])) + list(sub_exprs(scn["env"])):
        if t and t[0] == "with" and t[1] is False and t[2]:
            out.append(t[2])
    for d in scn["env"].values():
        if d.get("default_options"):
            out.append(d["default_options"])
        if d.get("derived") is not None and d.get("how") == "with_default_options" and d.get("preset"):
            out.append(d["preset"])
    return out


def overlays_away(preset, o):
    """D26 zone: the caller's dictionary o holds a NON-section value where the yielding pre-set holds a
    section - the caller's value replaces the whole section, so the pre-set keys below it vanish from
    the mixed options although the caller's entry is reported by no keys()"""
    if not isinstance(preset, dict) or not isinstance(o, dict):
        return False
    for k, v in preset.items():
        if isinstance(v, dict) and k in o:
            if not isinstance(o[k], dict):
                return True
            if overlays_away(v, o[k]):
                return True
    return False


def in_zone_d26(scn, dicts):
    ps = default_presets(scn)
    return any(overlays_away(p, o) for p in ps for o in dicts if o is not None)


def zone_of(scn):
    """which recorded 'unreported read' finding a dirty scenario belongs to (syntactic features)"""
    dicts = [op[4] for op in scn["ops"]]
    if any(templ_in_container(v) for o in dicts for v in o.values()):
        return "D1"
    nodes = list(sub_exprs(scn["exprs"])) + list(sub_exprs(scn["env"]))
    for t in nodes:
        if t and t[0] == "case" and any(has_option_read(c) for c, _ in t[2]):
            return "D3"
        if t and t[0] == "option" and t[3] is not None and has_option_read(t[3]):
            return "D4"
    for d in scn["env"].values():
        if any(has_option_read(e) for e in d.get("effects", []) or []):
            return "D9"
    for t in nodes:
        if t and t[0] == "comp" and any(has_option_read(e) for e in t[2]):
            return "D9"
    return "D19"
